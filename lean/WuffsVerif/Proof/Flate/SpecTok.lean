/-
C16/C07: the RFC 1951 spec decoder `Spec.huffBlock` / `Spec.blocks` in token form (what one symbol of
a Huffman block does, independent of the output cap), and the first consequences: the output only
grows, and a capped run (`io.ReadFull` into a buffer) yields a prefix of the full run.
-/
import WuffsVerif.Model.Flate.Spec

namespace WuffsVerif.Flate.Spec

/-- What the symbol at bit `p` of a Huffman block does. -/
inductive Tok where
  | lit (b : UInt8) (p1 : Nat)
  | eob (p1 : Nat)
  | copy (len dist : Nat) (p1 : Nat)
  | bad (st : Status)
deriving Repr

/-- Decode one token (literal, end-of-block, or length/distance pair) at bit `p`; `outSize` is the
number of bytes available for a back-reference. -/
def huffTok (hl hd : Huff) (minL minD : Nat) (s : Bytes) (p outSize : Nat) : Tok :=
  match decodeSym hl s p minL with
  | .truncated => .bad .truncated
  | .corrupt => .bad .corrupt
  | .sym v p1 =>
    if v < 256 then .lit (UInt8.ofNat v) p1
    else if v = 256 then .eob p1
    else if v ≥ 286 then .bad .corrupt
    else
      if avail s p1 < lenExtra.getD (v - 257) 0 then .bad .truncated
      else
        match decodeSym hd s (p1 + lenExtra.getD (v - 257) 0) minD with
        | .truncated => .bad .truncated
        | .corrupt => .bad .corrupt
        | .sym dv p2 =>
          if dv ≥ 30 then .bad .corrupt
          else
            if avail s p2 < distExtra.getD dv 0 then .bad .truncated
            else
              if distBase.getD dv 0 + bitsLE s p2 (distExtra.getD dv 0) > outSize ∨
                  distBase.getD dv 0 + bitsLE s p2 (distExtra.getD dv 0) > windowSize then .bad .corrupt
              else .copy (lenBase.getD (v - 257) 0 + bitsLE s p1 (lenExtra.getD (v - 257) 0))
                (distBase.getD dv 0 + bitsLE s p2 (distExtra.getD dv 0)) (p2 + distExtra.getD dv 0)

/-- `huffBlock`, one token at a time. -/
theorem huffBlock_succ (hl hd : Huff) (minL minD : Nat) (s : Bytes) (cap : Option Nat) (lo fuel p : Nat)
    (out : Bytes) :
    huffBlock hl hd minL minD s cap lo (fuel + 1) p out =
      match huffTok hl hd minL minD s p out.size with
      | .lit b p1 =>
        if capReached cap ((out.push b).size - lo) then .stop .capped p1 (out.push b)
        else huffBlock hl hd minL minD s cap lo fuel p1 (out.push b)
      | .eob p1 => .next p1 out
      | .copy len dist p1 =>
        if capReached cap ((copyMatch out dist len).size - lo) then .stop .capped p1 (copyMatch out dist len)
        else huffBlock hl hd minL minD s cap lo fuel p1 (copyMatch out dist len)
      | .bad st => .stop st p out := by
  rw [huffBlock]
  simp only [huffTok]
  cases h1 : decodeSym hl s p minL with
  | truncated => rfl
  | corrupt => rfl
  | sym v p1 =>
    simp only []
    by_cases hv : v < 256
    · simp only [hv, if_true]
    · simp only [hv, if_false]
      by_cases hv2 : v = 256
      · simp only [hv2, if_true]
      · simp only [hv2, if_false]
        by_cases hv3 : v ≥ 286
        · simp only [hv3, if_true]
        · simp only [hv3, if_false]
          by_cases ha : avail s p1 < lenExtra.getD (v - 257) 0
          · simp only [ha, if_true]
          · simp only [ha, if_false]
            cases h2 : decodeSym hd s (p1 + lenExtra.getD (v - 257) 0) minD with
            | truncated => rfl
            | corrupt => rfl
            | sym dv p2 =>
              simp only []
              by_cases hd1 : dv ≥ 30
              · simp only [hd1, if_true]
              · simp only [hd1, if_false]
                by_cases ha2 : avail s p2 < distExtra.getD dv 0
                · simp only [ha2, if_true]
                · simp only [ha2, if_false]
                  by_cases hdist : distBase.getD dv 0 + bitsLE s p2 (distExtra.getD dv 0) > out.size ∨
                      distBase.getD dv 0 + bitsLE s p2 (distExtra.getD dv 0) > windowSize
                  · simp only [hdist, if_true]
                  · simp only [hdist, if_false]

/-- The body of one block (header bits at `p`). -/
def blockBody (s : Bytes) (cap : Option Nat) (lo p : Nat) (out : Bytes) : BlockResult :=
  if bitsLE s (p + 1) 2 = 0 then storedBlock s (p + 3) out
  else if bitsLE s (p + 1) 2 = 1 then huffBlock fixedLit fixedDist 7 5 s cap lo (8 * s.size + 1) (p + 3) out
  else if bitsLE s (p + 1) 2 = 2 then
    match dynamicHeader s (p + 3) with
    | .truncated => .stop .truncated p out
    | .corrupt => .stop .corrupt p out
    | .ok hl hd minL p1 => huffBlock hl hd minL hd.minLen s cap lo (8 * s.size + 1) p1 out
  else .stop .corrupt p out

theorem blocks_succ (s : Bytes) (cap : Option Nat) (lo fuel p : Nat) (out : Bytes) :
    blocks s cap lo (fuel + 1) p out =
      if avail s p < 3 then ⟨.truncated, p, out⟩
      else
        match blockBody s cap lo p out with
        | .stop st p out => ⟨st, p, out⟩
        | .next p1 out =>
          if bitAt s p = 1 then ⟨.done, p1, out⟩
          else if capReached cap (out.size - lo) then ⟨.capped, p1, out⟩
          else blocks s cap lo fuel p1 out := by
  rw [blocks]
  rfl

/-! ### the output only grows -/

theorem push_append (out : Bytes) (b : UInt8) (x : Bytes) : out.push b ++ x = out ++ (#[b] ++ x) := by
  apply Array.ext'; simp

theorem push_eq (out : Bytes) (b : UInt8) : out.push b = out ++ #[b] := by
  apply Array.ext'; simp

theorem copyMatch_append (out : Bytes) (dist : Nat) (n : Nat) :
    ∃ x : Bytes, copyMatch out dist n = out ++ x ∧ x.size = n := by
  induction n generalizing out with
  | zero => exact ⟨#[], by simp [copyMatch], rfl⟩
  | succ n ih =>
    obtain ⟨x, h1, h2⟩ := ih (out.push (out.getD (out.size - dist) 0))
    refine ⟨#[out.getD (out.size - dist) 0] ++ x, ?_, by simp [h2]; omega⟩
    rw [copyMatch, h1, push_append]

/-- What a capped run of a Huffman block has to do with the uncapped run that completes the block. -/
theorem huffBlock_cap (hl hd : Huff) (minL minD : Nat) (s : Bytes) (n lo : Nat) :
    ∀ (fuel p : Nat) (out : Bytes) (pE : Nat) (outE : Bytes),
    huffBlock hl hd minL minD s none lo fuel p out = .next pE outE →
    (∃ x, outE = out ++ x) ∧
    ((huffBlock hl hd minL minD s (some n) lo fuel p out = .next pE outE) ∨
     (∃ p' o rest, huffBlock hl hd minL minD s (some n) lo fuel p out = .stop .capped p' (out ++ o) ∧
        outE = out ++ o ++ rest ∧ n ≤ (out ++ o).size - lo)) := by
  intro fuel
  induction fuel with
  | zero => intro p out pE outE h; simp [huffBlock] at h
  | succ fuel ih =>
    intro p out pE outE h
    rw [huffBlock_succ] at h ⊢
    cases ht : huffTok hl hd minL minD s p out.size with
    | lit b p1 =>
      rw [ht] at h
      simp only [capReached, Bool.false_eq_true, if_false] at h
      obtain ⟨⟨x, hx⟩, hcap⟩ := ih p1 (out.push b) pE outE h
      have hx' : outE = out ++ (#[b] ++ x) := by rw [hx, push_append]
      refine ⟨⟨_, hx'⟩, ?_⟩
      simp only []
      by_cases hc : capReached (some n) ((out.push b).size - lo) = true
      · simp only [hc, if_true]
        right
        refine ⟨p1, #[b], x, by rw [push_eq], by rw [hx', Array.append_assoc], ?_⟩
        rw [push_eq] at hc
        simpa [capReached] using hc
      · simp only [hc, Bool.false_eq_true, if_false]
        rcases hcap with hcap | ⟨p', o, rest, e1, e2, e3⟩
        · left; exact hcap
        · right
          refine ⟨p', #[b] ++ o, rest, by rw [e1, push_append], by rw [e2, push_append, Array.append_assoc], ?_⟩
          rw [push_append] at e3
          exact e3
    | eob p1 =>
      rw [ht] at h
      simp only [] at h ⊢
      have := BlockResult.next.inj h
      obtain ⟨rfl, rfl⟩ := this
      exact ⟨⟨#[], by simp⟩, Or.inl rfl⟩
    | copy len dist p1 =>
      rw [ht] at h
      simp only [capReached, Bool.false_eq_true, if_false] at h
      obtain ⟨y, hy, _⟩ := copyMatch_append out dist len
      simp only []
      rw [hy] at h ⊢
      obtain ⟨⟨x, hx⟩, hcap⟩ := ih p1 (out ++ y) pE outE h
      have hx' : outE = out ++ (y ++ x) := by rw [hx, Array.append_assoc]
      refine ⟨⟨_, hx'⟩, ?_⟩
      by_cases hc : capReached (some n) ((out ++ y).size - lo) = true
      · simp only [hc, if_true]
        right
        refine ⟨p1, y, x, rfl, hx, ?_⟩
        simpa [capReached] using hc
      · simp only [hc, Bool.false_eq_true, if_false]
        rcases hcap with hcap | ⟨p', o, rest, e1, e2, e3⟩
        · left; exact hcap
        · right
          refine ⟨p', y ++ o, rest, by rw [e1, Array.append_assoc], by rw [e2]; simp only [Array.append_assoc], ?_⟩
          rw [Array.append_assoc] at e3
          exact e3
    | bad st =>
      rw [ht] at h
      simp at h

theorem huffTok_bad (hl hd : Huff) (minL minD : Nat) (s : Bytes) (p sz : Nat) (st : Status)
    (h : huffTok hl hd minL minD s p sz = .bad st) : st = .truncated ∨ st = .corrupt := by
  simp only [huffTok] at h
  repeat' split at h
  all_goals first
    | (cases h; simp; done)
    | (simp at h; done)

theorem huffBlock_stop (hl hd : Huff) (minL minD : Nat) (s : Bytes) (cap : Option Nat) (lo : Nat) :
    ∀ (fuel p : Nat) (out : Bytes) (st : Status) (p' : Nat) (out' : Bytes),
    huffBlock hl hd minL minD s cap lo fuel p out = .stop st p' out' → st ≠ .done := by
  intro fuel
  induction fuel with
  | zero => intro p out st p' out' h; simp [huffBlock] at h; rw [← h.1]; simp
  | succ fuel ih =>
    intro p out st p' out' h
    rw [huffBlock_succ] at h
    cases ht : huffTok hl hd minL minD s p out.size with
    | lit b p1 =>
      rw [ht] at h
      simp only [] at h
      split at h
      · simp at h; rw [← h.1]; simp
      · exact ih _ _ _ _ _ h
    | eob p1 => rw [ht] at h; simp at h
    | copy len dist p1 =>
      rw [ht] at h
      simp only [] at h
      split at h
      · simp at h; rw [← h.1]; simp
      · exact ih _ _ _ _ _ h
    | bad st' =>
      rw [ht] at h
      simp at h
      rw [← h.1]
      rcases huffTok_bad _ _ _ _ _ _ _ _ ht with h' | h' <;> rw [h'] <;> simp

theorem blockBody_stop (s : Bytes) (cap : Option Nat) (lo p : Nat) (out : Bytes) (st : Status) (p' : Nat)
    (out' : Bytes) (h : blockBody s cap lo p out = .stop st p' out') : st ≠ .done := by
  simp only [blockBody] at h
  repeat' split at h
  all_goals first
    | exact huffBlock_stop _ _ _ _ _ _ _ _ _ _ _ _ _ h
    | (simp only [storedBlock] at h
       repeat' split at h
       all_goals first
         | (simp at h; rw [← h.1]; simp; done)
         | (simp at h; done))
    | (simp at h; rw [← h.1]; simp; done)

theorem blockBody_cap (s : Bytes) (n lo p : Nat) (out : Bytes) (p1 : Nat) (out1 : Bytes)
    (h : blockBody s none lo p out = .next p1 out1) :
    (∃ x, out1 = out ++ x) ∧
    ((blockBody s (some n) lo p out = .next p1 out1) ∨
     (∃ p' o rest, blockBody s (some n) lo p out = .stop .capped p' (out ++ o) ∧
        out1 = out ++ o ++ rest ∧ n ≤ (out ++ o).size - lo)) := by
  simp only [blockBody] at h ⊢
  split at h
  · -- stored
    rename_i h0
    simp only [h0, if_true]
    refine ⟨?_, Or.inl h⟩
    simp only [storedBlock] at h
    repeat' split at h
    all_goals first
      | (simp at h; done)
      | (simp at h; exact ⟨_, h.2.symm⟩)
  · rename_i h0
    simp only [h0, if_false]
    split at h
    · rename_i h1
      simp only [h1, if_true]
      exact huffBlock_cap _ _ _ _ s n lo _ _ _ _ _ h
    · rename_i h1
      simp only [h1, if_false]
      split at h
      · rename_i h2
        simp only [h2, if_true]
        split at h
        · cases h
        · cases h
        · rename_i hl hd minL p1' hdyn
          exact huffBlock_cap _ _ _ _ s n lo _ _ _ _ _ h
      · simp at h

/-- **A capped run of the spec decoder (`io.ReadFull` into a buffer of `n` bytes) returns a prefix
of what the full run returns**: everything when it reaches the end, at least `n` bytes otherwise. -/
theorem blocks_cap (s : Bytes) (n lo : Nat) :
    ∀ (fuel p : Nat) (out : Bytes) (pE : Nat) (outE : Bytes),
    blocks s none lo fuel p out = ⟨.done, pE, outE⟩ →
    ∃ o rest, (blocks s (some n) lo fuel p out).out = out ++ o ∧ outE = out ++ o ++ rest ∧
      (((blocks s (some n) lo fuel p out).status = .done ∧ rest = #[]) ∨
       ((blocks s (some n) lo fuel p out).status = .capped ∧ n ≤ (out ++ o).size - lo)) := by
  intro fuel
  induction fuel with
  | zero => intro p out pE outE h; simp [blocks] at h
  | succ fuel ih =>
    intro p out pE outE h
    rw [blocks_succ] at h ⊢
    split at h
    · simp at h
    · rename_i hav
      simp only [hav, if_false]
      cases hb : blockBody s none lo p out with
      | stop st p' out' =>
        rw [hb] at h; simp at h
        exact absurd h.1 (blockBody_stop _ _ _ _ _ _ _ _ hb)
      | next p1 out1 =>
        rw [hb] at h
        simp only [] at h
        obtain ⟨⟨x, hx⟩, hcap⟩ := blockBody_cap s n lo p out p1 out1 hb
        subst hx
        -- what the full run does after this block
        have hrest : ∃ z, outE = out ++ x ++ z := by
          split at h
          · simp at h; exact ⟨#[], by rw [← h.2]; simp⟩
          · simp only [capReached, Bool.false_eq_true, if_false] at h
            obtain ⟨o, rest, _, e2, _⟩ := ih p1 (out ++ x) pE outE h
            exact ⟨o ++ rest, by rw [e2, Array.append_assoc]⟩
        obtain ⟨z, hz⟩ := hrest
        rcases hcap with hcap | ⟨p', o, rest, e1, e2, e3⟩
        · rw [hcap]
          simp only []
          split at h
          · rename_i hfin
            simp only [hfin, if_true]
            simp at h
            exact ⟨x, #[], by first | rfl | trivial, by rw [← h.2]; simp, Or.inl ⟨by first | rfl | trivial, rfl⟩⟩
          · rename_i hfin
            simp only [hfin, if_false]
            simp only [capReached, Bool.false_eq_true, if_false] at h
            by_cases hc : capReached (some n) ((out ++ x).size - lo) = true
            · simp only [hc, if_true]
              refine ⟨x, z, by first | rfl | trivial, hz, Or.inr ⟨by first | rfl | trivial, ?_⟩⟩
              simpa [capReached] using hc
            · simp only [hc, Bool.false_eq_true, if_false]
              obtain ⟨o, rest, e1, e2, e3⟩ := ih p1 (out ++ x) pE outE h
              refine ⟨x ++ o, rest, by rw [e1, Array.append_assoc], by rw [e2]; simp only [Array.append_assoc], ?_⟩
              rw [Array.append_assoc] at e3
              exact e3
        · rw [e1]
          simp only []
          exact ⟨o, rest ++ z, by first | rfl | trivial, by rw [hz, e2]; simp only [Array.append_assoc], Or.inr ⟨by first | rfl | trivial, e3⟩⟩

end WuffsVerif.Flate.Spec
