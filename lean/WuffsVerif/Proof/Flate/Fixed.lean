/-
C16: the fixed Huffman code (RFC 1951 §3.2.6) as the cutter and the spec build it, and the decoding of
a freshly written end-of-block code by the spec decoder.
-/
import WuffsVerif.Proof.Flate.FirstBlock
import WuffsVerif.Proof.Flate.SpecLen

namespace WuffsVerif.Flate.Cut
open WuffsVerif.Gen.C16 WuffsVerif.Flate.Spec

theorem static_ll : staticLengths.extract 0 288 = fixedLitLens := by
  apply Array.ext
  · simp [staticLengths, fixedLitLens]
  · intro i h1 h2
    simp only [staticLengths, Array.size_extract, Array.size_map, Array.size_range] at h1
    simp only [staticLengths, fixedLitLens, Array.getElem_extract, Array.getElem_map, Array.getElem_range,
      List.getElem_toArray, List.getElem_map, List.getElem_range, Nat.zero_add]
    have : i < 288 := by omega
    simp only [this, if_true]

theorem static_dl : staticLengths.extract 288 320 = fixedDistLens := by
  apply Array.ext
  · simp [staticLengths, fixedDistLens]
  · intro i h1 h2
    simp only [staticLengths, Array.size_extract, Array.size_map, Array.size_range] at h1
    simp only [staticLengths, fixedDistLens, Array.getElem_extract, Array.getElem_map, Array.getElem_range,
      Array.getElem_replicate]
    have a1 : ¬ (288 + i < 144) := by omega
    have a2 : ¬ (288 + i < 256) := by omega
    have a3 : ¬ (288 + i < 280) := by omega
    have a4 : ¬ (288 + i < 288) := by omega
    simp only [a1, a2, a3, a4, if_false]

set_option maxRecDepth 100000 in
theorem fixedLit_isSome : (mkHuff fixedLitLens).isSome = true := by decide +kernel

set_option maxRecDepth 100000 in
theorem fixedDist_isSome : (mkHuff fixedDistLens).isSome = true := by decide +kernel

theorem fixedLit_some : mkHuff fixedLitLens = some fixedLit := by
  have := fixedLit_isSome
  simp only [fixedLit]
  cases h : mkHuff fixedLitLens with
  | none => rw [h] at this; simp at this
  | some H => simp

theorem fixedDist_some : mkHuff fixedDistLens = some fixedDist := by
  have := fixedDist_isSome
  simp only [fixedDist]
  cases h : mkHuff fixedDistLens with
  | none => rw [h] at this; simp at this
  | some H => simp

theorem fixedLit_256 : fixedLitLens.size = 288 ∧ fixedLitLens.getD 256 0 = 7 := by
  constructor
  · simp [fixedLitLens]
  · simp [fixedLitLens, Array.getD]

theorem fixedDist_5 (i : Nat) (h : i < fixedDistLens.size) : fixedDistLens.getD i 0 = 5 := by
  simp only [fixedDistLens, Array.size_replicate] at h
  simp [fixedDistLens, Array.getD, h]

theorem fixedLit_nz : ∃ x ∈ fixedLitLens.toList, x ≠ 0 :=
  ⟨7, by simp only [fixedLitLens, List.toList_toArray, List.mem_map, List.mem_range]; exact ⟨256, by omega, by simp⟩, by omega⟩

theorem fixedDist_nz : ∃ x ∈ fixedDistLens.toList, x ≠ 0 :=
  ⟨5, by simp [fixedDistLens], by omega⟩

/-- Every distance code of the fixed code is 5 bits long. -/
theorem hminD_fixed (s : Bytes) : ∀ q dv p2, decodeSym fixedDist s q 5 = .sym dv p2 → q + 5 ≤ p2 := by
  intro q dv p2 h
  obtain ⟨a1, a2, a3⟩ := decodeSym_len fixedDistLens fixedDist fixedDist_some fixedDist_nz s q 5 dv p2 h
  rw [fixedDist_5 dv a1] at a2
  omega

/-- **The spec decoder decodes a freshly written end-of-block code**: if the bits at `q` are the RFC
code of symbol 256 (most significant bit first), `decodeGo` returns 256 and consumes its length. -/
theorem eob_decodes (h : Huffman) (ll : Array Nat) (hg : h.Good ll) (hnz : ∃ x ∈ ll.toList, x ≠ 0)
    (hl : Huff) (hH : mkHuff ll = some hl) (hoff : offAt ll 16 ≤ 288) (h256 : 256 < ll.size)
    (hL : ll.getD 256 0 ≠ 0) (s'' : Bytes) (q : Nat)
    (hbits : ∀ k, k < ll.getD 256 0 →
      bitAt s'' (q + k) = ((rfcCode ll 256).testBit (ll.getD 256 0 - 1 - k)).toNat)
    (hfit : q + ll.getD 256 0 ≤ 8 * s''.size) :
    decodeGo hl s'' q hl.maxLen 0 0 0 0 = .sym 256 (q + ll.getD 256 0) := by
  obtain ⟨hcount, hsyms, hm1, hm15, hzero⟩ := mkHuff_spec ll hl hH hnz
  have hls := lockstep h ll hl hg.canon hcount hsyms (by omega) s'' q hl.maxLen 0 0 0
    (by omega) (by omega) (by simp) (fun L h1 _ => hzero L (by omega))
  have e0 : offAt ll (0 + 1) = 0 := by simp [offAt, rfcBlCount]
  rw [e0] at hls
  simp only [Nat.sub_zero, Nat.zero_add, Nat.mul_zero] at hls
  generalize hLdef : ll.getD 256 0 = L at *
  have hL15 : L ≤ 15 := by rw [← hLdef]; apply hg.le15; simp [Array.getD, h256]
  have hstep := absLoop_canonical_step h ll hg.canon hg.noOver (fun j => streamBit s'' (q + j))
    (8 * s''.size - q) 0 256 L h256 hLdef (by omega) hL15
    (by
      intro k hk
      have := hbits k hk
      rw [bitAt_eq_streamBit] at this
      simp only [Nat.zero_add]
      cases h1 : streamBit s'' (q + k) <;> cases h2 : (rfcCode ll 256).testBit (L - 1 - k) <;> simp_all)
    (by omega) (L - 1) 1 (Nat.le_refl _) (by omega)
  have hC := (rfcCode_lt ll 256 h256 (by omega) (by omega) hg.noOver).2
  rw [hLdef] at hC
  have e0' : (rfcCode ll 256 >>> (L - 1 + 1)) * 2 = 0 := by
    have : L - 1 + 1 = L := by omega
    rw [this, Nat.shiftRight_eq_div_pow, Nat.div_eq_of_lt hC]
  have e1 : rfcNextCode ll 1 = 0 := by simp [rfcNextCode, rfcBlCount]
  have e2 : offAt ll 1 = 0 := by simp [offAt, rfcBlCount]
  rw [e0', e1, e2] at hstep
  simp only [Nat.zero_add, Nat.add_sub_cancel] at hstep
  have e3 : (16 - 1 : Nat) = 15 := rfl
  rw [e3] at hstep
  rw [hstep] at hls
  cases hr : decodeGo hl s'' q hl.maxLen 0 0 0 0 with
  | sym v p1 =>
    rw [hr] at hls
    obtain ⟨a1, a2, _, _⟩ := hls
    simp only [AbsRes.sym.injEq] at a1
    obtain ⟨b1, b2⟩ := a1
    have : v = 256 := by
      have : (Int.ofNat 256 : Int) = Int.ofNat v := b1
      have := Int.ofNat.inj this
      omega
    subst this
    have : p1 = q + L := by omega
    rw [this]
  | truncated => rw [hr] at hls; simp [AbsOfSpec] at hls
  | corrupt => rw [hr] at hls; simp [AbsOfSpec] at hls

end WuffsVerif.Flate.Cut
