/-
C16: totality of `slowDecode`, `decode`, `constructLookUpTable` and `construct` (part 2 of the
"no panic" development), and the bundle `Huffman.Good` of everything later proofs need to know
about a `huffman` that `construct` returned.
-/
import WuffsVerif.Proof.Flate.Safe
import WuffsVerif.Proof.Flate.Bounds

namespace WuffsVerif.Flate.Cut
open WuffsVerif.Gen.C16

/-- What a decoded symbol is: a symbol of the alphabet that has a code. -/
def Coded (lengths : Array Nat) (s : Int) : Prop :=
  ∃ j : Nat, s = Int.ofNat j ∧ j < lengths.size ∧ lengths.getD j 0 ≠ 0

theorem pow_le_32768 (i : Nat) (hi : i ≤ 15) : 2 ^ i ≤ 32768 := by
  have : (2 : Nat) ^ i ≤ 2 ^ 15 := Nat.pow_le_pow_right (by omega) hi
  simpa using this

/-- The abstract decoding loop never indexes `h.symbols` out of range and only returns coded
symbols, provided `h.counts` are the `bl_count`s of `lengths` and `h.symbols` is filled. -/
theorem absLoop_safe (h : Huffman) (lengths : Array Nat)
    (hcounts : ∀ j, 1 ≤ j → j ≤ 15 → h.counts.getD j 0 = rfcBlCount lengths j)
    (hv : SymsValid h lengths) (hoff : offAt lengths 16 < 2147483648)
    (bit : Nat → Bool) (avail : Nat) :
    ∀ (rem i code first k : Nat), i + rem = 16 → 1 ≤ i → first ≤ code → code < 2 ^ i →
      ∀ r, absLoop h bit avail rem i code first (offAt lengths i) k = r →
        r ≠ .panic ∧ ∀ s k', r = .sym s k' → Coded lengths s := by
  intro rem
  induction rem with
  | zero =>
    intro i code first k _ _ _ _ r hr
    simp only [absLoop] at hr
    subst hr
    exact ⟨by simp, by intro s k' h; cases h⟩
  | succ rem ih =>
    intro i code first k hi hi1 hfc hc r hr
    rw [absLoop] at hr
    by_cases hav : avail ≤ k
    · rw [if_pos hav] at hr
      subst hr
      exact ⟨by simp, by intro s k' h; cases h⟩
    · rw [if_neg hav] at hr
      simp only [] at hr
      have hi15 : i ≤ 15 := by omega
      have hp := pow_le_32768 i hi15
      have hbit : (bit k).toNat < 2 ^ i := by
        have : (bit k).toNat ≤ 1 := by cases bit k <;> simp
        have : 2 ≤ 2 ^ i := by
          calc 2 = 2 ^ 1 := rfl
            _ ≤ 2 ^ i := Nat.pow_le_pow_right (by omega) hi1
        omega
      have hc' : code ||| (bit k).toNat < 2 ^ i := Nat.or_lt_two_pow hc hbit
      have hge : code ≤ code ||| (bit k).toNat := Nat.left_le_or
      generalize code ||| (bit k).toNat = code' at hr hc' hge
      rw [hcounts i hi1 hi15] at hr
      have h16 := offAt_succ_le_16 lengths i hi15
      by_cases hlt : code' < rfcBlCount lengths i + first
      · rw [if_pos hlt] at hr
        have hidx : (offAt lengths i + code' + 4294967296 - first) % 4294967296 =
            offAt lengths i + (code' - first) := by omega
        rw [hidx] at hr
        obtain ⟨j, j1, j2, j3⟩ := hv (offAt lengths i + (code' - first)) (by omega)
        rw [j3] at hr
        subst hr
        refine ⟨by simp, ?_⟩
        intro s k' hs
        cases hs
        exact ⟨j, rfl, j1, j2⟩
      · rw [if_neg hlt] at hr
        have e1 : (code' <<< 1) % 4294967296 = 2 * code' := by
          rw [Nat.shiftLeft_eq]; omega
        have e2 : ((first + rfcBlCount lengths i) <<< 1) % 4294967296 = 2 * (first + rfcBlCount lengths i) := by
          rw [Nat.shiftLeft_eq]; omega
        rw [e1, e2] at hr
        have e3 : offAt lengths i + rfcBlCount lengths i = offAt lengths (i + 1) := rfl
        rw [e3] at hr
        exact ih (i + 1) (2 * code') (2 * (first + rfcBlCount lengths i)) (k + 1) (by omega) (by omega)
          (by omega) (by rw [Nat.pow_succ]; omega) r hr

/-- What `slowDecode`/`decode` guarantee from a cursor that satisfies the invariant. -/
def DecodeOK (lengths : Array Nat) (b : Bitstream) (c : Except Err (Int × Bitstream)) : Prop :=
  ∃ s b', c = .ok (s, b') ∧ b'.bytes = b.bytes ∧
    (0 ≤ s → Coded lengths s ∧ b'.Inv ∧ b.pos < b'.pos)

theorem slowDecode_total (h : Huffman) (lengths : Array Nat)
    (hcounts : ∀ j, 1 ≤ j → j ≤ 15 → h.counts.getD j 0 = rfcBlCount lengths j)
    (hv : SymsValid h lengths) (hoff : offAt lengths 16 < 2147483648)
    (b : Bitstream) (hb : b.Inv) : DecodeOK lengths b (h.slowDecode b) := by
  have href := slowDecodeLoop_refines h maxCodeBits 1 0 0 0 0 b.pos b hb rfl
  have e0 : offAt lengths 1 = 0 := by simp [offAt, rfcBlCount]
  have hsafe := absLoop_safe h lengths hcounts hv hoff (fun j => streamBit b.bytes (b.pos + j))
    (8 * b.bytes.size - b.pos) 15 1 0 0 0 (by omega) (by omega) (by omega) (by omega)
  rw [e0] at hsafe
  have e1 : maxCodeBits = 15 := rfl
  rw [e1] at href
  generalize hr : absLoop h (fun j => streamBit b.bytes (b.pos + j)) (8 * b.bytes.size - b.pos) 15 1 0 0 0 0 = r
    at href
  obtain ⟨hnp, hsym⟩ := hsafe r hr
  simp only [Huffman.slowDecode, e1]
  cases r with
  | sym s k' =>
    obtain ⟨b', r1, r2, r3, r4⟩ := href
    have hloc := absLoop_local h _ (fun j => streamBit b.bytes (b.pos + j)) _ (8 * b.bytes.size - b.pos)
      15 1 0 0 0 0 s k' hr
    exact ⟨s, b', r1, r4, fun _ => ⟨hsym s k' rfl, r2, by omega⟩⟩
  | fail =>
    obtain ⟨b', r1⟩ := href
    refine ⟨mostNegativeInt32, b', r1, ?_, ?_⟩
    · exact slowDecodeLoop_bytes h _ _ _ _ _ b _ b' r1
    · intro h0
      have := mostNeg_neg
      omega
  | panic => exact absurd rfl hnp

theorem decode_total (h : Huffman) (lengths : Array Nat)
    (hcounts : ∀ j, 1 ≤ j → j ≤ 15 → h.counts.getD j 0 = rfcBlCount lengths j)
    (hv : SymsValid h lengths) (hoff : offAt lengths 16 < 2147483648)
    (hsame : ∀ b : Bitstream, b.Inv → SameOutcome b.bytes (h.decode b) (h.slowDecode b))
    (b : Bitstream) (hb : b.Inv) : DecodeOK lengths b (h.decode b) := by
  obtain ⟨s, b2, e2, y2, p2⟩ := slowDecode_total h lengths hcounts hv hoff b hb
  have hs := hsame b hb
  rw [e2] at hs
  cases hd : h.decode b with
  | error e => rw [hd] at hs; exact hs.elim
  | ok p =>
    obtain ⟨s1, b1⟩ := p
    rw [hd] at hs
    obtain ⟨hs1, hrest⟩ := hs
    subst hs1
    refine ⟨s1, b1, rfl, decode_bytes h b s1 b1 hd, ?_⟩
    intro h0
    obtain ⟨q1, q2, q3, q4, q5⟩ := hrest h0
    obtain ⟨c1, c2, c3⟩ := p2 h0
    exact ⟨c1, q4, by omega⟩

/-! ### `constructLookUpTable` and `construct` never fail with a run-time panic -/

theorem constructLookUpTable_go_total (h : Huffman) (lengths : Array Nat)
    (hcounts : ∀ j, 1 ≤ j → j ≤ 15 → h.counts.getD j 0 = rfcBlCount lengths j)
    (hv : SymsValid h lengths) (hoff : offAt lengths 16 < 2147483648) (rem i : Nat) (t : Array Nat) :
    ∃ t', Huffman.constructLookUpTable.go h rem i t = .ok t' := by
  induction rem generalizing i t with
  | zero => exact ⟨t, rfl⟩
  | succ rem ih =>
    rw [Huffman.constructLookUpTable.go]
    obtain ⟨s, b', e, _, _⟩ := slowDecode_total h lengths hcounts hv hoff _ (inv_single i)
    rw [e]
    exact ih _ _

theorem constructLookUpTable_total (h : Huffman) (lengths : Array Nat)
    (hcounts : ∀ j, 1 ≤ j → j ≤ 15 → h.counts.getD j 0 = rfcBlCount lengths j)
    (hv : SymsValid h lengths) (hoff : offAt lengths 16 < 2147483648) :
    ∃ h', h.constructLookUpTable = .ok h' := by
  obtain ⟨t', e⟩ := constructLookUpTable_go_total h lengths hcounts hv hoff 256 0 h.lookUpTable
  simp only [Huffman.constructLookUpTable, e]
  exact ⟨_, rfl⟩

theorem countsOf_counts (lengths : Array Nat) : ∀ j, 1 ≤ j → j ≤ 15 →
    (lengths.foldl (fun c x => c.setIfInBounds x (c.getD x 0 + 1)) (Array.replicate (maxCodeBits + 1) 0)).getD j 0 =
      rfcBlCount lengths j := by
  intro j h1 h2
  rw [← Array.foldl_toList]
  have := countsOf_getD lengths.toList (Array.replicate (maxCodeBits + 1) 0) j (by simp [maxCodeBits]; omega)
  simp only [countsOf] at this
  rw [this]
  have hj : j ≠ 0 := by omega
  simp [rfcBlCount, hj, Array.getD, maxCodeBits]

/-- **`construct` never panics**: on lengths ≤ 15 with room for the coded symbols, its only
error is errInvalidBadHuffmanTree. -/
theorem construct_no_panic (h0 : Huffman) (lengths : Array Nat) (hle : ∀ x ∈ lengths.toList, x ≤ 15)
    (hoff : offAt lengths 16 ≤ h0.symbols.size) (hsz : h0.symbols.size < 2147483648) (e : Err)
    (hc : h0.construct lengths = .error e) : e = .badHuffmanTree := by
  simp only [Huffman.construct] at hc
  split at hc
  · rename_i hany
    rw [Array.any_eq_true] at hany
    obtain ⟨i, hi, hgt⟩ := hany
    have := hle lengths[i] (by simp)
    simp [maxCodeBits] at hgt
    omega
  · split at hc
    · simp at hc; exact hc.symm
    · split at hc
      · simp at hc; exact hc.symm
      · split at hc
        · simp at hc; exact hc.symm
        · have hcounts := countsOf_counts lengths
          obtain ⟨hosz, hoffs⟩ := constructOffsets_spec _ lengths hcounts
          obtain ⟨syms', e1, e2, e3⟩ := constructSymbols_total lengths hle lengths.size 0 _ h0.symbols
            (by omega) hosz (by intro L h1 h2; rw [hoffs L h1 h2]; simp [cntBelow]) hoff
            (by intro L r _ _ hr; simp [cntBelow] at hr)
          rw [e1] at hc
          simp only [] at hc
          have hh : ∃ h', Huffman.constructLookUpTable ⟨lengths.foldl (fun c x => c.setIfInBounds x (c.getD x 0 + 1)) (Array.replicate (maxCodeBits + 1) 0), syms', h0.lookUpTable⟩ = .ok h' :=
            constructLookUpTable_total _ lengths hcounts (symsValid_of_range _ lengths e3) (by omega)
          obtain ⟨h', e4⟩ := hh
          rw [e4] at hc
          simp at hc

/-- Everything the later proofs need of a `huffman` returned by `construct lengths`. -/
structure Huffman.Good (h : Huffman) (lengths : Array Nat) : Prop where
  canon : Canon h lengths
  valid : SymsValid h lengths
  tableOK : h.TableOK
  symsz : h.symbols.size = 288
  same : ∀ b : Bitstream, b.Inv → SameOutcome b.bytes (h.decode b) (h.slowDecode b)
  le15 : ∀ x ∈ lengths.toList, x ≤ 15
  noOver : NoOver lengths 15

theorem construct_good (h0 h : Huffman) (lengths : Array Nat) (ecb ecn : Nat)
    (hc : h0.construct lengths = .ok (h, ecb, ecn)) (h0ok : h0.TableOK) (h0sz : h0.symbols.size = 288)
    (hoff : offAt lengths 16 ≤ 288) (hlen : lengths.size ≤ 65536) : h.Good lengths := by
  obtain ⟨hle, hno, _, _⟩ := construct_facts h0 h lengths ecb ecn hc
  have hcan := construct_canon h0 h lengths ecb ecn hc
  obtain ⟨htab, hsame⟩ := construct_lookup_eq_slow h0 h lengths ecb ecn hc h0ok hlen
  have hc2 := hc
  simp only [Huffman.construct] at hc2
  repeat' split at hc2
  all_goals first
    | (simp at hc2; done)
    | skip
  rename_i syms hsyms _ hh hlut
  simp at hc2
  obtain ⟨rfl, _, _⟩ := hc2
  have hcounts := countsOf_counts lengths
  obtain ⟨hosz, hoffs⟩ := constructOffsets_spec _ lengths hcounts
  obtain ⟨syms', e1, e2, e3⟩ := constructSymbols_total lengths hle lengths.size 0 _ h0.symbols
    (by omega) hosz (by intro L h1 h2; rw [hoffs L h1 h2]; simp [cntBelow]) (by omega)
    (by intro L r _ _ hr; simp [cntBelow] at hr)
  rw [e1] at hsyms
  have hsy := Except.ok.inj hsyms
  subst hsy
  have hkeep := constructLookUpTable_size _ _ hlut h0ok.1
  refine ⟨hcan, ?_, htab, by rw [hkeep.2]; simpa [h0sz] using e2, hsame, hle, hno⟩
  have := symsValid_of_range ⟨#[], syms', h0.lookUpTable⟩ lengths e3
  intro idx hidx
  obtain ⟨j, j1, j2, j3⟩ := this idx hidx
  exact ⟨j, j1, j2, by rw [hkeep.2]; exact j3⟩

theorem Huffman.Good.decode {h : Huffman} {lengths : Array Nat} (hg : h.Good lengths)
    (hoff : offAt lengths 16 ≤ 288) (b : Bitstream) (hb : b.Inv) : DecodeOK lengths b (h.decode b) :=
  decode_total h lengths hg.canon.counts hg.valid (by omega) hg.same b hb

end WuffsVerif.Flate.Cut
