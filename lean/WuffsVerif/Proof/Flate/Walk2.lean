/-
C16: the cutter's walk over the symbols of a Huffman block is the spec decoder's walk.
Part 2: the loop — position, `decodedLen` and checkpoints against `Spec.huffBlock`.
-/
import WuffsVerif.Proof.Flate.Walk

namespace WuffsVerif.Flate.Cut
open WuffsVerif.Gen.C16 WuffsVerif.Flate.Spec

/-- `(p, out)` reaches the token boundary `(q, o)` inside a Huffman block of `s`: the spec decoder,
started at bit `p` with output `out`, decodes some literals and matches and then stands at bit `q`
with output `o`. -/
inductive Reach (hl hd : Huff) (minL minD : Nat) (s : Bytes) : Nat → Bytes → Nat → Bytes → Prop
  | refl (p : Nat) (out : Bytes) : Reach hl hd minL minD s p out p out
  | lit {p : Nat} {out : Bytes} {b : UInt8} {p1 q : Nat} {o : Bytes} :
      huffTok hl hd minL minD s p out.size = .lit b p1 → Reach hl hd minL minD s p1 (out.push b) q o →
      Reach hl hd minL minD s p out q o
  | copy {p : Nat} {out : Bytes} {len dist p1 q : Nat} {o : Bytes} :
      huffTok hl hd minL minD s p out.size = .copy len dist p1 →
      Reach hl hd minL minD s p1 (copyMatch out dist len) q o → Reach hl hd minL minD s p out q o

/-- What the symbol loop of `doHuffman` returns on a block that the spec decoder decodes completely. -/
structure Tracks (hl hd : Huff) (minL minD : Nat) (c : Cutter) (cp : Option (Nat × Nat)) (d0 : Int)
    (out : Bytes) (pE : Nat) (outE : Bytes) (r : Cutter × Option (Nat × Nat) × Option (Option Err)) : Prop where
  bytes : r.1.bits.bytes = c.bits.bytes
  /-- `return nil`: the whole block was walked -/
  done : r.2.2 = some none →
    r.1.bits.pos = pE ∧ r.1.decodedLen + (out.size : Int) = d0 + (outE.size : Int) ∧ pE ≤ 8 * c.maxEncodedLen
  /-- `break`: the budget ran out; the checkpoint is a token boundary of the spec's walk -/
  brk : r.2.2 = none →
    (r.2.1 = cp ∧ r.1.decodedLen = c.decodedLen) ∨
    ∃ ci cn q o, r.2.1 = some (ci, cn) ∧ 8 * ci - cn = q ∧ cn ≤ 8 * ci ∧
      Reach hl hd minL minD c.bits.bytes c.bits.pos out q o ∧ c.bits.pos < q ∧
      r.1.decodedLen + (out.size : Int) = d0 + (o.size : Int) ∧ q + c.endCodeNBits ≤ 8 * c.maxEncodedLen
  /-- the only error on a valid block is errInternalNoProgress (an empty block beyond the budget) -/
  err : ∀ e, r.2.2 = some (some e) → e = .noProgress ∧ r.1.decodedLen = c.decodedLen
  /-- … and it cannot happen once a checkpoint exists -/
  noerr : cp ≠ none → ∀ e, r.2.2 ≠ some (some e)

theorem BlockCtx.transport {c c' : Cutter} {ll dl : Array Nat} {hl hd : Huff} (h : BlockCtx c ll dl hl hd)
    (h1 : c'.lHuff = c.lHuff) (h2 : c'.dHuff = c.dHuff) : BlockCtx c' ll dl hl hd :=
  ⟨by rw [h1]; exact h.gl, by rw [h2]; exact h.gd, h.nzl, h.nzd, h.hl, h.hd, h.szl, h.szd⟩

/-- **The symbol loop of `doHuffman` tracks the spec decoder.** -/
theorem huffLoop_tracks (hl hd : Huff) (minL minD lo : Nat) (ll dl : Array Nat) :
    ∀ (fuelS fuelC : Nat) (c : Cutter) (cp : Option (Nat × Nat)) (d0 : Int) (out : Bytes) (pE : Nat) (outE : Bytes),
    c.OK → BlockCtx c ll dl hl hd → c.decodedLen = d0 → c.endCodeNBits = ll.getD 256 0 →
    (cp ≠ none → c.bits.pos + c.endCodeNBits ≤ 8 * c.maxEncodedLen) →
    huffBlock hl hd minL minD c.bits.bytes none lo fuelS c.bits.pos out = .next pE outE →
    0 ≤ d0 → d0 + (outE.size : Int) - (out.size : Int) < 2147483648 →
    8 * c.bits.bytes.size + 1 ≤ fuelC + c.bits.pos →
    Tracks hl hd minL minD c cp d0 out pE outE (Cutter.huffLoop fuelC c cp d0) := by
  intro fuelS
  induction fuelS with
  | zero => intro fuelC c cp d0 out pE outE _ _ _ _ _ h; simp [huffBlock] at h
  | succ fuelS ih =>
    intro fuelC c cp d0 out pE outE hc ctx hcd hecn hbud hspec hd0 hD hf
    have hpl := Inv.pos_le hc.inv
    obtain ⟨fC, rfl⟩ : ∃ f, fuelC = f + 1 := ⟨fuelC - 1, by omega⟩
    rw [huffBlock_succ] at hspec
    have htc := cut_tok c hc ll dl hl hd ctx minL minD out.size d0
    rw [Cutter.huffLoop]
    cases ht : huffTok hl hd minL minD c.bits.bytes c.bits.pos out.size with
    | bad st => rw [ht] at hspec; simp at hspec
    | eob p1 =>
      rw [ht] at hspec htc
      simp only [] at hspec
      obtain ⟨rfl, rfl⟩ := BlockResult.next.inj hspec
      obtain ⟨b1, e1, i1, q1, y1, _, hlenE⟩ := htc
      simp only [e1]
      have n0 : ¬ ((256 : Int) < 0) := by omega
      simp only [n0, if_false]
      rw [Cutter.huffStep]
      have n1 : ¬ ((256 : Int) < 256) := by omega
      have n2 : ¬ ((256 : Int) > 256) := by omega
      simp only [n1, n2, if_false]
      have hposb1 : b1.pos = 8 * b1.index - b1.nBits := rfl
      by_cases hchk : 8 * b1.index - b1.nBits > 8 * c.maxEncodedLen
      · simp only [hchk, if_true]
        refine ⟨y1, by intro h; simp at h, by intro h; simp at h, by intro e h; simp at h; exact ⟨h.symm, rfl⟩, ?_⟩
        intro hcp
        have := hbud hcp
        omega
      · simp only [hchk, if_false]
        refine ⟨y1, ?_, by intro h; simp at h, by intro e h; simp at h, by intro _ e h; simp at h⟩
        intro _
        refine ⟨q1, by simp [hcd], ?_⟩
        omega
    | lit b p1 =>
      rw [ht] at hspec htc
      simp only [capReached, Bool.false_eq_true, if_false] at hspec
      obtain ⟨v, b1, e1, hv0, hstep, i1, q1, y1, lt1⟩ := htc
      simp only [e1]
      have n0 : ¬ (v < 0) := by omega
      simp only [n0, if_false, hstep]
      obtain ⟨⟨x, hx⟩, _⟩ := huffBlock_cap hl hd minL minD c.bits.bytes 0 lo fuelS p1 (out.push b) pE outE hspec
      have hsz : outE.size = out.size + 1 + x.size := by rw [hx]; simp [Array.size_append]
      have hw : wrap32 (d0 + 1) = d0 + 1 := wrap32_range _ (by omega) (by omega)
      rw [hw]
      have nd : ¬ (d0 + 1 < 0) := by omega
      simp only [nd, if_false]
      split
      · -- budget exceeded: break with the old checkpoint
        exact ⟨y1, by intro h; simp at h, fun _ => Or.inl ⟨rfl, rfl⟩, by intro e h; simp at h, by intro _ e h; simp at h⟩
      · rename_i hbud
        have hc1 : ({ c with bits := b1, decodedLen := d0 + 1 } : Cutter).OK :=
          ⟨i1, by show c.maxEncodedLen ≤ b1.bytes.size; rw [y1]; exact hc.max, hc.l, hc.d⟩
        have hspec' : huffBlock hl hd minL minD ({ c with bits := b1, decodedLen := d0 + 1 } : Cutter).bits.bytes none lo
            fuelS ({ c with bits := b1, decodedLen := d0 + 1 } : Cutter).bits.pos (out.push b) = .next pE outE := by
          show huffBlock hl hd minL minD b1.bytes none lo fuelS b1.pos (out.push b) = .next pE outE
          rw [y1, q1]; exact hspec
        have hpush : (out.push b).size = out.size + 1 := by simp
        have := ih fC { c with bits := b1, decodedLen := d0 + 1 } (some (b1.index, b1.nBits)) (d0 + 1) (out.push b)
          pE outE hc1 (ctx.transport rfl rfl) rfl hecn
          (by intro _; show b1.pos + c.endCodeNBits ≤ 8 * c.maxEncodedLen
              have : b1.pos = 8 * b1.index - b1.nBits := rfl
              omega)
          hspec' (by omega) (by rw [hpush]; omega)
          (by show 8 * b1.bytes.size + 1 ≤ fC + b1.pos; rw [y1]; omega)
        obtain ⟨t1, t2, t3, t4, t5⟩ := this
        have hnoerr := t5 (by simp)
        refine ⟨t1.trans y1, ?_, ?_, fun e h => absurd h (hnoerr e), fun _ e => hnoerr e⟩
        · intro h
          obtain ⟨a1, a2, a3⟩ := t2 h
          exact ⟨a1, by rw [hpush] at a2; omega, a3⟩
        · intro h
          have hposb1 : b1.pos = 8 * b1.index - b1.nBits := rfl
          rcases t3 h with ⟨a1, a2⟩ | ⟨ci, cn, q, o, a1, a2, a3, a4, a5, a6, a7⟩
          · right
            refine ⟨b1.index, b1.nBits, p1, out.push b, a1, by omega, i1.nBits_le,
              Reach.lit ht (Reach.refl _ _), lt1, ?_, ?_⟩
            · rw [a2]; show d0 + 1 + (out.size : Int) = d0 + ((out.push b).size : Int); rw [hpush]; omega
            · omega
          · right
            refine ⟨ci, cn, q, o, a1, a2, a3, ?_, ?_, ?_, a7⟩
            · apply Reach.lit ht
              have : Reach hl hd minL minD b1.bytes b1.pos (out.push b) q o := a4
              rw [y1, q1] at this; exact this
            · have : b1.pos < q := a5
              omega
            · rw [hpush] at a6; omega
    | copy len dist p1 =>
      rw [ht] at hspec htc
      simp only [capReached, Bool.false_eq_true, if_false] at hspec
      obtain ⟨v, b1, b3, e1, hv0, hstep, i3, q3, y3, lt3⟩ := htc
      simp only [e1]
      have n0 : ¬ (v < 0) := by omega
      simp only [n0, if_false, hstep]
      obtain ⟨cm, hcm, hcmsz⟩ := copyMatch_append out dist len
      obtain ⟨⟨x, hx⟩, _⟩ := huffBlock_cap hl hd minL minD c.bits.bytes 0 lo fuelS p1 (copyMatch out dist len) pE outE hspec
      have hpush : (copyMatch out dist len).size = out.size + len := by rw [hcm]; simp [Array.size_append, hcmsz]
      have hsz : outE.size = out.size + len + x.size := by rw [hx]; simp [Array.size_append, hpush]
      have hw : wrap32 (d0 + (len : Int)) = d0 + (len : Int) := wrap32_range _ (by omega) (by omega)
      rw [hw]
      have nd : ¬ (d0 + (len : Int) < 0) := by omega
      simp only [nd, if_false]
      split
      · exact ⟨y3, by intro h; simp at h, fun _ => Or.inl ⟨rfl, rfl⟩, by intro e h; simp at h, by intro _ e h; simp at h⟩
      · rename_i hbud
        have hc1 : ({ c with bits := b3, decodedLen := d0 + (len : Int) } : Cutter).OK :=
          ⟨i3, by show c.maxEncodedLen ≤ b3.bytes.size; rw [y3]; exact hc.max, hc.l, hc.d⟩
        have hspec' : huffBlock hl hd minL minD ({ c with bits := b3, decodedLen := d0 + (len : Int) } : Cutter).bits.bytes none lo
            fuelS ({ c with bits := b3, decodedLen := d0 + (len : Int) } : Cutter).bits.pos (copyMatch out dist len) = .next pE outE := by
          show huffBlock hl hd minL minD b3.bytes none lo fuelS b3.pos (copyMatch out dist len) = .next pE outE
          rw [y3, q3]; exact hspec
        have := ih fC { c with bits := b3, decodedLen := d0 + (len : Int) } (some (b3.index, b3.nBits)) (d0 + (len : Int))
          (copyMatch out dist len) pE outE hc1 (ctx.transport rfl rfl) rfl hecn
          (by intro _; show b3.pos + c.endCodeNBits ≤ 8 * c.maxEncodedLen
              have : b3.pos = 8 * b3.index - b3.nBits := rfl
              omega)
          hspec' (by omega) (by rw [hpush]; omega)
          (by show 8 * b3.bytes.size + 1 ≤ fC + b3.pos; rw [y3]; omega)
        obtain ⟨t1, t2, t3, t4, t5⟩ := this
        have hnoerr := t5 (by simp)
        refine ⟨t1.trans y3, ?_, ?_, fun e h => absurd h (hnoerr e), fun _ e => hnoerr e⟩
        · intro h
          obtain ⟨a1, a2, a3⟩ := t2 h
          exact ⟨a1, by rw [hpush] at a2; omega, a3⟩
        · intro h
          have hposb3 : b3.pos = 8 * b3.index - b3.nBits := rfl
          rcases t3 h with ⟨a1, a2⟩ | ⟨ci, cn, q, o, a1, a2, a3, a4, a5, a6, a7⟩
          · right
            refine ⟨b3.index, b3.nBits, p1, copyMatch out dist len, a1, by omega, i3.nBits_le,
              Reach.copy ht (Reach.refl _ _), lt3, ?_, ?_⟩
            · rw [a2]; show d0 + (len : Int) + (out.size : Int) = d0 + ((copyMatch out dist len).size : Int)
              rw [hpush]; omega
            · omega
          · right
            refine ⟨ci, cn, q, o, a1, a2, a3, ?_, ?_, ?_, a7⟩
            · apply Reach.copy ht
              have : Reach hl hd minL minD b3.bytes b3.pos (copyMatch out dist len) q o := a4
              rw [y3, q3] at this; exact this
            · have : b3.pos < q := a5
              omega
            · rw [hpush] at a6; omega

end WuffsVerif.Flate.Cut
