/-
Sanity theorems about the spec decoder (Model/Flate/Spec.lean): stored blocks.
-/
import WuffsVerif.Model.Flate.Spec

namespace WuffsVerif.Flate.Spec

/-! ### bit reader at a byte boundary -/

theorem bitAt_byte (s : Bytes) (q k : Nat) (hk : k < 8) :
    bitAt s (8 * q + k) = ((s.getD q 0).toNat >>> k) % 2 := by
  unfold bitAt
  have h1 : (8 * q + k) / 8 = q := by omega
  have h2 : (8 * q + k) % 8 = k := by omega
  rw [h1, h2]

theorem avail_byte (s : Bytes) (q : Nat) (hq : q < s.size) : 8 ≤ avail s (8 * q) := by
  unfold avail; omega

/-- The three header bits at a byte boundary. -/
theorem header_bits (s : Bytes) (q : Nat) :
    bitAt s (8 * q) = (s.getD q 0).toNat % 2 ∧
    bitsLE s (8 * q + 1) 2 = ((s.getD q 0).toNat / 2) % 4 := by
  constructor
  · have := bitAt_byte s q 0 (by omega); simpa using this
  · simp only [bitsLE]
    have h1 := bitAt_byte s q 1 (by omega)
    have h2 := bitAt_byte s q 2 (by omega)
    rw [show 8 * q + 1 + 1 = 8 * q + 2 by omega, h1, h2]
    simp only [Nat.shiftRight_eq_div_pow]
    omega

/-! ### one stored block -/

theorem storedBlock_at (s : Bytes) (q len : Nat) (out : Bytes)
    (hsz : q + 5 + len ≤ s.size)
    (hl : (s.getD (q + 1) 0).toNat + 256 * (s.getD (q + 2) 0).toNat = len)
    (hn : (s.getD (q + 3) 0).toNat + 256 * (s.getD (q + 4) 0).toNat = 65535 - len)
    (hlen : len ≤ 65535) :
    storedBlock s (8 * q + 3) out = .next (8 * (q + 5 + len)) (out ++ s.extract (q + 5) (q + 5 + len)) := by
  unfold storedBlock
  have hq : (8 * q + 3 + 7) / 8 = q + 1 := by omega
  simp only [hq]
  have e1 : q + 1 + 1 = q + 2 := rfl
  have e2 : q + 1 + 2 = q + 3 := rfl
  have e3 : q + 1 + 3 = q + 4 := rfl
  have e4 : q + 1 + 4 = q + 5 := rfl
  rw [e1, e2, e3, e4, hl, hn]
  have a1 : ¬ (q + 5 > s.size) := by omega
  have a2 : ¬ (len + (65535 - len) ≠ 65535) := by omega
  have a3 : ¬ (q + 5 + len > s.size) := by omega
  simp [a1, a2, a3]

/-! ### streams made of stored blocks -/

/-- A stored block carrying `d` sits at byte `q` of `s`; `fin` is its BFINAL bit.  The five
padding bits of the header byte are arbitrary. -/
structure BlkAt (s : Bytes) (q : Nat) (d : Bytes) (fin : Bool) : Prop where
  hdr : (s.getD q 0).toNat % 8 = (if fin then 1 else 0)
  len : (s.getD (q + 1) 0).toNat + 256 * (s.getD (q + 2) 0).toNat = d.size
  nlen : (s.getD (q + 3) 0).toNat + 256 * (s.getD (q + 4) 0).toNat = 65535 - d.size
  le : d.size ≤ 65535
  fits : q + 5 + d.size ≤ s.size
  data : s.extract (q + 5) (q + 5 + d.size) = d

/-- Non-final stored blocks carrying `ds`, back to back from byte `q`. -/
def Run (s : Bytes) : Nat → List Bytes → Prop
  | _, [] => True
  | q, d :: ds => BlkAt s q d false ∧ Run s (q + 5 + d.size) ds

/-- Byte offset just after the blocks `ds` that start at `q`. -/
def endOf : Nat → List Bytes → Nat
  | q, [] => q
  | q, d :: ds => endOf (q + 5 + d.size) ds

/-- Concatenation of the block payloads. -/
def flat : List Bytes → Bytes
  | [] => #[]
  | d :: ds => d ++ flat ds

theorem endOf_ge (q : Nat) (ds : List Bytes) : q + 5 * ds.length ≤ endOf q ds := by
  induction ds generalizing q with
  | nil => simp [endOf]
  | cons d ds ih => have := ih (q + 5 + d.size); simp [endOf, List.length_cons] at *; omega

/-- One step of the block loop over a stored block at a byte boundary. -/
theorem blocks_blk (s : Bytes) (cap : Option Nat) (lo fuel q : Nat) (out d : Bytes) (fin : Bool)
    (hb : BlkAt s q d fin) :
    blocks s cap lo (fuel + 1) (8 * q) out =
      if fin then ⟨.done, 8 * (q + 5 + d.size), out ++ d⟩
      else if capReached cap ((out ++ d).size - lo) then ⟨.capped, 8 * (q + 5 + d.size), out ++ d⟩
      else blocks s cap lo fuel (8 * (q + 5 + d.size)) (out ++ d) := by
  have hq : q < s.size := by have := hb.fits; omega
  have hav : ¬ avail s (8 * q) < 3 := by have := avail_byte s q hq; omega
  obtain ⟨hfin, htyp⟩ := header_bits s q
  have hh := hb.hdr
  have hst := storedBlock_at s q d.size out hb.fits hb.len hb.nlen hb.le
  rw [hb.data] at hst
  generalize (s.getD q 0).toNat = hv at hfin htyp hh
  have ht : bitsLE s (8 * q + 1) 2 = 0 := by rw [htyp]; split at hh <;> omega
  have hf : bitAt s (8 * q) = if fin then 1 else 0 := by rw [hfin]; split at hh <;> simp_all <;> omega
  rw [blocks]
  simp only [hav, if_false, ht, if_true, hst, hf]
  cases fin <;> simp

/-- The spec decoder on a stream of stored blocks (any padding bits, any trailing bytes). -/
theorem blocks_run (s : Bytes) (lo fuel q : Nat) (out : Bytes) (ds : List Bytes) (dl : Bytes)
    (hr : Run s q ds) (hl : BlkAt s (endOf q ds) dl true) (hf : ds.length < fuel) :
    blocks s none lo fuel (8 * q) out =
      ⟨.done, 8 * (endOf q ds + 5 + dl.size), out ++ flat ds ++ dl⟩ := by
  induction ds generalizing q out fuel with
  | nil =>
    obtain ⟨f, rfl⟩ : ∃ f, fuel = f + 1 := ⟨fuel - 1, by simp at hf; omega⟩
    simp only [endOf] at hl ⊢
    rw [blocks_blk s none lo f q out dl true hl]
    simp [flat]
  | cons d ds ih =>
    obtain ⟨f, rfl⟩ : ∃ f, fuel = f + 1 := ⟨fuel - 1, by simp at hf; omega⟩
    obtain ⟨hb, hr'⟩ := hr
    simp only [endOf] at hl ⊢
    rw [blocks_blk s none lo f q out d false hb]
    simp only [capReached, Bool.false_eq_true, if_false]
    rw [ih (q := q + 5 + d.size) (out := out ++ d) (fuel := f) hr' hl (by simp at hf; omega)]
    simp [flat, Array.append_assoc]

/-- Without a preset dictionary `inflateRaw` is the block loop from bit 0. -/
theorem inflateRaw_nodict (s : Bytes) (cap : Option Nat) :
    inflateRaw #[] s cap =
      { blocks s cap 0 (8 * s.size + 1) 0 #[] with
        out := (blocks s cap 0 (8 * s.size + 1) 0 #[]).out.extract 0 (blocks s cap 0 (8 * s.size + 1) 0 #[]).out.size } := by
  have h0 : ¬ (0 > windowSize) := by simp [windowSize]
  simp only [inflateRaw, Array.size_empty, h0, if_false]

/-- **`inflate` of a stream of stored blocks** is the concatenation of the payloads, and the
number of bytes used is the end of the final block. -/
theorem inflate_stored (s : Bytes) (ds : List Bytes) (dl : Bytes)
    (hr : Run s 0 ds) (hl : BlkAt s (endOf 0 ds) dl true) :
    inflate s = some (flat ds ++ dl, endOf 0 ds + 5 + dl.size) := by
  have hlen : ds.length < 8 * s.size + 1 := by
    have := endOf_ge 0 ds; have := hl.fits; omega
  have := blocks_run s 0 (8 * s.size + 1) 0 #[] ds dl hr hl hlen
  simp only [inflate, inflateDict, inflateRaw_nodict, Nat.mul_zero] at this ⊢
  rw [this]
  simp
  refine ⟨?_, by omega⟩
  rw [Array.extract_eq_self_of_le (by omega)]

/-- With an output cap (`io.ReadFull` into a buffer of `n` bytes): the decoder stops after a whole
number of blocks, with a prefix of the full output that is either everything or at least `n` bytes. -/
theorem blocks_run_cap (s : Bytes) (n lo fuel q : Nat) (out : Bytes) (ds : List Bytes) (dl : Bytes)
    (hr : Run s q ds) (hl : BlkAt s (endOf q ds) dl true) (hf : ds.length < fuel) :
    ∃ o rest, (blocks s (some n) lo fuel (8 * q) out).out = out ++ o ∧ flat ds ++ dl = o ++ rest ∧
      (((blocks s (some n) lo fuel (8 * q) out).status = .done ∧ rest = #[]) ∨
       ((blocks s (some n) lo fuel (8 * q) out).status = .capped ∧ n ≤ (out ++ o).size - lo)) := by
  induction ds generalizing q out fuel with
  | nil =>
    obtain ⟨f, rfl⟩ : ∃ f, fuel = f + 1 := ⟨fuel - 1, by simp at hf; omega⟩
    simp only [endOf] at hl
    rw [blocks_blk s (some n) lo f q out dl true hl]
    exact ⟨dl, #[], by simp, by simp [flat], Or.inl ⟨by simp, rfl⟩⟩
  | cons d ds ih =>
    obtain ⟨f, rfl⟩ : ∃ f, fuel = f + 1 := ⟨fuel - 1, by simp at hf; omega⟩
    obtain ⟨hb, hr'⟩ := hr
    simp only [endOf] at hl
    rw [blocks_blk s (some n) lo f q out d false hb]
    simp only [Bool.false_eq_true, if_false]
    split
    · rename_i hc
      refine ⟨d, flat ds ++ dl, by simp, by simp [flat, Array.append_assoc], Or.inr ⟨by simp, ?_⟩⟩
      simpa [capReached] using hc
    · obtain ⟨o, rest, h1, h2, h3⟩ := ih (q := q + 5 + d.size) (out := out ++ d) (fuel := f) hr' hl
        (by simp at hf; omega)
      refine ⟨d ++ o, rest, by rw [h1]; simp [Array.append_assoc], by simp [flat, Array.append_assoc, h2], ?_⟩
      rcases h3 with h3 | h3
      · exact Or.inl h3
      · exact Or.inr ⟨h3.1, by simpa [Array.append_assoc] using h3.2⟩

/-! ### transporting the block structure to a modified buffer -/

/-- `s'` has the same bytes as `s` at positions `lo ≤ i < hi`. -/
def AgreeOn (s s' : Bytes) (lo hi : Nat) : Prop := ∀ i, lo ≤ i → i < hi → s'.getD i 0 = s.getD i 0

theorem AgreeOn.mono {s s' : Bytes} {lo hi lo' hi' : Nat} (h : AgreeOn s s' lo hi) (h1 : lo ≤ lo') (h2 : hi' ≤ hi) :
    AgreeOn s s' lo' hi' := fun i a b => h i (by omega) (by omega)

theorem extract_eq_of_agree (s s' : Bytes) (a b : Nat) (h : AgreeOn s s' a b) (hs : b ≤ s.size) (hs' : b ≤ s'.size) :
    s'.extract a b = s.extract a b := by
  apply Array.ext
  · simp [Array.size_extract]; omega
  · intro i h1 h2
    simp only [Array.size_extract] at h1 h2
    have := h (a + i) (by omega) (by omega)
    have e1 : a + i < s'.size := by omega
    have e2 : a + i < s.size := by omega
    rw [Array.getD_eq_getD_getElem?, Array.getD_eq_getD_getElem?] at this
    simp only [Array.getElem?_eq_getElem e1, Array.getElem?_eq_getElem e2, Option.getD_some] at this
    simp [Array.getElem_extract, this]

theorem BlkAt.transport {s s' : Bytes} {q : Nat} {d : Bytes} {fin : Bool} (hb : BlkAt s q d fin)
    (ha : AgreeOn s s' q (q + 5 + d.size)) (hs' : q + 5 + d.size ≤ s'.size) : BlkAt s' q d fin := by
  have hf := hb.fits
  refine ⟨?_, ?_, ?_, hb.le, hs', ?_⟩
  · rw [ha q (by omega) (by omega)]; exact hb.hdr
  · rw [ha (q + 1) (by omega) (by omega), ha (q + 2) (by omega) (by omega)]; exact hb.len
  · rw [ha (q + 3) (by omega) (by omega), ha (q + 4) (by omega) (by omega)]; exact hb.nlen
  · rw [extract_eq_of_agree s s' (q + 5) (q + 5 + d.size) (ha.mono (by omega) (by omega)) hf hs']
    exact hb.data

theorem endOf_mono (q : Nat) (ds : List Bytes) : q ≤ endOf q ds := by
  have := endOf_ge q ds; omega

theorem Run.transport {s s' : Bytes} {q : Nat} {ds : List Bytes} (hr : Run s q ds)
    (ha : AgreeOn s s' q (endOf q ds)) (hs' : endOf q ds ≤ s'.size) : Run s' q ds := by
  induction ds generalizing q with
  | nil => trivial
  | cons d ds ih =>
    obtain ⟨hb, hr'⟩ := hr
    simp only [endOf] at ha hs'
    have hm := endOf_mono (q + 5 + d.size) ds
    exact ⟨hb.transport (ha.mono (by omega) hm) (by omega), ih hr' (ha.mono (by omega) (by omega)) hs'⟩

theorem Run.append {s : Bytes} {q : Nat} {ds es : List Bytes} (h1 : Run s q ds) (h2 : Run s (endOf q ds) es) :
    Run s q (ds ++ es) := by
  induction ds generalizing q with
  | nil => simpa [endOf] using h2
  | cons d ds ih => exact ⟨h1.1, ih h1.2 (by simpa [endOf] using h2)⟩

theorem endOf_append (q : Nat) (ds es : List Bytes) : endOf q (ds ++ es) = endOf (endOf q ds) es := by
  induction ds generalizing q with
  | nil => simp [endOf]
  | cons d ds ih => simp [endOf, ih]

theorem flat_append (ds es : List Bytes) : flat (ds ++ es) = flat ds ++ flat es := by
  induction ds with
  | nil => simp [flat]
  | cons d ds ih => simp [flat, ih, Array.append_assoc]

theorem flat_size_le_endOf (q : Nat) (ds : List Bytes) : q + (flat ds).size ≤ endOf q ds := by
  induction ds generalizing q with
  | nil => simp [flat, endOf]
  | cons d ds ih => have := ih (q + 5 + d.size); simp [flat, endOf] at *; omega

end WuffsVerif.Flate.Spec
