/-
Sanity theorems about the spec decoder (Model/Flate/Spec.lean): stored blocks.
-/
import WuffsVerif.Model.Flate.Spec

namespace WuffsVerif.Flate.Spec

/-! ### bit reader at a byte boundary -/

theorem bitAt_byte (s : Bytes) (q k : Nat) (hk : k < 8) :
    bitAt s (8 * q + k) = ((s.getD q 0).toNat >>> k) % 2 := by
  unfold bitAt
  have h1 : (8 * q + k) / 8 = q := by omega
  have h2 : (8 * q + k) % 8 = k := by omega
  rw [h1, h2]

theorem avail_byte (s : Bytes) (q : Nat) (hq : q < s.size) : 8 ≤ avail s (8 * q) := by
  unfold avail; omega

/-- The three header bits at a byte boundary. -/
theorem header_bits (s : Bytes) (q : Nat) :
    bitAt s (8 * q) = (s.getD q 0).toNat % 2 ∧
    bitsLE s (8 * q + 1) 2 = ((s.getD q 0).toNat / 2) % 4 := by
  constructor
  · have := bitAt_byte s q 0 (by omega); simpa using this
  · simp only [bitsLE]
    have h1 := bitAt_byte s q 1 (by omega)
    have h2 := bitAt_byte s q 2 (by omega)
    rw [show 8 * q + 1 + 1 = 8 * q + 2 by omega, h1, h2]
    simp only [Nat.shiftRight_eq_div_pow]
    omega

/-! ### one stored block -/

theorem storedBlock_at (s : Bytes) (q len : Nat) (out : Bytes)
    (hsz : q + 5 + len ≤ s.size)
    (hl : (s.getD (q + 1) 0).toNat + 256 * (s.getD (q + 2) 0).toNat = len)
    (hn : (s.getD (q + 3) 0).toNat + 256 * (s.getD (q + 4) 0).toNat = 65535 - len)
    (hlen : len ≤ 65535) :
    storedBlock s (8 * q + 3) out = .next (8 * (q + 5 + len)) (out ++ s.extract (q + 5) (q + 5 + len)) := by
  unfold storedBlock
  have hq : (8 * q + 3 + 7) / 8 = q + 1 := by omega
  simp only [hq]
  have e1 : q + 1 + 1 = q + 2 := rfl
  have e2 : q + 1 + 2 = q + 3 := rfl
  have e3 : q + 1 + 3 = q + 4 := rfl
  have e4 : q + 1 + 4 = q + 5 := rfl
  rw [e1, e2, e3, e4, hl, hn]
  have a1 : ¬ (q + 5 > s.size) := by omega
  have a2 : ¬ (len + (65535 - len) ≠ 65535) := by omega
  have a3 : ¬ (q + 5 + len > s.size) := by omega
  simp [a1, a2, a3]

end WuffsVerif.Flate.Spec
