/-
C16: `huffman.construct` is TOTAL (never indexes out of range) on every length vector the cutter
can hand it, and the decoders built from it never index out of range and only ever return symbols
that have a code.  Part 1 of the "no panic, no fuel" development (`cut_total`).
-/
import WuffsVerif.Proof.Flate.Canonical3
import WuffsVerif.Proof.Flate.Lookup4

namespace WuffsVerif.Flate.Cut
open WuffsVerif.Gen.C16

/-! ### how many symbols have a code -/

/-- `offAt` over a list. -/
def offL (l : List Nat) : Nat → Nat
  | 0 => 0
  | L + 1 => offL l L + (if L = 0 then 0 else (l.filter (· = L)).length)

theorem offAt_eq_offL (lengths : Array Nat) (n : Nat) : offAt lengths n = offL lengths.toList n := by
  induction n with
  | zero => rfl
  | succ n ih => simp only [offAt, offL, ih, rfcBlCount]

theorem offL_cons (x : Nat) (l : List Nat) (n : Nat) :
    offL (x :: l) n = offL l n + (if x ≠ 0 ∧ x < n then 1 else 0) := by
  induction n with
  | zero => simp [offL]
  | succ n ih =>
    simp only [offL, ih, List.filter_cons]
    by_cases hn : n = 0
    · subst hn; simp
    · by_cases hx : x = n
      · subst hx
        simp [hn]
        omega
      · simp only [hn, if_false, hx, decide_false]
        have : (x ≠ 0 ∧ x < n + 1) ↔ (x ≠ 0 ∧ x < n) := by omega
        simp only [this]
        split <;> simp <;> omega

theorem offL_le (l : List Nat) (n : Nat) : offL l n ≤ l.length := by
  induction l with
  | nil =>
    induction n with
    | zero => simp [offL]
    | succ n ih => simp [offL] at *; exact ih
  | cons x l ih =>
    rw [offL_cons]
    simp only [List.length_cons]
    split <;> omega

/-- The number of coded symbols is at most the size of the alphabet. -/
theorem offAt_le_size (lengths : Array Nat) (n : Nat) : offAt lengths n ≤ lengths.size := by
  rw [offAt_eq_offL]
  simpa using offL_le lengths.toList n

/-- … and at most `k` when only the first `k` symbols can have a code. -/
theorem offL_le_of_zero (l : List Nat) (k n : Nat) (hz : ∀ i, k ≤ i → l.getD i 0 = 0) : offL l n ≤ k := by
  induction l generalizing k with
  | nil =>
    have : offL [] n = 0 := by
      induction n with
      | zero => rfl
      | succ n ih => simp [offL, ih]
    omega
  | cons x l ih =>
    rw [offL_cons]
    rcases Nat.eq_zero_or_pos k with hk | hk
    · subst hk
      have hx : x = 0 := by simpa using hz 0 (Nat.le_refl _)
      have := ih 0 (fun i _ => by simpa using hz (i + 1) (by omega))
      simp [hx]; omega
    · have := ih (k - 1) (fun i hi => by
        have := hz (i + 1) (by omega)
        simpa using this)
      split <;> omega

theorem offAt_le_of_zero (lengths : Array Nat) (k n : Nat) (hz : ∀ i, k ≤ i → lengths.getD i 0 = 0) :
    offAt lengths n ≤ k := by
  rw [offAt_eq_offL]
  apply offL_le_of_zero
  intro i hi
  have := hz i hi
  simpa [Array.getD_eq_getD_getElem?, List.getD_eq_getElem?_getD] using this

/-- Every index below `offAt n` lies in the range of exactly one length. -/
theorem idx_decomp (lengths : Array Nat) (n idx : Nat) (h : idx < offAt lengths n) :
    ∃ L r, L < n ∧ r < rfcBlCount lengths L ∧ idx = offAt lengths L + r := by
  induction n with
  | zero => simp [offAt] at h
  | succ n ih =>
    simp only [offAt] at h
    rcases Nat.lt_or_ge idx (offAt lengths n) with h1 | h1
    · obtain ⟨L, r, a, b, c⟩ := ih h1
      exact ⟨L, r, by omega, b, c⟩
    · exact ⟨n, idx - offAt lengths n, by omega, by omega, by omega⟩

theorem cntBelow_size (lengths : Array Nat) (L : Nat) (hL : L ≠ 0) :
    cntBelow lengths lengths.size L = rfcBlCount lengths L := by
  simp only [cntBelow, rfcBlCount, hL, if_false]
  rw [List.take_of_length_le (by simp)]

/-! ### the counting sort never writes out of range, and fills every slot with a coded symbol -/

/-- Every slot below the fill marks holds a symbol of that length. -/
def RangeValid (lengths : Array Nat) (t : Nat) (syms : Array Int) : Prop :=
  ∀ L r, 1 ≤ L → L ≤ 15 → r < cntBelow lengths t L →
    ∃ j, j < t ∧ j < lengths.size ∧ lengths.getD j 0 = L ∧ syms[offAt lengths L + r]? = some (Int.ofNat j)

theorem offAt_succ_le_16 (lengths : Array Nat) (L : Nat) (hL : L ≤ 15) :
    offAt lengths L + rfcBlCount lengths L ≤ offAt lengths 16 :=
  offAt_mono lengths L 16 (by omega)

theorem constructSymbols_total (lengths : Array Nat) (hle : ∀ x ∈ lengths.toList, x ≤ 15)
    (rem t : Nat) (offs : Array Nat) (syms : Array Int)
    (ht : t + rem = lengths.size) (hoffsz : offs.size = 16)
    (ha : ∀ L, 1 ≤ L → L ≤ 15 → offs.getD L 0 = offAt lengths L + cntBelow lengths t L)
    (hsz : offAt lengths 16 ≤ syms.size) (hv : RangeValid lengths t syms) :
    ∃ syms', constructSymbols lengths rem t offs syms = .ok syms' ∧ syms'.size = syms.size ∧
      RangeValid lengths lengths.size syms' := by
  induction rem generalizing t offs syms with
  | zero =>
    have : t = lengths.size := by omega
    subst this
    exact ⟨syms, by simp [constructSymbols], rfl, hv⟩
  | succ rem ih =>
    have htlt : t < lengths.size := by omega
    have hL15 : lengths.getD t 0 ≤ 15 := by
      apply hle; simp [Array.getD, htlt]
    rw [constructSymbols]
    generalize hLdef : lengths.getD t 0 = L at hL15
    by_cases hL0 : L ≠ 0
    · rw [if_pos hL0]
      have ho : offs.getD L 0 = offAt lengths L + cntBelow lengths t L := ha _ (by omega) hL15
      have hcs := cntBelow_succ lengths t L htlt
      rw [hLdef] at hcs
      simp only [if_true] at hcs
      have hcl := cntBelow_le lengths (t + 1) L hL0
      have h16 := offAt_succ_le_16 lengths L hL15
      have hosz : offs.getD L 0 < syms.size := by omega
      rw [if_pos hosz]
      obtain ⟨syms', e1, e2, e3⟩ := ih (t + 1) (offs.setIfInBounds L (offs.getD L 0 + 1))
        (syms.setIfInBounds (offs.getD L 0) (Int.ofNat t)) (by omega) (by simp [hoffsz])
        (by
          intro L' h1 h2
          rw [cntBelow_succ lengths t L' htlt, hLdef]
          simp only [Array.getD_eq_getD_getElem?, Array.getElem?_setIfInBounds]
          by_cases hLL : L = L'
          · subst hLL
            have hlt16 : L < offs.size := by omega
            simp only [if_true, hlt16, Option.getD_some]
            simp only [Array.getD_eq_getD_getElem?] at ho
            omega
          · have := ha L' h1 h2
            simp only [Array.getD_eq_getD_getElem?] at this
            simp [hLL, this])
        (by simpa using hsz)
        (by
          intro L' r h1 h2 hr
          rw [cntBelow_succ lengths t L' htlt, hLdef] at hr
          by_cases hLL : L = L'
          · subst hLL
            simp only [if_true] at hr
            rcases Nat.lt_or_ge r (cntBelow lengths t L) with hr1 | hr1
            · obtain ⟨j, j1, j2, j3, j4⟩ := hv L r h1 h2 hr1
              refine ⟨j, by omega, j2, j3, ?_⟩
              rw [Array.getElem?_setIfInBounds_ne (by omega)]
              exact j4
            · have : r = cntBelow lengths t L := by omega
              subst this
              refine ⟨t, by omega, htlt, hLdef, ?_⟩
              rw [← ho, Array.getElem?_setIfInBounds]
              simp only [if_true]
              rw [if_pos hosz]
          · simp only [hLL, if_false, Nat.add_zero] at hr
            obtain ⟨j, j1, j2, j3, j4⟩ := hv L' r h1 h2 hr
            refine ⟨j, by omega, j2, j3, ?_⟩
            have hcl' := cntBelow_le lengths t L' (by omega)
            have hne : offs.getD L 0 ≠ offAt lengths L' + r := by
              rcases Nat.lt_or_ge L' L with hlt | hge
              · have := offAt_mono lengths L' L hlt; omega
              · have := offAt_mono lengths L L' (by omega); omega
            rw [Array.getElem?_setIfInBounds_ne hne]
            exact j4)
      exact ⟨syms', e1, by simpa using e2, e3⟩
    · have hz : L = 0 := by omega
      rw [if_neg hL0]
      apply ih (t + 1) offs syms (by omega) hoffsz _ hsz
      · intro L' r h1 h2 hr
        rw [cntBelow_succ lengths t L' htlt, hLdef] at hr
        have : ¬ (L = L') := by omega
        simp only [this, if_false, Nat.add_zero] at hr
        obtain ⟨j, j1, j2, j3, j4⟩ := hv L' r h1 h2 hr
        exact ⟨j, by omega, j2, j3, j4⟩
      · intro L' h1 h2
        rw [cntBelow_succ lengths t L' htlt, ha L' h1 h2, hLdef]
        have : ¬ (L = L') := by omega
        simp [this]

/-- Every slot below the number of coded symbols holds a coded symbol. -/
def SymsValid (h : Huffman) (lengths : Array Nat) : Prop :=
  ∀ idx, idx < offAt lengths 16 →
    ∃ j, j < lengths.size ∧ lengths.getD j 0 ≠ 0 ∧ h.symbols[idx]? = some (Int.ofNat j)

theorem symsValid_of_range (h : Huffman) (lengths : Array Nat)
    (hv : RangeValid lengths lengths.size h.symbols) : SymsValid h lengths := by
  intro idx hidx
  obtain ⟨L, r, h1, h2, h3⟩ := idx_decomp lengths 16 idx hidx
  have hL0 : L ≠ 0 := by
    intro h0; subst h0; simp [rfcBlCount] at h2
  obtain ⟨j, _, j2, j3, j4⟩ := hv L r (by omega) (by omega) (by rw [cntBelow_size lengths L hL0]; exact h2)
  exact ⟨j, j2, by omega, by rw [h3]; exact j4⟩

end WuffsVerif.Flate.Cut
