/-
C16: "the whole original when the limit is not smaller than the stream" — when a block ends inside the
budget, the cutter walks it completely (part 1: the symbol loop of `doHuffman`).
-/
import WuffsVerif.Proof.Flate.ZlibPrefix

namespace WuffsVerif.Flate.Cut
open WuffsVerif.Gen.C16 WuffsVerif.Flate.Spec

/-- The end of a block that the spec decoder completes lies `ll[256]` bits behind every token start. -/
theorem block_end_ge (hl hd : Huff) (minL minD : Nat) (ll : Array Nat) (hHl : mkHuff ll = some hl)
    (hnz : ∃ x ∈ ll.toList, x ≠ 0) (s : Bytes) (fuel p : Nat) (out : Bytes) (pE : Nat) (outE : Bytes)
    (h : huffBlock hl hd minL minD s none 0 fuel p out = .next pE outE) : p + ll.getD 256 0 ≤ pE := by
  obtain ⟨qE, hr, heob⟩ := spec_reach hl hd minL minD 0 s _ _ _ _ _ h
  have hsym := huffTok_eob _ _ _ _ _ _ _ _ heob
  obtain ⟨_, a2, a3⟩ := decodeSym_len ll hl hHl hnz s qE minL 256 pE hsym
  have := hr.le
  omega

/-- **If the block ends inside the budget, the symbol loop walks it to its end** (`return nil`). -/
theorem huffLoop_full (hl hd : Huff) (minL minD : Nat) (ll dl : Array Nat) :
    ∀ (fuelS fuelC : Nat) (c : Cutter) (cp : Option (Nat × Nat)) (d0 : Int) (out : Bytes) (pE : Nat) (outE : Bytes),
    c.OK → BlockCtx c ll dl hl hd → c.endCodeNBits = ll.getD 256 0 →
    huffBlock hl hd minL minD c.bits.bytes none 0 fuelS c.bits.pos out = .next pE outE →
    pE ≤ 8 * c.maxEncodedLen →
    0 ≤ d0 → d0 + (outE.size : Int) - (out.size : Int) < 2147483648 →
    8 * c.bits.bytes.size + 1 ≤ fuelC + c.bits.pos →
    (Cutter.huffLoop fuelC c cp d0).2.2 = some none := by
  intro fuelS
  induction fuelS with
  | zero => intro fuelC c cp d0 out pE outE _ _ _ h; simp [huffBlock] at h
  | succ fuelS ih =>
    intro fuelC c cp d0 out pE outE hc ctx hecn hspec hfit hd0 hD hf
    have hpl := Inv.pos_le hc.inv
    obtain ⟨fC, rfl⟩ : ∃ f, fuelC = f + 1 := ⟨fuelC - 1, by omega⟩
    rw [huffBlock_succ] at hspec
    have htc := cut_tok c hc ll dl hl hd ctx minL minD out.size d0
    rw [Cutter.huffLoop]
    cases ht : huffTok hl hd minL minD c.bits.bytes c.bits.pos out.size with
    | bad st => rw [ht] at hspec; simp at hspec
    | eob p1 =>
      rw [ht] at hspec htc
      simp only [] at hspec
      obtain ⟨rfl, rfl⟩ := BlockResult.next.inj hspec
      obtain ⟨b1, e1, i1, q1, y1, _, _⟩ := htc
      simp only [e1]
      have n0 : ¬ ((256 : Int) < 0) := by omega
      simp only [n0, if_false]
      rw [Cutter.huffStep]
      have n1 : ¬ ((256 : Int) < 256) := by omega
      have n2 : ¬ ((256 : Int) > 256) := by omega
      simp only [n1, n2, if_false]
      have hposb1 : b1.pos = 8 * b1.index - b1.nBits := rfl
      have hchk : ¬ (8 * b1.index - b1.nBits > 8 * c.maxEncodedLen) := by omega
      simp only [hchk, if_false]
    | lit b p1 =>
      rw [ht] at hspec htc
      simp only [capReached, Bool.false_eq_true, if_false] at hspec
      obtain ⟨v, b1, e1, hv0, hstep, i1, q1, y1, lt1⟩ := htc
      simp only [e1]
      have n0 : ¬ (v < 0) := by omega
      simp only [n0, if_false, hstep]
      obtain ⟨⟨x, hx⟩, _⟩ := huffBlock_cap hl hd minL minD c.bits.bytes 0 0 fuelS p1 (out.push b) pE outE hspec
      have hsz : outE.size = out.size + 1 + x.size := by rw [hx]; simp [Array.size_append]
      have hw : wrap32 (d0 + 1) = d0 + 1 := wrap32_range _ (by omega) (by omega)
      rw [hw]
      have nd : ¬ (d0 + 1 < 0) := by omega
      simp only [nd, if_false]
      have hge := block_end_ge hl hd minL minD ll ctx.hl ctx.nzl c.bits.bytes fuelS p1 (out.push b) pE outE hspec
      have hposb1 : b1.pos = 8 * b1.index - b1.nBits := rfl
      have hbud : ¬ (8 * b1.index - b1.nBits + c.endCodeNBits > 8 * c.maxEncodedLen) := by omega
      simp only [hbud, if_false]
      have hpush : (out.push b).size = out.size + 1 := by simp
      exact ih fC { c with bits := b1, decodedLen := d0 + 1 } (some (b1.index, b1.nBits)) (d0 + 1) (out.push b) pE outE
        ⟨i1, by show c.maxEncodedLen ≤ b1.bytes.size; rw [y1]; exact hc.max, hc.l, hc.d⟩ (ctx.transport rfl rfl) hecn
        (by show huffBlock hl hd minL minD b1.bytes none 0 fuelS b1.pos (out.push b) = .next pE outE
            rw [y1, q1]; exact hspec)
        hfit (by omega) (by rw [hpush]; omega)
        (by show 8 * b1.bytes.size + 1 ≤ fC + b1.pos; rw [y1]; omega)
    | copy len dist p1 =>
      rw [ht] at hspec htc
      simp only [capReached, Bool.false_eq_true, if_false] at hspec
      obtain ⟨v, b1, b3, e1, hv0, hstep, i3, q3, y3, lt3⟩ := htc
      simp only [e1]
      have n0 : ¬ (v < 0) := by omega
      simp only [n0, if_false, hstep]
      obtain ⟨cm, hcm, hcmsz⟩ := copyMatch_append out dist len
      obtain ⟨⟨x, hx⟩, _⟩ := huffBlock_cap hl hd minL minD c.bits.bytes 0 0 fuelS p1 (copyMatch out dist len) pE outE hspec
      have hpush : (copyMatch out dist len).size = out.size + len := by rw [hcm]; simp [Array.size_append, hcmsz]
      have hsz : outE.size = out.size + len + x.size := by rw [hx]; simp [Array.size_append, hpush]
      have hw : wrap32 (d0 + (len : Int)) = d0 + (len : Int) := wrap32_range _ (by omega) (by omega)
      rw [hw]
      have nd : ¬ (d0 + (len : Int) < 0) := by omega
      simp only [nd, if_false]
      have hge := block_end_ge hl hd minL minD ll ctx.hl ctx.nzl c.bits.bytes fuelS p1 (copyMatch out dist len) pE outE hspec
      have hposb3 : b3.pos = 8 * b3.index - b3.nBits := rfl
      have hbud : ¬ (8 * b3.index - b3.nBits + c.endCodeNBits > 8 * c.maxEncodedLen) := by omega
      simp only [hbud, if_false]
      exact ih fC { c with bits := b3, decodedLen := d0 + (len : Int) } (some (b3.index, b3.nBits)) (d0 + (len : Int))
        (copyMatch out dist len) pE outE
        ⟨i3, by show c.maxEncodedLen ≤ b3.bytes.size; rw [y3]; exact hc.max, hc.l, hc.d⟩ (ctx.transport rfl rfl) hecn
        (by show huffBlock hl hd minL minD b3.bytes none 0 fuelS b3.pos (copyMatch out dist len) = .next pE outE
            rw [y3, q3]; exact hspec)
        hfit (by omega) (by rw [hpush]; omega)
        (by show 8 * b3.bytes.size + 1 ≤ fC + b3.pos; rw [y3]; omega)

/-- "not one of the three internal outcomes that end the walk" -/
def Walked (r : Cutter × Option Err) : Prop :=
  r.2 = none ∨ ∃ e, r.2 = some e ∧ e ≠ .noProgress ∧ e ≠ .someProgress ∧ e ≠ .replaceWithSingleBlock

theorem huffTail_full (c : Cutter) (hc : c.OK) (ll dl : Array Nat) (hl hd : Huff) (ctx : BlockCtx c ll dl hl hd)
    (minL minD fuelS pE : Nat) (out T : Bytes)
    (hspec : huffBlock hl hd minL minD c.bits.bytes none 0 fuelS c.bits.pos out = .next pE T)
    (k : Nat) (hcd : c.decodedLen + (k : Int) = (out.size : Int)) (hc0 : 0 ≤ c.decodedLen) (hT : (T.size : Int) < 2147483648)
    (hecn' : c.endCodeNBits = ll.getD 256 0) (hfit : pE ≤ 8 * c.maxEncodedLen) (isFirst : Bool) :
    (c.huffTail isFirst).2 = none := by
  have hfull := huffLoop_full hl hd minL minD ll dl fuelS (8 * c.bits.bytes.size + 2) c none c.decodedLen out pE T hc ctx
    hecn' hspec hfit (by omega) (by omega) (by omega)
  simp only [Cutter.huffTail]
  generalize Cutter.huffLoop (8 * c.bits.bytes.size + 2) c none c.decodedLen = res at hfull
  obtain ⟨c1, cp, r⟩ := res
  simp only [] at hfull
  subst hfull
  rfl

theorem doHuffman_full (c : Cutter) (hc : c.OK) (ll dl : Array Nat) (hl hd : Huff)
    (hHl : mkHuff ll = some hl) (hHd : mkHuff dl = some hd) (hll : ll.size ≤ 288) (hdl : dl.size ≤ 32)
    (minL minD fuelS pE : Nat) (out T : Bytes)
    (hspec : huffBlock hl hd minL minD c.bits.bytes none 0 fuelS c.bits.pos out = .next pE T)
    (k : Nat) (hcd : c.decodedLen + (k : Int) = (out.size : Int)) (hc0 : 0 ≤ c.decodedLen) (hT : (T.size : Int) < 2147483648)
    (hfit : pE ≤ 8 * c.maxEncodedLen) (isFirst : Bool) : Walked (c.doHuffman isFirst ll dl) := by
  rw [doHuffman_eq]
  have hlo := offAt16_le ll 288 hll
  have hdo : offAt dl 16 ≤ 288 := offAt16_le dl 288 (by omega)
  cases h1 : c.lHuff.construct ll with
  | error e =>
    right
    rcases construct_err _ _ _ h1 with rfl | rfl <;> exact ⟨_, rfl, by simp, by simp, by simp⟩
  | ok p =>
    obtain ⟨lh, ecb, ecn⟩ := p
    simp only []
    have hgl := construct_good c.lHuff lh ll ecb ecn h1 hc.l.tableOK hc.l.symsz hlo (by omega)
    have hnzl := construct_nz c.lHuff lh ll ecb ecn h1
    have hend := endCode_canonical c.lHuff lh ll ecb ecn h1
    by_cases hecn : ecn = 0
    · simp only [hecn, if_true]
      right; exact ⟨_, rfl, by simp, by simp, by simp⟩
    · have hcond : ll.size > 256 ∧ ll.getD 256 0 ≠ 0 := by
        by_cases hc' : ll.size > 256 ∧ ll.getD 256 0 ≠ 0
        · exact hc'
        · rw [if_neg hc'] at hend; exact absurd hend hecn
      rw [if_pos hcond] at hend
      obtain ⟨rfl, rfl, _⟩ := hend
      have hL0 := hcond.2
      have hge := block_end_ge hl hd minL minD ll hHl hnzl c.bits.bytes fuelS c.bits.pos out pE T hspec
      generalize hL : ll.getD 256 0 = L at *
      simp only [hecn, if_false]
      cases h2 : c.dHuff.construct dl with
      | error e =>
        right
        rcases construct_err _ _ _ h2 with rfl | rfl <;> exact ⟨_, rfl, by simp, by simp, by simp⟩
      | ok p2 =>
        obtain ⟨dh, decb, decn⟩ := p2
        simp only []
        have hgd := construct_good c.dHuff dh dl _ _ h2 hc.d.tableOK hc.d.symsz hdo (by omega)
        have hnzd := construct_nz c.dHuff dh dl _ _ h2
        obtain ⟨hu, hup⟩ := Inv.unread hc.inv
        have hidx : ¬ (c.bits.unread.index > c.maxEncodedLen) := by
          have := hu.nBits_le
          have hnb := unread_nBits_lt c.bits
          have : c.bits.unread.pos = 8 * c.bits.unread.index - c.bits.unread.nBits := rfl
          omega
        simp only [hidx, if_false]
        left
        have hc3 : (⟨c.bits.unread, c.maxEncodedLen, c.decodedLen, rfcCode ll 256, L, lh, dh⟩ : Cutter).OK :=
          ⟨hu, hc.max, hgl.shape, hgd.shape⟩
        have ctx : BlockCtx (⟨c.bits.unread, c.maxEncodedLen, c.decodedLen, rfcCode ll 256, L, lh, dh⟩ : Cutter)
            ll dl hl hd := ⟨hgl, hgd, hnzl, hnzd, hHl, hHd, hll, hdl⟩
        exact huffTail_full _ hc3 ll dl hl hd ctx minL minD fuelS pE out T
          (by show huffBlock hl hd minL minD c.bits.unread.bytes none 0 fuelS c.bits.unread.pos out = .next pE T
              rw [hup]; exact hspec)
          k hcd hc0 hT hL.symm hfit isFirst

attribute [local irreducible] Spec.fixedLitLens Spec.fixedDistLens Spec.fixedLit Spec.fixedDist

theorem fixed_full (s : Bytes) (c : Cutter) (hc : c.OK) (hb : c.bits.bytes = s) (p : Nat)
    (hp : c.bits.pos = p + 3) (out : Bytes) (p1 : Nat) (out1 : Bytes) (hty : bitsLE s (p + 1) 2 = 1)
    (hbody : blockBody s none 0 p out = .next p1 out1) (k : Nat) (hcd : c.decodedLen + (k : Int) = (out.size : Int)) (hc0 : 0 ≤ c.decodedLen)
    (hT : (out1.size : Int) < 2147483648) (hfit : p1 ≤ 8 * c.maxEncodedLen) (isFirst : Bool) :
    Walked (c.doStaticHuffman isFirst) := by
  have e1 : ¬ ((1 : Nat) = 0) := by omega
  have hspec : huffBlock fixedLit fixedDist 7 5 s none 0 (8 * s.size + 1) (p + 3) out = .next p1 out1 := by
    simpa only [blockBody, hty, e1, if_false, if_true] using hbody
  simp only [Cutter.doStaticHuffman]
  rw [static_ll, static_dl]
  exact doHuffman_full c hc fixedLitLens fixedDistLens fixedLit fixedDist fixedLit_some fixedDist_some
    (by rw [fixedLit_256.1]; omega) (by rw [fixedDist_size]; omega) 7 5 (8 * s.size + 1) p1 out out1
    (by rw [hb, hp]; exact hspec) k hcd hc0 hT hfit isFirst

theorem dynamic_full (s : Bytes) (c : Cutter) (hc : c.OK) (hb : c.bits.bytes = s) (p : Nat)
    (hp : c.bits.pos = p + 3) (out : Bytes) (p1 : Nat) (out1 : Bytes) (hty : bitsLE s (p + 1) 2 = 2)
    (hbody : blockBody s none 0 p out = .next p1 out1) (k : Nat) (hcd : c.decodedLen + (k : Int) = (out.size : Int)) (hc0 : 0 ≤ c.decodedLen)
    (hT : (out1.size : Int) < 2147483648) (hfit : p1 ≤ 8 * c.maxEncodedLen) (isFirst : Bool) :
    Walked (c.doDynamicHuffman isFirst) := by
  have e0 : ¬ ((2 : Nat) = 0) := by omega
  have e1 : ¬ ((2 : Nat) = 1) := by omega
  simp only [blockBody, hty, e0, e1, if_false, if_true] at hbody
  cases hdh : dynamicHeader s (p + 3) with
  | truncated => rw [hdh] at hbody; simp at hbody
  | corrupt => rw [hdh] at hbody; simp at hbody
  | ok hl hd minL ph =>
    rw [hdh] at hbody
    simp only [] at hbody
    obtain ⟨lens, hcH, d⟩ := dynamicHeader_ok s (p + 3) hl hd minL ph hdh
    rcases doDynamicHuffman_eq s c hc hb (p + 3) hp hl hd minL ph lens hcH d isFirst with
      ⟨c', e, he, hee⟩ | ⟨bits5, lh, he, i5, y5, q5, shl, hlsz⟩
    · rw [he]
      right
      rcases hee with rfl | rfl <;> exact ⟨_, rfl, by simp, by simp, by simp⟩
    · rw [he]
      have hnlit := d.nlit
      have hndist := d.ndist
      have hmax := hc.max
      rw [hb] at hmax
      exact doHuffman_full ⟨bits5, c.maxEncodedLen, c.decodedLen, c.endCodeBits, c.endCodeNBits, lh, c.dHuff⟩
        ⟨i5, by show c.maxEncodedLen ≤ bits5.bytes.size; rw [y5]; exact hmax, shl, hc.d⟩ _ _ hl hd
        d.hlE d.hdE (by simp [Array.size_extract]; omega) (by simp [Array.size_extract]; omega) minL hd.minLen
        (8 * s.size + 1) p1 out out1
        (by show huffBlock hl hd minL hd.minLen bits5.bytes none 0 (8 * s.size + 1) bits5.pos out = .next p1 out1
            rw [y5, q5]; exact hbody)
        k hcd hc0 hT hfit isFirst

theorem stored_full (s : Bytes) (c : Cutter) (hc : c.OK) (hb : c.bits.bytes = s) (p : Nat)
    (hp : c.bits.pos = p + 3) (out : Bytes) (p1 : Nat) (out1 : Bytes) (hty : bitsLE s (p + 1) 2 = 0)
    (hbody : blockBody s none 0 p out = .next p1 out1) (k : Nat) (hcd : c.decodedLen + (k : Int) = (out.size : Int)) (hc0 : 0 ≤ c.decodedLen)
    (hT : (out1.size : Int) < 2147483648) (hfit : p1 ≤ 8 * c.maxEncodedLen) : Walked c.doStored := by
  obtain ⟨g1, g2, g3, g4, g5⟩ := stored_body s p out p1 out1 hty hbody
  generalize hqd : (p + 3 + 7) / 8 = q at *
  obtain ⟨hu, hup⟩ := Inv.unread hc.inv
  have hnb := unread_nBits_lt c.bits
  have hidx : c.bits.unread.index = q := by
    have := hu.nBits_le
    have h1 : 8 * c.bits.unread.index - c.bits.unread.nBits = p + 3 := by
      have : c.bits.unread.pos = p + 3 := by rw [hup, hp]
      exact this
    omega
  have hub : c.bits.unread.bytes = s := by rw [unread_bytes, hb]
  generalize hlend : (s.getD q 0).toNat + 256 * (s.getD (q + 1) 0).toNat = len at *
  have hesz : (s.extract (q + 4) (q + 4 + len)).size = len := by simp [Array.size_extract]; omega
  have ho1 : out1.size = out.size + len := by rw [g5]; simp [Array.size_append, hesz]
  left
  simp only [Cutter.doStored, hidx, hub]
  have hfit' : ¬ (c.maxEncodedLen < q ∨ c.maxEncodedLen - q < 4) := by omega
  simp only [hfit', if_false]
  rw [getElem?_eq_getD s q (by omega), getElem?_eq_getD s (q + 1) (by omega), getElem?_eq_getD s (q + 2) (by omega),
    getElem?_eq_getD s (q + 3) (by omega)]
  simp only []
  rw [or_shl8 _ _ (s.getD q 0).toNat_lt, or_shl8 _ _ (s.getD (q + 2) 0).toNat_lt, hlend]
  have hsum : ¬ (len + ((s.getD (q + 2) 0).toNat + 256 * (s.getD (q + 3) 0).toNat) ≠ 0xFFFF) := by omega
  simp only [hsum, if_false]
  have hw : wrap32 (c.decodedLen + (len : Int)) = c.decodedLen + (len : Int) := by
    rw [wrap32_range] <;> omega
  rw [hw]
  have hnn : ¬ (c.decodedLen + (len : Int) < 0) := by omega
  have hrem : c.maxEncodedLen - (q + 4) ≥ len := by omega
  simp only [hnn, if_false, hrem, if_true]

end WuffsVerif.Flate.Cut
