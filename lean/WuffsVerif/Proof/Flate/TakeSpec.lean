/-
C16: `bitstream.take` against the spec's bit reader: from a cursor that satisfies the invariant,
`take(n)` returns the `n`-bit little-endian data element of RFC 1951 §3.1.1 at the cursor's bit
position (`Spec.bitsLE`), or `mostNegativeInt32` exactly when fewer than `n` bits are left.
-/
import WuffsVerif.Proof.Flate.Lookup
import WuffsVerif.Proof.Flate.Bounds

namespace WuffsVerif.Flate.Cut
open WuffsVerif.Gen.C16

theorem bitAt_eq_streamBit (s : Bytes) (p : Nat) : Spec.bitAt s p = (streamBit s p).toNat := by
  simp only [Spec.bitAt, streamBit]
  generalize (s.getD (p / 8) 0).toNat = x
  simp only [Nat.testBit, Nat.shiftRight_eq_div_pow, Nat.one_and_eq_mod_two]
  have : x / 2 ^ (p % 8) % 2 = 0 ∨ x / 2 ^ (p % 8) % 2 = 1 := by omega
  rcases this with h | h <;> simp [h]

theorem mod_pow_eq_bitsLE (s : Bytes) (n : Nat) : ∀ (x p : Nat),
    (∀ j, j < n → x.testBit j = streamBit s (p + j)) → x % 2 ^ n = Spec.bitsLE s p n := by
  induction n with
  | zero => intro x p _; simp [Spec.bitsLE, Nat.mod_one]
  | succ n ih =>
    intro x p hbits
    have h0 := hbits 0 (by omega)
    have hrest := ih (x / 2) (p + 1) (by
      intro j hj
      have := hbits (j + 1) (by omega)
      rw [Nat.testBit_succ] at this
      rw [this]; congr 1; omega)
    simp only [Spec.bitsLE, bitAt_eq_streamBit, ← hrest]
    simp only [Nat.add_zero] at h0
    rw [← h0, Nat.testBit_zero]
    have : x % 2 ^ (n + 1) = x % 2 + 2 * (x / 2 % 2 ^ n) := by
      rw [Nat.pow_succ, Nat.mul_comm, Nat.mod_mul]
    rw [this]
    rcases Nat.mod_two_eq_zero_or_one x with h | h <;> simp [h]

theorem wrap32_id (x : Int) (h0 : 0 ≤ x) (h : x < 2147483648) : wrap32 x = x := by
  simp only [wrap32]
  have : (x % 4294967296) = x := by omega
  rw [this]
  split <;> omega

/-- The load loop of `take`. -/
theorem fill_spec (n : Nat) (hn : n ≤ 32) (fuel : Nat) (b : Bitstream) (hb : b.Inv)
    (hfuel : n < 8 * fuel + b.nBits ∨ n ≤ b.nBits) :
    (Bitstream.fill n fuel b).2.Inv ∧ (Bitstream.fill n fuel b).2.pos = b.pos ∧
    (Bitstream.fill n fuel b).2.bytes = b.bytes ∧
    ((Bitstream.fill n fuel b).1 = true → n ≤ (Bitstream.fill n fuel b).2.nBits) ∧
    ((Bitstream.fill n fuel b).1 = false → 8 * b.bytes.size < b.pos + n) := by
  induction fuel generalizing b with
  | zero =>
    rw [Bitstream.fill]
    refine ⟨hb, rfl, rfl, fun h => by simpa using h, ?_⟩
    intro h
    have : ¬ (n ≤ b.nBits) := by simpa using h
    omega
  | succ fuel ih =>
    rw [Bitstream.fill]
    by_cases hlt : b.nBits < n
    · by_cases hidx : b.index ≥ b.bytes.size
      · simp only [hlt, hidx, if_true]
        refine ⟨hb, trivial, trivial, fun h => by simp at h, fun _ => ?_⟩
        have := hb.nBits_le; have := hb.index_le
        simp only [Bitstream.pos]; omega
      · simp only [hlt, hidx, if_true, if_false]
        obtain ⟨i1, p1⟩ := Inv.load_or hb (by omega) (by omega)
        have := ih b.loadOr i1 (by simp only [Bitstream.loadOr]; omega)
        simp only [Bitstream.loadOr] at this p1 ⊢
        obtain ⟨a1, a2, a3, a4, a5⟩ := this
        exact ⟨a1, by rw [a2, p1], a3, a4, fun hf => by have := a5 hf; rw [p1] at this; exact this⟩
    · simp only [hlt, if_false]
      exact ⟨hb, trivial, trivial, fun _ => by omega, fun hf => by simp at hf⟩

/-- **`take` reads the spec's data element** (`n ≤ 31`; the callers use `n ≤ 13`). -/
theorem take_spec (b : Bitstream) (hb : b.Inv) (n : Nat) (hn : n ≤ 31) :
    (b.take n).2.bytes = b.bytes ∧
    (if b.pos + n ≤ 8 * b.bytes.size then
      (b.take n).1 = Int.ofNat (Spec.bitsLE b.bytes b.pos n) ∧ (b.take n).2.Inv ∧ (b.take n).2.pos = b.pos + n
    else (b.take n).1 = mostNegativeInt32) := by
  have hf := fill_spec n (by omega) (n + 1) b hb (Or.inl (by omega))
  refine ⟨take_bytes b n, ?_⟩
  simp only [Bitstream.take]
  generalize Bitstream.fill n (n + 1) b = r at hf
  obtain ⟨ok, b1⟩ := r
  simp only [] at hf
  obtain ⟨i1, p1, y1, hok, hno⟩ := hf
  cases ok with
  | false =>
    have := hno rfl
    have h2 : ¬ (b.pos + n ≤ 8 * b.bytes.size) := by omega
    simp only [h2, if_false]
  | true =>
    have hnb := hok rfl
    have hle : b.pos + n ≤ 8 * b.bytes.size := by
      have := i1.nBits_le; have := i1.index_le
      rw [← p1, ← y1]; simp only [Bitstream.pos]; omega
    simp only [hle, if_true]
    obtain ⟨ic, pc⟩ := Inv.consume i1 n hnb
    refine ⟨?_, ic, by rw [pc, p1]⟩
    -- the value
    have hn32 : n < 32 := by omega
    have hpow : 2 ^ n ≤ 2 ^ 31 := Nat.pow_le_pow_right (by omega) hn
    have hpos : 0 < 2 ^ n := Nat.two_pow_pos n
    have hmask : ((if n < 32 then 2 ^ n else 0) + 4294967295) % 4294967296 = 2 ^ n - 1 := by
      simp only [hn32, if_true]
      omega
    rw [hmask, Nat.and_two_pow_sub_one_eq_mod]
    have h32 : (4294967296 : Nat) = 2 ^ n * 2 ^ (32 - n) := by
      rw [← Nat.pow_add]
      have : n + (32 - n) = 32 := by omega
      rw [this]
    have hmod : b1.bits.toNat % 4294967296 % 2 ^ n = b1.bits.toNat % 2 ^ n := by
      rw [h32, Nat.mod_mul_right_mod]
    have hval := mod_pow_eq_bitsLE b1.bytes n b1.bits.toNat b1.pos (fun j hj => i1.low j (by omega))
    rw [hmod, hval, y1, p1]
    have hlt : Spec.bitsLE b.bytes b.pos n < 2 ^ n := by
      rw [← p1, ← y1, ← hval]
      exact Nat.mod_lt _ hpos
    apply wrap32_id
    · exact Int.natCast_nonneg _
    · have : (Spec.bitsLE b.bytes b.pos n : Int) < 2147483648 := by
        have : (2 : Nat) ^ 31 = 2147483648 := by decide
        omega
      exact this

end WuffsVerif.Flate.Cut
