/-
Shared definitions for the C16 proofs (core Lean only): the abstract view of a
`Cut.Bitstream` cursor.
-/
import WuffsVerif.Model.Flate.Cut

namespace WuffsVerif.Flate.Cut

/-- Number of stream bits consumed so far: `8*index` bits were loaded, `nBits` of them are
still waiting in `bits`. -/
def Bitstream.pos (b : Bitstream) : Nat := 8 * b.index - b.nBits

/-- Cursor arithmetic invariant: the waiting bits were loaded from bytes before `index`,
and `index` is inside the buffer. -/
structure Bitstream.WF (b : Bitstream) : Prop where
  nBits_le : b.nBits ≤ 8 * b.index
  index_le : b.index ≤ b.bytes.size

/-- Bit `p` of the byte buffer (LSB-first in each byte); `false` past the end. -/
def streamBit (bytes : Bytes) (p : Nat) : Bool := (bytes.getD (p / 8) 0).toNat.testBit (p % 8)

/-- Content invariant of a cursor: the low `nBits` bits of `bits` are the next stream bits, and
whatever is above them is a subset of the stream bits that follow (so that OR-ing a freshly
loaded byte on top is harmless — `decode`'s 64-bit refill leaves such bits behind). -/
structure Bitstream.Inv (b : Bitstream) : Prop extends Bitstream.WF b where
  nBits_lt : b.nBits < 64
  low : ∀ i, i < b.nBits → b.bits.toNat.testBit i = streamBit b.bytes (b.pos + i)
  high : ∀ i, b.nBits ≤ i → i < 64 → b.bits.toNat.testBit i = true → streamBit b.bytes (b.pos + i) = true

end WuffsVerif.Flate.Cut
