/-
C16: THE property, end to end, for streams that consist of one fixed-Huffman block
(`cut_prefix_fixed_block`): `Cut` either keeps the whole block, or cuts it at a symbol boundary and
writes an end-of-block code, or falls back to `cutSingleBlock` — and in every case the result is a
complete DEFLATE stream that decodes to a prefix of the original output.
-/
import WuffsVerif.Proof.Flate.Fixed

namespace WuffsVerif.Flate.Cut
open WuffsVerif.Gen.C16 WuffsVerif.Flate.Spec

/-- The spec decoder on a buffer that starts with a final fixed-Huffman block whose tokens are those of
`s` up to `(q, o)` followed by an end-of-block token. -/
theorem inflate_fixed_single (s s'' : Bytes) (q q' : Nat) (o : Bytes)
    (hr : Reach fixedLit fixedDist 7 5 s 3 #[] q o)
    (hag : ∀ i, 3 ≤ i → i < q → bitAt s'' i = bitAt s i)
    (h0 : bitAt s'' 0 = 1) (h12 : bitsLE s'' 1 2 = 1)
    (heob : huffTok fixedLit fixedDist 7 5 s'' q o.size = .eob q')
    (hsz : q + 7 ≤ 8 * s''.size) :
    Spec.inflate s'' = some (o, (q' + 7) / 8) := by
  have hle := hr.le
  have hblk : huffBlock fixedLit fixedDist 7 5 s'' none 0 (8 * s''.size + 1) 3 #[] = .next q' o :=
    replay_eob fixedLit fixedDist 7 5 0 s s'' (hminD_fixed s) hr hag hsz heob _ (by omega)
  have hb : blocks s'' none 0 (8 * s''.size + 1) 0 #[] = ⟨.done, q', o⟩ := by
    rw [blocks_succ]
    have hav : ¬ (avail s'' 0 < 3) := by simp only [avail]; omega
    rw [if_neg hav]
    simp only [blockBody, Nat.zero_add, h12]
    have e1 : ¬ ((1 : Nat) = 0) := by omega
    simp only [e1, if_false, if_true, hblk, h0]
  simp only [Spec.inflate, Spec.inflateDict, inflateRaw_nodict, hb]
  simp

attribute [local irreducible] Spec.fixedLitLens Spec.fixedDistLens Spec.fixedLit Spec.fixedDist

theorem fixedDist_size : fixedDistLens.size = 32 := by
  unfold fixedDistLens; simp

/-- What `doStaticHuffman` (first block) does on a fixed block that the spec decodes to `T`. -/
structure FixedSim (k : Nat) (c : Cutter) (out : Bytes) (pE : Nat) (T : Bytes) (r : Cutter × Option Err) : Prop where
  size : r.1.bits.bytes.size = c.bits.bytes.size
  max : r.1.maxEncodedLen = c.maxEncodedLen
  nil : r.2 = none → r.1.bits.bytes = c.bits.bytes ∧ r.1.bits.pos = pE ∧ r.1.decodedLen + (k : Int) = (T.size : Int) ∧
      pE ≤ 8 * c.maxEncodedLen ∧ r.1.bits.Inv
  prog : r.2 = some .someProgress → ∃ q o, Reach fixedLit fixedDist 7 5 c.bits.bytes c.bits.pos out q o ∧
      c.bits.pos < q ∧ r.1.decodedLen + (k : Int) = (o.size : Int) ∧ q + 7 ≤ 8 * c.maxEncodedLen ∧
      8 * r.1.bits.index - r.1.bits.nBits = q + 7 ∧ r.1.bits.nBits ≤ 8 * r.1.bits.index ∧
      r.1.bits.nBits ≤ 8 ∧ (∃ h : Huffman, h.Good fixedLitLens) ∧
      ∀ i, bitAt r.1.bits.bytes i =
        if q ≤ i ∧ i < q + 7 then ((rfcCode fixedLitLens 256).testBit (7 - 1 - (i - q))).toNat
        else bitAt c.bits.bytes i
  keep : r.2 = some .noProgress ∨ r.2 = some .replaceWithSingleBlock → r.1.bits.bytes = c.bits.bytes
  keepD : r.2 = some .noProgress → r.1.decodedLen = c.decodedLen

theorem doStaticHuffman_sim (c : Cutter) (hc : c.OK) (fuelS pE : Nat) (out T : Bytes)
    (hspec : huffBlock fixedLit fixedDist 7 5 c.bits.bytes none 0 fuelS c.bits.pos out = .next pE T)
    (k : Nat) (hcd : c.decodedLen + (k : Int) = (out.size : Int)) (hc0 : 0 ≤ c.decodedLen)
    (hT : (T.size : Int) < 2147483648) (isFirst : Bool) :
    FixedSim k c out pE T (c.doStaticHuffman isFirst) := by
  obtain ⟨k1, k2, _⟩ := doStaticHuffman_ok c isFirst
  simp only [Cutter.doStaticHuffman] at k1 k2 ⊢
  rw [static_ll, static_dl] at k1 k2 ⊢
  rw [doHuffman_eq] at k1 k2 ⊢
  have hlo := offAt16_le fixedLitLens 288 (by rw [fixedLit_256.1]; omega)
  have hdo : offAt fixedDistLens 16 ≤ 288 := offAt16_le fixedDistLens 288 (by rw [fixedDist_size]; omega)
  cases h1 : c.lHuff.construct fixedLitLens with
  | error e =>
    rw [h1] at k1 k2
    simp only [] at k1 k2 ⊢
    rcases construct_err _ _ _ h1 with rfl | rfl <;>
      exact ⟨rfl, rfl, by intro h; simp at h, by intro h; simp at h, by intro h; rcases h with h | h <;> simp at h, by intro h; simp at h⟩
  | ok p =>
    obtain ⟨lh, ecb, ecn⟩ := p
    rw [h1] at k1 k2
    simp only [] at k1 k2 ⊢
    have hgl := construct_good c.lHuff lh fixedLitLens ecb ecn h1 hc.l.tableOK hc.l.symsz hlo
      (by rw [fixedLit_256.1]; omega)
    have hend := endCode_canonical c.lHuff lh fixedLitLens ecb ecn h1
    have hcond : fixedLitLens.size > 256 ∧ fixedLitLens.getD 256 0 ≠ 0 := by
      rw [fixedLit_256.1, fixedLit_256.2]; omega
    rw [if_pos hcond, fixedLit_256.2] at hend
    obtain ⟨rfl, rfl, _⟩ := hend
    have hecn : ¬ ((7 : Nat) = 0) := by omega
    simp only [hecn, if_false] at k1 k2 ⊢
    cases h2 : c.dHuff.construct fixedDistLens with
    | error e =>
      rw [h2] at k1 k2
      simp only [] at k1 k2 ⊢
      rcases construct_err _ _ _ h2 with rfl | rfl <;>
        exact ⟨rfl, rfl, by intro h; simp at h, by intro h; simp at h, by intro h; rcases h with h | h <;> simp at h, by intro h; simp at h⟩
    | ok p2 =>
      obtain ⟨dh, _, _⟩ := p2
      rw [h2] at k1 k2
      simp only [] at k1 k2 ⊢
      have hgd := construct_good c.dHuff dh fixedDistLens _ _ h2 hc.d.tableOK hc.d.symsz hdo
        (by rw [fixedDist_size]; omega)
      obtain ⟨hu, hup⟩ := Inv.unread hc.inv
      split
      · rename_i hidx
        simp only [hidx, if_true] at k1 k2
        exact ⟨rfl, rfl, by intro h; simp at h, by intro h; simp at h, fun _ => rfl, fun _ => rfl⟩
      · rename_i hidx
        simp only [hidx, if_false] at k1 k2
        have hc3 : (⟨c.bits.unread, c.maxEncodedLen, c.decodedLen, rfcCode fixedLitLens 256, 7, lh, dh⟩ : Cutter).OK :=
          ⟨hu, hc.max, hgl.shape, hgd.shape⟩
        have ctx : BlockCtx (⟨c.bits.unread, c.maxEncodedLen, c.decodedLen, rfcCode fixedLitLens 256, 7, lh, dh⟩ : Cutter)
            fixedLitLens fixedDistLens fixedLit fixedDist :=
          ⟨hgl, hgd, fixedLit_nz, fixedDist_nz, fixedLit_some, fixedDist_some, by rw [fixedLit_256.1]; omega,
            by rw [fixedDist_size]; omega⟩
        have hsim := huffTail_sim _ hc3 fixedLitLens fixedDistLens fixedLit fixedDist ctx 7 5 fuelS pE out T
          (by show huffBlock fixedLit fixedDist 7 5 c.bits.unread.bytes none 0 fuelS c.bits.unread.pos out = .next pE T
              rw [hup]; exact hspec)
          k hcd hc0 hT (by simp) (by show 7 = fixedLitLens.getD 256 0; rw [fixedLit_256.2]) isFirst
        obtain ⟨s1, s2, s3, s4, s5, s6, _⟩ := hsim
        refine ⟨k2, k1, s3, ?_, s5, s6⟩
        intro hp
        obtain ⟨q, o, a1, a2, a3, a4, a5, a6, a7, a8⟩ := s4 hp
        exact ⟨q, o, by rw [← hup]; exact a1, by rw [← hup]; exact a2, a3, a4, a5, a6, a7, ⟨lh, hgl⟩, a8⟩

theorem huffTok_eob (hl hd : Huff) (minL minD : Nat) (s : Bytes) (p sz p1 : Nat)
    (h : huffTok hl hd minL minD s p sz = .eob p1) : decodeSym hl s p minL = .sym 256 p1 := by
  simp only [huffTok] at h
  repeat' split at h
  all_goals first
    | (simp at h; done)
    | skip
  rename_i v p1' hs hv hv2
  simp only [Tok.eob.injEq] at h
  subst h; subst hv2; exact hs

/-- The output at a token boundary is a prefix of the block's output. -/
theorem reach_prefix (hl hd : Huff) (minL minD : Nat) (s : Bytes)
    (hminD : ∀ q dv p2, decodeSym hd s q minD = .sym dv p2 → q + minD ≤ p2)
    {p q : Nat} {out o : Bytes} (hr : Reach hl hd minL minD s p out q o) (hsz : q + minL ≤ 8 * s.size)
    (fuel pE : Nat) (T : Bytes) (hf : q - p < fuel)
    (hspec : huffBlock hl hd minL minD s none 0 fuel p out = .next pE T) : ∃ x, T = o ++ x := by
  obtain ⟨n, hn, hrun⟩ := replay hl hd minL minD 0 s s hminD hr (fun _ _ _ => rfl) hsz
  obtain ⟨f, rfl⟩ : ∃ f, fuel = f + n := ⟨fuel - n, by omega⟩
  rw [hrun] at hspec
  exact (huffBlock_cap hl hd minL minD s 0 0 f q o pE T hspec).1

end WuffsVerif.Flate.Cut
