/-
C16: "… and is the whole original when the limit is not smaller than the stream" for `zlibcut.Cut`
(every valid zlib stream, with or without a preset dictionary; up to 1 GiB, where `flatecut.Cut` clamps).
-/
import WuffsVerif.Proof.Flate.ZlibAll
import WuffsVerif.Proof.Flate.Whole2

namespace WuffsVerif.Flate.ZlibCut
open WuffsVerif.Flate.Cut WuffsVerif.Gen.C16 WuffsVerif.Flate.Spec

theorem Cut_whole_fdict (dict s T : Spec.Bytes) (n : Nat) (limit : Int) (r : CutResult)
    (hz : Spec.zlibDecode dict s = some (T, n)) (hd : (s.getD 1 0).toNat / 32 % 2 = 1)
    (hT : T.size + 32768 < 2147483648) (h : ZlibCut.Cut s limit = .ok r)
    (hlim : (s.size : Int) ≤ limit) (h30 : s.size ≤ 2 ^ 30) : r.decodedLen = T.size := by
  -- the original stream
  simp only [Spec.zlibDecode] at hz
  split at hz
  · simp at hz
  rename_i hsz2
  split at hz
  · simp at hz
  rename_i hhdr
  simp only [hd, if_true, true_and] at hz
  split at hz
  · simp at hz
  rename_i hsz6
  split at hz
  · simp at hz
  rename_i hdid
  split at hz
  · simp at hz
  · rename_i out n1 hinf
    split at hz
    · simp at hz
    rename_i hszn
    split at hz
    · simp at hz
    simp only [Option.some.injEq, Prod.mk.injEq] at hz
    obtain ⟨rfl, _⟩ := hz
    have hinf' : Spec.inflateDict dict (s.extract 6 s.size) = some (out, n1) := hinf
    have hpay : Spec.inflateDict dict (s.extract 6 (s.size - 4)) = some (out, n1) := by
      apply inflateDict_local _ _ _ _ _ hinf'
      · intro j hj
        rw [getD_extract_bytes s 6 (s.size - 4) j (by omega) (by omega),
          getD_extract_bytes s 6 s.size j (by omega) (by omega)]
      · simp [Array.size_extract]; omega
    -- the cut
    simp only [ZlibCut.Cut] at h
    have c1 : ¬ (s.size < 2) := hsz2
    rw [if_neg c1] at h
    split at h
    · simp at h
    split at h
    · simp at h
    simp only [hd, true_and, if_true] at h
    split at h
    · simp at h
    split at h
    · simp at h
    split at h
    · simp at h
    rename_i hlim
    split at h
    · simp at h
    rename_i r' hcut
    split at h
    · simp at h
    rename_i hov
    simp only [Except.ok.injEq] at h
    subst h
    have hpsz : (s.extract 6 (s.size - 4)).size = s.size - 10 := by simp [Array.size_extract]; omega
    simp only []
    exact Cut.Cut_whole_dict true dict _ out n1 _ r' hpay hT hcut
      (by rw [hpsz]; simp only [Int.ofNat_eq_natCast]; omega) (by rw [hpsz]; omega)

theorem Cut_whole_nodict (s T : Spec.Bytes) (n : Nat) (limit : Int) (r : CutResult)
    (hz : Spec.zlibDecode #[] s = some (T, n)) (hnd : ¬ ((s.getD 1 0).toNat / 32 % 2 = 1))
    (hT : T.size < 2147483648) (h : ZlibCut.Cut s limit = .ok r)
    (hlim : (s.size : Int) ≤ limit) (h30 : s.size ≤ 2 ^ 30) : r.decodedLen = T.size := by
  -- the original stream
  simp only [Spec.zlibDecode] at hz
  split at hz
  · simp at hz
  rename_i hsz2
  split at hz
  · simp at hz
  rename_i hhdr
  simp only [hnd, if_false, false_and] at hz
  split at hz
  · simp at hz
  · rename_i out n1 hinf
    split at hz
    · simp at hz
    rename_i hszn
    split at hz
    · simp at hz
    simp only [Option.some.injEq, Prod.mk.injEq] at hz
    obtain ⟨rfl, _⟩ := hz
    have hinf' : Spec.inflate (s.extract 2 s.size) = some (out, n1) := hinf
    have hpay : Spec.inflate (s.extract 2 (s.size - 4)) = some (out, n1) := by
      apply inflate_local _ _ _ _ hinf'
      · intro j hj
        rw [getD_extract_bytes s 2 (s.size - 4) j (by omega) (by omega),
          getD_extract_bytes s 2 s.size j (by omega) (by omega)]
      · simp [Array.size_extract]; omega
    -- the cut
    simp only [ZlibCut.Cut] at h
    have c1 : ¬ (s.size < 2) := hsz2
    rw [if_neg c1] at h
    split at h
    · simp at h
    split at h
    · simp at h
    simp only [hnd, false_and, if_false] at h
    split at h
    · simp at h
    split at h
    · simp at h
    rename_i hlim
    split at h
    · simp at h
    rename_i r' hcut
    split at h
    · simp at h
    rename_i hov
    simp only [Except.ok.injEq] at h
    subst h
    have hpsz : (s.extract 2 (s.size - 4)).size = s.size - 6 := by simp [Array.size_extract]; omega
    simp only []
    exact Cut.Cut_whole true _ out n1 _ r' hpay hT hcut
      (by rw [hpsz]; simp only [Int.ofNat_eq_natCast]; omega) (by rw [hpsz]; omega)

/-- **The whole original when the limit is not smaller than the stream** — `zlibcut.Cut`, every valid zlib
stream, with or without a preset dictionary. -/
theorem Cut_whole_all (dict s T : Spec.Bytes) (n : Nat) (limit : Int) (r : CutResult)
    (hz : Spec.zlibDecode dict s = some (T, n)) (hT : T.size + 32768 < 2147483648)
    (h : ZlibCut.Cut s limit = .ok r) (hlim : (s.size : Int) ≤ limit) (h30 : s.size ≤ 2 ^ 30) :
    r.decodedLen = T.size := by
  by_cases hd : (s.getD 1 0).toNat / 32 % 2 = 1
  · exact Cut_whole_fdict dict s T n limit r hz hd hT h hlim h30
  · rw [zlibDecode_nodict dict s hd] at hz
    exact Cut_whole_nodict s T n limit r hz hd (by omega) h hlim h30

end WuffsVerif.Flate.ZlibCut
