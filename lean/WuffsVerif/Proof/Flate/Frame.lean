/-
C16: `Cut` leaves the bytes at positions ≥ `encodedLen` untouched — for ARBITRARY bytes and any limit
(`Cut_frame`, `ZlibCut.Cut_frame`).

Every in-place write of the cutter lies below the cursor it returns: the LEN/NLEN rewrite of
`doStored` (the block then ends exactly at the budget), the bits of `writeEndCode` (the cursor ends
behind them), the final-bit patch of this or of the previous block (a block lies between that bit and
the cursor: `BlockTotal.cont/prog`, the cursor only moves forward), the padding mask of `finish`, the
stored block or the two bytes written by `cutSingleBlock`, the four Adler-32 bytes of `zlibcut.Cut`.
-/
import WuffsVerif.Proof.Flate.Total5

namespace WuffsVerif.Flate.Cut
open WuffsVerif.Gen.C16

theorem getD_set_ne (s : Bytes) (i k : Nat) (v : UInt8) (h : k ≠ i) :
    (s.setIfInBounds i v).getD k 0 = s.getD k 0 := by
  simp only [Array.getD_eq_getD_getElem?, Array.getElem?_setIfInBounds]
  have : ¬ (i = k) := fun h' => h h'.symm
  simp [this]

theorem patchFinalBit_frame (bytes b' : Bytes) (i n : Nat) (h : patchFinalBit bytes i n = .ok b') :
    ∀ k, i ≤ k → b'.getD k 0 = bytes.getD k 0 := by
  simp only [patchFinalBit] at h
  split at h
  · simp at h
  · rename_i hi0
    split at h
    · simp at h
    · simp only [Except.ok.injEq] at h
      subst h
      intro k hk
      exact getD_set_ne _ _ _ _ (by omega)

theorem finish_frame (c : Cutter) (enc : Bytes) (e d : Nat) (h : c.finish = .ok (enc, e, d)) :
    e = c.bits.index ∧ ∀ k, e ≤ k → enc.getD k 0 = c.bits.bytes.getD k 0 := by
  simp only [Cutter.finish] at h
  split at h
  · split at h
    · simp at h
    · rename_i hi0
      split at h
      · simp at h
      · simp only [Except.ok.injEq, Prod.mk.injEq] at h
        obtain ⟨rfl, rfl, rfl⟩ := h
        exact ⟨rfl, fun k hk => getD_set_ne _ _ _ _ (by omega)⟩
  · simp only [Except.ok.injEq, Prod.mk.injEq] at h
    obtain ⟨rfl, rfl, rfl⟩ := h
    exact ⟨rfl, fun _ _ => rfl⟩

/-- `writeEndCode` only writes below the cursor it returns, and the cursor does not move back. -/
theorem writeEndCodeLoop_frame (ecb : Nat) : ∀ (j : Nat) (b b' : Bitstream),
    Cutter.writeEndCodeLoop ecb j b = .ok b' →
    b.index ≤ b'.index ∧ ∀ k, b'.index ≤ k → b'.bytes.getD k 0 = b.bytes.getD k 0 := by
  intro j
  induction j with
  | zero =>
    intro b b' h
    simp only [Cutter.writeEndCodeLoop] at h
    have := Except.ok.inj h
    subst this
    exact ⟨Nat.le_refl _, fun _ _ => rfl⟩
  | succ j ih =>
    intro b b' h
    rw [Cutter.writeEndCodeLoop] at h
    by_cases h0 : b.nBits = 0
    · simp only [h0, if_true] at h
      split at h
      · simp at h
      · split at h
        · simp at h
        · obtain ⟨i1, i2⟩ := ih _ _ h
          simp only [] at i1 i2
          refine ⟨by omega, ?_⟩
          intro k hk
          rw [i2 k hk]
          exact getD_set_ne _ _ _ _ (by omega)
    · simp only [h0, if_false] at h
      split at h
      · simp at h
      · rename_i hi0
        split at h
        · simp at h
        · obtain ⟨i1, i2⟩ := ih _ _ h
          simp only [] at i1 i2
          refine ⟨i1, ?_⟩
          intro k hk
          rw [i2 k hk]
          exact getD_set_ne _ _ _ _ (by omega)

/-- What the block functions do to the buffer, whatever the bytes are: only `errInternalSomeProgress`
comes with a modified buffer, and then only below the returned cursor. -/
def BlockKeep (c : Cutter) (r : Cutter × Option Err) : Prop :=
  (r.2 ≠ some .someProgress → r.1.bits.bytes = c.bits.bytes) ∧
  (r.2 = some .someProgress → ∀ k, r.1.bits.endIdx ≤ k → r.1.bits.bytes.getD k 0 = c.bits.bytes.getD k 0)

theorem BlockKeep.err {c c' : Cutter} {e : Err} (hb : c'.bits.bytes = c.bits.bytes) (he : e ≠ .someProgress) :
    BlockKeep c (c', some e) :=
  ⟨fun _ => hb, fun h => by simp only [Option.some.injEq] at h; exact absurd h he⟩

theorem BlockKeep.transport {c c' : Cutter} {r : Cutter × Option Err} (h : BlockKeep c' r)
    (hb : c'.bits.bytes = c.bits.bytes) : BlockKeep c r :=
  ⟨fun hr => (h.1 hr).trans hb, fun hr k hk => by rw [h.2 hr k hk, hb]⟩

theorem doStored_keep (c : Cutter) : BlockKeep c c.doStored := by
  constructor
  · simp only [Cutter.doStored]
    repeat' split
    all_goals first
      | (intro _; rfl)
      | (intro h; exact absurd rfl h)
  · simp only [Cutter.doStored]
    repeat' split
    all_goals first
      | (intro h; simp at h; done)
      | skip
    intro _ k hk
    simp only [Bitstream.endIdx] at hk
    simp only []
    rw [getD_set_ne _ _ _ _ (by omega), getD_set_ne _ _ _ _ (by omega), getD_set_ne _ _ _ _ (by omega),
      getD_set_ne _ _ _ _ (by omega)]
    rfl

theorem huffTail_keep (c : Cutter) (isFirst : Bool) (hecn : c.endCodeNBits ≠ 0) :
    BlockKeep c (c.huffTail isFirst) := by
  have hL := huffLoop_spec (8 * c.bits.bytes.size + 2) c none c.decodedLen (by intro i n h; simp at h)
  have hE := huffLoop_err (8 * c.bits.bytes.size + 2) c none c.decodedLen
  simp only [Cutter.huffTail]
  generalize Cutter.huffLoop (8 * c.bits.bytes.size + 2) c none c.decodedLen = res at hL hE
  obtain ⟨c1, cp, r⟩ := res
  simp only [] at hL hE
  obtain ⟨h1, h2, h3, h4, h5, h6⟩ := hL
  split
  · rename_i c2 x r2 heq
    simp at heq
    obtain ⟨rfl, rfl, rfl⟩ := heq
    exact ⟨fun _ => h4, fun _ k _ => by show c1.bits.bytes.getD k 0 = _; rw [h4]⟩
  · rename_i c2 heq
    simp at heq
    obtain ⟨rfl, rfl, rfl⟩ := heq
    exact BlockKeep.err h4 (by simp)
  · rename_i c2 cpIndex cpNBits heq
    simp at heq
    obtain ⟨rfl, rfl, rfl⟩ := heq
    generalize (if c1.maxEncodedLen - 5 > 0xFFFF then 0xFFFF else c1.maxEncodedLen - 5) = n
    split
    · exact BlockKeep.err h4 (by simp)
    · split
      · rename_i e he
        have := writeEndCode_err _ _ he
        subst this
        exact BlockKeep.err (by simp only [unread_bytes]; exact h4) (by simp)
      · rename_i c3 hw
        have hw' := writeEndCode_spec _ _ hw (Nat.le_of_lt (unread_nBits_lt _)) (by simp only []; omega)
        obtain ⟨_, _, _, _, w5⟩ := hw'
        refine ⟨fun h => absurd rfl h, ?_⟩
        intro _ k hk
        simp only [Cutter.writeEndCode] at hw
        split at hw
        · simp at hw
        · rename_i b' hb'
          have hw := Except.ok.inj hw
          subst hw
          obtain ⟨_, f2⟩ := writeEndCodeLoop_frame _ _ _ _ hb'
          simp only [Bitstream.endIdx] at hk
          have hk' : b'.index ≤ k := by
            have : b'.nBits ≤ 7 := w5
            omega
          show b'.bytes.getD k 0 = c.bits.bytes.getD k 0
          rw [f2 k hk']
          simp only [unread_bytes]
          rw [h4]

theorem doHuffman_keep (c : Cutter) (isFirst : Bool) (ll dl : Array Nat) :
    BlockKeep c (c.doHuffman isFirst ll dl) := by
  rw [doHuffman_eq]
  cases h1 : c.lHuff.construct ll with
  | error e =>
    have := construct_err _ _ _ h1
    rcases this with rfl | rfl <;> exact BlockKeep.err rfl (by simp)
  | ok p =>
    obtain ⟨lh, ecb, ecn⟩ := p
    simp only []
    by_cases hecn : ecn = 0
    · simp only [hecn, if_true]
      exact BlockKeep.err rfl (by simp)
    · simp only [hecn, if_false]
      cases h2 : c.dHuff.construct dl with
      | error e =>
        have := construct_err _ _ _ h2
        rcases this with rfl | rfl <;> exact BlockKeep.err rfl (by simp)
      | ok q =>
        obtain ⟨dh, _, _⟩ := q
        simp only []
        split
        · exact BlockKeep.err (by simp only [unread_bytes]) (by simp)
        · have := huffTail_keep (⟨c.bits.unread, c.maxEncodedLen, c.decodedLen, ecb, ecn, lh, dh⟩ : Cutter) isFirst hecn
          exact this.transport (by simp only [unread_bytes])

theorem doStaticHuffman_keep (c : Cutter) (isFirst : Bool) : BlockKeep c (c.doStaticHuffman isFirst) :=
  doHuffman_keep c isFirst _ _

theorem doDynamicHuffman_keep (c : Cutter) (isFirst : Bool) : BlockKeep c (c.doDynamicHuffman isFirst) := by
  simp only [Cutter.doDynamicHuffman]
  repeat' split
  all_goals first
    | (apply BlockKeep.err <;> simp [take_bytes]; done)
    | skip
  · -- readCodeLengthLengths failed
    apply BlockKeep.err
    · simp [take_bytes]
    · exact readCodeLengthLengths_err _ _ _ _ _ (by assumption)
  · -- construct failed
    rename_i hrc _ e he
    apply BlockKeep.err
    · simp; rw [readCodeLengthLengths_bytes _ _ _ _ _ _ hrc]; simp [take_bytes]
    · have := construct_err _ _ _ he
      rcases this with rfl | rfl <;> simp
  · -- readLengths failed
    rename_i hrc _ _ _ _ _ _ e he
    apply BlockKeep.err
    · simp; rw [readCodeLengthLengths_bytes _ _ _ _ _ _ hrc]; simp [take_bytes]
    · exact readLengths_err _ _ _ _ _ _ _ he
  · rename_i hrc _ _ _ _ _ _ _ _ hrl
    apply BlockKeep.transport (doHuffman_keep _ _ _ _)
    simp
    rw [readLengths_bytes _ _ _ _ _ _ _ _ hrl]
    rw [readCodeLengthLengths_bytes _ _ _ _ _ _ hrc]; simp [take_bytes]

/-! ### `cutSingleBlock` -/

theorem writeStored_frame (enc buf : Bytes) (n : Nat) (h5 : n + 5 ≤ enc.size) (hn : n ≤ buf.size) :
    ∀ k, n + 5 ≤ k → (writeStored enc buf n).getD k 0 = enc.getD k 0 := by
  intro k hk
  have hkk : (if enc.size - 5 < n then enc.size - 5 else n) = n := by split <;> omega
  simp only [writeStored, hkk]
  have hA : (storedHeader n ++ buf.extract 0 n).size = n + 5 := by
    simp [Array.size_append, storedHeader_size, Array.size_extract]; omega
  simp only [Array.getD_eq_getD_getElem?]
  rw [Array.getElem?_append_right (by rw [hA]; exact hk), hA, Array.getElem?_extract]
  by_cases hks : k < enc.size
  · have : k - (n + 5) < min enc.size enc.size - (5 + n) := by omega
    simp only [this, if_true]
    congr 2
    omega
  · have : ¬ (k - (n + 5) < min enc.size enc.size - (5 + n)) := by omega
    simp only [this, if_false]
    rw [Array.getElem?_eq_none (by omega)]

theorem cutSingleBlock_frame (s : Bytes) (m : Nat) (enc : Bytes) (e d : Nat) (hm : m ≤ s.size)
    (h : cutSingleBlock s m = .ok (enc, e, d)) : ∀ k, e ≤ k → enc.getD k 0 = s.getD k 0 := by
  simp only [cutSingleBlock] at h
  split at h
  · simp at h
  · split at h
    · simp at h
    · rename_i r hst
      simp only [Except.ok.injEq] at h
      subst h
      simp only [cutSingleBlockStored] at hst
      have hw := singleStoredLen_le m
      generalize singleStoredLen m = want at hst hw
      generalize Spec.inflateRaw #[] s (some want) = rr at hst
      repeat' split at hst
      all_goals first
        | (simp at hst; done)
        | skip
      all_goals
        simp only [Except.ok.injEq, Option.some.injEq, Prod.mk.injEq] at hst
        obtain ⟨rfl, rfl, rfl⟩ := hst
        apply writeStored_frame <;> omega
    · repeat' split at h
      all_goals first
        | (simp at h; done)
        | skip
      rename_i e1 h1 _ e2 h2
      simp only [Except.ok.injEq, Prod.mk.injEq] at h
      obtain ⟨rfl, rfl, rfl⟩ := h
      simp only [setB] at h1 h2
      split at h1 <;> simp at h1
      split at h2 <;> simp at h2
      subst h1
      subst h2
      intro k hk
      rw [getD_set_ne _ _ _ _ (by omega), getD_set_ne _ _ _ _ (by omega)]

/-! ### the block loop -/

/-- the previous final-block bit lies before the cursor -/
def PrevBefore (pos : Nat) (prev : Option (Nat × Nat)) : Prop :=
  ∀ i n, prev = some (i, n) → n < 8 ∧ n ≤ 8 * i ∧ 8 * i - n ≤ pos

/-- **The block loop of `cut` leaves the bytes at positions ≥ `encodedLen` alone.** -/
theorem cutLoop_frame : ∀ (fuel : Nat) (c : Cutter) (prev : Option (Nat × Nat)),
    c.OK → PrevBefore c.bits.pos prev →
    ∀ (enc : Bytes) (e d : Nat), Cutter.cutLoop fuel c prev = .ok (enc, e, d) →
    ∀ k, e ≤ k → enc.getD k 0 = c.bits.bytes.getD k 0 := by
  intro fuel
  induction fuel with
  | zero => intro c prev _ _ enc e d h; simp [Cutter.cutLoop] at h
  | succ fuel ih =>
    intro c prev hc hprev enc e d h
    simp only [Cutter.cutLoop] at h
    -- the final-block bit
    obtain ⟨y1, t1⟩ := take_ok' c.bits hc.inv 1 (by omega)
    generalize c.bits.take 1 = r1 at h y1 t1
    obtain ⟨fb, bits1⟩ := r1
    simp only [] at h y1 t1
    split at h
    · simp at h
    rename_i hfb
    rcases t1 with ⟨t1a, _⟩ | ⟨_, i1, p1⟩
    · exfalso; rw [t1a] at hfb; exact hfb (by decide)
    obtain ⟨iu, pu⟩ := Inv.unread i1
    have hfbn := unread_nBits_lt bits1
    have hfbw := iu.nBits_le
    have hfbp : 8 * bits1.unread.index - bits1.unread.nBits = c.bits.pos + 1 := by
      have : bits1.unread.pos = c.bits.pos + 1 := by rw [pu, p1]
      exact this
    generalize bits1.unread.index = fbi at h hfbp hfbw
    generalize bits1.unread.nBits = fbn at h hfbn hfbp hfbw
    -- the block type
    obtain ⟨y2, t2⟩ := take_ok' bits1 i1 2 (by omega)
    generalize bits1.take 2 = r2 at h y2 t2
    obtain ⟨bt, bits2⟩ := r2
    simp only [] at h y2 t2
    split at h
    · simp at h
    rename_i hbt
    rcases t2 with ⟨t2a, _⟩ | ⟨_, i2, p2⟩
    · exfalso; rw [t2a] at hbt; exact hbt (by decide)
    split at h
    · simp at h
    have hy : bits2.bytes = c.bits.bytes := by rw [y2, y1]
    have hc2 : ({ c with bits := bits2 } : Cutter).OK :=
      ⟨i2, by show c.maxEncodedLen ≤ bits2.bytes.size; rw [hy]; exact hc.max, hc.l, hc.d⟩
    generalize hblk : (if bt = 0 then Cutter.doStored { c with bits := bits2 }
        else if bt = 1 then Cutter.doStaticHuffman { c with bits := bits2 } prev.isNone
        else Cutter.doDynamicHuffman { c with bits := bits2 } prev.isNone) = blk at h
    have hbtot : BlockTotal { c with bits := bits2 } blk ∧ BlockKeep { c with bits := bits2 } blk := by
      rw [← hblk]
      split
      · exact ⟨doStored_total _ hc2, doStored_keep _⟩
      · split
        · exact ⟨doStaticHuffman_total _ hc2 _, doStaticHuffman_keep _ _⟩
        · exact ⟨doDynamicHuffman_total _ hc2 _, doDynamicHuffman_keep _ _⟩
    obtain ⟨c3, err⟩ := blk
    obtain ⟨⟨k1, k2, k3, k4, k5, k6⟩, kp1, kp2⟩ := hbtot
    have k1 : c3.maxEncodedLen = c.maxEncodedLen := k1
    have k2 : c3.bits.bytes.size = c.bits.bytes.size := by
      have : c3.bits.bytes.size = bits2.bytes.size := k2
      rw [this, hy]
    have hm3 : c3.maxEncodedLen ≤ c3.bits.bytes.size := by have := hc.max; omega
    have hpos2 : bits2.pos = c.bits.pos + 3 := by rw [p2, p1]
    simp only [] at h
    split at h
    · -- nil
      obtain ⟨hc3, hp3⟩ := k5 rfl
      have hp3 : bits2.pos ≤ c3.bits.pos := hp3
      have hc3 : c3.OK := hc3
      have hb3 : c3.bits.bytes = c.bits.bytes := by
        have : c3.bits.bytes = bits2.bytes := kp1 (by simp)
        rw [this, hy]
      obtain ⟨iu3, pu3⟩ := Inv.unread hc3.inv
      split at h
      · have hc3' : ({ c3 with bits := c3.bits.unread } : Cutter).OK := ⟨iu3, hc3.max, hc3.l, hc3.d⟩
        have := ih _ _ hc3' (by
          intro i n hin
          simp only [Option.some.injEq, Prod.mk.injEq] at hin
          obtain ⟨rfl, rfl⟩ := hin
          refine ⟨hfbn, hfbw, ?_⟩
          show 8 * fbi - fbn ≤ c3.bits.unread.pos
          rw [pu3]; omega) enc e d h
        intro k hk
        rw [this k hk]
        show c3.bits.unread.bytes.getD k 0 = _
        rw [unread_bytes, hb3]
      · obtain ⟨f1, f2⟩ := finish_frame _ _ _ _ h
        intro k hk
        rw [f2 k hk]
        show c3.bits.unread.bytes.getD k 0 = _
        rw [unread_bytes, hb3]
    · -- errInternalNoProgress
      have hb3 : c3.bits.bytes = c.bits.bytes := by
        have : c3.bits.bytes = bits2.bytes := kp1 (by simp)
        rw [this, hy]
      split at h
      · simp only [unread_bytes] at h
        intro k hk
        rw [cutSingleBlock_frame _ _ _ _ _ hm3 h k hk, hb3]
      · rename_i pi pn
        obtain ⟨q1, q2, q3⟩ := hprev pi pn rfl
        split at h
        · simp at h
        · rename_i b' hpb
          simp only [unread_bytes] at hpb
          have g := patchFinalBit_frame _ _ _ _ hpb
          obtain ⟨f1, f2⟩ := finish_frame _ _ _ _ h
          simp only [Bitstream.unread] at f1 f2
          intro k hk
          rw [f2 k hk, g k (by omega), hb3]
    · -- errInternalSomeProgress
      obtain ⟨hwf3, hp3⟩ := k6 rfl
      have hp3 : bits2.pos ≤ c3.bits.pos := hp3
      have hfr := kp2 rfl
      split at h
      · simp at h
      · rename_i b' hpb
        simp only [unread_bytes] at hpb
        have g := patchFinalBit_frame _ _ _ _ hpb
        obtain ⟨f1, f2⟩ := finish_frame _ _ _ _ h
        have f1 : e = c3.bits.unread.index := f1
        have hw1 := hwf3.nBits_le
        have he : c3.bits.unread.index = c3.bits.endIdx := rfl
        have hpos3 : 8 * c3.bits.index - c3.bits.nBits = c3.bits.pos := rfl
        have hfbi : fbi ≤ e := by
          rw [f1, he]
          simp only [Bitstream.endIdx]
          omega
        intro k hk
        rw [f2 k hk]
        show b'.getD k 0 = _
        rw [g k (by omega), hfr k (by rw [← he, ← f1]; exact hk)]
        show bits2.bytes.getD k 0 = _
        rw [hy]
    · -- errInternalReplaceWithSingleBlock
      have hb3 : c3.bits.bytes = c.bits.bytes := by
        have : c3.bits.bytes = bits2.bytes := kp1 (by simp)
        rw [this, hy]
      simp only [unread_bytes] at h
      intro k hk
      rw [cutSingleBlock_frame _ _ _ _ _ hm3 h k hk, hb3]
    · simp at h

/-- **`flatecut.Cut` leaves the bytes at positions ≥ `encodedLen` alone — for arbitrary bytes and any limit.** -/
theorem Cut_frame (w : Bool) (encoded : Bytes) (limit : Int) (r : CutResult)
    (h : Cut w encoded limit = .ok r) : ∀ k, r.encodedLen ≤ k → r.encoded.getD k 0 = encoded.getD k 0 := by
  rw [Cut_eq] at h
  split at h
  · simp at h
  · rename_i hlim
    simp only [smallestValidMaxEncodedLen] at hlim
    have hcl := clampLimit_le limit encoded.size (by omega)
    generalize clampLimit limit encoded.size = m at h hcl
    split at h
    · simp at h
    · split at h
      · simp at h
      · rename_i enc eLen dLen hc
        have hf := cutLoop_frame _ _ none
          ⟨inv_fresh encoded 0 (Nat.zero_le _), hcl.1, Huffman.zero_shape, Huffman.zero_shape⟩
          (by intro i n hin; simp at hin) enc eLen dLen hc
        split at h
        · cases hst : (Spec.inflateRaw #[] (enc.extract 0 eLen) none).status <;> simp [hst] at h
          all_goals first
            | (split at h <;> simp at h; subst h; exact hf)
            | skip
        · simp at h
          subst h
          exact hf

end WuffsVerif.Flate.Cut

namespace WuffsVerif.Flate.ZlibCut
open WuffsVerif.Flate.Cut

theorem getD_extract_at (a : Bytes) (i j k : Nat) (hj : j ≤ a.size) :
    (a.extract i j).getD k 0 = if i + k < j then a.getD (i + k) 0 else 0 := by
  simp only [Array.getD_eq_getD_getElem?, Array.getElem?_extract]
  by_cases h : i + k < j
  · have : k < min j a.size - i := by omega
    simp [this, h]
  · have : ¬ (k < min j a.size - i) := by omega
    simp [this, h]

/-- the buffer `zlibcut.Cut` returns, behind the four Adler-32 bytes -/
theorem frame_core (encoded : Bytes) (ps : Nat) (r' : CutResult) (a b c d : UInt8)
    (hps : ps + 4 ≤ encoded.size)
    (hfr : ∀ k, r'.encodedLen ≤ k → r'.encoded.getD k 0 = (encoded.extract ps (encoded.size - 4)).getD k 0)
    (hsz : r'.encoded.size = encoded.size - 4 - ps) :
    ∀ k, ps + r'.encodedLen + 4 ≤ k →
      (((((encoded.extract 0 ps ++ r'.encoded ++ encoded.extract (encoded.size - 4) encoded.size).setIfInBounds
        (ps + r'.encodedLen) a).setIfInBounds (ps + r'.encodedLen + 1) b).setIfInBounds
        (ps + r'.encodedLen + 2) c).setIfInBounds (ps + r'.encodedLen + 3) d).getD k 0 = encoded.getD k 0 := by
  intro k hk
  rw [getD_set_ne _ _ _ _ (by omega), getD_set_ne _ _ _ _ (by omega), getD_set_ne _ _ _ _ (by omega),
    getD_set_ne _ _ _ _ (by omega)]
  have hA : (encoded.extract 0 ps).size = ps := by simp [Array.size_extract]; omega
  have hAB : (encoded.extract 0 ps ++ r'.encoded).size = encoded.size - 4 := by
    simp only [Array.size_append, hA, hsz]; omega
  by_cases h1 : k < encoded.size - 4
  · -- inside the DEFLATE data
    have e1 : (encoded.extract 0 ps ++ r'.encoded ++ encoded.extract (encoded.size - 4) encoded.size).getD k 0 =
        r'.encoded.getD (k - ps) 0 := by
      simp only [Array.getD_eq_getD_getElem?]
      rw [Array.getElem?_append_left (by rw [hAB]; exact h1), Array.getElem?_append_right (by rw [hA]; omega), hA]
    rw [e1, hfr (k - ps) (by omega), getD_extract_at _ _ _ _ (by omega)]
    have : ps + (k - ps) < encoded.size - 4 := by omega
    rw [if_pos this]
    congr 1
    omega
  · have e2 : (encoded.extract 0 ps ++ r'.encoded ++ encoded.extract (encoded.size - 4) encoded.size).getD k 0 =
        (encoded.extract (encoded.size - 4) encoded.size).getD (k - (encoded.size - 4)) 0 := by
      simp only [Array.getD_eq_getD_getElem?]
      rw [Array.getElem?_append_right (by rw [hAB]; omega), hAB]
    rw [e2, getD_extract_at _ _ _ _ (Nat.le_refl _)]
    by_cases h2 : k < encoded.size
    · have : encoded.size - 4 + (k - (encoded.size - 4)) < encoded.size := by omega
      rw [if_pos this]
      congr 1
      omega
    · have : ¬ (encoded.size - 4 + (k - (encoded.size - 4)) < encoded.size) := by omega
      rw [if_neg this]
      simp only [Array.getD_eq_getD_getElem?]
      rw [Array.getElem?_eq_none (by omega)]
      rfl

/-- **`zlibcut.Cut` leaves the bytes at positions ≥ `encodedLen` alone — for arbitrary bytes and any limit.** -/
theorem Cut_frame (encoded : Bytes) (limit : Int) (r : CutResult) (h : ZlibCut.Cut encoded limit = .ok r) :
    ∀ k, r.encodedLen ≤ k → r.encoded.getD k 0 = encoded.getD k 0 := by
  simp only [ZlibCut.Cut] at h
  split at h
  · simp at h
  split at h
  · simp at h
  split at h
  · simp at h
  by_cases hd : (encoded.getD 1 0).toNat / 32 % 2 = 1
  · simp only [hd, true_and, if_true] at h
    split at h
    · simp at h
    split at h
    · simp at h
    split at h
    · simp at h
    split at h
    · simp at h
    rename_i r' hcut
    split at h
    · simp at h
    simp only [Except.ok.injEq] at h
    subst h
    have hfr := Cut.Cut_frame _ _ _ _ hcut
    obtain ⟨_, _, hsz⟩ := Cut.Cut_lengths_in_bounds _ _ _ _ hcut
    simp only [Array.size_extract] at hsz
    have hps : 6 + 4 ≤ encoded.size := by omega
    have hsz' : r'.encoded.size = encoded.size - 4 - 6 := by omega
    intro k hk
    simp only [] at hk ⊢
    exact frame_core encoded 6 r' _ _ _ _ hps hfr hsz' k hk
  · simp only [hd, false_and, if_false] at h
    split at h
    · simp at h
    split at h
    · simp at h
    split at h
    · simp at h
    rename_i r' hcut
    split at h
    · simp at h
    simp only [Except.ok.injEq] at h
    subst h
    have hfr := Cut.Cut_frame _ _ _ _ hcut
    obtain ⟨_, _, hsz⟩ := Cut.Cut_lengths_in_bounds _ _ _ _ hcut
    simp only [Array.size_extract] at hsz
    have hps : 2 + 4 ≤ encoded.size := by omega
    have hsz' : r'.encoded.size = encoded.size - 4 - 2 := by omega
    intro k hk
    simp only [] at hk ⊢
    exact frame_core encoded 2 r' _ _ _ _ hps hfr hsz' k hk
end WuffsVerif.Flate.ZlibCut
