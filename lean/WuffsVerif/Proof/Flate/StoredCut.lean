/-
C16: THE property (cut_prefix) for streams that consist of stored blocks —
`doStored` (shortening + header rewrite), final-bit patching of the previous block,
and the `cutSingleBlock` fallback.
-/
import WuffsVerif.Proof.Flate.Bounds3
import WuffsVerif.Proof.Flate.StoredSpec

namespace WuffsVerif.Flate.Cut
open WuffsVerif.Gen.C16 WuffsVerif.Flate.Spec

theorem wrap32_range (x : Int) (h0 : 0 ≤ x) (h : x < 2147483648) : wrap32 x = x := by
  simp only [wrap32]
  have : (x % 4294967296) = x := by omega
  rw [this]
  split <;> omega

theorem wrap32_small (n : Nat) (h : n < 2147483648) : wrap32 (n : Int) = n :=
  wrap32_range _ (by omega) (by omega)

/-- `take(1)` at a byte boundary with an empty bit buffer: loads `s[q]`, returns its bit 0. -/
theorem take1_aligned (s : Bytes) (q : Nat) (hq : q < s.size) :
    (Bitstream.take ⟨s, q, 0, 0⟩ 1) =
      (Int.ofNat ((s.getD q 0).toNat % 2), ⟨s, q + 1, (s.getD q 0).toUInt64 >>> 1, 7⟩) := by
  simp only [Bitstream.take, Bitstream.fill]
  have h1 : ¬ (q ≥ s.size) := by omega
  simp [h1, shl64, shr64]
  apply wrap32_range <;> omega

/-- `take(2)` right after: the two block-type bits. -/
theorem take2_after (s : Bytes) (q : Nat) (v : UInt8) :
    (Bitstream.take ⟨s, q + 1, v.toUInt64 >>> 1, 7⟩ 2) =
      (Int.ofNat (v.toNat / 2 % 4), ⟨s, q + 1, v.toUInt64 >>> 3, 5⟩) := by
  simp only [Bitstream.take, Bitstream.fill]
  simp [shr64]
  constructor
  · have hv : v.toNat < 256 := v.toNat_lt
    have h3 : (3 : Nat) = 2 ^ 2 - 1 := rfl
    rw [h3, Nat.and_two_pow_sub_one_eq_mod, Nat.shiftRight_eq_div_pow]
    have : v.toNat / 2 ^ 1 % 4294967296 % 2 ^ 2 = v.toNat / 2 % 4 := by omega
    rw [this]
    apply wrap32_range <;> omega
  · apply UInt64.toNat_inj.mp
    simp [Nat.shiftRight_eq_div_pow]
    omega

theorem or_shl8 (b0 b1 : Nat) (h : b0 < 256) : b0 ||| (b1 <<< 8) = b0 + 256 * b1 := by
  rw [Nat.or_comm, ← Nat.shiftLeft_add_eq_or_of_lt (by omega : b0 < 2 ^ 8), Nat.shiftLeft_eq]
  omega

theorem getElem?_eq_getD (s : Bytes) (i : Nat) (h : i < s.size) : s[i]? = some (s.getD i 0) := by
  simp [Array.getD, h]

/-- The four length bytes of a stored block, as `doStored` reads them. -/
theorem blk_fields {s : Bytes} {q : Nat} {d : Bytes} {fin : Bool} (hb : BlkAt s q d fin) :
    s[q + 1]? = some (s.getD (q + 1) 0) ∧ s[q + 1 + 1]? = some (s.getD (q + 2) 0) ∧
    s[q + 1 + 2]? = some (s.getD (q + 3) 0) ∧ s[q + 1 + 3]? = some (s.getD (q + 4) 0) ∧
    ((s.getD (q + 1) 0).toNat ||| ((s.getD (q + 2) 0).toNat <<< 8)) = d.size ∧
    ((s.getD (q + 3) 0).toNat ||| ((s.getD (q + 4) 0).toNat <<< 8)) = 65535 - d.size := by
  have hf := hb.fits
  refine ⟨getElem?_eq_getD _ _ (by omega), getElem?_eq_getD _ _ (by omega), getElem?_eq_getD _ _ (by omega),
    getElem?_eq_getD _ _ (by omega), ?_, ?_⟩
  · rw [or_shl8 _ _ (s.getD (q + 1) 0).toNat_lt]; exact hb.len
  · rw [or_shl8 _ _ (s.getD (q + 3) 0).toNat_lt]; exact hb.nlen

/-- `doStored`, the block fits: `return nil`. -/
theorem doStored_fits (c : Cutter) (s : Bytes) (q : Nat) (bits : UInt64) (d : Bytes) (fin : Bool)
    (hc : c.bits = ⟨s, q + 1, bits, 5⟩) (hb : BlkAt s q d fin)
    (hm : q + 5 + d.size ≤ c.maxEncodedLen)
    (hD : 0 ≤ c.decodedLen ∧ c.decodedLen + d.size < 2147483648) :
    c.doStored = ({ c with bits := ⟨s, q + 5 + d.size, 0, 0⟩, decodedLen := c.decodedLen + d.size }, none) := by
  obtain ⟨f1, f2, f3, f4, f5, f6⟩ := blk_fields hb
  simp only [Cutter.doStored, Bitstream.unread, hc]
  have e1 : (q + 1 - 5 / 8) = q + 1 := by omega
  simp only [e1]
  have c1 : ¬ (c.maxEncodedLen < q + 1 ∨ c.maxEncodedLen - (q + 1) < 4) := by omega
  simp only [c1, if_false, f1, f2, f3, f4, f5, f6]
  have hle := hb.le
  have c2 : ¬ (d.size + (65535 - d.size) ≠ 65535) := by omega
  have hw : wrap32 (c.decodedLen + (d.size : Int)) = c.decodedLen + d.size := wrap32_range _ (by omega) (by omega)
  have c3 : ¬ (c.decodedLen + (d.size : Int) < 0) := by omega
  have c4 : c.maxEncodedLen - (q + 1 + 4) ≥ d.size := by omega
  have e2 : q + 1 + 4 + d.size = q + 5 + d.size := by omega
  simp only [c2, c3, c4, if_false, if_true, hw, e2]

/-- `doStored`, not even one payload byte fits: `return errInternalNoProgress`, nothing changes. -/
theorem doStored_noProgress (c : Cutter) (s : Bytes) (q : Nat) (bits : UInt64) (d : Bytes) (fin : Bool)
    (hc : c.bits = ⟨s, q + 1, bits, 5⟩) (hb : BlkAt s q d fin)
    (hm : c.maxEncodedLen < q + 5 ∨ (c.maxEncodedLen = q + 5 ∧ 0 < d.size))
    (hD : 0 ≤ c.decodedLen ∧ c.decodedLen + d.size < 2147483648) :
    c.doStored = (c, some .noProgress) := by
  obtain ⟨f1, f2, f3, f4, f5, f6⟩ := blk_fields hb
  have hcc : ({ c with bits := ⟨s, q + 1, bits, 5 % 8⟩ } : Cutter) = c := by
    cases c; simp at hc; simp [hc]
  simp only [Cutter.doStored, Bitstream.unread, hc]
  have e1 : (q + 1 - 5 / 8) = q + 1 := by omega
  simp only [e1]
  by_cases c1 : (c.maxEncodedLen < q + 1 ∨ c.maxEncodedLen - (q + 1) < 4)
  · simp only [c1, if_true, hcc]
  · simp only [c1, if_false, f1, f2, f3, f4, f5, f6]
    have hle := hb.le
    have c2 : ¬ (d.size + (65535 - d.size) ≠ 65535) := by omega
    have hw : wrap32 (c.decodedLen + (d.size : Int)) = c.decodedLen + d.size := wrap32_range _ (by omega) (by omega)
    have c3 : ¬ (c.decodedLen + (d.size : Int) < 0) := by omega
    have c4 : ¬ (c.maxEncodedLen - (q + 1 + 4) ≥ d.size) := by omega
    have c5 : c.maxEncodedLen - (q + 1 + 4) = 0 := by omega
    have c6 : ¬ (0 ≥ d.size) := by omega
    simp only [c2, c3, c5, c6, if_false, if_true, hw, hcc]

/-- The four header bytes of a stored block at `q` rewritten for a payload of `r` bytes. -/
def rewriteHdr (s : Bytes) (q r : Nat) : Bytes :=
  (((s.setIfInBounds (q + 1) (UInt8.ofNat (r % 256))).setIfInBounds (q + 2) (UInt8.ofNat (r / 256 % 256))).setIfInBounds
    (q + 3) (UInt8.ofNat ((65535 - r) % 256))).setIfInBounds (q + 4) (UInt8.ofNat ((65535 - r) / 256 % 256))

/-- `doStored`, only part of the payload fits: shorten the block, `return errInternalSomeProgress`. -/
theorem doStored_someProgress (c : Cutter) (s : Bytes) (q : Nat) (bits : UInt64) (d : Bytes) (fin : Bool)
    (hc : c.bits = ⟨s, q + 1, bits, 5⟩) (hb : BlkAt s q d fin)
    (hm1 : q + 5 < c.maxEncodedLen) (hm2 : c.maxEncodedLen < q + 5 + d.size)
    (hD : 0 ≤ c.decodedLen ∧ c.decodedLen + d.size < 2147483648) :
    c.doStored =
      ({ c with bits := ⟨rewriteHdr s q (c.maxEncodedLen - (q + 5)), c.maxEncodedLen, 0, 0⟩
                decodedLen := c.decodedLen + ((c.maxEncodedLen - (q + 5) : Nat) : Int) }, some .someProgress) := by
  obtain ⟨f1, f2, f3, f4, f5, f6⟩ := blk_fields hb
  simp only [Cutter.doStored, Bitstream.unread, hc]
  have e1 : (q + 1 - 5 / 8) = q + 1 := by omega
  simp only [e1]
  have c1 : ¬ (c.maxEncodedLen < q + 1 ∨ c.maxEncodedLen - (q + 1) < 4) := by omega
  simp only [c1, if_false, f1, f2, f3, f4, f5, f6]
  have hle := hb.le
  have c2 : ¬ (d.size + (65535 - d.size) ≠ 65535) := by omega
  have hw : wrap32 (c.decodedLen + (d.size : Int)) = c.decodedLen + d.size := wrap32_range _ (by omega) (by omega)
  have c3 : ¬ (c.decodedLen + (d.size : Int) < 0) := by omega
  have e4 : q + 1 + 4 = q + 5 := by omega
  have c4 : ¬ (c.maxEncodedLen - (q + 5) ≥ d.size) := by omega
  have c5 : ¬ (c.maxEncodedLen - (q + 5) = 0) := by omega
  have hw2 : wrap32 (c.decodedLen + ((c.maxEncodedLen - (q + 5) : Nat) : Int)) =
      c.decodedLen + ((c.maxEncodedLen - (q + 5) : Nat) : Int) := wrap32_range _ (by omega) (by omega)
  have e5 : q + 5 + (c.maxEncodedLen - (q + 5)) = c.maxEncodedLen := by omega
  simp only [e4, c2, c3, c4, c5, if_false, hw, hw2, e5, rewriteHdr]

theorem finish_aligned (c : Cutter) (hn : c.bits.nBits = 0) :
    c.finish = .ok (c.bits.bytes, c.bits.index, c.decodedLen.toNat) := by
  simp [Cutter.finish, hn]

/-- One iteration of `cut`'s block loop over a stored block, from a byte-aligned cursor. -/
theorem cutLoop_stored_step (f : Nat) (c : Cutter) (prev : Option (Nat × Nat)) (s : Bytes) (q : Nat)
    (d : Bytes) (fin : Bool)
    (hc : c.bits = ⟨s, q, 0, 0⟩) (hb : BlkAt s q d fin)
    (hD : 0 ≤ c.decodedLen ∧ c.decodedLen + d.size < 2147483648) :
    Cutter.cutLoop (f + 1) c prev =
      if q + 5 + d.size ≤ c.maxEncodedLen then
        (if fin then .ok (s, q + 5 + d.size, (c.decodedLen + d.size).toNat)
         else Cutter.cutLoop f { c with bits := ⟨s, q + 5 + d.size, 0, 0⟩, decodedLen := c.decodedLen + d.size }
                (some (q + 1, 7)))
      else if q + 5 < c.maxEncodedLen then
        match patchFinalBit (rewriteHdr s q (c.maxEncodedLen - (q + 5))) (q + 1) 7 with
        | .error e => .error e
        | .ok b => .ok (b, c.maxEncodedLen, (c.decodedLen + ((c.maxEncodedLen - (q + 5) : Nat) : Int)).toNat)
      else
        match prev with
        | none => cutSingleBlock s c.maxEncodedLen
        | some (pi, pn) =>
          match patchFinalBit s pi pn with
          | .error e => .error e
          | .ok b => .ok (b, q, c.decodedLen.toNat) := by
  have hq : q < s.size := by have := hb.fits; omega
  have hh := hb.hdr
  generalize hv : s.getD q 0 = v at hh
  have hvlt : v.toNat < 256 := v.toNat_lt
  have ht1 : Bitstream.take c.bits 1 = (Int.ofNat (v.toNat % 2), ⟨s, q + 1, v.toUInt64 >>> 1, 7⟩) := by
    rw [hc, take1_aligned s q hq, hv]
  have ht2 := take2_after s q v
  have hbt : v.toNat / 2 % 4 = 0 := by split at hh <;> omega
  have hfb : v.toNat % 2 = if fin then 1 else 0 := by cases fin <;> simp at hh ⊢ <;> omega
  simp only [Cutter.cutLoop, ht1, ht2, hbt]
  have n1 : ¬ (Int.ofNat (v.toNat % 2) < 0) := by simp; omega
  simp only [n1, if_false]
  generalize hc2 : ({ c with bits := (⟨s, q + 1, v.toUInt64 >>> 3, 5⟩ : Bitstream) } : Cutter) = c2
  have hb2 : c2.bits = ⟨s, q + 1, v.toUInt64 >>> 3, 5⟩ := by rw [← hc2]
  have hm2 : c2.maxEncodedLen = c.maxEncodedLen := by rw [← hc2]
  have hd2 : c2.decodedLen = c.decodedLen := by rw [← hc2]
  have hD2 : 0 ≤ c2.decodedLen ∧ c2.decodedLen + d.size < 2147483648 := by rw [hd2]; exact hD
  have hne3 : ¬ (Int.ofNat 0 = 3) := by decide
  have hlt0 : ¬ (Int.ofNat 0 < 0) := by decide
  simp only [hlt0, hne3, if_false, if_true]
  by_cases hfit : q + 5 + d.size ≤ c.maxEncodedLen
  · rw [doStored_fits c2 s q _ d fin hb2 hb (by omega) hD2]
    simp only [hfit, if_true, Bitstream.unread, hm2, hd2]
    cases fin
    · have hz : ((v.toNat : Int) % 2 = 0) := by simp at hfb; omega
      simp [hz]
      rw [← hc2]
    · have hz : ¬ ((v.toNat : Int) % 2 = 0) := by simp at hfb; omega
      simp [hz]
      rw [finish_aligned _ rfl]
  · by_cases hsome : q + 5 < c.maxEncodedLen
    · rw [doStored_someProgress c2 s q _ d fin hb2 hb (by omega) (by omega) hD2]
      simp only [hfit, hsome, if_false, if_true, Bitstream.unread, hm2, hd2]
      simp
      generalize patchFinalBit (rewriteHdr s q (c.maxEncodedLen - (q + 5))) (q + 1) 7 = pr
      cases pr with
      | error e => rfl
      | ok b => simp [finish_aligned]
    · rw [doStored_noProgress c2 s q _ d fin hb2 hb (by omega) hD2]
      simp only [hfit, hsome, if_false, Bitstream.unread, hm2, hb2]
      simp
      simp only [hb2, hm2, hd2]
      cases prev with
      | none => rfl
      | some p =>
        obtain ⟨pi, pn⟩ := p
        simp
        generalize patchFinalBit s pi pn = pr
        cases pr with
        | error e => rfl
        | ok b => simp [finish_aligned, hd2]

/-! ### the final surgery, byte level -/

set_option maxRecDepth 100000 in
theorem or1_mod8 : ∀ x : Fin 256, x.val % 8 ≤ 1 → ((x.val ||| 1) % 256) % 8 = 1 := by decide

/-- Patching the final-block bit that sits in bit 0 of byte `q`. -/
theorem patchFinalBit_bit0 (s : Bytes) (q : Nat) (hq : q < s.size) :
    patchFinalBit s (q + 1) 7 = .ok (s.setIfInBounds q (UInt8.ofNat ((s.getD q 0).toNat ||| 1))) := by
  simp only [patchFinalBit]
  have e1 : ¬ (q + 1 = 0) := by omega
  have e2 : q + 1 - 1 = q := by omega
  have e3 : (1 <<< (7 - 7)) % 256 = 1 := by decide
  simp only [e1, if_false, e2, getElem?_eq_getD s q hq, e3]

theorem getD_setIfInBounds (s : Bytes) (i j : Nat) (v : UInt8) :
    (s.setIfInBounds i v).getD j 0 = if j = i ∧ i < s.size then v else s.getD j 0 := by
  simp only [Array.getD_eq_getD_getElem?, Array.getElem?_setIfInBounds]
  by_cases h : i = j
  · subst h
    by_cases h2 : i < s.size
    · simp [h2]
    · simp [h2]
  · have : ¬ (j = i ∧ i < s.size) := by omega
    simp [h, this]

theorem agree_set (s : Bytes) (i : Nat) (v : UInt8) (lo hi : Nat) (h : i < lo ∨ hi ≤ i) :
    AgreeOn s (s.setIfInBounds i v) lo hi := by
  intro j h1 h2
  rw [getD_setIfInBounds]
  have : ¬ (j = i ∧ i < s.size) := by omega
  simp [this]

theorem agree_extract (s : Bytes) (e lo hi : Nat) (h : hi ≤ e) : AgreeOn s (s.extract 0 e) lo hi := by
  intro j h1 h2
  simp only [Array.getD_eq_getD_getElem?, Array.getElem?_extract]
  have : j < min e s.size ∨ ¬ (j < min e s.size) := by omega
  rcases this with h3 | h3
  · simp [h3]
  · have : s.size ≤ j := by omega
    simp [h3, Array.getElem?_eq_none this]

theorem AgreeOn.trans {s s' s'' : Bytes} {lo hi : Nat} (h1 : AgreeOn s s' lo hi) (h2 : AgreeOn s' s'' lo hi) :
    AgreeOn s s'' lo hi := fun i a b => (h2 i a b).trans (h1 i a b)

/-! ### the terminal cases of the walk -/

/-- What THE property asks of one successful result: the first `e` bytes of the modified buffer
are a complete DEFLATE stream that decodes to the first `dLen` bytes of `T`, using all `e` bytes. -/
def Good (T enc : Bytes) (e dLen : Nat) : Prop :=
  Spec.inflate (enc.extract 0 e) = some (T.extract 0 dLen, e) ∧ dLen ≤ T.size

theorem BlkAt.retag {s s' : Bytes} {q : Nat} {d : Bytes} {fin fin' : Bool} (hb : BlkAt s q d fin)
    (ha : AgreeOn s s' (q + 1) (q + 5 + d.size)) (hs' : q + 5 + d.size ≤ s'.size)
    (hh : (s'.getD q 0).toNat % 8 = if fin' then 1 else 0) : BlkAt s' q d fin' := by
  have hf := hb.fits
  refine ⟨hh, ?_, ?_, hb.le, hs', ?_⟩
  · rw [ha (q + 1) (by omega) (by omega), ha (q + 2) (by omega) (by omega)]; exact hb.len
  · rw [ha (q + 3) (by omega) (by omega), ha (q + 4) (by omega) (by omega)]; exact hb.nlen
  · rw [extract_eq_of_agree s s' (q + 5) (q + 5 + d.size) (ha.mono (by omega) (by omega)) hf hs']
    exact hb.data

theorem extract_prefix_append (a b : Bytes) : (a ++ b).extract 0 a.size = a := by
  rw [Array.extract_append]
  simp

/-- Nothing was cut: the whole stream. -/
theorem good_whole (s : Bytes) (ds : List Bytes) (dl : Bytes)
    (hr : Run s 0 ds) (hl : BlkAt s (endOf 0 ds) dl true) :
    Good (flat ds ++ dl) s (endOf 0 ds + 5 + dl.size) (flat ds ++ dl).size := by
  have hf := hl.fits
  have hm := endOf_mono 0 ds
  have hsz : (s.extract 0 (endOf 0 ds + 5 + dl.size)).size = endOf 0 ds + 5 + dl.size := by
    simp [Array.size_extract]; omega
  have hag : AgreeOn s (s.extract 0 (endOf 0 ds + 5 + dl.size)) 0 (endOf 0 ds + 5 + dl.size) :=
    agree_extract s _ _ _ (Nat.le_refl _)
  have h1 : Run (s.extract 0 (endOf 0 ds + 5 + dl.size)) 0 ds :=
    hr.transport (hag.mono (Nat.le_refl _) (by omega)) (by omega)
  have h2 : BlkAt (s.extract 0 (endOf 0 ds + 5 + dl.size)) (endOf 0 ds) dl true :=
    hl.transport (hag.mono (by omega) (Nat.le_refl _)) (by omega)
  refine ⟨?_, Nat.le_refl _⟩
  rw [inflate_stored _ ds dl h1 h2, Array.extract_eq_self_of_le (Nat.le_refl _)]

theorem toNat_ofNat_or1 (x : UInt8) (h : x.toNat % 8 ≤ 1) : (UInt8.ofNat (x.toNat ||| 1)).toNat % 8 = 1 := by
  have := or1_mod8 ⟨x.toNat, x.toNat_lt⟩ h
  simpa using this

/-- `errInternalNoProgress` with a previous block: the stream is cut just before the current block
and the previous block is marked final. -/
theorem good_patch_prev (s : Bytes) (pre0 : List Bytes) (dlast tail b : Bytes)
    (hr : Run s 0 pre0) (hb : BlkAt s (endOf 0 pre0) dlast false)
    (hp : patchFinalBit s (endOf 0 pre0 + 1) 7 = .ok b) :
    Good (flat pre0 ++ dlast ++ tail) b (endOf 0 pre0 + 5 + dlast.size) (flat pre0 ++ dlast).size := by
  have hf := hb.fits
  have hm := endOf_mono 0 pre0
  generalize hq0 : endOf 0 pre0 = q0 at *
  rw [patchFinalBit_bit0 s q0 (by omega)] at hp
  have hp' := Except.ok.inj hp
  subst hp'
  generalize hx : UInt8.ofNat ((s.getD q0 0).toNat ||| 1) = x
  generalize he : q0 + 5 + dlast.size = e at *
  have hsz1 : (s.setIfInBounds q0 x).size = s.size := by simp
  have hsz : ((s.setIfInBounds q0 x).extract 0 e).size = e := by
    simp [Array.size_extract]; omega
  have hag1 : AgreeOn (s.setIfInBounds q0 x) ((s.setIfInBounds q0 x).extract 0 e) 0 e :=
    agree_extract _ _ _ _ (Nat.le_refl _)
  have h1 : Run ((s.setIfInBounds q0 x).extract 0 e) 0 pre0 := by
    apply hr.transport
    · rw [hq0]
      exact AgreeOn.trans (agree_set s q0 x 0 q0 (Or.inr (Nat.le_refl _))) (hag1.mono (Nat.le_refl _) (by omega))
    · rw [hq0]; omega
  have h2 : BlkAt ((s.setIfInBounds q0 x).extract 0 e) q0 dlast true := by
    apply BlkAt.retag hb
    · rw [he]
      exact AgreeOn.trans (agree_set s q0 x (q0 + 1) e (Or.inl (by omega))) (hag1.mono (by omega) (Nat.le_refl _))
    · omega
    · rw [hag1 q0 (by omega) (by omega), getD_setIfInBounds]
      have : q0 = q0 ∧ q0 < s.size := ⟨rfl, by omega⟩
      simp only [this, and_self, if_true, ← hx]
      apply toNat_ofNat_or1
      have := hb.hdr
      simp only [Bool.false_eq_true, if_false] at this
      omega
  refine ⟨?_, by simp [Array.size_append]⟩
  have := inflate_stored _ pre0 dlast h1 (by rw [hq0]; exact h2)
  rw [hq0, he] at this
  rw [this, extract_prefix_append]

end WuffsVerif.Flate.Cut
