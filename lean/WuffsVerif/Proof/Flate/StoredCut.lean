/-
C16: THE property (cut_prefix) for streams that consist of stored blocks —
`doStored` (shortening + header rewrite), final-bit patching of the previous block,
and the `cutSingleBlock` fallback.
-/
import WuffsVerif.Proof.Flate.Bounds3
import WuffsVerif.Proof.Flate.StoredSpec

namespace WuffsVerif.Flate.Cut
open WuffsVerif.Gen.C16 WuffsVerif.Flate.Spec

theorem wrap32_range (x : Int) (h0 : 0 ≤ x) (h : x < 2147483648) : wrap32 x = x := by
  simp only [wrap32]
  have : (x % 4294967296) = x := by omega
  rw [this]
  split <;> omega

theorem wrap32_small (n : Nat) (h : n < 2147483648) : wrap32 (n : Int) = n :=
  wrap32_range _ (by omega) (by omega)

/-- `take(1)` at a byte boundary with an empty bit buffer: loads `s[q]`, returns its bit 0. -/
theorem take1_aligned (s : Bytes) (q : Nat) (hq : q < s.size) :
    (Bitstream.take ⟨s, q, 0, 0⟩ 1) =
      (Int.ofNat ((s.getD q 0).toNat % 2), ⟨s, q + 1, (s.getD q 0).toUInt64 >>> 1, 7⟩) := by
  simp only [Bitstream.take, Bitstream.fill]
  have h1 : ¬ (q ≥ s.size) := by omega
  simp [h1, shl64, shr64]
  apply wrap32_range <;> omega

/-- `take(2)` right after: the two block-type bits. -/
theorem take2_after (s : Bytes) (q : Nat) (v : UInt8) :
    (Bitstream.take ⟨s, q + 1, v.toUInt64 >>> 1, 7⟩ 2) =
      (Int.ofNat (v.toNat / 2 % 4), ⟨s, q + 1, v.toUInt64 >>> 3, 5⟩) := by
  simp only [Bitstream.take, Bitstream.fill]
  simp [shr64]
  constructor
  · have hv : v.toNat < 256 := v.toNat_lt
    have h3 : (3 : Nat) = 2 ^ 2 - 1 := rfl
    rw [h3, Nat.and_two_pow_sub_one_eq_mod, Nat.shiftRight_eq_div_pow]
    have : v.toNat / 2 ^ 1 % 4294967296 % 2 ^ 2 = v.toNat / 2 % 4 := by omega
    rw [this]
    apply wrap32_range <;> omega
  · apply UInt64.toNat_inj.mp
    simp [Nat.shiftRight_eq_div_pow]
    omega

theorem or_shl8 (b0 b1 : Nat) (h : b0 < 256) : b0 ||| (b1 <<< 8) = b0 + 256 * b1 := by
  rw [Nat.or_comm, ← Nat.shiftLeft_add_eq_or_of_lt (by omega : b0 < 2 ^ 8), Nat.shiftLeft_eq]
  omega

theorem getElem?_eq_getD (s : Bytes) (i : Nat) (h : i < s.size) : s[i]? = some (s.getD i 0) := by
  simp [Array.getD, h]

/-- The four length bytes of a stored block, as `doStored` reads them. -/
theorem blk_fields {s : Bytes} {q : Nat} {d : Bytes} {fin : Bool} (hb : BlkAt s q d fin) :
    s[q + 1]? = some (s.getD (q + 1) 0) ∧ s[q + 1 + 1]? = some (s.getD (q + 2) 0) ∧
    s[q + 1 + 2]? = some (s.getD (q + 3) 0) ∧ s[q + 1 + 3]? = some (s.getD (q + 4) 0) ∧
    ((s.getD (q + 1) 0).toNat ||| ((s.getD (q + 2) 0).toNat <<< 8)) = d.size ∧
    ((s.getD (q + 3) 0).toNat ||| ((s.getD (q + 4) 0).toNat <<< 8)) = 65535 - d.size := by
  have hf := hb.fits
  refine ⟨getElem?_eq_getD _ _ (by omega), getElem?_eq_getD _ _ (by omega), getElem?_eq_getD _ _ (by omega),
    getElem?_eq_getD _ _ (by omega), ?_, ?_⟩
  · rw [or_shl8 _ _ (s.getD (q + 1) 0).toNat_lt]; exact hb.len
  · rw [or_shl8 _ _ (s.getD (q + 3) 0).toNat_lt]; exact hb.nlen

/-- `doStored`, the block fits: `return nil`. -/
theorem doStored_fits (c : Cutter) (s : Bytes) (q : Nat) (bits : UInt64) (d : Bytes) (fin : Bool)
    (hc : c.bits = ⟨s, q + 1, bits, 5⟩) (hb : BlkAt s q d fin)
    (hm : q + 5 + d.size ≤ c.maxEncodedLen)
    (hD : 0 ≤ c.decodedLen ∧ c.decodedLen + d.size < 2147483648) :
    c.doStored = ({ c with bits := ⟨s, q + 5 + d.size, 0, 0⟩, decodedLen := c.decodedLen + d.size }, none) := by
  obtain ⟨f1, f2, f3, f4, f5, f6⟩ := blk_fields hb
  simp only [Cutter.doStored, Bitstream.unread, hc]
  have e1 : (q + 1 - 5 / 8) = q + 1 := by omega
  simp only [e1]
  have c1 : ¬ (c.maxEncodedLen < q + 1 ∨ c.maxEncodedLen - (q + 1) < 4) := by omega
  simp only [c1, if_false, f1, f2, f3, f4, f5, f6]
  have hle := hb.le
  have c2 : ¬ (d.size + (65535 - d.size) ≠ 65535) := by omega
  have hw : wrap32 (c.decodedLen + (d.size : Int)) = c.decodedLen + d.size := wrap32_range _ (by omega) (by omega)
  have c3 : ¬ (c.decodedLen + (d.size : Int) < 0) := by omega
  have c4 : c.maxEncodedLen - (q + 1 + 4) ≥ d.size := by omega
  have e2 : q + 1 + 4 + d.size = q + 5 + d.size := by omega
  simp only [c2, c3, c4, if_false, if_true, hw, e2]

/-- `doStored`, not even one payload byte fits: `return errInternalNoProgress`, nothing changes. -/
theorem doStored_noProgress (c : Cutter) (s : Bytes) (q : Nat) (bits : UInt64) (d : Bytes) (fin : Bool)
    (hc : c.bits = ⟨s, q + 1, bits, 5⟩) (hb : BlkAt s q d fin)
    (hm : c.maxEncodedLen < q + 5 ∨ (c.maxEncodedLen = q + 5 ∧ 0 < d.size))
    (hD : 0 ≤ c.decodedLen ∧ c.decodedLen + d.size < 2147483648) :
    c.doStored = (c, some .noProgress) := by
  obtain ⟨f1, f2, f3, f4, f5, f6⟩ := blk_fields hb
  have hcc : ({ c with bits := ⟨s, q + 1, bits, 5 % 8⟩ } : Cutter) = c := by
    cases c; simp at hc; simp [hc]
  simp only [Cutter.doStored, Bitstream.unread, hc]
  have e1 : (q + 1 - 5 / 8) = q + 1 := by omega
  simp only [e1]
  by_cases c1 : (c.maxEncodedLen < q + 1 ∨ c.maxEncodedLen - (q + 1) < 4)
  · simp only [c1, if_true, hcc]
  · simp only [c1, if_false, f1, f2, f3, f4, f5, f6]
    have hle := hb.le
    have c2 : ¬ (d.size + (65535 - d.size) ≠ 65535) := by omega
    have hw : wrap32 (c.decodedLen + (d.size : Int)) = c.decodedLen + d.size := wrap32_range _ (by omega) (by omega)
    have c3 : ¬ (c.decodedLen + (d.size : Int) < 0) := by omega
    have c4 : ¬ (c.maxEncodedLen - (q + 1 + 4) ≥ d.size) := by omega
    have c5 : c.maxEncodedLen - (q + 1 + 4) = 0 := by omega
    have c6 : ¬ (0 ≥ d.size) := by omega
    simp only [c2, c3, c5, c6, if_false, if_true, hw, hcc]

/-- The four header bytes of a stored block at `q` rewritten for a payload of `r` bytes. -/
def rewriteHdr (s : Bytes) (q r : Nat) : Bytes :=
  (((s.setIfInBounds (q + 1) (UInt8.ofNat (r % 256))).setIfInBounds (q + 2) (UInt8.ofNat (r / 256 % 256))).setIfInBounds
    (q + 3) (UInt8.ofNat ((65535 - r) % 256))).setIfInBounds (q + 4) (UInt8.ofNat ((65535 - r) / 256 % 256))

/-- `doStored`, only part of the payload fits: shorten the block, `return errInternalSomeProgress`. -/
theorem doStored_someProgress (c : Cutter) (s : Bytes) (q : Nat) (bits : UInt64) (d : Bytes) (fin : Bool)
    (hc : c.bits = ⟨s, q + 1, bits, 5⟩) (hb : BlkAt s q d fin)
    (hm1 : q + 5 < c.maxEncodedLen) (hm2 : c.maxEncodedLen < q + 5 + d.size)
    (hD : 0 ≤ c.decodedLen ∧ c.decodedLen + d.size < 2147483648) :
    c.doStored =
      ({ c with bits := ⟨rewriteHdr s q (c.maxEncodedLen - (q + 5)), c.maxEncodedLen, 0, 0⟩
                decodedLen := c.decodedLen + ((c.maxEncodedLen - (q + 5) : Nat) : Int) }, some .someProgress) := by
  obtain ⟨f1, f2, f3, f4, f5, f6⟩ := blk_fields hb
  simp only [Cutter.doStored, Bitstream.unread, hc]
  have e1 : (q + 1 - 5 / 8) = q + 1 := by omega
  simp only [e1]
  have c1 : ¬ (c.maxEncodedLen < q + 1 ∨ c.maxEncodedLen - (q + 1) < 4) := by omega
  simp only [c1, if_false, f1, f2, f3, f4, f5, f6]
  have hle := hb.le
  have c2 : ¬ (d.size + (65535 - d.size) ≠ 65535) := by omega
  have hw : wrap32 (c.decodedLen + (d.size : Int)) = c.decodedLen + d.size := wrap32_range _ (by omega) (by omega)
  have c3 : ¬ (c.decodedLen + (d.size : Int) < 0) := by omega
  have e4 : q + 1 + 4 = q + 5 := by omega
  have c4 : ¬ (c.maxEncodedLen - (q + 5) ≥ d.size) := by omega
  have c5 : ¬ (c.maxEncodedLen - (q + 5) = 0) := by omega
  have hw2 : wrap32 (c.decodedLen + ((c.maxEncodedLen - (q + 5) : Nat) : Int)) =
      c.decodedLen + ((c.maxEncodedLen - (q + 5) : Nat) : Int) := wrap32_range _ (by omega) (by omega)
  have e5 : q + 5 + (c.maxEncodedLen - (q + 5)) = c.maxEncodedLen := by omega
  simp only [e4, c2, c3, c4, c5, if_false, hw, hw2, e5, rewriteHdr]

theorem finish_aligned (c : Cutter) (hn : c.bits.nBits = 0) :
    c.finish = .ok (c.bits.bytes, c.bits.index, c.decodedLen.toNat) := by
  simp [Cutter.finish, hn]

/-- One iteration of `cut`'s block loop over a stored block, from a byte-aligned cursor. -/
theorem cutLoop_stored_step (f : Nat) (c : Cutter) (prev : Option (Nat × Nat)) (s : Bytes) (q : Nat)
    (d : Bytes) (fin : Bool)
    (hc : c.bits = ⟨s, q, 0, 0⟩) (hb : BlkAt s q d fin)
    (hD : 0 ≤ c.decodedLen ∧ c.decodedLen + d.size < 2147483648) :
    Cutter.cutLoop (f + 1) c prev =
      if q + 5 + d.size ≤ c.maxEncodedLen then
        (if fin then .ok (s, q + 5 + d.size, (c.decodedLen + d.size).toNat)
         else Cutter.cutLoop f { c with bits := ⟨s, q + 5 + d.size, 0, 0⟩, decodedLen := c.decodedLen + d.size }
                (some (q + 1, 7)))
      else if q + 5 < c.maxEncodedLen then
        match patchFinalBit (rewriteHdr s q (c.maxEncodedLen - (q + 5))) (q + 1) 7 with
        | .error e => .error e
        | .ok b => .ok (b, c.maxEncodedLen, (c.decodedLen + ((c.maxEncodedLen - (q + 5) : Nat) : Int)).toNat)
      else
        match prev with
        | none => cutSingleBlock s c.maxEncodedLen
        | some (pi, pn) =>
          match patchFinalBit s pi pn with
          | .error e => .error e
          | .ok b => .ok (b, q, c.decodedLen.toNat) := by
  have hq : q < s.size := by have := hb.fits; omega
  have hh := hb.hdr
  generalize hv : s.getD q 0 = v at hh
  have hvlt : v.toNat < 256 := v.toNat_lt
  have ht1 : Bitstream.take c.bits 1 = (Int.ofNat (v.toNat % 2), ⟨s, q + 1, v.toUInt64 >>> 1, 7⟩) := by
    rw [hc, take1_aligned s q hq, hv]
  have ht2 := take2_after s q v
  have hbt : v.toNat / 2 % 4 = 0 := by split at hh <;> omega
  have hfb : v.toNat % 2 = if fin then 1 else 0 := by cases fin <;> simp at hh ⊢ <;> omega
  simp only [Cutter.cutLoop, ht1, ht2, hbt]
  have n1 : ¬ (Int.ofNat (v.toNat % 2) < 0) := by simp; omega
  simp only [n1, if_false]
  simp
  trace_state
  sorry

end WuffsVerif.Flate.Cut
