/-
C16: one block of `cut` against one block of the spec decoder (`BlockSim`), for fixed-Huffman and for
stored blocks at any bit position.
-/
import WuffsVerif.Proof.Flate.BlockAt

namespace WuffsVerif.Flate.Cut
open WuffsVerif.Gen.C16 WuffsVerif.Flate.Spec

attribute [local irreducible] Spec.fixedLitLens Spec.fixedDistLens Spec.fixedLit Spec.fixedDist

/-- What a block function of the cutter does on a block of `s` at bit `p` that the spec decodes from
`out` to `out1`, ending at `p1`.  `c` is the cutter just after the three header bits; `k` is the length
of the preset dictionary in front of the spec's output (0 without one): `decodedLen + k = out.size`. -/
structure BlockSim (s : Bytes) (k : Nat) (c : Cutter) (p : Nat) (out : Bytes) (p1 : Nat) (out1 : Bytes)
    (r : Cutter × Option Err) : Prop where
  size : r.1.bits.bytes.size = s.size
  max : r.1.maxEncodedLen = c.maxEncodedLen
  nil : r.2 = none → r.1.bits.bytes = s ∧ r.1.bits.pos = p1 ∧ r.1.decodedLen + (k : Int) = (out1.size : Int) ∧
      p1 ≤ 8 * c.maxEncodedLen ∧ r.1.OK
  prog : r.2 = some .someProgress → ∃ pos' o, 8 * r.1.bits.index - r.1.bits.nBits = pos' ∧
      r.1.bits.nBits ≤ 8 * r.1.bits.index ∧ r.1.bits.nBits ≤ 8 ∧ pos' ≤ 8 * c.maxEncodedLen ∧
      r.1.decodedLen + (k : Int) = (o.size : Int) ∧ (∃ x, out1 = o ++ x) ∧
      (∀ i, i ≤ p → bitAt r.1.bits.bytes i = bitAt s i) ∧ BlockAt r.1.bits.bytes p out pos' o
  keep : r.2 = some .noProgress ∨ r.2 = some .replaceWithSingleBlock → r.1.bits.bytes = s
  keepD : r.2 = some .noProgress → r.1.decodedLen = c.decodedLen

theorem reach_extends {hl hd : Huff} {minL minD : Nat} {s : Bytes} {p q : Nat} {out o : Bytes}
    (h : Reach hl hd minL minD s p out q o) : ∃ x, o = out ++ x := by
  induction h with
  | refl => exact ⟨#[], by simp⟩
  | lit _ _ ih => obtain ⟨x, hx⟩ := ih; exact ⟨_, by rw [hx, push_append]⟩
  | @copy p out len dist p1 q o _ _ ih =>
    obtain ⟨x, hx⟩ := ih
    obtain ⟨y, hy, _⟩ := copyMatch_append out dist len
    exact ⟨y ++ x, by rw [hx, hy, Array.append_assoc]⟩

/-- A fixed-Huffman block. -/
theorem fixed_blocksim (s : Bytes) (c : Cutter) (hc : c.OK) (hb : c.bits.bytes = s) (p : Nat)
    (hp : c.bits.pos = p + 3) (out : Bytes) (p1 : Nat) (out1 : Bytes) (hty : bitsLE s (p + 1) 2 = 1)
    (hbody : blockBody s none 0 p out = .next p1 out1) (k : Nat)
    (hcd : c.decodedLen + (k : Int) = (out.size : Int)) (hc0 : 0 ≤ c.decodedLen)
    (hT : (out1.size : Int) < 2147483648) (isFirst : Bool) :
    BlockSim s k c p out p1 out1 (c.doStaticHuffman isFirst) := by
  have e1 : ¬ ((1 : Nat) = 0) := by omega
  have hspec : huffBlock fixedLit fixedDist 7 5 s none 0 (8 * s.size + 1) (p + 3) out = .next p1 out1 := by
    simpa only [blockBody, hty, e1, if_false, if_true] using hbody
  have hsim := doStaticHuffman_sim c hc (8 * s.size + 1) p1 out out1 (by rw [hb, hp]; exact hspec) k hcd hc0 hT isFirst
  have htot := doStaticHuffman_total c hc isFirst
  obtain ⟨k1, k2, k3, k4, k5, k6⟩ := hsim
  refine ⟨by rw [k1, hb], k2, ?_, ?_, fun h => by rw [k5 h, hb], k6⟩
  · intro h
    obtain ⟨a1, a2, a3, a4, _⟩ := k3 h
    exact ⟨by rw [a1, hb], a2, a3, a4, (htot.cont h).1⟩
  · intro h
    obtain ⟨q, o, a1, a2, a3, a4, a5, a6, a7, ⟨lh, hgl⟩, a8⟩ := k4 h
    rw [hb, hp] at a1
    rw [hp] at a2
    have hmax := hc.max
    rw [hb] at hmax
    obtain ⟨x, hx⟩ := reach_prefix fixedLit fixedDist 7 5 s (hminD_fixed s) a1 (by omega) _ p1 out1 (by omega) hspec
    refine ⟨q + 7, o, a5, a6, a7, a4, a3, ⟨x, hx⟩, ?_, ?_⟩
    · intro i hi
      rw [a8 i, hb]
      have : ¬ (q ≤ i ∧ i < q + 7) := by omega
      rw [if_neg this]
    · refine ⟨by omega, reach_extends a1, ?_⟩
      intro s'' hag hsz
      have hbit : ∀ i, p + 1 ≤ i → i < q + 7 → bitAt s'' i =
          if q ≤ i then ((rfcCode fixedLitLens 256).testBit (7 - 1 - (i - q))).toNat else bitAt s i := by
        intro i h1 h2
        rw [hag i h1 h2, a8 i, hb]
        by_cases hq : q ≤ i
        · rw [if_pos ⟨hq, h2⟩, if_pos hq]
        · have : ¬ (q ≤ i ∧ i < q + 7) := by omega
          rw [if_neg this, if_neg hq]
      have hty'' : bitsLE s'' (p + 1) 2 = 1 := by
        rw [bitsLE_local s s'' (p + 1) 2 (fun i h1 h2 => by
          rw [hbit i h1 (by omega)]
          have : ¬ (q ≤ i) := by omega
          rw [if_neg this])]
        exact hty
      simp only [blockBody, hty'', e1, if_false, if_true]
      have heob'' : huffTok fixedLit fixedDist 7 5 s'' q o.size = .eob (q + 7) := by
        have hdec := eob_decodes lh fixedLitLens hgl fixedLit_nz fixedLit fixedLit_some
          (offAt16_le fixedLitLens 288 (by rw [fixedLit_256.1]; omega)) (by rw [fixedLit_256.1]; omega)
          (by rw [fixedLit_256.2]; omega) s'' q
          (by
            intro k hk
            rw [fixedLit_256.2] at hk ⊢
            rw [hbit (q + k) (by omega) (by omega)]
            have : q + k - q = k := by omega
            rw [if_pos (by omega), this])
          (by rw [fixedLit_256.2]; omega)
        rw [fixedLit_256.2] at hdec
        simp only [huffTok, decodeSym]
        have hav : ¬ (avail s'' q < 7) := by simp only [avail]; omega
        rw [if_neg hav, hdec]
        simp
      exact replay_eob fixedLit fixedDist 7 5 0 s s'' (hminD_fixed s) a1
        (fun i h1 h2 => by
          rw [hbit i (by omega) (by omega)]
          have : ¬ (q ≤ i) := by omega
          rw [if_neg this])
        (by omega) heob'' _ (by omega)

theorem extract_split (a : Bytes) (i j k : Nat) (h1 : i ≤ j) (h2 : j ≤ k) (h3 : k ≤ a.size) :
    a.extract i k = a.extract i j ++ a.extract j k := by
  apply Array.ext
  · simp [Array.size_extract]; omega
  · intro x hx1 hx2
    simp only [Array.size_extract] at hx1
    simp only [Array.getElem_extract, Array.getElem_append, Array.size_extract]
    by_cases hlt : x < min j a.size - i
    · simp [hlt]
    · simp only [hlt, dite_false]
      congr 1; omega

theorem byte_val (r : Nat) : (UInt8.ofNat (r % 256)).toNat = r % 256 := by simp

/-- The spec's view of a stored block. -/
theorem stored_body (s : Bytes) (p : Nat) (out : Bytes) (p1 : Nat) (out1 : Bytes)
    (hty : bitsLE s (p + 1) 2 = 0) (h : blockBody s none 0 p out = .next p1 out1) :
    let q := (p + 3 + 7) / 8
    let len := (s.getD q 0).toNat + 256 * (s.getD (q + 1) 0).toNat
    q + 4 ≤ s.size ∧ len + ((s.getD (q + 2) 0).toNat + 256 * (s.getD (q + 3) 0).toNat) = 0xFFFF ∧
    q + 4 + len ≤ s.size ∧ p1 = 8 * (q + 4 + len) ∧ out1 = out ++ s.extract (q + 4) (q + 4 + len) := by
  simp only [blockBody, hty, if_true, storedBlock] at h
  split at h
  · simp at h
  · rename_i hq
    split at h
    · simp at h
    · rename_i hlen
      split at h
      · simp at h
      · rename_i hfit
        simp only [BlockResult.next.injEq] at h
        exact ⟨by omega, by omega, by omega, h.1.symm, h.2.symm⟩

/-- A stored block, at any bit position. -/
theorem stored_blocksim (s : Bytes) (c : Cutter) (hc : c.OK) (hb : c.bits.bytes = s) (p : Nat)
    (hp : c.bits.pos = p + 3) (out : Bytes) (p1 : Nat) (out1 : Bytes) (hty : bitsLE s (p + 1) 2 = 0)
    (hbody : blockBody s none 0 p out = .next p1 out1) (k : Nat)
    (hcd : c.decodedLen + (k : Int) = (out.size : Int)) (hc0 : 0 ≤ c.decodedLen)
    (hT : (out1.size : Int) < 2147483648) :
    BlockSim s k c p out p1 out1 c.doStored := by
  obtain ⟨g1, g2, g3, g4, g5⟩ := stored_body s p out p1 out1 hty hbody
  generalize hqd : (p + 3 + 7) / 8 = q at *
  have htot := doStored_total c hc
  obtain ⟨s1, s2, _⟩ := doStored_spec c
  obtain ⟨hu, hup⟩ := Inv.unread hc.inv
  have hnb := unread_nBits_lt c.bits
  have hidx : c.bits.unread.index = q := by
    have := hu.nBits_le
    have h1 : 8 * c.bits.unread.index - c.bits.unread.nBits = p + 3 := by
      have : c.bits.unread.pos = p + 3 := by rw [hup, hp]
      exact this
    omega
  have hmax := hc.max
  rw [hb] at hmax
  have hub : c.bits.unread.bytes = s := by rw [unread_bytes, hb]
  generalize hlend : (s.getD q 0).toNat + 256 * (s.getD (q + 1) 0).toNat = len at *
  have hlen16 : len ≤ 65535 := by omega
  have hesz : (s.extract (q + 4) (q + 4 + len)).size = len := by simp [Array.size_extract]; omega
  have ho1 : out1.size = out.size + len := by rw [g5]; simp [Array.size_append, hesz]
  refine ⟨by rw [s2, hb], s1, ?_, ?_, ?_, ?_⟩
  all_goals
    simp only [Cutter.doStored, hidx, hub]
    by_cases hfit : c.maxEncodedLen < q ∨ c.maxEncodedLen - q < 4
    · simp only [hfit, if_true]
      first
        | (intro h; simp at h; done)
        | (intro _; exact hub)
        | (intro _; first | rfl | trivial)
    simp only [hfit, if_false]
    rw [getElem?_eq_getD s q (by omega), getElem?_eq_getD s (q + 1) (by omega), getElem?_eq_getD s (q + 2) (by omega),
      getElem?_eq_getD s (q + 3) (by omega)]
    simp only []
    rw [or_shl8 _ _ (s.getD q 0).toNat_lt, or_shl8 _ _ (s.getD (q + 2) 0).toNat_lt, hlend]
    have hsum : ¬ (len + ((s.getD (q + 2) 0).toNat + 256 * (s.getD (q + 3) 0).toNat) ≠ 0xFFFF) := by omega
    simp only [hsum, if_false]
    have hw : wrap32 (c.decodedLen + (len : Int)) = c.decodedLen + (len : Int) := by
      rw [wrap32_range] <;> omega
    rw [hw]
    have hnn : ¬ (c.decodedLen + (len : Int) < 0) := by omega
    simp only [hnn, if_false]
  -- nil
  · by_cases hrem : c.maxEncodedLen - (q + 4) ≥ len
    · simp only [hrem, if_true]
      intro _
      refine ⟨by first | trivial | rfl, ?_, ?_, by omega, ⟨inv_fresh s _ (by omega), hmax, hc.l, hc.d⟩⟩
      · simp only [Bitstream.pos]; omega
      · show c.decodedLen + (len : Int) + (k : Int) = (out1.size : Int)
        rw [ho1]; omega
    · simp only [hrem, if_false]
      split <;> (intro h; simp at h)
  -- someProgress
  · by_cases hrem : c.maxEncodedLen - (q + 4) ≥ len
    · simp only [hrem, if_true]; intro h; simp at h
    · simp only [hrem, if_false]
      by_cases hr0 : c.maxEncodedLen - (q + 4) = 0
      · simp only [hr0, if_true]; intro h; simp at h
      · simp only [hr0, if_false]
        intro _
        generalize hrd : c.maxEncodedLen - (q + 4) = r at *
        have hr16 : r < 65535 := by omega
        refine ⟨8 * c.maxEncodedLen, out ++ s.extract (q + 4) (q + 4 + r), by show 8 * (q + 4 + r) - 0 = _; omega,
          by show 0 ≤ _; omega, by show 0 ≤ 8; omega, Nat.le_refl _, ?_, ?_, ?_, ?_⟩
        · have : (s.extract (q + 4) (q + 4 + r)).size = r := by simp [Array.size_extract]; omega
          have hw2 : wrap32 (c.decodedLen + (r : Int)) = c.decodedLen + (r : Int) := by
            rw [wrap32_range] <;> omega
          show wrap32 (c.decodedLen + (r : Int)) + (k : Int) = _
          rw [hw2]; simp only [Array.size_append, this]; omega
        · exact ⟨s.extract (q + 4 + r) (q + 4 + len), by
            rw [g5, Array.append_assoc, ← extract_split s (q + 4) (q + 4 + r) (q + 4 + len) (by omega) (by omega) g3]⟩
        · intro i hi
          rw [bitAt_set _ _ _ _ (by simp; omega), bitAt_set _ _ _ _ (by simp; omega), bitAt_set _ _ _ _ (by simp; omega),
            bitAt_set _ _ _ _ (by omega)]
          have n0 : ¬ (i / 8 = q + 3) := by omega
          have n1 : ¬ (i / 8 = q + 2) := by omega
          have n2 : ¬ (i / 8 = q + 1) := by omega
          have n3 : ¬ (i / 8 = q) := by omega
          simp only [n0, n1, n2, n3, if_false]
        · -- the shortened block decodes robustly
          generalize hB : (((s.setIfInBounds q (UInt8.ofNat (r % 256))).setIfInBounds (q + 1) (UInt8.ofNat (r / 256 % 256))).setIfInBounds
            (q + 2) (UInt8.ofNat ((65535 - r) % 256))).setIfInBounds (q + 3) (UInt8.ofNat ((65535 - r) / 256 % 256)) = B
          have hBget : ∀ j, B.getD j 0 =
              if j = q then UInt8.ofNat (r % 256) else if j = q + 1 then UInt8.ofNat (r / 256 % 256)
              else if j = q + 2 then UInt8.ofNat ((65535 - r) % 256)
              else if j = q + 3 then UInt8.ofNat ((65535 - r) / 256 % 256) else s.getD j 0 := by
            intro j
            rw [← hB]
            simp only [getD_setIfInBounds, Array.size_setIfInBounds]
            repeat' split
            all_goals first
              | rfl
              | omega
          have hBbit : ∀ i, i < 8 * q → bitAt B i = bitAt s i := by
            intro i hi
            simp only [bitAt]
            rw [hBget (i / 8)]
            have n0 : ¬ (i / 8 = q + 3) := by omega
            have n1 : ¬ (i / 8 = q + 2) := by omega
            have n2 : ¬ (i / 8 = q + 1) := by omega
            have n3 : ¬ (i / 8 = q) := by omega
            simp only [n0, n1, n2, n3, if_false]
          refine ⟨by omega, ⟨_, rfl⟩, ?_⟩
          intro s'' hag hsz
          have hbyte : ∀ j, q ≤ j → j < c.maxEncodedLen → s''.getD j 0 = B.getD j 0 := by
            intro j h1 h2
            apply byte_eq_of_bits
            intro k hk
            exact hag _ (by omega) (by omega)
          have hty'' : bitsLE s'' (p + 1) 2 = 0 := by
            rw [bitsLE_local s s'' (p + 1) 2 (fun i h1 h2 => by rw [hag i h1 (by omega), hBbit i (by omega)])]
            exact hty
          simp only [blockBody, hty'', if_true, storedBlock, hqd]
          rw [hbyte q (by omega) (by omega), hbyte (q + 1) (by omega) (by omega), hbyte (q + 2) (by omega) (by omega),
            hbyte (q + 3) (by omega) (by omega), hBget q, hBget (q + 1), hBget (q + 2), hBget (q + 3)]
          have m1 : ¬ (q + 1 = q) := by omega
          have m2 : ¬ (q + 2 = q) := by omega
          have m3 : ¬ (q + 2 = q + 1) := by omega
          have m4 : ¬ (q + 3 = q) := by omega
          have m5 : ¬ (q + 3 = q + 1) := by omega
          have m6 : ¬ (q + 3 = q + 2) := by omega
          simp only [if_true, m1, m2, m3, m4, m5, m6, if_false]
          have v1 : (UInt8.ofNat (r % 256)).toNat + 256 * (UInt8.ofNat (r / 256 % 256)).toNat = r := by
            simp; omega
          have v2 : (UInt8.ofNat ((65535 - r) % 256)).toNat + 256 * (UInt8.ofNat ((65535 - r) / 256 % 256)).toNat = 65535 - r := by
            simp; omega
          rw [v1, v2]
          have c1 : ¬ (q + 4 > s''.size) := by omega
          have c2 : ¬ (r + (65535 - r) ≠ 65535) := by omega
          have c3 : ¬ (q + 4 + r > s''.size) := by omega
          simp only [c1, c2, c3, if_false]
          have : q + 4 + r = c.maxEncodedLen := by omega
          rw [this]
          congr 2
          apply extract_eq_of_agree s s'' (q + 4) c.maxEncodedLen _ (by omega) (by omega)
          intro j h1 h2
          rw [hbyte j (by omega) h2, hBget j]
          have n0 : ¬ (j = q + 3) := by omega
          have n1 : ¬ (j = q + 2) := by omega
          have n2 : ¬ (j = q + 1) := by omega
          have n3 : ¬ (j = q) := by omega
          simp only [n0, n1, n2, n3, if_false]
  -- keep
  · by_cases hrem : c.maxEncodedLen - (q + 4) ≥ len
    · simp only [hrem, if_true]; intro h; rcases h with h | h <;> simp at h
    · simp only [hrem, if_false]
      split
      · intro _; exact hub
      · intro h; rcases h with h | h <;> simp at h
  -- keepD
  · by_cases hrem : c.maxEncodedLen - (q + 4) ≥ len
    · simp only [hrem, if_true]; intro h; simp at h
    · simp only [hrem, if_false]
      split
      · intro _; rfl
      · intro h; simp at h

end WuffsVerif.Flate.Cut
