/-
C16: `construct_canonical`, decoding part — `slowDecode` maps the RFC 1951 §3.2.2 code of every
symbol back to that symbol.  Part 2a: the loop of `slowDecode`, given that `h.counts` are the
RFC's `bl_count` and `h.symbols` lists the symbols sorted by (length, symbol).
-/
import WuffsVerif.Proof.Flate.Canonical
import WuffsVerif.Proof.Flate.Lookup

namespace WuffsVerif.Flate.Cut
open WuffsVerif.Gen.C16

/-- Number of symbols with a code shorter than `L` (`offsets[L]` of `construct`). -/
def offAt (lengths : Array Nat) : Nat → Nat
  | 0 => 0
  | L + 1 => offAt lengths L + rfcBlCount lengths L

/-- Rank of `sym` among the symbols of its own length. -/
def rankOf (lengths : Array Nat) (sym : Nat) : Nat :=
  ((lengths.toList.take sym).filter (· = lengths.getD sym 0)).length

/-- `h` is the canonical decoder table for `lengths`. -/
structure Canon (h : Huffman) (lengths : Array Nat) : Prop where
  counts : ∀ j, 1 ≤ j → j ≤ 15 → h.counts.getD j 0 = rfcBlCount lengths j
  symbols : ∀ sym, sym < lengths.size → lengths.getD sym 0 ≠ 0 →
    h.symbols[offAt lengths (lengths.getD sym 0) + rankOf lengths sym]? = some (Int.ofNat sym)

theorem rfcNextCode_lt (lengths : Array Nat) (L : Nat) (hL : 1 ≤ L) (hno : NoOver lengths L) :
    rfcNextCode lengths L + rfcBlCount lengths L ≤ 2 ^ L := by
  have := nextCode_add lengths L hL hno
  omega

/-- Codes of length `i + d + 1` start above every extension of the codes of length `≤ i`. -/
theorem nextCode_mono (lengths : Array Nat) (i d : Nat) :
    (rfcNextCode lengths i + rfcBlCount lengths i) * 2 ^ (d + 1) ≤ rfcNextCode lengths (i + d + 1) := by
  induction d with
  | zero =>
    have : rfcNextCode lengths (i + 0 + 1) = (rfcNextCode lengths i + rfcBlCount lengths i) * 2 := rfl
    rw [this]; simp
  | succ d ih =>
    have : rfcNextCode lengths (i + (d + 1) + 1) =
        (rfcNextCode lengths (i + d + 1) + rfcBlCount lengths (i + d + 1)) * 2 := rfl
    rw [this, Nat.pow_succ, ← Nat.mul_assoc]
    apply Nat.mul_le_mul_right
    omega

theorem rank_lt (lengths : Array Nat) (sym : Nat) (hs : sym < lengths.size) (hL : lengths.getD sym 0 ≠ 0) :
    rankOf lengths sym < rfcBlCount lengths (lengths.getD sym 0) := by
  simp only [rankOf, rfcBlCount, hL, if_false]
  have hlen : sym < lengths.toList.length := by simpa using hs
  have hsplit : lengths.toList = lengths.toList.take sym ++ lengths.toList[sym] :: lengths.toList.drop (sym + 1) := by
    rw [← List.drop_eq_getElem_cons hlen, List.take_append_drop]
  have hel : lengths.toList[sym] = lengths.getD sym 0 := by simp [Array.getD, hs]
  conv => rhs; rw [hsplit]
  simp [List.filter_append, hel]

theorem rfcCode_lt (lengths : Array Nat) (sym : Nat) (hs : sym < lengths.size) (hL : lengths.getD sym 0 ≠ 0)
    (hL15 : lengths.getD sym 0 ≤ 15) (hno : NoOver lengths 15) :
    rfcCode lengths sym < rfcNextCode lengths (lengths.getD sym 0) + rfcBlCount lengths (lengths.getD sym 0) ∧
    rfcCode lengths sym < 2 ^ lengths.getD sym 0 := by
  have h1 := rank_lt lengths sym hs hL
  have h2 := rfcNextCode_lt lengths (lengths.getD sym 0) (by omega) (fun j a b => hno j a (by omega))
  simp only [rfcCode, rankOf] at *
  omega

theorem or_one_even (x : Nat) : x * 2 ||| 1 = x * 2 + 1 := by
  have := Nat.shiftLeft_add_eq_or_of_lt (a := x) (b := 1) (i := 1) (by omega)
  rw [Nat.shiftLeft_eq] at this
  simpa using this.symm

theorem shift_step (C m : Nat) : (C >>> (m + 1)) * 2 ||| (C.testBit m).toNat = C >>> m := by
  have h1 : C >>> m = (C >>> (m + 1)) * 2 + (C.testBit m).toNat := by
    simp only [Nat.testBit, Nat.shiftRight_succ, Nat.one_and_eq_mod_two]
    have := Nat.div_add_mod (C >>> m) 2
    rcases Nat.mod_two_eq_zero_or_one (C >>> m) with h | h <;> simp [h] <;> omega
  rw [h1]
  rcases Bool.eq_false_or_eq_true (C.testBit m) with h | h
  · rw [h]; simp [or_one_even]
  · rw [h]; simp

theorem blCount_le (lengths : Array Nat) (j : Nat) (hj : j ≤ 15) (hno : NoOver lengths 15) :
    rfcBlCount lengths j ≤ 2 ^ j := by
  rcases Nat.eq_zero_or_pos j with h0 | hp
  · subst h0; simp [rfcBlCount]
  · have h1 := hno j hp hj
    have h2 := remAt_le lengths (j - 1)
    have : 2 ^ j = 2 * 2 ^ (j - 1) := by
      obtain ⟨k, rfl⟩ : ∃ k, j = k + 1 := ⟨j - 1, by omega⟩
      simp [Nat.pow_succ]; omega
    omega

theorem offAt_le (lengths : Array Nat) (i : Nat) (hi : i ≤ 16) (hno : NoOver lengths 15) :
    offAt lengths i ≤ 2 ^ i := by
  induction i with
  | zero => simp [offAt]
  | succ i ih =>
    have := ih (by omega)
    have hb := blCount_le lengths i (by omega) hno
    simp only [offAt, Nat.pow_succ]
    omega

/-- The loop of `slowDecode` (in its abstract form) on the RFC code of `sym`, entering iteration `i`
with the `i - 1` leading code bits already read. -/
theorem absLoop_canonical_step (h : Huffman) (lengths : Array Nat) (hcan : Canon h lengths)
    (hno : NoOver lengths 15) (bit : Nat → Bool) (avail k0 sym L : Nat)
    (hs : sym < lengths.size) (hLd : lengths.getD sym 0 = L) (hL1 : 1 ≤ L) (hL15 : L ≤ 15)
    (hbits : ∀ k, k < L → bit (k0 + k) = (rfcCode lengths sym).testBit (L - 1 - k))
    (hav : k0 + L ≤ avail) (d : Nat) :
    ∀ i, 1 ≤ i → i + d = L →
      absLoop h bit avail (16 - i) i ((rfcCode lengths sym >>> (L - i + 1)) * 2) (rfcNextCode lengths i)
        (offAt lengths i) (k0 + i - 1) = .sym (Int.ofNat sym) (k0 + L) := by
  have hL0 : lengths.getD sym 0 ≠ 0 := by omega
  obtain ⟨hC1, hC2⟩ := rfcCode_lt lengths sym hs hL0 (by omega) hno
  rw [hLd] at hC1 hC2
  generalize hC : rfcCode lengths sym = C at *
  induction d with
  | zero =>
    intro i hi1 hiL
    have hi : i = L := by omega
    subst hi
    obtain ⟨r, hr⟩ : ∃ r, 16 - i = r + 1 := ⟨15 - i, by omega⟩
    rw [hr]
    simp only [absLoop]
    have hav' : ¬ (avail ≤ k0 + i - 1) := by omega
    have hb := hbits (i - 1) (by omega)
    have e1 : k0 + (i - 1) = k0 + i - 1 := by omega
    have e2 : i - 1 - (i - 1) = 0 := by omega
    rw [e1, e2] at hb
    have e3 : i - i + 1 = 0 + 1 := by omega
    simp only [hav', if_false, hb, e3, shift_step, Nat.shiftRight_zero, hcan.counts i hi1 hL15]
    have hlt : C < rfcBlCount lengths i + rfcNextCode lengths i := by omega
    simp only [hlt, if_true]
    have hidx : (offAt lengths i + C + 4294967296 - rfcNextCode lengths i) % 4294967296 =
        offAt lengths i + rankOf lengths sym := by
      have : C = rfcNextCode lengths i + rankOf lengths sym := by
        rw [← hC]; simp only [rfcCode, rankOf, hLd]
      have ho := offAt_le lengths i (by omega) hno
      have hp : 2 ^ i ≤ 2 ^ 15 := Nat.pow_le_pow_right (by omega) hL15
      omega
    rw [hidx]
    have := hcan.symbols sym hs hL0
    rw [hLd] at this
    rw [this]
    have e4 : k0 + i - 1 + 1 = k0 + i := by omega
    rw [e4]
  | succ d ih =>
    intro i hi1 hiL
    obtain ⟨r, hr⟩ : ∃ r, 16 - i = r + 1 := ⟨15 - i, by omega⟩
    rw [hr]
    simp only [absLoop]
    have hav' : ¬ (avail ≤ k0 + i - 1) := by omega
    have hb := hbits (i - 1) (by omega)
    have e1 : k0 + (i - 1) = k0 + i - 1 := by omega
    have e2 : L - 1 - (i - 1) = L - i := by omega
    rw [e1, e2] at hb
    simp only [hav', if_false, hb, shift_step, hcan.counts i hi1 (by omega)]
    -- no code of length `i` is a prefix of the code of `sym`
    have hmono := nextCode_mono lengths i d
    have e3 : i + d + 1 = L := by omega
    rw [e3] at hmono
    have hCge : rfcNextCode lengths L ≤ C := by rw [← hC]; simp only [rfcCode, hLd]; omega
    have e4 : L - i = d + 1 := by omega
    have hge : rfcNextCode lengths i + rfcBlCount lengths i ≤ C >>> (L - i) := by
      rw [e4, Nat.shiftRight_eq_div_pow, Nat.le_div_iff_mul_le (Nat.two_pow_pos _)]
      omega
    have hnlt : ¬ (C >>> (L - i) < rfcBlCount lengths i + rfcNextCode lengths i) := by omega
    simp only [hnlt, if_false]
    -- the values carried into iteration `i + 1`
    have hCi : C >>> (L - i) < 2 ^ i := by
      rw [Nat.shiftRight_eq_div_pow, Nat.div_lt_iff_lt_mul (Nat.two_pow_pos _), ← Nat.pow_add]
      have : i + (L - i) = L := by omega
      rw [this]; exact hC2
    have hp16 : 2 ^ i ≤ 2 ^ 15 := Nat.pow_le_pow_right (by omega) (by omega)
    have hnb := rfcNextCode_lt lengths i hi1 (fun j a b => hno j a (by omega))
    have c1 : (C >>> (L - i)) <<< 1 % 4294967296 = (C >>> (L - (i + 1) + 1)) * 2 := by
      have : L - (i + 1) + 1 = L - i := by omega
      rw [this, Nat.shiftLeft_eq]; omega
    have c2 : (rfcNextCode lengths i + rfcBlCount lengths i) <<< 1 % 4294967296 = rfcNextCode lengths (i + 1) := by
      rw [Nat.shiftLeft_eq]
      simp only [rfcNextCode]
      omega
    have c3 : offAt lengths i + rfcBlCount lengths i = offAt lengths (i + 1) := rfl
    have c4 : k0 + i - 1 + 1 = k0 + (i + 1) - 1 := by omega
    have c5 : r = 16 - (i + 1) := by omega
    rw [c1, c2, c3, c4, c5]
    exact ih (i + 1) (by omega) (by omega)

end WuffsVerif.Flate.Cut
