/-
C16: "the whole original when the limit is not smaller than the stream" (part 2: the block loop).
-/
import WuffsVerif.Proof.Flate.Whole

namespace WuffsVerif.Flate.Cut
open WuffsVerif.Gen.C16 WuffsVerif.Flate.Spec

attribute [local irreducible] Spec.fixedLitLens Spec.fixedDistLens Spec.fixedLit Spec.fixedDist

/-- Every block the spec decoder completes ends inside the buffer. -/
theorem body_end_le (s : Bytes) (p : Nat) (out : Bytes) (p1 : Nat) (out1 : Bytes)
    (h : blockBody s none 0 p out = .next p1 out1) : p1 ≤ 8 * s.size := by
  have htlt := bitsLE_lt s (p + 1) 2
  have : (2 : Nat) ^ 2 = 4 := by decide
  have hty3 : bitsLE s (p + 1) 2 ≠ 3 := by
    intro h3
    simp [blockBody, h3] at h
  have : bitsLE s (p + 1) 2 = 0 ∨ bitsLE s (p + 1) 2 = 1 ∨ bitsLE s (p + 1) 2 = 2 := by omega
  rcases this with hty | hty | hty
  · obtain ⟨_, _, g3, g4, _⟩ := stored_body s p out p1 out1 hty h
    omega
  · have e1 : ¬ ((1 : Nat) = 0) := by omega
    simp only [blockBody, hty, e1, if_false, if_true] at h
    obtain ⟨qE, _, heob⟩ := spec_reach fixedLit fixedDist 7 5 0 s _ _ _ _ _ h
    exact (decodeSym_bounds fixedLit s qE 7 256 p1 (huffTok_eob _ _ _ _ _ _ _ _ heob)).2
  · have e0 : ¬ ((2 : Nat) = 0) := by omega
    have e1 : ¬ ((2 : Nat) = 1) := by omega
    simp only [blockBody, hty, e0, e1, if_false, if_true] at h
    cases hdh : dynamicHeader s (p + 3) with
    | truncated => rw [hdh] at h; simp at h
    | corrupt => rw [hdh] at h; simp at h
    | ok hl hd minL ph =>
      rw [hdh] at h
      simp only [] at h
      obtain ⟨qE, _, heob⟩ := spec_reach hl hd minL hd.minLen 0 s _ _ _ _ _ h
      exact (decodeSym_bounds hl s qE minL 256 p1 (huffTok_eob _ _ _ _ _ _ _ _ heob)).2

/-- **With the whole buffer as budget, `cut` walks every block**: the result is the whole output. -/
theorem cutLoop_whole (s T : Bytes) (hT : (T.size : Int) < 2147483648) (k : Nat) :
    ∀ (fuel : Nat) (c : Cutter) (prev : Option (Nat × Nat)) (p : Nat) (out : Bytes) (fuelS pE : Nat)
      (enc : Bytes) (e d : Nat),
    c.OK → c.bits.bytes = s → c.bits.pos = p → c.maxEncodedLen = s.size →
    c.decodedLen + (k : Int) = (out.size : Int) → 0 ≤ c.decodedLen →
    blocks s none 0 fuelS p out = ⟨.done, pE, T⟩ →
    Cutter.cutLoop fuel c prev = .ok (enc, e, d) → k + d = T.size := by
  intro fuel
  induction fuel with
  | zero => intro c prev p out fuelS pE enc e d _ _ _ _ _ _ _ h; simp [Cutter.cutLoop] at h
  | succ fuel ih =>
    intro c prev p out fuelS pE enc e d hc hb hp hcm hcd hc0 hspec h
    obtain ⟨fS, p1, out1, rfl, hav, hbody, hfin⟩ := blocks_step s _ p out pE T hspec
    have hT1 : ∃ y, T = out1 ++ y := by
      rcases hfin with ⟨_, _, h3⟩ | ⟨_, h3⟩
      · exact ⟨#[], by rw [h3]; simp⟩
      · exact blocks_extends s _ _ _ _ _ h3
    obtain ⟨yT, hyT⟩ := hT1
    have hT1sz : (out1.size : Int) < 2147483648 := by
      have : T.size = out1.size + yT.size := by rw [hyT]; simp [Array.size_append]
      omega
    have hp1le := body_end_le s p out p1 out1 hbody
    simp only [avail] at hav
    have hpl := Inv.pos_le hc.inv
    rw [hb, hp] at hpl
    simp only [Cutter.cutLoop] at h
    obtain ⟨t1, i1, q1, y1⟩ := take_avail c.bits hc.inv 1 (by omega) (by rw [hb, hp]; simp only [avail]; omega)
    generalize c.bits.take 1 = r1 at h t1 i1 q1 y1
    obtain ⟨fb, bits1⟩ := r1
    simp only [] at h t1 i1 q1 y1
    rw [hb, hp, bitsLE_one] at t1
    rw [hp] at q1
    rw [hb] at y1
    have hfb0 : ¬ (fb < 0) := by rw [t1]; omega
    simp only [hfb0, if_false] at h
    obtain ⟨t2, i2, q2, y2⟩ := take_avail bits1 i1 2 (by omega) (by rw [y1, q1]; simp only [avail]; omega)
    generalize bits1.take 2 = r2 at h t2 i2 q2 y2
    obtain ⟨bt, bits2⟩ := r2
    simp only [] at h t2 i2 q2 y2
    rw [y1, q1] at t2
    rw [q1] at q2
    have hy : bits2.bytes = s := by rw [y2, y1]
    have htlt := bitsLE_lt s (p + 1) 2
    have hbt0 : ¬ (bt < 0) := by rw [t2]; omega
    have hty3 : bitsLE s (p + 1) 2 ≠ 3 := by
      intro h3
      simp [blockBody, h3] at hbody
    have hbt3 : ¬ (bt = 3) := by rw [t2]; omega
    simp only [hbt0, hbt3, if_false] at h
    have hc2 : ({ c with bits := bits2 } : Cutter).OK :=
      ⟨i2, by show c.maxEncodedLen ≤ bits2.bytes.size; rw [hy, hcm]; exact Nat.le_refl _, hc.l, hc.d⟩
    have hfit : p1 ≤ 8 * ({ c with bits := bits2 } : Cutter).maxEncodedLen := by
      show p1 ≤ 8 * c.maxEncodedLen; rw [hcm]; exact hp1le
    generalize hblk : (if bt = 0 then Cutter.doStored { c with bits := bits2 }
        else if bt = 1 then Cutter.doStaticHuffman { c with bits := bits2 } prev.isNone
        else Cutter.doDynamicHuffman { c with bits := bits2 } prev.isNone) = blk at h
    have hboth : BlockSim s k { c with bits := bits2 } p out p1 out1 blk ∧ Walked blk := by
      rw [← hblk]
      have : bitsLE s (p + 1) 2 = 0 ∨ bitsLE s (p + 1) 2 = 1 ∨ bitsLE s (p + 1) 2 = 2 := by
        have : (2 : Nat) ^ 2 = 4 := by decide
        omega
      rcases this with hty | hty | hty
      · have : bt = 0 := by rw [t2, hty]; rfl
        rw [this]
        simp only [if_true]
        exact ⟨stored_blocksim s _ hc2 hy p q2 out p1 out1 hty hbody k hcd hc0 hT1sz,
          stored_full s _ hc2 hy p q2 out p1 out1 hty hbody k hcd hc0 hT1sz hfit⟩
      · have : bt = 1 := by rw [t2, hty]; rfl
        rw [this]
        have e10 : ¬ ((1 : Int) = 0) := by omega
        simp only [e10, if_false, if_true]
        exact ⟨fixed_blocksim s _ hc2 hy p q2 out p1 out1 hty hbody k hcd hc0 hT1sz _,
          fixed_full s _ hc2 hy p q2 out p1 out1 hty hbody k hcd hc0 hT1sz hfit _⟩
      · have : bt = 2 := by rw [t2, hty]; rfl
        rw [this]
        have e20 : ¬ ((2 : Int) = 0) := by omega
        have e21 : ¬ ((2 : Int) = 1) := by omega
        simp only [e20, e21, if_false]
        exact ⟨dynamic_blocksim s _ hc2 hy p q2 out p1 out1 hty hbody k hcd hc0 hT1sz _,
          dynamic_full s _ hc2 hy p q2 out p1 out1 hty hbody k hcd hc0 hT1sz hfit _⟩
    obtain ⟨hsim, hwalk⟩ := hboth
    obtain ⟨c3, err⟩ := blk
    obtain ⟨k1, k2, k3, k4, k5, k6⟩ := hsim
    have hk2 : c3.maxEncodedLen = s.size := by
      have : c3.maxEncodedLen = c.maxEncodedLen := k2
      rw [this, hcm]
    have hwalk : err = none ∨ ∃ e, err = some e ∧ e ≠ .noProgress ∧ e ≠ .someProgress ∧ e ≠ .replaceWithSingleBlock := hwalk
    try simp only [] at h
    split at h
    · -- nil
      obtain ⟨a1, a2, a3, a4, a5⟩ := k3 rfl
      have a1 : c3.bits.bytes = s := a1
      have a2 : c3.bits.pos = p1 := a2
      have a3 : c3.decodedLen + (k : Int) = (out1.size : Int) := a3
      have hosz : out.size ≤ out1.size := by
        obtain ⟨x, hx⟩ := (blockBody_cap s 0 0 p out p1 out1 hbody).1
        rw [hx]; simp [Array.size_append]
      have hc30 : 0 ≤ c3.decodedLen := by omega
      have a5 : c3.OK := a5
      obtain ⟨iu3, pu3⟩ := Inv.unread a5.inv
      rcases hfin with ⟨hf1, hf2, hf3⟩ | ⟨hf0, hcont⟩
      · have hfb1 : ¬ (fb = 0) := by rw [t1, hf1]; omega
        simp only [hfb1, if_false] at h
        obtain ⟨_, f2, _, _⟩ := finish_bits _ enc e d h (unread_nBits_lt _) iu3.nBits_le
        have f2 : d = c3.decodedLen.toNat := f2
        rw [f2, ← hf3]; omega
      · have hfb0' : fb = 0 := by rw [t1, hf0]; rfl
        simp only [hfb0', if_true] at h
        exact ih { c3 with bits := c3.bits.unread } _ p1 out1 fS pE enc e d ⟨iu3, a5.max, a5.l, a5.d⟩
          (by show c3.bits.unread.bytes = s; rw [unread_bytes, a1]) (by show c3.bits.unread.pos = p1; rw [pu3, a2])
          hk2 a3 hc30 hcont h
    · rcases hwalk with hw | ⟨e', hw, h1, _, _⟩
      · simp at hw
      · simp only [Option.some.injEq] at hw; exact absurd hw.symm h1
    · rcases hwalk with hw | ⟨e', hw, _, h2, _⟩
      · simp at hw
      · simp only [Option.some.injEq] at hw; exact absurd hw.symm h2
    · rcases hwalk with hw | ⟨e', hw, _, _, h3⟩
      · simp at hw
      · simp only [Option.some.injEq] at hw; exact absurd hw.symm h3
    · simp at h

/-- **"… and is the whole original when the limit is not smaller than the stream"** (up to 1 GiB, where
`Cut` clamps the limit). -/
theorem Cut_whole (w : Bool) (s T : Bytes) (n0 : Nat) (limit : Int) (r : CutResult)
    (hs : Spec.inflate s = some (T, n0)) (hT : T.size < 2147483648) (h : Cut w s limit = .ok r)
    (hlim : (s.size : Int) ≤ limit) (h30 : s.size ≤ 2 ^ 30) : r.decodedLen = T.size := by
  obtain ⟨pE, hblk, _⟩ := inflate_blocks s T n0 hs
  rw [Cut_eq] at h
  split at h
  · simp at h
  · have hfull := clampLimit_full limit s.size hlim h30
    rw [hfull] at h
    split at h
    · simp at h
    · split at h
      · simp at h
      · rename_i enc eLen dLen hc
        have hg : dLen = T.size := by
          have := cutLoop_whole s T (by omega) 0 (8 * s.size + 2)
            ⟨⟨s, 0, 0, 0⟩, s.size, 0, 0, 0, Huffman.zero, Huffman.zero⟩ none 0 #[] (8 * s.size + 1) pE enc eLen dLen
            ⟨inv_fresh s 0 (Nat.zero_le _), Nat.le_refl _, Huffman.zero_shape, Huffman.zero_shape⟩ rfl rfl rfl
            (by simp) (by simp) hblk hc
          omega
        split at h
        · cases hst : (Spec.inflateRaw #[] (enc.extract 0 eLen) none).status <;> simp [hst] at h
          all_goals
            split at h <;> simp at h
            subst h
            exact hg
        · simp at h; subst h; exact hg

/-- … also for streams that need a preset dictionary. -/
theorem Cut_whole_dict (w : Bool) (dict s T : Bytes) (n0 : Nat) (limit : Int) (r : CutResult)
    (hs : Spec.inflateDict dict s = some (T, n0)) (hT : T.size + 32768 < 2147483648) (h : Cut w s limit = .ok r)
    (hlim : (s.size : Int) ≤ limit) (h30 : s.size ≤ 2 ^ 30) : r.decodedLen = T.size := by
  obtain ⟨pE, hblk, _⟩ := (inflateDict_blocks dict s T n0).mp hs
  have hDsz := truncDict_size dict
  generalize truncDict dict = D at hblk hDsz
  rw [Cut_eq] at h
  split at h
  · simp at h
  · have hfull := clampLimit_full limit s.size hlim h30
    rw [hfull] at h
    split at h
    · simp at h
    · split at h
      · simp at h
      · rename_i enc eLen dLen hc
        have hg : dLen = T.size := by
          have := cutLoop_whole s (D ++ T) (by simp only [Array.size_append]; omega) D.size (8 * s.size + 2)
            ⟨⟨s, 0, 0, 0⟩, s.size, 0, 0, 0, Huffman.zero, Huffman.zero⟩ none 0 D (8 * s.size + 1) pE enc eLen dLen
            ⟨inv_fresh s 0 (Nat.zero_le _), Nat.le_refl _, Huffman.zero_shape, Huffman.zero_shape⟩ rfl rfl rfl
            (by simp) (by simp) hblk hc
          simp only [Array.size_append] at this
          omega
        split at h
        · cases hst : (Spec.inflateRaw #[] (enc.extract 0 eLen) none).status <;> simp [hst] at h
          all_goals
            split at h <;> simp at h
            subst h
            exact hg
        · simp at h; subst h; exact hg

end WuffsVerif.Flate.Cut
