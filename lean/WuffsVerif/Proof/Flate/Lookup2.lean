/-
C16: `lookup_eq_slow`, part 2 — locality of the abstract decoder, the look-up table, the refill
branches of `decode`, and the theorem.
-/
import WuffsVerif.Proof.Flate.Lookup

namespace WuffsVerif.Flate.Cut
open WuffsVerif.Gen.C16

/-- A successful abstract decode only looks at the bits it consumes. -/
theorem absLoop_local (h : Huffman) (bit bit' : Nat → Bool) (avail avail' : Nat)
    (rem i code first symIndex k : Nat) (s : Int) (k' : Nat)
    (hres : absLoop h bit avail rem i code first symIndex k = .sym s k') :
    k < k' ∧ k' ≤ avail ∧
    ((∀ j, k ≤ j → j < k' → bit' j = bit j) → k' ≤ avail' →
      absLoop h bit' avail' rem i code first symIndex k = .sym s k') := by
  induction rem generalizing i code first symIndex k with
  | zero => simp [absLoop] at hres
  | succ rem ih =>
    simp only [absLoop] at hres
    split at hres
    · simp at hres
    · rename_i hav
      split at hres
      · rename_i hcode
        split at hres
        · rename_i s' hs
          simp at hres
          obtain ⟨rfl, rfl⟩ := hres
          refine ⟨by omega, by omega, ?_⟩
          intro hag hav'
          have hb : bit' k = bit k := hag k (Nat.le_refl _) (by omega)
          have : ¬ (avail' ≤ k) := by omega
          simp only [absLoop, this, if_false, hb, hcode, if_true, hs]
        · simp at hres
      · rename_i hcode
        have := ih _ _ _ _ _ hres
        obtain ⟨h1, h2, h3⟩ := this
        refine ⟨by omega, h2, ?_⟩
        intro hag hav'
        have hb : bit' k = bit k := hag k (Nat.le_refl _) (by omega)
        have : ¬ (avail' ≤ k) := by omega
        simp only [absLoop, this, if_false, hb, hcode]
        exact h3 (fun j hj1 hj2 => hag j (by omega) hj2) hav'

/-! ### the look-up table -/

/-- The table entry `constructLookUpTable` computes for the byte `v`. -/
def tableEntry (h : Huffman) (v : Nat) : Nat :=
  match h.slowDecode { bytes := #[UInt8.ofNat v], index := 0, bits := 0, nBits := 0 } with
  | .ok (x, b) => if x ≥ 0 then (((8 - b.nBits) <<< 16) ||| x.toNat) % 4294967296 else 0
  | .error _ => 0

theorem go_spec (h : Huffman) (rem i : Nat) (t t' : Array Nat)
    (hgo : Huffman.constructLookUpTable.go h rem i t = .ok t') (hsz : t.size = 256) :
    t'.size = 256 ∧ (∀ v, v < i → t'.getD v 0 = t.getD v 0) ∧
    (∀ v, i ≤ v → v < i + rem → v < 256 → t'.getD v 0 = tableEntry h v) := by
  induction rem generalizing i t with
  | zero =>
    simp [Huffman.constructLookUpTable.go] at hgo
    subst hgo
    exact ⟨hsz, fun _ _ => rfl, fun v h1 h2 _ => by omega⟩
  | succ rem ih =>
    simp only [Huffman.constructLookUpTable.go] at hgo
    split at hgo
    · simp at hgo
    · rename_i x b hx
      have := ih (i + 1) _ hgo (by simp [hsz])
      obtain ⟨h1, h2, h3⟩ := this
      refine ⟨h1, ?_, ?_⟩
      · intro v hv
        rw [h2 v (by omega)]
        simp only [Array.getD_eq_getD_getElem?, Array.getElem?_setIfInBounds]
        have : ¬ (i = v) := by omega
        simp [this]
      · intro v hv1 hv2 hv3
        by_cases hvi : v = i
        · subst hvi
          rw [h2 v (by omega)]
          simp only [Array.getD_eq_getD_getElem?, Array.getElem?_setIfInBounds, hsz]
          simp only [hv3, if_true, Option.getD_some, tableEntry, hx]
        · exact h3 v (by omega) (by omega) hv3

theorem table_spec (h h' : Huffman) (hc : h.constructLookUpTable = .ok h') (hsz : h.lookUpTable.size = 256) :
    h'.counts = h.counts ∧ h'.symbols = h.symbols ∧ ∀ v, v < 256 → h'.lookUpTable.getD v 0 = tableEntry h v := by
  simp only [Huffman.constructLookUpTable] at hc
  split at hc
  · simp at hc
  · rename_i t ht
    simp at hc
    subst hc
    have := go_spec h 256 0 _ t ht hsz
    exact ⟨rfl, rfl, fun v hv => this.2.2 v (by omega) (by omega) hv⟩

theorem slowDecode_congr (h h' : Huffman) (hc : h'.counts = h.counts) (hs : h'.symbols = h.symbols) :
    ∀ (rem i code first symIndex : Nat) (b : Bitstream),
      h'.slowDecodeLoop rem i code first symIndex b = h.slowDecodeLoop rem i code first symIndex b := by
  intro rem
  induction rem with
  | zero => intros; rfl
  | succ rem ih =>
    intro i code first symIndex b
    simp only [Huffman.slowDecodeLoop, hc, hs, ih]

/-! ### the refill branches of `decode` -/

theorem byte_bit (x : UInt8) (k j : Nat) :
    (decide (8 * k ≤ j) && x.toNat.testBit (j - 8 * k)) = (decide (j / 8 = k) && x.toNat.testBit (j % 8)) := by
  by_cases h1 : 8 * k ≤ j
  · by_cases h2 : j / 8 = k
    · have : j - 8 * k = j % 8 := by omega
      simp [h1, h2, this]
    · have : 8 ≤ j - 8 * k := by omega
      simp [h1, h2, byte_testBit_ge _ _ this]
  · have : ¬ (j / 8 = k) := by omega
    simp [h1, this]

theorem loadU64LE_testBit (b : Bytes) (i j : Nat) (hj : j < 64) :
    (loadU64LE b i).toNat.testBit j = streamBit b (8 * i + j) := by
  have e : ∀ k : Nat, k < 8 → ((8 * k : Nat).toUInt64).toNat % 64 = 8 * k := by
    intro k hk; simp [Nat.toUInt64]; omega
  simp only [loadU64LE, UInt64.toNat_or, UInt64.toNat_shiftLeft, UInt8.toNat_toUInt64, Nat.testBit_or,
    Nat.testBit_mod_two_pow, Nat.testBit_shiftLeft, hj, decide_true, Bool.true_and]
  have e8 : UInt64.toNat 8 % 64 = 8 * 1 := rfl
  have e16 : UInt64.toNat 16 % 64 = 8 * 2 := rfl
  have e24 : UInt64.toNat 24 % 64 = 8 * 3 := rfl
  have e32 : UInt64.toNat 32 % 64 = 8 * 4 := rfl
  have e40 : UInt64.toNat 40 % 64 = 8 * 5 := rfl
  have e48 : UInt64.toNat 48 % 64 = 8 * 6 := rfl
  have e56 : UInt64.toNat 56 % 64 = 8 * 7 := rfl
  simp only [e8, e16, e24, e32, e40, e48, e56, ge_iff_le, byte_bit]
  have h0 : (b.getD i 0).toNat.testBit j = (decide (j / 8 = 0) && (b.getD i 0).toNat.testBit (j % 8)) := by
    have := byte_bit (b.getD i 0) 0 j
    simpa using this
  rw [h0]
  have hs : streamBit b (8 * i + j) = (b.getD (i + j / 8) 0).toNat.testBit (j % 8) := by
    simp only [streamBit]
    have h1 : (8 * i + j) / 8 = i + j / 8 := by omega
    have h2 : (8 * i + j) % 8 = j % 8 := by omega
    rw [h1, h2]
  rw [hs]
  have hk : j / 8 = 0 ∨ j / 8 = 1 ∨ j / 8 = 2 ∨ j / 8 = 3 ∨ j / 8 = 4 ∨ j / 8 = 5 ∨ j / 8 = 6 ∨ j / 8 = 7 := by omega
  rcases hk with hk | hk | hk | hk | hk | hk | hk | hk <;> simp [hk]

/-- "Variant 4": load 8 bytes, keep 56 + nBits bits. -/
def Bitstream.load64 (b : Bitstream) : Bitstream :=
  { b with bits := b.bits ||| shl64 (loadU64LE b.bytes b.index) b.nBits, index := b.index + 7, nBits := b.nBits + 56 }

theorem Inv.load64 {b : Bitstream} (hb : b.Inv) (h8 : b.nBits < 8) (hi : b.index + 8 < b.bytes.size) :
    b.load64.Inv ∧ b.load64.pos = b.pos := by
  have hle := hb.nBits_le
  have hpos : b.load64.pos = b.pos := by
    simp only [Bitstream.pos, Bitstream.load64]; omega
  have hn64 : b.nBits < 64 := by omega
  have hsh : b.nBits.toUInt64.toNat % 64 = b.nBits := by simp [Nat.toUInt64]; omega
  have hbit : ∀ i, i < 64 →
      (b.bits ||| shl64 (loadU64LE b.bytes b.index) b.nBits).toNat.testBit i =
        (b.bits.toNat.testBit i || (decide (b.nBits ≤ i) && streamBit b.bytes (b.pos + i))) := by
    intro i hi64
    simp only [shl64, hn64, if_true, UInt64.toNat_or, Nat.testBit_or, UInt64.toNat_shiftLeft, hsh,
      Nat.testBit_mod_two_pow, Nat.testBit_shiftLeft, hi64, decide_true, Bool.true_and, ge_iff_le]
    by_cases hge : b.nBits ≤ i
    · rw [loadU64LE_testBit _ _ _ (by omega)]
      have : 8 * b.index + (i - b.nBits) = b.pos + i := by unfold Bitstream.pos; omega
      rw [this]
    · simp [hge]
  refine ⟨⟨⟨by simp only [Bitstream.load64]; omega, by simp only [Bitstream.load64]; omega⟩,
    by simp only [Bitstream.load64]; omega, ?_, ?_⟩, hpos⟩
  · intro i hi56
    rw [hpos]
    simp only [Bitstream.load64] at hi56 ⊢
    rw [hbit i (by omega)]
    by_cases hlow : i < b.nBits
    · rw [hb.low i hlow]
      have : ¬ (b.nBits ≤ i) := by omega
      simp [this]
    · have hge : b.nBits ≤ i := by omega
      simp only [hge, decide_true, Bool.true_and]
      cases hx : b.bits.toNat.testBit i
      · exact Bool.false_or _
      · have := hb.high i hge (by omega) hx
        rw [this]; rfl
  · intro i hi1 hi2 hset
    rw [hpos]
    simp only [Bitstream.load64] at hi1 hset ⊢
    rw [hbit i hi2] at hset
    have hge : b.nBits ≤ i := by omega
    simp only [hge, decide_true, Bool.true_and, Bool.or_eq_true] at hset
    rcases hset with hset | hset
    · exact hb.high i hge hi2 hset
    · exact hset

theorem variant4_arith (n : Nat) (h : n < 8) : (63 - n) >>> 3 = 7 ∧ n ||| 56 = n + 56 := by
  have : n = 0 ∨ n = 1 ∨ n = 2 ∨ n = 3 ∨ n = 4 ∨ n = 5 ∨ n = 6 ∨ n = 7 := by omega
  rcases this with rfl | rfl | rfl | rfl | rfl | rfl | rfl | rfl <;> decide

/-- `decode`, restated with the three refills named. -/
theorem decode_eq (h : Huffman) (b : Bitstream) :
    h.decode b =
      if b.nBits ≥ 8 then h.decodeLookup b
      else if b.index + 8 < b.bytes.size then h.decodeLookup b.load64
      else if b.index < b.bytes.size then h.decodeLookup b.loadOr
      else h.slowDecode b := by
  simp only [Huffman.decode]
  split
  · rfl
  · rename_i h8
    have := variant4_arith b.nBits (by omega)
    simp only [Bitstream.load64, Bitstream.loadOr, this.1, this.2]

end WuffsVerif.Flate.Cut
