/-
C16: `zlibcut.Cut` on zlib streams without a preset dictionary — the cut stream is a valid zlib stream
(header kept, DEFLATE data cut by `flatecut.Cut`, Adler-32 of the prefix) that decodes to a prefix.
-/
import WuffsVerif.Proof.Flate.CutAll

namespace WuffsVerif.Flate.Cut
open WuffsVerif.Gen.C16 WuffsVerif.Flate.Spec

/-- The robust view of any block the spec decoder completes. -/
theorem blockAt_any (s : Bytes) (p : Nat) (out : Bytes) (p1 : Nat) (out1 : Bytes)
    (h : blockBody s none 0 p out = .next p1 out1) : BlockAt s p out p1 out1 := by
  have htlt := bitsLE_lt s (p + 1) 2
  have : (2 : Nat) ^ 2 = 4 := by decide
  have hty3 : bitsLE s (p + 1) 2 ≠ 3 := by
    intro h3
    simp [blockBody, h3] at h
  have : bitsLE s (p + 1) 2 = 0 ∨ bitsLE s (p + 1) 2 = 1 ∨ bitsLE s (p + 1) 2 = 2 := by omega
  rcases this with hty | hty | hty
  · exact blockAt_stored s p out p1 out1 hty h
  · exact blockAt_fixed s p out p1 out1 hty h
  · exact blockAt_dynamic s p out p1 out1 hty h

/-- **The spec decoder only looks at the bits of the stream**: a buffer that has the same bits up to the
end of the final block decodes to the same output. -/
theorem blocks_local (D s : Bytes) : ∀ (fuel n p : Nat) (out : Bytes) (pE : Nat) (T : Bytes), RReach D s n p out →
    blocks s none 0 fuel p out = ⟨.done, pE, T⟩ →
    ∀ s'' : Bytes, (∀ i, i < pE → bitAt s'' i = bitAt s i) → pE ≤ 8 * s''.size →
      blocks s'' none 0 (8 * s''.size + 1) 0 D = ⟨.done, pE, T⟩ := by
  intro fuel
  induction fuel with
  | zero => intro n p out pE T _ h; simp [blocks] at h
  | succ fuel ih =>
    intro n p out pE T hr h s'' hag hsz
    obtain ⟨fS, p1, out1, hf, hav, hbody, hfin⟩ := blocks_step s _ p out pE T h
    have hfS : fS = fuel := by omega
    subst hfS
    have hblk := blockAt_any s p out p1 out1 hbody
    have hp3 := hblk.1
    rcases hfin with ⟨h1, h2, h3⟩ | ⟨h0, hcont⟩
    · subst h2; subst h3
      exact good_final D s s s'' n p out p1 out1 hr hblk (fun i hi => hag i (by omega)) (by rw [hag p (by omega)]; exact h1)
        (fun i _ hi => hag i hi) hsz
    · exact ih (n + 1) p1 out1 pE T (RReach.step hr h0 hblk) hcont s'' hag hsz

/-- … also with a preset dictionary. -/
theorem inflateDict_local (dict s s'' T : Bytes) (n0 : Nat) (h : Spec.inflateDict dict s = some (T, n0))
    (hag : ∀ j, j < n0 → s''.getD j 0 = s.getD j 0) (hsz : n0 ≤ s''.size) :
    Spec.inflateDict dict s'' = some (T, n0) := by
  obtain ⟨pE, hblk, hn0⟩ := (inflateDict_blocks dict s T n0).mp h
  have := blocks_local (truncDict dict) s _ 0 0 _ pE _ RReach.zero hblk s''
    (by
      intro i hi
      simp only [bitAt]
      rw [hag (i / 8) (by omega)])
    (by omega)
  exact (inflateDict_blocks dict s'' T n0).mpr ⟨pE, this, hn0⟩

theorem inflate_local (s s'' T : Bytes) (n0 : Nat) (h : Spec.inflate s = some (T, n0))
    (hag : ∀ j, j < n0 → s''.getD j 0 = s.getD j 0) (hsz : n0 ≤ s''.size) :
    Spec.inflate s'' = some (T, n0) :=
  inflateDict_local #[] s s'' T n0 h hag hsz

theorem adlerUpdate_lt (l : List UInt8) (a b : Nat) (ha : a < 65521) (hb : b < 65521) :
    (l.foldl (fun (st : Nat × Nat) x => ((st.1 + x.toNat) % adlerMod, (st.2 + (st.1 + x.toNat) % adlerMod) % adlerMod)) (a, b)).1 < 65521 ∧
    (l.foldl (fun (st : Nat × Nat) x => ((st.1 + x.toNat) % adlerMod, (st.2 + (st.1 + x.toNat) % adlerMod) % adlerMod)) (a, b)).2 < 65521 := by
  induction l generalizing a b with
  | nil => exact ⟨ha, hb⟩
  | cons x l ih =>
    simp only [List.foldl_cons]
    apply ih
    · simp only [adlerMod]; omega
    · simp only [adlerMod]; omega

theorem adler32_lt (data : Bytes) : adler32 data < 4294967296 := by
  simp only [adler32, adler32Update]
  rw [← Array.foldl_toList]
  have := adlerUpdate_lt data.toList 1 0 (by omega) (by omega)
  generalize (data.toList.foldl _ (1, 0)) = st at this ⊢
  obtain ⟨a, b⟩ := st
  simp only [] at this ⊢
  omega

theorem getD_extract_bytes (a : Bytes) (i j k : Nat) (h : i + k < j) (hj : j ≤ a.size) :
    (a.extract i j).getD k 0 = a.getD (i + k) 0 := by
  simp only [Array.getD_eq_getD_getElem?, Array.getElem?_extract]
  have : k < min j a.size - i := by omega
  simp [this]

theorem be32_bytes (E : Bytes) (i h : Nat) (hh : h < 4294967296)
    (h0 : E.getD i 0 = UInt8.ofNat (h / 2 ^ 24 % 256)) (h1 : E.getD (i + 1) 0 = UInt8.ofNat (h / 2 ^ 16 % 256))
    (h2 : E.getD (i + 2) 0 = UInt8.ofNat (h / 2 ^ 8 % 256)) (h3 : E.getD (i + 3) 0 = UInt8.ofNat (h % 256)) :
    be32 E i = h := by
  simp only [be32, h0, h1, h2, h3]
  simp
  omega

end WuffsVerif.Flate.Cut

namespace WuffsVerif.Flate.ZlibCut
open WuffsVerif.Flate.Cut WuffsVerif.Gen.C16 WuffsVerif.Flate.Spec

/-- **`zlibcut.Cut` on a valid zlib stream without a preset dictionary**: the first `encodedLen` bytes
of the result are a complete valid zlib stream (same header, DEFLATE data cut by `flatecut.Cut`,
Adler-32 of the decoded prefix) that decodes to exactly the first `decodedLen` bytes of the original
decompression, and the writer receives those bytes. -/
theorem Cut_prefix (s T : Spec.Bytes) (n : Nat) (limit : Int) (r : CutResult)
    (hz : Spec.zlibDecode #[] s = some (T, n)) (hnd : ¬ ((s.getD 1 0).toNat / 32 % 2 = 1))
    (hT : T.size < 2147483648) (h : ZlibCut.Cut s limit = .ok r) :
    Spec.zlibDecode #[] (r.encoded.extract 0 r.encodedLen) = some (T.extract 0 r.decodedLen, r.encodedLen) ∧
    r.decodedLen ≤ T.size ∧ r.written = T.extract 0 r.decodedLen ∧
    (r.encoded.extract 0 r.encodedLen).getD 1 0 = s.getD 1 0 := by
  -- the original stream
  simp only [Spec.zlibDecode] at hz
  split at hz
  · simp at hz
  rename_i hsz2
  split at hz
  · simp at hz
  rename_i hhdr
  simp only [hnd, if_false, false_and] at hz
  split at hz
  · simp at hz
  · rename_i out n1 hinf
    split at hz
    · simp at hz
    rename_i hszn
    split at hz
    · simp at hz
    simp only [Option.some.injEq, Prod.mk.injEq] at hz
    obtain ⟨rfl, _⟩ := hz
    have hinf' : Spec.inflate (s.extract 2 s.size) = some (out, n1) := hinf
    have hpay : Spec.inflate (s.extract 2 (s.size - 4)) = some (out, n1) := by
      apply inflate_local _ _ _ _ hinf'
      · intro j hj
        rw [getD_extract_bytes s 2 (s.size - 4) j (by omega) (by omega),
          getD_extract_bytes s 2 s.size j (by omega) (by omega)]
      · simp [Array.size_extract]; omega
    -- the cut
    simp only [ZlibCut.Cut] at h
    have c1 : ¬ (s.size < 2) := hsz2
    rw [if_neg c1] at h
    split at h
    · simp at h
    split at h
    · simp at h
    simp only [hnd, false_and, if_false] at h
    split at h
    · simp at h
    split at h
    · simp at h
    rename_i hlim
    split at h
    · simp at h
    rename_i r' hcut
    split at h
    · simp at h
    rename_i hov
    simp only [Except.ok.injEq] at h
    subst h
    obtain ⟨g1, g2, g3⟩ := Cut.Cut_all true _ out n1 _ r' hpay hT hcut
    obtain ⟨b1, b2, b3⟩ := Cut.Cut_lengths_in_bounds true _ _ r' hcut
    have hpsz : (s.extract 2 (s.size - 4)).size = s.size - 6 := by simp [Array.size_extract]; omega
    rw [hpsz] at b2 b3
    have g3 := g3 rfl
    simp only []
    suffices hmain : _ ∧ _ from ⟨hmain.1, g2, g3, hmain.2⟩
    generalize hH : adler32 r'.written = H
    have hHlt : H < 4294967296 := by rw [← hH]; exact adler32_lt _
    generalize hE0 : s.extract 0 2 ++ r'.encoded ++ s.extract (s.size - 4) s.size = E0
    have hE0sz : E0.size = s.size := by rw [← hE0]; simp [Array.size_extract, b3]; omega
    -- bytes of the buffer before the hash is written
    have hE0lo : ∀ j, j < 2 → E0.getD j 0 = s.getD j 0 := by
      intro j hj
      rw [← hE0]
      simp only [Array.getD_eq_getD_getElem?]
      rw [Array.getElem?_append_left (by simp [Array.size_extract]; omega),
        Array.getElem?_append_left (by simp [Array.size_extract]; omega), Array.getElem?_extract]
      have : j < min 2 s.size := by omega
      simp [this]
    have hE0mid : ∀ j, j < r'.encoded.size → E0.getD (2 + j) 0 = r'.encoded.getD j 0 := by
      intro j hj
      rw [← hE0]
      simp only [Array.getD_eq_getD_getElem?]
      have hs2 : (s.extract 0 2).size = 2 := by simp [Array.size_extract]; omega
      rw [Array.getElem?_append_left (by simp [Array.size_extract]; omega),
        Array.getElem?_append_right (by rw [hs2]; omega), hs2]
      congr 2; omega
    generalize hE4 : (((E0.setIfInBounds (2 + r'.encodedLen) (UInt8.ofNat (H / 2 ^ 24 % 256))).setIfInBounds
      (2 + r'.encodedLen + 1) (UInt8.ofNat (H / 2 ^ 16 % 256))).setIfInBounds (2 + r'.encodedLen + 2)
      (UInt8.ofNat (H / 2 ^ 8 % 256))).setIfInBounds (2 + r'.encodedLen + 3) (UInt8.ofNat (H % 256)) = E4
    have hE4get : ∀ j, E4.getD j 0 =
        if j = 2 + r'.encodedLen then UInt8.ofNat (H / 2 ^ 24 % 256)
        else if j = 2 + r'.encodedLen + 1 then UInt8.ofNat (H / 2 ^ 16 % 256)
        else if j = 2 + r'.encodedLen + 2 then UInt8.ofNat (H / 2 ^ 8 % 256)
        else if j = 2 + r'.encodedLen + 3 then UInt8.ofNat (H % 256) else E0.getD j 0 := by
      intro j
      rw [← hE4]
      simp only [getD_setIfInBounds, Array.size_setIfInBounds]
      repeat' split
      all_goals first
        | rfl
        | omega
    have hE4sz : E4.size = s.size := by rw [← hE4]; simpa using hE0sz
    generalize hEd : E4.extract 0 (2 + r'.encodedLen + 4) = E
    have hEsz : E.size = 2 + r'.encodedLen + 4 := by rw [← hEd]; simp [Array.size_extract]; omega
    have hEget : ∀ j, j < 2 + r'.encodedLen + 4 → E.getD j 0 = E4.getD j 0 := by
      intro j hj
      rw [← hEd]
      have := getD_extract_bytes E4 0 (2 + r'.encodedLen + 4) j (by omega) (by omega)
      simpa using this
    have e1' : E.getD 1 0 = s.getD 1 0 := by
      rw [hEget 1 (by omega), hE4get 1]
      have : ¬ (1 = 2 + r'.encodedLen) := by omega
      have : ¬ (1 = 2 + r'.encodedLen + 1) := by omega
      have : ¬ (1 = 2 + r'.encodedLen + 2) := by omega
      have : ¬ (1 = 2 + r'.encodedLen + 3) := by omega
      simp only [*, if_false]
      exact hE0lo 1 (by omega)
    refine ⟨?_, e1'⟩
    -- decode the result
    simp only [Spec.zlibDecode]
    have d1 : ¬ (E.size < 2) := by omega
    rw [if_neg d1]
    have e0 : E.getD 0 0 = s.getD 0 0 := by
      rw [hEget 0 (by omega), hE4get 0]
      have : ¬ (0 = 2 + r'.encodedLen) := by omega
      have : ¬ (0 = 2 + r'.encodedLen + 1) := by omega
      have : ¬ (0 = 2 + r'.encodedLen + 2) := by omega
      have : ¬ (0 = 2 + r'.encodedLen + 3) := by omega
      simp only [*, if_false]
      exact hE0lo 0 (by omega)
    have e1 : E.getD 1 0 = s.getD 1 0 := by
      rw [hEget 1 (by omega), hE4get 1]
      have : ¬ (1 = 2 + r'.encodedLen) := by omega
      have : ¬ (1 = 2 + r'.encodedLen + 1) := by omega
      have : ¬ (1 = 2 + r'.encodedLen + 2) := by omega
      have : ¬ (1 = 2 + r'.encodedLen + 3) := by omega
      simp only [*, if_false]
      exact hE0lo 1 (by omega)
    rw [e0, e1, if_neg hhdr]
    simp only [hnd, if_false, false_and]
    have d2 : ¬ (E.size < 2) := by omega
    rw [if_neg d2]
    have hinfE : inflateDict #[] (E.extract 2 E.size) = some (out.extract 0 r'.decodedLen, r'.encodedLen) := by
      show Spec.inflate (E.extract 2 E.size) = _
      apply inflate_local _ _ _ _ g1
      · intro j hj
        rw [getD_extract_bytes E 2 E.size j (by omega) (Nat.le_refl _), hEget (2 + j) (by omega), hE4get (2 + j)]
        have : ¬ (2 + j = 2 + r'.encodedLen) := by omega
        have : ¬ (2 + j = 2 + r'.encodedLen + 1) := by omega
        have : ¬ (2 + j = 2 + r'.encodedLen + 2) := by omega
        have : ¬ (2 + j = 2 + r'.encodedLen + 3) := by omega
        simp only [*, if_false]
        rw [hE0mid j (by omega)]
        have := getD_extract_bytes r'.encoded 0 r'.encodedLen j (by omega) (by omega)
        simp only [Nat.zero_add] at this
        rw [this]
      · simp [Array.size_extract]; omega
    rw [hinfE]
    simp only []
    have d3 : ¬ (E.size < 2 + r'.encodedLen + 4) := by omega
    rw [if_neg d3]
    have hbe : be32 E (2 + r'.encodedLen) = adler32 (out.extract 0 r'.decodedLen) := by
      rw [← g3, hH]
      apply be32_bytes E _ H hHlt
      · rw [hEget _ (by omega), hE4get]; simp
      · rw [hEget _ (by omega), hE4get]
        have : ¬ (2 + r'.encodedLen + 1 = 2 + r'.encodedLen) := by omega
        simp [this]
      · rw [hEget _ (by omega), hE4get]
        have : ¬ (2 + r'.encodedLen + 2 = 2 + r'.encodedLen) := by omega
        have : ¬ (2 + r'.encodedLen + 2 = 2 + r'.encodedLen + 1) := by omega
        simp [*]
      · rw [hEget _ (by omega), hE4get]
        have : ¬ (2 + r'.encodedLen + 3 = 2 + r'.encodedLen) := by omega
        have : ¬ (2 + r'.encodedLen + 3 = 2 + r'.encodedLen + 1) := by omega
        have : ¬ (2 + r'.encodedLen + 3 = 2 + r'.encodedLen + 2) := by omega
        simp [*]
    have d4 : ¬ (be32 E (2 + r'.encodedLen) ≠ adler32 (out.extract 0 r'.decodedLen)) := by
      intro hne; exact hne hbe
    rw [if_neg d4]

end WuffsVerif.Flate.ZlibCut
