/-
C16: `lookup_eq_slow`, part 3 — the theorem.
-/
import WuffsVerif.Proof.Flate.Lookup2

namespace WuffsVerif.Flate.Cut
open WuffsVerif.Gen.C16

/-- Two decode results agree: same symbol, and (when it is a real symbol) the same position, the
buffer untouched, and the cursor invariant kept. -/
def SameOutcome (bytes : Bytes) (c1 c2 : Except Err (Int × Bitstream)) : Prop :=
  match c1, c2 with
  | .ok (s1, b1), .ok (s2, b2) =>
      s1 = s2 ∧ (0 ≤ s1 → b1.pos = b2.pos ∧ b1.bytes = bytes ∧ b2.bytes = bytes ∧ b1.Inv ∧ b2.Inv)
  | .error e1, .error e2 => e1 = e2
  | _, _ => False

theorem mostNeg_neg : mostNegativeInt32 < 0 := by decide

/-- `slowDecode` from two cursors that stand at the same position of the same buffer. -/
theorem slow_slow (h : Huffman) (b b' : Bitstream) (hb : b.Inv) (hb' : b'.Inv)
    (hbytes : b'.bytes = b.bytes) (hpos : b'.pos = b.pos) :
    SameOutcome b.bytes (h.slowDecode b') (h.slowDecode b) := by
  have r1 := slowDecodeLoop_refines h maxCodeBits 1 0 0 0 0 b.pos b hb rfl
  have r2 := slowDecodeLoop_refines h maxCodeBits 1 0 0 0 0 b.pos b' hb' (by rw [hpos]; rfl)
  rw [hbytes] at r2
  simp only [Huffman.slowDecode]
  generalize absLoop h (fun j => streamBit b.bytes (b.pos + j)) (8 * b.bytes.size - b.pos) maxCodeBits 1 0 0 0 0 = r
    at r1 r2
  cases r with
  | sym s k' =>
    obtain ⟨b1, e1, i1, p1, y1⟩ := r1
    obtain ⟨b2, e2, i2, p2, y2⟩ := r2
    rw [e1, e2]
    exact ⟨rfl, fun _ => ⟨by rw [p1, p2], by rw [y2, hbytes], y1, i2, i1⟩⟩
  | fail =>
    obtain ⟨b1, e1⟩ := r1
    obtain ⟨b2, e2⟩ := r2
    rw [e1, e2]
    exact ⟨rfl, fun h0 => absurd h0 (by have := mostNeg_neg; omega)⟩
  | panic =>
    rw [r1, r2]
    exact rfl

theorem SameOutcome.trans {bytes : Bytes} {c1 c2 c3 : Except Err (Int × Bitstream)}
    (h12 : SameOutcome bytes c1 c2) (h23 : SameOutcome bytes c2 c3) : SameOutcome bytes c1 c3 := by
  cases c1 with
  | error e1 =>
    cases c2 with
    | error e2 =>
      cases c3 with
      | error e3 => exact Eq.trans h12 h23
      | ok p3 => exact h23.elim
    | ok p2 => exact h12.elim
  | ok p1 =>
    cases c2 with
    | error e2 => exact h12.elim
    | ok p2 =>
      cases c3 with
      | error e3 => exact h23.elim
      | ok p3 =>
        obtain ⟨s1, b1⟩ := p1
        obtain ⟨s2, b2⟩ := p2
        obtain ⟨s3, b3⟩ := p3
        obtain ⟨e12, f12⟩ := h12
        obtain ⟨e23, f23⟩ := h23
        refine ⟨e12.trans e23, fun h0 => ?_⟩
        have a := f12 h0
        have b := f23 (e12 ▸ h0)
        exact ⟨a.1.trans b.1, a.2.1, b.2.2.1, a.2.2.2.1, b.2.2.2.2⟩

/-! ### table entries -/

theorem entry_arith (k s : Nat) (hk1 : 1 ≤ k) (hk8 : k ≤ 8) (hs : s < 65536) :
    ((k <<< 16) ||| s) % 4294967296 ≠ 0 ∧ (((k <<< 16) ||| s) % 4294967296) >>> 16 = k ∧
    (((k <<< 16) ||| s) % 4294967296) &&& 0xFFFF = s := by
  have e : (k <<< 16) ||| s = k * 65536 + s := by
    rw [← Nat.shiftLeft_add_eq_or_of_lt (by omega : s < 2 ^ 16), Nat.shiftLeft_eq]
  have e2 : (0xFFFF : Nat) = 2 ^ 16 - 1 := rfl
  rw [e, e2, Nat.and_two_pow_sub_one_eq_mod, Nat.shiftRight_eq_div_pow]
  omega

theorem lowbyte (b : Bitstream) (hb : b.Inv) (h8 : 8 ≤ b.nBits) :
    (b.bits &&& 0xFF).toNat < 256 ∧
    ∀ j, j < 8 → (b.bits &&& 0xFF).toNat.testBit j = streamBit b.bytes (b.pos + j) := by
  have e : (b.bits &&& 0xFF).toNat = b.bits.toNat % 2 ^ 8 := by
    have e2 : (0xFF : UInt64).toNat = 2 ^ 8 - 1 := rfl
    rw [UInt64.toNat_and, e2, Nat.and_two_pow_sub_one_eq_mod]
  refine ⟨by rw [e]; omega, ?_⟩
  intro j hj
  rw [e, Nat.testBit_mod_two_pow]
  simp only [hj, decide_true, Bool.true_and]
  exact hb.low j (by omega)

theorem streamBit_single (v j : Nat) (hv : v < 256) (hj : j < 8) :
    streamBit #[UInt8.ofNat v] (0 + j) = v.testBit j := by
  have := streamBit_byte #[UInt8.ofNat v] 0 j hj
  simp only [Nat.mul_zero] at this
  rw [this]
  have : ((#[UInt8.ofNat v] : Bytes).getD 0 0).toNat = v := by
    simp [Array.getD]; omega
  rw [this]

theorem inv_single (v : Nat) : ({ bytes := #[UInt8.ofNat v], index := 0, bits := 0, nBits := 0 } : Bitstream).Inv :=
  ⟨⟨by simp, by simp⟩, by simp, fun i hi => by simp at hi, fun i _ _ hbit => by simp at hbit⟩

/-- The table entry in terms of the abstract decoder run on the 8 bits of `v`. -/
theorem tableEntry_spec (h : Huffman) (v : Nat) :
    match absLoop h (fun j => streamBit #[UInt8.ofNat v] (0 + j)) 8 maxCodeBits 1 0 0 0 0 with
    | .sym s k' => tableEntry h v = if s ≥ 0 then ((k' <<< 16) ||| s.toNat) % 4294967296 else 0
    | _ => tableEntry h v = 0 := by
  have r := slowDecodeLoop_refines h maxCodeBits 1 0 0 0 0 0
    { bytes := #[UInt8.ofNat v], index := 0, bits := 0, nBits := 0 } (inv_single v) rfl
  simp only [Array.size_singleton, Nat.mul_one, Nat.sub_zero] at r
  simp only [tableEntry, Huffman.slowDecode]
  generalize har : absLoop h (fun j => streamBit #[UInt8.ofNat v] (0 + j)) 8 maxCodeBits 1 0 0 0 0 = ar at r
  cases ar with
  | sym s k' =>
    obtain ⟨b', e1, i1, p1, y1⟩ := r
    simp only [e1]
    have hidx : b'.index = 1 ∧ b'.nBits ≤ 8 ∧ 8 - b'.nBits = k' := by
      have h1 := i1.index_le
      have h2 := i1.nBits_le
      rw [y1] at h1
      simp only [Array.size_singleton] at h1
      have hk := (absLoop_local h _ (fun _ => false) 8 0 _ _ _ _ _ _ s k' har).1
      simp only [Bitstream.pos] at p1
      omega
    rw [hidx.2.2]
  | fail =>
    obtain ⟨b', e1⟩ := r
    simp only [e1]
    have := mostNeg_neg
    have : ¬ (mostNegativeInt32 ≥ 0) := by omega
    simp [this]
  | panic =>
    have hr : h.slowDecodeLoop maxCodeBits 1 0 0 0 { bytes := #[UInt8.ofNat v], index := 0, bits := 0, nBits := 0 } =
        .error .panic := r
    simp only [hr]

theorem absLoop_sym_mem (h : Huffman) (bit : Nat → Bool) (avail rem i code first symIndex k : Nat) (s : Int) (k' : Nat)
    (hres : absLoop h bit avail rem i code first symIndex k = .sym s k') : ∃ idx : Nat, h.symbols[idx]? = some s := by
  induction rem generalizing i code first symIndex k with
  | zero => simp [absLoop] at hres
  | succ rem ih =>
    simp only [absLoop] at hres
    repeat' split at hres
    all_goals first
      | (simp at hres; done)
      | (simp at hres; obtain ⟨rfl, _⟩ := hres; exact ⟨_, by assumption⟩)
      | exact ih _ _ _ _ _ hres

/-- The table look-up of `decode` against `slowDecode`, from a cursor holding at least 8 bits. -/
theorem lookup_slow (h h' : Huffman) (b : Bitstream) (hc : h.constructLookUpTable = .ok h')
    (hsz : h.lookUpTable.size = 256) (hsym : ∀ (idx : Nat) (s : Int), h.symbols[idx]? = some s → s < 65536)
    (hb : b.Inv) (h8 : 8 ≤ b.nBits) :
    SameOutcome b.bytes (h'.decodeLookup b) (h.slowDecode b) := by
  obtain ⟨tc, ts, tt⟩ := table_spec h h' hc hsz
  obtain ⟨hv, hbits⟩ := lowbyte b hb h8
  have hx := tt _ hv
  have te := tableEntry_spec h (b.bits &&& 0xFF).toNat
  have hslow : h'.slowDecode b = h.slowDecode b := slowDecode_congr h h' tc ts _ _ _ _ _ _
  have hself := slow_slow h b b hb hb rfl rfl
  simp only [Huffman.decodeLookup]
  have e255 : (255 : UInt64) = 0xFF := rfl
  rw [hx]
  by_cases h0 : tableEntry h (b.bits &&& 0xFF).toNat = 0
  · simp only [h0, ne_eq, not_true_eq_false, if_false, hslow]
    exact hself
  · generalize har : absLoop h (fun j => streamBit #[UInt8.ofNat (b.bits &&& 0xFF).toNat] (0 + j)) 8 maxCodeBits 1 0 0 0 0 = ar
      at te
    cases ar with
    | fail => exact absurd te h0
    | panic => exact absurd te h0
    | sym s k' =>
      simp only [] at te
      by_cases hs0 : s ≥ 0
      · simp only [hs0, if_true] at te
        obtain ⟨hk1, hk8, hloc⟩ := absLoop_local h _ (fun j => streamBit b.bytes (b.pos + j)) 8
          (8 * b.bytes.size - b.pos) _ _ _ _ _ _ s k' har
        obtain ⟨idx, hidx⟩ := absLoop_sym_mem h _ _ _ _ _ _ _ _ s k' har
        have hs16 := hsym idx s hidx
        have havail : k' ≤ 8 * b.bytes.size - b.pos := by
          have := hb.nBits_le; have := hb.index_le
          simp only [Bitstream.pos]; omega
        have hreal := hloc (by
          intro j _ hj
          rw [streamBit_single _ _ hv (by omega), hbits j (by omega)]) havail
        have r1 := slowDecodeLoop_refines h maxCodeBits 1 0 0 0 0 b.pos b hb rfl
        rw [hreal] at r1
        obtain ⟨b2, e2, i2, p2, y2⟩ := r1
        have hsn : s.toNat < 65536 := by omega
        obtain ⟨a1, a2, a3⟩ := entry_arith k' s.toNat (by omega) hk8 hsn
        rw [← te] at a1 a2 a3
        have hc1 := Inv.consume hb k' (by omega)
        simp only [a1, ne_eq, not_false_eq_true, if_true, a2, a3, Huffman.slowDecode, e2]
        refine ⟨by simp; omega, fun _ => ⟨by rw [hc1.2, p2], rfl, y2, hc1.1, i2⟩⟩
      · simp only [hs0, if_false] at te
        exact absurd te h0

theorem loadOr_bytes (b : Bitstream) : b.loadOr.bytes = b.bytes := rfl
theorem load64_bytes (b : Bitstream) : b.load64.bytes = b.bytes := rfl

/-- **`lookup_eq_slow`**: with the table built by `constructLookUpTable`, the fast path of `decode`
(64-bit refill or single-byte refill, then the 8-bit table, falling back to `slowDecode`) returns what
`slowDecode` returns from the same cursor: the same symbol, and — when it is a symbol — the same bit
position, with the buffer untouched and the cursor invariant kept.
`hsym`: symbols fit the 16-bit field of a table entry (they are < 320 in every use);
`hsz`: the table has its 256 entries. -/
theorem lookup_eq_slow (h h' : Huffman) (b : Bitstream) (hc : h.constructLookUpTable = .ok h')
    (hsz : h.lookUpTable.size = 256) (hsym : ∀ (idx : Nat) (s : Int), h.symbols[idx]? = some s → s < 65536)
    (hb : b.Inv) :
    SameOutcome b.bytes (h'.decode b) (h'.slowDecode b) := by
  obtain ⟨tc, ts, _⟩ := table_spec h h' hc hsz
  have hslow : ∀ c : Bitstream, h'.slowDecode c = h.slowDecode c :=
    fun c => slowDecode_congr h h' tc ts _ _ _ _ _ _
  rw [decode_eq, hslow]
  split
  · rename_i h8
    exact lookup_slow h h' b hc hsz hsym hb h8
  · rename_i h8
    split
    · rename_i h64
      obtain ⟨i64, p64⟩ := Inv.load64 hb (by omega) h64
      have l := lookup_slow h h' b.load64 hc hsz hsym i64 (by simp only [Bitstream.load64]; omega)
      rw [load64_bytes] at l
      exact l.trans (slow_slow h b b.load64 hb i64 (load64_bytes b) p64)
    · split
      · rename_i hidx
        obtain ⟨i1, p1⟩ := Inv.load_or hb (by omega) hidx
        have l := lookup_slow h h' b.loadOr hc hsz hsym i1 (by simp only [Bitstream.loadOr]; omega)
        rw [loadOr_bytes] at l
        exact l.trans (slow_slow h b b.loadOr hb i1 (loadOr_bytes b) p1)
      · exact slow_slow h b b hb hb rfl rfl

end WuffsVerif.Flate.Cut
