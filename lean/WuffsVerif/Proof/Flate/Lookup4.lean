/-
C16: `lookup_eq_slow` for the huffman values that `construct` actually builds.
-/
import WuffsVerif.Proof.Flate.Lookup3

namespace WuffsVerif.Flate.Cut
open WuffsVerif.Gen.C16

/-- What `lookup_eq_slow` needs of a `huffman`: a 256-entry table and symbols that fit 16 bits. -/
def Huffman.TableOK (h : Huffman) : Prop :=
  h.lookUpTable.size = 256 ∧ ∀ (idx : Nat) (s : Int), h.symbols[idx]? = some s → s < 65536

theorem Huffman.zero_tableOK : Huffman.zero.TableOK := by
  refine ⟨by simp [Huffman.zero], ?_⟩
  intro idx s hs
  simp only [Huffman.zero, Array.getElem?_replicate] at hs
  split at hs <;> simp at hs
  omega

theorem constructSymbols_bound (lengths : Array Nat) (B : Int) (rem symbol : Nat) (offs : Array Nat)
    (syms syms' : Array Int)
    (h : constructSymbols lengths rem symbol offs syms = .ok syms')
    (hs : ∀ (idx : Nat) (s : Int), syms[idx]? = some s → s < B) (hB : ((symbol + rem : Nat) : Int) ≤ B) :
    ∀ (idx : Nat) (s : Int), syms'[idx]? = some s → s < B := by
  induction rem generalizing symbol offs syms with
  | zero => simp [constructSymbols] at h; subst h; exact hs
  | succ rem ih =>
    simp only [constructSymbols] at h
    repeat' split at h
    all_goals first
      | (simp at h; done)
      | skip
    · apply ih _ _ _ h _ (by omega)
      intro idx s hidx
      rw [Array.getElem?_setIfInBounds] at hidx
      split at hidx
      · simp at hidx; omega
      · exact hs idx s hidx
    · exact ih _ _ _ h hs (by omega)

theorem constructLookUpTable_size (h h' : Huffman) (hc : h.constructLookUpTable = .ok h')
    (hsz : h.lookUpTable.size = 256) : h'.lookUpTable.size = 256 ∧ h'.symbols = h.symbols := by
  simp only [Huffman.constructLookUpTable] at hc
  split at hc
  · simp at hc
  · rename_i t ht
    simp at hc
    subst hc
    exact ⟨(go_spec h 256 0 _ t ht hsz).1, rfl⟩

/-- `construct` keeps `TableOK`, and the `huffman` it returns satisfies `lookup_eq_slow`. -/
theorem construct_lookup_eq_slow (h0 h : Huffman) (lengths : Array Nat) (ecb ecn : Nat)
    (hc : h0.construct lengths = .ok (h, ecb, ecn)) (h0ok : h0.TableOK) (hlen : lengths.size ≤ 65536) :
    h.TableOK ∧ ∀ b : Bitstream, b.Inv → SameOutcome b.bytes (h.decode b) (h.slowDecode b) := by
  simp only [Huffman.construct] at hc
  repeat' split at hc
  all_goals first
    | (simp at hc; done)
    | skip
  rename_i syms hsyms _ hh hlut
  simp at hc
  obtain ⟨rfl, _, _⟩ := hc
  have hb := constructSymbols_bound lengths 65536 _ 0 _ _ _ hsyms h0ok.2 (by omega)
  have hsz := constructLookUpTable_size _ _ hlut h0ok.1
  refine ⟨⟨hsz.1, by rw [hsz.2]; exact hb⟩, ?_⟩
  intro b hbinv
  exact lookup_eq_slow _ _ b hlut h0ok.1 hb hbinv

end WuffsVerif.Flate.Cut
