/-
C16: `doDynamicHuffman`'s header parser against `Spec.dynamicHeader` (part 2): the whole header.
-/
import WuffsVerif.Proof.Flate.DynHdr

namespace WuffsVerif.Flate.Cut
open WuffsVerif.Gen.C16 WuffsVerif.Flate.Spec

theorem take_val (b : Bitstream) (hb : b.Inv) (s : Bytes) (hy : b.bytes = s) (p n : Nat) (hp : b.pos = p)
    (hn : n ≤ 13) (hfit : p + n ≤ 8 * s.size) (base : Int) (h0 : 0 ≤ base) (h1 : base < 65536) :
    (b.take n).1 = ((bitsLE s p n : Nat) : Int) ∧ (b.take n).2.Inv ∧ (b.take n).2.pos = p + n ∧
    (b.take n).2.bytes = s ∧ wrap32 (base + (b.take n).1) = base + ((bitsLE s p n : Nat) : Int) := by
  obtain ⟨t1, i1, q1, y1⟩ := take_avail b hb n hn (by rw [hy, hp]; simp only [avail]; omega)
  rw [hy, hp] at t1
  rw [hp] at q1
  refine ⟨t1, i1, q1, by rw [y1, hy], ?_⟩
  rw [t1]
  have hlt := bitsLE_lt s p n
  have hpow : 2 ^ n ≤ 8192 := by
    calc 2 ^ n ≤ 2 ^ 13 := Nat.pow_le_pow_right (by omega) hn
      _ = 8192 := by decide
  rw [wrap32_range] <;> omega

/-- **The dynamic block header, as the cutter parses it**: either `doDynamicHuffman` fails while building
the code-length code (`badHuffmanTree`), or it arrives at `doHuffman` with exactly the code lengths and
the bit position that `Spec.dynamicHeader` computes. -/
theorem doDynamicHuffman_eq (s : Bytes) (c : Cutter) (hc : c.OK) (hb : c.bits.bytes = s) (p0 : Nat)
    (hp : c.bits.pos = p0) (hl hd : Huff) (minL ph : Nat) (lens : Array Nat) (hcH : Huff)
    (d : DynHdr s p0 hl hd minL ph lens hcH) (isFirst : Bool) :
    (∃ c' e, c.doDynamicHuffman isFirst = (c', some e) ∧ (e = .badHuffmanTree ∨ e = .panic)) ∨
    (∃ bits5 lh, c.doDynamicHuffman isFirst =
        Cutter.doHuffman ⟨bits5, c.maxEncodedLen, c.decodedLen, c.endCodeBits, c.endCodeNBits, lh, c.dHuff⟩ isFirst
          (lens.extract 0 (bitsLE s p0 5 + 257))
          (lens.extract (bitsLE s p0 5 + 257) (bitsLE s p0 5 + 257 + (bitsLE s (p0 + 5) 5 + 1))) ∧
      bits5.Inv ∧ bits5.bytes = s ∧ bits5.pos = ph ∧ lh.Shape ∧
      lens.size = bitsLE s p0 5 + 257 + (bitsLE s (p0 + 5) 5 + 1)) := by
  have hav14 := d.av14
  have havcl := d.avcl
  simp only [avail] at hav14 havcl
  have hnl := d.nlit
  have hnd := d.ndist
  generalize hv1 : bitsLE s p0 5 = v1 at *
  generalize hv2 : bitsLE s (p0 + 5) 5 = v2 at *
  generalize hv3 : bitsLE s (p0 + 10) 4 = v3 at *
  have hv3lt : v3 < 16 := by rw [← hv3]; exact bitsLE_lt s (p0 + 10) 4
  rw [Cutter.doDynamicHuffman]
  -- HLIT
  obtain ⟨_, i1, q1, y1, w1⟩ := take_val c.bits hc.inv s hb p0 5 hp (by omega) (by omega) 257 (by omega) (by omega)
  generalize c.bits.take 5 = r1 at i1 q1 y1 w1
  obtain ⟨t, bits1⟩ := r1
  simp only [] at i1 q1 y1 w1 ⊢
  rw [w1, hv1]
  have n1 : ¬ ((257 : Int) + (v1 : Int) < 0) := by omega
  rw [if_neg n1]
  -- HDIST
  obtain ⟨_, i2, q2, y2, w2⟩ := take_val bits1 i1 s y1 (p0 + 5) 5 q1 (by omega) (by omega) 1 (by omega) (by omega)
  generalize bits1.take 5 = r2 at i2 q2 y2 w2
  obtain ⟨t', bits2⟩ := r2
  simp only [] at i2 q2 y2 w2 ⊢
  rw [w2, hv2]
  have n2 : ¬ ((1 : Int) + (v2 : Int) < 0) := by omega
  rw [if_neg n2]
  -- HCLEN
  obtain ⟨_, i3, q3, y3, w3⟩ := take_val bits2 i2 s y2 (p0 + 5 + 5) 4 q2 (by omega) (by omega) 4 (by omega) (by omega)
  generalize bits2.take 4 = r3 at i3 q3 y3 w3
  obtain ⟨t'', bits3⟩ := r3
  simp only [] at i3 q3 y3 w3 ⊢
  have e10 : p0 + 5 + 5 = p0 + 10 := by omega
  rw [e10] at w3 q3
  rw [w3, hv3]
  have n3 : ¬ ((4 : Int) + (v3 : Int) < 0) := by omega
  rw [if_neg n3]
  have nmany : ¬ ((257 : Int) + (v1 : Int) > 286 ∨ (1 : Int) + (v2 : Int) > 30) := by omega
  rw [if_neg nmany]
  have e1 : ((257 : Int) + (v1 : Int)).toNat = v1 + 257 := by omega
  have e2 : ((1 : Int) + (v2 : Int)).toNat = v2 + 1 := by omega
  have e3 : ((4 : Int) + (v3 : Int)).toNat = v3 + 4 := by omega
  rw [e1, e2, e3]
  generalize hn : v1 + 257 + (v2 + 1) = n at *
  have hn258 : 258 ≤ n := by omega
  have hnle : n ≤ 316 := by omega
  -- the code-length code lengths
  obtain ⟨bits4, lengths1, ecl, i4, y4, q4, s4, l4⟩ := readCLL_sim s p0 (v3 + 4) 0 bits3 (Array.replicate n 0) i3 y3
    (by rw [q3]) (by omega) (by rw [Array.size_replicate]; omega) (by omega)
    (by intro k; simp [clOf, Array.getD_eq_getD_getElem?, Array.getElem?_replicate]; split <;> split <;> simp)
  rw [ecl]
  simp only []
  have hs4 : lengths1.size = n := by simpa using s4
  simp only [Nat.zero_add] at q4 l4
  have hcs := clOf_size s p0 (v3 + 4)
  generalize hcld : clOf s p0 (v3 + 4) = cl at *
  have hz : ∀ k, 19 ≤ k → lengths1.getD k 0 = 0 := by
    intro k hk
    rw [l4 k, Array.getD_eq_getD_getElem?, Array.getElem?_eq_none (by omega)]
    rfl
  have hpad := eq_pad_of_getD lengths1 cl (by omega) l4
  have hmk : mkHuff lengths1 = some hcH := by
    have := d.hcE
    rw [hv3, hcld] at this
    rw [hpad, mkHuff_pad]; exact this
  cases h1 : c.lHuff.construct lengths1 with
  | error e =>
    left
    exact ⟨_, e, rfl, (construct_err _ _ _ h1).symm⟩
  | ok ph1 =>
    obtain ⟨lh, lecb, lecn⟩ := ph1
    simp only []
    have hoff1 : offAt lengths1 16 ≤ 288 := Nat.le_trans (offAt_le_of_zero lengths1 19 16 hz) (by omega)
    have hgl := construct_good c.lHuff lh lengths1 _ _ h1 hc.l.tableOK hc.l.symsz hoff1 (by omega)
    have hnz := construct_nz c.lHuff lh lengths1 _ _ h1
    obtain ⟨bits5, erl, i5, y5, q5, s5⟩ := readLengths_sim lh lengths1 hgl hnz hcH hmk hoff1 hz s n (n + 1) (n + 1) 0
      bits4 lengths1 lens ph i4 y4 hs4 (by omega) (by omega)
      (by
        have : lengths1.extract 0 0 = #[] := by simp
        have hrl := d.rl
        rw [hv1, hv2, hv3, hn] at hrl
        rw [this, q4]; exact hrl)
    rw [erl]
    simp only []
    right
    exact ⟨bits5, lh, rfl, i5, y5, q5, hgl.shape, s5⟩

end WuffsVerif.Flate.Cut
