/-
Well-formedness of the ASTs that `Model/Parse.lean` builds: the definition.

`wf n` says: every node of the tree `n` has the children that its kind (and, for expressions
and type expressions, its operator / decorator) requires — exactly the children that the typed
accessors of lang/ast and their users in lang/check and internal/cgen dereference without a nil
check (`n.AsAssign().RHS().Effect()`, `n.AsIterate().Assigns()[i].AsAssign().LHS().Ident()`,
`expr.LHS().AsExpr().MType()`, …) — and no list of children contains a nil entry.
-/
import WuffsVerif.Model.Parse

namespace WuffsVerif.Parse
open WuffsVerif.Token WuffsVerif.Gen.C11

/-! ## the X-form classifiers of lang/token/list.go -/

/-- `ID.IsXUnaryOp`. -/
def isXUnaryOp (x : Nat) : Bool := minXOp ≤ x && x ≤ maxXOp && unaryForm x != 0
/-- `ID.IsXBinaryOp`. -/
def isXBinaryOp (x : Nat) : Bool := minXOp ≤ x && x ≤ maxXOp && binaryForm x != 0
/-- `ID.IsXAssociativeOp`. -/
def isXAssociativeOp (x : Nat) : Bool := minXOp ≤ x && x ≤ maxXOp && associativeForm x != 0

/-! ## children required by kind -/

/-- An `Expr` node with operator `op`, children `lhs rhs` and argument list `args`: the
dispatch is the one of lang/check's `tcheckExpr` / `bcheckExpr1` and cgen's `writeExpr`
(`0` = leaf, `(` call, `[` index, `..` slice, `.` selector, `,` list, then the X-forms);
`false` for any other operator. -/
def exprOK (op : Nat) (lhs rhs : Node) (args : List Node) : Bool :=
  if op == 0 then true
  else if op == IDOpenParen || op == IDDot || op == IDDotDot then !lhs.isNil
  else if op == IDOpenBracket then !lhs.isNil && !rhs.isNil
  else if op == IDComma then true
  else if isXUnaryOp op then !rhs.isNil
  else if isXBinaryOp op then !lhs.isNil && !rhs.isNil
  else if isXAssociativeOp op then decide (2 ≤ args.length)
  else false

/-- A `TypeExpr` node with decorator `d`: `array[len] T` needs its length and inner type, the
other decorators their inner type; an undecorated type has no inner type. -/
def typeOK (d : Nat) (lhs rhs : Node) : Bool :=
  if d == 0 then rhs.isNil
  else if d == IDArray || d == IDRoarray then !lhs.isNil && !rhs.isNil
  else if d == IDNptr || d == IDPtr || d == IDRoslice || d == IDRotable || d == IDSlice ||
      d == IDTable then !rhs.isNil
  else false

/-- An `iterate` assignment: `x = expr` with a plain variable on the left. -/
def iterAssignOK (n : Node) : Bool :=
  n.kind == KAssign && !n.lhs.isNil && n.lhs.id0 == 0 && n.id0 == IDEq

/-- The children a node of kind `k` must have (`a` = id0; `x y z` = lhs mhs rhs; `p` = list0). -/
def shallowOK (k a : Nat) (x y z : Node) (p : List Node) : Bool :=
  if k == KArg then !z.isNil                                  -- value
  else if k == KAssert then !z.isNil                          -- condition
  else if k == KAssign then !z.isNil && (!x.isNil || a == IDEq)  -- RHS; a bare call has no LHS
  else if k == KChoose then true
  else if k == KConst then !x.isNil && !z.isNil               -- type, value
  else if k == KExpr then exprOK a x z p
  else if k == KField then !x.isNil                           -- type
  else if k == KFile then true
  else if k == KFunc then !x.isNil                            -- the `args` struct
  else if k == KIOManip then
    !x.isNil && (if a == IDIOBind then !y.isNil && !z.isNil   -- io; data, history_position
      else if a == IDIOLimit then !y.isNil else true)         -- limit
  else if k == KIf then !y.isNil                              -- condition
  else if k == KIterate then !x.isNil && p.all iterAssignOK   -- unroll; assigns
  else if k == KJump then true
  else if k == KRet then !x.isNil                             -- value
  else if k == KStatus then true
  else if k == KStruct then true
  else if k == KTypeExpr then typeOK a x z
  else if k == KUse then true
  else if k == KVar then !x.isNil                             -- type
  else if k == KWhile then !y.isNil                           -- condition
  else false

mutual
/-- Deep well-formedness: `shallowOK` at every node of the tree, no nil list entries. -/
def wf : Node → Bool
  | .nil => true
  | .mk k _ a _ _ _ x y z p q r =>
    shallowOK k a x y z p && wf x && wf y && wf z && wfList p && wfList q && wfList r
def wfList : List Node → Bool
  | [] => true
  | n :: rest => !n.isNil && wf n && wfList rest
end

/-- Present and well-formed. -/
def WfN (n : Node) : Prop := n.isNil = false ∧ wf n = true

theorem wfList_iff (l : List Node) : wfList l = true ↔ ∀ n ∈ l, WfN n := by
  induction l with
  | nil => simp [wfList]
  | cons a r ih => simp [wfList, ih, WfN, and_assoc]

theorem wfList_append (l r : List Node) : wfList (l ++ r) = (wfList l && wfList r) := by
  induction l with
  | nil => simp [wfList]
  | cons a l ih => simp [wfList, ih, Bool.and_assoc]

theorem wfList_reverse (l : List Node) : wfList l.reverse = wfList l := by
  induction l with
  | nil => rfl
  | cons a l ih => simp [wfList, wfList_append, ih, Bool.and_comm]

@[simp] theorem wf_nil : wf .nil = true := by simp [wf]

@[simp] theorem isNil_nil : Node.nil.isNil = true := rfl
@[simp] theorem isNil_mk (k f a b c l : Nat) (x y z : Node) (p q r : List Node) :
    (Node.mk k f a b c l x y z p q r).isNil = false := rfl

theorem wf_mk (k f a b c l : Nat) (x y z : Node) (p q r : List Node) :
    wf (.mk k f a b c l x y z p q r) =
      (shallowOK k a x y z p && wf x && wf y && wf z && wfList p && wfList q && wfList r) := by
  simp [wf]

theorem wf_newExpr (f op id : Nat) (l m r : Node) (args : List Node) :
    wf (newExpr f op id l m r args) = (exprOK op l r args && wf l && wf m && wf r && wfList args) := by
  simp [newExpr, wf, wfList, shallowOK, KExpr, KArg, KAssert, KAssign, KChoose, KConst]

@[simp] theorem isNil_newExpr (f op id : Nat) (l m r : Node) (args : List Node) :
    (newExpr f op id l m r args).isNil = false := rfl

theorem wf_newTypeExpr (d pkg name : Nat) (l m r : Node) :
    wf (newTypeExpr d pkg name l m r) = (typeOK d l r && wf l && wf m && wf r) := by
  simp [newTypeExpr, wf, wfList, shallowOK, KExpr, KArg, KAssert, KAssign, KChoose, KConst, KField,
    KFile, KFunc, KIOManip, KIf, KIterate, KJump, KRet, KStatus, KStruct, KTypeExpr]

@[simp] theorem isNil_newTypeExpr (d pkg name : Nat) (l m r : Node) :
    (newTypeExpr d pkg name l m r).isNil = false := rfl

theorem wf_setLine (l : Nat) (n : Node) : wf (n.setLine l) = wf n := by
  cases n <;> simp [Node.setLine, wf]

theorem isNil_setLine (l : Nat) (n : Node) : (n.setLine l).isNil = n.isNil := by
  cases n <;> simp [Node.setLine, Node.isNil]

theorem iterAssignOK_setLine (l : Nat) (n : Node) : iterAssignOK (n.setLine l) = iterAssignOK n := by
  cases n <;> simp [Node.setLine, iterAssignOK, Node.kind, Node.lhs, Node.id0]

theorem wfList_map_setLine (l : Nat) (p : List Node) : wfList (p.map (Node.setLine l)) = wfList p := by
  induction p with
  | nil => rfl
  | cons a r ih => simp [wfList, ih, wf_setLine, isNil_setLine]

theorem all_iterAssignOK_map_setLine (l : Nat) (p : List Node) :
    (p.map (Node.setLine l)).all iterAssignOK = p.all iterAssignOK := by
  induction p with
  | nil => rfl
  | cons a r ih => simp only [List.map_cons, List.all_cons, iterAssignOK_setLine, ih]

end WuffsVerif.Parse
