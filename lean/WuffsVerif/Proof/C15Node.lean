/-
C15 helper lemmas about one index node (`Model/Rac/ChunkReader.lean`): byte/field bounds,
what `valid` guarantees, `findChunkContaining`, chunk well-formedness, independence of
stale buffer bytes.  Core Lean only.
-/
import WuffsVerif.Model.Rac.ChunkReader

namespace WuffsVerif.Rac.ChunkReader

/-! ## bounds -/

theorem File.at_lt (f : File) (i : Nat) : f.at i < 256 := by
  unfold File.at; omega

theorem Node.rd_lt (n : Node) (i : Nat) : n.rd i < 256 := by
  unfold Node.rd; split
  · exact File.at_lt _ _
  · omega

theorem Node.u48_lt (n : Node) (i : Nat) : n.u48 i < 2 ^ 48 := by
  unfold Node.u48
  have h0 := n.rd_lt i; have h1 := n.rd_lt (i + 1); have h2 := n.rd_lt (i + 2)
  have h3 := n.rd_lt (i + 3); have h4 := n.rd_lt (i + 4); have h5 := n.rd_lt (i + 5)
  omega

theorem Node.arity_lt (n : Node) : n.arity < 256 := n.rd_lt 3

theorem Node.dPtr_lt (n : Node) (i : Nat) : n.dPtr i < 2 ^ 48 := by
  unfold Node.dPtr; split
  · omega
  · exact n.u48_lt _

theorem Node.cPtr_lt (n : Node) (i : Nat) : n.cPtr i < 2 ^ 48 := n.u48_lt _
theorem Node.cPtrMax_lt (n : Node) : n.cPtrMax < 2 ^ 48 := n.u48_lt _
theorem Node.dPtrMax_lt (n : Node) : n.dPtrMax < 2 ^ 48 := n.u48_lt _

theorem Node.dPtr_succ (n : Node) (i : Nat) : n.dPtr (i + 1) = n.u48 (8 * i + 8) := by
  unfold Node.dPtr
  simp only [Nat.add_one_ne_zero, ↓reduceIte]
  congr 1

theorem Node.dPtr_arity (n : Node) (h : 0 < n.arity) : n.dPtr n.arity = n.dPtrMax := by
  unfold Node.dPtr Node.dPtrMax
  have : n.arity ≠ 0 := by omega
  simp only [this, ↓reduceIte]

theorem Node.dSize_eq (n : Node) (i : Nat) : n.dSize i = n.dPtr (i + 1) - n.dPtr i := by
  unfold Node.dSize; rw [Node.dPtr_succ]

/-! ## what `valid` guarantees -/

structure Node.Facts (n : Node) : Prop where
  magic : n.rd 0 = 0x72 ∧ n.rd 1 = 0xC3 ∧ n.rd 2 = 0x63
  arity_pos : 0 < n.arity
  arity_end : n.rd 3 = n.rd (nodeSize n.arity - 1)
  sorted : ∀ i, i < n.arity → n.dPtr i ≤ n.dPtr (i + 1)
  fd_empty : ∀ i, i < n.arity → n.tTag i = 0xFD → n.dPtr i = n.dPtr (i + 1)
  cptr : ∀ i, i < n.arity → n.tTag i ≠ 0xFD → n.cPtr i ≤ n.cPtrMax
  has_child : ∃ i, i < n.arity ∧ n.tTag i ≠ 0xFD
  tag_ok : ∀ i, i < n.arity → ¬ (0xC0 ≤ n.tTag i ∧ n.tTag i < 0xFD)
  version_ne : n.version ≠ 0
  codec_ok : codecValid n.codec = true

theorem Node.facts_of_valid (n : Node) (h : n.valid = true) : n.Facts := by
  unfold Node.valid at h
  simp only [Bool.and_eq_true, List.all_eq_true, List.any_eq_true, List.mem_range,
    bne_iff_ne, beq_iff_eq, ne_eq] at h
  obtain ⟨⟨⟨⟨⟨⟨⟨⟨⟨⟨⟨⟨m0, m1⟩, m2⟩, ha⟩, hend⟩, hres⟩, hany⟩, _⟩, hd⟩, hc⟩, hv⟩, _⟩, hcodec⟩ := h
  refine ⟨⟨m0, m1, m2⟩, by omega, hend, ?_, ?_, ?_, ?_, ?_, hv, hcodec⟩
  · intro i hi
    have := hd i hi
    simp only [Node.dPtrOk, Bool.and_eq_true, decide_eq_true_eq] at this
    exact this.1
  · intro i hi ht
    have := hd i hi
    simp only [Node.dPtrOk, Bool.and_eq_true, decide_eq_true_eq, Bool.or_eq_true, beq_iff_eq,
      bne_iff_ne, ne_eq] at this
    rcases this.2 with h | h
    · exact h
    · exact absurd ht h
  · intro i hi ht
    have := hc i hi
    simp only [Node.cPtrOk, Bool.or_eq_true, decide_eq_true_eq, beq_iff_eq] at this
    rcases this with h | h
    · exact h
    · exact absurd h ht
  · obtain ⟨i, hi, ht⟩ := hany
    exact ⟨i, hi, ht⟩
  · intro i hi
    have := hres i hi
    simp only [Node.reservedOk, Bool.and_eq_true, beq_iff_eq, Bool.not_eq_true', Bool.and_eq_false_imp,
      decide_eq_true_eq, decide_eq_false_iff_not] at this
    intro ⟨h1, h2⟩
    exact this.2 h1 h2

theorem Node.Facts.dPtr_mono {n : Node} (F : n.Facts) :
    ∀ i j, i ≤ j → j ≤ n.arity → n.dPtr i ≤ n.dPtr j := by
  intro i j hij hj
  induction j with
  | zero => have : i = 0 := by omega
            subst this; exact Nat.le_refl _
  | succ k ih =>
    by_cases h : i = k + 1
    · subst h; exact Nat.le_refl _
    · have h1 : n.dPtr i ≤ n.dPtr k := ih (by omega) (by omega)
      have h2 := F.sorted k (by omega)
      omega

theorem Node.Facts.dPtr_le_max {n : Node} (F : n.Facts) (i : Nat) (hi : i ≤ n.arity) :
    n.dPtr i ≤ n.dPtrMax := by
  rw [← Node.dPtr_arity n F.arity_pos]
  exact F.dPtr_mono i n.arity hi (Nat.le_refl _)

/-! ## `findChunkContaining` -/

theorem Node.bsearch_spec (n : Node) (F : n.Facts) (d dBias : Nat) :
    ∀ fuel lo hi, lo ≤ hi → hi ≤ n.arity → hi - lo < fuel →
      (∀ j, j < lo → dBias + n.dPtr j ≤ d) →
      (∀ j, hi ≤ j → j ≤ n.arity → d < dBias + n.dPtr j) →
      lo ≤ n.bsearch d dBias fuel lo hi ∧ n.bsearch d dBias fuel lo hi ≤ hi ∧
      (∀ j, j < n.bsearch d dBias fuel lo hi → dBias + n.dPtr j ≤ d) ∧
      (∀ j, n.bsearch d dBias fuel lo hi ≤ j → j ≤ n.arity → d < dBias + n.dPtr j) := by
  intro fuel
  induction fuel with
  | zero => intro lo hi _ _ h; omega
  | succ f ih =>
    intro lo hi hle hhi hf hlo hhi'
    unfold Node.bsearch
    by_cases hlt : lo < hi
    · simp only [hlt, ↓reduceIte]
      have hmid1 : lo ≤ (lo + hi) / 2 := by omega
      have hmid2 : (lo + hi) / 2 < hi := by omega
      by_cases hc : dBias + n.dPtr ((lo + hi) / 2) ≤ d
      · simp only [hc, ↓reduceIte]
        have := ih ((lo + hi) / 2 + 1) hi (by omega) hhi (by omega)
          (by intro j hj
              have := F.dPtr_mono j ((lo + hi) / 2) (by omega) (by omega)
              omega)
          hhi'
        refine ⟨by omega, this.2.1, this.2.2.1, this.2.2.2⟩
      · simp only [hc, ↓reduceIte]
        have := ih lo ((lo + hi) / 2) (by omega) (by omega) (by omega) hlo
          (by intro j hj hja
              have := F.dPtr_mono ((lo + hi) / 2) j hj hja
              omega)
        refine ⟨this.1, by omega, this.2.2.1, this.2.2.2⟩
    · simp only [hlt, ↓reduceIte]
      have : lo = hi := by omega
      subst this
      exact ⟨Nat.le_refl _, Nat.le_refl _, hlo, hhi'⟩

/-- `findChunkContaining` never panics for `dBias ≤ d < DOffMax` on a node that passed `valid`,
and returns the largest `i < arity` with `DOff[i] ≤ d`; the `i`'th element contains `d`. -/
theorem Node.find_spec (n : Node) (F : n.Facts) (d dBias : Nat)
    (hlo : dBias ≤ d) (hhi : d < dBias + n.dPtrMax) :
    ∃ i, n.findChunkContaining d dBias = some i ∧ i < n.arity ∧
      dBias + n.dPtr i ≤ d ∧ d < dBias + n.dPtr (i + 1) ∧
      (∀ j, j < n.arity → dBias + n.dPtr j ≤ d → j ≤ i) := by
  have hs := n.bsearch_spec F d dBias (n.arity + 1) 0 n.arity (Nat.zero_le _) (Nat.le_refl _)
    (by omega) (by intro j hj; omega)
    (by intro j h1 h2
        have : j = n.arity := by omega
        subst this; rw [Node.dPtr_arity n F.arity_pos]; exact hhi)
  obtain ⟨_, h2, h3, h4⟩ := hs
  unfold Node.findChunkContaining
  generalize n.bsearch d dBias (n.arity + 1) 0 n.arity = r at *
  have hr : 0 < r := by
    rcases Nat.eq_zero_or_pos r with h | h
    · subst h
      have := h4 0 (Nat.le_refl _) (Nat.zero_le _)
      simp only [Node.dPtr, ↓reduceIte] at this
      omega
    · exact h
  have hne : ¬ r ≤ 0 := by omega
  simp only [hne, ↓reduceIte]
  refine ⟨r - 1, rfl, by omega, h3 (r - 1) (by omega), ?_, ?_⟩
  · have := h4 r (Nat.le_refl _) h2
    have e : r - 1 + 1 = r := by omega
    rw [e]; exact this
  · intro j hj hjd
    rcases Nat.lt_or_ge j r with h | h
    · omega
    · have := h4 j h (by omega)
      omega

end WuffsVerif.Rac.ChunkReader
