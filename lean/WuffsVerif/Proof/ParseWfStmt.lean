/-
Well-formedness of the ASTs built by `Model/Parse.lean`, part 4: statements and the
statement / block cycle.
-/
import WuffsVerif.Proof.ParseWfCore

namespace WuffsVerif.Parse
open WuffsVerif.Token WuffsVerif.Gen.C11

attribute [local irreducible] checkAssignLHS terminatesList typeInnermost stripArrays
  asSmallPositiveInt256 isChooseCPUArch validConstName containsDoubleUnderscore isStatusMessageTok

/-! ## line stamping (`parseStatement`) keeps well-formedness -/

theorem shallowOK_map_setLine (l k a : Nat) (x y z : Node) (p : List Node) :
    shallowOK k a x y z (p.map (Node.setLine l)) = shallowOK k a x y z p := by
  have : (iterAssignOK ∘ Node.setLine l) = iterAssignOK := funext (iterAssignOK_setLine l)
  simp [shallowOK, exprOK, this]

theorem wfN_setLine (l : Nat) (n : Node) (h : WfN n) : WfN (n.setLine l) := by
  simp_all [WfN, wf_setLine, isNil_setLine]

theorem wfN_setL0_map_setLine (l : Nat) (n : Node) (h : WfN n) :
    WfN (n.setL0 (n.l0.map (Node.setLine l))) := by
  cases n with
  | nil => simp [WfN] at h
  | mk k f a b c ln x y z p q r =>
    simp_all [WfN, Node.setL0, Node.l0, wf_mk, shallowOK_map_setLine, wfList_map_setLine]

/-! ## statements -/

theorem post_parseAssignNode' (env : Env) (pe : P Node) (hpe : Post pe WfN) :
    Post (parseAssignNode env pe) (fun n => WfN n ∧ n.kind = KAssign) := by
  unfold parseAssignNode
  post_auto
  all_goals simp [newAssign, Node.kind]

theorem post_parseAssignNode (env : Env) (pe : P Node) (hpe : Post pe WfN) :
    Post (parseAssignNode env pe) WfN :=
  post_mono (post_parseAssignNode' env pe hpe) (fun _ h => h.1)

/-- An `iterate` assignment has its left-hand side, a plain variable (the construct that made
the real parser dereference nil before the C11 repair). -/
theorem post_parseIterateAssignNode (env : Env) (pe : P Node) (hpe : Post pe WfN) :
    Post (parseIterateAssignNode env pe) (fun n => WfN n ∧ iterAssignOK n = true) := by
  have := post_parseAssignNode' env pe hpe
  unfold parseIterateAssignNode
  post_auto
  simp_all [iterAssignOK, KAssign]

theorem post_parseVarNode (env : Env) (pt : P Node) (hpt : Post pt WfN) :
    Post (parseVarNode env pt) WfN := by
  unfold parseVarNode
  post_auto

theorem post_parseChooseStmt (env : Env) : Post (parseChooseStmt env) WfN := by
  have hel : Post (do let id ← parseIdent env; pure (newExpr 0 0 id .nil .nil .nil [])) WfN := by
    post_auto
  unfold parseChooseStmt
  post_auto

theorem post_parseIOManipArg (name : Nat) (pe : P Node) (hpe : Post pe WfN) :
    Post (parseIOManipArg name pe) WfN := by
  unfold parseIOManipArg
  post_auto

macro_rules | `(tactic| post_leaf) => `(tactic| (apply post_parseIOManipArg; post_leaf))

theorem post_parseIOManipNode (x : Nat) (pe : P Node) (hpe : Post pe WfN) (pb : P (List Node))
    (hpb : Post pb (fun l => ∀ n ∈ l, WfN n)) : Post (parseIOManipNode x pe pb) WfN := by
  unfold parseIOManipNode
  post_auto

theorem post_parseRetNode (env : Env) (x : Nat) (pe : P Node) (hpe : Post pe WfN) :
    Post (parseRetNode env x pe) WfN := by
  unfold parseRetNode
  post_auto

theorem post_parseWhileNode (env : Env) (pe : P Node) (hpe : Post pe WfN)
    (pb : Bool → P (List Node)) (hpb : ∀ dc, Post (pb dc) (fun l => ∀ n ∈ l, WfN n)) :
    Post (parseWhileNode env pe pb) WfN := by
  unfold parseWhileNode
  post_auto

theorem post_parseIterateNode (env : Env) (pe : P Node) (hpe : Post pe WfN)
    (pi : Nat → List Node → P Node)
    (hpi : ∀ l a, (∀ n ∈ a, WfN n ∧ iterAssignOK n = true) → Post (pi l a) WfN) :
    Post (parseIterateNode env pe pi) WfN := by
  have := post_parseIterateAssignNode env pe hpe
  unfold parseIterateNode
  post_auto

end WuffsVerif.Parse
