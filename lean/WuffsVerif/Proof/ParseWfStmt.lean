/-
Well-formedness of the ASTs built by `Model/Parse.lean`, part 4: statements and the
statement / block cycle.
-/
import WuffsVerif.Proof.ParseWfCore

namespace WuffsVerif.Parse
open WuffsVerif.Token WuffsVerif.Gen.C11

attribute [local irreducible] checkAssignLHS terminatesList typeInnermost stripArrays
  asSmallPositiveInt256 isChooseCPUArch validConstName containsDoubleUnderscore isStatusMessageTok

/-! ## line stamping (`parseStatement`) keeps well-formedness -/

theorem shallowOK_map_setLine (l k a : Nat) (x y z : Node) (p : List Node) :
    shallowOK k a x y z (p.map (Node.setLine l)) = shallowOK k a x y z p := by
  have : (iterAssignOK ∘ Node.setLine l) = iterAssignOK := funext (iterAssignOK_setLine l)
  simp [shallowOK, exprOK, this]

theorem wfN_setLine (l : Nat) (n : Node) (h : WfN n) : WfN (n.setLine l) := by
  simp_all [WfN, wf_setLine, isNil_setLine]

theorem wfN_setL0_map_setLine (l : Nat) (n : Node) (h : WfN n) :
    WfN (n.setL0 (n.l0.map (Node.setLine l))) := by
  cases n with
  | nil => simp [WfN] at h
  | mk k f a b c ln x y z p q r =>
    simp_all [WfN, Node.setL0, Node.l0, wf_mk, shallowOK_map_setLine, wfList_map_setLine]

/-! ## statements -/

theorem post_parseAssignNode' (env : Env) (pe : P Node) (hpe : Post pe WfN) :
    Post (parseAssignNode env pe) (fun n => WfN n ∧ n.kind = KAssign) := by
  unfold parseAssignNode
  post_auto
  all_goals simp [newAssign, Node.kind]

theorem post_parseAssignNode (env : Env) (pe : P Node) (hpe : Post pe WfN) :
    Post (parseAssignNode env pe) WfN :=
  post_mono (post_parseAssignNode' env pe hpe) (fun _ h => h.1)

/-- An `iterate` assignment has its left-hand side, a plain variable (the construct that made
the real parser dereference nil before the C11 repair). -/
theorem post_parseIterateAssignNode (env : Env) (pe : P Node) (hpe : Post pe WfN) :
    Post (parseIterateAssignNode env pe) (fun n => WfN n ∧ iterAssignOK n = true) := by
  have := post_parseAssignNode' env pe hpe
  unfold parseIterateAssignNode
  post_auto
  simp_all [iterAssignOK, KAssign]

theorem post_parseVarNode (env : Env) (pt : P Node) (hpt : Post pt WfN) :
    Post (parseVarNode env pt) WfN := by
  unfold parseVarNode
  post_auto

theorem post_parseChooseStmt (env : Env) : Post (parseChooseStmt env) WfN := by
  have hel : Post (do let id ← parseIdent env; pure (newExpr 0 0 id .nil .nil .nil [])) WfN := by
    post_auto
  unfold parseChooseStmt
  post_auto

theorem post_parseIOManipArg (name : Nat) (pe : P Node) (hpe : Post pe WfN) :
    Post (parseIOManipArg name pe) WfN := by
  unfold parseIOManipArg
  post_auto

macro_rules | `(tactic| post_leaf) => `(tactic| (apply post_parseIOManipArg; post_leaf))

theorem post_parseIOManipNode (x : Nat) (pe : P Node) (hpe : Post pe WfN) (pb : P (List Node))
    (hpb : Post pb (fun l => ∀ n ∈ l, WfN n)) : Post (parseIOManipNode x pe pb) WfN := by
  unfold parseIOManipNode
  post_auto

theorem post_parseRetNode (env : Env) (x : Nat) (pe : P Node) (hpe : Post pe WfN) :
    Post (parseRetNode env x pe) WfN := by
  unfold parseRetNode
  post_auto

theorem post_parseWhileNode (env : Env) (pe : P Node) (hpe : Post pe WfN)
    (pb : Bool → P (List Node)) (hpb : ∀ dc, Post (pb dc) (fun l => ∀ n ∈ l, WfN n)) :
    Post (parseWhileNode env pe pb) WfN := by
  unfold parseWhileNode
  post_auto

theorem post_parseIterateNode (env : Env) (pe : P Node) (hpe : Post pe WfN)
    (pi : Nat → List Node → P Node)
    (hpi : ∀ l a, (∀ n ∈ a, WfN n ∧ iterAssignOK n = true) → Post (pi l a) WfN) :
    Post (parseIterateNode env pe pi) WfN := by
  have := post_parseIterateAssignNode env pe hpe
  unfold parseIterateNode
  post_auto

theorem post_parseJump (env : Env) (x : Nat) : Post (parseJump env x) WfN := by
  unfold parseJump
  post_auto

theorem post_blockLoop (pStmt : P Node) (hst : Post pStmt WfN) (dc : Bool) :
    ∀ fuel acc, (∀ n ∈ acc, WfN n) →
      Post (blockLoop pStmt dc fuel acc) (fun l => ∀ n ∈ l, WfN n) := by
  intro fuel
  induction fuel with
  | zero => intro acc _; unfold blockLoop; exact post_throw _
  | succ fuel ih =>
    intro acc hacc
    unfold blockLoop
    post_auto
    all_goals grind

theorem post_blockAll (pStmt : P Node) (hst : Post pStmt WfN) (dc : Bool) :
    Post (blockAll pStmt dc) (fun l => ∀ n ∈ l, WfN n) := by
  unfold blockAll
  have := post_blockLoop pStmt hst dc
  post_auto

macro_rules | `(tactic| post_leaf) => `(tactic| (apply post_blockAll; post_leaf))
macro_rules | `(tactic| post_leaf) => `(tactic| exact post_parseJump _ _)
macro_rules | `(tactic| post_leaf) => `(tactic| (apply post_parseVarNode; post_leaf))
macro_rules | `(tactic| post_leaf) => `(tactic| (apply post_parseAssignNode; post_leaf))
macro_rules | `(tactic| post_leaf) => `(tactic| (apply post_parseRetNode; post_leaf))
macro_rules | `(tactic| post_leaf) => `(tactic| exact post_parseChooseStmt _)
macro_rules | `(tactic| post_leaf) => `(tactic| (apply post_parseIOManipNode <;> post_leaf))
macro_rules | `(tactic| post_leaf) => `(tactic| (apply post_parseWhileNode <;> first | post_leaf | (intro _; post_leaf)))
macro_rules | `(tactic| post_leaf) => `(tactic| (apply post_parseIterateNode <;> first | post_leaf | (intro _ _ _; post_leaf)))

/-- The five functions of the statement cycle return present, well-formed nodes (an `iterate`
block given well-formed `x = expr` assignments). -/
structure StmtWf (env : Env) (e t b : Nat) : Prop where
  block : ∀ dc, Post (pBlock env e t b dc) (fun l => ∀ n ∈ l, WfN n)
  pif : Post (pIf env e t b) WfN
  iterateBlock : ∀ label assigns, (∀ n ∈ assigns, WfN n ∧ iterAssignOK n = true) →
    Post (pIterateBlock env e t b label assigns) WfN
  statement1 : Post (pStatement1 env e t b) WfN
  statement : Post (pStatement env e t b) WfN

set_option maxRecDepth 16384 in
theorem stmtwf_step (env : Env) (e t b : Nat)
    (ih : ∀ b', b' < b → StmtWf env e t b') : StmtWf env e t b := by
  have hc := core_wf env _ e t b rfl
  have hE := hc.expr
  have hT := hc.typeExpr
  have hBlock : ∀ dc, Post (pBlock env e t b dc) (fun l => ∀ n ∈ l, WfN n) := by
    intro dc
    cases b with
    | zero => unfold pBlock; exact post_failHere
    | succ b' =>
      have h1 := (ih b' (by omega)).statement
      unfold pBlock
      post_auto
  have hIf : Post (pIf env e t b) WfN := by
    cases b with
    | zero => unfold pIf; post_auto
    | succ b' =>
      have h1 := (ih b' (by omega)).pif
      unfold pIf
      post_auto
  have hIter : ∀ label assigns, (∀ n ∈ assigns, WfN n ∧ iterAssignOK n = true) →
      Post (pIterateBlock env e t b label assigns) WfN := by
    intro label assigns hassigns
    cases b with
    | zero => unfold pIterateBlock; post_auto
    | succ b' =>
      have h1 := (ih b' (by omega)).iterateBlock
      unfold pIterateBlock
      post_auto
      all_goals (simp only [Node.setRhs]; wf_close)
  have hS1 : Post (pStatement1 env e t b) WfN := by
    unfold pStatement1
    post_auto
  have hS : Post (pStatement env e t b) WfN := by
    unfold pStatement
    post_auto
    all_goals first
      | exact wfN_setL0_map_setLine _ _ (wfN_setLine _ _ ‹_›)
      | exact wfN_setLine _ _ ‹_›
  exact ⟨hBlock, hIf, hIter, hS1, hS⟩

theorem stmt_wf (env : Env) (e t : Nat) : ∀ b, StmtWf env e t b := by
  intro b
  induction b using Nat.strongRecOn with
  | _ b ih => exact stmtwf_step env e t b ih

end WuffsVerif.Parse
