/-
Helper lemmas about `Model/Parse.lean`, part 2: the statement / block cycle
(`pBlock`, `pIf`, `pIterateBlock`, `pStatement1`, `pStatement`) never gets `stuck` and never
grows the token list.
-/
import WuffsVerif.Proof.ParseLemmas

namespace WuffsVerif.Parse
open WuffsVerif.Token WuffsVerif.Gen.C11

/-! ## statements -/

attribute [local irreducible] checkAssignLHS terminatesList typeInnermost stripArrays
  asSmallPositiveInt256 isChooseCPUArch validConstName containsDoubleUnderscore isStatusMessageTok

macro_rules | `(tactic| good_leaf) => `(tactic| exact (by assumption : ∀ dc, Good (pBlock _ _ _ _ dc)) _)
macro_rules | `(tactic| good_leaf) => `(tactic| exact (by assumption : ∀ l a, Good (pIterateBlock _ _ _ _ l a)) _ _)

theorem good_loopsPush (label : Nat) : Good (loopsPush label) := by
  unfold loopsPush; good_auto

theorem good_loopsPop : Good loopsPop := by
  unfold loopsPop; good_auto

theorem good_parseJump (env : Env) (x : Nat) : Good (parseJump env x) := by
  unfold parseJump; good_auto

set_option maxHeartbeats 3200000 in
theorem good_parseAssignNode (env : Env) (pe : P Node) (hpe : Good pe) :
    Good (parseAssignNode env pe) := by
  unfold parseAssignNode; good_auto

theorem good_parseIterateAssignNode (env : Env) (pe : P Node) (hpe : Good pe) :
    Good (parseIterateAssignNode env pe) := by
  have := good_parseAssignNode env pe hpe
  unfold parseIterateAssignNode; good_auto

theorem good_parseVarNode (env : Env) (pt : P Node) (hpt : Good pt) :
    Good (parseVarNode env pt) := by
  unfold parseVarNode; good_auto

set_option maxHeartbeats 3200000 in
theorem good_parseIterateHeader (env : Env) : Good (parseIterateHeader env) := by
  unfold parseIterateHeader; good_auto

macro_rules | `(tactic| good_leaf) => `(tactic| exact good_loopsPush _)
macro_rules | `(tactic| good_leaf) => `(tactic| exact good_loopsPop)
macro_rules | `(tactic| good_leaf) => `(tactic| exact good_parseJump _ _)
macro_rules | `(tactic| good_leaf) => `(tactic| apply good_parseAssignNode)
macro_rules | `(tactic| good_leaf) => `(tactic| apply good_parseIterateAssignNode)
macro_rules | `(tactic| good_leaf) => `(tactic| apply good_parseVarNode)
macro_rules | `(tactic| good_leaf) => `(tactic| exact good_parseIterateHeader _)

theorem good_parseChooseStmt (env : Env) : Good (parseChooseStmt env) := by
  unfold parseChooseStmt; good_auto

theorem good_parseIOManipArg (name : Nat) (pe : P Node) (hpe : Good pe) :
    Good (parseIOManipArg name pe) := by
  unfold parseIOManipArg
  apply good_bind (good1_expect IDComma (by decide)).good
  intro _
  apply good_bind
  · unfold expect; good_auto
  · good_auto

macro_rules | `(tactic| good_leaf) => `(tactic| apply good_parseIOManipArg)

set_option maxHeartbeats 1600000 in
theorem good_parseIOManipNode (x : Nat) (pe : P Node) (hpe : Good pe) (pb : P (List Node))
    (hpb : Good pb) : Good (parseIOManipNode x pe pb) := by
  unfold parseIOManipNode; good_auto

theorem good_parseRetNode (env : Env) (x : Nat) (pe : P Node) (hpe : Good pe) :
    Good (parseRetNode env x pe) := by
  unfold parseRetNode; good_auto

theorem good_parseEndLabel (label : Nat) : Good (parseEndLabel label) := by
  unfold parseEndLabel; good_auto

macro_rules | `(tactic| good_leaf) => `(tactic| exact good_parseEndLabel _)

set_option maxHeartbeats 1600000 in
theorem good_parseWhileNode (env : Env) (pe : P Node) (hpe : Good pe)
    (pb : Bool → P (List Node)) (hpb : ∀ dc, Good (pb dc)) : Good (parseWhileNode env pe pb) := by
  have hb1 := hpb true
  have hb2 := hpb false
  unfold parseWhileNode; good_auto
  all_goals exact hpb _

theorem good_parseIterateNode (env : Env) (pe : P Node) (hpe : Good pe)
    (pi : Nat → List Node → P Node) (hpi : ∀ l a, Good (pi l a)) :
    Good (parseIterateNode env pe pi) := by
  unfold parseIterateNode; good_auto
  all_goals exact hpi _ _

macro_rules | `(tactic| good_leaf) => `(tactic| exact good_parseChooseStmt _)
macro_rules | `(tactic| good_leaf) => `(tactic| apply good_parseIOManipNode)
macro_rules | `(tactic| good_leaf) => `(tactic| apply good_parseRetNode)
macro_rules | `(tactic| good_leaf) => `(tactic| (apply good_parseWhileNode; assumption; intro _))
macro_rules | `(tactic| good_leaf) => `(tactic| (apply good_parseIterateNode; assumption; intro _ _))

/-- The five functions of the statement cycle, at a given body-depth budget. -/
structure StmtGood (env : Env) (e t b : Nat) : Prop where
  block : ∀ dc, Good (pBlock env e t b dc)
  pif : Good (pIf env e t b)
  iterateBlock : ∀ label assigns, Good (pIterateBlock env e t b label assigns)
  statement1 : Good (pStatement1 env e t b)
  statement : Good (pStatement env e t b)

set_option maxHeartbeats 6400000 in
set_option maxRecDepth 16384 in
theorem stmt_step (env : Env) (e t b : Nat)
    (ih : ∀ b', b' < b → StmtGood env e t b') : StmtGood env e t b := by
  have hc := core_good env _ e t b rfl
  have hE := hc.expr
  have hT := hc.typeExpr
  have hBlock : ∀ dc, Good (pBlock env e t b dc) := by
    intro dc
    cases b with
    | zero => unfold pBlock; exact good1_failHere.good
    | succ b' =>
      have h1 := (ih b' (by omega)).statement
      unfold pBlock
      good_auto
  have hIf : Good (pIf env e t b) := by
    cases b with
    | zero => unfold pIf; good_auto
    | succ b' =>
      have h1 := (ih b' (by omega)).pif
      unfold pIf
      good_auto
  have hIter : ∀ label assigns, Good (pIterateBlock env e t b label assigns) := by
    intro label assigns
    cases b with
    | zero => unfold pIterateBlock; good_auto
    | succ b' =>
      have h1 := (ih b' (by omega)).iterateBlock
      unfold pIterateBlock
      good_auto
  have hS1 : Good (pStatement1 env e t b) := by
    unfold pStatement1
    good_auto
  have hS : Good (pStatement env e t b) := by
    unfold pStatement
    good_auto
  exact ⟨hBlock, hIf, hIter, hS1, hS⟩

theorem stmt_good (env : Env) (e t : Nat) : ∀ b, StmtGood env e t b := by
  intro b
  induction b using Nat.strongRecOn with
  | _ b ih => exact stmt_step env e t b ih

end WuffsVerif.Parse
