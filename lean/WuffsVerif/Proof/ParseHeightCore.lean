/-
Height of the ASTs built by `Model/Parse.lean`, part 2: the loops and the expression cycle.
Bounds, with `s = e + t + b` the sum of the remaining depth budgets and `LINK = 260`:
`pExpr`, `pTypeExpr`, `pPossibleList` ≤ `LINK * s`; `pOperand`, `pExpr1` ≤ `LINK * s + 257 / 258`.
-/
import WuffsVerif.Proof.ParseHeight

namespace WuffsVerif.Parse
open WuffsVerif.Token WuffsVerif.Gen.C11

def LINK : Nat := 260

theorem hpost_assocLoop (pOp : P Node) (k : Nat) (hop : Post pOp (fun n => height n ≤ k)) (x : Nat) :
    ∀ fuel acc, heightL acc ≤ k → Post (assocLoop pOp x fuel acc) (fun l => heightL l ≤ k) := by
  intro fuel
  induction fuel with
  | zero => intro acc _; unfold assocLoop; exact post_throw _
  | succ fuel ih =>
    intro acc hacc
    unfold assocLoop
    hpost_auto
    apply ih
    h_close

theorem hpost_assocAll (pOp : P Node) (k : Nat) (hop : Post pOp (fun n => height n ≤ k)) (x : Nat)
    (acc : List Node) (hacc : heightL acc ≤ k) :
    Post (assocAll pOp x acc) (fun l => heightL l ≤ k) := by
  unfold assocAll
  have := hpost_assocLoop pOp k hop x
  hpost_auto

/-- The postfix loop: after `cnt` links the operand is at most `k + 1 + cnt` high, where `k`
bounds the sub-expressions; the loop stops at `cnt = MaxExprDepth + 1`. -/
theorem hpost_operandLoop (env : Env) (pe : P Node) (k : Nat)
    (hpe : Post pe (fun n => height n ≤ k)) :
    ∀ fuel cnt first lhs, height lhs ≤ k + 1 + cnt →
      Post (operandLoop env pe fuel cnt first lhs) (fun n => height n ≤ k + 257) := by
  intro fuel
  induction fuel with
  | zero => intro _ _ _ _; unfold operandLoop; exact post_throw _
  | succ fuel ih =>
    intro cnt first lhs hlhs
    unfold operandLoop
    hpost_auto
    all_goals first
      | (apply ih; h_close)
      | (apply post_pure; simp only [MaxExprDepth] at *; h_close)

theorem hpost_operandAll (env : Env) (pe : P Node) (k : Nat)
    (hpe : Post pe (fun n => height n ≤ k)) (lhs : Node) (hlhs : height lhs ≤ k + 1) :
    Post (operandAll env pe lhs) (fun n => height n ≤ k + 257) := by
  unfold operandAll
  have := hpost_operandLoop env pe k hpe
  hpost_auto

macro_rules | `(tactic| hpost_leaf) => `(tactic| (apply hpost_operandAll <;> first | hpost_leaf | h_close))
macro_rules | `(tactic| hpost_leaf) => `(tactic| (apply hpost_assocAll <;> first | assumption | h_close))

/-- Height bounds of the five functions of the expression cycle. -/
structure CoreH (env : Env) (e t b : Nat) : Prop where
  expr : Post (pExpr env e t b) (fun n => height n ≤ LINK * (e + t + b))
  typeExpr : Post (pTypeExpr env e t b) (fun n => height n ≤ LINK * (e + t + b))
  possibleList : Post (pPossibleList env e t b) (fun n => height n ≤ LINK * (e + t + b))
  operand : Post (pOperand env e t b) (fun n => height n ≤ LINK * (e + t + b) + 257)
  expr1 : Post (pExpr1 env e t b) (fun n => height n ≤ LINK * (e + t + b) + 258)

set_option maxRecDepth 8192 in
theorem coreh_step (env : Env) (e t b : Nat)
    (ih : ∀ e' t' b', e' + t' + b' < e + t + b → CoreH env e' t' b') : CoreH env e t b := by
  have hExpr : Post (pExpr env e t b) (fun n => height n ≤ LINK * (e + t + b)) := by
    cases e with
    | zero => unfold pExpr; exact post_failHere
    | succ e' =>
      have h1 := (ih e' t b (by omega)).expr1
      unfold pExpr
      simp only [LINK] at *
      hpost_auto
  have hType : Post (pTypeExpr env e t b) (fun n => height n ≤ LINK * (e + t + b)) := by
    cases t with
    | zero => unfold pTypeExpr; exact post_failHere
    | succ t' =>
      have h1 := (ih e t' b (by omega)).typeExpr
      have h2 := (ih e t' b (by omega)).expr
      unfold pTypeExpr
      simp only [LINK] at *
      hpost_auto
      rename_i r h _
      obtain ⟨x, l, m⟩ := r
      apply post_pure
      h_close
  have hPoss : Post (pPossibleList env e t b) (fun n => height n ≤ LINK * (e + t + b)) := by
    cases e with
    | zero => unfold pPossibleList; hpost_auto
    | succ e' =>
      have h1 := (ih e' t b (by omega)).possibleList
      unfold pPossibleList
      simp only [LINK] at *
      hpost_auto
  have hOperand : Post (pOperand env e t b) (fun n => height n ≤ LINK * (e + t + b) + 257) := by
    cases e with
    | zero => unfold pOperand; simp only [LINK] at *; hpost_auto
    | succ e' =>
      have h1 := (ih e' t b (by omega)).operand
      unfold pOperand
      simp only [LINK] at *
      hpost_auto
  have hExpr1 : Post (pExpr1 env e t b) (fun n => height n ≤ LINK * (e + t + b) + 258) := by
    unfold pExpr1
    simp only [LINK] at *
    have hType' : Post (pTypeExpr env e t b) (fun n => height n ≤ 260 * (e + t + b) + 257) :=
      post_mono hType (fun _ h => by omega)
    clear hType
    hpost_auto
  exact ⟨hExpr, hType, hPoss, hOperand, hExpr1⟩

theorem core_h (env : Env) : ∀ n e t b, e + t + b = n → CoreH env e t b := by
  intro n
  induction n using Nat.strongRecOn with
  | _ n ih =>
    intro e t b h
    apply coreh_step
    intro e' t' b' hlt
    exact ih (e' + t' + b') (by omega) e' t' b' rfl

end WuffsVerif.Parse
