/-
C02 facts half: the run-time meaning of the flow statements (big-step, with the
non-determinism of what an impure callee / the caller across a suspension may do to
the store), and the two syntactic facts about it that `ast.Terminates` relies on.
-/
import WuffsVerif.Proof.FlowAssert

namespace WuffsVerif.Proof.Flow
open WuffsVerif.Interval WuffsVerif.WCore WuffsVerif.WFlow
open WuffsVerif.Proof.WCoreBounds WuffsVerif.Proof.WCoreStmt

/-- how the execution of a statement ends -/
inductive Out where
  | norm (env : Env)
  | brk (k : Nat) (env : Env)
  | cont (k : Nat) (env : Env)
  | ret (env : Env)

def Out.isNorm : Out → Bool
  | .norm _ => true
  | _ => false

/-- the body's outcome lets the loop go round again, from this store -/
def Out.next : Out → Option Env
  | .norm e => some e
  | .cont 0 e => some e
  | _ => none

/-- the body's outcome leaves the loop, with this outcome of the `while` statement -/
def Out.leave : Out → Option Out
  | .brk 0 e => some (.norm e)
  | .brk (k + 1) e => some (.brk k e)
  | .cont (k + 1) e => some (.cont k e)
  | .ret e => some (.ret e)
  | _ => none

/--
Big-step semantics.  `call`: the callee may store anything (of the declared types)
into the fields of `this`, nothing else (scalar arguments are passed by value).
`yield` / `cocall`: across a suspension the caller may change every argument and
(through other calls) every field; locals are preserved (doc/note/coroutines.md).
`callAssign`: as `call`, then the target variable receives any value of the callee's
declared result type.  Assertions have no run-time effect.  `Γ`: the declared types.
-/
inductive Exec (Γ : Ctx) : Env → FStmt → Out → Prop
  | skip {env} : Exec Γ env .skip (.norm env)
  | seqN {env env1 a b o} : Exec Γ env a (.norm env1) → Exec Γ env1 b o → Exec Γ env (.seq a b) o
  | seqX {env a b o} : Exec Γ env a o → o.isNorm = false → Exec Γ env (.seq a b) o
  | base {env s} : Exec Γ env (.base s) (.norm (execStmt env s))
  | assert {env c r} : Exec Γ env (.assert c r) (.norm env)
  | iteT {env c t e o} : evalI env c ≠ 0 → Exec Γ env t o → Exec Γ env (.ite c t e) o
  | iteF {env c t e o} : evalI env c = 0 → Exec Γ env e o → Exec Γ env (.ite c t e) o
  | whileExit {env sp c body} : evalI env c = 0 → Exec Γ env (.while sp c body) (.norm env)
  | whileIter {env env1 sp c body ob o} : evalI env c ≠ 0 → Exec Γ env body ob → ob.next = some env1 →
      Exec Γ env1 (.while sp c body) o → Exec Γ env (.while sp c body) o
  | whileLeave {env sp c body ob o} : evalI env c ≠ 0 → Exec Γ env body ob → ob.leave = some o →
      Exec Γ env (.while sp c body) o
  | jumpB {env k} : Exec Γ env (.jump true k) (.brk k env)
  | jumpC {env k} : Exec Γ env (.jump false k) (.cont k env)
  | call {env env' args} : Havoc isThisName Γ env env' → Exec Γ env (.call args) (.norm env')
  | callAssign {env env' n t retTy args v} : Havoc isThisName Γ env env' → inType retTy v →
      Exec Γ env (.callAssign (.var n t) retTy args) (.norm (upd env' n v))
  | yield {env env'} : Havoc isSuspName Γ env env' → Exec Γ env .yield (.norm env')
  | cocall {env env' args} : Havoc isSuspName Γ env env' → Exec Γ env (.cocall args) (.norm env')
  | ret {env e} : Exec Γ env (.ret e) (.ret env)

theorem next_cases {ob : Out} {env1 : Env} (h : ob.next = some env1) :
    ob = .norm env1 ∨ ob = .cont 0 env1 := by
  cases ob with
  | norm e => simp only [Out.next, Option.some.injEq] at h; subst h; exact Or.inl rfl
  | cont k e =>
    cases k with
    | zero => simp only [Out.next, Option.some.injEq] at h; subst h; exact Or.inr rfl
    | succ k => simp [Out.next] at h
  | brk k e => simp [Out.next] at h
  | ret e => simp [Out.next] at h

theorem leave_cases {ob o : Out} (h : ob.leave = some o) :
    (∃ e, ob = .brk 0 e ∧ o = .norm e) ∨ (∃ k e, ob = .brk (k + 1) e ∧ o = .brk k e) ∨
    (∃ k e, ob = .cont (k + 1) e ∧ o = .cont k e) ∨ (∃ e, ob = .ret e ∧ o = .ret e) := by
  cases ob with
  | norm e => simp [Out.leave] at h
  | brk k e =>
    cases k with
    | zero => simp only [Out.leave, Option.some.injEq] at h; exact Or.inl ⟨e, rfl, h.symm⟩
    | succ k => simp only [Out.leave, Option.some.injEq] at h; exact Or.inr (Or.inl ⟨k, e, rfl, h.symm⟩)
  | cont k e =>
    cases k with
    | zero => simp [Out.leave] at h
    | succ k =>
      simp only [Out.leave, Option.some.injEq] at h
      exact Or.inr (Or.inr (Or.inl ⟨k, e, rfl, h.symm⟩))
  | ret e =>
    simp only [Out.leave, Option.some.injEq] at h
    exact Or.inr (Or.inr (Or.inr ⟨e, rfl, h.symm⟩))

/-- a statement can only end in `break k` if it contains such a break (`HasBreak`) -/
theorem hasBreak_of_exec {Γ : Ctx} {env : Env} {s : FStmt} {o : Out} (h : Exec Γ env s o) :
    ∀ k env1, o = .brk k env1 → hasBreak k s = true := by
  induction h with
  | skip => intro k env1 ho; cases ho
  | seqN _ _ _ ihb =>
    intro k env1 ho
    simp only [hasBreak, Bool.or_eq_true]
    exact Or.inr (ihb k env1 ho)
  | seqX _ _ iha =>
    intro k env1 ho
    simp only [hasBreak, Bool.or_eq_true]
    exact Or.inl (iha k env1 ho)
  | base => intro k env1 ho; cases ho
  | assert => intro k env1 ho; cases ho
  | iteT _ _ ih =>
    intro k env1 ho
    simp only [hasBreak, Bool.or_eq_true]
    exact Or.inl (ih k env1 ho)
  | iteF _ _ ih =>
    intro k env1 ho
    simp only [hasBreak, Bool.or_eq_true]
    exact Or.inr (ih k env1 ho)
  | whileExit => intro k env1 ho; cases ho
  | whileIter _ _ _ _ _ ihw =>
    intro k env1 ho
    exact ihw k env1 ho
  | whileLeave _ _ hl ihb =>
    intro k env1 ho
    subst ho
    rcases leave_cases hl with ⟨e, _, h2⟩ | ⟨k', e, h1, h2⟩ | ⟨k', e, _, h2⟩ | ⟨e, _, h2⟩
    · cases h2
    · cases h2
      simp only [hasBreak]
      exact ihb (k + 1) env1 h1
    · cases h2
    · cases h2
  | jumpB => intro k env1 ho; cases ho; simp [hasBreak]
  | jumpC => intro k env1 ho; cases ho
  | call => intro k env1 ho; cases ho
  | callAssign => intro k env1 ho; cases ho
  | yield => intro k env1 ho; cases ho
  | cocall => intro k env1 ho; cases ho
  | ret => intro k env1 ho; cases ho

/-- `ast.Terminates` is right: a statement for which it answers true never completes
normally (so the checker may leave its branch out of the reconciliation, and need not
prove the loop conditions at the end of such a loop body) -/
theorem terminates_no_norm {Γ : Ctx} {env : Env} {s : FStmt} {o : Out} (h : Exec Γ env s o) :
    ∀ env1, o = .norm env1 → terminates s = true → False := by
  induction h with
  | skip => intro env1 _ ht; simp [terminates] at ht
  | @seqN env env1' a b o _ _ iha ihb =>
    intro env1 ho ht
    simp only [terminates] at ht
    split at ht
    · exact iha env1' rfl ht
    · exact ihb env1 ho ht
  | seqX _ hn _ =>
    intro env1 ho _
    subst ho
    simp [Out.isNorm] at hn
  | base => intro env1 _ ht; simp [terminates] at ht
  | assert => intro env1 _ ht; simp [terminates] at ht
  | iteT _ _ ih =>
    intro env1 ho ht
    simp only [terminates, Bool.and_eq_true] at ht
    exact ih env1 ho ht.1.1
  | iteF _ _ ih =>
    intro env1 ho ht
    simp only [terminates, Bool.and_eq_true] at ht
    exact ih env1 ho ht.2
  | @whileExit env sp c body hc =>
    intro env1 _ ht
    simp only [terminates, Bool.and_eq_true, beq_iff_eq] at ht
    rw [ht.1] at hc
    simp [evalI] at hc
  | whileIter _ _ _ _ _ ihw =>
    intro env1 ho ht
    exact ihw env1 ho ht
  | whileLeave _ hb hl _ =>
    intro env1 ho ht
    subst ho
    simp only [terminates, Bool.and_eq_true, Bool.not_eq_true'] at ht
    rcases leave_cases hl with ⟨e, h1, _⟩ | ⟨k', e, _, h2⟩ | ⟨k', e, _, h2⟩ | ⟨e, _, h2⟩
    · have := hasBreak_of_exec hb 0 e h1
      rw [ht.2] at this
      cases this
    · cases h2
    · cases h2
    · cases h2
  | jumpB => intro env1 ho; cases ho
  | jumpC => intro env1 ho; cases ho
  | call => intro env1 _ ht; simp [terminates] at ht
  | callAssign => intro env1 _ ht; simp [terminates] at ht
  | yield => intro env1 _ ht; simp [terminates] at ht
  | cocall => intro env1 _ ht; simp [terminates] at ht
  | ret => intro env1 ho; cases ho

end WuffsVerif.Proof.Flow
