/-
C14 helper: the data-level model of the concurrent reader (Model/Rac/ConcData.lean) never
deadlocks.  Part 1: the "shape" invariant (number of Workers, owners of the results, the
Manager's request is only held while it is sending) and the handshake phases.
-/
import WuffsVerif.Proof.RacConcDataAll

set_option linter.unusedVariables false
set_option linter.unusedSimpArgs false

namespace WuffsVerif.Rac.ConcD
open WuffsVerif.Rac WuffsVerif.Rac.Conc

structure SInv (n : Nat) (s : DSt) : Prop where
  len : s.ws.length = n
  own : ∀ it, (it ∈ s.resc ∨ it ∈ s.completed ∨ s.curr = some it) → ∃ i, it.it.owner = some i ∧ i < s.ws.length
  mw : s.mgr.m.work ≠ none → s.mgr.m.inputOn = false

theorem recycleAllD_length (s : DSt) : (recycleAllD s).length = s.ws.length := by
  simp [recycleAllD]

theorem sinv_step {F : File} {n : Nat} {s s' : DSt} (l : DLabel) (hC : CInv (abs s)) (hS : SInv n s)
    (h : stepD F s l = some s') : SInv n s' := by
  obtain ⟨s1, s2, s3⟩ := hS
  unfold stepD at h
  split at h
  · cases h
  · cases l with
    | call op =>
      obtain ⟨a1, a2, a3, a4, a5, a6, a7⟩ := callD_fields op h
      exact ⟨by rw [a3]; exact s1, by rw [a1, a2, a3, a4]; exact s2, by rw [a6]; exact s3⟩
    | stopMgr =>
      simp only at h
      split at h
      · split at h
        · cases h; exact ⟨s1, s2, s3⟩
        · cases h
      · cases h
    | stopW i =>
      simp only at h
      split at h
      · split at h
        · cases h
          exact ⟨by simp only [List.length_set]; exact s1, by simp only [List.length_set]; exact s2, s3⟩
        · cases h
      · cases h
    | recycle =>
      simp only at h
      split at h
      · split at h
        · split at h
          · cases h
            refine ⟨by simp only [recycleAllD_length]; exact s1, fun it hit => ?_, s3⟩
            rcases hit with hit | hit | hit <;> cases hit
          · cases h; exact ⟨s1, s2, s3⟩
        · cases h
      · cases h
    | ackMgr =>
      simp only at h
      split at h
      · next k kk keep hm hpc =>
        split at h
        · cases h
          refine ⟨s1, s2, ?_⟩
          cases keep with
          | true => intro hw; simp [M.resume] at hw
          | false => exact s3
        · cases h
      · cases h
    | ackW i =>
      simp only at h
      split at h
      · split at h
        · split at h
          · cases h
            exact ⟨by simp only [List.length_set]; exact s1, by simp only [List.length_set]; exact s2, s3⟩
          · cases h
        · cases h
      · cases h
    | ackDone =>
      simp only at h
      split at h
      · split at h
        · split at h
          · cases h; exact ⟨s1, s2, s3⟩
          · split at h
            · cases h; exact ⟨s1, s2, s3⟩
            · cases h; exact ⟨s1, s2, s3⟩
        · cases h
      · cases h
    | roi =>
      simp only at h
      split at h
      · cases h; exact ⟨s1, s2, fun _ => rfl⟩
      · cases h
    | mgrMake =>
      simp only at h
      split at h
      · split at h
        · next hg =>
          split at h
          · cases h; exact ⟨s1, s2, fun hw => absurd hg.2.2 hw⟩
          · split at h
            · cases h; exact ⟨s1, s2, s3⟩
            · split at h
              · cases h; exact ⟨s1, s2, fun hw => absurd hg.2.2 hw⟩
              · split at h
                · cases h; exact ⟨s1, s2, fun _ => hg.2.1⟩
                · cases h; exact ⟨s1, s2, s3⟩
        · cases h
      · cases h
    | mgrSend =>
      simp only at h
      split at h
      · split at h
        · cases h; exact ⟨s1, s2, fun hw => by simp at hw⟩
        · cases h
      · cases h
    | wRecv i =>
      simp only at h
      split at h
      · split at h
        · split at h
          · cases h; exact ⟨s1, s2, s3⟩
          · split at h
            · cases h
              exact ⟨by simp only [List.length_set]; exact s1, by simp only [List.length_set]; exact s2, s3⟩
            · cases h; exact ⟨s1, s2, s3⟩
        · cases h
      · cases h
    | wMake i =>
      simp only at h
      split at h
      · split at h
        · split at h
          · split at h
            · cases h
              exact ⟨by simp only [List.length_set]; exact s1, by simp only [List.length_set]; exact s2, s3⟩
            · cases h; exact ⟨s1, s2, s3⟩
          · cases h
        · cases h
      · cases h
    | wSend i =>
      simp only at h
      split at h
      · next w hi =>
        split at h
        · next it hout =>
          split at h
          · cases h
            have hown := ((hC.ep_w i w.w (abs_ws_get hi)).1 it hout).2
            have hlt : i < s.ws.length := by
              by_cases hlt : i < s.ws.length
              · exact hlt
              · rw [List.getElem?_eq_none (by omega)] at hi; cases hi
            refine ⟨by simp only [List.length_set]; exact s1, fun x hx => ?_, s3⟩
            simp only [List.length_set]
            rcases hx with hx | hx | hx
            · rcases List.mem_append.mp hx with hx | hx
              · exact s2 x (Or.inl hx)
              · simp only [List.mem_singleton] at hx
                subst hx
                exact ⟨i, hown, hlt⟩
            · exact s2 x (Or.inr (Or.inl hx))
            · exact s2 x (Or.inr (Or.inr hx))
          · cases h
        · cases h
      · cases h
    | wRecycle i =>
      simp only at h
      split at h
      · split at h
        · cases h
          exact ⟨by simp only [List.length_set]; exact s1, by simp only [List.length_set]; exact s2, s3⟩
        · cases h
      · cases h
    | recvRes =>
      simp only at h
      split at h
      · next it rest hq =>
        split at h
        · split at h
          · cases h
            refine ⟨s1, fun x hx => ?_, s3⟩
            rcases hx with hx | hx | hx
            · exact s2 x (Or.inl (by rw [hq]; exact List.mem_cons_of_mem _ hx))
            · rcases List.mem_cons.mp hx with hx | hx
              · subst hx; exact s2 _ (Or.inl (by rw [hq]; simp))
              · exact s2 x (Or.inr (Or.inl hx))
            · exact s2 x (Or.inr (Or.inr hx))
          · cases h; exact ⟨s1, s2, s3⟩
        · cases h
      · cases h
    | take j =>
      simp only at h
      split at h
      · next it hj =>
        split at h
        · cases h
          refine ⟨s1, fun x hx => ?_, s3⟩
          rcases hx with hx | hx | hx
          · exact s2 x (Or.inl hx)
          · exact s2 x (Or.inr (Or.inl (List.mem_of_mem_eraseIdx hx)))
          · simp only [Option.some.injEq] at hx
            subst hx
            exact s2 _ (Or.inr (Or.inl (List.mem_of_getElem? hj)))
        · cases h
      · cases h
    | recycleCurr =>
      simp only at h
      split at h
      · split at h
        · split at h
          · split at h
            · cases h
              refine ⟨by simp only [List.length_set]; exact s1, fun x hx => ?_, s3⟩
              simp only [List.length_set]
              rcases hx with hx | hx | hx
              · exact s2 x (Or.inl hx)
              · exact s2 x (Or.inr (Or.inl hx))
              · cases hx
            · cases h
          · cases h
        · cases h
      · cases h
    | copy =>
      simp only at h
      split at h
      · split at h
        · cases h; exact ⟨s1, s2, s3⟩
        · cases h
      · cases h
    | readDone =>
      simp only at h
      split at h
      · split at h
        · cases h; exact ⟨s1, s2, s3⟩
        · cases h; exact ⟨s1, s2, s3⟩
      · cases h

theorem sinv_init (F : File) (n : Nat) : SInv n (DSt.init F n) :=
  ⟨by simp [DSt.init], fun it h => (by rcases h with h | h | h <;> cases h), fun h => (by simp [DSt.init] at h)⟩

theorem execD_sinv {F : File} {n : Nat} : ∀ (ls : List DLabel) (s s' : DSt), CInv (abs s) → SInv n s →
    execD F s ls = some s' → SInv n s'
  | [], s, s', hC, hS, h => by simp only [execD] at h; cases h; exact hS
  | l :: ls, s, s', hC, hS, h => by
    simp only [execD] at h
    split at h
    · next s1 h1 => exact execD_sinv ls s1 s' (cinv_of_sim (sim_step l h1) hC) (sinv_step l hC hS h1) h
    · cases h

theorem reachD_sinv {F : File} {n : Nat} {s : DSt} (h : ReachD F n s) : SInv n s := by
  obtain ⟨ls, hls⟩ := h
  exact execD_sinv ls _ _ (by rw [abs_init]; exact CInv.init n) (sinv_init F n) hls

end WuffsVerif.Rac.ConcD
