/-
C12, the Wuffs formatter: the text `Render` writes for a numeric literal (`numOut`: `appendNum`'s
re-grouping, or the literal itself when the re-grouped text would not tokenize again) is again
a well-formed numeric literal text, has the same value, and re-grouping it changes nothing.
Core Lean only.
-/
import WuffsVerif.Proof.RenderWf
import WuffsVerif.Proof.RenderNum

namespace WuffsVerif.Render
open WuffsVerif.FmtToken WuffsVerif.Gen.C12

/-- what `Render` writes for a numeric literal text -/
def numOut (s : Bytes) : Bytes :=
  let g := appendNum s
  if numNotRetokenizable g then s else g

theorem tokText_cond : ∀ c : UInt8, (decide (c < 48) || decide (57 < c)) = !numeric c := by
  apply byte_forall; decide +kernel

theorem numeric_numUnd : ∀ c : UInt8, numeric c = true → numericUnderscore c = true := by
  apply byte_forall; decide +kernel

theorem numUnd_not_prefix : ∀ p : UInt8, numericUnderscore p = true →
    (p == 120 || p == 88) = false ∧ (p == 98 || p == 66) = false := by
  apply byte_forall; decide +kernel

theorem tokText_numeric (t : Tok) (c : UInt8) (σ : Bytes) (h : t.text = c :: σ) (hc : numeric c = true) :
    tokText t = numOut t.text := by
  have : (decide (c < 48) || decide (57 < c)) = false := by rw [tokText_cond, hc]; rfl
  unfold tokText numOut
  rw [h]
  simp only [this, Bool.false_eq_true, ↓reduceIte]

theorem tokText_not_numeric (t : Tok) (c : UInt8) (σ : Bytes) (h : t.text = c :: σ) (hc : numeric c = false) :
    tokText t = t.text := by
  have : (decide (c < 48) || decide (57 < c)) = true := by rw [tokText_cond, hc]; rfl
  unfold tokText
  rw [h]
  simp only [this, ↓reduceIte]

/-! ### `groupDigits` keeps the digit class and the underscore discipline -/

theorem upcase_classes : ∀ c : UInt8, (c == 95) = false →
    (hexaNumericUnderscore c = true → hexaNumericUnderscore (upcase c) = true ∧ (upcase c == 95) = false) ∧
    (zeroOneUnderscore c = true → upcase c = c) ∧
    (numericUnderscore c = true → upcase c = c) := by
  apply byte_forall; decide +kernel

theorem groupDigits_eq (g : Nat) (d : Nat) (c : UInt8) (cs : Bytes) :
    groupDigits g d (c :: cs) =
      if c == USCORE then groupDigits g d cs
      else if d > 0 then upcase c :: groupDigits g (d - 1) cs
      else USCORE :: upcase c :: groupDigits g (g - 1) cs := by
  rw [groupDigits]
  rfl

/-- every byte of the output is an underscore or the upper-cased image of an input digit -/
theorem groupDigits_all (Q : UInt8 → Bool) (hQ : Q 95 = true) (g : Nat) :
    ∀ (s : Bytes) (d : Nat), (∀ x ∈ s, (x == 95) = false → Q (upcase x) = true) →
      ∀ y ∈ groupDigits g d s, Q y = true := by
  intro s
  induction s with
  | nil => intro d _ y hy; simp [groupDigits] at hy
  | cons c cs ih =>
    intro d hs y hy
    have hcs : ∀ x ∈ cs, (x == 95) = false → Q (upcase x) = true := fun x hx => hs x (by simp [hx])
    rw [groupDigits_eq] at hy
    by_cases hu : (c == USCORE) = true
    · simp only [hu, ↓reduceIte] at hy
      exact ih d hcs y hy
    · have hu' : (c == 95) = false := by simpa [USCORE] using hu
      simp only [hu, Bool.false_eq_true, ↓reduceIte] at hy
      have hc := hs c (by simp) hu'
      split at hy
      · rcases List.mem_cons.mp hy with rfl | hy
        · exact hc
        · exact ih _ hcs y hy
      · rcases List.mem_cons.mp hy with rfl | hy
        · exact hQ
        · rcases List.mem_cons.mp hy with rfl | hy
          · exact hc
          · exact ih _ hcs y hy

/-- the output never starts with, ends with, or doubles an underscore -/
theorem groupDigits_underscores (g : Nat) :
    ∀ (s : Bytes) (d : Nat), (∀ x ∈ s, (x == 95) = false → (upcase x == 95) = false) →
      checkNumericUnderscores.go false (groupDigits g d s) = true := by
  intro s
  induction s with
  | nil => intro d _; simp [groupDigits, checkNumericUnderscores.go]
  | cons c cs ih =>
    intro d hs
    have hcs : ∀ x ∈ cs, (x == 95) = false → (upcase x == 95) = false := fun x hx => hs x (by simp [hx])
    rw [groupDigits_eq]
    by_cases hu : (c == USCORE) = true
    · simp only [hu, ↓reduceIte]
      exact ih d hcs
    · have hu' : (c == 95) = false := by simpa [USCORE] using hu
      have hc := hs c (by simp) hu'
      simp only [hu, Bool.false_eq_true, ↓reduceIte]
      split
      · rw [checkNumericUnderscores.go]
        simp only [Bool.false_and, Bool.false_eq_true, ↓reduceIte, hc]
        exact ih _ hcs
      · rw [checkNumericUnderscores.go]
        simp only [Bool.false_and, Bool.false_eq_true, ↓reduceIte, USCORE, beq_self_eq_true]
        rw [checkNumericUnderscores.go]
        simp only [Bool.true_and, hc, Bool.false_eq_true, ↓reduceIte]
        exact ih _ hcs

/-- the first output byte is the first input byte when that is a decimal digit -/
theorem groupBody_cons_numeric (g : Nat) (hg : g > 0) (c : UInt8) (σ : Bytes) (hc : numeric c = true) :
    ∃ d, groupBody g (c :: σ) = c :: groupDigits g d σ := by
  obtain ⟨_, _, _, _, h95⟩ := numeric_facts c hc
  have hup : upcase c = c := (upcase_classes c h95).2.2 (numeric_numUnd c hc)
  unfold groupBody
  simp only
  rw [groupDigits_eq]
  have hu : (c == USCORE) = false := by simpa [USCORE] using h95
  simp only [hu, Bool.false_eq_true, ↓reduceIte, hup]
  have hd : (if (nonUnderscores (c :: σ) % g == 0) = true then g else nonUnderscores (c :: σ) % g) > 0 := by
    split
    · exact hg
    · rename_i h
      have : nonUnderscores (c :: σ) % g ≠ 0 := by simpa using h
      omega
  simp only [hd, ↓reduceIte]
  exact ⟨_, rfl⟩

/-! ### `numOut` of a well-formed literal text is well-formed -/

theorem checkNU_cons (c : UInt8) (s : Bytes) (h : (c == 95) = false) :
    checkNumericUnderscores (c :: s) = checkNumericUnderscores.go false s := by
  unfold checkNumericUnderscores
  rw [checkNumericUnderscores.go]
  simp [h]

theorem wfNumText_numOut (s : Bytes) (h : wfNumText s = true) : wfNumText (numOut s) = true := by
  unfold numOut
  simp only
  split
  · exact h
  · rename_i hnr
    have hnr' : numNotRetokenizable (appendNum s) = false := by simpa using hnr
    unfold numNotRetokenizable at hnr'
    rw [Bool.or_eq_false_iff] at hnr'
    obtain ⟨hlen, hoct⟩ := hnr'
    have hlen' : (appendNum s).length ≤ maxTokenSize := by simpa using hlen
    cases s with
    | nil => simp [wfNumText] at h
    | cons c σ =>
      obtain ⟨_, _, hc, hcls⟩ := wfNumText_cons h
      obtain ⟨_, _, _, _, h95⟩ := numeric_facts c hc
      -- the three classes
      have hdec : ∀ (hσ : σ.all numericUnderscore = true)
          (happ : appendNum (c :: σ) = groupBody 6 (c :: σ)), wfNumText (appendNum (c :: σ)) = true := by
        intro hσ happ
        rw [happ] at hlen' hoct ⊢
        obtain ⟨d, hd⟩ := groupBody_cons_numeric 6 (by decide) c σ hc
        rw [hd] at hlen' hoct ⊢
        have hall : ∀ y ∈ groupDigits 6 d σ, numericUnderscore y = true :=
          groupDigits_all numericUnderscore (by decide) 6 σ d (fun x hx hx95 => by
            have hx' := List.all_eq_true.mp hσ x hx
            rw [((upcase_classes x hx95).2.2 hx')]; exact hx')
        have hund : checkNumericUnderscores.go false (groupDigits 6 d σ) = true :=
          groupDigits_underscores 6 σ d (fun x hx hx95 => by
            have hx' := List.all_eq_true.mp hσ x hx
            rw [((upcase_classes x hx95).2.2 hx')]; exact hx95)
        unfold wfNumText
        simp only [hlen', decide_true, Bool.true_and, checkNU_cons c _ h95, hund, hc]
        unfold numCls
        cases hgd : groupDigits 6 d σ with
        | nil => rfl
        | cons p body =>
          rw [hgd] at hall hoct
          have hp : numericUnderscore p = true := hall p (by simp)
          have hpx := numUnd_not_prefix p hp
          simp only [hpx.1, hpx.2, Bool.and_false, Bool.false_eq_true, ↓reduceIte]
          have h3 : (c == 48 && numeric p) = false := by
            cases hc48 : (c == 48) with
            | false => rfl
            | true =>
              have : c = 48 := by simpa using hc48
              subst this
              simp only at hoct
              simpa [numeric] using hoct
          simp only [h3, Bool.false_eq_true, ↓reduceIte]
          exact List.all_eq_true.mpr hall
      have hpre : ∀ (p : UInt8) (body : Bytes) (Q : UInt8 → Bool) (hQ : Q 95 = true) (p' : UInt8)
          (hσ : σ = p :: body) (hc48 : c = 48) (hbody : body.all Q = true)
          (hQup : ∀ x, (x == 95) = false → Q x = true → Q (upcase x) = true ∧ (upcase x == 95) = false)
          (happ : appendNum (c :: σ) = 48 :: p' :: groupBody 4 body)
          (hcls' : numCls 48 (p' :: groupBody 4 body) = (groupBody 4 body).all Q)
          (hp' : (p' == 95) = false),
          wfNumText (appendNum (c :: σ)) = true := by
        intro p body Q hQ p' hσ hc48 hbody hQup happ hcls' hp'
        rw [happ] at hlen' ⊢
        have hall : ∀ y ∈ groupBody 4 body, Q y = true :=
          groupDigits_all Q hQ 4 body _ (fun x hx hx95 =>
            (hQup x hx95 (List.all_eq_true.mp hbody x hx)).1)
        have hund : checkNumericUnderscores.go false (groupBody 4 body) = true :=
          groupDigits_underscores 4 body _ (fun x hx hx95 =>
            (hQup x hx95 (List.all_eq_true.mp hbody x hx)).2)
        unfold wfNumText
        simp only [hlen', decide_true, Bool.true_and, checkNU_cons 48 _ (by decide : ((48 : UInt8) == 95) = false),
          checkNumericUnderscores.go, Bool.false_and, Bool.false_eq_true, ↓reduceIte, hp', hund,
          show numeric 48 = true from by decide, hcls']
        exact List.all_eq_true.mpr hall
      cases σ with
      | nil =>
        exact hdec (by simp) (by simp [appendNum])
      | cons p body =>
        unfold numCls at hcls
        simp only at hcls
        by_cases c1 : (c == 48 && (p == 120 || p == 88)) = true
        · simp only [c1, ↓reduceIte] at hcls
          rw [Bool.and_eq_true] at c1
          have hc48 : c = 48 := by simpa using c1.1
          subst hc48
          refine hpre p body hexaNumericUnderscore (by decide) 120 rfl rfl hcls
            (fun x hx95 hx => (upcase_classes x hx95).1 hx) ?_ ?_ (by decide)
          · unfold appendNum
            have : (p == 88 || p == 120) = true := by
              rcases Bool.or_eq_true_iff.mp c1.2 with h | h <;> simp [h]
            simp only [this, ↓reduceIte]
          · unfold numCls; simp
        · simp only [c1, Bool.false_eq_true, ↓reduceIte] at hcls
          by_cases c2 : (c == 48 && (p == 98 || p == 66)) = true
          · simp only [c2, ↓reduceIte] at hcls
            rw [Bool.and_eq_true] at c2
            have hc48 : c = 48 := by simpa using c2.1
            subst hc48
            have c1' : (p == 88 || p == 120) = false := by
              cases hx : (p == 88 || p == 120) with
              | false => rfl
              | true =>
                exfalso; apply c1
                rcases Bool.or_eq_true_iff.mp hx with h | h <;> simp [h]
            refine hpre p body zeroOneUnderscore (by decide) 98 rfl rfl hcls
              (fun x hx95 hx => by
                rw [(upcase_classes x hx95).2.1 hx]; exact ⟨hx, hx95⟩) ?_ ?_ (by decide)
            · unfold appendNum
              have : (p == 66 || p == 98) = true := by
                rcases Bool.or_eq_true_iff.mp c2.2 with h | h <;> simp [h]
              simp only [c1', Bool.false_eq_true, ↓reduceIte, this]
            · unfold numCls; simp
          · simp only [c2, Bool.false_eq_true, ↓reduceIte] at hcls
            by_cases c3 : (c == 48 && numeric p) = true
            · simp [c3] at hcls
            · simp only [c3, Bool.false_eq_true, ↓reduceIte] at hcls
              refine hdec hcls ?_
              unfold appendNum
              split
              · rename_i p2 rest2 heq
                simp only [List.cons.injEq] at heq
                obtain ⟨hc48, rfl, rfl⟩ := heq
                subst hc48
                have c1' : (p == 88 || p == 120) = false := by
                  cases hx : (p == 88 || p == 120) with
                  | false => rfl
                  | true =>
                    exfalso; apply c1
                    rcases Bool.or_eq_true_iff.mp hx with h | h <;> simp [h]
                have c2' : (p == 66 || p == 98) = false := by
                  cases hx : (p == 66 || p == 98) with
                  | false => rfl
                  | true =>
                    exfalso; apply c2
                    rcases Bool.or_eq_true_iff.mp hx with h | h <;> simp [h]
                simp only [c1', c2', Bool.false_eq_true, ↓reduceIte]
              · rfl

end WuffsVerif.Render
