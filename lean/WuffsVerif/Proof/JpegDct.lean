/-
C18 helper lemmas for the DCT clause: per-coefficient sign-matched extremes of the forward DCT.
-/
import WuffsVerif.Model.Jpeg.Dct
import WuffsVerif.Model.Jpeg.Encoder

open WuffsVerif.Gen.C18 WuffsVerif.Jpeg WuffsVerif.Jpeg.Dct

namespace WuffsVerif.Jpeg.DctP

theorem getD_toList {α : Type} (a : Array α) (i : Nat) (d : α) : a.getD i d = a.toList.getD i d := by
  simp [Array.getD, List.getD]
  split <;> simp_all

/-- list versions (cheap to evaluate in the kernel) -/
def cosAtL (x u : Nat) : Int := cosines.toList.getD (((2 * x + 1) * u) % 32) 0
def c32L (u v i : Nat) : Int := cosAtL (i % 8) u * cosAtL (i / 8) v

theorem c32_eq (u v i : Nat) : c32 u v i = c32L u v i := by
  simp only [c32, c32L, cosAt, cosAtL, getD_toList]

/-- the largest / smallest value of `x * c` for `-128 ≤ x ≤ 127` -/
def ubTerm (c : Int) : Int := if 0 ≤ c then 127 * c else -128 * c
def lbTerm (c : Int) : Int := if 0 ≤ c then -128 * c else 127 * c

def sumUB (u v : Nat) : List Nat → Int
  | [] => 0
  | i :: is => ubTerm (c32L u v i) + sumUB u v is

def sumLB (u v : Nat) : List Nat → Int
  | [] => 0
  | i :: is => lbTerm (c32L u v i) + sumLB u v is

theorem term_bounds (x c : Int) (h1 : -128 ≤ x) (h2 : x ≤ 127) : lbTerm c ≤ x * c ∧ x * c ≤ ubTerm c := by
  unfold lbTerm ubTerm
  split
  · rename_i hc
    exact ⟨Int.mul_le_mul_of_nonneg_right h1 hc, Int.mul_le_mul_of_nonneg_right h2 hc⟩
  · rename_i hc
    have hc' : c ≤ 0 := by omega
    exact ⟨Int.mul_le_mul_of_nonpos_right h2 hc', Int.mul_le_mul_of_nonpos_right h1 hc'⟩

theorem sum32_bounds (src : Nat → Int) (hsrc : ∀ i, -128 ≤ src i ∧ src i ≤ 127) (u v : Nat) (l : List Nat) :
    sumLB u v l ≤ sum32 src u v l ∧ sum32 src u v l ≤ sumUB u v l := by
  induction l with
  | nil => simp [sumLB, sumUB, sum32]
  | cons i is ih =>
    simp only [sumLB, sumUB, sum32, c32_eq]
    have := term_bounds (src i) (c32L u v i) (hsrc i).1 (hsrc i).2
    omega

theorem fdctPost_mono (a s1 s2 : Int) (ha : 0 ≤ a) (h : s1 ≤ s2) : fdctPost a s1 ≤ fdctPost a s2 := by
  unfold fdctPost
  simp only
  apply Int.ediv_le_ediv (by decide)
  have h1 : (s1 + 32768) / 65536 ≤ (s2 + 32768) / 65536 := Int.ediv_le_ediv (by decide) (by omega)
  have := Int.mul_le_mul_of_nonneg_left h1 ha
  omega

/-- the 64 finite computations: for every output index the post-processing of the extreme sums
    stays in the valid range; also the int64 no-overflow margins -/
def extremesOK (k : Nat) : Bool :=
  let u := k % 8
  let v := k / 8
  let a := alphas16 u v
  let lo := sumLB u v (List.range 64)
  let hi := sumUB u v (List.range 64)
  decide (0 ≤ a) && decide (a ≤ 16384) &&
  decide ((if k = 0 then -1024 else -1020) ≤ fdctPost a lo) &&
  decide (fdctPost a hi ≤ (if k = 0 then 1016 else 1020)) &&
  decide (-(2 : Int) ^ 46 ≤ lo) && decide (hi ≤ (2 : Int) ^ 46)

set_option maxRecDepth 100000 in
theorem extremes_ok : (List.range 64).all extremesOK = true := by decide +kernel

end WuffsVerif.Jpeg.DctP
