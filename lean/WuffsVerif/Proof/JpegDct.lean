/-
C18 helper lemmas for the DCT clause: per-coefficient sign-matched extremes of the forward DCT.
-/
import WuffsVerif.Model.Jpeg.Dct
import WuffsVerif.Model.Jpeg.Encoder

open WuffsVerif.Gen.C18 WuffsVerif.Jpeg WuffsVerif.Jpeg.Dct

namespace WuffsVerif.Jpeg.DctP

theorem getD_toList {α : Type} (a : Array α) (i : Nat) (d : α) : a.getD i d = a.toList.getD i d := by
  simp [Array.getD, List.getD]
  split <;> simp_all

/-- list versions (cheap to evaluate in the kernel) -/
def cosAtL (x u : Nat) : Int := cosines.toList.getD (((2 * x + 1) * u) % 32) 0
def c32L (u v i : Nat) : Int := cosAtL (i % 8) u * cosAtL (i / 8) v

theorem c32_eq (u v i : Nat) : c32 u v i = c32L u v i := by
  simp only [c32, c32L, cosAt, cosAtL, getD_toList]

/-- the largest / smallest value of `x * c` for `-128 ≤ x ≤ 127` -/
def ubTerm (c : Int) : Int := if 0 ≤ c then 127 * c else -128 * c
def lbTerm (c : Int) : Int := if 0 ≤ c then -128 * c else 127 * c

def sumUB (u v : Nat) : List Nat → Int
  | [] => 0
  | i :: is => ubTerm (c32L u v i) + sumUB u v is

def sumLB (u v : Nat) : List Nat → Int
  | [] => 0
  | i :: is => lbTerm (c32L u v i) + sumLB u v is

theorem term_bounds (x c : Int) (h1 : -128 ≤ x) (h2 : x ≤ 127) : lbTerm c ≤ x * c ∧ x * c ≤ ubTerm c := by
  unfold lbTerm ubTerm
  split
  · rename_i hc
    exact ⟨Int.mul_le_mul_of_nonneg_right h1 hc, Int.mul_le_mul_of_nonneg_right h2 hc⟩
  · rename_i hc
    have hc' : c ≤ 0 := by omega
    exact ⟨Int.mul_le_mul_of_nonpos_right h2 hc', Int.mul_le_mul_of_nonpos_right h1 hc'⟩

theorem sum32_bounds (src : Nat → Int) (hsrc : ∀ i, -128 ≤ src i ∧ src i ≤ 127) (u v : Nat) (l : List Nat) :
    sumLB u v l ≤ sum32 src u v l ∧ sum32 src u v l ≤ sumUB u v l := by
  induction l with
  | nil => simp [sumLB, sumUB, sum32]
  | cons i is ih =>
    simp only [sumLB, sumUB, sum32, c32_eq]
    have := term_bounds (src i) (c32L u v i) (hsrc i).1 (hsrc i).2
    omega

theorem fdctPost_mono (a s1 s2 : Int) (ha : 0 ≤ a) (h : s1 ≤ s2) : fdctPost a s1 ≤ fdctPost a s2 := by
  unfold fdctPost
  simp only
  apply Int.ediv_le_ediv (by decide)
  have h1 : (s1 + 32768) / 65536 ≤ (s2 + 32768) / 65536 := Int.ediv_le_ediv (by decide) (by omega)
  have := Int.mul_le_mul_of_nonneg_left h1 ha
  omega

/-- the 64 finite computations: for every output index the post-processing of the extreme sums
    stays in the valid range; also the int64 no-overflow margins -/
def extremesOK (k : Nat) : Bool :=
  let u := k % 8
  let v := k / 8
  let a := alphas16 u v
  let lo := sumLB u v (List.range 64)
  let hi := sumUB u v (List.range 64)
  decide (0 ≤ a) && decide (a ≤ 16384) &&
  decide ((if k = 0 then -1024 else -1020) ≤ fdctPost a lo) &&
  decide (fdctPost a hi ≤ (if k = 0 then 1016 else 1020)) &&
  decide (-(2 : Int) ^ 46 ≤ lo) && decide (hi ≤ (2 : Int) ^ 46)

set_option maxRecDepth 100000 in
theorem extremes_ok : (List.range 64).all extremesOK = true := by decide +kernel

/-- list versions of the DCT pair (cheap to evaluate in the kernel) -/
def sum32L (src : List Nat) (u v : Nat) : List Nat → Int
  | [] => 0
  | i :: is => (((src.getD i 0 : Nat) : Int) - 128) * c32L u v i + sum32L src u v is

def fdctL (src : List Nat) (k : Nat) : Int :=
  toInt16 (fdctPost (alphas16 (k % 8) (k / 8)) (sum32L src (k % 8) (k / 8) (List.range 64)))

def isum32L (coef : Nat → Int) (i : Nat) : List Nat → Int
  | [] => 0
  | k :: ks => coef k * (alphas16 (k % 8) (k / 8) * ((c32L (k % 8) (k / 8) i + 32768) / 65536)) + isum32L coef i ks

def idctRawL (src : List Nat) (i : Nat) : Int :=
  (isum32L (fdctL src) i (List.range 64) + 2147483648) / 4294967296

theorem sum32_eq_L (src : Array Nat) (u v : Nat) (l : List Nat) :
    sum32 (fun i => ((src.getD i 0 : Nat) : Int) - 128) u v l = sum32L src.toList u v l := by
  induction l with
  | nil => rfl
  | cons i is ih =>
    show (((src.getD i 0 : Nat) : Int) - 128) * c32 u v i + sum32 _ u v is = _
    rw [ih, c32_eq, getD_toList]
    rfl

theorem isum32_eq_L (f g : Nat → Int) (i : Nat) (l : List Nat) (h : ∀ k ∈ l, f k = g k) :
    isum32 f i l = isum32L g i l := by
  induction l with
  | nil => rfl
  | cons k ks ih =>
    simp only [isum32, isum32L, c32_eq]
    rw [h k List.mem_cons_self, ih (fun k' hk' => h k' (List.mem_cons_of_mem _ hk'))]

theorem forwardDCT_getD' (src : Array Nat) (k : Nat) (hk : k < 64) :
    (forwardDCT src).getD k 0 = fdctL src.toList k := by
  have h1 : (forwardDCT src).getD k 0 = toInt16 (fdctCoef src k) := by
    simp [forwardDCT, Array.getD, hk]
  rw [h1]
  unfold fdctCoef fdctL
  simp only
  rw [sum32_eq_L]

theorem idctRaw_eq_L (src : Array Nat) (i : Nat) :
    idctRaw (forwardDCT src) i = idctRawL src.toList i := by
  unfold idctRaw idctRawL
  rw [isum32_eq_L _ (fdctL src.toList) i (List.range 64)
    (fun k hk => forwardDCT_getD' src k (List.mem_range.mp hk))]

/-- the first witness of findings/C18/idct-fdct-error2.txt -/
def witness1 : List Nat := [
  0xf4, 0x12, 0xd9, 0x2e, 0xce, 0xf4, 0xa5, 0xdd, 0xc9, 0x97, 0x49, 0x7f, 0x15, 0x1a, 0xc9, 0x97,
  0x4c, 0x67, 0xe2, 0x5c, 0xbe, 0x81, 0x1f, 0xf3, 0x13, 0x0f, 0x15, 0x45, 0x88, 0xf9, 0xcf, 0x13,
  0x19, 0x6f, 0x08, 0xd0, 0x41, 0x6a, 0x3c, 0xf7, 0xd1, 0x80, 0xaf, 0xed, 0x02, 0x08, 0x7e, 0x2f,
  0xc9, 0xab, 0x3a, 0x82, 0xea, 0xea, 0x96, 0xa5, 0x90, 0xec, 0xd1, 0x5d, 0x7e, 0xce, 0x9a, 0x81]

/-- the round-trip error of every pixel of the witness -/
def witnessErrs : List Int :=
  (List.range 64).map (fun i =>
    ((biasAndClamp.toList.getD ((idctRawL witness1 i) % 1024).toNat 0 : Nat) : Int) - witness1.getD i 0)

theorem witness_errs : witnessErrs.getD 35 0 = -2 ∧ witness1.all (fun x => decide (x ≤ 255)) = true ∧
    witness1.length = 64 := by
  decide +kernel


end WuffsVerif.Jpeg.DctP
