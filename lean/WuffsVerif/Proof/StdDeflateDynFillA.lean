/-
C07 helper, part 7 (dynamic-Huffman blocks), module F, part A: arithmetic of `codeOf`, the 9-bit reversal
`reverse9`, and what one `huffReplicate` writes.  Core Lean only.
-/
import WuffsVerif.Proof.StdDeflateDynDefs
namespace WuffsVerif.StdDeflate.F
open WuffsVerif.Gen.C07

/-! ### `codeOf` -/

theorem codeOf_lt (x L : Nat) : codeOf x L < 2 ^ L := by
  induction L with
  | zero => simp [codeOf]
  | succ L ih =>
    have hb : x / 2 ^ L % 2 < 2 := Nat.mod_lt _ (by decide)
    simp only [codeOf, Nat.pow_succ]
    omega

theorem codeOf_zero (L : Nat) : codeOf 0 L = 0 := by
  induction L with
  | zero => rfl
  | succ L ih => simp [codeOf, ih]

theorem codeOf_mod (x L K : Nat) (h : L ≤ K) : codeOf (x % 2 ^ K) L = codeOf x L := by
  induction L with
  | zero => rfl
  | succ L ih =>
    simp only [codeOf]
    rw [ih (by omega), mod_pow_bit x K L (by omega)]

theorem codeOf_mod_inj (L x y : Nat) (h : codeOf x L = codeOf y L) : x % 2 ^ L = y % 2 ^ L := by
  induction L with
  | zero => simp [Nat.mod_one]
  | succ L ih =>
    simp only [codeOf] at h
    have hx : x / 2 ^ L % 2 < 2 := Nat.mod_lt _ (by decide)
    have hy : y / 2 ^ L % 2 < 2 := Nat.mod_lt _ (by decide)
    have h1 : codeOf x L = codeOf y L := by omega
    have h2 : x / 2 ^ L % 2 = y / 2 ^ L % 2 := by omega
    rw [Nat.mod_pow_succ, Nat.mod_pow_succ, ih h1, h2]

theorem codeOf_split (x a b : Nat) : codeOf x (a + b) = codeOf x a * 2 ^ b + codeOf (x / 2 ^ a) b := by
  induction b with
  | zero => simp [codeOf]
  | succ b ih =>
    have : a + (b + 1) = (a + b) + 1 := by omega
    rw [this]
    simp only [codeOf]
    rw [ih, Nat.div_div_eq_div_mul, ← Nat.pow_add, Nat.pow_succ]
    rw [← Nat.mul_assoc]
    generalize codeOf x a * 2 ^ b = p
    omega

/-! ### `reverse9` -/

theorem a_rev_spec_bdd : ∀ n, n < 10 → ∀ key, key < 2 ^ n →
    reverse9 key >>> (9 - n) < 2 ^ n ∧ codeOf (reverse9 key >>> (9 - n)) n = key := by
  decide +kernel

theorem rev_spec (n key : Nat) (hn : n ≤ 9) (hk : key < 2 ^ n) :
    reverse9 key >>> (9 - n) < 2 ^ n ∧ codeOf (reverse9 key >>> (9 - n)) n = key :=
  a_rev_spec_bdd n (by omega) key hk

/-! ### `applyWrites` -/

/-- all writes of `ws` carry the same value -/
theorem applyWrites_const (ws : List (Nat × Nat)) (v : Nat) (hv : ∀ iv ∈ ws, iv.2 = v) (T : Array Nat) (k : Nat) :
    ((∃ iv ∈ ws, iv.1 = k) → k < T.size → (applyWrites T ws).getD k 0 = v) ∧
    ((∀ iv ∈ ws, iv.1 ≠ k) → (applyWrites T ws).getD k 0 = T.getD k 0) := by
  refine ⟨?_, applyWrites_untouched ws T k⟩
  induction ws generalizing T with
  | nil => intro h; obtain ⟨_, hm, _⟩ := h; simp at hm
  | cons iv ws ih =>
    intro h hk
    have hv' : ∀ iv' ∈ ws, iv'.2 = v := fun iv' hm => hv iv' (List.mem_cons_of_mem _ hm)
    have hstep : applyWrites T (iv :: ws) = applyWrites (T.setIfInBounds iv.1 iv.2) ws := rfl
    rw [hstep]
    by_cases hw : ∃ iv' ∈ ws, iv'.1 = k
    · exact ih hv' _ hw (by simpa using hk)
    · have hnot : ∀ iv' ∈ ws, iv'.1 ≠ k := fun iv' hm hc => hw ⟨iv', hm, hc⟩
      rw [applyWrites_untouched ws _ k hnot]
      obtain ⟨iv0, hm, he⟩ := h
      rcases List.mem_cons.mp hm with rfl | hm'
      · have := hv iv0 List.mem_cons_self
        subst he
        simp [Array.getD_eq_getD_getElem?, hk, this]
      · exact absurd ⟨iv0, hm', he⟩ hw

/-! ### `huffReplicate` -/

theorem a_idx_iff (c rk m i : Nat) (hrk : rk < 2 ^ c) :
    (i < m * 2 ^ c ∧ i % 2 ^ c = rk) ↔ ∃ m', m' < m ∧ i = m' * 2 ^ c + rk := by
  have hp : 0 < 2 ^ c := Nat.two_pow_pos c
  constructor
  · rintro ⟨h1, h2⟩
    refine ⟨i / 2 ^ c, Nat.div_lt_of_lt_mul (by rw [Nat.mul_comm]; exact h1), ?_⟩
    have := Nat.div_add_mod i (2 ^ c)
    rw [h2, Nat.mul_comm] at this
    exact this.symm
  · rintro ⟨m', hm, rfl⟩
    refine ⟨?_, ?_⟩
    · have : (m' + 1) * 2 ^ c ≤ m * 2 ^ c := Nat.mul_le_mul_right _ hm
      rw [Nat.add_mul] at this
      omega
    · rw [Nat.mul_comm, Nat.mul_add_mod, Nat.mod_eq_of_lt hrk]

theorem a_rep (top rk value c : Nat) (hrk : rk < 2 ^ c) : ∀ (m f : Nat) (w : List (Nat × Nat)), m ≤ f →
    top + m * 2 ^ c ≤ 1024 → m * 2 ^ c ≤ 512 →
    ∃ ws, huffReplicate top rk value (2 ^ c) f (m * 2 ^ c) w = .ok (ws ++ w) ∧
      ∀ iv, iv ∈ ws ↔ (iv.2 = value ∧ ∃ m', m' < m ∧ iv.1 = top + (m' * 2 ^ c + rk)) := by
  have hp : 0 < 2 ^ c := Nat.two_pow_pos c
  intro m
  induction m with
  | zero =>
    intro f w _ _ _
    refine ⟨[], ?_, ?_⟩
    · cases f with
      | zero => rfl
      | succ f =>
        have : ¬ (0 * 2 ^ c ≥ 2 ^ c) := by omega
        simp only [huffReplicate, this, if_false, List.nil_append]
    · intro iv; simp
  | succ m ih =>
    intro f w hf htop h512
    cases f with
    | zero => omega
    | succ f =>
      have hsub : (m + 1) * 2 ^ c - 2 ^ c = m * 2 ^ c := by rw [Nat.add_mul]; omega
      have hge : (m + 1) * 2 ^ c ≥ 2 ^ c := by rw [Nat.add_mul]; omega
      have hor : (m * 2 ^ c ||| rk) = m * 2 ^ c + rk := by
        rw [Nat.mul_comm]; exact (Nat.two_pow_add_eq_or_of_lt hrk m).symm
      have hlt : m * 2 ^ c + rk < 512 := by rw [Nat.add_mul] at h512; omega
      have hand : (m * 2 ^ c + rk) &&& 511 = m * 2 ^ c + rk := by
        have := Nat.and_two_pow_sub_one_eq_mod (m * 2 ^ c + rk) 9
        simp only [show (2:Nat) ^ 9 - 1 = 511 from rfl, show (2:Nat)^9 = 512 from rfl] at this
        rw [this, Nat.mod_eq_of_lt hlt]
      have hidx : ¬ (top + (m * 2 ^ c + rk) ≥ deflateHuffsTableSize) := by
        have : deflateHuffsTableSize = 1024 := rfl
        rw [this, Nat.add_mul] at *
        omega
      obtain ⟨ws, hws, hmem⟩ := ih f ((top + (m * 2 ^ c + rk), value) :: w) (by omega)
        (by rw [Nat.add_mul] at htop; omega) (by rw [Nat.add_mul] at h512; omega)
      refine ⟨ws ++ [(top + (m * 2 ^ c + rk), value)], ?_, ?_⟩
      · simp only [huffReplicate, hge, if_true, hsub, hor, hand, hidx, if_false]
        rw [hws]; simp
      · intro iv
        rw [List.mem_append, hmem, List.mem_singleton]
        constructor
        · rintro (⟨h1, m', hm', h2⟩ | rfl)
          · exact ⟨h1, m', by omega, h2⟩
          · exact ⟨rfl, m, by omega, rfl⟩
        · rintro ⟨h1, m', hm', h2⟩
          by_cases hmm : m' = m
          · subst hmm; right
            cases iv; simp only at h1 h2; rw [h1, h2]
          · left; exact ⟨h1, m', by omega, h2⟩

theorem replicate_spec (top rk value c e f : Nat) (w : List (Nat × Nat)) (hrk : rk < 2 ^ c) (hce : c ≤ e) (he : e ≤ 9)
    (htop : top + 2 ^ e ≤ 1024) (hf : 2 ^ (e - c) ≤ f) :
    ∃ ws, huffReplicate top rk value (1 <<< c) f (2 ^ e) w = .ok (ws ++ w) ∧
      ∀ iv, iv ∈ ws ↔ (iv.2 = value ∧ ∃ i, i < 2 ^ e ∧ i % 2 ^ c = rk ∧ iv.1 = top + i) := by
  have hsplit : 2 ^ e = 2 ^ (e - c) * 2 ^ c := by rw [← Nat.pow_add]; congr 1; omega
  have h512 : 2 ^ e ≤ 512 := by
    have : 2 ^ e ≤ 2 ^ 9 := Nat.pow_le_pow_right (by decide) he
    simpa using this
  obtain ⟨ws, hws, hmem⟩ := a_rep top rk value c hrk (2 ^ (e - c)) f w hf (by rw [← hsplit]; exact htop)
    (by rw [← hsplit]; exact h512)
  refine ⟨ws, ?_, ?_⟩
  · rw [Nat.one_shiftLeft, hsplit]; exact hws
  · intro iv
    rw [hmem]
    constructor
    · rintro ⟨h1, m', hm', h2⟩
      have := (a_idx_iff c rk (2 ^ (e - c)) (m' * 2 ^ c + rk) hrk).mpr ⟨m', hm', rfl⟩
      rw [← hsplit] at this
      exact ⟨h1, _, this.1, this.2, h2⟩
    · rintro ⟨h1, i, hi, hmod, h2⟩
      rw [hsplit] at hi
      obtain ⟨m', hm', rfl⟩ := (a_idx_iff c rk (2 ^ (e - c)) i hrk).mp ⟨hi, hmod⟩
      exact ⟨h1, m', hm', h2⟩

/-- the table after one `huffReplicate` (writes lists are newest-first; the table is `applyWrites old writes.reverse`) -/
theorem replicate_table (old : Array Nat) (hold : old.size = 1024) (top key value c e f : Nat) (w : List (Nat × Nat))
    (hkey : key < 2 ^ c) (hce : c ≤ e) (he : e ≤ 9) (htop : top + 2 ^ e ≤ 1024) (hf : 2 ^ (e - c) ≤ f) :
    ∃ w', huffReplicate top (reverse9 key >>> (9 - c)) value (1 <<< c) f (2 ^ e) w = .ok w' ∧
      (∀ i, i < 2 ^ e → codeOf i c = key → (applyWrites old w'.reverse).getD (top + i) 0 = value) ∧
      (∀ k, (∀ i, i < 2 ^ e → codeOf i c = key → k ≠ top + i) →
        (applyWrites old w'.reverse).getD k 0 = (applyWrites old w.reverse).getD k 0) := by
  obtain ⟨hrk, hcode⟩ := rev_spec c key (by omega) hkey
  generalize reverse9 key >>> (9 - c) = rk at hrk hcode ⊢
  obtain ⟨ws, hws, hmem⟩ := replicate_spec top rk value c e f w hrk hce he htop hf
  have hiff : ∀ i, i % 2 ^ c = rk ↔ codeOf i c = key := by
    intro i
    constructor
    · intro h
      rw [← codeOf_mod i c c (Nat.le_refl c), h, hcode]
    · intro h
      have := codeOf_mod_inj c i rk (by rw [h, hcode])
      rw [this, Nat.mod_eq_of_lt hrk]
  have happ : applyWrites old (ws ++ w).reverse = applyWrites (applyWrites old w.reverse) ws.reverse := by
    rw [List.reverse_append]; simp only [applyWrites, List.foldl_append]
  have hval : ∀ iv ∈ ws.reverse, iv.2 = value := fun iv hm => ((hmem iv).mp (List.mem_reverse.mp hm)).1
  refine ⟨ws ++ w, hws, ?_, ?_⟩
  · intro i hi hk
    rw [happ]
    refine (applyWrites_const ws.reverse value hval _ (top + i)).1 ⟨(top + i, value), ?_, rfl⟩ ?_
    · exact List.mem_reverse.mpr ((hmem _).mpr ⟨rfl, i, hi, (hiff i).mpr hk, rfl⟩)
    · rw [applyWrites_size, hold]; omega
  · intro k hk
    rw [happ]
    refine (applyWrites_const ws.reverse value hval _ k).2 ?_
    intro iv hm heq
    obtain ⟨_, i, hi, hmod, h2⟩ := (hmem iv).mp (List.mem_reverse.mp hm)
    exact hk i hi ((hiff i).mp hmod) (by rw [← heq, h2])

end WuffsVerif.StdDeflate.F
