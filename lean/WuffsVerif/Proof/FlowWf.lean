/-
C02 facts half: the computable well-formedness check `wfProg` implies the hypothesis
`wtS` of the facts theorems, for the typing context read off the program itself.
-/
import WuffsVerif.Model.FlowWf
import WuffsVerif.Proof.FlowReach
import WuffsVerif.Gen.C02_Axioms

namespace WuffsVerif.Proof.Flow
open WuffsVerif.Interval WuffsVerif.WCore WuffsVerif.WFlow
open WuffsVerif.Proof.WCoreBounds WuffsVerif.Proof.WCoreStmt

theorem lookup_mem {α : Type} (l : List (String × α)) (n : String) (t : α)
    (h : l.lookup n = some t) : (n, t) ∈ l := by
  induction l with
  | nil => simp [List.lookup] at h
  | cons p l ih =>
    obtain ⟨m, u⟩ := p
    simp only [List.lookup] at h
    split at h
    · rename_i heq
      have : n = m := by simpa using heq
      subst this
      cases h
      exact List.mem_cons_self
    · exact List.mem_cons_of_mem _ (ih h)

theorem lookup_isSome_of_mem {α : Type} (l : List (String × α)) (n : String) (t : α)
    (h : (n, t) ∈ l) : ∃ u, l.lookup n = some u := by
  induction l with
  | nil => cases h
  | cons p l ih =>
    obtain ⟨m, u⟩ := p
    simp only [List.lookup]
    by_cases hnm : (n == m) = true
    · simp [hnm]
    · simp only [hnm]
      rcases List.mem_cons.1 h with h1 | h1
      · cases h1; simp at hnm
      · exact ih h1

/-- in a consistent list a name's context type is the type of each of its occurrences -/
theorem ctxOf_of_mem {l : List (String × Ty)} (hc : consistent l = true) {n : String} {t : Ty}
    (h : (n, t) ∈ l) : ctxOf l n = t := by
  obtain ⟨u, hu⟩ := lookup_isSome_of_mem l n t h
  have hm := lookup_mem l n u hu
  simp only [ctxOf, hu, Option.getD_some]
  simp only [consistent, List.all_eq_true, Bool.or_eq_true, bne_iff_ne, ne_eq, beq_iff_eq] at hc
  rcases hc (n, u) hm (n, t) h with h1 | h1
  · exact absurd rfl h1
  · exact h1

theorem wt_of_typings {l : List (String × Ty)} (hc : consistent l = true) :
    ∀ e, (∀ p ∈ exprTypings e, p ∈ l) → wt (ctxOf l) e := by
  intro e
  induction e with
  | const v => intro _; trivial
  | var n t =>
    intro h
    simp only [wt]
    exact (ctxOf_of_mem hc (h (n, t) (by simp [exprTypings]))).symm
  | unary op e ih => intro h; exact ih h
  | binary op l' r ihl ihr =>
    intro h
    exact ⟨ihl (fun p hp => h p (by simp [exprTypings, hp])), ihr (fun p hp => h p (by simp [exprTypings, hp]))⟩
  | «as» t e ih => intro h; exact ih h
  | assoc op pre l' r ihl ihr =>
    intro h
    exact ⟨ihl (fun p hp => h p (by simp [exprTypings, hp])), ihr (fun p hp => h p (by simp [exprTypings, hp]))⟩
  | index a len ety i ih =>
    intro h
    simp only [wt]
    refine ⟨(ctxOf_of_mem hc (h (a, ety) (by simp [exprTypings]))).symm, ?_⟩
    exact ih (fun p hp => h p (by simp [exprTypings, hp]))

theorem condOK_of_b {l : List (String × Ty)} (hc : consistent l = true) {c : Expr}
    (hb : condOKb c = true) (hs : ∀ p ∈ exprTypings c, p ∈ l) : CondOK (ctxOf l) c := by
  simp only [condOKb, Bool.and_eq_true] at hb
  exact ⟨wt_of_typings hc c hs, hb.1, hb.2⟩

theorem substWt_of_typings {l : List (String × Ty)} (hc : consistent l = true) {σ : Subst}
    (hs : ∀ p ∈ substTypings σ, p ∈ l) : SubstWt (ctxOf l) σ := by
  intro i e hi
  have hm : (i, e) ∈ σ := by
    clear hs
    induction σ with
    | nil => simp [List.lookup] at hi
    | cons q σ ih =>
      obtain ⟨j, f⟩ := q
      simp only [List.lookup] at hi
      split at hi
      · rename_i heq
        have : i = j := by simpa using heq
        subst this; cases hi; exact List.mem_cons_self
      · exact List.mem_cons_of_mem _ (ih hi)
  apply wt_of_typings hc e
  intro p hp
  apply hs
  simp only [substTypings, List.mem_flatten, List.mem_map]
  exact ⟨exprTypings e, ⟨(i, e), hm, rfl⟩, hp⟩

theorem lhs_var_or_index {l : List (String × Ty)} (hc : consistent l = true) {lhs : Expr} {numeric : Bool}
    (hb : lhsOKb numeric lhs = true) (hs : ∀ p ∈ exprTypings lhs, p ∈ l) :
    (∃ n, lhs = .var n (ctxOf l n) ∧ (numeric = true → (ctxOf l n).base ≠ .bool)) ∨
    (∃ a len i, lhs = .index a len (ctxOf l a) i ∧ wt (ctxOf l) i ∧
      (numeric = true → (ctxOf l a).base ≠ .bool)) := by
  cases lhs with
  | var n t =>
    left
    have e := ctxOf_of_mem hc (hs (n, t) (by simp [exprTypings]))
    refine ⟨n, by rw [e], ?_⟩
    intro hn
    rw [e]
    simp only [lhsOKb, hn, Bool.not_true, Bool.false_or, bne_iff_ne, ne_eq] at hb
    exact hb
  | index a len ety i =>
    right
    have e := ctxOf_of_mem hc (hs (a, ety) (by simp [exprTypings]))
    refine ⟨a, len, i, by rw [e], wt_of_typings hc i (fun p hp => hs p (by simp [exprTypings, hp])), ?_⟩
    intro hn
    rw [e]
    simp only [lhsOKb, hn, Bool.not_true, Bool.false_or, bne_iff_ne, ne_eq] at hb
    exact hb
  | const v => simp [lhsOKb] at hb
  | unary op e => simp [lhsOKb] at hb
  | binary op a b => simp [lhsOKb] at hb
  | «as» t e => simp [lhsOKb] at hb
  | assoc op pre a b => simp [lhsOKb] at hb

/--
**wf_sound**: a program that passes the computable check is well-formed in the sense of
the facts theorems, for the typing context read off its own variable nodes.
-/
theorem wtS_of_shape {l : List (String × Ty)} (hc : consistent l = true) :
    ∀ (s : FStmt), shapeOK s = true → (∀ p ∈ stmtTypings s, p ∈ l) → wtS (ctxOf l) s := by
  intro s
  induction s with
  | skip => intro _ _; trivial
  | seq a b iha ihb =>
    intro hs ht
    simp only [shapeOK, Bool.and_eq_true] at hs
    exact ⟨iha hs.1 (fun p hp => ht p (by simp [stmtTypings, hp])),
      ihb hs.2 (fun p hp => ht p (by simp [stmtTypings, hp]))⟩
  | base st =>
    intro hs ht
    cases st with
    | assign lhs rhs =>
      simp only [shapeOK] at hs
      have hwr : wt (ctxOf l) rhs := wt_of_typings hc rhs (fun p hp => ht p (by simp [stmtTypings, hp]))
      rcases lhs_var_or_index hc hs (fun p hp => ht p (by simp [stmtTypings, hp])) with ⟨n, h1, _⟩ | ⟨a, len, i, h1, h2, _⟩
      · exact Or.inl ⟨⟨n, h1⟩, hwr⟩
      · exact Or.inr ⟨⟨a, len, i, h1, h2⟩, hwr⟩
    | opAssign op lhs rhs =>
      simp only [shapeOK] at hs
      have hwr : wt (ctxOf l) rhs := wt_of_typings hc rhs (fun p hp => ht p (by simp [stmtTypings, hp]))
      rcases lhs_var_or_index hc hs (fun p hp => ht p (by simp [stmtTypings, hp])) with ⟨n, h1, h3⟩ | ⟨a, len, i, h1, h2, h3⟩
      · exact Or.inl ⟨⟨n, h1, h3 rfl⟩, hwr⟩
      · exact Or.inr ⟨⟨a, len, i, h1, h2, h3 rfl⟩, hwr⟩
  | assert c r =>
    intro hs ht
    simp only [shapeOK, Bool.and_eq_true] at hs
    cases r with
    | none =>
      exact ⟨condOK_of_b hc hs.1 (fun p hp => ht p (by simp [stmtTypings, hp])), True.intro⟩
    | some rs =>
      refine ⟨condOK_of_b hc hs.1 (fun p hp => ht p (by simp [stmtTypings, hp])), ?_, ?_⟩
      · have hm : rs.ax ∈ Gen.C02.axioms := by
          have := hs.2
          simp only [reasonOKb, List.contains_iff_mem] at this
          exact this
        exact Gen.C02.all_ax_valid rs.ax hm
      · exact substWt_of_typings hc (fun p hp => ht p (by simp [stmtTypings, hp]))
  | ite c t e iht ihe =>
    intro hs ht
    simp only [shapeOK, Bool.and_eq_true] at hs
    exact ⟨condOK_of_b hc hs.1.1 (fun p hp => ht p (by simp [stmtTypings, hp])),
      iht hs.1.2 (fun p hp => ht p (by simp [stmtTypings, hp])),
      ihe hs.2 (fun p hp => ht p (by simp [stmtTypings, hp]))⟩
  | «while» sp c body ihb =>
    intro hs ht
    simp only [shapeOK, Bool.and_eq_true, List.all_eq_true] at hs
    refine ⟨?_, condOK_of_b hc hs.1.2 (fun p hp => ht p (by simp [stmtTypings, hp])),
      ihb hs.2 (fun p hp => ht p (by simp [stmtTypings, hp]))⟩
    intro a ha
    apply condOK_of_b hc (hs.1.1 a ha)
    intro p hp
    apply ht
    simp only [stmtTypings, List.mem_append, specTypings, List.mem_flatten, List.mem_map]
    exact Or.inl (Or.inl ⟨exprTypings a.2, ⟨a, ha, rfl⟩, hp⟩)
  | jump b k => intro _ _; trivial
  | call args => intro _ _; trivial
  | callAssign lhs retTy args =>
    intro hs ht
    simp only [shapeOK] at hs
    cases lhs with
    | var n t =>
      have e := ctxOf_of_mem hc (ht (n, t) (by simp [stmtTypings, exprTypings]))
      exact ⟨n, by rw [e]⟩
    | const v => simp [isVar] at hs
    | unary op e => simp [isVar] at hs
    | binary op a b => simp [isVar] at hs
    | «as» t e => simp [isVar] at hs
    | assoc op pre a b => simp [isVar] at hs
    | index a len ety i => simp [isVar] at hs
  | yield => intro _ _; trivial
  | cocall args => intro _ _; trivial
  | ret e => intro _ _; trivial

theorem wf_sound {s : FStmt} (h : wfProg s = true) : wtS (ctxOf (stmtTypings s)) s := by
  simp only [wfProg, Bool.and_eq_true] at h
  exact wtS_of_shape h.2 s h.1 (fun _ hp => hp)

end WuffsVerif.Proof.Flow
