/-
C13: the tree `Close` builds (`tree_facts`) and the assembly of the per-tree results into the reader chunk
list (`assemble`).
-/
import WuffsVerif.Proof.RacDecode
namespace WuffsVerif.Rac
open Spec

theorem leafLog_forall {S : Bytes} : ∀ {os : List WNode} {rs : List ChunkRec}, LeafLog S os rs →
    ∀ o ∈ os, o.children = [] ∧ o.resources = [] ∧ o.dRangeSize > 0 ∧
      ∃ off len, o.cOffsetCLength = off ||| (calcCLength len <<< 48) ∧ off + len ≤ S.length := by
  intro os
  induction os with
  | nil => intro rs _ o ho; simp at ho
  | cons a as ih =>
    intro rs h o ho
    cases rs with
    | nil => simp [LeafLog] at h
    | cons r rs =>
      simp only [LeafLog] at h
      obtain ⟨⟨h1, h2, h3, h4, h5, off, h6, h7, h8⟩, hr⟩ := h
      rcases List.mem_cons.mp ho with rfl | ho
      · exact ⟨h2, h3, by omega, off, r.primary.length, h8, h6⟩
      · exact ih hr o ho

/-- everything we need to know about the tree `Close` builds over the leaf nodes -/
theorem tree_facts (leaves : List WNode) (codec : Nat) (hv : codecValid codec = true) (hne : leaves ≠ [])
    (hl : ∀ o ∈ leaves, o.children = [] ∧ o.resources = [] ∧ o.dRangeSize > 0 ∧ o.codec = codec) (r : Bool) :
    (gather leaves (codecIsLong codec)).children ≠ [] ∧ ShapeOK (gather leaves (codecIsLong codec)) ∧
    Stat codec ((gather leaves (codecIsLong codec)).calcEncodedSize 0 r).1 ∧
    leavesOf ((gather leaves (codecIsLong codec)).calcEncodedSize 0 r).1 = leaves ∧
    ((gather leaves (codecIsLong codec)).calcEncodedSize 0 r).1.dRangeSize = (leaves.map WNode.dRangeSize).sum ∧
    ((gather leaves (codecIsLong codec)).calcEncodedSize 0 r).2 =
      iszNode ((gather leaves (codecIsLong codec)).calcEncodedSize 0 r).1 := by
  have hleaf : ∀ o ∈ leaves, o.children = [] := fun o ho => (hl o ho).1
  have hgood := gather_good leaves (codecIsLong codec) hne hleaf
  have hdec := gather_dec leaves (codecIsLong codec) hne hleaf (fun o ho => (hl o ho).2.2.1)
  have huni : Uni codec (gather leaves (codecIsLong codec)) := by
    apply gather_uni codec leaves _ hne hleaf
    intro o ho
    obtain ⟨h1, h2, _, h4⟩ := hl o ho
    cases o with
    | mk d cs rs col s t c =>
      simp only [WNode.children, WNode.resources, WNode.codec] at h1 h2 h4
      subst h1; subst h2
      simp [Uni, UniList, h4]
  have hstat := stat_of codec (codecIsLong codec) rfl _ hgood hdec huni
  have hshape := shape_of_stat codec hv _ hstat
  obtain ⟨c1, c2, c3, _, _⟩ := calc_stat (gather leaves (codecIsLong codec)) 0 r codec hstat
  refine ⟨gather_branch leaves _ hne hleaf, hshape, c1, ?_, ?_, ?_⟩
  · rw [c2]; exact gather_leaves leaves _ hne hleaf
  · rw [← stat_leaves_sum codec _ c1, c2, gather_leaves leaves _ hne hleaf]
  · have := calc_isz (gather leaves (codecIsLong codec)) 0 r hshape
    omega

/-- from layout + static facts + bounds + a found root: the reader's chunk list matches the leaves -/
theorem assemble (file : Array UInt8) (nw : NodeWriter) (codec isz : Nat) (leaves : List WNode) (root' : WNode)
    (hv : codecValid codec = true) (hfs : file.size = nw.cFileSize) (hcfs : nw.cFileSize < 2 ^ 48)
    (hH : nw.indexCOffset + isz ≤ nw.cFileSize)
    (hres : ∀ r, nw.resourcesCOffCLens.getD r 0 < 2 ^ 56 ∧
      nw.resourcesCOffCLens.getD r 0 % 2 ^ 48 + nw.dataCOffset ≤ nw.cFileSize)
    (hstat : Stat codec root') (hlo : LaidOut nw file.toList nw.indexCOffset root') (hob : OffsBelow isz root')
    (hleaves : leavesOf root' = leaves)
    (hleafb : ∀ o ∈ leaves, o.cOffsetCLength < 2 ^ 56 ∧ o.cOffsetCLength % 2 ^ 48 + nw.dataCOffset ≤ nw.cFileSize)
    (hd : root'.dRangeSize < 2 ^ 48) (hbr : root'.children ≠ []) (hisz : iszNode root' = isz)
    (hroot : Placed file nw root' → ∀ d cs rs col s t c, root' = .mk d cs rs col s t c →
      ∃ rootOff, findRoot file = .ok (parsedBranch nw cs rs c rootOff 0 0)) :
    ∃ chs, Spec.chunks file = .ok (root'.dRangeSize, chs) ∧ Matches nw codec chs leaves 0 := by
  have hpl := placed_of file nw codec isz hv hcfs hH hres root' hstat hlo hob (by rw [hleaves]; exact hleafb) hd
  cases root' with
  | mk d cs rs col s t c =>
    simp only [WNode.children] at hbr
    obtain ⟨rootOff, hr⟩ := hroot hpl d cs rs col s t c rfl
    have hc : c = codec := by
      simp only [Stat] at hstat
      exact (hstat.2.2 hbr).1
    subst hc
    have hfuel : iszNode (.mk d cs rs col s t c) ≤ walkFuel file := by
      rw [hisz]; unfold walkFuel; omega
    refine ⟨_, chunks_of_placed file nw hfs d cs rs col s t c rootOff hbr hpl hr hfuel, ?_⟩
    have := (chunks_match file nw (.mk d cs rs col s t c) 0 d cs rs col s t c rfl hbr hpl).1
    rw [hleaves] at this
    exact this

/-- what a successful `ChunkWriter.Close` (with at least one chunk) establishes -/
def CloseOK (c : CW) : Prop := ∃ (nw : NodeWriter) (pre post : Bytes) (chs : List Chunk),
  Spec.chunks (c.close).1.io.wBytes.toArray = .ok (c.dFileSize, chs) ∧
  Matches nw c.codec chs c.leafNodes.toList 0 ∧
  (c.close).1.io.wBytes = pre ++ c.stream ++ post ∧ pre.length = nw.dataCOffset ∧
  (c.close).1.io.wBytes.length = nw.cFileSize ∧ nw.resourcesCOffCLens = c.resourcesCOffCLens

theorem dataInv_leaf_facts (c : CW) (hi : DataInv c) (hne : c.leafNodes.size ≠ 0) :
    c.leafNodes.toList ≠ [] ∧ codecValid c.codec = true ∧
    (∀ o ∈ c.leafNodes.toList, o.children = [] ∧ o.resources = [] ∧ o.dRangeSize > 0 ∧ o.codec = c.codec) ∧
    (∀ o ∈ c.leafNodes.toList, o.cOffsetCLength < 2 ^ 56 ∧ o.cOffsetCLength % 2 ^ 48 ≤ c.dataSize) := by
  have hl := leafLog_forall hi.leaves
  refine ⟨?_, hi.codec.2 hne, ?_, ?_⟩
  · intro h
    have : c.leafNodes.toList.length = 0 := by rw [h]; rfl
    simp at this; exact hne (by rw [this]; rfl)
  · intro o ho
    obtain ⟨h1, h2, h3, _⟩ := hl o ho
    exact ⟨h1, h2, h3, hi.codec.1 o ho⟩
  · intro o ho
    obtain ⟨_, _, _, off, len, h4, h5⟩ := hl o ho
    have hs := hi.size
    have hoff : off < 2 ^ 48 := by unfold maxSize at hs; omega
    have := col_fields off len hoff
    rw [h4]
    exact ⟨this.1, by rw [this.2]; omega⟩

theorem dataInv_res_facts (c : CW) (hi : DataInv c) (r : Nat) :
    c.resourcesCOffCLens.getD r 0 < 2 ^ 56 ∧ c.resourcesCOffCLens.getD r 0 % 2 ^ 48 ≤ c.dataSize := by
  rw [Array.getD_eq_getD_getElem?]
  by_cases h : r < c.resourcesCOffCLens.size
  · have hm : c.resourcesCOffCLens[r] ∈ c.resourcesCOffCLens.toList := by simp
    simp only [h, getElem?_pos, Option.getD_some]
    exact hi.res _ hm
  · simp [h]
end WuffsVerif.Rac
