/-
C14 helper: every transition of Model/Rac/Conc.lean preserves `CInv`
(repaired code, any number of workers).  Part 1: main and Manager steps.
-/
import WuffsVerif.Proof.RacConc

set_option linter.unusedVariables false
set_option linter.unusedSimpArgs false

namespace WuffsVerif.Rac.Conc

theorem run_not_stopped {ws : List W} (h : ∀ (i : Nat) (w : W), ws[i]? = some w → w.pc = .run) :
    ∀ (i : Nat) (w : W), ws[i]? = some w → w.pc.isStopped = false := by
  intro i w hi; rw [h i w hi]; rfl

theorem inv_firstRead {s s' : St} (h : CInv s) (hs : step s .firstRead = some s') : CInv s' := by
  obtain ⟨rep, e1, e2, e3, e4, e5, e6, e7, buf, fr, ph⟩ := h
  simp only [step] at hs
  split at hs
  · next hg =>
    cases hs
    constructor <;> first | assumption | skip
    · intro h; cases h
    · simp only [PhaseInv, hg.1] at ph ⊢
      exact ⟨ph.1, ph.2, fr hg.2, trivial⟩
  · cases hs

theorem inv_readAgain {s s' : St} (h : CInv s) (hs : step s .readAgain = some s') : CInv s' := by
  obtain ⟨rep, e1, e2, e3, e4, e5, e6, e7, buf, fr, ph⟩ := h
  simp only [step] at hs
  split at hs
  · next hg =>
    cases hs
    constructor <;> first | assumption | skip
    simp only [PhaseInv, hg.1] at ph ⊢
    exact ph
  · cases hs

theorem inv_readDone {s s' : St} (h : CInv s) (hs : step s .readDone = some s') : CInv s' := by
  obtain ⟨rep, e1, e2, e3, e4, e5, e6, e7, buf, fr, ph⟩ := h
  simp only [step] at hs
  split at hs
  · next hg =>
    cases hs
    constructor <;> first | assumption | skip
    simp only [PhaseInv, hg] at ph ⊢
    exact ph
  · cases hs

theorem inv_cancel {s s' : St} (h : CInv s) (hs : step s .cancel = some s') : CInv s' := by
  obtain ⟨rep, e1, e2, e3, e4, e5, e6, e7, buf, fr, ph⟩ := h
  simp only [step] at hs
  split at hs
  · next hg =>
    cases hs
    constructor <;> first | assumption | skip
    simp only [PhaseInv, hg.1] at ph ⊢
    obtain ⟨p1, p2⟩ := ph
    refine ⟨by omega, ?_, fun _ => hg.2, Or.inl p1, fun i w hw => Or.inl (p2 i w hw)⟩
    have hz := countP_stopped_zero (run_not_stopped p2)
    simp only [stoppedCount, hz, p1]
    rfl
  · cases hs

theorem inv_close {s s' : St} (h : CInv s) (hs : step s .close = some s') : CInv s' := by
  obtain ⟨rep, e1, e2, e3, e4, e5, e6, e7, buf, fr, ph⟩ := h
  simp only [step] at hs
  split at hs
  · next hg =>
    cases hs
    constructor <;> first | assumption | skip
    simp only [PhaseInv, hg] at ph ⊢
    obtain ⟨p1, p2⟩ := ph
    refine ⟨by omega, ?_, (fun h => by cases h), Or.inl p1, fun i w hw => Or.inl (p2 i w hw)⟩
    have hz := countP_stopped_zero (run_not_stopped p2)
    simp only [stoppedCount, hz, p1]
    rfl
  · cases hs

/-- in which phases can a *running* Manager be non-quiet -/
theorem mgr_busy_phase {s : St} (ph : PhaseInv s) (fr : s.seenRead = false → allQuiet s)
    (hrun : s.mgr.pc = .run) (hbusy : ¬ s.mgr.quiet) :
    s.seenRead = true ∧ (s.main = .idle ∨ s.main = .reading ∨ ∃ k keep, s.main = .stopping k keep) := by
  have hseen : s.seenRead = true := by
    cases hsr : s.seenRead with
    | true => rfl
    | false => exact absurd (fr hsr).1 hbusy
  refine ⟨hseen, ?_⟩
  unfold PhaseInv at ph
  split at ph
  · left; assumption
  · right; left; assumption
  · exact absurd ph.2.2.1.1 hbusy
  · right; right; exact ⟨_, _, by assumption⟩
  · next k keep hm =>
    obtain ⟨_, _, _, p4⟩ := ph
    cases keep with
    | true =>
      simp only [↓reduceIte] at p4
      rcases p4.1 with h | h
      · rw [hrun] at h; cases h
      · exact absurd h.2 hbusy
    | false =>
      simp only [Bool.false_eq_true, ↓reduceIte] at p4
      rcases p4.1 with h | h <;> (rw [hrun] at h; cases h)
  · rw [hrun] at ph; cases ph.1

/-- a step that changes only Manager-local variables (not its pc) and possibly `reqc`,
    in a phase where the Manager may be busy, keeps the phase invariant -/
theorem phase_mgr_local {s : St} (ph : PhaseInv s) (m' : M) (rq : List Item)
    (hpc : m'.pc = s.mgr.pc)
    (hphase : s.main = .idle ∨ s.main = .reading ∨ ∃ k keep, s.main = .stopping k keep) :
    PhaseInv { s with mgr := m', reqc := rq } := by
  rcases hphase with hm | hm | ⟨k, keep, hm⟩
  · simp only [PhaseInv, hm] at ph ⊢; rw [hpc]; exact ph
  · simp only [PhaseInv, hm] at ph ⊢; rw [hpc]; exact ph
  · simp only [PhaseInv, hm, stoppedCount] at ph ⊢; rw [hpc]; exact ph

theorem inv_roi {s s' : St} (h : CInv s) (hs : step s .roi = some s') : CInv s' := by
  obtain ⟨rep, e1, e2, e3, e4, e5, e6, e7, buf, fr, ph⟩ := h
  simp only [step] at hs
  split at hs
  · next hg =>
    obtain ⟨hm, hrun, hin⟩ := hg
    cases hs
    simp only [PhaseInv, hm] at ph
    obtain ⟨p1, p2, p3, p4⟩ := ph
    constructor <;> first | assumption | skip
    · intro it h; cases h
    · intro e h; simp only [Option.some.injEq] at h; exact h.symm
    · intro h; rw [p4] at h; cases h
    · simp only [PhaseInv]
      exact ⟨p1, p2⟩
  · cases hs

theorem inv_mgrMake {s s' : St} (b : Bool) (h : CInv s) (hs : step s (.mgrMake b) = some s') : CInv s' := by
  obtain ⟨rep, e1, e2, e3, e4, e5, e6, e7, buf, fr, ph⟩ := h
  simp only [step] at hs
  split at hs
  · next e hroi =>
    split at hs
    · next hg =>
      obtain ⟨hrun, hin, hwork⟩ := hg
      have hbusy : ¬ s.mgr.quiet := by intro hq; rw [hq.2.2] at hroi; cases hroi
      obtain ⟨hseen, hphase⟩ := mgr_busy_phase ph fr hrun hbusy
      cases b with
      | true =>
        simp only [↓reduceIte, Option.some.injEq] at hs
        subst hs
        constructor <;> first | assumption | skip
        · intro it h; simp only [Option.some.injEq] at h; subst h; exact e6 e hroi
        · intro h; rw [hseen] at h; cases h
        · exact phase_mgr_local ph _ s.reqc rfl hphase
      | false =>
        simp only [Bool.false_eq_true, ↓reduceIte, Option.some.injEq] at hs
        subst hs
        constructor <;> first | assumption | skip
        · intro h; rw [hseen] at h; cases h
        · exact phase_mgr_local ph _ s.reqc rfl hphase
    · cases hs
  · cases hs

theorem inv_mgrSend {s s' : St} (h : CInv s) (hs : step s .mgrSend = some s') : CInv s' := by
  obtain ⟨rep, e1, e2, e3, e4, e5, e6, e7, buf, fr, ph⟩ := h
  simp only [step] at hs
  split at hs
  · next it hwork =>
    split at hs
    · next hg =>
      obtain ⟨hrun, hin, hlen⟩ := hg
      have hbusy : ¬ s.mgr.quiet := by intro hq; rw [hq.2.1] at hwork; cases hwork
      obtain ⟨hseen, hphase⟩ := mgr_busy_phase ph fr hrun hbusy
      cases hs
      constructor <;> first | assumption | skip
      · intro x hx
        rw [List.mem_append] at hx
        rcases hx with hx | hx
        · exact e1 x hx
        · simp only [List.mem_singleton] at hx; subst hx; exact e5 _ hwork
      · intro x h; cases h
      · intro h; rw [hseen] at h; cases h
      · exact phase_mgr_local ph _ _ rfl hphase
    · cases hs
  · cases hs

end WuffsVerif.Rac.Conc
