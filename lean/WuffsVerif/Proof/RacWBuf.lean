/-
Helper lemmas for C13: the write buffer refines a byte queue.
-/
import WuffsVerif.Model.Rac.WriteBuffer

namespace WuffsVerif.Rac

/-! ### leading zeroes -/

theorem countLeadingZeroes_nil : countLeadingZeroes [] = 0 := rfl

theorem countLeadingZeroes_cons (x : UInt8) (xs : Bytes) :
    countLeadingZeroes (x :: xs) = if x == 0 then countLeadingZeroes xs + 1 else 0 := by
  unfold countLeadingZeroes
  by_cases h : (x == 0) = true <;> simp [List.takeWhile_cons, h]

theorem countLeadingZeroes_le (l : Bytes) : countLeadingZeroes l ≤ l.length := by
  induction l with
  | nil => simp [countLeadingZeroes_nil]
  | cons x xs ih =>
    rw [countLeadingZeroes_cons]
    split <;> simp <;> omega

/-- the first `countLeadingZeroes l` bytes of `l` are zero -/
theorem take_countLeadingZeroes (l : Bytes) :
    l.take (countLeadingZeroes l) = List.replicate (countLeadingZeroes l) 0 := by
  induction l with
  | nil => simp [countLeadingZeroes_nil]
  | cons x xs ih =>
    rw [countLeadingZeroes_cons]
    by_cases h : (x == 0) = true
    · simp only [h, ↓reduceIte, List.take_succ_cons, List.replicate_succ, ih]
      have : x = 0 := by simpa using h
      rw [this]
    · simp [h]

/-- … and the run is maximal: what follows does not start with a zero -/
theorem head_drop_countLeadingZeroes (l : Bytes) :
    (l.drop (countLeadingZeroes l)).head? ≠ some 0 := by
  induction l with
  | nil => simp [countLeadingZeroes_nil]
  | cons x xs ih =>
    rw [countLeadingZeroes_cons]
    by_cases h : (x == 0) = true
    · simpa [h] using ih
    · simp only [h]
      simp only [Bool.false_eq_true, ↓reduceIte, List.drop_zero, List.head?_cons, ne_eq, Option.some.injEq]
      intro hx; apply h; simp [hx]

/-- a list that is all zeroes up to its end -/
theorem countLeadingZeroes_eq_length_iff (l : Bytes) :
    countLeadingZeroes l = l.length ↔ ∀ x ∈ l, x = 0 := by
  induction l with
  | nil => simp [countLeadingZeroes_nil]
  | cons x xs ih =>
    rw [countLeadingZeroes_cons]
    by_cases h : (x == 0) = true
    · have hx : x = 0 := by simpa using h
      subst hx
      simp [ih]
    · have hx : x ≠ 0 := by simpa using h
      simp only [h, Bool.false_eq_true, ↓reduceIte, List.length_cons, List.mem_cons, forall_eq_or_imp]
      constructor
      · intro h0; omega
      · intro ⟨h0, _⟩; exact absurd h0 hx

/-- leading zeroes of a concatenation: all of `a` if `a` is all zero, then into `b` -/
theorem countLeadingZeroes_append (a b : Bytes) :
    countLeadingZeroes (a ++ b) =
      if countLeadingZeroes a = a.length then a.length + countLeadingZeroes b
      else countLeadingZeroes a := by
  induction a with
  | nil => simp [countLeadingZeroes_nil]
  | cons x xs ih =>
    rw [List.cons_append, countLeadingZeroes_cons, countLeadingZeroes_cons]
    by_cases h : (x == 0) = true
    · simp only [h, ↓reduceIte, ih, List.length_cons, Nat.add_right_cancel_iff]
      split <;> omega
    · simp [h]

namespace WBuf

theorem length_eq (b : WBuf) : b.length = b.abs.length := by
  simp [length, abs, List.length_drop]

theorem extend_refines (b : WBuf) (c : Bytes) (h : b.curr = []) :
    b.extend c = some { b with curr := c } ∧ ({ b with curr := c } : WBuf).abs = b.abs ++ c := by
  simp [extend, abs, h]

theorem peek_refines (b : WBuf) (n : Nat) :
    (b.peek n).1 ++ (b.peek n).2 = b.abs.take n := by
  have hlen : (b.prev.drop b.p).length = b.prev.length - b.p := by simp
  unfold abs
  rw [List.take_append, hlen]
  by_cases h : n ≤ b.prev.length - b.p
  · have h0 : n - (b.prev.length - b.p) = 0 := by omega
    simp [peek, h, h0]
  · by_cases h2 : n - (b.prev.length - b.p) ≤ b.curr.length
    · simp only [peek, h, ↓reduceIte, h2]
      rw [List.take_of_length_le (l := List.drop b.p b.prev) (by omega)]
    · simp only [peek, h, ↓reduceIte, h2]
      rw [List.take_of_length_le (l := List.drop b.p b.prev) (by omega),
        List.take_of_length_le (l := b.curr) (by omega)]

theorem peek_length (b : WBuf) (n : Nat) :
    (b.peek n).1.length + (b.peek n).2.length = min n b.length := by
  rw [← List.length_append, peek_refines, List.length_take, length_eq]

theorem advance_refines (b : WBuf) (n : Nat) (hn : n ≤ b.length) :
    (b.advance n).abs = b.abs.drop n := by
  have hlen : (b.prev.drop b.p).length = b.prev.length - b.p := by simp
  unfold length at hn
  unfold abs
  rw [List.drop_append, hlen]
  by_cases h : n ≤ b.prev.length - b.p
  · have h0 : n - (b.prev.length - b.p) = 0 := by omega
    simp only [advance, h, ↓reduceIte, h0, List.drop_zero, List.drop_drop]
    try (congr 2; omega)
  · simp only [advance, h, ↓reduceIte]
    rw [List.drop_of_length_le (Nat.le_refl _), List.drop_of_length_le (l := List.drop b.p b.prev) (by omega)]

theorem advance_WF (b : WBuf) (n : Nat) (h : b.WF) : (b.advance n).WF := by
  unfold advance WF at *
  simp only
  split <;> simp only <;> omega

theorem compact_refines (b : WBuf) :
    b.compact.abs = b.abs ∧ b.compact.curr = [] ∧ b.compact.p = 0 ∧ b.compact.WF := by
  simp [compact, abs, WF]

/-- `advancePastLeadingZeroes` (repaired) drops exactly the maximal run of
leading zeroes of the queue, and reports its length. -/
theorem apz_refines (b : WBuf) (h : b.WF) :
    b.advancePastLeadingZeroes.2 = countLeadingZeroes b.abs ∧
    b.advancePastLeadingZeroes.1.abs = b.abs.drop b.advancePastLeadingZeroes.2 ∧
    b.advancePastLeadingZeroes.1.WF := by
  unfold advancePastLeadingZeroes abs WF at *
  have hk := countLeadingZeroes_le (b.prev.drop b.p)
  have hlen : (b.prev.drop b.p).length = b.prev.length - b.p := by simp
  simp only
  split
  · rename_i hlt
    have hne : countLeadingZeroes (b.prev.drop b.p) ≠ (b.prev.drop b.p).length := by omega
    simp only
    refine ⟨?_, ?_, by omega⟩
    · rw [countLeadingZeroes_append, if_neg hne]
    · rw [List.drop_append_of_le_length hk, List.drop_drop]
  · rename_i hge
    have heq : countLeadingZeroes (b.prev.drop b.p) = (b.prev.drop b.p).length := by omega
    simp only
    refine ⟨?_, ?_, by omega⟩
    · rw [countLeadingZeroes_append, if_pos heq, heq]
    · rw [List.drop_append, List.drop_of_length_le (l := List.drop b.p b.prev) (by omega),
        List.drop_of_length_le (by omega), hlen]
      simp only [List.nil_append]
      congr 1; omega

end WBuf

/-! ### stripTrailingZeroes -/

theorem dropWhile_zero_append_replicate (l : Bytes) :
    ∃ k, l = List.replicate k 0 ++ l.dropWhile (· == 0) := by
  induction l with
  | nil => exact ⟨0, by simp⟩
  | cons x xs ih =>
    by_cases h : (x == 0) = true
    · obtain ⟨k, hk⟩ := ih
      refine ⟨k + 1, ?_⟩
      have hx : x = 0 := by simpa using h
      simp only [List.dropWhile_cons, h, ↓reduceIte, List.replicate_succ, List.cons_append]
      rw [← hk, hx]
    · exact ⟨0, by simp [List.dropWhile_cons, h]⟩

/-- `stripTrailingZeroes b` is `b` without a trailing run of zeroes -/
theorem stripTrailingZeroes_spec (b : Bytes) :
    ∃ k, b = stripTrailingZeroes b ++ List.replicate k 0 := by
  obtain ⟨k, hk⟩ := dropWhile_zero_append_replicate b.reverse
  refine ⟨k, ?_⟩
  have := congrArg List.reverse hk
  simpa [stripTrailingZeroes] using this

theorem stripTrailingZeroes_length_le (b : Bytes) : (stripTrailingZeroes b).length ≤ b.length := by
  obtain ⟨k, hk⟩ := stripTrailingZeroes_spec b
  have := congrArg List.length hk
  simp at this; omega

end WuffsVerif.Rac
