/-
C12, the C indenter: idempotence of `format` (continues Proof/IndentIdem2.lean).  Core Lean only.
-/
import WuffsVerif.Proof.IndentIdem2

namespace WuffsVerif.Indent

/-! ### `format` twice -/

theorem loop_ws_prefix (o : Opts) (ii : Nat) (f : Nat) (st : St) (w Y : Bytes) (hw : AllWs w) (hY : Y ≠ []) :
    loop o ii f st (w ++ Y) = loop o ii f st Y := by
  cases f with
  | zero => simp [loop]
  | succ f =>
    have h1 : (w ++ Y).isEmpty = false := by
      cases Y with
      | nil => exact absurd rfl hY
      | cons y ys => simp
    have h2 : Y.isEmpty = false := by
      cases Y with
      | nil => exact absurd rfl hY
      | cons y ys => simp
    simp only [loop, h1, h2, Bool.false_eq_true, ↓reduceIte, trimLeadingWs_ws_append w Y hw]

theorem codeIndent_st0 (o : Opts) (ii : Nat) (line : Bytes) :
    codeIndent o ii st0 (nBracesAtLineStart st0 line) = ii := by
  unfold codeIndent nBracesAtLineStart st0
  simp only
  split
  · simp
  · split
    · simp
    · rename_i h
      have : ¬ ((0 : Int) - ((countCloseBraces line : Nat) : Int) > 0) := by omega
      simp [this]

theorem countInitial_replicate (x c : UInt8) (n : Nat) (rest : Bytes) (h : c ≠ x) :
    countInitial x (List.replicate n x ++ c :: rest) = n := by
  induction n with
  | zero =>
    have : (c == x) = false := by simpa using h
    simp [countInitial, this]
  | succ n ih => simp [List.replicate_succ, countInitial, ih]

theorem trimLeadingWsNl_shape (w : Bytes) (c : UInt8) (rest : Bytes) (hw : AllWs w) (hc : isWs c = false) (hn : c ≠ NL) :
    trimLeadingWsNl (w ++ c :: rest) = c :: rest := by
  induction w with
  | nil =>
    unfold trimLeadingWsNl
    have : (c == NL) = false := by simpa using hn
    simp [List.dropWhile_cons, hc, this]
  | cons x xs ih =>
    unfold trimLeadingWsNl at ih ⊢
    simp only [List.cons_append]
    rw [List.dropWhile_cons]
    simp only [hw x (by simp), Bool.true_or, ↓reduceIte]
    exact ih (fun b hb => hw b (by simp [hb]))

theorem trimLeadingWsNl_head (s : Bytes) (c : UInt8) (l : Bytes) (h : trimLeadingWsNl s = c :: l) :
    isWs c = false ∧ c ≠ NL := by
  induction s with
  | nil => simp [trimLeadingWsNl] at h
  | cons x xs ih =>
    unfold trimLeadingWsNl at h ih
    rw [List.dropWhile_cons] at h
    split at h
    · exact ih h
    · rename_i hx
      simp only [List.cons.injEq] at h
      rw [← h.1]
      simp only [Bool.or_eq_true, beq_iff_eq, not_or] at hx
      exact ⟨by simpa using hx.1, hx.2⟩

/-- the first output line starts with exactly `ii` indent bytes, then the first non-blank byte -/
theorem loop_first_shape (o : Opts) (ii f : Nat) (c0 : UInt8) (t out : Bytes) (hc0 : isWs c0 = false) (hn : c0 ≠ NL)
    (h : loop o ii f st0 (c0 :: t) = some out) (hcl : loopClosed o ii f st0 (c0 :: t) = true) :
    ∃ rest, out = List.replicate ii o.indentByte ++ c0 :: rest := by
  cases f with
  | zero => simp [loop] at h
  | succ f =>
    simp only [loop, List.isEmpty_cons, Bool.false_eq_true, ↓reduceIte, trimLeadingWs_nonws c0 t hc0,
      splitLine_cons_ne c0 t hn] at h
    simp only [loopClosed, List.isEmpty_cons, Bool.false_eq_true, ↓reduceIte, trimLeadingWs_nonws c0 t hc0,
      splitLine_cons_ne c0 t hn] at hcl
    have hnoNl : NL ∉ c0 :: (splitLine t).1 := by
      simp only [List.mem_cons, not_or]
      exact ⟨fun e => hn e.symm, splitLine_noNl t⟩
    by_cases hc : (st0.preproc || c0 == HASH) = true
    · simp only [hc, ↓reduceIte, Option.map_eq_some_iff] at h
      obtain ⟨r, _, ho⟩ := h
      rw [← ho]
      refine ⟨trimTrailingWs (splitLine t).1 ++ NL :: r, ?_⟩
      simp [preprocLine, st0, trimTrailingWs_cons_nonws c0 _ hc0]
    · have hcf : (st0.preproc || c0 == HASH) = false := Bool.eq_false_iff.mpr hc
      simp only [hcf, Bool.false_eq_true, ↓reduceIte] at h hcl
      cases hx : codeLine o ii st0 (c0 :: (splitLine t).1) (splitLine t).2 with
      | none => simp [hx] at h
      | some x =>
        obtain ⟨text, st', tail'⟩ := x
        simp only [hx, Option.map_eq_some_iff, Bool.and_eq_true] at h hcl
        obtain ⟨r, _, ho⟩ := h
        obtain ⟨body, htext, ⟨b, hb⟩, _⟩ :=
          codeLine_cong o ii st0 _ _ text st' tail' hx hcl.1 hnoNl c0 _ rfl hc0 (splitLine_nlHead t) []
        rw [codeIndent_st0] at htext
        rw [← ho, htext, hb]
        exact ⟨b ++ NL :: r, by simp [st0]⟩

theorem format_blank (o : Opts) (s : Bytes) (h : (trimLeadingWsNl s).isEmpty = true) : format o s = [] := by
  unfold format formatFuel
  simp only [h, ↓reduceIte, Option.getD_some]

/-- `format` is the value of the loop at ANY sufficient fuel -/
theorem format_of_loop (o : Opts) (t y : Bytes) (f' : Nat) (hne : (trimLeadingWsNl t).isEmpty = false)
    (h : loop o (countInitial o.indentByte t) f' st0 (trimLeadingWsNl t) = some y) : format o t = y := by
  have hs := formatFuel_isSome o t
  unfold format
  unfold formatFuel at hs ⊢
  simp only [hne, Bool.false_eq_true, ↓reduceIte] at hs ⊢
  obtain ⟨y', hy'⟩ := Option.isSome_iff_exists.mp hs
  have h1 := loop_mono_le o _ _ (max f' (t.length + 1)) (Nat.le_max_left _ _) _ _ _ h
  have h2 := loop_mono_le o _ _ (max f' (t.length + 1)) (Nat.le_max_right _ _) _ _ _ hy'
  change loop o (countInitial o.indentByte t) (max f' (t.length + 1)) st0 (trimLeadingWsNl t) = some y' at h2
  rw [h1] at h2
  simp only [Option.some.injEq] at h2
  rw [hy', h2]; rfl

/-- `indent_idempotent` on the model: formatting a formatted text changes nothing, for every
option and every text whose raw strings and slash-star comments are terminated. -/
theorem format_idem (o : Opts) (s : Bytes) (hcl : lexClosed o s = true) :
    format o (format o s) = format o s := by
  by_cases he : (trimLeadingWsNl s).isEmpty = true
  · rw [format_blank o s he]
    exact format_blank o [] (by simp [trimLeadingWsNl])
  · have he' : (trimLeadingWsNl s).isEmpty = false := Bool.eq_false_iff.mpr he
    have hs := formatFuel_isSome o s
    unfold formatFuel at hs
    simp only [he', Bool.false_eq_true, ↓reduceIte] at hs
    obtain ⟨out, hout⟩ := Option.isSome_iff_exists.mp hs
    change loop o (countInitial o.indentByte s) (s.length + 1) st0 (trimLeadingWsNl s) = some out at hout
    have hfmt : format o s = out := format_of_loop o s out _ he' hout
    rw [hfmt]
    unfold lexClosed at hcl
    cases hts : trimLeadingWsNl s with
    | nil => rw [hts] at he'; simp at he'
    | cons c0 t =>
      obtain ⟨hc0, hn⟩ := trimLeadingWsNl_head s c0 t hts
      rw [hts] at hout hcl
      obtain ⟨rest, hshape⟩ := loop_first_shape o _ _ c0 t out hc0 hn hout hcl
      obtain ⟨f', hf'⟩ := loop_idem o _ _ st0 _ out hout hcl 0
      have hone : out.isEmpty = false := by rw [hshape]; simp
      have hst : ({ st0 with nBlank := 0 } : St) = st0 := rfl
      rw [hone, hst] at hf'
      simp only [Bool.false_eq_true, ↓reduceIte, List.replicate_zero, List.nil_append] at hf'
      have hib : c0 ≠ o.indentByte := by
        intro e
        have : isWs o.indentByte = true := by unfold Opts.indentByte; split <;> decide
        rw [← e, hc0] at this
        exact Bool.noConfusion this
      have hci : countInitial o.indentByte out = countInitial o.indentByte s := by
        rw [hshape, countInitial_replicate _ _ _ _ hib]
      have htn : trimLeadingWsNl out = c0 :: rest := by
        rw [hshape]; exact trimLeadingWsNl_shape _ _ _ (allWs_replicate_indent o _) hc0 hn
      have hf'' : loop o (countInitial o.indentByte s) f' st0 (c0 :: rest) = some out := by
        have := hf'
        rw [hshape, loop_ws_prefix _ _ _ _ _ _ (allWs_replicate_indent o _) (by simp)] at this
        rw [hshape]; exact this
      exact format_of_loop o out out f' (by rw [htn]; simp) (by rw [hci, htn]; exact hf'')

end WuffsVerif.Indent
