/-
C01, history layer: any sequence of public calls with any argument values.
-/
import WuffsVerif.Model.WCore.Hist
import WuffsVerif.Proof.WCoreStmt

namespace WuffsVerif.Proof.WCoreHist
open WuffsVerif.Interval WuffsVerif.WCore WuffsVerif.Proof.WCoreBounds WuffsVerif.Proof.WCoreStmt

/-- the argument values are values of the parameters' C types (any such values) -/
def argsNat : List (String × Ty) → List Int → Prop
  | [], [] => True
  | (_, t) :: ps, v :: vs => inNatural t.base v ∧ argsNat ps vs
  | _, _ => False

/-- an accepted method: parameters declared as the context says, body accepted by the
checker from the empty fact list, well-formed (`wtStmtA`: variable and array-element
targets) -/
structure MethodOk (Γ : Ctx) (m : Method) : Prop where
  params : ∀ p ∈ m.params, p.2 = Γ p.1
  body : ∀ s ∈ m.body, wtStmtA Γ s
  accepted : ∃ fs', checkBlock [] m.body = some fs'

theorem inType_of_refOk {t : Ty} {v : Int} (hn : inNatural t.base v) (hr : refOk t v = true) :
    inType t v := by
  refine ⟨hn, fun _ => ?_⟩
  unfold refOk at hr
  simp only [Bool.and_eq_true] at hr
  constructor
  · intro m hm
    have := hr.1
    rw [hm] at this
    simpa using this
  · intro m hm
    have := hr.2
    rw [hm] at this
    simpa using this

theorem bindArgs_envOk {Γ : Ctx} :
    ∀ (ps : List (String × Ty)) (vals : List Int) (env : Env), EnvOk Γ env →
      (∀ p ∈ ps, p.2 = Γ p.1) → argsNat ps vals → argsOk ps vals = true →
      EnvOk Γ (bindArgs env ps vals) := by
  intro ps
  induction ps with
  | nil => intro vals env he _ _ _; cases vals <;> exact he
  | cons p ps ih =>
    intro vals env he hp hn ho
    obtain ⟨n, t⟩ := p
    cases vals with
    | nil => exact he
    | cons v vs =>
      simp only [argsNat] at hn
      simp only [argsOk, Bool.and_eq_true] at ho
      have ht : t = Γ n := hp (n, t) List.mem_cons_self
      simp only [bindArgs]
      refine ih vs _ (envOk_updKey (key := .sc n) he ?_)
        (fun q hq => hp q (List.mem_cons_of_mem _ hq)) hn.2 ho.2
      simp only [Key.name, ← ht]
      exact inType_of_refOk hn.1 ho.1

theorem holdsAlong_final {Γ : Ctx} :
    ∀ (ss : List Stmt) (fs : List Expr) (env : Env), HoldsAlong Γ fs env ss →
      EnvOk Γ (runBlock env ss) := by
  intro ss
  induction ss with
  | nil => intro fs env h; exact h.envOk
  | cons s ss ih =>
    intro fs env h
    obtain ⟨_, _, fs1, _, h2⟩ := h
    exact ih fs1 _ h2

/-- along a history: the store respects the declared types before every call, and every
call that runs executes its body safely with all the checker's facts true
(`HoldsAlong`); a refused call changes nothing -/
def HistSafe (Γ : Ctx) : Obj → List (Method × List Int) → Prop
  | o, [] => EnvOk Γ o.env
  | o, (m, vals) :: h =>
    EnvOk Γ o.env ∧
    (o.disabled = false → argsOk m.params vals = true →
      HoldsAlong Γ [] (bindArgs o.env m.params vals) m.body) ∧
    HistSafe Γ (callMethod m vals o) h

theorem hist_sound {Γ : Ctx} :
    ∀ (hist : List (Method × List Int)) (o : Obj), EnvOk Γ o.env →
      (∀ c ∈ hist, MethodOk Γ c.1 ∧ argsNat c.1.params c.2) → HistSafe Γ o hist := by
  intro hist
  induction hist with
  | nil => intro o he _; exact he
  | cons c hist ih =>
    intro o he hall
    obtain ⟨m, vals⟩ := c
    obtain ⟨hm, hn⟩ := hall (m, vals) List.mem_cons_self
    have hrest : ∀ c ∈ hist, MethodOk Γ c.1 ∧ argsNat c.1.params c.2 :=
      fun c hc => hall c (List.mem_cons_of_mem _ hc)
    have run : argsOk m.params vals = true →
        HoldsAlong Γ [] (bindArgs o.env m.params vals) m.body := by
      intro ho
      obtain ⟨fs', hacc⟩ := hm.accepted
      have he' := bindArgs_envOk m.params vals o.env he hm.params hn ho
      have S : Situation Γ (bindArgs o.env m.params vals) [] :=
        ⟨he', fun f hf => (by cases hf), fun f hf => (by cases hf), fun f hf => (by cases hf)⟩
      exact block_sound_arr m.body [] fs' _ S hm.body hacc
    refine ⟨he, fun _ ho => run ho, ih _ ?_ hrest⟩
    unfold callMethod
    split
    · exact he
    · split
      · rename_i ho
        exact holdsAlong_final m.body [] _ (run ho)
      · exact he

/-- the freshly initialised object (`wuffs_foo__bar__initialize`: all zero) respects the
declared types when zero is a value of every declared type — what `checkFields`
("default zero value is not within bounds") and `bcheckVar` enforce -/
theorem envOk_zero {Γ : Ctx} (hz : ∀ n, inType (Γ n) 0) : EnvOk Γ (fun _ => 0) :=
  fun key => hz key.name

/-- `hist_sound` from the freshly initialised object -/
theorem hist_sound_fresh {Γ : Ctx} (hz : ∀ n, inType (Γ n) 0)
    (hist : List (Method × List Int))
    (hall : ∀ c ∈ hist, MethodOk Γ c.1 ∧ argsNat c.1.params c.2) :
    HistSafe Γ ⟨fun _ => 0, false⟩ hist :=
  hist_sound hist _ (envOk_zero hz) hall

end WuffsVerif.Proof.WCoreHist
