/-
C17: `encodeUvarint` / `decodeUvarint` round trip.
-/
import WuffsVerif.Proof.LzmaBasic

namespace WuffsVerif.Lzma

/-- the bytes `encodeUvarint` appends -/
def uvList (x : Nat) : List UInt8 :=
  if h : x ≥ 0x80 then (x.toUInt8 ||| 0x80) :: uvList (x >>> 7) else [x.toUInt8]
termination_by x
decreasing_by
  simp only [Nat.shiftRight_eq_div_pow]; omega

theorem encodeUvarint_toList (dst : Array UInt8) (x : Nat) :
    (encodeUvarint dst x).toList = dst.toList ++ uvList x := by
  induction x using Nat.strongRecOn generalizing dst with
  | _ x ih =>
    rw [encodeUvarint, uvList]
    split
    · rename_i h
      rw [ih (x >>> 7) (by simp only [Nat.shiftRight_eq_div_pow]; omega), Array.toList_push,
        List.append_assoc]
      rfl
    · rw [Array.toList_push]

theorem byte_bits : ∀ n, n < 256 →
    ((n ||| 128) &&& 127 = n % 128 ∧ (n ||| 128) &&& 128 ≠ 0 ∧ (n < 128 → n &&& 127 = n ∧ n &&& 128 = 0)) := by
  decide +kernel

theorem toUInt8_toNat' (n : Nat) : n.toUInt8.toNat = n % 256 := by
  rw [Nat.toUInt8_eq, UInt8.toNat_ofNat']

theorem uv_small (x : Nat) (h : x < 128) :
    (x.toUInt8 &&& 0x7F).toNat = x ∧ x.toUInt8 &&& 0x80 = 0 := by
  have hb := (byte_bits (x % 256) (by omega)).2.2 (by omega)
  have h7 : (0x7F : UInt8).toNat = 127 := rfl
  have h8 : (0x80 : UInt8).toNat = 128 := rfl
  constructor
  · rw [UInt8.toNat_and, toUInt8_toNat', h7, hb.1]; omega
  · apply UInt8.toNat_inj.mp
    rw [UInt8.toNat_and, toUInt8_toNat', h8, hb.2]; rfl

theorem uv_big (x : Nat) :
    ((x.toUInt8 ||| 0x80) &&& 0x7F).toNat = x % 128 ∧ ¬ ((x.toUInt8 ||| 0x80) &&& 0x80 = 0) := by
  have hb := byte_bits (x % 256) (by omega)
  have h7 : (0x7F : UInt8).toNat = 127 := rfl
  have h8 : (0x80 : UInt8).toNat = 128 := rfl
  constructor
  · rw [UInt8.toNat_and, UInt8.toNat_or, toUInt8_toNat', h7, h8, hb.1]; omega
  · intro h
    have := congrArg UInt8.toNat h
    rw [UInt8.toNat_and, UInt8.toNat_or, toUInt8_toNat', h8] at this
    exact hb.2.1 this

theorem or_shift (acc y i : Nat) (h : acc < 2 ^ i) : acc ||| (y <<< i) = acc + y * 2 ^ i := by
  rw [Nat.or_comm, ← Nat.shiftLeft_add_eq_or_of_lt h, Nat.shiftLeft_eq]; omega

theorem decodeUvarintLoop_uvList : ∀ (x fuel i acc : Nat) (rest : List UInt8),
    i < 63 → x < 2 ^ (63 - i) → acc < 2 ^ i → 70 ≤ fuel * 7 + i →
    decodeUvarintLoop fuel i acc (uvList x ++ rest) = (rest, acc + x * 2 ^ i, true) := by
  intro x
  induction x using Nat.strongRecOn with
  | _ x ih =>
    intro fuel i acc rest hi hx hacc hfuel
    obtain ⟨f, rfl⟩ : ∃ f, fuel = f + 1 := ⟨fuel - 1, by omega⟩
    rw [uvList]
    split
    · rename_i hge
      have hpow : (2 : Nat) ^ (63 - i) = 2 ^ (63 - i - 7) * 128 := by
        have h7 : 63 - i = (63 - i - 7) + 7 := by
          have : 7 < 63 - i := by
            apply Classical.byContradiction; intro hn
            have : (2 : Nat) ^ (63 - i) ≤ 2 ^ 7 := Nat.pow_le_pow_right (by omega) (by omega)
            omega
          omega
        rw [h7, Nat.pow_add]; rfl
      obtain ⟨b1, b2⟩ := uv_big x
      simp only [List.cons_append, decodeUvarintLoop, hi, if_true, b1, b2, if_false]
      have hacc' : acc ||| ((x % 128) <<< i) = acc + (x % 128) * 2 ^ i := or_shift _ _ _ hacc
      rw [hacc']
      have hx7 : x >>> 7 = x / 128 := by rw [Nat.shiftRight_eq_div_pow]
      have hi7 : i + 7 < 63 := by
        apply Classical.byContradiction; intro hn
        have : (2 : Nat) ^ (63 - i) ≤ 2 ^ 7 := Nat.pow_le_pow_right (by omega) (by omega)
        omega
      have hp7 : (2 : Nat) ^ (i + 7) = 2 ^ i * 128 := by rw [Nat.pow_add]
      have hlt : (x % 128) * 2 ^ i ≤ 127 * 2 ^ i := Nat.mul_le_mul_right _ (by omega)
      rw [ih (x >>> 7) (by rw [hx7]; omega) f (i + 7) _ rest hi7
        (by rw [hx7]; have : 63 - (i + 7) = 63 - i - 7 := by omega
            rw [this]; omega)
        (by rw [hp7]; omega) (by omega)]
      congr 2
      rw [hx7, hp7]
      have : x / 128 * (2 ^ i * 128) = (128 * (x / 128)) * 2 ^ i := by
        rw [Nat.mul_comm (2 ^ i) 128, ← Nat.mul_assoc, Nat.mul_comm (x / 128) 128]
      rw [this, Nat.add_assoc, ← Nat.add_mul]
      congr 2
      omega
    · rename_i hlt
      obtain ⟨s1, s2⟩ := uv_small x (by omega)
      simp only [List.cons_append, List.nil_append, decodeUvarintLoop, hi, if_true, s1, s2]
      rw [or_shift _ _ _ hacc]

/-- **uvarint round trip**, for every value below 2^63 (9 bytes at most), with arbitrary bytes following -/
theorem uvarint_roundtrip_list (x : Nat) (hx : x < 2 ^ 63) (rest : List UInt8) :
    decodeUvarint (uvList x ++ rest) = (rest, x, true) := by
  unfold decodeUvarint
  rw [decodeUvarintLoop_uvList x 10 0 0 rest (by omega) (by simpa using hx) (by omega) (by omega)]
  simp

end WuffsVerif.Lzma
