/-
C12, the Wuffs formatter, idempotence, part 8: `Render`'s line loop (first run) produces pieces of
the shape `Gen` (`renderLoop_gen`), and so does `Render` (`render_gen`).  Core Lean only.
-/
import WuffsVerif.Proof.RenderIdemRun1

namespace WuffsVerif.Render
open WuffsVerif.FmtToken WuffsVerif.Gen.C12

theorem lineLayout_c_lt (indent : Nat) (hanging inStruct0 : Bool) (vnl0 mv : Nat) (lt : List Tok) (hlt : lt ≠ []) :
    (lineLayout indent hanging inStruct0 vnl0 lt mv).c < lt.length := by
  cases lt with
  | nil => exact absurd rfl hlt
  | cons lt0 ltRest =>
    unfold lineLayout
    simp only []
    by_cases h4 : (lt0 :: ltRest).length < 4
    · simp only [h4, ↓reduceIte]; exact Nat.zero_lt_succ _
    · simp only [h4, ↓reduceIte]
      generalize (lt0.id == idPri || lt0.id == idPub) = pp
      generalize (ltRest.head?.map (·.id)).getD 0 = id1
      generalize hB : (id1 == idConst || lt0.id == idVar || if pp = true then id1 == idStruct else inStruct0) = B
      cases B with
      | false => simp only [Bool.false_eq_true, ↓reduceIte]; exact Nat.zero_lt_succ _
      | true =>
        simp only [↓reduceIte]
        cases hc : findColon (lt0 :: ltRest) with
        | none => simp only; exact Nat.zero_lt_succ _
        | some colon =>
          simp only
          exact findIdx?_lt _ _ _ hc

/-- pieces that are not lines of tokens contribute no source tokens -/
theorem flatMap_src_noToks : ∀ (xs : List Piece), NoToks xs → xs.flatMap Piece.src = [] := by
  intro xs
  induction xs with
  | nil => intro _; rfl
  | cons p ps ih =>
    intro h
    rw [List.flatMap_cons, Piece.src_of_not_toks (h p (by simp)), ih (fun q hq => h q (by simp [hq]))]
    rfl

/-- `SrcAdj` over pieces that are not lines of tokens -/
theorem srcAdj_noToks : ∀ (xs r : List Piece) (prev : Option Nat), NoToks xs →
    (∀ A, prev = some A → xs ≠ [] → ∀ t, (r.flatMap Piece.src).head? = some t → t.line ≠ A + 1) →
    (xs = [] → SrcAdj prev r) → (xs ≠ [] → SrcAdj none r) → SrcAdj prev (xs ++ r) := by
  intro xs
  induction xs with
  | nil => intro r prev _ _ h1 _; exact h1 rfl
  | cons p ps ih =>
    intro r prev hN hhead _ h2
    have hp : p.isToks = false := hN p (by simp)
    rw [List.cons_append]
    unfold SrcAdj
    rw [if_neg (by simp [hp])]
    refine ⟨?_, ?_⟩
    · intro A hA t ht
      have e : ((p :: (ps ++ r)).flatMap Piece.src) = r.flatMap Piece.src := by
        rw [← List.cons_append, List.flatMap_append, flatMap_src_noToks _ hN, List.nil_append]
      rw [e] at ht
      exact hhead A hA (by simp) t ht
    · apply ih r none (fun q hq => hN q (by simp [hq])) (fun A hA => absurd hA (by simp))
      · intro _; exact h2 (by simp)
      · intro _; exact h2 (by simp)

/-- `renderLoop` (first run) appends pieces of the shape `Gen`: well-formed, with the tokens it was
given as their source tokens, adjacent exactly where the source lines are adjacent, laid out from
the line-number-free state.  The `Gen` conclusion is in continuation-passing style: whatever `Gen`
pieces follow (the trailing comments), the whole is `Gen`. -/
theorem renderLoop_gen (comments : Array Bytes) (hcm : wfComments comments) :
    ∀ (f : Nat) (s s' : RSt) (ts : List Tok), renderLoop comments f s ts = some s' →
      (∀ t ∈ ts, wfTok t = true) → linesOK f ts = true → SortedLines ts → (∀ t ∈ ts, s.commentLine ≤ t.line) →
      ∃ ps : List Piece, s'.out = s.out ++ piecesBytes ps ∧ (∀ p ∈ ps, p.ok ∧ p.ok2 ∧ p.ok3) ∧
        ps.flatMap Piece.src = ts ∧
        (∀ prev, (∀ A, prev = some A → s.prevLine = A ∧ s.commentLine = A + 1) → SrcAdj prev ps) ∧
        (∀ first tail, (first = true → ∀ t, ts.head? = some t → t.line ≤ s.prevLine + 1) → NoToks tail →
          Gen (absOf s') (first && ts.isEmpty) tail → Gen (absOf s) first (ps ++ tail)) := by
  intro f
  induction f with
  | zero => intro s s' ts h; simp [renderLoop] at h
  | succ f ih =>
    intro s s' ts h hwf hlines hsorted hlow
    cases ts with
    | nil =>
      simp only [renderLoop, Option.some.injEq] at h
      subst h
      refine ⟨[], by simp [piecesBytes], by simp, rfl, fun _ _ => trivial, ?_⟩
      intro first tail _ _ hG
      simpa using hG
    | cons t0 rest =>
      rw [linesOK, Bool.and_eq_true] at hlines
      obtain ⟨hline, hrestOK⟩ := hlines
      rw [renderLoop_step] at h
      have hsrcl := sorted_dropWhile t0 rest hsorted
      have hsrcsorted := sorted_dropWhile_sorted t0 rest hsorted
      have hgline0 : ∀ t ∈ t0 :: rest.takeWhile (·.line == t0.line), t.line = t0.line := by
        intro t ht
        rcases List.mem_cons.mp ht with rfl | ht
        · rfl
        · have := List.all_eq_true.mp (List.all_takeWhile (p := fun x : Tok => x.line == t0.line) (l := rest)) t ht
          simpa using this
      have hts0 : t0 :: rest = (t0 :: rest.takeWhile (·.line == t0.line)) ++ rest.dropWhile (·.line == t0.line) := by
        simp
      generalize hg : t0 :: rest.takeWhile (·.line == t0.line) = g at h hline hgline0 hts0
      generalize hsrc : rest.dropWhile (·.line == t0.line) = src at h hrestOK hsrcl hsrcsorted hts0
      obtain ⟨semis, hsplit, hsemi, hslen, hlastns⟩ := stripSemicolons_split g
      have hsnd := stripSemicolons_snd g
      unfold lineOK at hline
      simp only at hline
      generalize hltdef : (stripSemicolons g).1 = lt at h hsplit hslen hlastns hsnd hline
      generalize hstr : (stripSemicolons g).2 = stripped at h hsnd
      cases hgl : lt.getLast? with
      | none => rw [hgl] at hline; simp at hline
      | some last =>
        rw [hgl] at hline
        simp only [Bool.and_eq_true, beq_iff_eq] at hline
        obtain ⟨hlen, hnb⟩ := hline
        have hltne : lt ≠ [] := by
          intro h0; rw [h0] at hgl; simp at hgl
        -- the comment lines before
        obtain ⟨cs, c1, c2, c3, c4, c5, c6, c7, c8, c9⟩ := flush_gen comments hcm
          ((s.indent : Int) + if s.prevLineHanging then 2 else 0) t0.line (t0.line - s.commentLine + 1) s
        generalize hs1 : flushComments comments ((s.indent : Int) + if s.prevLineHanging then 2 else 0) t0.line
          (t0.line - s.commentLine + 1) s = s1 at h c1 c4 c5 c6 c7 c8
        rw [lineStep_cons _ _ _ _ _ _ _ hltne, lineTail_eq] at h
        generalize hb : decide (s1.prevLine < t0.line - 1) = b at h
        generalize hLdef : lineLayout s1.indent s1.prevLineHanging s1.inStruct
          (if b = true then 0 else s1.varNameLength) lt (measureVarNameLength lt src) = L at h
        cases hind : lineIndent s1.indent (lt.drop L.c) with
        | none => rw [hind] at h; simp at h
        | some i' =>
          rw [hind] at h
          simp only at h
          have hwfg : ∀ t ∈ g, wfTok t = true := by
            intro t ht
            apply hwf
            rw [hts0]
            exact List.mem_append_left _ ht
          have hwfsrc : ∀ t ∈ src, wfTok t = true := by
            intro t ht
            apply hwf
            rw [hts0]
            exact List.mem_append_right _ ht
          obtain ⟨ps', hp1, hp2, hp3, hp4, hp5⟩ := ih _ _ _ h hwfsrc hrestOK hsrcsorted
            (fun t ht => by simp only; exact hsrcl t ht)
          simp only at hp1
          have hclt : L.c < lt.length := by rw [← hLdef]; exact lineLayout_c_lt _ _ _ _ _ _ hltne
          have hltg : ∀ t ∈ lt, t ∈ g := by
            intro t ht; rw [hsplit]; exact List.mem_append_left _ ht
          have hlastdrop : (lt.drop L.c).getLast? = some last := by rw [getLast?_drop _ _ hclt, hgl]
          have hends : endsStatement (lt.drop L.c) = last.implicitSemicolon := by
            unfold endsStatement; rw [hlastdrop]
          have hglen : g.length = lt.length + semis.length := by
            have := congrArg List.length hsplit
            simpa using this
          have hstripped : stripped = last.implicitSemicolon := by
            rw [hsnd]
            cases hi : last.implicitSemicolon with
            | true => rw [hi] at hlen; simp only [↓reduceIte] at hlen; simp only [decide_eq_true_eq]; omega
            | false =>
              rw [hi] at hlen
              simp only [Bool.false_eq_true, ↓reduceIte] at hlen
              simp only [decide_eq_false_iff_not, Nat.not_lt]; omega
          -- the piece of this line
          have hPok : (layoutPiece L lt (getC comments t0.line) semis).ok := by
            refine ⟨fun t ht => hwfg t (hltg t (List.mem_of_mem_take ht)),
              fun t ht => hwfg t (hltg t (List.mem_of_mem_drop ht)), ?_, noBadPairs_drop _ _ hnb,
              wf_getC comments hcm t0.line, ?_, ?_⟩
            · simp only [ne_eq, List.drop_eq_nil_iff, Nat.not_le]; exact hclt
            · intro t ht
              exact semicolon_text (hwfg t (by rw [hsplit]; exact List.mem_append_right _ ht)) (hsemi t ht)
            · rw [hslen, hends]; exact hlen
          have hPok2 : (layoutPiece L lt (getC comments t0.line) semis).ok2 := by
            refine ⟨by rw [List.take_append_drop]; exact hnb, ?_⟩
            intro tl htl
            rw [hlastdrop] at htl
            exact hlastns tl (by rw [hgl]; exact htl)
          have hPok3 : (layoutPiece L lt (getC comments t0.line) semis).ok3 := hsemi
          have hPsrc : (layoutPiece L lt (getC comments t0.line) semis).src = g := by
            simp only [layoutPiece, Piece.src, List.take_append_drop]
            exact hsplit.symm
          have hcsN : NoToks cs := crun_noToks (c3 false (fun h => absurd h (by simp)))
          have hXN : NoToks (cs ++ optBlank b) := by
            intro p hp
            rcases List.mem_append.mp hp with hp | hp
            · exact hcsN p hp
            · exact optBlank_noToks b p hp
          refine ⟨cs ++ optBlank b ++ layoutPiece L lt (getC comments t0.line) semis :: ps', ?_, ?_, ?_, ?_, ?_⟩
          · -- the bytes
            rw [hp1, c1, commentText_getC]
            have hbytes : (layoutPiece L lt (getC comments t0.line) semis).bytes =
                tabs L.z ++ namesBytes (lt.take L.c) ++ List.replicate L.pad 32 ++ lineBody none false (lt.drop L.c) ++
                  (if (getC comments t0.line).isEmpty then [] else 32 :: 32 :: stripTrailingSpaces (getC comments t0.line)) ++
                  [10] := by
              simp only [layoutPiece, Piece.bytes, tabs_replicate]
            rw [List.append_assoc cs, piecesBytes_append, piecesBytes_append]
            simp only [piecesBytes, List.flatMap_cons, hbytes]
            cases b <;> simp [optBlank, Piece.bytes, List.append_assoc]
          · intro p hp
            simp only [List.mem_append, List.mem_cons] at hp
            rcases hp with (hp | hp) | hp | hp
            · exact c2 p hp
            · have : p = Piece.blank := by
                unfold optBlank at hp
                split at hp
                · simpa using hp
                · simp at hp
              subst this
              exact ⟨trivial, trivial, trivial⟩
            · subst hp
              exact ⟨hPok, hPok2, hPok3⟩
            · exact hp2 p hp
          · rw [List.flatMap_append, flatMap_src_noToks _ hXN, List.nil_append, List.flatMap_cons, hPsrc, hp3, hts0]
          · -- source adjacency
            intro prev hprev
            have hadj' : SrcAdj (some t0.line) ps' := hp4 (some t0.line) (fun A hA => by
              have := Option.some.inj hA
              subst this
              exact ⟨rfl, rfl⟩)
            have hPadj : ∀ q : Option Nat, (∀ A, q = some A → t0.line = A + 1) →
                SrcAdj q (layoutPiece L lt (getC comments t0.line) semis :: ps') := by
              intro q hq
              unfold SrcAdj
              rw [if_pos (show (layoutPiece L lt (getC comments t0.line) semis).isToks = true from rfl)]
              refine ⟨t0.line, ?_, hq, ?_, hadj'⟩
              · rw [hPsrc]; exact hgline0
              · rw [hp3]; exact hsrcl
            have hheadline : ∀ t, ((layoutPiece L lt (getC comments t0.line) semis :: ps').flatMap Piece.src).head? = some t →
                t.line = t0.line := by
              intro t ht
              rw [List.flatMap_cons, hPsrc] at ht
              have hgne : g ≠ [] := by rw [← hg]; simp
              cases g with
              | nil => exact absurd rfl hgne
              | cons a as =>
                simp only [List.cons_append, List.head?_cons, Option.some.injEq] at ht
                subst ht
                exact hgline0 _ (by simp)
            have hXempty : ∀ A, prev = some A → t0.line = A + 1 → cs ++ optBlank b = [] := by
              intro A hA hl
              obtain ⟨e1, e2⟩ := hprev A hA
              have hcs : cs = [] := c9 (by omega)
              have hpl := c8 hcs
              have hbf : b = false := by
                rw [← hb, hpl, e1]
                simp only [decide_eq_false_iff_not, Nat.not_lt]; omega
              rw [hcs, hbf]; rfl
            apply srcAdj_noToks _ _ prev hXN
            · intro A hA hne t ht
              rw [hheadline t ht]
              intro hl
              exact hne (hXempty A hA hl)
            · intro hX
              apply hPadj
              intro A hA
              obtain ⟨e1, e2⟩ := hprev A hA
              have hcs : cs = [] := by
                cases cs with
                | nil => rfl
                | cons a as => simp at hX
              have hbf : b = false := by
                cases b with
                | false => rfl
                | true => rw [hcs] at hX; simp [optBlank] at hX
              have hpl := c8 hcs
              have : ¬ (s1.prevLine < t0.line - 1) := by
                intro hlt'
                have : decide (s1.prevLine < t0.line - 1) = true := by simpa using hlt'
                rw [hb, hbf] at this
                exact absurd this (by simp)
              have hlow0 := hlow t0 (by simp)
              omega
            · intro _
              exact hPadj none (fun A hA => absurd hA (by simp))
          · -- the shape
            intro first tail hfirst hNT hG
            have hfirst0 : first = true → t0.line ≤ s.prevLine + 1 := fun hf => hfirst hf t0 rfl
            have hG1 : Gen (absOf s') false tail := by simpa using hG
            have hG2 := hp5 false tail (fun h => absurd h (by simp)) hNT hG1
            have hadj' : SrcAdj (some t0.line) ps' := hp4 (some t0.line) (fun A hA => by
              have := Option.some.inj hA
              subst this
              exact ⟨rfl, rfl⟩)
            have hmeasure : measureVarNameLength lt src = measureVP lt (ps' ++ tail) := by
              rw [← hp3]
              exact measureVNL_src lt t0.line (fun t ht => hgline0 t (hltg t ht)) tail hNT ps' hadj'
                (fun p hp ht => by
                  have hok := (hp2 p hp).1
                  cases p with
                  | blank => simp [Piece.isToks] at ht
                  | comment k com => simp [Piece.isToks] at ht
                  | toks k names m lts com semis' =>
                    obtain ⟨_, _, hne, _⟩ := hok
                    simp only [Piece.src]
                    intro h0
                    simp only [List.append_eq_nil_iff] at h0
                    exact hne h0.1.2)
            have hbcs : first = true → cs = [] → b = false := by
              intro hf hcs
              have hpl := c8 hcs
              have := hfirst0 hf
              rw [← hb, hpl]
              simp only [decide_eq_false_iff_not, Nat.not_lt]; omega
            have hvnl : (if b = true then 0 else s1.varNameLength) =
                (if (b || !cs.isEmpty) = true then 0 else s.varNameLength) := by
              rw [c7]
              cases b <;> cases cs.isEmpty <;> rfl
            have hL' : L = lineLayout (absOf s).indent (absOf s).hanging (absOf s).inStruct
                (if (b || !cs.isEmpty) = true then 0 else (absOf s).vnl) lt (measureVP lt (ps' ++ tail)) := by
              rw [← hLdef, hvnl, hmeasure, c4, c5, c6]
              rfl
            have hind' : lineIndent (absOf s).indent (lt.drop L.c) = some i' := by
              show lineIndent s.indent _ = _
              rw [← c4]
              exact hind
            have hG3 : Gen ⟨i', L.inStruct, L.vnl, nextHanging (endsStatement (lt.drop L.c)) (lt.drop L.c)⟩ false
                (ps' ++ tail) := by
              have e : absOf ⟨(if b = true then s1.out ++ [10] else s1.out) ++
                  (tabs L.z ++ namesBytes (lt.take L.c) ++ List.replicate L.pad 32 ++ lineBody none false (lt.drop L.c) ++
                    commentText comments t0.line 0 false ++ [10]), i', t0.line + 1, L.inStruct, L.vnl, t0.line,
                  !stripped && ((lt.drop L.c).getLast?.map (·.id)).getD 0 != idOpenCurly &&
                    ((lt.drop L.c).getLast?.map (·.id)).getD 0 != idOpenDoubleCurly⟩ =
                  ⟨i', L.inStruct, L.vnl, nextHanging (endsStatement (lt.drop L.c)) (lt.drop L.c)⟩ := by
                simp only [absOf, nextHanging, hends, hstripped]
              rw [← e]
              exact hG2
            have hrun := c3 first (fun hf => hfirst0 hf)
            have := Gen.line (absOf s) first b cs (ps' ++ tail) lt semis (getC comments t0.line) L i'
              hrun hbcs hltne hL' hind' hG3
            simpa [List.append_assoc] using this

end WuffsVerif.Render
