/-
C13: `Spec.walk` on a file in which an index tree is laid out (`Placed`) lists exactly the chunks of
the tree (`chunksOfNode`): the tree half of `index_roundtrip`.  Uses the node round trip of
`Proof/RacNodeParse.lean` for every branch node it loads.
-/
import WuffsVerif.Proof.RacBranchView
namespace WuffsVerif.Rac
open Spec

/-- `seg` sits in `file` at byte offset `pos` -/
def AtPos (file : Array UInt8) (pos : Nat) (seg : Bytes) : Prop := Spec.slice file pos seg.length = some seg

theorem atPos_bound {file : Array UInt8} {pos : Nat} {seg : Bytes} (h : AtPos file pos seg) :
    pos + seg.length ≤ file.size := by
  unfold AtPos slice at h
  split at h
  · assumption
  · simp at h

theorem atPos_get {file : Array UInt8} {pos : Nat} {seg : Bytes} (h : AtPos file pos seg) (i : Nat)
    (hi : i < seg.length) : file.getD (pos + i) 0 = seg.getD i 0 := by
  have hb := atPos_bound h
  unfold AtPos slice at h
  rw [if_pos hb] at h
  have h' : (file.extract pos (pos + seg.length)).toList = seg := by simpa using h
  rw [← h']
  simp [Array.getD_eq_getD_getElem?, List.getD_eq_getElem?_getD]
  rw [List.getElem?_take_of_lt hi, List.getElem?_drop]
  simp

mutual
/-- total encoded size of the branch nodes of a subtree (what `calcEncodedSize` accumulates) -/
def iszNode : WNode → Nat
  | .mk _ cs rs _ _ _ c =>
    if cs.isEmpty then 0 else (cs.length + rs.length + (codecIsLong c).toNat) * 16 + 16 + iszList cs
def iszList : List WNode → Nat
  | [] => 0
  | o :: os => iszNode o + iszList os
end

mutual
/-- the subtree is laid out in `file`: every branch node's bytes sit at the offset recorded in its
parent (or, for the root, known to the caller), sizes are positive and add up, and a branch child
has the parent's codec, no resource tag of its own and a smaller size (anti-loop rule) -/
def Placed (file : Array UInt8) (nw : NodeWriter) : WNode → Prop
  | .mk d cs rs col _ _ c => d > 0 ∧ (cs = [] ∨ (NodeOK nw cs rs c ∧
      AtPos file (col % 2 ^ 48 + nw.indexCOffset) (nodeBytesOf nw cs rs c) ∧
      d = (cs.map WNode.dRangeSize).sum ∧ PlacedList file nw c d cs))
def PlacedList (file : Array UInt8) (nw : NodeWriter) (c d : Nat) : List WNode → Prop
  | [] => True
  | o :: os => Placed file nw o ∧ (o.isBranch = true → o.codec = c ∧ o.secondary = 0 ∧ o.dRangeSize < d) ∧
      PlacedList file nw c d os
end

theorem placedList_iff (file : Array UInt8) (nw : NodeWriter) (c d : Nat) (cs : List WNode) :
    PlacedList file nw c d cs ↔ ∀ o ∈ cs, Placed file nw o ∧
      (o.isBranch = true → o.codec = c ∧ o.secondary = 0 ∧ o.dRangeSize < d) := by
  induction cs with
  | nil => simp [PlacedList]
  | cons o os ih =>
    simp only [PlacedList, ih, List.mem_cons, forall_eq_or_imp]
    constructor
    · rintro ⟨a, b, c'⟩; exact ⟨⟨a, b⟩, c'⟩
    · rintro ⟨⟨a, b⟩, c'⟩; exact ⟨a, b, c'⟩

/-- the chunk `Spec.walk` makes of leaf element `a` of branch `b` -/
def leafChunk (b : Branch) (a : Nat) : Chunk :=
  let get (i : Nat) : Rng := match makeCRange b i with | .ok r => r | .error _ => default
  ⟨⟨b.dOff a, b.dOff (a + 1)⟩, get a, get (b.stag.getD a 0xFF), get (b.ttag.getD a 0),
    b.stag.getD a 0xFF, b.ttag.getD a 0, b.codec⟩

mutual
/-- the chunks of a subtree whose DRange starts at `db`, in DSpace order -/
def chunksOfNode (nw : NodeWriter) : WNode → Nat → List Chunk
  | .mk _ cs rs _ _ _ c, db =>
    chunksOfList nw (parsedBranch nw cs rs c 0 0 db) ((codecIsLong c).toNat + rs.length) cs
/-- … of the children `os` that are elements `a, a+1, …` of the parsed branch `b` -/
def chunksOfList (nw : NodeWriter) (b : Branch) : Nat → List WNode → List Chunk
  | _, [] => []
  | a, o :: os =>
    (if o.isBranch then chunksOfNode nw o (b.dOff a) else [leafChunk b a]) ++ chunksOfList nw b (a + 1) os
end

theorem leafChunk_off (nw : NodeWriter) (cs : List WNode) (rs : List Nat) (c off off' cb db a : Nat) :
    leafChunk (parsedBranch nw cs rs c off cb db) a = leafChunk (parsedBranch nw cs rs c off' cb db) a := rfl


section walk
variable (file : Array UInt8) (nw : NodeWriter) (cs : List WNode) (rs : List Nat) (c : Nat)
  (ok : NodeOK nw cs rs c) (off db : Nat)
include ok

/-- the Codec Element and the resources are skipped -/
theorem walk_skip (a : Nat) (ha : a < (codecIsLong c).toNat + rs.length) (f : Nat) (acc : List Chunk) :
    walk file (f + 1) (parsedBranch nw cs rs c off 0 db) a acc =
      walk file f (parsedBranch nw cs rs c off 0 db) (a + 1) acc := by
  have hne : cs.length ≠ 0 := fun h0 => ok.nonempty (List.eq_nil_of_length_eq_zero h0)
  rw [walk]
  rw [if_neg (by rw [pb_arity]; omega)]
  have h1 := pb_dOff nw cs rs c ok off 0 db a (by omega)
  have h2 := pb_dOff nw cs rs c ok off 0 db (a + 1) (by omega)
  rw [vD_pre cs rs c a (by omega)] at h1
  rw [vD_pre cs rs c (a + 1) (by omega)] at h2
  simp only [h1, h2, beq_self_eq_true, Bool.true_or, ↓reduceIte]

omit ok in
theorem tagByte_ge (r tb : Nat) (h : tb ≤ 1) : tb ≤ resourceToTagByte rs r tb := by
  unfold resourceToTagByte
  split
  · split <;> omega
  · omega

omit ok in
theorem long_le_one : (codecIsLong c).toNat ≤ 1 := by cases codecIsLong c <;> simp

/-- a leaf child becomes a chunk -/
theorem walk_leaf (j : Nat) (hj : j < cs.length) (hleaf : (cs.getD j default).isBranch = false)
    (hpos : (cs.getD j default).dRangeSize > 0) (f : Nat) (acc : List Chunk) :
    walk file (f + 1) (parsedBranch nw cs rs c off 0 db) ((codecIsLong c).toNat + rs.length + j) acc =
      walk file f (parsedBranch nw cs rs c off 0 db) ((codecIsLong c).toNat + rs.length + j + 1)
        (leafChunk (parsedBranch nw cs rs c off 0 db) ((codecIsLong c).toNat + rs.length + j) :: acc) := by
  have hL := long_le_one c
  have hA : (codecIsLong c).toNat + rs.length + j < cs.length + rs.length + (codecIsLong c).toNat := by omega
  rw [walk]
  rw [if_neg (by rw [pb_arity]; omega)]
  have h1 := pb_dOff nw cs rs c ok off 0 db _ (Nat.le_of_lt hA)
  have h2 := pb_dOff nw cs rs c ok off 0 db ((codecIsLong c).toNat + rs.length + j + 1) (by omega)
  have e1 : vD cs rs c ((codecIsLong c).toNat + rs.length + j) = prefixSize cs j := by unfold vD; congr 1; omega
  have e2 : vD cs rs c ((codecIsLong c).toNat + rs.length + j + 1) = prefixSize cs (j + 1) := by unfold vD; congr 1; omega
  rw [e1] at h1
  rw [e2, prefixSize_succ cs j hj] at h2
  have ht := pb_ttag nw cs rs c ok off 0 db _ hA
  have hvt : vT cs rs c ((codecIsLong c).toNat + rs.length + j) =
      resourceToTagByte rs (cs.getD j default).tertiary (codecIsLong c).toNat := by
    unfold vT
    rw [if_neg (by omega), if_neg (by omega)]
    simp only [show (codecIsLong c).toNat + rs.length + j - (codecIsLong c).toNat - rs.length = j by omega]
    unfold childTTag; rw [hleaf]; simp
  rw [hvt] at ht
  have hs := pb_stag nw cs rs c ok off 0 db _ hA
  rw [vS_child] at hs
  have hz := resourceToTagByte_zone rs (cs.getD j default).tertiary (codecIsLong c).toNat (res_zone nw cs rs c ok)
  have hne1 : (db + prefixSize cs j == db + (prefixSize cs j + (cs.getD j default).dRangeSize)) = false := by
    rw [beq_eq_false_iff_ne]; omega
  have c1 : (resourceToTagByte rs (cs.getD j default).tertiary (codecIsLong c).toNat == 253) = false := by
    rw [beq_eq_false_iff_ne]; omega
  have c2 : (resourceToTagByte rs (cs.getD j default).tertiary (codecIsLong c).toNat == 254) = false := by
    rw [beq_eq_false_iff_ne]; omega
  obtain ⟨r1, g1, _⟩ := pb_makeCRange nw cs rs c ok off 0 db ((codecIsLong c).toNat + rs.length + j) (by omega)
  obtain ⟨r2, g2, _⟩ := pb_makeCRange nw cs rs c ok off 0 db
    (resourceToTagByte rs (cs.getD j default).secondary (codecIsLong c).toNat)
    (by have := tagByte_ge rs (cs.getD j default).secondary _ hL; omega)
  obtain ⟨r3, g3, _⟩ := pb_makeCRange nw cs rs c ok off 0 db
    (resourceToTagByte rs (cs.getD j default).tertiary (codecIsLong c).toNat)
    (by have := tagByte_ge rs (cs.getD j default).tertiary _ hL; omega)
  simp only [h1, h2, ht, hs, hne1, c1, c2, Bool.or_false, Bool.false_eq_true, ↓reduceIte, g1, g2, g3,
    leafChunk]

omit ok in
theorem resourceToTagByte_zero (tb : Nat) : resourceToTagByte rs 0 tb = 0xFF := by
  unfold resourceToTagByte; simp

/-- loading a placed branch child -/
theorem loadChild_ok (hfs : file.size = nw.cFileSize) (j : Nat) (hj : j < cs.length)
    (d' : Nat) (cs' : List WNode) (rs' : List Nat) (col' s' t' : Nat)
    (ho : cs.getD j default = .mk d' cs' rs' col' s' t' c) (hs' : s' = 0)
    (ok' : NodeOK nw cs' rs' c)
    (hat : AtPos file (col' % 2 ^ 48 + nw.indexCOffset) (nodeBytesOf nw cs' rs' c))
    (hd' : d' = (cs'.map WNode.dRangeSize).sum) (hlt : d' < (cs.map WNode.dRangeSize).sum) :
    loadChild file (parsedBranch nw cs rs c off 0 db) ((codecIsLong c).toNat + rs.length + j) =
      .ok (parsedBranch nw cs' rs' c (col' % 2 ^ 48 + nw.indexCOffset) 0 (db + prefixSize cs j)) := by
  have hL := long_le_one c
  have hne' : cs'.length ≠ 0 := fun h0 => ok'.nonempty (List.eq_nil_of_length_eq_zero h0)
  have hA : (codecIsLong c).toNat + rs.length + j < cs.length + rs.length + (codecIsLong c).toNat := by omega
  have hbr : (cs.getD j default).isBranch = true := by
    rw [ho]; simp only [WNode.isBranch, WNode.children]
    cases cs' with
    | nil => exact absurd rfl ok'.nonempty
    | cons _ _ => rfl
  have hco := pb_cOff nw cs rs c ok off 0 db _ (Nat.le_of_lt hA)
  rw [vCO_child nw cs rs c j hj, hbr] at hco
  simp only [↓reduceIte, Nat.zero_add] at hco
  rw [ho] at hco; simp only [WNode.cOffsetCLength] at hco
  have hst := pb_stag nw cs rs c ok off 0 db _ hA
  rw [vS_child, ho] at hst; simp only [WNode.secondary] at hst
  rw [hs', resourceToTagByte_zero] at hst
  have h1 := pb_dOff nw cs rs c ok off 0 db _ (Nat.le_of_lt hA)
  have h2 := pb_dOff nw cs rs c ok off 0 db ((codecIsLong c).toNat + rs.length + j + 1) (by omega)
  have e1 : vD cs rs c ((codecIsLong c).toNat + rs.length + j) = prefixSize cs j := by unfold vD; congr 1; omega
  have e2 : vD cs rs c ((codecIsLong c).toNat + rs.length + j + 1) = prefixSize cs (j + 1) := by unfold vD; congr 1; omega
  rw [e1] at h1
  rw [e2, prefixSize_succ cs j hj, ho] at h2; simp only [WNode.dRangeSize] at h2
  have hmax := pb_cOffMax nw cs rs c ok off 0 db
  have hbound := atPos_bound hat
  rw [nodeBytesOf_length, hfs] at hbound
  have hg3 := atPos_get hat 3 (by rw [nodeBytesOf_length]; omega)
  have hg3' : (file.getD (col' % 2 ^ 48 + nw.indexCOffset + 3) 0).toNat =
      cs'.length + rs'.length + (codecIsLong c).toNat := by
    rw [hg3]; exact nb_get3 nw cs' rs' c ok'.arity
  have hslice : slice file (col' % 2 ^ 48 + nw.indexCOffset) ((cs'.length + rs'.length + (codecIsLong c).toNat) * 16 + 16) =
      some (nodeBytesOf nw cs' rs' c) := by
    have := hat; unfold AtPos at this; rwa [nodeBytesOf_length] at this
  have hparse := parse_nodeBytes nw cs' rs' c ok' (col' % 2 ^ 48 + nw.indexCOffset) 0 (db + prefixSize cs j)
  have hA255 := ok.arity
  unfold loadChild loadBranch
  simp only [hco, hst, h1, h2, hmax, pb_arity, hg3', hslice, bind, Except.bind, pure, Except.pure,
    throw, throwThe, MonadExceptOf.throw]
  rw [if_neg (by omega), if_neg (by omega), if_neg (by rw [hfs]; omega),
    if_neg (show ¬ 255 < cs.length + rs.length + (codecIsLong c).toNat by omega)]
  have hcb : (parsedBranch nw cs rs c off 0 db).cBias = 0 := rfl
  rw [hcb, hparse]
  have v1 := pb_version nw cs' rs' c ok' (col' % 2 ^ 48 + nw.indexCOffset) 0 (db + prefixSize cs j)
  have v2 := pb_version nw cs rs c ok off 0 db
  have v3 := pb_cOffMax nw cs' rs' c ok' (col' % 2 ^ 48 + nw.indexCOffset) 0 (db + prefixSize cs j)
  have v4 := pb_dPtrMax nw cs' rs' c ok' (col' % 2 ^ 48 + nw.indexCOffset) 0 (db + prefixSize cs j)
  have v5 := pb_dPtrMax nw cs rs c ok off 0 db
  have v6 : (parsedBranch nw cs' rs' c (col' % 2 ^ 48 + nw.indexCOffset) 0 (db + prefixSize cs j)).codec =
      (parsedBranch nw cs rs c off 0 db).codec := rfl
  have v7 : (parsedBranch nw cs' rs' c (col' % 2 ^ 48 + nw.indexCOffset) 0 (db + prefixSize cs j)).dBias =
      db + prefixSize cs j := rfl
  simp only [v1, v2, v3, v4, v5, v6, v7, bne_self_eq_false, Bool.and_false, Bool.false_eq_true, ↓reduceIte,
    gt_iff_lt, Nat.lt_irrefl]
  rw [if_neg (by rw [bne_iff_ne]; omega)]
  rw [if_neg]
  have : decide ((List.map WNode.dRangeSize cs').sum < (List.map WNode.dRangeSize cs).sum) = true := by
    rw [decide_eq_true_eq]; omega
  simp [this]

/-- a branch child is loaded and walked -/
theorem walk_branch (hfs : file.size = nw.cFileSize) (j : Nat) (hj : j < cs.length)
    (d' : Nat) (cs' : List WNode) (rs' : List Nat) (col' s' t' : Nat)
    (ho : cs.getD j default = .mk d' cs' rs' col' s' t' c) (hs' : s' = 0)
    (ok' : NodeOK nw cs' rs' c)
    (hat : AtPos file (col' % 2 ^ 48 + nw.indexCOffset) (nodeBytesOf nw cs' rs' c))
    (hd' : d' = (cs'.map WNode.dRangeSize).sum) (hlt : d' < (cs.map WNode.dRangeSize).sum) (hpos : d' > 0)
    (f : Nat) (acc : List Chunk) :
    walk file (f + 1) (parsedBranch nw cs rs c off 0 db) ((codecIsLong c).toNat + rs.length + j) acc =
      match walk file f (parsedBranch nw cs' rs' c (col' % 2 ^ 48 + nw.indexCOffset) 0 (db + prefixSize cs j)) 0 acc with
      | .error e => .error e
      | .ok acc' => walk file f (parsedBranch nw cs rs c off 0 db) ((codecIsLong c).toNat + rs.length + j + 1) acc' := by
  have hA : (codecIsLong c).toNat + rs.length + j < cs.length + rs.length + (codecIsLong c).toNat := by omega
  have hbr : (cs.getD j default).isBranch = true := by
    rw [ho]; simp only [WNode.isBranch, WNode.children]
    cases cs' with
    | nil => exact absurd rfl ok'.nonempty
    | cons _ _ => rfl
  rw [walk]
  rw [if_neg (by rw [pb_arity]; omega)]
  have h1 := pb_dOff nw cs rs c ok off 0 db _ (Nat.le_of_lt hA)
  have h2 := pb_dOff nw cs rs c ok off 0 db ((codecIsLong c).toNat + rs.length + j + 1) (by omega)
  have e1 : vD cs rs c ((codecIsLong c).toNat + rs.length + j) = prefixSize cs j := by unfold vD; congr 1; omega
  have e2 : vD cs rs c ((codecIsLong c).toNat + rs.length + j + 1) = prefixSize cs (j + 1) := by unfold vD; congr 1; omega
  rw [e1] at h1
  rw [e2, prefixSize_succ cs j hj, ho] at h2; simp only [WNode.dRangeSize] at h2
  have ht := pb_ttag nw cs rs c ok off 0 db _ hA
  have hvt : vT cs rs c ((codecIsLong c).toNat + rs.length + j) = 0xFE := by
    unfold vT
    rw [if_neg (by omega), if_neg (by omega)]
    simp only [show (codecIsLong c).toNat + rs.length + j - (codecIsLong c).toNat - rs.length = j by omega]
    unfold childTTag; rw [hbr]; simp
  rw [hvt] at ht
  have hne1 : (db + prefixSize cs j == db + (prefixSize cs j + d')) = false := by
    rw [beq_eq_false_iff_ne]; omega
  have hl := loadChild_ok file nw cs rs c ok off db hfs j hj d' cs' rs' col' s' t' ho hs' ok' hat hd' hlt
  simp only [h1, h2, ht, hne1, hl]
  rfl

/-- skipping the Codec Element and all resources -/
theorem walk_skips (k : Nat) : ∀ (a : Nat), a + k = (codecIsLong c).toNat + rs.length → ∀ (fuel : Nat) (acc : List Chunk),
    fuel ≥ k →
    walk file fuel (parsedBranch nw cs rs c off 0 db) a acc =
      walk file (fuel - k) (parsedBranch nw cs rs c off 0 db) ((codecIsLong c).toNat + rs.length) acc := by
  induction k with
  | zero => intro a ha fuel acc _; rw [Nat.add_zero] at ha; rw [ha, Nat.sub_zero]
  | succ k ih =>
    intro a ha fuel acc hf
    obtain ⟨f, rfl⟩ : ∃ f, fuel = f + 1 := ⟨fuel - 1, by omega⟩
    rw [walk_skip file nw cs rs c ok off db a (by omega) f acc, ih (a + 1) (by omega) f acc (by omega)]
    congr 1; omega
end walk

theorem iszNode_leaf (o : WNode) (h : o.isBranch = false) : iszNode o = 0 := by
  cases o with
  | mk d cs rs col s t c =>
    simp only [WNode.isBranch, WNode.children, Bool.not_eq_eq_eq_not, Bool.not_false] at h
    simp [iszNode, h]

/-- **index walk**: on a file in which the tree is laid out, `Spec.walk` lists exactly the tree's chunks -/
theorem walk_tree (file : Array UInt8) (nw : NodeWriter) (hfs : file.size = nw.cFileSize) (n : WNode) (db : Nat) :
    ∀ (d : Nat) (cs : List WNode) (rs : List Nat) (col s t c : Nat), n = .mk d cs rs col s t c → cs ≠ [] →
      Placed file nw n → ∀ (off fuel : Nat) (acc : List Chunk), fuel ≥ iszNode n →
      walk file fuel (parsedBranch nw cs rs c off 0 db) 0 acc = .ok ((chunksOfNode nw n db).reverse ++ acc) := by
  refine chunksOfNode.induct nw
    (fun n db => ∀ (d : Nat) (cs : List WNode) (rs : List Nat) (col s t c : Nat), n = .mk d cs rs col s t c → cs ≠ [] →
      Placed file nw n → ∀ (off fuel : Nat) (acc : List Chunk), fuel ≥ iszNode n →
      walk file fuel (parsedBranch nw cs rs c off 0 db) 0 acc = .ok ((chunksOfNode nw n db).reverse ++ acc))
    (fun b a os => ∀ (cs : List WNode) (rs : List Nat) (c d db : Nat) (pre : List WNode), cs = pre ++ os →
      a = (codecIsLong c).toNat + rs.length + pre.length → b = parsedBranch nw cs rs c 0 0 db →
      NodeOK nw cs rs c → PlacedList file nw c d os → d = (cs.map WNode.dRangeSize).sum →
      ∀ (off fuel : Nat) (acc : List Chunk),
      fuel ≥ (cs.length + rs.length + (codecIsLong c).toNat + 1 - a) + iszList os →
      walk file fuel (parsedBranch nw cs rs c off 0 db) a acc = .ok ((chunksOfList nw b a os).reverse ++ acc))
    ?_ ?_ ?_ n db
  · -- a node
    intro d cs rs col s t c db ih d' cs' rs' col' s' t' c' heq hne hpl off fuel acc hf
    injection heq with e1 e2 e3 e4 e5 e6 e7
    subst e1 e2 e3 e4 e5 e6 e7
    simp only [Placed] at hpl
    obtain ⟨hpos, hpl⟩ := hpl
    rcases hpl with h | ⟨ok, hat, hd, hlist⟩
    · exact absurd h hne
    · have hisz : iszNode (.mk d cs rs col s t c) =
          (cs.length + rs.length + (codecIsLong c).toNat) * 16 + 16 + iszList cs := by
        cases cs with
        | nil => exact absurd rfl hne
        | cons _ _ => simp [iszNode]
      rw [hisz] at hf
      rw [walk_skips file nw cs rs c ok off db ((codecIsLong c).toNat + rs.length) 0 (by omega) fuel acc (by omega)]
      rw [ih cs rs c d db [] rfl (by simp) rfl ok hlist hd off _ acc (by omega)]
      simp only [chunksOfNode]
  · -- no children left
    intro b a cs rs c d db pre hcs ha hb ok hl hd off fuel acc hf
    rw [List.append_nil] at hcs
    subst hcs
    obtain ⟨f, rfl⟩ : ∃ f, fuel = f + 1 := ⟨fuel - 1, by omega⟩
    rw [walk, if_pos (by rw [pb_arity]; omega)]
    simp [chunksOfList]
  · -- child `o`, then the rest
    intro b a o os ih1 ih2 cs rs c d db pre hcs ha hb ok hl hd off fuel acc hf
    have hj : pre.length < cs.length := by rw [hcs]; simp
    have hget : cs.getD pre.length default = o := by
      rw [hcs]; simp [List.getD_eq_getElem?_getD]
    simp only [PlacedList] at hl
    obtain ⟨hpo, hbro, hrest⟩ := hl
    simp only [iszList] at hf
    obtain ⟨f, rfl⟩ : ∃ f, fuel = f + 1 := ⟨fuel - 1, by omega⟩
    have hcs' : cs = (pre ++ [o]) ++ os := by rw [hcs]; simp
    have ha' : a + 1 = (codecIsLong c).toNat + rs.length + (pre ++ [o]).length := by simp; omega
    subst ha
    by_cases hbr : o.isBranch = true
    · -- a branch child
      obtain ⟨hc', hs', hlt⟩ := hbro hbr
      cases o with
      | mk d' cs' rs' col' s' t' c' =>
        simp only [WNode.codec, WNode.secondary, WNode.dRangeSize] at hc' hs' hlt
        subst hc'
        have hne' : cs' ≠ [] := by
          intro h; rw [h] at hbr; simp [WNode.isBranch, WNode.children] at hbr
        simp only [Placed] at hpo
        obtain ⟨hpos', hpo'⟩ := hpo
        rcases hpo' with h | ⟨ok', hat', hd', hlist'⟩
        · exact absurd h hne'
        · rw [walk_branch file nw cs rs c' ok off db hfs pre.length hj d' cs' rs' col' s' t' hget hs' ok' hat' hd'
            (by omega) hpos' f acc]
          have hdoff : b.dOff ((codecIsLong c').toNat + rs.length + pre.length) = db + prefixSize cs pre.length := by
            rw [hb]
            have := pb_dOff nw cs rs c' ok 0 0 db ((codecIsLong c').toNat + rs.length + pre.length) (by omega)
            rw [this]; unfold vD; congr 2; omega
          have h1 := ih1 d' cs' rs' col' s' t' c' rfl hne' ⟨hpos', Or.inr ⟨ok', hat', hd', hlist'⟩⟩
            (col' % 2 ^ 48 + nw.indexCOffset) f acc (by omega)
          rw [hdoff] at h1
          rw [h1]
          simp only
          rw [ih2 cs rs c' d db (pre ++ [WNode.mk d' cs' rs' col' s' t' c']) hcs' ha' hb ok hrest hd off f _ (by
            have : iszNode (WNode.mk d' cs' rs' col' s' t' c') ≥ 0 := Nat.zero_le _
            omega)]
          simp only [chunksOfList, hbr, ↓reduceIte, List.reverse_append, List.append_assoc, hdoff]
    · -- a leaf child
      have hbr' : o.isBranch = false := by simpa using hbr
      have hpos : (cs.getD pre.length default).dRangeSize > 0 := by
        rw [hget]
        cases o with
        | mk d' cs' rs' col' s' t' c' => simp only [Placed] at hpo; exact hpo.1
      rw [walk_leaf file nw cs rs c ok off db pre.length hj (by rw [hget]; exact hbr') hpos f acc]
      rw [iszNode_leaf o hbr'] at hf
      rw [ih2 cs rs c d db (pre ++ [o]) hcs' ha' hb ok hrest hd off f _ (by omega)]
      simp only [chunksOfList, hbr', Bool.false_eq_true, ↓reduceIte, List.reverse_append, List.append_assoc, hb]
      rfl
end WuffsVerif.Rac
