/-
C18: the error budget of `Proof/JpegDctBound.lean` in a form that is cheap to evaluate in the
kernel (the 64×64×64 sum `Σ_j |Σ_k g k · c k j − 2^80 [i = j]|` is computed through the separable
structure `c k j = cos[x_j, u_k] · cos[y_j, v_k]`, sharing the inner sums as lists), and the proof
that it is the same number.  The kernel evaluations themselves are in `JpegDctBudgetA/B.lean`.
-/
import WuffsVerif.Proof.JpegDctBound

open WuffsVerif.Gen.C18 WuffsVerif.Jpeg WuffsVerif.Jpeg.Dct WuffsVerif.Jpeg.DctP

namespace WuffsVerif.Jpeg.DctB

/-- Σ over two lists -/
def dotL : List Int → List Int → Int
  | a :: as, b :: bs => a * b + dotL as bs
  | _, _ => 0

def sumL : List Int → Int
  | [] => 0
  | a :: as => a + sumL as

/-- the cosine row `[cosAtL x 0, …, cosAtL x 7]` -/
def cosRow (x : Nat) : List Int := (List.range 8).map (fun u => cosAtL x u)

/-- `gL i`, as 8 columns (u) of 8 (v) -/
def gCols (i : Nat) : List (List Int) :=
  (List.range 8).map (fun u => (List.range 8).map (fun v => gL i (8 * v + u)))

/-- `[Σ_v g(8v+u) · cos[y, v]]_u` -/
def hRow (g : List (List Int)) (y : Nat) : List Int := g.map (fun col => dotL col (cosRow y))

/-- `Σ_x |M i (8y+x) − 2^80 [8y+x = i]|`, given the shared inner sums `h` of row `y` -/
def rowSum (i y : Nat) (h : List Int) : Int :=
  sumL ((List.range 8).map (fun x =>
    absI (dotL h (cosRow x) - (if 8 * y + x = i then 1208925819614629174706176 else 0))))

def e1Sum (i : Nat) : Int := sumL ((List.range 8).map (fun y => rowSum i y (hRow (gCols i) y)))

/-- `budget i`, computed through the separable structure -/
def budgetC (i : Nat) : Int := 128 * e1Sum i + adot (fun k => wL k i) rnd (List.range 64)

def budgetOK (i : Nat) : Bool := decide (budgetC i ≤ 4250000000000000000000000)

theorem range8 : List.range 8 = [0, 1, 2, 3, 4, 5, 6, 7] := by decide

theorem range64 : List.range 64 =
    [0, 1, 2, 3, 4, 5, 6, 7, 8, 9, 10, 11, 12, 13, 14, 15, 16, 17, 18, 19, 20, 21, 22, 23, 24, 25, 26, 27, 28, 29, 30, 31,
     32, 33, 34, 35, 36, 37, 38, 39, 40, 41, 42, 43, 44, 45, 46, 47, 48, 49, 50, 51, 52, 53, 54, 55, 56, 57, 58, 59, 60, 61, 62, 63] := by
  decide

/-- a flat sum over k = 8v + u of separable weights, as nested sums over u and v -/
theorem flat64_eq (g cx cy : Nat → Int) :
    dot g (fun k => cx (k % 8) * cy (k / 8)) (List.range 64) =
      dotL ((List.range 8).map (fun u => dotL ((List.range 8).map (fun v => g (8 * v + u))) ((List.range 8).map cy)))
        ((List.range 8).map cx) := by
  rw [range64, range8]
  simp only [dot, dotL, List.map, Nat.reduceMod, Nat.reduceDiv, Nat.reduceMul, Nat.reduceAdd]
  ring

theorem asum_flat (E : Nat → Int) :
    asum E (List.range 64) =
      sumL ((List.range 8).map (fun y => sumL ((List.range 8).map (fun x => absI (E (8 * y + x)))))) := by
  rw [range64, range8]
  simp only [asum, sumL, List.map, Nat.reduceMul, Nat.reduceAdd]
  omega

theorem mL_eq (i x y : Nat) (hx : x < 8) : mL i (8 * y + x) = dotL (hRow (gCols i) y) (cosRow x) := by
  unfold mL
  have hc : (fun k => cK k (8 * y + x)) = (fun k => cosAtL x (k % 8) * cosAtL y (k / 8)) := by
    funext k
    simp only [cK, c32L]
    rw [show (8 * y + x) % 8 = x by omega, show (8 * y + x) / 8 = y by omega]
  rw [hc, flat64_eq]
  simp only [hRow, gCols, cosRow, List.map_map]
  rfl

theorem budget_eq (i : Nat) : budget i = budgetC i := by
  unfold budget budgetC e1Sum
  rw [asum_flat]
  congr 2
  apply congrArg sumL
  apply List.map_congr_left
  intro y _
  unfold rowSum
  apply congrArg sumL
  apply List.map_congr_left
  intro x hx
  rw [List.mem_range] at hx
  simp only [eL]
  rw [mL_eq i x y hx]

end WuffsVerif.Jpeg.DctB
