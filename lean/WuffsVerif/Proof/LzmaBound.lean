/-
C17: the decoders are total (they are structurally recursive Lean functions) and their output is
bounded by a fixed multiple of the input, for ARBITRARY input bytes.

Each decoded bit shrinks `width` by a factor ≤ 2018/2048 (probabilities stay in [31, 2017]); `width`
lives in [2^24, 2^32) and is multiplied by 256 only when a source byte is consumed; since
(2048/2018)^377 > 2^8, at most 377 bits can be decoded per source byte.  The integer potential
`pot width + 378 * |src|` drops by at least one with every decoded bit.
-/
import WuffsVerif.Proof.LzmaRange

namespace WuffsVerif.Lzma

/-- `cnt n w` = number of `k < n` with `2^24 * (2048/2018)^k ≤ w` -/
def cnt : Nat → Nat → Nat
  | 0, _ => 0
  | n + 1, w => cnt n w + (if 16777216 * 2048 ^ n ≤ w * 2018 ^ n then 1 else 0)

/-- how many more times `w` can shrink by 2018/2048 before it drops below 2^24 (plus one) -/
def pot (w : Nat) : Nat := cnt 377 w

theorem cnt_le (n w : Nat) : cnt n w ≤ n := by
  induction n with
  | zero => simp [cnt]
  | succ n ih => simp only [cnt]; split <;> omega

theorem cnt_step (w w' : Nat) (h0 : 16777216 ≤ w) (h : w' * 2048 ≤ w * 2018) :
    ∀ n, cnt n w' + 1 ≤ cnt (n + 1) w := by
  intro n
  induction n with
  | zero =>
    show 0 + 1 ≤ 0 + (if 16777216 * 2048 ^ 0 ≤ w * 2018 ^ 0 then 1 else 0)
    rw [if_pos (by simpa using h0)]
    exact Nat.le_refl _
  | succ n ih =>
    have hstep : 16777216 * 2048 ^ n ≤ w' * 2018 ^ n → 16777216 * 2048 ^ (n + 1) ≤ w * 2018 ^ (n + 1) := by
      intro hp
      calc 16777216 * 2048 ^ (n + 1) = (16777216 * 2048 ^ n) * 2048 := by rw [Nat.pow_succ, Nat.mul_assoc]
        _ ≤ (w' * 2018 ^ n) * 2048 := Nat.mul_le_mul_right _ hp
        _ = (w' * 2048) * 2018 ^ n := by rw [Nat.mul_assoc, Nat.mul_comm (2018 ^ n), ← Nat.mul_assoc]
        _ ≤ (w * 2018) * 2018 ^ n := Nat.mul_le_mul_right _ h
        _ = w * 2018 ^ (n + 1) := by rw [Nat.pow_succ, Nat.mul_assoc, Nat.mul_comm 2018]
    show cnt n w' + (if 16777216 * 2048 ^ n ≤ w' * 2018 ^ n then 1 else 0) + 1
      ≤ cnt (n + 1) w + (if 16777216 * 2048 ^ (n + 1) ≤ w * 2018 ^ (n + 1) then 1 else 0)
    by_cases hp : 16777216 * 2048 ^ n ≤ w' * 2018 ^ n
    · rw [if_pos hp, if_pos (hstep hp)]; omega
    · rw [if_neg hp]; split <;> omega

set_option exponentiation.threshold 400 in
theorem pow_fact : 4294967296 * 2018 ^ 377 < 16777216 * 2048 ^ 377 := by decide

theorem cnt_succ (n w : Nat) :
    cnt (n + 1) w = cnt n w + (if 16777216 * 2048 ^ n ≤ w * 2018 ^ n then 1 else 0) := rfl

theorem cnt_top (n w : Nat) (h : ¬ (16777216 * 2048 ^ n ≤ w * 2018 ^ n)) : cnt (n + 1) w = cnt n w := by
  rw [cnt_succ, if_neg h, Nat.add_zero]

set_option exponentiation.threshold 400 in
theorem pow_fact' (w : Nat) (hw : w < 4294967296) : ¬ (16777216 * 2048 ^ 377 ≤ w * 2018 ^ 377) := by
  intro hc
  have h1 : w * 2018 ^ 377 ≤ 4294967296 * 2018 ^ 377 := Nat.mul_le_mul_right _ (by omega)
  exact absurd (Nat.lt_of_le_of_lt (Nat.le_trans hc h1) pow_fact) (Nat.lt_irrefl _)

/-- one more shrink step costs one unit of potential -/
theorem pot_step (w w' : Nat) (h0 : 16777216 ≤ w) (hw : w < 4294967296) (h : w' * 2048 ≤ w * 2018) :
    pot w' + 1 ≤ pot w := by
  have h1 : cnt 377 w' + 1 ≤ cnt (377 + 1) w := cnt_step w w' h0 h 377
  have h2 : cnt (377 + 1) w = cnt 377 w := cnt_top 377 w (pow_fact' w hw)
  rw [h2] at h1
  exact h1

theorem pot_le (w : Nat) : pot w ≤ 377 := cnt_le 377 w

/-- the decoder's `width` between two bits -/
def WOK (d : RangeDecoder) : Prop := 16777216 ≤ d.width ∧ d.width < 4294967296

/-- the potential: bits still decodable without reading, plus 378 per unread source byte -/
def Psi (d : RangeDecoder) : Nat := pot d.width + 378 * d.src.length

theorem shrink_facts {p w : Nat} (hp : ProbOK p) (hw1 : 16777216 ≤ w) (hw2 : w < 4294967296) :
    thr p w * 2048 ≤ w * 2018 ∧ (w - thr p w) * 2048 ≤ w * 2018 := by
  obtain ⟨hthr, ht0, ht1⟩ := thr_bounds hp hw1 hw2
  obtain ⟨hp1, hp2⟩ := hp
  have a1 : (w / 2048) * p ≤ (w / 2048) * 2017 := Nat.mul_le_mul_left _ hp2
  have a2 : (w / 2048) * 31 ≤ (w / 2048) * p := Nat.mul_le_mul_left _ hp1
  generalize thr p w = t at *
  generalize (w / 2048) * p = tp at *
  constructor <;> omega

/-- **one bit costs one unit**, on arbitrary input -/
theorem decodeBit_pot (p : Nat) (d : RangeDecoder) (b p' : Nat) (d' : RangeDecoder) (hp : ProbOK p)
    (hw : WOK d) (hd : decodeBit p d = some (b, p', d')) : WOK d' ∧ Psi d' + 1 ≤ Psi d := by
  obtain ⟨hw1, hw2⟩ := hw
  obtain ⟨_, ht0, ht1⟩ := thr_bounds hp hw1 hw2
  have hthr' : ((d.width >>> probBits) * p) &&& 0xFFFFFFFF = thr p d.width := rfl
  obtain ⟨s0, s1⟩ := shrink_facts hp hw1 hw2
  have q0 := pot_step d.width (thr p d.width) hw1 hw2 s0
  have q1 := pot_step d.width (d.width - thr p d.width) hw1 hw2 s1
  have l0 := pot_le (thr p d.width * 256 % 4294967296)
  have l1 := pot_le ((d.width - thr p d.width) * 256 % 4294967296)
  unfold decodeBit at hd
  rw [hthr'] at hd
  unfold WOK Psi
  generalize thr p d.width = t at *
  by_cases hlt : d.bits < t
  · simp only [hlt, if_true] at hd
    by_cases hsh : t < 16777216
    · simp only [hsh, if_true] at hd
      cases hsrc : d.src with
      | nil => simp [hsrc] at hd
      | cons s rest =>
        simp only [hsrc] at hd
        cases hd
        simp only [List.length_cons, land32]
        have hm : t * 256 % 4294967296 = t * 256 := Nat.mod_eq_of_lt (by omega)
        rw [hm] at l0 ⊢
        refine ⟨⟨by omega, by omega⟩, by omega⟩
    · simp only [hsh, if_false] at hd
      cases hd
      dsimp only
      refine ⟨⟨by omega, by omega⟩, by omega⟩
  · simp only [hlt, if_false] at hd
    by_cases hsh : d.width - t < 16777216
    · simp only [hsh, if_true] at hd
      cases hsrc : d.src with
      | nil => simp [hsrc] at hd
      | cons s rest =>
        simp only [hsrc] at hd
        cases hd
        simp only [List.length_cons, land32]
        have hm : (d.width - t) * 256 % 4294967296 = (d.width - t) * 256 := Nat.mod_eq_of_lt (by omega)
        rw [hm] at l1 ⊢
        refine ⟨⟨by omega, by omega⟩, by omega⟩
    · simp only [hsh, if_false] at hd
      cases hd
      dsimp only
      refine ⟨⟨by omega, by omega⟩, by omega⟩

theorem decodeBit_probOK (p : Nat) (d : RangeDecoder) (b p' : Nat) (d' : RangeDecoder) (h : ProbOK p)
    (hd : decodeBit p d = some (b, p', d')) : ProbOK p' := by
  unfold decodeBit at hd
  dsimp only at hd
  split at hd
  · split at hd
    · split at hd
      · cases hd
      · cases hd; exact probUp_ok h
    · cases hd; exact probUp_ok h
  · split at hd
    · split at hd
      · cases hd
      · cases hd; exact probDown_ok h
    · cases hd; exact probDown_ok h

theorem decodeByteLoop_pot (base : Nat) : ∀ (n index : Nat) (probs : Array Nat) (d : RangeDecoder)
    (r : Nat × Array Nat × RangeDecoder), ProbsOK probs → WOK d →
    decodeByteLoop base n index probs d = some r →
    ProbsOK r.2.1 ∧ WOK r.2.2 ∧ Psi r.2.2 + n ≤ Psi d := by
  intro n
  induction n with
  | zero =>
    intro index probs d r hp hw h
    simp only [decodeByteLoop] at h
    cases h
    exact ⟨hp, hw, by dsimp only; omega⟩
  | succ n ih =>
    intro index probs d r hp hw h
    simp only [decodeByteLoop] at h
    split at h
    · cases h
    · rename_i bitValue p' d' hd
      obtain ⟨hw', hpsi⟩ := decodeBit_pot _ _ _ _ _ (hp _) hw hd
      have hp' := probsOK_set hp (base + index) _ (decodeBit_probOK _ _ _ _ _ (hp _) hd)
      obtain ⟨r1, r2, r3⟩ := ih _ _ _ r hp' hw' h
      exact ⟨r1, r2, by omega⟩

theorem decodeRawLoop_pot : ∀ (size pos : Nat) (prev : UInt8) (pp lp : Array Nat) (d : RangeDecoder)
    (dst : Array UInt8) (eu : Err), ProbsOK pp → ProbsOK lp → WOK d →
    9 * (decodeRawLoop size pos prev pp lp d dst eu).1.size
        + 378 * (decodeRawLoop size pos prev pp lp d dst eu).2.1.length
      ≤ 9 * dst.size + Psi d := by
  intro size
  induction size with
  | zero =>
    intro pos prev pp lp d dst eu _ _ _
    simp only [decodeRawLoop]
    unfold Psi; omega
  | succ size ih =>
    intro pos prev pp lp d dst eu hpp hlp hw
    simp only [decodeRawLoop]
    split
    · simp only [List.length_nil]; omega
    · rename_i bitValue p' d1 hd1
      obtain ⟨hw1, hpsi1⟩ := decodeBit_pot _ _ _ _ _ (hpp _) hw hd1
      have hpp' := probsOK_set hpp (pos &&& pbMask) _ (decodeBit_probOK _ _ _ _ _ (hpp _) hd1)
      split
      · dsimp only
        unfold Psi at hpsi1 ⊢; omega
      · unfold decodeByte
        split
        · rename_i hnone
          split at hnone
          · simp only [List.length_nil]; omega
          · cases hnone
        · rename_i curr lp' d2 hsome
          split at hsome
          · cases hsome
          · rename_i index probs' d'' hloop
            cases hsome
            obtain ⟨r1, r2, r3⟩ := decodeByteLoop_pot _ _ _ _ _ _ hlp hw1 hloop
            dsimp only at r1 r2 r3
            have := ih ((pos + 1) &&& 0xFFFFFFFF) index.toUInt8 _ _ _ (dst.push index.toUInt8) eu hpp' r1 r2
            rw [Array.size_push] at this
            omega

/-- `decodeRaw`, arbitrary input: `9·|out| + 378·|rest| ≤ 9·|dst| + 378·|src|` -/
theorem decodeRaw_bound (dst : Array UInt8) (src : List UInt8) (size : Nat) (eu : Err) :
    9 * (decodeRaw dst src size eu).1.size + 378 * (decodeRaw dst src size eu).2.1.length
      ≤ 9 * dst.size + 378 * src.length := by
  unfold decodeRaw
  split
  · rename_i s0 s1 s2 s3 s4 rest
    split
    · dsimp only; omega
    · have hw : WOK (⟨rest, (s1.toNat <<< 24) ||| (s2.toNat <<< 16) ||| (s3.toNat <<< 8) ||| s4.toNat,
          0xFFFFFFFF⟩ : RangeDecoder) := by unfold WOK; dsimp only; omega
      have := decodeRawLoop_pot size 0 0 initPosProbs initLitProbs _ dst eu initPosProbs_ok initLitProbs_ok hw
      have hpl := pot_le 0xFFFFFFFF
      unfold Psi at this
      simp only [List.length_cons] at this ⊢
      omega
  · dsimp only; omega

end WuffsVerif.Lzma
