/-
C12, the Wuffs formatter: `appendNum` (digit grouping / upper-casing) preserves the
numeric value of a literal.  Core Lean only.
-/
import WuffsVerif.Model.Render

namespace WuffsVerif.Render

/-- value of a digit character (any case) -/
def digitVal (c : UInt8) : Option Nat :=
  if 48 ≤ c ∧ c ≤ 57 then some (c.toNat - 48)
  else if 97 ≤ c ∧ c ≤ 102 then some (c.toNat - 87)
  else if 65 ≤ c ∧ c ≤ 70 then some (c.toNat - 55)
  else none

/-- value of a digit string in `base`, underscores ignored; `none` if some other byte occurs -/
def valueAux (base : Nat) : Nat → Bytes → Option Nat
  | acc, [] => some acc
  | acc, c :: cs =>
    if c == USCORE then valueAux base acc cs
    else match digitVal c with
      | some d => if d < base then valueAux base (acc * base + d) cs else none
      | none => none

/-- The numeric value of a Wuffs numeric literal's text (`0x…`/`0X…` hexadecimal,
`0b…`/`0B…` binary, otherwise decimal; `_` separators ignored). -/
def numValue (s : Bytes) : Option Nat :=
  match s with
  | 48 :: p :: rest =>
    if p == 88 || p == 120 then valueAux 16 0 rest
    else if p == 66 || p == 98 then valueAux 2 0 rest
    else valueAux 10 0 s
  | _ => valueAux 10 0 s

def upcase (c : UInt8) : UInt8 := if 97 ≤ c then c - 32 else c

theorem digitVal_upcase_nat : ∀ n, n < 256 → (digitVal (UInt8.ofNat n)).isSome →
    digitVal (upcase (UInt8.ofNat n)) = digitVal (UInt8.ofNat n) ∧ upcase (UInt8.ofNat n) ≠ USCORE := by
  decide +kernel

theorem digitVal_upcase (c : UInt8) (h : (digitVal c).isSome) :
    digitVal (upcase c) = digitVal c ∧ upcase c ≠ USCORE := by
  have := digitVal_upcase_nat c.toNat c.toNat_lt
  simp only [UInt8.ofNat_toNat] at this
  exact this h

theorem groupDigits_value (b g : Nat) : ∀ (s : Bytes) (acc d v : Nat),
    valueAux b acc s = some v → valueAux b acc (groupDigits g d s) = some v := by
  intro s
  induction s with
  | nil => intro acc d v h; simpa [groupDigits] using h
  | cons c cs ih =>
    intro acc d v h
    unfold groupDigits
    unfold valueAux at h
    split
    · rename_i hu
      simp only [hu, ↓reduceIte] at h
      exact ih _ _ _ h
    · rename_i hu
      simp only [hu, Bool.false_eq_true, ↓reduceIte] at h
      cases hd : digitVal c with
      | none => simp [hd] at h
      | some dv =>
        simp only [hd] at h
        split at h
        · rename_i hlt
          have hup := digitVal_upcase c (by simp [hd])
          have hne : (upcase c == USCORE) = false := by simpa using hup.2
          have hv : digitVal (upcase c) = some dv := by rw [hup.1, hd]
          have hstep : ∀ t, valueAux b acc (upcase c :: t) = valueAux b (acc * b + dv) t := by
            intro t
            conv => lhs; unfold valueAux
            simp only [hne, Bool.false_eq_true, ↓reduceIte, hv, hlt]
          change valueAux b acc (if d > 0 then (upcase c) :: groupDigits g (d - 1) cs
            else USCORE :: (upcase c) :: groupDigits g (g - 1) cs) = some v
          split
          · rw [hstep]; exact ih _ _ _ h
          · have : valueAux b acc (USCORE :: upcase c :: groupDigits g (g - 1) cs) =
                valueAux b acc (upcase c :: groupDigits g (g - 1) cs) := by
              conv => lhs; unfold valueAux
              simp
            rw [this, hstep]; exact ih _ _ _ h
        · simp at h

theorem groupBody_value (b g : Nat) (s : Bytes) (v : Nat) (h : valueAux b 0 s = some v) :
    valueAux b 0 (groupBody g s) = some v :=
  groupDigits_value b g s 0 _ v h

/-- a text that reads as a decimal number is not mistaken for a hex / binary one -/
theorem numValue_of_decimal (t : Bytes) (v : Nat) (h : valueAux 10 0 t = some v) : numValue t = some v := by
  unfold numValue
  split
  · rename_i p rest
    split
    · rename_i hp
      exfalso
      have hp' : p = 88 ∨ p = 120 := by simpa using hp
      rcases hp' with rfl | rfl <;> simp [valueAux, digitVal, USCORE] at h
    · split
      · rename_i hp
        exfalso
        have hp' : p = 66 ∨ p = 98 := by simpa using hp
        rcases hp' with rfl | rfl <;> simp [valueAux, digitVal, USCORE] at h
      · exact h
  · exact h

/-- `appendNum_value`: re-grouping the digits and upper-casing them preserves the numeric
value of every well-formed literal text (hexadecimal, binary or decimal). -/
theorem appendNum_value (s : Bytes) (v : Nat) (h : numValue s = some v) : numValue (appendNum s) = some v := by
  unfold appendNum
  split
  · rename_i p rest
    unfold numValue at h
    simp only at h
    split
    · rename_i hp
      simp only [hp, ↓reduceIte] at h
      simp [numValue, groupBody_value 16 4 rest v h]
    · rename_i hp
      simp only [hp, Bool.false_eq_true, ↓reduceIte] at h
      split
      · rename_i hp2
        simp only [hp2, ↓reduceIte] at h
        simp [numValue, groupBody_value 2 4 rest v h]
      · rename_i hp2
        simp only [hp2, Bool.false_eq_true, ↓reduceIte] at h
        exact numValue_of_decimal _ _ (groupBody_value 10 6 _ v h)
  · rename_i hs
    have h' : valueAux 10 0 s = some v := by
      unfold numValue at h
      split at h
      · rename_i p rest
        exact absurd rfl (hs p rest)
      · exact h
    exact numValue_of_decimal _ _ (groupBody_value 10 6 _ v h')

/-- non-vacuity: `0Xdead_beef` is regrouped to `0xDEAD_BEEF`, value 3735928559 -/
example : appendNum [48, 88, 100, 101, 97, 100, 95, 98, 101, 101, 102] =
      [48, 120, 68, 69, 65, 68, 95, 66, 69, 69, 70] ∧
    numValue [48, 88, 100, 101, 97, 100, 95, 98, 101, 101, 102] = some 3735928559 := by
  decide

end WuffsVerif.Render
