/-
Helper lemmas about `Model/Parse.lean`, part 3: top-level declarations and the file loop.
-/
import WuffsVerif.Proof.ParseStmtLemmas

namespace WuffsVerif.Parse
open WuffsVerif.Token WuffsVerif.Gen.C11

attribute [local irreducible] checkAssignLHS terminatesList typeInnermost stripArrays
  asSmallPositiveInt256 isChooseCPUArch validConstName containsDoubleUnderscore isStatusMessageTok

theorem good_semicolon : Good semicolon := (good1_expect IDSemicolon (by decide)).good

macro_rules | `(tactic| good_leaf) => `(tactic| exact good_semicolon)

theorem good_parseFieldNode1 (env : Env) (e t b flags : Nat) :
    Good (parseFieldNode1 env e t b flags) := by
  have hT := (core_good env _ e t b rfl).typeExpr
  unfold parseFieldNode1; good_auto

macro_rules | `(tactic| good_leaf) => `(tactic| exact good_parseFieldNode1 _ _ _ _ _)

theorem good_parseExtraFieldNode (env : Env) (e t b : Nat) :
    Good (parseExtraFieldNode env e t b) := by
  unfold parseExtraFieldNode; good_auto

macro_rules | `(tactic| good_leaf) => `(tactic| exact good_parseExtraFieldNode _ _ _ _)

theorem good_parseUseDecl (env : Env) (line : Nat) : Good (parseUseDecl env line) := by
  unfold parseUseDecl; good_auto

theorem good_parseConstDecl (env : Env) (e t b f l : Nat) : Good (parseConstDecl env e t b f l) := by
  have hc := core_good env _ e t b rfl
  have hT := hc.typeExpr
  have hP := hc.possibleList
  unfold parseConstDecl; good_auto

set_option maxHeartbeats 1600000 in
theorem good_parseFuncAsserts (env : Env) (pe : P Node) (hpe : Good pe) (f eff id0 : Nat) :
    Good (parseFuncAsserts env pe f eff id0) := by
  unfold parseFuncAsserts; good_auto

macro_rules | `(tactic| good_leaf) => `(tactic| apply good_parseFuncAsserts)

set_option maxHeartbeats 3200000 in
theorem good_parseFuncDecl (env : Env) (e t b f l : Nat) : Good (parseFuncDecl env e t b f l) := by
  have hc := core_good env _ e t b rfl
  have hT := hc.typeExpr
  have hE := hc.expr
  have hB := (stmt_good env e t b).block false
  unfold parseFuncDecl; good_auto

theorem good_parseStatusDecl (env : Env) (f l : Nat) : Good (parseStatusDecl env f l) := by
  unfold parseStatusDecl; good_auto

set_option maxHeartbeats 3200000 in
theorem good_parseStructDecl (env : Env) (e t b f l : Nat) : Good (parseStructDecl env e t b f l) := by
  unfold parseStructDecl; good_auto

theorem good_parseVisibleDecl (env : Env) (e t b f l : Nat) :
    Good (parseVisibleDecl env e t b f l) := by
  have h1 := good_parseConstDecl env e t b f l
  have h2 := good_parseFuncDecl env e t b f l
  have h3 := good_parseStatusDecl env f l
  have h4 := good_parseStructDecl env e t b f l
  unfold parseVisibleDecl; good_auto

/-- A top-level declaration consumes at least its first keyword. -/
theorem good1_parseTopLevelDecl (env : Env) (e t b : Nat) :
    Good1 (parseTopLevelDecl env e t b) := ⟨fun s => by
  unfold parseTopLevelDecl
  apply ok1_bind_right (good_curLine.ok s)
  intro line s0 hrun0
  obtain ⟨l0, hl0⟩ := run_curLine s
  rw [hl0] at hrun0
  simp at hrun0
  obtain ⟨_, hs0⟩ := hrun0
  subst hs0
  apply ok1_bind_right (good_peek1.ok s)
  intro k s1 hrun1
  obtain ⟨hs1, hne⟩ := run_peek1_eq hrun1
  subst hs1
  have hU := good_parseUseDecl env line
  have hV1 := good_parseVisibleDecl env e t b FlagsPublic line
  have hV0 := good_parseVisibleDecl env e t b 0 line
  split
  · rename_i hk
    have : k = IDUse := by simpa using hk
    apply ok1_bind_left (ok1_skip s1 (hne (by rw [this]; decide)))
    intro _ s2 _
    exact hU.ok s2
  · split
    · rename_i hk
      have : k = IDPub := by simpa using hk
      apply ok1_bind_left (ok1_skip s1 (hne (by rw [this]; decide)))
      intro _ s2 _
      exact hV1.ok s2
    · split
      · rename_i hk
        have : k = IDPri := by simpa using hk
        apply ok1_bind_left (ok1_skip s1 (hne (by rw [this]; decide)))
        intro _ s2 _
        exact hV0.ok s2
      · exact (good1_throw_at line).ok1 s1⟩

/-- The file loop never runs out of fuel when started with more fuel than tokens. -/
theorem ok_parseFileLoop (env : Env) :
    ∀ fuel acc s, s.src.length < fuel → OK (parseFileLoop env fuel acc) s := by
  intro fuel
  induction fuel with
  | zero => intro acc s h; omega
  | succ fuel ih =>
    intro acc s hfuel
    unfold parseFileLoop
    apply ok_bind (good_get.ok s)
    intro s0 s' hrun
    obtain ⟨h1, h2⟩ := run_get_eq hrun
    subst h1; subst h2
    split
    · exact ok_pure _ _
    · have hd := (good1_parseTopLevelDecl env (MaxExprDepth + 1) (MaxTypeExprDepth + 1) (MaxBodyDepth + 1)).ok1 s'
      apply ok_bind hd.ok
      intro d s1 hrun1
      have hlt : s1.src.length < s'.src.length := by
        unfold OK1 at hd; rw [hrun1] at hd; exact hd
      apply ih
      omega

/-- `parse.Parse` on any token list: never the model's `stuck` (no loop of the parser can
spin without consuming a token; every cycle of calls is cut by a depth guard). -/
theorem parseFile_ne_stuck (env : Env) (toks : List Tok) : parseFile env toks ≠ .error .stuck := by
  unfold parseFile
  have h := ok_parseFileLoop env (toks.length + 1) []
    { src := toks, lastLine := (toks.getLast?.map (·.line)).getD 0 } (by simp)
  unfold OK at h
  simp only at h ⊢
  split
  · rename_i e he
    rw [he] at h
    intro hc
    simp at hc
    exact h hc
  · simp

end WuffsVerif.Parse
