/-
C18 helper lemmas for the entropy round trip, part 4: the Spec's marker parser on the header
bytes written by `Reset`.
-/
import WuffsVerif.Proof.JpegScan
open WuffsVerif.Gen.C18 WuffsVerif.Jpeg WuffsVerif.Jpeg.Buf WuffsVerif.Jpeg.Bits WuffsVerif.Jpeg.Tab WuffsVerif.Jpeg.Huff
open WuffsVerif.Jpeg.Scan

namespace WuffsVerif.Jpeg.Hdr

/-- one marker segment `FF m Lh Ll payload`, as the Spec's `parseSegments` sees it -/
theorem seg_DQT (fuel lh ll : Nat) (payload rest : List Nat) (t t' : Spec.Tables) (fr : Option Spec.Frame)
    (hl : payload.length + 2 = 256 * lh + ll) (hp : Spec.parseDQT 5 payload t = some t') :
    Spec.parseSegments (fuel + 1) (255 :: 0xDB :: lh :: ll :: (payload ++ rest)) t fr =
      Spec.parseSegments fuel rest t' fr := by
  have h1 : 256 * lh + ll - 2 = payload.length := by omega
  have h2 : ¬ (256 * lh + ll < 2) := by omega
  have h3 : ¬ (payload.length + rest.length < payload.length) := by omega
  rw [Spec.parseSegments]
  simp [h1, h2, h3, hp]

theorem seg_DHT (fuel lh ll : Nat) (payload rest : List Nat) (t t' : Spec.Tables) (fr : Option Spec.Frame)
    (hl : payload.length + 2 = 256 * lh + ll) (hp : Spec.parseDHT 5 payload t = some t') :
    Spec.parseSegments (fuel + 1) (255 :: 0xC4 :: lh :: ll :: (payload ++ rest)) t fr =
      Spec.parseSegments fuel rest t' fr := by
  have h1 : 256 * lh + ll - 2 = payload.length := by omega
  have h2 : ¬ (256 * lh + ll < 2) := by omega
  have h3 : ¬ (payload.length + rest.length < payload.length) := by omega
  rw [Spec.parseSegments]
  simp [h1, h2, h3, hp]

theorem seg_SOF0 (fuel lh ll : Nat) (payload rest : List Nat) (t : Spec.Tables) (f : Spec.Frame)
    (hl : payload.length + 2 = 256 * lh + ll) (hp : Spec.parseSOF0 payload = some f) :
    Spec.parseSegments (fuel + 1) (255 :: 0xC0 :: lh :: ll :: (payload ++ rest)) t none =
      Spec.parseSegments fuel rest t (some f) := by
  have h1 : 256 * lh + ll - 2 = payload.length := by omega
  have h2 : ¬ (256 * lh + ll < 2) := by omega
  have h3 : ¬ (payload.length + rest.length < payload.length) := by omega
  rw [Spec.parseSegments]
  simp [h1, h2, h3, hp]

theorem seg_SOS (fuel lh ll : Nat) (payload rest : List Nat) (t : Spec.Tables) (f : Spec.Frame)
    (sel : List (Nat × Nat))
    (hl : payload.length + 2 = 256 * lh + ll) (hp : Spec.parseSOS f payload = some sel) :
    Spec.parseSegments (fuel + 1) (255 :: 0xDA :: lh :: ll :: (payload ++ rest)) t (some f) =
      Spec.decodeScan t f sel rest := by
  have h1 : 256 * lh + ll - 2 = payload.length := by omega
  have h2 : ¬ (256 * lh + ll < 2) := by omega
  have h3 : ¬ (payload.length + rest.length < payload.length) := by omega
  rw [Spec.parseSegments]
  simp [h1, h2, h3, hp]

/-- the updates a DHT payload makes to the table slots, independent of the tables so far -/
def dhtUpdates : Nat → List Nat → Option (List (Nat × Nat × List Spec.Entry))
  | 0, _ => none
  | _ + 1, [] => some []
  | fuel + 1, tcth :: rest =>
    let tc := tcth / 16
    let th := tcth % 16
    if tc > 1 || th > 1 || rest.length < 16 then none
    else
      let bits := rest.take 16
      let n := bits.sum
      let rest := rest.drop 16
      if rest.length < n || n > 256 then none
      else (dhtUpdates fuel (rest.drop n)).map (fun us => (tc, th, Spec.mkTable bits (rest.take n)) :: us)

def applyDht (t : Spec.Tables) (u : Nat × Nat × List Spec.Entry) : Spec.Tables :=
  if u.1 = 0 then { t with dc := t.dc.set u.2.1 (some u.2.2) } else { t with ac := t.ac.set u.2.1 (some u.2.2) }

theorem parseDHT_eq (fuel : Nat) : ∀ (pay : List Nat) (t : Spec.Tables),
    Spec.parseDHT fuel pay t = (dhtUpdates fuel pay).map (fun us => us.foldl applyDht t) := by
  induction fuel with
  | zero => intro pay t; simp [Spec.parseDHT, dhtUpdates]
  | succ fuel ih =>
    intro pay t
    cases pay with
    | nil => simp [Spec.parseDHT, dhtUpdates]
    | cons tcth rest =>
      simp only [Spec.parseDHT, dhtUpdates]
      split
      · rfl
      · split
        · rfl
        · rw [ih]
          cases dhtUpdates fuel (List.drop (List.take 16 rest).sum (List.drop 16 rest)) with
          | none => rfl
          | some us =>
            simp only [Option.map_some, List.foldl_cons, applyDht]

/-- the payloads of the two hard-coded DHT segments -/
def dhtPay1 : List Nat := (hardCodedDHTSegments.toList.drop 4).take 208
def dhtPay2 : List Nat := hardCodedDHTSegments.toList.drop 216

theorem dht_split : hardCodedDHTSegments.toList =
    255 :: 0xC4 :: 0 :: 210 :: (dhtPay1 ++ (255 :: 0xC4 :: 0 :: 210 :: (dhtPay2 ++ []))) ∧
    dhtPay1.length = 208 ∧ dhtPay2.length = 208 ∧
    hardCodedDHTSegments.toList.take 212 = 255 :: 0xC4 :: 0 :: 210 :: (dhtPay1 ++ []) := by
  decide +kernel

theorem dht_updates :
    dhtUpdates 5 dhtPay1 = some [(0, 0, canonTable 0), (1, 0, canonTable 1)] ∧
    dhtUpdates 5 dhtPay2 = some [(0, 1, canonTable 2), (1, 1, canonTable 3)] := by
  decide +kernel

/-- zig-zag facts used to undo the DQT ordering -/
theorem zigzag_inverse : (List.range 64).all (fun i => decide (Spec.zigzagSeq.idxOf i < 64) &&
    (Spec.zigzagSeq.getD (Spec.zigzagSeq.idxOf i) 0 == i)) = true := by decide +kernel

/-- a quantisation table in the order `encodeDQT` writes it -/
def zzTable (q : Quant) : List Nat := (List.range 64).map (fun z => q.getD (zigzag.getD z 0) 0)

/-- a quantisation table in natural order, as the Spec returns it -/
def natTable (q : Quant) : List Nat := (List.range 64).map (fun i => q.getD i 0)

theorem dezigzag_zzTable (q : Quant) : Spec.dezigzag 0 (zzTable q) = natTable q := by
  unfold Spec.dezigzag natTable
  apply List.map_congr_left
  intro i hi
  have hf := (List.all_eq_true.mp zigzag_inverse) i hi
  simp only [Bool.and_eq_true, decide_eq_true_eq, beq_iff_eq] at hf
  unfold zzTable
  rw [List.getD_eq_getElem?_getD, List.getElem?_map, List.getElem?_range hf.1]
  simp only [Option.map_some, Option.getD_some]
  rw [getD_toList zigzag, zigzag_eq, hf.2]

theorem zzTable_length (q : Quant) : (zzTable q).length = 64 := by simp [zzTable]


theorem parseDQT_one (q0 : Quant) (t : Spec.Tables) :
    Spec.parseDQT 5 (0 :: (zzTable q0 ++ [])) t = some { t with q := t.q.set 0 (some (natTable q0)) } := by
  have hl := zzTable_length q0
  rw [Spec.parseDQT]
  simp only [List.append_nil, hl, List.take_of_length_le (Nat.le_of_eq hl), List.drop_of_length_le (Nat.le_of_eq hl),
    dezigzag_zzTable]
  simp [Spec.parseDQT]

theorem parseDQT_two (q0 q1 : Quant) (t : Spec.Tables) :
    Spec.parseDQT 5 (0 :: (zzTable q0 ++ 1 :: (zzTable q1 ++ []))) t =
      some { t with q := (t.q.set 0 (some (natTable q0))).set 1 (some (natTable q1)) } := by
  have hl0 := zzTable_length q0
  have hl1 := zzTable_length q1
  rw [Spec.parseDQT]
  have ht : (zzTable q0 ++ 1 :: (zzTable q1 ++ [])).take 64 = zzTable q0 := by
    rw [← hl0]; exact List.take_left'  rfl
  have hd : (zzTable q0 ++ 1 :: (zzTable q1 ++ [])).drop 64 = 1 :: (zzTable q1 ++ []) := by
    rw [← hl0]; exact List.drop_left' rfl
  have hlen : ¬ (zzTable q0 ++ 1 :: (zzTable q1 ++ [])).length < 64 := by simp [hl0]
  simp only [ht, hd, hlen, dezigzag_zzTable]
  simp only [Nat.zero_div, ne_eq, not_true_eq_false, decide_false, Nat.zero_mod, Nat.not_lt_zero,
    Bool.or_self, Bool.false_eq_true, ↓reduceIte]
  have := parseDQT_one q1
  rw [Spec.parseDQT]
  simp only [List.append_nil, hl1, List.take_of_length_le (Nat.le_of_eq hl1), List.drop_of_length_le (Nat.le_of_eq hl1),
    dezigzag_zzTable]
  simp [Spec.parseDQT]


def hiB (x : Int) : Nat := ((x / 256) % 256).toNat
def loB (x : Int) : Nat := (x % 256).toNat

/-- the header `Reset` writes for a gray image, followed by `rest` -/
def headerGray (q0 : Quant) (w h : Int) (rest : List Nat) : List Nat :=
  255 :: 216 ::
  255 :: 0xDB :: 0 :: 67 :: ((0 :: (zzTable q0 ++ [])) ++
  (255 :: 0xC0 :: 0 :: 11 :: ([8, hiB h, loB h, hiB w, loB w, 1, 1, 17, 0] ++
  (255 :: 0xC4 :: 0 :: 210 :: (dhtPay1 ++
  (255 :: 0xDA :: 0 :: 8 :: ([1, 1, 0, 0, 63, 0] ++ rest)))))))

theorem zzTable_toList (e : Encoder) (i : Nat) :
    (Array.map (fun z => (e.quants i).getD (zigzag.getD z 0) 0) (Array.range 64)).toList = zzTable (e.quants i) := by
  simp [zzTable, Array.toList_map, Array.toList_range]

theorem copyInto_toList (out s : Array Nat) (h : out.size + s.size ≤ bufLen) :
    (copyInto out s).toList = out.toList ++ s.toList := by
  unfold copyInto
  rw [Array.toList_append, Array.toList_extract, List.extract_eq_take_drop, List.drop_zero, Nat.sub_zero,
    List.take_of_length_le (by simp only [Array.length_toList]; omega)]

theorem encodeDQT_gray (e : Encoder) (out : Array Nat) (hct : e.colorType = 1) :
    (encodeDQT e out).toList = out.toList ++ (255 :: 0xDB :: 0 :: 67 :: 0 :: zzTable e.quants0) := by
  unfold encodeDQT
  simp only [hct, colorTypeGray, ↓reduceIte, Array.toList_append, Array.toList_push, zzTable_toList]
  simp [Encoder.quants]

theorem encodeDQT_color (e : Encoder) (out : Array Nat) (hct : e.colorType ≠ 1) :
    (encodeDQT e out).toList =
      out.toList ++ (255 :: 0xDB :: 0 :: 132 :: 0 :: (zzTable e.quants0 ++ 1 :: zzTable e.quants1)) := by
  unfold encodeDQT
  simp only [hct, colorTypeGray, ↓reduceIte, Array.toList_append, Array.toList_push, zzTable_toList]
  simp [Encoder.quants]

theorem encodeSOF0_gray (e : Encoder) (out : Array Nat) (w h : Int) (hct : e.colorType = 1) :
    (encodeSOF0 e out w h).toList =
      out.toList ++ (255 :: 0xC0 :: 0 :: 11 :: [8, hiB h, loB h, hiB w, loB w, 1, 1, 17, 0]) := by
  unfold encodeSOF0
  simp [hct, colorTypeGray, hiB, loB]

theorem encodeSOF0_color (e : Encoder) (out : Array Nat) (w h : Int) (hct : e.colorType ≠ 1) :
    (encodeSOF0 e out w h).toList =
      out.toList ++ (255 :: 0xC0 :: 0 :: 17 ::
        [8, hiB h, loB h, hiB w, loB w, 3, 1, if e.colorType = 6 then 34 else 17, 0, 2, 17, 1, 3, 17, 1]) := by
  unfold encodeSOF0
  by_cases h6 : e.colorType = 6 <;> simp [hct, h6, colorTypeGray, colorTypeYCbCr420, hiB, loB]

theorem encodeDHT_gray (e : Encoder) (out : Array Nat) (hct : e.colorType = 1) (hs : out.size + 424 ≤ bufLen) :
    (encodeDHT e out).toList = out.toList ++ (255 :: 0xC4 :: 0 :: 210 :: (dhtPay1 ++ [])) := by
  unfold encodeDHT
  simp only [hct, colorTypeGray, ↓reduceIte]
  rw [copyInto_toList _ _ (by simp only [Array.size_extract, dht_size]; omega), Array.toList_extract,
    List.extract_eq_take_drop, List.drop_zero, Nat.sub_zero, dht_size]
  rw [show 424 / 2 = 212 from rfl, dht_split.2.2.2]

theorem encodeDHT_color (e : Encoder) (out : Array Nat) (hct : e.colorType ≠ 1) (hs : out.size + 424 ≤ bufLen) :
    (encodeDHT e out).toList =
      out.toList ++ (255 :: 0xC4 :: 0 :: 210 :: (dhtPay1 ++ (255 :: 0xC4 :: 0 :: 210 :: (dhtPay2 ++ [])))) := by
  unfold encodeDHT
  simp only [hct, colorTypeGray, ↓reduceIte]
  rw [copyInto_toList _ _ (by rw [dht_size]; omega), dht_split.1]

theorem encodeSOS_gray (e : Encoder) (out : Array Nat) (hct : e.colorType = 1) (hs : out.size + 14 ≤ bufLen) :
    (encodeSOSHeader e out).toList = out.toList ++ (255 :: 0xDA :: 0 :: 8 :: [1, 1, 0, 0, 63, 0]) := by
  unfold encodeSOSHeader
  simp only [hct, colorTypeGray, ↓reduceIte]
  rw [copyInto_toList _ _ (by simp; omega)]

theorem encodeSOS_color (e : Encoder) (out : Array Nat) (hct : e.colorType ≠ 1) (hs : out.size + 14 ≤ bufLen) :
    (encodeSOSHeader e out).toList = out.toList ++ (255 :: 0xDA :: 0 :: 12 :: [3, 1, 0, 2, 17, 3, 17, 0, 63, 0]) := by
  unfold encodeSOSHeader
  simp only [hct, colorTypeGray, ↓reduceIte]
  rw [copyInto_toList _ _ (by simp; omega)]


theorem hilo (x : Int) (h1 : 1 ≤ x) (h2 : x ≤ 65535) : 256 * hiB x + loB x = x.toNat ∧ x.toNat ≠ 0 := by
  unfold hiB loB; omega

theorem parseSOF0_gray (w h : Int) (hw1 : 1 ≤ w) (hw2 : w ≤ 65535) (hh1 : 1 ≤ h) (hh2 : h ≤ 65535) :
    Spec.parseSOF0 [8, hiB h, loB h, hiB w, loB w, 1, 1, 17, 0] = some ⟨h.toNat, w.toNat, [⟨1, 1, 1, 0⟩]⟩ := by
  have a := hilo w hw1 hw2
  have b := hilo h hh1 hh2
  simp [Spec.parseSOF0, Spec.parseComps, a.1, b.1, a.2, b.2]

/-- the frame components of a colour image: luma sampling 2×2 for 4:2:0, else 1×1 -/
def colorComps (ct : Nat) : List Spec.Component :=
  [⟨1, if ct = 6 then 2 else 1, if ct = 6 then 2 else 1, 0⟩, ⟨2, 1, 1, 1⟩, ⟨3, 1, 1, 1⟩]

theorem parseSOF0_color (ct : Nat) (w h : Int) (hw1 : 1 ≤ w) (hw2 : w ≤ 65535) (hh1 : 1 ≤ h) (hh2 : h ≤ 65535) :
    Spec.parseSOF0 [8, hiB h, loB h, hiB w, loB w, 3, 1, if ct = 6 then 34 else 17, 0, 2, 17, 1, 3, 17, 1] =
      some ⟨h.toNat, w.toNat, colorComps ct⟩ := by
  have a := hilo w hw1 hw2
  have b := hilo h hh1 hh2
  by_cases h6 : ct = 6 <;> simp [Spec.parseSOF0, Spec.parseComps, a.1, b.1, a.2, b.2, colorComps, h6]

theorem parseSOS_gray (W H : Nat) :
    Spec.parseSOS ⟨H, W, [⟨1, 1, 1, 0⟩]⟩ [1, 1, 0, 0, 63, 0] = some [(0, 0)] := by
  simp [Spec.parseSOS, Spec.parseScanComps]

theorem parseSOS_color (ct W H : Nat) :
    Spec.parseSOS ⟨H, W, colorComps ct⟩ [3, 1, 0, 2, 17, 3, 17, 0, 63, 0] = some [(0, 0), (1, 1), (1, 1)] := by
  simp [Spec.parseSOS, Spec.parseScanComps, colorComps]

/-- the tables installed after the header of a gray / colour image -/
def tablesGray (q0 : Quant) : Spec.Tables :=
  { q := [some (natTable q0), none, none, none],
    dc := [some (canonTable 0), none, none, none], ac := [some (canonTable 1), none, none, none] }

def tablesColor (q0 q1 : Quant) : Spec.Tables :=
  { q := [some (natTable q0), some (natTable q1), none, none],
    dc := [some (canonTable 0), some (canonTable 2), none, none],
    ac := [some (canonTable 1), some (canonTable 3), none, none] }

/-- the Spec's marker parser on the gray header: it reaches the scan with the right tables -/
theorem parse_header_gray (q0 : Quant) (w h : Int) (hw1 : 1 ≤ w) (hw2 : w ≤ 65535) (hh1 : 1 ≤ h) (hh2 : h ≤ 65535)
    (scan : List Nat) :
    Spec.decode (headerGray q0 w h scan) =
      Spec.decodeScan (tablesGray q0) ⟨h.toNat, w.toNat, [⟨1, 1, 1, 0⟩]⟩ [(0, 0)] scan := by
  unfold headerGray Spec.decode
  simp only
  obtain ⟨f, hf⟩ : ∃ f, (255 :: 0xDB :: 0 :: 67 :: ((0 :: (zzTable q0 ++ [])) ++
      (255 :: 0xC0 :: 0 :: 11 :: ([8, hiB h, loB h, hiB w, loB w, 1, 1, 17, 0] ++
      (255 :: 0xC4 :: 0 :: 210 :: (dhtPay1 ++
      (255 :: 0xDA :: 0 :: 8 :: ([1, 1, 0, 0, 63, 0] ++ scan)))))))).length = f + 4 := by
    apply Nat.exists_eq_add_of_le'
    simp only [List.length_cons, List.length_append]
    omega
  rw [hf]
  rw [seg_DQT (f + 3) 0 67 _ _ {} _ none (by simp [zzTable_length]) (parseDQT_one q0 {})]
  rw [seg_SOF0 (f + 2) 0 11 _ _ _ _ (by simp) (parseSOF0_gray w h hw1 hw2 hh1 hh2)]
  have hdht : Spec.parseDHT 5 dhtPay1 { q := ([none, none, none, none] : List (Option (List Nat))).set 0 (some (natTable q0)) } =
      some (tablesGray q0) := by
    rw [parseDHT_eq, dht_updates.1]
    simp [applyDht, tablesGray]
  rw [seg_DHT (f + 1) 0 210 _ _ _ _ _ (by simp [dht_split.2.1]) hdht]
  rw [seg_SOS f 0 8 _ _ _ _ _ (by simp) (parseSOS_gray _ _)]


/-- the header `Reset` writes for a colour image (4:4:4 or 4:2:0), followed by `rest` -/
def headerColor (ct : Nat) (q0 q1 : Quant) (w h : Int) (rest : List Nat) : List Nat :=
  255 :: 216 ::
  255 :: 0xDB :: 0 :: 132 :: ((0 :: (zzTable q0 ++ 1 :: (zzTable q1 ++ []))) ++
  (255 :: 0xC0 :: 0 :: 17 :: ([8, hiB h, loB h, hiB w, loB w, 3, 1, if ct = 6 then 34 else 17, 0, 2, 17, 1, 3, 17, 1] ++
  (255 :: 0xC4 :: 0 :: 210 :: (dhtPay1 ++
  (255 :: 0xC4 :: 0 :: 210 :: (dhtPay2 ++
  (255 :: 0xDA :: 0 :: 12 :: ([3, 1, 0, 2, 17, 3, 17, 0, 63, 0] ++ rest)))))))))

theorem parse_header_color (ct : Nat) (q0 q1 : Quant) (w h : Int) (hw1 : 1 ≤ w) (hw2 : w ≤ 65535) (hh1 : 1 ≤ h)
    (hh2 : h ≤ 65535) (scan : List Nat) :
    Spec.decode (headerColor ct q0 q1 w h scan) =
      Spec.decodeScan (tablesColor q0 q1) ⟨h.toNat, w.toNat, colorComps ct⟩ [(0, 0), (1, 1), (1, 1)] scan := by
  unfold headerColor Spec.decode
  simp only
  obtain ⟨f, hf⟩ : ∃ f, (255 :: 0xDB :: 0 :: 132 :: ((0 :: (zzTable q0 ++ 1 :: (zzTable q1 ++ []))) ++
      (255 :: 0xC0 :: 0 :: 17 :: ([8, hiB h, loB h, hiB w, loB w, 3, 1, if ct = 6 then 34 else 17, 0, 2, 17, 1, 3, 17, 1] ++
      (255 :: 0xC4 :: 0 :: 210 :: (dhtPay1 ++
      (255 :: 0xC4 :: 0 :: 210 :: (dhtPay2 ++
      (255 :: 0xDA :: 0 :: 12 :: ([3, 1, 0, 2, 17, 3, 17, 0, 63, 0] ++ scan)))))))))).length = f + 5 := by
    apply Nat.exists_eq_add_of_le'
    simp only [List.length_cons, List.length_append]
    omega
  rw [hf]
  rw [seg_DQT (f + 4) 0 132 _ _ {} _ none (by simp [zzTable_length]) (parseDQT_two q0 q1 {})]
  rw [seg_SOF0 (f + 3) 0 17 _ _ _ _ (by simp) (parseSOF0_color ct w h hw1 hw2 hh1 hh2)]
  have hdht1 : Spec.parseDHT 5 dhtPay1
      { q := (([none, none, none, none] : List (Option (List Nat))).set 0 (some (natTable q0))).set 1 (some (natTable q1)) } =
      some { q := [some (natTable q0), some (natTable q1), none, none],
             dc := [some (canonTable 0), none, none, none], ac := [some (canonTable 1), none, none, none] } := by
    rw [parseDHT_eq, dht_updates.1]
    simp [applyDht]
  rw [seg_DHT (f + 2) 0 210 _ _ _ _ _ (by simp [dht_split.2.1]) hdht1]
  have hdht2 : Spec.parseDHT 5 dhtPay2
      { q := [some (natTable q0), some (natTable q1), none, none],
        dc := [some (canonTable 0), none, none, none], ac := [some (canonTable 1), none, none, none] } =
      some (tablesColor q0 q1) := by
    rw [parseDHT_eq, dht_updates.2]
    simp [applyDht, tablesColor]
  rw [seg_DHT (f + 1) 0 210 _ _ _ _ _ (by simp [dht_split.2.2.1]) hdht2]
  rw [seg_SOS f 0 12 _ _ _ _ _ (by simp) (parseSOS_color ct _ _)]

theorem planOf_length (cs : List Nat) : (planOf cs).length = cs.length := by simp [planOf]

/-- `decodeScan` once the tables and the frame are known: gray -/
theorem decodeScan_gray (q0 : Quant) (W H : Nat) (scan bytes : List Nat) (blocks : List (List Int)) (pad : List Bool)
    (hs : Spec.splitECS scan = (bytes, [255, 217]))
    (hd : Spec.decodeMCUs (planOf (whichComponents 1)) (Spec.numMCUs ⟨H, W, [⟨1, 1, 1, 0⟩]⟩) (List.replicate 1 0)
      (Spec.bytesBits bytes) = some (blocks, pad))
    (hp1 : pad.length < 8) (hp2 : pad.all id = true) :
    Spec.decodeScan (tablesGray q0) ⟨H, W, [⟨1, 1, 1, 0⟩]⟩ [(0, 0)] scan =
      some ⟨W, H, [⟨1, 1, 1, 0⟩], [natTable q0], blocks⟩ := by
  unfold Spec.decodeScan
  have hplan : Spec.mkPlan (tablesGray q0) true 0 [⟨1, 1, 1, 0⟩] [(0, 0)] =
      some (planOf (whichComponents 1)) := by
    simp [Spec.mkPlan, tablesGray, planOf, whichComponents, baseOf]
  have hlen : ¬ (planOf (whichComponents 1)).length > 10 := by
    rw [planOf_length]; simp [whichComponents]
  have hq : ([⟨1, 1, 1, 0⟩] : List Spec.Component).mapM (fun c => (tablesGray q0).q.getD c.tq none) =
      some [natTable q0] := by simp [tablesGray]
  simp only [List.replicate_succ, List.replicate_zero] at hd
  simp only [List.length_cons, List.length_nil, Nat.zero_add, beq_self_eq_true, hplan, hlen, ↓reduceIte, hq, hs,
    List.replicate_succ, List.replicate_zero, hd]
  simp [hp1, hp2]

/-- `decodeScan` once the tables and the frame are known: colour -/
theorem decodeScan_color (ct : Nat) (hct : ct = 3 ∨ ct = 6) (q0 q1 : Quant) (W H : Nat) (scan bytes : List Nat)
    (blocks : List (List Int)) (pad : List Bool)
    (hs : Spec.splitECS scan = (bytes, [255, 217]))
    (hd : Spec.decodeMCUs (planOf (whichComponents ct)) (Spec.numMCUs ⟨H, W, colorComps ct⟩) (List.replicate 3 0)
      (Spec.bytesBits bytes) = some (blocks, pad))
    (hp1 : pad.length < 8) (hp2 : pad.all id = true) :
    Spec.decodeScan (tablesColor q0 q1) ⟨H, W, colorComps ct⟩ [(0, 0), (1, 1), (1, 1)] scan =
      some ⟨W, H, colorComps ct, [natTable q0, natTable q1, natTable q1], blocks⟩ := by
  unfold Spec.decodeScan
  have hplan : Spec.mkPlan (tablesColor q0 q1) false 0 (colorComps ct) [(0, 0), (1, 1), (1, 1)] =
      some (planOf (whichComponents ct)) := by
    rcases hct with rfl | rfl <;>
      simp [Spec.mkPlan, tablesColor, planOf, whichComponents, baseOf, colorComps, List.replicate]
  have hlen : ¬ (planOf (whichComponents ct)).length > 10 := by
    rw [planOf_length]; rcases hct with rfl | rfl <;> simp [whichComponents]
  have hq : (colorComps ct).mapM (fun c => (tablesColor q0 q1).q.getD c.tq none) =
      some [natTable q0, natTable q1, natTable q1] := by simp [tablesColor, colorComps]
  have hl3 : (colorComps ct).length = 3 := by simp [colorComps]
  have hb : ((colorComps ct).length == 1) = false := by rw [hl3]; rfl
  simp only [List.replicate_succ, List.replicate_zero] at hd
  have h31 : ((3 : Nat) == 1) = false := rfl
  simp only [hb, hq, hs, hl3, h31, List.replicate_succ, List.replicate_zero]
  rw [hplan]
  have hlen' : ¬ (10 < (planOf (whichComponents ct)).length) := hlen
  simp only [hlen', ↓reduceIte, hd]
  simp [hp1, hp2]


/-- number of units of an image: ⌈w/8⌉·⌈h/8⌉, or ⌈w/16⌉·⌈h/16⌉ for 4:2:0 -/
def unitsOf (ct : Nat) (w h : Int) : Nat :=
  if ct = 6 then (((w + 15) / 16) * ((h + 15) / 16)).toNat else (((w + 7) / 8) * ((h + 7) / 8)).toNat

theorem numMCUs_gray (w h : Int) (hw1 : 1 ≤ w) (hh1 : 1 ≤ h) :
    Spec.numMCUs ⟨h.toNat, w.toNat, [⟨1, 1, 1, 0⟩]⟩ = unitsOf 1 w h := by
  have t1 : (((w + 7) / 8) * ((h + 7) / 8)).toNat = ((w + 7) / 8).toNat * ((h + 7) / 8).toNat :=
    Int.toNat_mul (by omega) (by omega)
  simp only [Spec.numMCUs, Spec.ceilDiv, unitsOf, List.map_cons, List.map_nil, List.foldl_cons, List.foldl_nil]
  rw [if_neg (by decide), t1]
  have a : (w.toNat * 1 + Nat.max 0 1 - 1) / Nat.max 0 1 = w.toNat := by simp
  have b : (h.toNat * 1 + Nat.max 0 1 - 1) / Nat.max 0 1 = h.toNat := by simp
  simp only [Nat.max_def] at a b ⊢
  simp only [Nat.zero_le, ↓reduceIte, Nat.mul_one, Nat.add_sub_cancel, Nat.div_one] at a b ⊢
  congr 1 <;> omega

theorem numMCUs_color (ct : Nat) (hct : ct = 3 ∨ ct = 6) (w h : Int) (hw1 : 1 ≤ w) (hh1 : 1 ≤ h) :
    Spec.numMCUs ⟨h.toNat, w.toNat, colorComps ct⟩ = unitsOf ct w h := by
  have t1 : (((w + 7) / 8) * ((h + 7) / 8)).toNat = ((w + 7) / 8).toNat * ((h + 7) / 8).toNat :=
    Int.toNat_mul (by omega) (by omega)
  have t2 : (((w + 15) / 16) * ((h + 15) / 16)).toNat = ((w + 15) / 16).toNat * ((h + 15) / 16).toNat :=
    Int.toNat_mul (by omega) (by omega)
  rcases hct with rfl | rfl
  · simp only [Spec.numMCUs, Spec.ceilDiv, unitsOf, colorComps, List.map_cons, List.map_nil, List.foldl_cons,
      List.foldl_nil, Nat.max_def]
    simp only [show ¬ (3 = 6) by decide, ↓reduceIte, Nat.zero_le, Nat.le_refl, Nat.mul_one, t1]
    congr 1 <;> omega
  · simp only [Spec.numMCUs, Spec.ceilDiv, unitsOf, colorComps, List.map_cons, List.map_nil, List.foldl_cons,
      List.foldl_nil, Nat.max_def]
    simp only [↓reduceIte, Nat.zero_le, t2]
    simp
    congr 1 <;> omega


/-- the header array of `resetFinish` -/
def headerArr (e : Encoder) (w h : Int) : Array Nat :=
  encodeSOSHeader e (encodeDHT e (encodeSOF0 e (encodeDQT e #[0xFF, 0xD8]) w h))

theorem header_gray (e : Encoder) (w h : Int) (hct : e.colorType = 1) (scan : List Nat) :
    (headerArr e w h).toList ++ scan = headerGray e.quants0 w h scan := by
  have s1 := encodeDQT_size e #[0xFF, 0xD8]
  have s2 := encodeSOF0_size e (encodeDQT e #[0xFF, 0xD8]) w h
  have s3 := encodeDHT_size e (encodeSOF0 e (encodeDQT e #[0xFF, 0xD8]) w h)
  have s0 : (#[0xFF, 0xD8] : Array Nat).size = 2 := rfl
  unfold headerArr
  rw [encodeSOS_gray e _ hct (by simp only [bufLen]; omega),
    encodeDHT_gray e _ hct (by simp only [bufLen]; omega),
    encodeSOF0_gray e _ w h hct, encodeDQT_gray e _ hct]
  simp [headerGray]

theorem header_color (e : Encoder) (w h : Int) (hct : e.colorType ≠ 1) (scan : List Nat) :
    (headerArr e w h).toList ++ scan = headerColor e.colorType e.quants0 e.quants1 w h scan := by
  have s1 := encodeDQT_size e #[0xFF, 0xD8]
  have s2 := encodeSOF0_size e (encodeDQT e #[0xFF, 0xD8]) w h
  have s3 := encodeDHT_size e (encodeSOF0 e (encodeDQT e #[0xFF, 0xD8]) w h)
  have s0 : (#[0xFF, 0xD8] : Array Nat).size = 2 := rfl
  unfold headerArr
  rw [encodeSOS_color e _ hct (by simp only [bufLen]; omega),
    encodeDHT_color e _ hct (by simp only [bufLen]; omega),
    encodeSOF0_color e _ w h hct, encodeDQT_color e _ hct]
  simp [headerColor]

/-- a successful `Reset` wrote exactly `headerArr` of its final state -/
theorem reset_ok_header (e : Encoder) (ct : Nat) (w h : Int) (qs : Option (Quant × Quant)) (hdr : Array Nat)
    (hok : (reset e false ct w h qs).2 = .ok hdr) :
    hdr = headerArr (reset e false ct w h qs).1 w h := by
  have fin : ∀ e', (resetFinish e' false ct w h).2 = .ok hdr →
      hdr = headerArr (resetFinish e' false ct w h).1 w h := by
    intro e' h'
    have hs : ∃ e1, resetFinish e' false ct w h = finishWrite e1 (headerArr e1 w h) false := by
      unfold resetFinish headerArr
      exact ⟨_, rfl⟩
    obtain ⟨e1, hs⟩ := hs
    rw [hs] at h' ⊢
    rcases finishWrite_cases e1 (headerArr e1 w h) false with ⟨_, hf⟩ | ⟨_, hf, _⟩ | ⟨_, _, hf⟩
    · rw [hf] at h'; simp at h'
    · cases hf
    · rw [hf] at h' ⊢
      simp only [Res.ok.injEq] at h'
      exact h'.symm
  revert hok
  unfold reset
  split
  · intro hok; cases hok
  · cases qs with
    | none =>
      simp only
      exact fin _
    | some p =>
      obtain ⟨q0, q1⟩ := p
      simp only
      split
      · intro hok; cases hok
      · exact fin _


end WuffsVerif.Jpeg.Hdr
