/-
C05 — the events produced by the abstract store semantics (`Model/LivenessRun.lean`), for any
choice of saved variables, interpretation and fuel, form a path of the program in the sense of
`Model/LivenessSem.lean`.
-/
import WuffsVerif.Model.LivenessRun

namespace WuffsVerif.Liveness

variable {W : Type}

theorem evalEx_path (R : Nat → Bool) (cfg : Cfg W) (e : Ex) (st : RState W) :
    ExprPath e (evalEx R cfg e st).2.2 := by
  unfold evalEx
  cases hc : e.coro
  · simp only [Bool.false_eq_true, ↓reduceIte]
    exact ExprPath.plain hc
  · cases hi : e.ioRecv
    · simp only [↓reduceIte, Bool.false_eq_true]
      exact ExprPath.call _ hc hi
    · simp only [↓reduceIte]
      exact ExprPath.io _ hc hi

theorem evalExOpt_path (R : Nat → Bool) (cfg : Cfg W) (oe : Option Ex) (st : RState W) :
    OptExprPath oe (evalExOpt R cfg oe st).2 := by
  cases oe with
  | none => simp [evalExOpt, OptExprPath]
  | some e => simp only [evalExOpt, OptExprPath]; exact evalEx_path R cfg e st

theorem evalAssign_path (R : Nat → Bool) (cfg : Cfg W) (op : AOp) (lhs : Lhs) (rhs : Ex) (st : RState W) :
    AssignPath op lhs rhs (evalAssign R cfg op lhs rhs st).2 := by
  unfold evalAssign AssignPath
  by_cases hq : op = AOp.eqQuestion
  · simp only [hq, ↓reduceIte]
    cases lhs with
    | none => exact ⟨exReads rhs, [], rfl, rfl, by simp⟩
    | expr e => exact ⟨exReads rhs, _, rfl, evalEx_path R cfg e _, rfl⟩
    | var i => exact ⟨exReads rhs, _, rfl, rfl, by simp⟩
  · simp only [hq, ↓reduceIte]
    cases lhs with
    | none => exact ⟨_, [], evalEx_path R cfg rhs st, rfl, by simp⟩
    | expr e => exact ⟨_, _, evalEx_path R cfg rhs st, evalEx_path R cfg e _, rfl⟩
    | var i =>
      by_cases hop : op ≠ AOp.eq ∧ op ≠ AOp.eqQuestion
      · simp only [hop, and_self, ↓reduceIte, ne_eq, not_false_eq_true]
        exact ⟨_, _, evalEx_path R cfg rhs st, rfl, rfl⟩
      · simp only [hop, ↓reduceIte]
        exact ⟨_, _, evalEx_path R cfg rhs st, rfl, rfl⟩

/-- What `run` promises about its events, per task. -/
def PathOf : Task → Res W → Prop
  | Task.stmt s, r => (r.out = Out.stop ∧ r.evs = []) ∨ stmtPaths s r.evs r.out
  | Task.block b, r => blockPaths b r.evs r.out
  | Task.loop wt c body, r => LoopPath (ExprPath c) wt (blockPaths body) r.evs r.out

theorem blockPaths_stop (b : List Stmt) : blockPaths b [] Out.stop := by
  cases b with
  | nil => simp [blockPaths]
  | cons s rest => simp [blockPaths]

theorem run_path (R : Nat → Bool) (cfg : Cfg W) : ∀ (f : Nat) (task : Task) (st : RState W),
    PathOf task (run R cfg f task st)
  | 0, task, st => by
    cases task with
    | stmt s => exact Or.inl ⟨rfl, rfl⟩
    | block b => exact blockPaths_stop b
    | loop wt c body => exact LoopPath.stop
  | f + 1, Task.stmt s, st => by
    right
    cases s with
    | assign op lhs rhs =>
      simp only [run, stmtPaths, true_and]
      exact evalAssign_path R cfg op lhs rhs st
    | expr e =>
      simp only [run, stmtPaths, true_and]
      exact evalEx_path R cfg e st
    | iomanip io a1 hp body =>
      simp only [run, stmtPaths]
      exact ⟨_, _, _, _, evalEx_path R cfg io st, evalExOpt_path R cfg a1 _, evalExOpt_path R cfg hp _,
        run_path R cfg f (Task.block body) _, rfl⟩
    | ite c thn els =>
      simp only [run, stmtPaths]
      refine ⟨_, _, evalEx_path R cfg c st, ?_, rfl⟩
      have := run_path R cfg f (Task.block (if (evalEx R cfg c st).1 % 2 = 1 then thn else els)) (evalEx R cfg c st).2.1
      by_cases h : (evalEx R cfg c st).1 % 2 = 1
      · simp only [h, ↓reduceIte] at this ⊢; exact Or.inl this
      · simp only [h, ↓reduceIte] at this ⊢; exact Or.inr this
    | jump b k => simp [run, stmtPaths]
    | ret y e =>
      cases y
      · simp only [run, stmtPaths, Bool.false_eq_true, ↓reduceIte, and_true]
        exact evalEx_path R cfg e st
      · simp only [run, stmtPaths, ↓reduceIte, and_true]
        exact ⟨_, evalEx_path R cfg e st, rfl⟩
    | var i => simp [run, stmtPaths]
    | «while» wt c body =>
      simp only [run, stmtPaths]
      exact run_path R cfg f (Task.loop wt c body) st
  | f + 1, Task.block [], st => by simp [run, PathOf, blockPaths]
  | f + 1, Task.block (s :: rest), st => by
    have h1 := run_path R cfg f (Task.stmt s) st
    simp only [run, PathOf]
    generalize run R cfg f (Task.stmt s) st = r1 at h1
    simp only [PathOf] at h1
    rcases h1 with ⟨ho, he⟩ | hp
    · rw [ho]
      simp only [blockPaths]
      exact Or.inl ⟨he, ho⟩
    · cases ho : r1.out with
      | norm =>
        simp only
        have h2 := run_path R cfg f (Task.block rest) r1.st
        simp only [blockPaths]
        exact Or.inr (Or.inl ⟨r1.evs, _, ho ▸ hp, h2, rfl⟩)
      | brk k => simp only [blockPaths]; exact Or.inr (Or.inr ⟨hp, by rw [ho]; simp⟩)
      | cont k => simp only [blockPaths]; exact Or.inr (Or.inr ⟨hp, by rw [ho]; simp⟩)
      | ret => simp only [blockPaths]; exact Or.inr (Or.inr ⟨hp, by rw [ho]; simp⟩)
      | stop => simp only [blockPaths]; exact Or.inr (Or.inr ⟨hp, by rw [ho]; simp⟩)
  | f + 1, Task.loop wt c body, st => by
    simp only [run, PathOf]
    have hc := evalEx_path R cfg c st
    by_cases hx : wt = false ∧ (evalEx R cfg c st).1 % 2 = 0
    · obtain ⟨hw, hv⟩ := hx
      subst hw
      simp only [hv, and_self, ↓reduceIte]
      exact LoopPath.exit rfl hc
    · simp only [hx, ↓reduceIte]
      have h2 := run_path R cfg f (Task.block body) (evalEx R cfg c st).2.1
      simp only [PathOf] at h2
      generalize run R cfg f (Task.block body) (evalEx R cfg c st).2.1 = r2 at h2
      cases hex : r2.out.exitLoop with
      | none =>
        simp only
        have h3 := run_path R cfg f (Task.loop wt c body) r2.st
        exact LoopPath.iter hc h2 hex h3
      | some o' =>
        simp only
        exact LoopPath.leave hc h2 hex

end WuffsVerif.Liveness
