/-
C13, shared resources at Writer level, part 2: the resource-aware codec contract, the covering relation
`CoversR` (each accepted chunk decompresses, given the bytes registered under its two resource ids, to its share
of the input) and its invariance through every loop of `rac.Writer`.
-/
import WuffsVerif.Proof.RacWriterR
set_option linter.unusedSimpArgs false
set_option linter.unusedVariables false

namespace WuffsVerif.Rac

/-! ### contract, covering relation, invariant -/

/-- The contract of a `rac.CodecWriter` with shared resources, relative to a decompression function
`DR primary secondary tertiary` of the three CRanges' bytes: `Compress(p, q, resourcesData)` is the compressed
form of `p ++ q` *given the wrapped forms (`WrapResource`) of the resources it names*; a resource that is named
has a non-empty wrapped form (an empty CRange means "no resource" to a reader); `Cut` leaves a valid prefix,
whatever the resources are. -/
structure CodecContractR (cw : CodecW) (DR : Bytes → Bytes → Bytes → Option Bytes) : Prop where
  compress_ok : ∀ p q rs out s t, cw.compress p q rs = .ok out →
    wrappedOf cw rs out.secondaryResource = some s → wrappedOf cw rs out.tertiaryResource = some t →
    DR out.compressed s t = some (p ++ q) ∧
    (ResInRange rs out.secondaryResource → s ≠ []) ∧ (ResInRange rs out.tertiaryResource → t ≠ [])
  cut_ok : ∀ c enc m enc' eLen dLen d s t, cw.cut c enc m = .ok (enc', eLen, dLen) → DR enc s t = some d →
    dLen ≤ d.length ∧ DR (enc'.take eLen) s t = some (d.take dLen)

/-- a chunk with primary bytes `prim` and resource ids `s`, `t` decompresses to `d`, given the registered
resources `resl` (oldest first) -/
def ChunkOKR (DR : Bytes → Bytes → Bytes → Option Bytes) (resl : List Bytes) (prim : Bytes) (s t : Nat)
    (d : Bytes) : Prop :=
  s ≤ resl.length ∧ t ≤ resl.length ∧ (s ≠ 0 → resAt resl s ≠ []) ∧ (t ≠ 0 → resAt resl t ≠ []) ∧
  DR prim (resAt resl s) (resAt resl t) = some d

theorem ChunkOKR.mono {DR : Bytes → Bytes → Bytes → Option Bytes} {resl : List Bytes} {prim : Bytes} {s t : Nat}
    {d : Bytes} (h : ChunkOKR DR resl prim s t d) (ext : List Bytes) : ChunkOKR DR (resl ++ ext) prim s t d := by
  obtain ⟨h1, h2, h3, h4, h5⟩ := h
  unfold ChunkOKR
  rw [resAt_append _ _ _ h1, resAt_append _ _ _ h2]
  exact ⟨by rw [List.length_append]; omega, by rw [List.length_append]; omega, h3, h4, h5⟩

/-- `CoversR DR resl log data`: the accepted chunks `log` (newest first) decode — each with the resources it
names — with the RAC format's implicit zero fill up to each chunk's `dRangeSize`, to exactly `data`. -/
inductive CoversR (DR : Bytes → Bytes → Bytes → Option Bytes) (resl : List Bytes) : List ChunkRec → Bytes → Prop where
  | nil : CoversR DR resl [] []
  | cons {log : List ChunkRec} {data : Bytes} {c : ChunkRec} {d : Bytes} {k : Nat} :
      CoversR DR resl log data → ChunkOKR DR resl c.primary c.secondary c.tertiary d →
      d.length + k = c.dRangeSize → CoversR DR resl (c :: log) (data ++ (d ++ List.replicate k 0))

theorem CoversR.mono {DR : Bytes → Bytes → Bytes → Option Bytes} {resl : List Bytes} {log : List ChunkRec}
    {data : Bytes} (h : CoversR DR resl log data) (ext : List Bytes) : CoversR DR (resl ++ ext) log data := by
  induction h with
  | nil => exact CoversR.nil
  | cons _ h1 h2 ih => exact CoversR.cons ih (h1.mono ext) h2

/-- leaf nodes and accepted chunks (both oldest first) carry the same resource ids -/
def LeafRes : List WNode → List ChunkRec → Prop
  | [], [] => True
  | o :: os, r :: rs => (o.secondary = r.secondary ∧ o.tertiary = r.tertiary) ∧ LeafRes os rs
  | _, _ => False

theorem LeafRes.snoc : ∀ {os : List WNode} {rs : List ChunkRec} (o : WNode) (r : ChunkRec),
    LeafRes os rs → o.secondary = r.secondary → o.tertiary = r.tertiary → LeafRes (os ++ [o]) (rs ++ [r]) := by
  intro os
  induction os with
  | nil =>
    intro rs o r h h1 h2
    cases rs with
    | nil => simp [LeafRes, h1, h2]
    | cons _ _ => simp [LeafRes] at h
  | cons a os ih =>
    intro rs o r h h1 h2
    cases rs with
    | nil => simp [LeafRes] at h
    | cons b rs =>
      simp only [LeafRes, List.cons_append] at h ⊢
      exact ⟨h.1, ih o r h.2 h1 h2⟩

/-- everything is in order and no error has been recorded -/
def GoodR (cw : CodecW) (DR : Bytes → Bytes → Bytes → Option Bytes) (w : Writer) (input : Bytes) : Prop :=
  w.err = none ∧ IdsOK cw w ∧ LeafRes w.chunkWriter.leafNodes.toList w.chunkWriter.log.reverse ∧
  w.uncompressed.WF ∧
  ∃ consumed, CoversR DR w.chunkWriter.resLog.reverse w.chunkWriter.log consumed ∧
    consumed ++ w.uncompressed.abs = input

/-- invariant while a `Write`/`Close` call is in progress -/
def InvR (cw : CodecW) (DR : Bytes → Bytes → Bytes → Option Bytes) (w : Writer) (input : Bytes) : Prop :=
  w.err ≠ none ∨ GoodR cw DR w input

theorem InvR.good {cw : CodecW} {DR : Bytes → Bytes → Bytes → Option Bytes} {w : Writer} {input : Bytes}
    (h : InvR cw DR w input) (he : w.err = none) : GoodR cw DR w input := by
  rcases h with h | h
  · exact absurd he h
  · exact h

theorem IdsOK.congr {cw : CodecW} {w w' : Writer} (h : IdsOK cw w) (h1 : w'.resourcesIDs = w.resourcesIDs)
    (h2 : w'.resourcesData = w.resourcesData) (h3 : w'.chunkWriter.resLog = w.chunkWriter.resLog)
    (h4 : w'.chunkWriter.resourcesCOffCLens = w.chunkWriter.resourcesCOffCLens) : IdsOK cw w' := by
  unfold IdsOK CW.RL at h ⊢
  rw [h1, h2, h3, h4]; exact h

/-! ### frames -/

theorem Writer.useResource_leaf (cw : CodecW) (w : Writer) (i : Int) :
    (Writer.useResource cw w i).1.chunkWriter.leafNodes = w.chunkWriter.leafNodes := by
  unfold Writer.useResource
  simp only
  repeat (any_goals split)
  all_goals simp_all [CW.addResource_leaf]

theorem Writer.compressAndUse_leaf (cw : CodecW) (w : Writer) (p0 p1 : Bytes) :
    (Writer.compressAndUse cw w p0 p1).1.chunkWriter.leafNodes = w.chunkWriter.leafNodes := by
  unfold Writer.compressAndUse
  simp only
  split
  · rfl
  · rename_i out hc
    have h1 := Writer.useResource_leaf cw w out.secondaryResource
    generalize Writer.useResource cw w out.secondaryResource = u1 at *
    obtain ⟨w1, res2, e1⟩ := u1
    simp only at h1 ⊢
    have h2 := Writer.useResource_leaf cw w1 out.tertiaryResource
    generalize Writer.useResource cw w1 out.tertiaryResource = u2 at *
    obtain ⟨w2, res3, e2⟩ := u2
    simp only at h2 ⊢
    cases e1 <;> cases e2 <;> simp_all

theorem Writer.useResource_data (cw : CodecW) (w : Writer) (i : Int) :
    (Writer.useResource cw w i).1.resourcesData = w.resourcesData :=
  (Writer.useResource_frame cw w i).2.2.2.2.1

/-- `Compress` + the two `useResource` calls: the ids handed on to `AddChunk` are ids under which the
ChunkWriter registered the wrapped forms of the resources `Compress` named -/
theorem Writer.compressAndUseR (cw : CodecW) (w : Writer) (p0 p1 : Bytes) (hids : IdsOK cw w) :
    (∀ out r2 r3, (Writer.compressAndUse cw w p0 p1).2 = .ok (out, r2, r3) →
      IdsOK cw (Writer.compressAndUse cw w p0 p1).1 ∧
      (∃ ext, (Writer.compressAndUse cw w p0 p1).1.chunkWriter.resLog.reverse =
        w.chunkWriter.resLog.reverse ++ ext) ∧
      r2 ≤ (Writer.compressAndUse cw w p0 p1).1.chunkWriter.resLog.length ∧
      r3 ≤ (Writer.compressAndUse cw w p0 p1).1.chunkWriter.resLog.length ∧
      wrappedOf cw w.resourcesData out.secondaryResource =
        some (resAt (Writer.compressAndUse cw w p0 p1).1.chunkWriter.resLog.reverse r2) ∧
      wrappedOf cw w.resourcesData out.tertiaryResource =
        some (resAt (Writer.compressAndUse cw w p0 p1).1.chunkWriter.resLog.reverse r3) ∧
      (r2 ≠ 0 → ResInRange w.resourcesData out.secondaryResource) ∧
      (r3 ≠ 0 → ResInRange w.resourcesData out.tertiaryResource)) ∧
    (∀ e, (Writer.compressAndUse cw w p0 p1).2 = .error e →
      (Writer.compressAndUse cw w p0 p1).1 = w ∨ (Writer.compressAndUse cw w p0 p1).1.err ≠ none) := by
  unfold Writer.compressAndUse
  simp only
  split
  · exact ⟨fun _ _ _ h => by simp at h, fun _ _ => Or.inl rfl⟩
  · rename_i out hc
    have h1 := Writer.useResourceR cw w out.secondaryResource hids
    have d1 := Writer.useResource_data cw w out.secondaryResource
    generalize Writer.useResource cw w out.secondaryResource = u1 at *
    obtain ⟨w1, res2, e1⟩ := u1
    simp only at h1 d1 ⊢
    cases e1 with
    | some e => exact ⟨fun _ _ _ h => by simp at h, fun _ _ => Or.inr (h1.2 (by simp))⟩
    | none =>
      obtain ⟨a1, ⟨ext1, a2⟩, a3, a4, a5⟩ := h1.1 rfl
      have h2 := Writer.useResourceR cw w1 out.tertiaryResource a1
      generalize Writer.useResource cw w1 out.tertiaryResource = u2 at *
      obtain ⟨w2, res3, e2⟩ := u2
      simp only at h2 ⊢
      cases e2 with
      | some e => exact ⟨fun _ _ _ h => by simp at h, fun _ _ => Or.inr (h2.2 (by simp))⟩
      | none =>
        obtain ⟨b1, ⟨ext2, b2⟩, b3, b4, b5⟩ := h2.1 rfl
        refine ⟨fun o r2 r3 h => ?_, fun _ h => by simp at h⟩
        simp only at h ⊢
        simp only [Except.ok.injEq, Prod.mk.injEq] at h
        obtain ⟨rfl, rfl, rfl⟩ := h
        have hl1 : w1.chunkWriter.resLog.length ≤ w2.chunkWriter.resLog.length := by
          have := congrArg List.length b2
          simp only [List.length_reverse, List.length_append] at this
          omega
        refine ⟨b1, ⟨ext1 ++ ext2, by rw [b2, a2, List.append_assoc]⟩, by omega, b3, ?_, ?_, a5, ?_⟩
        · rw [a4, b2, resAt_append _ _ _ (by simpa using a3)]
        · rw [← d1]; exact b4
        · rw [← d1]; exact b5

/-- `GoodR` across `compressAndUse` -/
theorem compressAndUse_goodR (cw : CodecW) (DR : Bytes → Bytes → Bytes → Option Bytes) (w : Writer)
    (p0 p1 input : Bytes) (hg : GoodR cw DR w input) :
    (∀ e, (Writer.compressAndUse cw w p0 p1).2 = .error e →
      InvR cw DR (Writer.compressAndUse cw w p0 p1).1 input) ∧
    (∀ out r2 r3, (Writer.compressAndUse cw w p0 p1).2 = .ok (out, r2, r3) →
      GoodR cw DR (Writer.compressAndUse cw w p0 p1).1 input ∧
      cw.compress p0 p1 w.resourcesData = .ok out ∧
      r2 ≤ (Writer.compressAndUse cw w p0 p1).1.chunkWriter.resLog.reverse.length ∧
      r3 ≤ (Writer.compressAndUse cw w p0 p1).1.chunkWriter.resLog.reverse.length ∧
      wrappedOf cw w.resourcesData out.secondaryResource =
        some (resAt (Writer.compressAndUse cw w p0 p1).1.chunkWriter.resLog.reverse r2) ∧
      wrappedOf cw w.resourcesData out.tertiaryResource =
        some (resAt (Writer.compressAndUse cw w p0 p1).1.chunkWriter.resLog.reverse r3) ∧
      (r2 ≠ 0 → ResInRange w.resourcesData out.secondaryResource) ∧
      (r3 ≠ 0 → ResInRange w.resourcesData out.tertiaryResource) ∧
      (Writer.compressAndUse cw w p0 p1).1.uncompressed = w.uncompressed ∧
      (Writer.compressAndUse cw w p0 p1).1.dChunkSize = w.dChunkSize ∧
      (Writer.compressAndUse cw w p0 p1).1.cChunkSize = w.cChunkSize) := by
  obtain ⟨he, hids, hlr, hwf, consumed, hcov, hsum⟩ := hg
  have hR := Writer.compressAndUseR cw w p0 p1 hids
  have hfr := Writer.compressAndUse_frame cw w p0 p1
  have hlf := Writer.compressAndUse_leaf cw w p0 p1
  have her := Writer.compressAndUse_err cw w p0 p1
  simp only at hfr
  generalize Writer.compressAndUse cw w p0 p1 = cu at *
  obtain ⟨w1, r⟩ := cu
  obtain ⟨f1, f2, f3, f4, f5, f6, f7⟩ := hfr
  simp only at f1 f2 f3 f4 f5 f6 f7 hR hlf her ⊢
  refine ⟨fun e h => ?_, fun out r2 r3 h => ?_⟩
  · rcases hR.2 e h with h1 | h1
    · rw [h1]; exact Or.inr ⟨he, hids, hlr, hwf, consumed, hcov, hsum⟩
    · exact Or.inl h1
  · obtain ⟨q1, ⟨ext, q2⟩, q3, q4, q5, q6, q7, q8⟩ := hR.1 out r2 r3 h
    refine ⟨⟨by rw [her _ h]; exact he, q1, by rw [hlf, f1]; exact hlr, by rw [f2]; exact hwf, consumed,
      by rw [q2, f1]; exact hcov.mono ext, by rw [f2]; exact hsum⟩, f7 out r2 r3 h, by simpa using q3,
      by simpa using q4, q5, q6, q7, q8, f2, f3, f4⟩

theorem chunkOK_of_compress {cw : CodecW} {DR : Bytes → Bytes → Bytes → Option Bytes} (hc : CodecContractR cw DR)
    {p0 p1 : Bytes} {rs resl : List Bytes} {out : CompressOut} {r2 r3 : Nat}
    (hcomp : cw.compress p0 p1 rs = .ok out) (q3 : r2 ≤ resl.length) (q4 : r3 ≤ resl.length)
    (q5 : wrappedOf cw rs out.secondaryResource = some (resAt resl r2))
    (q6 : wrappedOf cw rs out.tertiaryResource = some (resAt resl r3))
    (q7 : r2 ≠ 0 → ResInRange rs out.secondaryResource) (q8 : r3 ≠ 0 → ResInRange rs out.tertiaryResource) :
    ChunkOKR DR resl out.compressed r2 r3 (p0 ++ p1) := by
  obtain ⟨h1, h2, h3⟩ := hc.compress_ok _ _ _ _ _ _ hcomp q5 q6
  exact ⟨q3, q4, fun h => h2 (q7 h), fun h => h3 (q8 h), h1⟩

theorem ChunkOKR.cut {cw : CodecW} {DR : Bytes → Bytes → Bytes → Option Bytes} (hc : CodecContractR cw DR)
    {resl : List Bytes} {enc enc' d : Bytes} {s t c m eLen dLen : Nat}
    (h : ChunkOKR DR resl enc s t d) (hcut : cw.cut c enc m = .ok (enc', eLen, dLen)) :
    dLen ≤ d.length ∧ ChunkOKR DR resl (enc'.take eLen) s t (d.take dLen) := by
  obtain ⟨h1, h2, h3, h4, h5⟩ := h
  obtain ⟨a, b⟩ := hc.cut_ok _ _ _ _ _ _ _ _ _ hcut h5
  exact ⟨a, h1, h2, h3, h4, b⟩

/-- a successful `AddChunk(d.length + z, …, prim, s, t)` where the pending bytes start with `d ++ 0^z` -/
theorem addChunk_coversR {DR : Bytes → Bytes → Bytes → Option Bytes} {cwr c : CW}
    {consumed abs rest input d prim : Bytes} {z codec s t : Nat}
    (hlr : LeafRes cwr.leafNodes.toList cwr.log.reverse)
    (hcov : CoversR DR cwr.resLog.reverse cwr.log consumed) (hsum : consumed ++ abs = input)
    (hok : ChunkOKR DR cwr.resLog.reverse prim s t d) (habs : abs = (d ++ List.replicate z 0) ++ rest)
    (hac : cwr.addChunk (d.length + z) codec prim s t = (c, none)) :
    c.resLog = cwr.resLog ∧ c.resourcesCOffCLens = cwr.resourcesCOffCLens ∧
    LeafRes c.leafNodes.toList c.log.reverse ∧
    ∃ consumed', CoversR DR c.resLog.reverse c.log consumed' ∧ consumed' ++ rest = input := by
  have hlog := (CW.addChunk_log cwr (d.length + z) codec prim s t).1 (by rw [hac])
  have hleaf := (CW.addChunk_leaf cwr (d.length + z) codec prim s t).1 (by rw [hac])
  have hrl := CW.addChunk_resLog cwr (d.length + z) codec prim s t
  have hrc := CW.addChunk_rcl cwr (d.length + z) codec prim s t
  rw [hac] at hlog hleaf hrl hrc
  simp only at hlog hleaf hrl hrc
  refine ⟨hrl, hrc, ?_⟩
  rw [hrl]
  by_cases h0 : d.length + z = 0
  · rw [if_pos h0] at hlog hleaf
    have hd : d = [] := List.eq_nil_of_length_eq_zero (by omega)
    have hz : z = 0 := by omega
    rw [hd, hz] at habs
    simp only [List.replicate_zero, List.append_nil, List.nil_append] at habs
    exact ⟨by rw [hlog, hleaf]; exact hlr, consumed, by rw [hlog]; exact hcov, by rw [← habs]; exact hsum⟩
  · rw [if_neg h0] at hlog hleaf
    obtain ⟨o, o1, o2, o3⟩ := hleaf
    refine ⟨?_, consumed ++ (d ++ List.replicate z 0), ?_, ?_⟩
    · rw [hlog, o3]
      simp only [Array.toList_push, List.reverse_cons]
      exact LeafRes.snoc o _ hlr o1 o2
    · rw [hlog]
      exact CoversR.cons (c := ⟨d.length + z, codec, prim, s, t⟩) hcov hok rfl
    · rw [← hsum, habs]; simp

/-! ### DChunkSize mode -/

theorem writeDChunks_invR (cw : CodecW) (DR : Bytes → Bytes → Bytes → Option Bytes) (hc : CodecContractR cw DR)
    (eof : Bool) (fuel : Nat) : ∀ (w : Writer) (input : Bytes), GoodR cw DR w input →
      InvR cw DR (Writer.writeDChunks cw eof fuel w).1 input ∧
      ((Writer.writeDChunks cw eof fuel w).2 = none → eof = true → w.dChunkSize > 0 →
        (Writer.writeDChunks cw eof fuel w).1.uncompressed.abs = []) := by
  induction fuel with
  | zero => intro w input h; simp [Writer.writeDChunks, InvR, h]
  | succ f ih =>
    intro w input hg
    unfold Writer.writeDChunks
    simp only
    have hpk := WBuf.peek_refines w.uncompressed w.dChunkSize
    have hpl := WBuf.peek_length w.uncompressed w.dChunkSize
    generalize hp : w.uncompressed.peek w.dChunkSize = pk at *
    obtain ⟨peek0, peek1⟩ := pk
    simp only at hpk hpl ⊢
    split
    · rename_i hd
      refine ⟨Or.inr hg, ?_⟩
      intro _ _ hpos
      have hd' := beq_iff_eq.mp hd
      have hl : w.uncompressed.length = 0 := by omega
      rw [WBuf.length_eq] at hl
      exact List.eq_nil_of_length_eq_zero hl
    · rename_i hd
      split
      · rename_i h2
        refine ⟨Or.inr hg, ?_⟩
        intro _ he; simp [he] at h2
      · rename_i h2
        have hcu := compressAndUse_goodR cw DR w
          (if (stripTrailingZeroes peek1).length == 0 then stripTrailingZeroes peek0 else peek0)
          (stripTrailingZeroes peek1) input hg
        generalize Writer.compressAndUse cw w
          (if (stripTrailingZeroes peek1).length == 0 then stripTrailingZeroes peek0 else peek0)
          (stripTrailingZeroes peek1) = cu at *
        obtain ⟨w1, r⟩ := cu
        simp only at hcu
        cases r with
        | error e =>
          simp only
          exact ⟨hcu.1 e rfl, by simp⟩
        | ok v =>
          obtain ⟨out, res2, res3⟩ := v
          simp only
          obtain ⟨g1, hcomp, q3, q4, q5, q6, q7, q8, f2, f3, f4⟩ := hcu.2 out res2 res3 rfl
          obtain ⟨ge, gids, glr, gwf, consumed, hcov, hsum⟩ := g1
          generalize hac : w1.chunkWriter.addChunk (peek0.length + peek1.length) out.codec out.compressed res2 res3 = ac at *
          obtain ⟨c, e⟩ := ac
          simp only
          cases e with
          | some e => simp [InvR]
          | none =>
            simp only
            have hok := chunkOK_of_compress hc hcomp q3 q4 q5 q6 q7 q8
            obtain ⟨k, hk⟩ := strip_pair peek0 peek1
            have hlenk := congrArg List.length hk
            simp only [List.length_append, List.length_replicate] at hlenk
            have hsz : ((if (stripTrailingZeroes peek1).length == 0 then stripTrailingZeroes peek0 else peek0) ++
                stripTrailingZeroes peek1).length + k = peek0.length + peek1.length := by
              simp only [List.length_append]; omega
            rw [← hsz] at hac
            obtain ⟨a1, a2, a3, consumed', a4, a5⟩ := addChunk_coversR
              (rest := w.uncompressed.abs.drop w.dChunkSize) glr hcov hsum hok
              (by rw [f2, hk, hpk, List.take_append_drop]) hac
            have hnew : GoodR cw DR { w1 with chunkWriter := c, uncompressed := w1.uncompressed.advance (peek0.length + peek1.length) } input := by
              refine ⟨ge, IdsOK.congr gids rfl rfl a1 a2, a3, WBuf.advance_WF _ _ gwf, consumed', a4, ?_⟩
              simp only
              rw [f2, WBuf.advance_refines _ _ (by omega)]
              have : peek0.length + peek1.length = (w.uncompressed.abs.take w.dChunkSize).length := by
                rw [← hpk]; simp
              rw [this, drop_take_length]; exact a5
            have hrec := ih _ input hnew
            refine ⟨hrec.1, ?_⟩
            intro h1 h2' h3
            exact hrec.2 h1 h2' (by simp only; omega)

/-! ### CChunkSize mode -/

theorem tryCChunk_invR (cw : CodecW) (DR : Bytes → Bytes → Bytes → Option Bytes) (hc : CodecContractR cw DR)
    (w : Writer) (target : Nat) (force : Bool) (input : Bytes) (hg : GoodR cw DR w input) :
    InvR cw DR (Writer.tryCChunk cw w target force).1 input ∧
    (force = true → ∀ w', Writer.tryCChunk cw w target force ≠ (w', .short)) ∧
    (Writer.tryCChunk cw w target force).1.cChunkSize = w.cChunkSize ∧
    (Writer.tryCChunk cw w target force).1.dChunkSize = w.dChunkSize := by
  unfold Writer.tryCChunk
  simp only
  have hpk := WBuf.peek_refines w.uncompressed target
  have hpl := WBuf.peek_length w.uncompressed target
  generalize hp : w.uncompressed.peek target = pk at *
  obtain ⟨peek0, peek1⟩ := pk
  simp only at hpk hpl ⊢
  have hcu := compressAndUse_goodR cw DR w peek0 peek1 input hg
  have hfr := Writer.compressAndUse_frame cw w peek0 peek1
  simp only at hfr
  generalize Writer.compressAndUse cw w peek0 peek1 = cu at *
  obtain ⟨w1, r⟩ := cu
  simp only at hcu hfr
  have hlen12 : peek0.length + peek1.length = (peek0 ++ peek1).length := by simp
  cases r with
  | error e =>
    simp only
    exact ⟨hcu.1 e rfl, by intro _ w' h; simp at h, hfr.2.2.2.1, hfr.2.2.1⟩
  | ok v =>
    obtain ⟨out, res2, res3⟩ := v
    simp only
    obtain ⟨g1, hcomp, q3, q4, q5, q6, q7, q8, f2, f3, f4⟩ := hcu.2 out res2 res3 rfl
    have hok := chunkOK_of_compress hc hcomp q3 q4 q5 q6 q7 q8
    obtain ⟨ge, gids, glr, gwf, consumed, hcov, hsum⟩ := g1
    split
    · rename_i hshort
      refine ⟨Or.inr ⟨ge, gids, glr, gwf, consumed, hcov, hsum⟩, ?_, f4, f3⟩
      intro hf; simp [hf] at hshort
    · split
      · -- the whole peek fits
        have hn : peek0.length + peek1.length ≤ w1.uncompressed.length := by rw [f2]; omega
        have hz := apz_after_advance w1.uncompressed (peek0.length + peek1.length) hn gwf
        simp only at hz
        generalize hapz : (w1.uncompressed.advance (peek0.length + peek1.length)).advancePastLeadingZeroes = az at *
        obtain ⟨u, z⟩ := az
        simp only at hz ⊢
        generalize hac : w1.chunkWriter.addChunk (peek0.length + peek1.length + z) out.codec out.compressed res2 res3 = ac at *
        obtain ⟨c, e⟩ := ac
        simp only
        cases e with
        | some e =>
          simp only
          exact ⟨by left; simp, by intro _ w' h; simp at h, f4, f3⟩
        | none =>
          simp only
          refine ⟨?_, by intro _ w' h; simp at h, f4, f3⟩
          have htake : w1.uncompressed.abs.take (peek0.length + peek1.length) = peek0 ++ peek1 := by
            rw [f2, hlen12, hpk, take_take_length]
          have habs := hz.1
          rw [htake] at habs
          rw [hlen12] at hac
          obtain ⟨a1, a2, a3, consumed', a4, a5⟩ := addChunk_coversR glr hcov hsum hok habs hac
          exact Or.inr ⟨ge, IdsOK.congr gids rfl rfl a1 a2, a3, hz.2, consumed', a4, a5⟩
      · -- Cut
        split
        · simp only
          exact ⟨by left; simp, by intro _ w' h; simp at h, f4, f3⟩
        · rename_i cB eLen dLen hcut
          obtain ⟨hdl, hokcut⟩ := hok.cut hc hcut
          split
          · simp only
            exact ⟨by left; simp, by intro _ w' h; simp at h, f4, f3⟩
          · have hn : dLen ≤ w1.uncompressed.length := by
              rw [f2]; rw [← hlen12] at hdl; omega
            have hz := apz_after_advance w1.uncompressed dLen hn gwf
            simp only at hz
            generalize hapz : (w1.uncompressed.advance dLen).advancePastLeadingZeroes = az at *
            obtain ⟨u, z⟩ := az
            simp only at hz ⊢
            generalize hac : w1.chunkWriter.addChunk (dLen + z) out.codec (cB.take eLen) res2 res3 = ac at *
            obtain ⟨c, e⟩ := ac
            simp only
            cases e with
            | some e =>
              simp only
              exact ⟨by left; simp, by intro _ w' h; simp at h, f4, f3⟩
            | none =>
              simp only
              refine ⟨?_, by intro _ w' h; simp at h, f4, f3⟩
              have htake : w1.uncompressed.abs.take dLen = (peek0 ++ peek1).take dLen := by
                rw [f2, hpk, List.take_take]
                congr 1
                rw [← hlen12] at hdl
                omega
              have habs := hz.1
              rw [htake] at habs
              have hlen : ((peek0 ++ peek1).take dLen).length = dLen := by
                rw [List.length_take]; omega
              rw [← hlen] at hac
              obtain ⟨a1, a2, a3, consumed', a4, a5⟩ := addChunk_coversR glr hcov hsum hokcut habs hac
              exact Or.inr ⟨ge, IdsOK.congr gids rfl rfl a1 a2, a3, hz.2, consumed', a4, a5⟩

theorem cChunkInner_invR (cw : CodecW) (DR : Bytes → Bytes → Bytes → Option Bytes) (hc : CodecContractR cw DR)
    (fuel : Nat) : ∀ (w : Writer) (target : Nat) (input : Bytes), GoodR cw DR w input →
      InvR cw DR (Writer.cChunkInner cw fuel w target).1 input ∧
      (Writer.cChunkInner cw fuel w target).1.cChunkSize = w.cChunkSize ∧
      (Writer.cChunkInner cw fuel w target).1.dChunkSize = w.dChunkSize ∧
      (target = maxTargetDChunkSize → ∀ w', Writer.cChunkInner cw fuel w target ≠ (w', .ret none)) := by
  induction fuel with
  | zero => intro w target input h; simp [Writer.cChunkInner, InvR, h]
  | succ f ih =>
    intro w target input hg
    unfold Writer.cChunkInner
    simp only
    have ht := tryCChunk_invR cw DR hc w target
      (decide ((if target * 2 > maxTargetDChunkSize then maxTargetDChunkSize else target * 2) ≤ target)) input hg
    have hte := Writer.tryCChunk_err cw w target
      (decide ((if target * 2 > maxTargetDChunkSize then maxTargetDChunkSize else target * 2) ≤ target))
    generalize htr : Writer.tryCChunk cw w target
      (decide ((if target * 2 > maxTargetDChunkSize then maxTargetDChunkSize else target * 2) ≤ target)) = tr at *
    obtain ⟨w1, r⟩ := tr
    obtain ⟨t1, t2, t3, t4⟩ := ht
    simp only at t1 t3 t4 hte
    cases r with
    | ok => simp only; exact ⟨t1, t3, t4, by intro _ w' h; simp at h⟩
    | err e => simp only; exact ⟨t1, t3, t4, by intro _ w' h; simp at h⟩
    | short =>
      simp only
      split
      · refine ⟨t1, t3, t4, ?_⟩
        intro htm
        exfalso
        refine t2 ?_ w1 rfl
        rw [htm]; simp [maxTargetDChunkSize]
      · have he1 : w1.err = none := by rw [hte (by intro e h; simp at h)]; exact hg.1
        have := ih w1 (if target * 2 > maxTargetDChunkSize then maxTargetDChunkSize else target * 2) input (t1.good he1)
        refine ⟨this.1, by rw [this.2.1, t3], by rw [this.2.2.1, t4], ?_⟩
        intro htm
        exfalso
        refine t2 ?_ w1 rfl
        rw [htm]; simp [maxTargetDChunkSize]

theorem writeCChunks_invR (cw : CodecW) (DR : Bytes → Bytes → Bytes → Option Bytes) (hc : CodecContractR cw DR)
    (eof : Bool) (fuel : Nat) : ∀ (w : Writer) (input : Bytes), GoodR cw DR w input →
      InvR cw DR (Writer.writeCChunks cw eof fuel w).1 input ∧
      ((Writer.writeCChunks cw eof fuel w).2 = none → eof = true →
        (Writer.writeCChunks cw eof fuel w).1.uncompressed.abs = []) := by
  induction fuel with
  | zero => intro w input h; simp [Writer.writeCChunks, InvR, h]
  | succ f ih =>
    intro w input hg
    unfold Writer.writeCChunks
    simp only
    by_cases hn : (w.uncompressed.length == 0) = true
    · rw [if_pos hn]
      refine ⟨Or.inr hg, ?_⟩
      intro _ _
      have hl := beq_iff_eq.mp hn
      rw [WBuf.length_eq] at hl
      exact List.eq_nil_of_length_eq_zero hl
    · rw [if_neg hn]
      generalize htg : (if (!eof) = true then startingTargetDChunkSize w.cChunkSize else maxTargetDChunkSize) = tg
      by_cases h2 : (!eof && decide (w.uncompressed.length < tg)) = true
      · rw [if_pos h2]
        refine ⟨Or.inr hg, ?_⟩
        intro _ he; simp [he] at h2
      · rw [if_neg h2]
        have hi := cChunkInner_invR cw DR hc 64 w tg input hg
        have hie := Writer.cChunkInner_err cw 64 w tg
        generalize hci : Writer.cChunkInner cw 64 w tg = ci at *
        obtain ⟨w1, r⟩ := ci
        obtain ⟨i1, i2, i3, i4⟩ := hi
        simp only at i1 i2 i3 hie
        cases r with
        | continueOuter =>
          simp only
          have he1 : w1.err = none := by rw [hie (by intro e h; simp at h)]; exact hg.1
          exact ih w1 input (i1.good he1)
        | ret e =>
          simp only
          refine ⟨i1, ?_⟩
          intro he heof
          exfalso
          subst he
          refine i4 ?_ w1 rfl
          rw [← htg]; simp [heof]

/-! ### Write / Close -/

theorem write_invR (cw : CodecW) (DR : Bytes → Bytes → Bytes → Option Bytes) (hc : CodecContractR cw DR)
    (eof : Bool) (w : Writer) (input : Bytes) (hg : GoodR cw DR w input) :
    InvR cw DR (Writer.write cw w eof).1 input ∧
    ((Writer.write cw w eof).2 = none → eof = true → (Writer.write cw w eof).1.uncompressed.abs = []) := by
  unfold Writer.write
  split
  · rename_i hd
    have := writeDChunks_invR cw DR hc eof (w.uncompressed.length + 1) w input hg
    exact ⟨this.1, fun h1 h2 => this.2 h1 h2 hd⟩
  · exact writeCChunks_invR cw DR hc eof (w.uncompressed.length + 1) w input hg

/-- invariant between public calls: the resource table is sound once `initialize` has run; `curr` is empty and
`p = 0` -/
def InvBR (cw : CodecW) (DR : Bytes → Bytes → Bytes → Option Bytes) (w : Writer) (input : Bytes) : Prop :=
  w.err ≠ none ∨ (w.chunkWriter.RL ∧ (w.inited = true → IdsOK cw w) ∧
    LeafRes w.chunkWriter.leafNodes.toList w.chunkWriter.log.reverse ∧
    w.uncompressed.curr = [] ∧ w.uncompressed.p = 0 ∧
    ∃ consumed, CoversR DR w.chunkWriter.resLog.reverse w.chunkWriter.log consumed ∧
      consumed ++ w.uncompressed.abs = input)

theorem replicate_getD_zero (n i : Nat) : (List.replicate n 0).getD i 0 = 0 := by
  rw [List.getD_eq_getElem?_getD, List.getElem?_replicate]
  split <;> rfl

/-- `initialize`: a successful call leaves a sound (initially all-zero) resource table and touches nothing
else on the resource side -/
theorem Writer.init_R (cw : CodecW) (w : Writer) (h : (w.init cw).2 = none) (hrl : w.chunkWriter.RL)
    (hids : w.inited = true → IdsOK cw w) :
    IdsOK cw (w.init cw).1 ∧ (w.init cw).1.inited = true ∧
    (w.init cw).1.chunkWriter.resLog = w.chunkWriter.resLog ∧
    (w.init cw).1.chunkWriter.leafNodes = w.chunkWriter.leafNodes := by
  unfold Writer.init at h ⊢
  cases he : w.err with
  | some e => rw [he] at h; simp at h
  | none =>
    rw [he] at h
    simp only at h ⊢
    by_cases hin : w.inited = true
    · rw [if_pos hin]; exact ⟨hids hin, hin, rfl, rfl⟩
    · rw [if_neg hin] at h ⊢
      by_cases hnw : w.nilWriter = true
      · rw [if_pos hnw] at h; simp at h
      · rw [if_neg hnw] at h ⊢
        by_cases hnc : w.nilCodecWriter = true
        · rw [if_pos hnc] at h; simp at h
        · rw [if_neg hnc] at h ⊢
          have key : ∀ (w1 : Writer), w1.chunkWriter.resLog = w.chunkWriter.resLog →
              w1.chunkWriter.resourcesCOffCLens = w.chunkWriter.resourcesCOffCLens →
              w1.resourcesData = w.resourcesData →
              w1.resourcesIDs = List.replicate w.resourcesData.length 0 → IdsOK cw w1 := by
            intro w1 hrl1 hrc1 hrd hri
            refine ⟨?_, ?_, ?_⟩
            · unfold CW.RL; rw [hrl1, hrc1]; exact hrl
            · rw [hri, hrd]; simp
            · intro i hi hne
              rw [hri, replicate_getD_zero] at hne
              exact absurd rfl hne
          by_cases hd : w.dChunkSizeCfg > 0
          · simp only [hd, ↓reduceIte, Option.isSome_none, Bool.false_eq_true]
            refine ⟨by apply key <;> rfl, ?_, ?_, ?_⟩ <;> first | trivial | rfl
          · simp only [hd, ↓reduceIte] at h ⊢
            by_cases hc : w.cChunkSizeCfg > 0
            · simp only [hc, ↓reduceIte] at h ⊢
              by_cases hcc : cw.canCut = true
              · simp only [hcc, Bool.not_true, Bool.false_eq_true, ↓reduceIte, Option.isSome_none]
                refine ⟨by apply key <;> rfl, ?_, ?_, ?_⟩ <;> first | trivial | rfl
              · simp only [hcc, Bool.not_false, ↓reduceIte, Option.isSome_some] at h
                simp at h
            · simp only [hc, ↓reduceIte, Option.isSome_none, Bool.false_eq_true]
              refine ⟨by apply key <;> rfl, ?_, ?_, ?_⟩ <;> first | trivial | rfl

theorem Write_invR (cw : CodecW) (DR : Bytes → Bytes → Bytes → Option Bytes) (hc : CodecContractR cw DR)
    (w : Writer) (p input : Bytes) (hinv : InvBR cw DR w input) :
    InvBR cw DR (Writer.Write cw w p).1 (input ++ p) := by
  unfold Writer.Write
  simp only
  obtain ⟨i1, i2, i3, i4, i5⟩ := Writer.init_frame cw w
  have hiR := Writer.init_R cw w
  generalize hi : w.init cw = wi at *
  obtain ⟨w1, e1⟩ := wi
  simp only at i1 i2 i3 i4 i5 hiR ⊢
  split
  · rename_i he
    left
    exact i3 (by intro h; simp [h] at he)
  · rename_i he
    have he1 : e1 = none := by
      cases e1 <;> simp_all
    have herr := i4 he1
    split
    · left; simp
    · rcases hinv with hi' | ⟨hrl, hids, hlr, hcurr, hp0, consumed, hcov, hsum⟩
      · exfalso
        exact i5 hi' he1
      · obtain ⟨k1, k2, k3, k4⟩ := hiR he1 hrl hids
        have hw0 : w.err = none := by
          cases hwe : w.err with
          | none => rfl
          | some x => exact absurd he1 (i5 (by rw [hwe]; simp))
        have hext : w1.uncompressed.extend p = some { w1.uncompressed with curr := p } := by
          rw [i2]; exact (WBuf.extend_refines w.uncompressed p hcurr).1
        rw [hext]
        simp only
        have hg1 : GoodR cw DR { w1 with uncompressed := { w1.uncompressed with curr := p } } (input ++ p) := by
          refine ⟨by simp only; rw [herr]; exact hw0, IdsOK.congr k1 rfl rfl rfl rfl, ?_, ?_, consumed, ?_, ?_⟩
          · simp only; rw [k4, i1]; exact hlr
          · simp only [WBuf.WF]; rw [i2, hp0]; omega
          · simp only; rw [k3, i1]; exact hcov
          · simp only
            rw [i2, (WBuf.extend_refines w.uncompressed p hcurr).2, ← hsum, List.append_assoc]
        have hw := write_invR cw DR hc false _ (input ++ p) hg1
        have hst := (Writer.write_step cw { w1 with uncompressed := { w1.uncompressed with curr := p } } false).inited
        generalize hwr : Writer.write cw { w1 with uncompressed := { w1.uncompressed with curr := p } } false = wr at *
        obtain ⟨w2, e2⟩ := wr
        simp only at hw hst ⊢
        have hfin : InvBR cw DR { w2 with uncompressed := w2.uncompressed.compact } (input ++ p) := by
          rcases hw.1 with h | ⟨ge, gids, glr, gwf, c2, hc2, hs2⟩
          · left; exact h
          · right
            obtain ⟨q1, q2, q3, q4⟩ := WBuf.compact_refines w2.uncompressed
            exact ⟨gids.1, fun _ => IdsOK.congr gids rfl rfl rfl rfl, glr, q2, q3, c2, hc2,
              by simp only; rw [q1]; exact hs2⟩
        cases e2 <;> exact hfin

theorem runWrites_invR (cw : CodecW) (DR : Bytes → Bytes → Bytes → Option Bytes) (hc : CodecContractR cw DR)
    (ps : List Bytes) : ∀ (w : Writer) (input : Bytes), InvBR cw DR w input →
      InvBR cw DR (Writer.runWrites cw w ps) (input ++ ps.flatten) := by
  induction ps with
  | nil => intro w input h; simpa [Writer.runWrites] using h
  | cons p ps ih =>
    intro w input h
    have h1 := Write_invR cw DR hc w p input h
    have h2 := ih (w.Write cw p).1 (input ++ p) h1
    simpa [Writer.runWrites, List.append_assoc] using h2

/-- the state in which `Close` calls `ChunkWriter.Close`: if `initialize` and `write(true)` return nil, the
accepted chunks — each with the resources registered under its ids — cover exactly the input -/
theorem close_coversR (cw : CodecW) (DR : Bytes → Bytes → Bytes → Option Bytes) (hc : CodecContractR cw DR)
    (w w1 : Writer) (input : Bytes) (hinv : InvBR cw DR w input) (hinit : w.init cw = (w1, none))
    (hwr : (Writer.write cw w1 true).2 = none) :
    LeafRes (Writer.write cw w1 true).1.chunkWriter.leafNodes.toList
      (Writer.write cw w1 true).1.chunkWriter.log.reverse ∧
    CoversR DR (Writer.write cw w1 true).1.chunkWriter.resLog.reverse
      (Writer.write cw w1 true).1.chunkWriter.log input := by
  obtain ⟨i1, i2, i3, i4, i5⟩ := Writer.init_frame cw w
  have hiR := Writer.init_R cw w
  rw [hinit] at i1 i2 i3 i4 i5 hiR
  simp only at i1 i2 i3 i4 i5 hiR
  rcases hinv with hi' | ⟨hrl, hids, hlr, hcurr, hp0, consumed, hcov, hsum⟩
  · exact absurd rfl (i5 hi')
  · obtain ⟨k1, k2, k3, k4⟩ := hiR trivial hrl hids
    have hw0 : w.err = none := by
      cases hwe : w.err with
      | none => rfl
      | some x => exact absurd rfl (i5 (by rw [hwe]; simp))
    have he1 : w1.err = none := by rw [i4 trivial]; exact hw0
    have hg1 : GoodR cw DR w1 input := by
      refine ⟨he1, k1, by rw [k4, i1]; exact hlr, ?_, consumed, by rw [k3, i1]; exact hcov, by rw [i2]; exact hsum⟩
      simp only [WBuf.WF]; rw [i2, hp0]; omega
    have hw := write_invR cw DR hc true w1 input hg1
    have habs := hw.2 hwr rfl
    rcases hw.1 with hb | ⟨_, _, glr, _, cns, hc2, hs2⟩
    · exact absurd hb (fun hb => write_err_returned cw w1 true he1 hwr hb)
    · rw [habs, List.append_nil] at hs2
      rw [← hs2]; exact ⟨glr, hc2⟩

end WuffsVerif.Rac
