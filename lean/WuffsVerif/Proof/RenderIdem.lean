/-
C12, the Wuffs formatter, idempotence, assembly: `Render`'s output has the shape `Gen`
(`render_gen`, first run), every such output is a fixed point of Tokenize + Render (`gen_render`,
second run), hence formatting the output again changes nothing (`render_idempotent_stream`).
Core Lean only.
-/
import WuffsVerif.Proof.RenderIdemLoop

namespace WuffsVerif.Render
open WuffsVerif.FmtToken WuffsVerif.Gen.C12

/-- `Render`'s output is a list of well-formed pieces of the shape `Gen` whose source tokens are
the input tokens. -/
theorem render_gen (toks : List Tok) (comments : Array Bytes) (out : Bytes)
    (hwf : ∀ t ∈ toks, wfTok t = true) (hcm : wfComments comments)
    (hlines : linesOK (toks.length + 1) toks = true) (hsorted : SortedLines toks)
    (h : render toks comments = some out) :
    ∃ ps : List Piece, out = piecesBytes ps ∧ (∀ p ∈ ps, p.ok ∧ p.ok2 ∧ p.ok3) ∧
      ps.flatMap Piece.src = toks ∧ Gen ⟨0, false, 0, false⟩ true ps := by
  unfold render at h
  split at h
  · rename_i he
    simp only [Bool.and_eq_true, List.isEmpty_iff, Array.isEmpty_iff] at he
    simp only [Option.some.injEq] at h
    exact ⟨[], by rw [← h]; rfl, by simp, by simp [he.1], Gen.trailing _ _ _ (CRun.nil _)⟩
  · simp only at h
    -- the initial state, whatever `prevLine` is
    have key : ∀ (pl : Nat) (s : RSt),
        (∀ t, toks.head? = some t → t.line ≤ pl + 1) → (toks = [] → comments.size ≤ pl + 1) →
        renderLoop comments (toks.length + 1) ⟨[], 0, 0, false, 0, pl, false⟩ toks = some s →
        ∃ ps : List Piece, (trailingComments comments (comments.size + 1) s).out = piecesBytes ps ∧
          (∀ p ∈ ps, p.ok ∧ p.ok2 ∧ p.ok3) ∧ ps.flatMap Piece.src = toks ∧ Gen ⟨0, false, 0, false⟩ true ps := by
      intro pl s hpl1 hpl2 hs
      obtain ⟨ps1, h1, h2, h3, _, h5⟩ := renderLoop_gen comments hcm _ _ _ _ hs hwf hlines hsorted
        (fun t _ => Nat.zero_le _)
      obtain ⟨cs, g1, g2, g3⟩ := trailing_gen comments hcm (comments.size + 1) s
      have hsempty : toks = [] → s.prevLine = pl := by
        intro ht
        rw [ht, renderLoop] at hs
        have := Option.some.inj hs
        rw [← this]
      have hrun := g3 (true && toks.isEmpty) (fun hb => by
        have ht : toks = [] := by simpa using hb
        rw [hsempty ht]
        exact hpl2 ht)
      have hcsN := crun_noToks hrun
      have hG := h5 true cs (fun _ t ht => hpl1 t ht) hcsN (Gen.trailing _ _ cs hrun)
      refine ⟨ps1 ++ cs, ?_, ?_, ?_, hG⟩
      · rw [g1, h1, piecesBytes_append]
        rfl
      · intro p hp
        rcases List.mem_append.mp hp with hp | hp
        · exact h2 p hp
        · exact g2 p hp
      · rw [List.flatMap_append, h3, flatMap_src_noToks _ hcsN, List.append_nil]
    cases toks with
    | nil =>
      simp only at h
      cases hs : renderLoop comments ([] : List Tok).length.succ ⟨[], 0, 0, false, 0, comments.size, false⟩ [] with
      | none => rw [hs] at h; simp at h
      | some s =>
        rw [hs] at h
        simp only [Option.some.injEq] at h
        obtain ⟨ps, k1, k2, k3, k4⟩ := key comments.size s (fun t ht => by simp at ht) (fun _ => by omega) hs
        exact ⟨ps, by rw [← h, k1], k2, k3, k4⟩
    | cons t r =>
      simp only at h
      cases hs : renderLoop comments (t :: r).length.succ ⟨[], 0, 0, false, 0, t.line - 1, false⟩ (t :: r) with
      | none => rw [hs] at h; simp at h
      | some s =>
        rw [hs] at h
        simp only [Option.some.injEq] at h
        obtain ⟨ps, k1, k2, k3, k4⟩ := key (t.line - 1) s
          (fun t' ht => by
            simp only [List.head?_cons, Option.some.injEq] at ht
            subst ht
            omega)
          (fun h0 => by simp at h0) hs
        exact ⟨ps, by rw [← h, k1], k2, k3, k4⟩

/-- `render_idempotent` for every stream of well-formed tokens (lines not decreasing) and comments
with the line structure `linesOK` and no numeric literal directly before a ":" (`numColonFree`):
formatting `Render`'s output again (Tokenize, then Render) gives the same bytes. -/
theorem render_idempotent_stream (toks : List Tok) (comments : Array Bytes) (out : Bytes)
    (hwf : ∀ t ∈ toks, wfTok t = true) (hcm : wfComments comments)
    (hlines : linesOK (toks.length + 1) toks = true) (hsorted : SortedLines toks)
    (hnum : numColonFree toks = true)
    (hr : render toks comments = some out) (hnl : out.count 10 < maxLine) :
    fmt out = some out := by
  obtain ⟨ps, hout, hok, hsrc, hgen⟩ := render_gen toks comments out hwf hcm hlines hsorted hr
  have hlen : ps.length < maxLine := by
    have := pieces_length_le_newlines ps
    rw [← hout] at this
    omega
  have hnumP : ∀ p ∈ ps, p.numOK := numColonFree_flatMap ps (by rw [hsrc]; exact hnum)
  have htok := pieces_tokenize ps (fun p hp => (hok p hp).1) hlen
  unfold fmt
  rw [hout, htok]
  simp only
  exact gen_render ps hgen (fun p hp => ⟨(hok p hp).1, (hok p hp).2.1, (hok p hp).2.2, hnumP p hp⟩)

/-! ### the hypotheses are closed under formatting -/

theorem numHead_sameClass {a b : Tok} (h : SameClass a b) : numHead b = numHead a := by
  unfold numHead
  have h2 := h.2
  cases ha : a.text with
  | nil =>
    cases hb : b.text with
    | nil => rfl
    | cons d δ => rw [ha, hb] at h2; simp at h2
  | cons c σ =>
    cases hb : b.text with
    | nil => rw [ha, hb] at h2; simp at h2
    | cons d δ =>
      rw [ha, hb] at h2
      simp only [List.head?_cons, Option.some.injEq] at h2
      subst h2
      rfl

theorem numColonFree_rel {A A' : List Tok} (h : Forall2 OutRel A A') (hn : numColonFree A = true) :
    numColonFree A' = true := by
  induction h with
  | nil => rfl
  | @cons a a' as as' hr hrest ih =>
    cases hrest with
    | nil => rfl
    | @cons b b' bs bs' hr2 hrest2 =>
      unfold numColonFree at hn ⊢
      rw [Bool.and_eq_true] at hn ⊢
      refine ⟨?_, ih hn.2⟩
      rw [numHead_sameClass hr.1, hr2.1.1]
      exact hn.1

theorem pieces_outRel : ∀ (ps : List Piece), (∀ p ∈ ps, p.ok ∧ p.ok3) → ∀ l,
    Forall2 OutRel (ps.flatMap Piece.src) (piecesOut l ps) := by
  intro ps
  induction ps with
  | nil => intro _ _; exact Forall2.nil
  | cons p ps ih =>
    intro hok l
    simp only [List.flatMap_cons, piecesOut]
    exact Forall2.append (piece_outRel p (hok p (by simp)).1 (hok p (by simp)).2 l)
      (ih (fun q hq => hok q (by simp [hq])) (l + 1))

/-- what `Tokenize` reads back from `Render`'s output has no number directly before a ":" either -/
theorem render_output_numColonFree (toks : List Tok) (comments : Array Bytes) (out : Bytes)
    (hwf : ∀ t ∈ toks, wfTok t = true) (hcm : wfComments comments)
    (hlines : linesOK (toks.length + 1) toks = true) (hsorted : SortedLines toks)
    (hnum : numColonFree toks = true)
    (hr : render toks comments = some out) (hnl : out.count 10 < maxLine) :
    ∃ toks' comments', tokenize out = some (toks', comments') ∧ numColonFree toks' = true := by
  obtain ⟨ps, hout, hok, hsrc, _⟩ := render_gen toks comments out hwf hcm hlines hsorted hr
  have hlen : ps.length < maxLine := by
    have := pieces_length_le_newlines ps
    rw [← hout] at this
    omega
  have htok := pieces_tokenize ps (fun p hp => (hok p hp).1) hlen
  refine ⟨_, _, by rw [hout]; exact htok, ?_⟩
  have hrel := pieces_outRel ps (fun p hp => ⟨(hok p hp).1, (hok p hp).2.2⟩) 1
  rw [hsrc] at hrel
  exact numColonFree_rel hrel hnum

end WuffsVerif.Render
