/-
`Encode` never changes the SIZE of the buffer, whatever its arguments (valid, rejected, or making Go
panic half-way): every store goes through `Enc.set`, which keeps the array size.  This is what makes an
Encoder reusable even after a recovered panic.
-/
import WuffsVerif.Proof.PngSafe

namespace WuffsVerif.Png.Uncomp
open WuffsVerif.Hash WuffsVerif.Gen.C19

theorem oobIf_buf (c : Prop) [Decidable c] (e : Enc) : (if c then { e with oob := true } else e).buf = e.buf := by
  split <;> rfl

theorem init_size (e : Enc) (w h : Nat) (d c : UInt8) : (init e w h d c).buf.size = e.buf.size := by
  simp only [init, Enc.blit_size]

theorem updateAdler32_size (e : Enc) (ei ej : Nat) : (updateAdler32 e ei ej).buf.size = e.buf.size := by
  simp only [updateAdler32, Enc.blit_size]

theorem blockHeader_size (e : Enc) (ei ej : Nat) (final : Bool) : (blockHeader e ei ej final).buf.size = e.buf.size := by
  simp only [blockHeader, Enc.blit_size]

theorem appendAdler_size (e : Enc) (ej : Nat) (final : Bool) : (appendAdler e ej final).1.buf.size = e.buf.size := by
  unfold appendAdler
  split <;> simp only [Enc.set_size]

theorem appendCRC_size (e : Enc) (c ej : Nat) : (appendCRC e c ej).1.buf.size = e.buf.size := by
  simp only [appendCRC, Enc.blit_size, oobIf_buf]

theorem emit_size (e : Enc) (w : Writer) (ej : Nat) (final : Bool) : (emit e w ej final).e.buf.size = e.buf.size := by
  simp only [emit]
  repeat' split
  all_goals simp only [Enc.blit_size]

theorem flushTail_size (e : Enc) (w : Writer) (ej : Nat) (final : Bool) (c ei : Nat) :
    (flushTail e w ej final c ei).e.buf.size = e.buf.size := by
  simp only [flushTail, emit_size, appendCRC_size, appendAdler_size, updateAdler32_size, blockHeader_size]

theorem flush_size (e : Enc) (w : Writer) (ej : Nat) (final : Bool) : (flush e w ej final).e.buf.size = e.buf.size := by
  unfold flush
  split <;> simp only [flushTail_size, Enc.blit_size]

theorem reserve_size (s : LoopSt) (n : Nat) : (reserve s n).e.buf.size = s.e.buf.size := by
  unfold reserve
  split
  · exact flush_size _ _ _ _
  · rfl

theorem pixLoop_size (pix : Array UInt8) (n k cnt off : Nat) (s : LoopSt) :
    (pixLoop pix n k cnt off s).e.buf.size = s.e.buf.size := by
  induction cnt generalizing off s with
  | zero => rfl
  | succ cnt ih =>
    rw [pixLoop]
    split
    · rw [ih]
      simp only [copyN_eq_blit, Enc.blit_size, reserve_size]
    · exact reserve_size _ _

theorem rowLoop_size (pix : Array UInt8) (plen width : Nat) (stride : Int) (n k rows y : Nat) (s : LoopSt) :
    (rowLoop pix plen width stride n k rows y s).e.buf.size = s.e.buf.size := by
  induction rows generalizing y s with
  | zero => rfl
  | succ rows ih =>
    simp only [rowLoop]
    repeat' split
    all_goals simp only [ih, pixLoop_size, Enc.set_size, reserve_size]

/-- `Encode` keeps the buffer's size for ALL arguments. -/
theorem encode_size (e : Enc) (w : Writer) (pix : Array UInt8) (plen : Nat) (width height stride : Int)
    (depth colorType : UInt8) :
    (encode e w pix plen width height stride depth colorType).e.buf.size = e.buf.size := by
  simp only [encode]
  repeat' split
  all_goals simp only [flush_size, rowLoop_size, init_size]

end WuffsVerif.Png.Uncomp
