/-
C07 helper lemmas: the chunked u32 Adler-32 loop of std/adler32 never overflows and
equals the mathematical checksum.  Core Lean only.
-/
import WuffsVerif.Model.StdHash

namespace WuffsVerif.StdHash

/-- the inner loop without the `% 2^32` -/
def adlerInnerNat (s1 s2 : Nat) : List UInt8 → Nat × Nat
  | [] => (s1, s2)
  | b :: bs => adlerInnerNat (s1 + b.toNat) (s2 + (s1 + b.toNat)) bs

/-- triangular numbers -/
def tri : Nat → Nat
  | 0 => 0
  | k + 1 => tri k + (k + 1)

theorem two_tri (k : Nat) : 2 * tri k = k * (k + 1) := by
  induction k with
  | zero => rfl
  | succ k ih =>
    simp only [tri]
    have : (k + 1) * (k + 1 + 1) = k * (k + 1) + 2 * (k + 1) := by
      rw [Nat.mul_add (k+1) (k+1) 1, Nat.add_mul k 1 (k+1)]; omega
    omega

theorem byte_le (b : UInt8) : b.toNat ≤ 255 := by
  have := b.toNat_lt; omega

/-- If the (generous) a-priori bound fits in u32, the wrapping loop is the exact loop. -/
theorem adlerInner_eq_nat (l : List UInt8) : ∀ (s1 s2 : Nat),
    s1 + 255 * l.length < 4294967296 →
    s2 + l.length * s1 + 255 * tri l.length < 4294967296 →
    adlerInner s1 s2 l = adlerInnerNat s1 s2 l := by
  induction l with
  | nil => intros; rfl
  | cons b bs ih =>
    intro s1 s2 h1 h2
    have hb := byte_le b
    simp only [List.length_cons, tri] at h1 h2
    have e1 : (bs.length + 1) * s1 = bs.length * s1 + s1 := Nat.succ_mul _ _
    have e2 : bs.length * (s1 + b.toNat) = bs.length * s1 + bs.length * b.toNat := Nat.mul_add _ _ _
    have e3 : bs.length * b.toNat ≤ bs.length * 255 := Nat.mul_le_mul_left _ hb
    have a1 : add32 s1 b.toNat = s1 + b.toNat := by
      unfold add32; apply Nat.mod_eq_of_lt; omega
    have a2 : add32 s2 (s1 + b.toNat) = s2 + (s1 + b.toNat) := by
      unfold add32; apply Nat.mod_eq_of_lt; omega
    simp only [adlerInner, adlerInnerNat, a1, a2]
    apply ih
    · omega
    · omega

/-- The bound that makes 5552 the magic number: with both sums below 2^16 on entry, up to
    5552 bytes cannot overflow a u32. -/
theorem adlerInner_no_overflow (l : List UInt8) (s1 s2 : Nat)
    (hl : l.length ≤ 5552) (h1 : s1 < 65536) (h2 : s2 < 65536) :
    adlerInner s1 s2 l = adlerInnerNat s1 s2 l := by
  apply adlerInner_eq_nat
  · omega
  · have t2 := two_tri l.length
    have m1 : l.length * (l.length + 1) ≤ 5552 * 5553 := Nat.mul_le_mul hl (by omega)
    have m2 : l.length * s1 ≤ 5552 * 65535 := Nat.mul_le_mul hl (by omega)
    omega

theorem adlerStep_mod (a b : Nat) (x : UInt8) :
    adlerStep (a % 65521, b % 65521) x = adlerStep (a, b) x := by
  simp only [adlerStep]
  refine Prod.ext ?_ ?_ <;> simp only <;> omega

theorem adlerSpecFold_mod (a b : Nat) (l : List UInt8) (hl : l ≠ []) :
    adlerSpecFold (a % 65521, b % 65521) l = adlerSpecFold (a, b) l := by
  cases l with
  | nil => exact absurd rfl hl
  | cons x xs => simp only [adlerSpecFold, List.foldl_cons, adlerStep_mod]

/-- the exact loop, reduced mod 65521 at the end, is the step-wise reduced fold -/
theorem adlerInnerNat_spec (l : List UInt8) : ∀ (a b : Nat),
    adlerSpecFold (a % 65521, b % 65521) l =
      ((adlerInnerNat a b l).1 % 65521, (adlerInnerNat a b l).2 % 65521) := by
  induction l with
  | nil => intros; rfl
  | cons x xs ih =>
    intro a b
    have h : adlerStep (a % 65521, b % 65521) x
        = ((a + x.toNat) % 65521, (b + (a + x.toNat)) % 65521) := by
      simp only [adlerStep]
      refine Prod.ext ?_ ?_ <;> simp only <;> omega
    simp only [adlerSpecFold, List.foldl_cons, adlerInnerNat, h]
    exact ih _ _

theorem adlerSpecFold_append (ab : Nat × Nat) (l m : List UInt8) :
    adlerSpecFold ab (l ++ m) = adlerSpecFold (adlerSpecFold ab l) m := by
  simp only [adlerSpecFold, List.foldl_append]

theorem adlerStep_lt (ab : Nat × Nat) (x : UInt8) :
    (adlerStep ab x).1 < 65521 ∧ (adlerStep ab x).2 < 65521 := by
  simp only [adlerStep]; constructor <;> omega

/-- both sums stay below 2^16 (below 65521 as soon as one byte was absorbed) -/
theorem adlerSpecFold_lt (l : List UInt8) : ∀ (ab : Nat × Nat), ab.1 < 65536 → ab.2 < 65536 →
    (adlerSpecFold ab l).1 < 65536 ∧ (adlerSpecFold ab l).2 < 65536 := by
  induction l with
  | nil => intro ab h1 h2; exact ⟨h1, h2⟩
  | cons x xs ih =>
    intro ab h1 h2
    simp only [adlerSpecFold, List.foldl_cons]
    have := adlerStep_lt ab x
    exact ih _ (by omega) (by omega)

/-- The chunk loop equals the specification fold, for every chunk length up to 5552. -/
theorem adlerChunks_eq_spec (chunk : Nat) (hc0 : 0 < chunk) (hc : chunk ≤ 5552) :
    ∀ (n : Nat) (x : List UInt8) (s1 s2 : Nat), x.length ≤ n → s1 < 65536 → s2 < 65536 →
    adlerChunks chunk 65521 s1 s2 x = adlerSpecFold (s1, s2) x := by
  intro n
  induction n with
  | zero =>
    intro x s1 s2 hx _ _
    have : x = [] := List.eq_nil_of_length_eq_zero (by omega)
    subst this
    unfold adlerChunks; simp [adlerSpecFold]
  | succ n ih =>
    intro x s1 s2 hx h1 h2
    unfold adlerChunks
    by_cases hpos : x.length > 0
    · simp only [hpos, ↓reduceDIte, show ¬ chunk = 0 by omega]
      -- the current chunk and the rest
      have hsplit : (if x.length > chunk then x.take chunk else x)
          ++ (if x.length > chunk then x.drop chunk else []) = x := by
        split
        · exact List.take_append_drop _ _
        · simp
      have hcurlen : (if x.length > chunk then x.take chunk else x).length ≤ 5552 := by
        split
        · simp only [List.length_take]; omega
        · omega
      have hcurne : (if x.length > chunk then x.take chunk else x) ≠ [] := by
        split
        · intro h
          have := congrArg List.length h
          simp only [List.length_take, List.length_nil] at this; omega
        · intro h; subst h; simp at hpos
      have hremlen : (if x.length > chunk then x.drop chunk else []).length ≤ n := by
        split
        · simp only [List.length_drop]; omega
        · simp
      generalize hcur : (if x.length > chunk then x.take chunk else x) = cur at *
      generalize hrem : (if x.length > chunk then x.drop chunk else []) = rem at *
      rw [adlerInner_no_overflow cur s1 s2 hcurlen h1 h2]
      have hs := adlerInnerNat_spec cur s1 s2
      rw [adlerSpecFold_mod s1 s2 cur hcurne] at hs
      have hlt := adlerSpecFold_lt cur (s1, s2) h1 h2
      rw [ih rem _ _ hremlen (by have := Nat.mod_lt (adlerInnerNat s1 s2 cur).1 (show 0 < 65521 by omega); omega)
        (by have := Nat.mod_lt (adlerInnerNat s1 s2 cur).2 (show 0 < 65521 by omega); omega)]
      rw [← hs, ← adlerSpecFold_append, hsplit]
    · have : x = [] := List.eq_nil_of_length_eq_zero (by omega)
      subst this
      simp [adlerSpecFold]

/-- `b % 65536 * 65536 + a % 65536` — what `((s2 & 0xFFFF) << 16) | (s1 & 0xFFFF)` computes -/
def adlerPack16 (ab : Nat × Nat) : Nat := ab.2 % 65536 * 65536 + ab.1 % 65536

theorem adler_pack_bits (s1 s2 : Nat) :
    (((s2 &&& 0xFFFF) <<< 16) ||| (s1 &&& 0xFFFF)) = s2 % 65536 * 65536 + s1 % 65536 := by
  have e1 : s1 &&& 0xFFFF = s1 % 65536 := Nat.and_two_pow_sub_one_eq_mod s1 16
  have e2 : s2 &&& 0xFFFF = s2 % 65536 := Nat.and_two_pow_sub_one_eq_mod s2 16
  rw [e1, e2]
  have hlt : s1 % 65536 < 2 ^ 16 := Nat.mod_lt _ (by decide)
  rw [← Nat.shiftLeft_add_eq_or_of_lt hlt, Nat.shiftLeft_eq]

theorem adler_unpack_bits (state : Nat) :
    (state &&& 0xFFFF, state >>> 16) = (state % 65536, state / 65536) := by
  have e1 : state &&& 0xFFFF = state % 65536 := Nat.and_two_pow_sub_one_eq_mod state 16
  rw [e1, Nat.shiftRight_eq_div_pow]

end WuffsVerif.StdHash
