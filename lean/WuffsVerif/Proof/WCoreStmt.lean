/-
Lemmas for the statement layer of C01 / C02-facts: fact transfer of assignment and
op-assignment (`dropAnyFactsMentioning`, `appendFact`, the `x += c` rewriting).
-/
import WuffsVerif.Model.WCore.Stmt
import WuffsVerif.Proof.WCoreBounds

namespace WuffsVerif.Proof.WCoreStmt
open WuffsVerif.Interval WuffsVerif.WCore WuffsVerif.Proof.WCoreBounds

/-- typing context: the declared type of every variable name -/
abbrev Ctx := String → Ty

/-- every variable node carries the type the context declares for its name -/
def wt (Γ : Ctx) : Expr → Prop
  | .const _ => True
  | .var n t => t = Γ n
  | .unary _ e => wt Γ e
  | .binary _ l r => wt Γ l ∧ wt Γ r
  | .as _ e => wt Γ e
  | .assoc _ _ l r => wt Γ l ∧ wt Γ r

/-- the store respects the context -/
def EnvOk (Γ : Ctx) (env : Env) : Prop := ∀ n, inType (Γ n) (env n)

theorem varsOk_of_wt {Γ : Ctx} {env : Env} (he : EnvOk Γ env) :
    ∀ e, wt Γ e → varsOk env e := by
  intro e
  induction e with
  | const v => intro _; trivial
  | var n t => intro h; simp only [wt] at h; subst h; exact he n
  | unary op e ih => intro h; exact ih h
  | binary op l r ihl ihr => intro h; exact ⟨ihl h.1, ihr h.2⟩
  | «as» t e ih => intro h; exact ih h
  | assoc op pre l r ihl ihr => intro h; exact ⟨ihl h.1, ihr h.2⟩

def upd (env : Env) (n : String) (v : Int) : Env := fun m => if m = n then v else env m

theorem mentions_self (e : Expr) : mentions e e = true := by
  cases e <;> simp [mentions]

/-- a well-typed expression that does not `Mention` the variable does not depend on it -/
theorem evalI_upd {Γ : Ctx} {env : Env} {n : String} (v : Int) :
    ∀ e, wt Γ e → mentions e (.var n (Γ n)) = false → evalI (upd env n v) e = evalI env e := by
  intro e
  induction e with
  | const c => intro _ _; rfl
  | var m t =>
    intro hw hm
    simp only [wt] at hw
    subst hw
    simp only [mentions, Bool.or_false, beq_eq_false_iff_ne, ne_eq] at hm
    simp only [evalI, upd]
    split
    · rename_i h; subst h; exact absurd rfl hm
    · rfl
  | unary op e ih =>
    intro hw hm
    simp only [mentions, Bool.or_eq_false_iff] at hm
    cases op <;> simp only [evalI, ih hw hm.2]
  | binary op l r ihl ihr =>
    intro hw hm
    simp only [mentions, Bool.or_eq_false_iff] at hm
    simp only [evalI, ihl hw.1 hm.2.1, ihr hw.2 hm.2.2]
  | «as» t e ih =>
    intro hw hm
    simp only [mentions, Bool.or_eq_false_iff] at hm
    simp only [evalI, ih hw hm.2]
  | assoc op pre l r ihl ihr =>
    intro hw hm
    simp only [mentions, Bool.or_eq_false_iff] at hm
    simp only [evalI, ihl hw.1 hm.2.1, ihr hw.2 hm.2.2]

/-- all facts of this layer are comparisons -/
def IsCmpFact (f : Expr) : Prop := ∃ op l r, f = .binary op l r ∧ op.isCmp = true

theorem appendFact_cmp {fs : List Expr} {f : Expr} (hc : IsCmpFact f) :
    appendFact fs f = if fs.contains f then fs else fs ++ [f] := by
  obtain ⟨op, l, r, rfl, hop⟩ := hc
  cases op <;> simp [BOp.isCmp] at hop <;> simp [appendFact]

theorem mem_appendFact_cmp {fs : List Expr} {f g : Expr} (hc : IsCmpFact f)
    (hg : g ∈ appendFact fs f) : g ∈ fs ∨ g = f := by
  rw [appendFact_cmp hc] at hg
  split at hg
  · exact Or.inl hg
  · simp only [List.mem_append, List.mem_singleton] at hg; exact hg

theorem factsHold_appendFact {env : Env} {fs : List Expr} {f : Expr} (hc : IsCmpFact f)
    (hfs : FactsHold env fs) (hf : evalI env f ≠ 0) : FactsHold env (appendFact fs f) := by
  intro g hg
  rcases mem_appendFact_cmp hc hg with h | h
  · exact hfs g h
  · subst h; exact hf

theorem evalI_cmp {env : Env} {op : BOp} (hc : op.isCmp = true) (l r : Expr) :
    evalI env (.binary op l r) ≠ 0 ↔ cmpRel op (evalI env l) (evalI env r) := by
  simp only [evalI]; exact cmp_true hc _ _ _

/-- `simplify` preserves the ideal value -/
theorem evalI_simplifyBin {env : Env} {op : BOp} (hop : op = .plus ∨ op = .minus) (l r : Expr) :
    evalI env (simplifyBin op l r) = binSem op .ideal (evalI env l) (evalI env r) := by
  unfold simplifyBin
  rcases hop with rfl | rfl
  · split
    · simp [evalI, binSem]
    · simp [evalI, binSem]
  · split
    · simp [evalI, binSem]
    · simp only []
      split
      · rename_i h
        have : l = r := eq_of_beq h
        subst this; simp [evalI, binSem]
      · split
        · split
          · rename_i h
            have e := eq_of_beq h
            subst e; simp [evalI, binSem]
          · split
            · rename_i h
              have e := eq_of_beq h
              subst e; simp [evalI, binSem]
            · simp [evalI, binSem]
        · simp [evalI, binSem]

theorem wt_simplifyBin {Γ : Ctx} {op : BOp} {l r : Expr} (hl : wt Γ l) (hr : wt Γ r) :
    wt Γ (simplifyBin op l r) := by
  unfold simplifyBin
  split
  · cases op <;> simp [wt]
  · cases op <;> simp only [] <;> try exact ⟨hl, hr⟩
    split
    · trivial
    · split
      · rename_i ll lr
        simp only [wt] at hl
        split
        · exact hl.2
        · split
          · exact hl.1
          · exact ⟨hl, hr⟩
      · exact ⟨hl, hr⟩

theorem fitsType_spec {t : Ty} {nb : IR} {v : Int} (h : fitsType t nb = true) (hm : nb.mem v) :
    inType t v := by
  unfold fitsType at h
  split at h
  · rename_i tlo thi lo hi ht hlo hhi
    have := mem_lo hm hlo
    have := mem_hi hm hhi
    simp only [Bool.not_eq_true', Bool.or_eq_false_iff, decide_eq_false_iff_not, Int.not_lt] at h
    exact (typeBounds_mem_iff ht v).1 (mem_some.2 (by omega))
  · cases h

theorem boundFacts_sound {Γ : Ctx} {env : Env} {fs fs' : List Expr} {n : String} {nb : IR}
    (hb : boundFacts fs (.var n (Γ n)) nb = some fs') (hm : nb.mem (env n))
    (hf : FactsHold env fs) (hw : ∀ f ∈ fs, wt Γ f) (hc : ∀ f ∈ fs, IsCmpFact f) :
    FactsHold env fs' ∧ (∀ f ∈ fs', wt Γ f) ∧ (∀ f ∈ fs', IsCmpFact f) := by
  unfold boundFacts at hb
  split at hb
  · rename_i tlo thi lo hi ht hlo hhi
    cases hb
    have h1 := mem_lo hm hlo
    have h2 := mem_hi hm hhi
    have cge : IsCmpFact (.binary .ge (.var n (Γ n)) (.const lo)) := ⟨_, _, _, rfl, rfl⟩
    have cle : IsCmpFact (.binary .le (.var n (Γ n)) (.const hi)) := ⟨_, _, _, rfl, rfl⟩
    have tge : evalI env (.binary .ge (.var n (Γ n)) (.const lo)) ≠ 0 :=
      (evalI_cmp rfl _ _).2 (by simpa [cmpRel, evalI] using h1)
    have tle : evalI env (.binary .le (.var n (Γ n)) (.const hi)) ≠ 0 :=
      (evalI_cmp rfl _ _).2 (by simpa [cmpRel, evalI] using h2)
    -- first the >= fact, then the <= fact
    have step1 : FactsHold env (if tlo < lo then appendFact fs (.binary .ge (.var n (Γ n)) (.const lo)) else fs) ∧
        (∀ f ∈ (if tlo < lo then appendFact fs (.binary .ge (.var n (Γ n)) (.const lo)) else fs), wt Γ f) ∧
        (∀ f ∈ (if tlo < lo then appendFact fs (.binary .ge (.var n (Γ n)) (.const lo)) else fs), IsCmpFact f) := by
      split
      · refine ⟨factsHold_appendFact cge hf tge, ?_, ?_⟩
        · intro f hfm
          rcases mem_appendFact_cmp cge hfm with h | h
          · exact hw f h
          · subst h; simp [wt]
        · intro f hfm
          rcases mem_appendFact_cmp cge hfm with h | h
          · exact hc f h
          · subst h; exact cge
      · exact ⟨hf, hw, hc⟩
    obtain ⟨s1, s2, s3⟩ := step1
    split
    · refine ⟨factsHold_appendFact cle s1 tle, ?_, ?_⟩
      · intro f hfm
        rcases mem_appendFact_cmp cle hfm with h | h
        · exact s2 f h
        · subst h; simp [wt]
      · intro f hfm
        rcases mem_appendFact_cmp cle hfm with h | h
        · exact s3 f h
        · subst h; exact cle
    · exact ⟨s1, s2, s3⟩
  · cases hb

theorem envOk_upd {Γ : Ctx} {env : Env} {n : String} {v : Int} (he : EnvOk Γ env)
    (hv : inType (Γ n) v) : EnvOk Γ (upd env n v) := by
  intro m
  simp only [upd]
  split
  · rename_i h; subst h; exact hv
  · exact he m

/-- the statement's right-hand side and the facts are well-typed comparisons -/
structure Situation (Γ : Ctx) (env : Env) (fs : List Expr) : Prop where
  envOk : EnvOk Γ env
  holds : FactsHold env fs
  wtF : ∀ f ∈ fs, wt Γ f
  cmpF : ∀ f ∈ fs, IsCmpFact f

theorem assign_sound {Γ : Ctx} {env : Env} {fs fs' : List Expr} {n : String} {rhs : Expr}
    (S : Situation Γ env fs) (hwr : wt Γ rhs)
    (h : checkStmt fs (.assign (.var n (Γ n)) rhs) = some fs') :
    stmtSafe env (.assign (.var n (Γ n)) rhs) ∧
      Situation Γ (execStmt env (.assign (.var n (Γ n)) rhs)) fs' := by
  have hexec : execStmt env (.assign (.var n (Γ n)) rhs) = upd env n (evalI env rhs) := rfl
  rw [hexec]
  simp only [checkStmt, isVar, Bool.not_true, Bool.false_eq_true, if_false] at h
  split at h
  · rename_i lb rb hlb hrb
    split at h
    · cases h
    · rename_i hfit
      simp only [Bool.not_eq_true, Bool.not_eq_false'] at hfit
      have hfit' : fitsType (Γ n) rb = true := by simpa [typeOf] using hfit
      obtain ⟨hsafe, hmem⟩ := bounds_contain' S.holds (varsOk_of_wt S.envOk rhs hwr) hrb
      have hty : inType (Γ n) (evalI env rhs) := fitsType_spec hfit' hmem
      have hen : EnvOk Γ (upd env n (evalI env rhs)) := envOk_upd S.envOk hty
      refine ⟨⟨hsafe, by simpa [typeOf] using hty⟩, ?_⟩
      -- the facts that survive `dropAnyFactsMentioning`
      have h1 : FactsHold (upd env n (evalI env rhs)) (dropMentioning fs (.var n (Γ n))) := by
        intro f hf
        simp only [dropMentioning, List.mem_filter, Bool.not_eq_true'] at hf
        rw [evalI_upd _ f (S.wtF f hf.1) hf.2]
        exact S.holds f hf.1
      have w1 : ∀ f ∈ dropMentioning fs (.var n (Γ n)), wt Γ f := by
        intro f hf
        simp only [dropMentioning, List.mem_filter] at hf
        exact S.wtF f hf.1
      have c1 : ∀ f ∈ dropMentioning fs (.var n (Γ n)), IsCmpFact f := by
        intro f hf
        simp only [dropMentioning, List.mem_filter] at hf
        exact S.cmpF f hf.1
      split at h
      · cases h; exact ⟨hen, h1, w1, c1⟩
      · -- numeric destination: `lhs == rhs` unless the RHS mentions the LHS
        have ceq : IsCmpFact (.binary .eq (.var n (Γ n)) rhs) := ⟨_, _, _, rfl, rfl⟩
        have s2 : FactsHold (upd env n (evalI env rhs))
              (if mentions rhs (.var n (Γ n)) = true then dropMentioning fs (.var n (Γ n))
               else appendFact (dropMentioning fs (.var n (Γ n))) (.binary .eq (.var n (Γ n)) rhs)) ∧
            (∀ f ∈ (if mentions rhs (.var n (Γ n)) = true then dropMentioning fs (.var n (Γ n))
               else appendFact (dropMentioning fs (.var n (Γ n))) (.binary .eq (.var n (Γ n)) rhs)), wt Γ f) ∧
            (∀ f ∈ (if mentions rhs (.var n (Γ n)) = true then dropMentioning fs (.var n (Γ n))
               else appendFact (dropMentioning fs (.var n (Γ n))) (.binary .eq (.var n (Γ n)) rhs)), IsCmpFact f) := by
          split
          · exact ⟨h1, w1, c1⟩
          · rename_i hm
            simp only [Bool.not_eq_true] at hm
            have teq : evalI (upd env n (evalI env rhs)) (.binary .eq (.var n (Γ n)) rhs) ≠ 0 := by
              apply (evalI_cmp rfl _ _).2
              simp only [cmpRel, evalI_upd _ rhs hwr hm]
              simp [evalI, upd]
            refine ⟨factsHold_appendFact ceq h1 teq, ?_, ?_⟩
            · intro f hfm
              rcases mem_appendFact_cmp ceq hfm with h | h
              · exact w1 f h
              · subst h; exact ⟨rfl, hwr⟩
            · intro f hfm
              rcases mem_appendFact_cmp ceq hfm with h | h
              · exact c1 f h
              · subst h; exact ceq
        obtain ⟨s2a, s2b, s2c⟩ := s2
        split at h
        · cases h; exact ⟨hen, s2a, s2b, s2c⟩
        · have hmem' : rb.mem ((upd env n (evalI env rhs)) n) := by simpa [upd] using hmem
          obtain ⟨r1, r2, r3⟩ := boundFacts_sound h hmem' s2a s2b s2c
          exact ⟨hen, r1, r2, r3⟩
  · cases h

theorem cmpRel_shift {xop : BOp} (hc : xop.isCmp = true) (a b e : Int) :
    (cmpRel xop (a + e) (b + e) ↔ cmpRel xop a b) ∧ (cmpRel xop (a - e) (b - e) ↔ cmpRel xop a b) := by
  cases xop <;> simp [BOp.isCmp] at hc <;> simp only [cmpRel] <;> constructor <;> constructor <;>
    intro h <;> omega

theorem rewriteFact_sound {Γ : Ctx} {env : Env} {n : String} {op : BOp} {rhs f g : Expr}
    (hwr : wt Γ rhs) (hwf : wt Γ f) (hcf : IsCmpFact f) (hf : evalI env f ≠ 0)
    (h : rewriteFact op (.var n (Γ n)) rhs f = some g) :
    evalI (upd env n (evalI env (.binary op (.var n (Γ n)) rhs))) g ≠ 0 ∧ wt Γ g ∧ IsCmpFact g := by
  obtain ⟨xop, xl, xr, rfl, hxc⟩ := hcf
  simp only [rewriteFact] at h
  split at h
  · rename_i hxl
    have e := eq_of_beq hxl
    subst e
    split at h
    · cases h
    · rename_i hm
      simp only [Bool.or_eq_true, not_or, Bool.not_eq_true] at hm
      have hw := hwf
      simp only [wt] at hw
      have key : ∀ op', (op' = BOp.plus ∨ op' = BOp.minus) → op = op' →
          evalI (upd env n (evalI env (.binary op (.var n (Γ n)) rhs)))
            (.binary xop (.var n (Γ n)) (simplifyBin op xr rhs)) ≠ 0 := by
        intro op' hop' hop
        apply (evalI_cmp hxc _ _).2
        rw [evalI_simplifyBin (hop ▸ hop'), evalI_upd _ xr hw.2 hm.1, evalI_upd _ rhs hwr hm.2]
        have h0 := (evalI_cmp hxc _ _).1 hf
        simp only [evalI, upd, if_true] at h0 ⊢
        subst hop
        rcases hop' with rfl | rfl
        · simp only [binSem]; exact (cmpRel_shift hxc _ _ _).1.2 h0
        · simp only [binSem]; exact (cmpRel_shift hxc _ _ _).2.2 h0
      cases op
      case plus =>
        simp only [] at h; cases h
        exact ⟨key .plus (Or.inl rfl) rfl, ⟨rfl, wt_simplifyBin hw.2 hwr⟩, ⟨_, _, _, rfl, hxc⟩⟩
      case minus =>
        simp only [] at h; cases h
        exact ⟨key .minus (Or.inr rfl) rfl, ⟨rfl, wt_simplifyBin hw.2 hwr⟩, ⟨_, _, _, rfl, hxc⟩⟩
      all_goals (first | (simp only [] at h; cases h) | cases h)
  · split at h
    · cases h
    · rename_i hm
      simp only [Bool.not_eq_true] at hm
      cases h
      rw [evalI_upd _ _ hwf hm]
      exact ⟨hf, hwf, ⟨_, _, _, rfl, hxc⟩⟩

theorem opassign_sound {Γ : Ctx} {env : Env} {fs fs' : List Expr} {n : String} {op : BOp}
    {rhs : Expr} (S : Situation Γ env fs) (hwr : wt Γ rhs)
    (h : checkStmt fs (.opAssign op (.var n (Γ n)) rhs) = some fs') :
    stmtSafe env (.opAssign op (.var n (Γ n)) rhs) ∧
      Situation Γ (execStmt env (.opAssign op (.var n (Γ n)) rhs)) fs' := by
  have hexec : execStmt env (.opAssign op (.var n (Γ n)) rhs) =
      upd env n (evalI env (.binary op (.var n (Γ n)) rhs)) := rfl
  rw [hexec]
  simp only [checkStmt, isVar, Bool.not_true, Bool.false_eq_true, if_false] at h
  split at h
  · rename_i lb rb hlb hrb
    split at h
    · cases h
    · rename_i nb hnb
      split at h
      · cases h
      · rename_i hfit
        simp only [Bool.not_eq_true, Bool.not_eq_false'] at hfit
        have hfit' : fitsType (Γ n) nb = true := by simpa [typeOf] using hfit
        have hwl : wt Γ (.var n (Γ n)) := rfl
        obtain ⟨_, hml⟩ := bounds_contain' S.holds (varsOk_of_wt S.envOk _ hwl) hlb
        obtain ⟨hsafe, hmr⟩ := bounds_contain' S.holds (varsOk_of_wt S.envOk rhs hwr) hrb
        obtain ⟨hmon, hmn⟩ := binBounds_sound S.holds hml hmr
          (fun _ _ => by simpa [typeOf, evalI] using (S.envOk n).1) hnb
        have hmn' : nb.mem (evalI env (.binary op (.var n (Γ n)) rhs)) := by
          simpa [evalI] using hmn
        have hty : inType (Γ n) (evalI env (.binary op (.var n (Γ n)) rhs)) :=
          fitsType_spec hfit' hmn'
        have hen := envOk_upd (n := n) S.envOk hty
        refine ⟨⟨hsafe, hmon, by simpa [typeOf] using hty⟩, ?_⟩
        have s1 : FactsHold (upd env n (evalI env (.binary op (.var n (Γ n)) rhs)))
              (fs.filterMap (rewriteFact op (.var n (Γ n)) rhs)) ∧
            (∀ f ∈ fs.filterMap (rewriteFact op (.var n (Γ n)) rhs), wt Γ f) ∧
            (∀ f ∈ fs.filterMap (rewriteFact op (.var n (Γ n)) rhs), IsCmpFact f) := by
          refine ⟨?_, ?_, ?_⟩ <;> intro g hg <;> simp only [List.mem_filterMap] at hg <;>
            obtain ⟨f, hf, hfg⟩ := hg <;>
            have := rewriteFact_sound hwr (S.wtF f hf) (S.cmpF f hf) (S.holds f hf) hfg
          · exact this.1
          · exact this.2.1
          · exact this.2.2
        obtain ⟨s1a, s1b, s1c⟩ := s1
        split at h
        · cases h; exact ⟨hen, s1a, s1b, s1c⟩
        · have hmem' : nb.mem ((upd env n (evalI env (.binary op (.var n (Γ n)) rhs))) n) := by
            simpa [upd] using hmn'
          obtain ⟨r1, r2, r3⟩ := boundFacts_sound h hmem' s1a s1b s1c
          exact ⟨hen, r1, r2, r3⟩
  · cases h

/-- a statement of this layer: the destination is a declared variable, the right-hand
side is well-typed -/
def wtStmt (Γ : Ctx) : Stmt → Prop
  | .assign lhs rhs => (∃ n, lhs = .var n (Γ n)) ∧ wt Γ rhs
  | .opAssign _ lhs rhs => (∃ n, lhs = .var n (Γ n)) ∧ wt Γ rhs

theorem stmt_sound {Γ : Ctx} {env : Env} {fs fs' : List Expr} {s : Stmt}
    (S : Situation Γ env fs) (hw : wtStmt Γ s) (h : checkStmt fs s = some fs') :
    stmtSafe env s ∧ Situation Γ (execStmt env s) fs' := by
  cases s with
  | assign lhs rhs =>
    obtain ⟨⟨n, rfl⟩, hwr⟩ := hw
    exact assign_sound S hwr h
  | opAssign op lhs rhs =>
    obtain ⟨⟨n, rfl⟩, hwr⟩ := hw
    exact opassign_sound S hwr h

/-- along the execution of an accepted block: before every statement all facts of the
checker's situation are true, the statement trips no monitor; at the end the final
situation holds -/
def HoldsAlong (Γ : Ctx) : List Expr → Env → List Stmt → Prop
  | fs, env, [] => Situation Γ env fs
  | fs, env, s :: ss =>
    Situation Γ env fs ∧ stmtSafe env s ∧
      ∃ fs1, checkStmt fs s = some fs1 ∧ HoldsAlong Γ fs1 (execStmt env s) ss

theorem block_sound {Γ : Ctx} :
    ∀ (ss : List Stmt) (fs fs' : List Expr) (env : Env), Situation Γ env fs →
      (∀ s ∈ ss, wtStmt Γ s) → checkBlock fs ss = some fs' → HoldsAlong Γ fs env ss := by
  intro ss
  induction ss with
  | nil => intro fs fs' env S _ _; exact S
  | cons s ss ih =>
    intro fs fs' env S hw h
    simp only [checkBlock] at h
    split at h
    · cases h
    · rename_i fs1 h1
      obtain ⟨hs, S1⟩ := stmt_sound S (hw s List.mem_cons_self) h1
      exact ⟨S, hs, fs1, h1, ih fs1 fs' _ S1 (fun t ht => hw t (List.mem_cons_of_mem _ ht)) h⟩

end WuffsVerif.Proof.WCoreStmt
