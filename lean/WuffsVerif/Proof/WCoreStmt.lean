/-
Lemmas for the statement layer of C01 / C02-facts: fact transfer of assignment and
op-assignment (`dropAnyFactsMentioning`, `appendFact`, the `x += c` rewriting).
-/
import WuffsVerif.Model.WCore.Stmt
import WuffsVerif.Proof.WCoreBounds

namespace WuffsVerif.Proof.WCoreStmt
open WuffsVerif.Interval WuffsVerif.WCore WuffsVerif.Proof.WCoreBounds

/-- typing context: the declared type of every variable name; for an array name,
the type of its elements -/
abbrev Ctx := String → Ty

/-- every variable node carries the type the context declares for its name, every
array-element node the element type declared for the array -/
def wt (Γ : Ctx) : Expr → Prop
  | .const _ => True
  | .var n t => t = Γ n
  | .unary _ e => wt Γ e
  | .binary _ l r => wt Γ l ∧ wt Γ r
  | .as _ e => wt Γ e
  | .assoc _ _ l r => wt Γ l ∧ wt Γ r
  | .index a _ ety i => ety = Γ a ∧ wt Γ i

/-- the store respects the context: every location holds a value of the declared
(refined) type of its variable / of its array's elements -/
def EnvOk (Γ : Ctx) (env : Env) : Prop := ∀ key : Key, inType (Γ key.name) (env key)

theorem varsOk_of_wt {Γ : Ctx} {env : Env} (he : EnvOk Γ env) :
    ∀ e, wt Γ e → varsOk env e := by
  intro e
  induction e with
  | const v => intro _; trivial
  | var n t => intro h; simp only [wt] at h; subst h; exact he (.sc n)
  | unary op e ih => intro h; exact ih h
  | binary op l r ihl ihr => intro h; exact ⟨ihl h.1, ihr h.2⟩
  | «as» t e ih => intro h; exact ih h
  | assoc op pre l r ihl ihr => intro h; exact ⟨ihl h.1, ihr h.2⟩
  | index a len ety i ih =>
    intro h
    simp only [wt] at h
    obtain ⟨h1, h2⟩ := h
    subst h1
    exact ⟨ih h2, fun k => he (.cell a k)⟩

/-- the store after writing `v` to the scalar variable `n` -/
def upd (env : Env) (n : String) (v : Int) : Env := fun m => if m = .sc n then v else env m

theorem upd_eq_updKey (env : Env) (n : String) (v : Int) : upd env n v = updKey env (.sc n) v := rfl

theorem mentions_self (e : Expr) : mentions e e = true := by
  cases e <;> simp [mentions]

/-- a well-typed expression that does not `Mention` the variable does not depend on it -/
theorem evalI_upd {Γ : Ctx} {env : Env} {n : String} (v : Int) :
    ∀ e, wt Γ e → mentions e (.var n (Γ n)) = false → evalI (upd env n v) e = evalI env e := by
  intro e
  induction e with
  | const c => intro _ _; rfl
  | var m t =>
    intro hw hm
    simp only [wt] at hw
    subst hw
    simp only [mentions, Bool.or_false, beq_eq_false_iff_ne, ne_eq] at hm
    simp only [evalI, upd]
    split
    · rename_i h
      simp only [Key.sc.injEq] at h
      subst h; exact absurd rfl hm
    · rfl
  | unary op e ih =>
    intro hw hm
    simp only [mentions, Bool.or_eq_false_iff] at hm
    cases op <;> simp only [evalI, ih hw hm.2]
  | binary op l r ihl ihr =>
    intro hw hm
    simp only [mentions, Bool.or_eq_false_iff] at hm
    simp only [evalI, ihl hw.1 hm.2.1, ihr hw.2 hm.2.2]
  | «as» t e ih =>
    intro hw hm
    simp only [mentions, Bool.or_eq_false_iff] at hm
    simp only [evalI, ih hw hm.2]
  | assoc op pre l r ihl ihr =>
    intro hw hm
    simp only [mentions, Bool.or_eq_false_iff] at hm
    simp only [evalI, ihl hw.1 hm.2.1, ihr hw.2 hm.2.2]
  | index a len ety i ih =>
    intro hw hm
    simp only [mentions, Bool.or_eq_false_iff] at hm
    simp only [evalI, ih hw.2 hm.2]
    simp [upd]

/-- an expression that reads no element of the array `a` does not depend on them -/
theorem evalI_updCell {env : Env} {a : String} (k v : Int) :
    ∀ e, readsArr e a = false → evalI (updKey env (.cell a k) v) e = evalI env e := by
  intro e
  induction e with
  | const c => intro _; rfl
  | var m t => intro _; simp [evalI, updKey]
  | unary op e ih =>
    intro hm
    simp only [readsArr] at hm
    cases op <;> simp only [evalI, ih hm]
  | binary op l r ihl ihr =>
    intro hm
    simp only [readsArr, Bool.or_eq_false_iff] at hm
    simp only [evalI, ihl hm.1, ihr hm.2]
  | «as» t e ih =>
    intro hm
    simp only [readsArr] at hm
    simp only [evalI, ih hm]
  | assoc op pre l r ihl ihr =>
    intro hm
    simp only [readsArr, Bool.or_eq_false_iff] at hm
    simp only [evalI, ihl hm.1, ihr hm.2]
  | index b len ety i ih =>
    intro hm
    simp only [readsArr, Bool.or_eq_false_iff, beq_eq_false_iff_ne, ne_eq] at hm
    simp only [evalI, ih hm.2, updKey]
    split
    · rename_i h
      simp only [Key.cell.injEq] at h
      exact absurd h.1 hm.1
    · rfl

/-- a comparison fact -/
def IsCmpFact (f : Expr) : Prop := ∃ op l r, f = .binary op l r ∧ op.isCmp = true

/-- what the fact rewriting of an op-assignment needs of a fact: a binary fact is a
comparison, or its left operand is a boolean (so it cannot be the numeric target).
Comparisons, `not`, `and`/`or` of booleans, boolean variables all satisfy it. -/
def GoodFact (f : Expr) : Prop :=
  ∀ op l r, f = .binary op l r → op.isCmp = true ∨ (typeOf l).base = .bool

theorem goodFact_of_cmp {f : Expr} (h : IsCmpFact f) : GoodFact f := by
  obtain ⟨op, l, r, rfl, hop⟩ := h
  intro op' l' r' he
  cases he
  exact Or.inl hop

theorem appendFact_cmp {fs : List Expr} {f : Expr} (hc : IsCmpFact f) :
    appendFact fs f = if fs.contains f then fs else fs ++ [f] := by
  obtain ⟨op, l, r, rfl, hop⟩ := hc
  cases op <;> simp [BOp.isCmp] at hop <;> simp [appendFact]

theorem mem_appendFact_cmp {fs : List Expr} {f g : Expr} (hc : IsCmpFact f)
    (hg : g ∈ appendFact fs f) : g ∈ fs ∨ g = f := by
  rw [appendFact_cmp hc] at hg
  split at hg
  · exact Or.inl hg
  · simp only [List.mem_append, List.mem_singleton] at hg; exact hg

theorem factsHold_appendFact {env : Env} {fs : List Expr} {f : Expr} (hc : IsCmpFact f)
    (hfs : FactsHold env fs) (hf : evalI env f ≠ 0) : FactsHold env (appendFact fs f) := by
  intro g hg
  rcases mem_appendFact_cmp hc hg with h | h
  · exact hfs g h
  · subst h; exact hf

theorem evalI_cmp {env : Env} {op : BOp} (hc : op.isCmp = true) (l r : Expr) :
    evalI env (.binary op l r) ≠ 0 ↔ cmpRel op (evalI env l) (evalI env r) := by
  simp only [evalI]; exact cmp_true hc _ _ _

/-- `simplify` preserves the ideal value -/
theorem evalI_simplifyBin {env : Env} {op : BOp} (hop : op = .plus ∨ op = .minus) (l r : Expr) :
    evalI env (simplifyBin op l r) = binSem op .ideal (evalI env l) (evalI env r) := by
  unfold simplifyBin
  rcases hop with rfl | rfl
  · split
    · simp [evalI, binSem]
    · simp [evalI, binSem]
  · split
    · simp [evalI, binSem]
    · simp only []
      split
      · rename_i h
        have : l = r := eq_of_beq h
        subst this; simp [evalI, binSem]
      · split
        · split
          · rename_i h
            have e := eq_of_beq h
            subst e; simp [evalI, binSem]
          · split
            · rename_i h
              have e := eq_of_beq h
              subst e; simp [evalI, binSem]
            · simp [evalI, binSem]
        · simp [evalI, binSem]

theorem wt_simplifyBin {Γ : Ctx} {op : BOp} {l r : Expr} (hl : wt Γ l) (hr : wt Γ r) :
    wt Γ (simplifyBin op l r) := by
  unfold simplifyBin
  split
  · cases op <;> simp [wt]
  · cases op <;> simp only [] <;> try exact ⟨hl, hr⟩
    split
    · trivial
    · split
      · rename_i ll lr
        simp only [wt] at hl
        split
        · exact hl.2
        · split
          · exact hl.1
          · exact ⟨hl, hr⟩
      · exact ⟨hl, hr⟩

theorem fitsType_spec {t : Ty} {nb : IR} {v : Int} (h : fitsType t nb = true) (hm : nb.mem v) :
    inType t v := by
  unfold fitsType at h
  split at h
  · rename_i tlo thi lo hi ht hlo hhi
    have := mem_lo hm hlo
    have := mem_hi hm hhi
    simp only [Bool.not_eq_true', Bool.or_eq_false_iff, decide_eq_false_iff_not, Int.not_lt] at h
    exact (typeBounds_mem_iff ht v).1 (mem_some.2 (by omega))
  · cases h

/-- a returned / passed value accepted by `bcheckAssignment1` is safe to compute and
lies within the (refined) type it is returned / passed as -/
theorem checkFits_sound {env : Env} {fs : List Expr} {t : Ty} {e : Expr}
    (hf : FactsHold env fs) (hv : varsOk env e) (h : checkFits fs t e = true) :
    safe env false e ∧ inType t (evalI env e) := by
  unfold checkFits at h
  split at h
  · rename_i b hb
    obtain ⟨h1, h2⟩ := bounds_contain' hf hv hb
    exact ⟨h1, fitsType_spec h h2⟩
  · cases h

/-- the facts `lhs >= lo`, `lhs <= hi` recorded after a store are true when the stored
value lies in `nb` -/
theorem boundFacts_sound {Γ : Ctx} {env : Env} {fs fs' : List Expr} {lhs : Expr} {nb : IR}
    (hwl : wt Γ lhs)
    (hb : boundFacts fs lhs nb = some fs') (hm : nb.mem (evalI env lhs))
    (hf : FactsHold env fs) (hw : ∀ f ∈ fs, wt Γ f) (hc : ∀ f ∈ fs, GoodFact f) :
    FactsHold env fs' ∧ (∀ f ∈ fs', wt Γ f) ∧ (∀ f ∈ fs', GoodFact f) := by
  unfold boundFacts at hb
  split at hb
  · rename_i tlo thi lo hi ht hlo hhi
    cases hb
    have h1 := mem_lo hm hlo
    have h2 := mem_hi hm hhi
    have cge : IsCmpFact (.binary .ge lhs (.const lo)) := ⟨_, _, _, rfl, rfl⟩
    have cle : IsCmpFact (.binary .le lhs (.const hi)) := ⟨_, _, _, rfl, rfl⟩
    have tge : evalI env (.binary .ge lhs (.const lo)) ≠ 0 :=
      (evalI_cmp rfl _ _).2 (by simpa [cmpRel, evalI] using h1)
    have tle : evalI env (.binary .le lhs (.const hi)) ≠ 0 :=
      (evalI_cmp rfl _ _).2 (by simpa [cmpRel, evalI] using h2)
    -- first the >= fact, then the <= fact
    have step1 : FactsHold env (if tlo < lo then appendFact fs (.binary .ge lhs (.const lo)) else fs) ∧
        (∀ f ∈ (if tlo < lo then appendFact fs (.binary .ge lhs (.const lo)) else fs), wt Γ f) ∧
        (∀ f ∈ (if tlo < lo then appendFact fs (.binary .ge lhs (.const lo)) else fs), GoodFact f) := by
      split
      · refine ⟨factsHold_appendFact cge hf tge, ?_, ?_⟩
        · intro f hfm
          rcases mem_appendFact_cmp cge hfm with h | h
          · exact hw f h
          · subst h; exact ⟨hwl, trivial⟩
        · intro f hfm
          rcases mem_appendFact_cmp cge hfm with h | h
          · exact hc f h
          · subst h; exact goodFact_of_cmp cge
      · exact ⟨hf, hw, hc⟩
    obtain ⟨s1, s2, s3⟩ := step1
    split
    · refine ⟨factsHold_appendFact cle s1 tle, ?_, ?_⟩
      · intro f hfm
        rcases mem_appendFact_cmp cle hfm with h | h
        · exact s2 f h
        · subst h; exact ⟨hwl, trivial⟩
      · intro f hfm
        rcases mem_appendFact_cmp cle hfm with h | h
        · exact s3 f h
        · subst h; exact goodFact_of_cmp cle
    · exact ⟨s1, s2, s3⟩
  · cases hb

theorem envOk_updKey {Γ : Ctx} {env : Env} {key : Key} {v : Int} (he : EnvOk Γ env)
    (hv : inType (Γ key.name) v) : EnvOk Γ (updKey env key v) := by
  intro m
  simp only [updKey]
  split
  · rename_i h; subst h; exact hv
  · exact he m

theorem envOk_upd {Γ : Ctx} {env : Env} {n : String} {v : Int} (he : EnvOk Γ env)
    (hv : inType (Γ n) v) : EnvOk Γ (upd env n v) :=
  envOk_updKey (key := .sc n) he hv

/-- the checker's situation at a program point: the store respects the declared types,
every fact is true in it (C02 facts clause), the facts are well-typed and of a shape the
op-assignment rewriting understands (`GoodFact`; field name `cmpF` kept from the time
when all facts were comparisons) -/
structure Situation (Γ : Ctx) (env : Env) (fs : List Expr) : Prop where
  envOk : EnvOk Γ env
  holds : FactsHold env fs
  wtF : ∀ f ∈ fs, wt Γ f
  cmpF : ∀ f ∈ fs, GoodFact f

/-- What the soundness of one (op-)assignment needs to know about the store `env'`
after it, abstractly: it respects the types, the target now holds `v`, and the
expressions the checker assumes to be unaffected (`Unaff`) are.  Instantiated below
for a variable target (`Unaff e` = "`e` does not `Mention` the variable") and for an
array-element target (`Unaff e` = "`e` reads no element of that array"). -/
structure StoreStep (Γ : Ctx) (env env' : Env) (fs : List Expr) (lhs rhs : Expr) (v : Int)
    (Unaff : Expr → Prop) : Prop where
  envOk' : EnvOk Γ env'
  lhsVal : idxReads lhs = false → evalI env' lhs = v
  stable : ∀ e, wt Γ e → Unaff e → evalI env' e = evalI env e
  keptU : ∀ f ∈ fs, mentionsLHS lhs f = false → Unaff f
  rhsU : mentionsLHS lhs rhs = false → Unaff rhs
  anyU : ∀ e, mentionsLHS lhs e = false → Unaff e
  xrU : ∀ xop xr, Expr.binary xop lhs xr ∈ fs → mentionsLHS lhs xr = false → Unaff xr

/-- one fact of `bcheckAssignmentMaxMin` is true after the store: the operand is
unaffected by it and `lhs` denotes the stored location -/
theorem minMaxFact_sound {Γ : Ctx} {env env' : Env} {fs gs : List Expr} {lhs rhs x : Expr} {v : Int}
    {Unaff : Expr → Prop} {op : BOp} (T : StoreStep Γ env env' fs lhs rhs v Unaff)
    (hwl : wt Γ lhs) (hwx : wt Γ x) (hop : op.isCmp = true) (hrel : cmpRel op v (evalI env x))
    (hg : FactsHold env' gs ∧ (∀ f ∈ gs, wt Γ f) ∧ (∀ f ∈ gs, GoodFact f)) :
    FactsHold env' (minMaxFact gs lhs op x) ∧ (∀ f ∈ minMaxFact gs lhs op x, wt Γ f) ∧
      (∀ f ∈ minMaxFact gs lhs op x, GoodFact f) := by
  unfold minMaxFact
  split
  · exact hg
  · rename_i hm
    simp only [Bool.or_eq_true, not_or, Bool.not_eq_true] at hm
    have cf : IsCmpFact (.binary op lhs x) := ⟨_, _, _, rfl, hop⟩
    have tf : evalI env' (.binary op lhs x) ≠ 0 := by
      apply (evalI_cmp hop _ _).2
      rw [T.lhsVal hm.2, T.stable x hwx (T.anyU x hm.1)]
      exact hrel
    refine ⟨factsHold_appendFact cf hg.1 tf, ?_, ?_⟩
    · intro f hfm
      rcases mem_appendFact_cmp cf hfm with h | h
      · exact hg.2.1 f h
      · subst h; exact ⟨hwl, hwx⟩
    · intro f hfm
      rcases mem_appendFact_cmp cf hfm with h | h
      · exact hg.2.2 f h
      · subst h; exact goodFact_of_cmp cf

/-- `bcheckAssignmentMaxMin`: the facts recorded after `lhs = a.min(…b)` / `a.max(…b)` -/
theorem minMaxFacts_sound {Γ : Ctx} {env env' : Env} {fs gs : List Expr} {lhs rhs : Expr}
    {Unaff : Expr → Prop} (T : StoreStep Γ env env' fs lhs rhs (evalI env rhs) Unaff)
    (hwl : wt Γ lhs) (hwr : wt Γ rhs)
    (hg : FactsHold env' gs ∧ (∀ f ∈ gs, wt Γ f) ∧ (∀ f ∈ gs, GoodFact f)) :
    FactsHold env' (minMaxFacts gs lhs rhs) ∧ (∀ f ∈ minMaxFacts gs lhs rhs, wt Γ f) ∧
      (∀ f ∈ minMaxFacts gs lhs rhs, GoodFact f) := by
  unfold minMaxFacts
  split
  · rename_i a b
    simp only [wt] at hwr
    refine minMaxFact_sound T hwl hwr.2 rfl ?_ (minMaxFact_sound T hwl hwr.1 rfl ?_ hg)
    · simp only [cmpRel, evalI, binSem]; split <;> omega
    · simp only [cmpRel, evalI, binSem]; split <;> omega
  · rename_i a b
    simp only [wt] at hwr
    refine minMaxFact_sound T hwl hwr.2 rfl ?_ (minMaxFact_sound T hwl hwr.1 rfl ?_ hg)
    · simp only [cmpRel, evalI, binSem]; split <;> omega
    · simp only [cmpRel, evalI, binSem]; split <;> omega
  · exact hg

theorem assign_core {Γ : Ctx} {env env' : Env} {fs fs' : List Expr} {lhs rhs : Expr}
    {Unaff : Expr → Prop}
    (S : Situation Γ env fs) (hwl : wt Γ lhs) (hwr : wt Γ rhs)
    (h : checkStmt fs (.assign lhs rhs) = some fs')
    (st : inType (typeOf lhs) (evalI env rhs) →
      StoreStep Γ env env' fs lhs rhs (evalI env rhs) Unaff) :
    stmtSafe env (.assign lhs rhs) ∧ Situation Γ env' fs' := by
  simp only [checkStmt] at h
  split at h
  · cases h
  · split at h
    · rename_i lb rb hlb hrb
      split at h
      · cases h
      · rename_i hfit
        simp only [Bool.not_eq_true, Bool.not_eq_false'] at hfit
        obtain ⟨hsl, _⟩ := bounds_contain' S.holds (varsOk_of_wt S.envOk lhs hwl) hlb
        obtain ⟨hsafe, hmem⟩ := bounds_contain' S.holds (varsOk_of_wt S.envOk rhs hwr) hrb
        have hty : inType (typeOf lhs) (evalI env rhs) := fitsType_spec hfit hmem
        have T := st hty
        refine ⟨⟨hsl, hsafe, hty⟩, ?_⟩
        -- the facts that survive the assignment
        have h1 : FactsHold env' (dropLHS fs lhs) := by
          intro f hf
          simp only [dropLHS, List.mem_filter, Bool.not_eq_true'] at hf
          rw [T.stable f (S.wtF f hf.1) (T.keptU f hf.1 hf.2)]
          exact S.holds f hf.1
        have w1 : ∀ f ∈ dropLHS fs lhs, wt Γ f := by
          intro f hf
          simp only [dropLHS, List.mem_filter] at hf
          exact S.wtF f hf.1
        have c1 : ∀ f ∈ dropLHS fs lhs, GoodFact f := by
          intro f hf
          simp only [dropLHS, List.mem_filter] at hf
          exact S.cmpF f hf.1
        split at h
        · cases h; exact ⟨T.envOk', h1, w1, c1⟩
        · -- numeric destination: `lhs == rhs` unless the RHS mentions the LHS
          have ceq : IsCmpFact (.binary .eq lhs rhs) := ⟨_, _, _, rfl, rfl⟩
          have s2 : FactsHold env'
                (if (mentionsLHS lhs rhs || idxReads lhs) = true then dropLHS fs lhs
                 else appendFact (dropLHS fs lhs) (.binary .eq lhs rhs)) ∧
              (∀ f ∈ (if (mentionsLHS lhs rhs || idxReads lhs) = true then dropLHS fs lhs
                 else appendFact (dropLHS fs lhs) (.binary .eq lhs rhs)), wt Γ f) ∧
              (∀ f ∈ (if (mentionsLHS lhs rhs || idxReads lhs) = true then dropLHS fs lhs
                 else appendFact (dropLHS fs lhs) (.binary .eq lhs rhs)), GoodFact f) := by
            split
            · exact ⟨h1, w1, c1⟩
            · rename_i hm
              simp only [Bool.or_eq_true, not_or, Bool.not_eq_true] at hm
              have teq : evalI env' (.binary .eq lhs rhs) ≠ 0 := by
                apply (evalI_cmp rfl _ _).2
                simp only [cmpRel, T.lhsVal hm.2, T.stable rhs hwr (T.rhsU hm.1)]
              refine ⟨factsHold_appendFact ceq h1 teq, ?_, ?_⟩
              · intro f hfm
                rcases mem_appendFact_cmp ceq hfm with h | h
                · exact w1 f h
                · subst h; exact ⟨hwl, hwr⟩
              · intro f hfm
                rcases mem_appendFact_cmp ceq hfm with h | h
                · exact c1 f h
                · subst h; exact goodFact_of_cmp ceq
          obtain ⟨s2a, s2b, s2c⟩ := minMaxFacts_sound T hwl hwr s2
          split at h
          · cases h; exact ⟨T.envOk', s2a, s2b, s2c⟩
          · rename_i hir
            simp only [Bool.not_eq_true] at hir
            split at h
            · cases h; exact ⟨T.envOk', s2a, s2b, s2c⟩
            · have hmem' : rb.mem (evalI env' lhs) := by rw [T.lhsVal hir]; exact hmem
              obtain ⟨r1, r2, r3⟩ := boundFacts_sound hwl h hmem' s2a s2b s2c
              exact ⟨T.envOk', r1, r2, r3⟩
    · cases h

theorem cmpRel_shift {xop : BOp} (hc : xop.isCmp = true) (a b e : Int) :
    (cmpRel xop (a + e) (b + e) ↔ cmpRel xop a b) ∧ (cmpRel xop (a - e) (b - e) ↔ cmpRel xop a b) := by
  cases xop <;> simp [BOp.isCmp] at hc <;> simp only [cmpRel] <;> constructor <;> constructor <;>
    intro h <;> omega

/-- the rewriting of one fact by `lhs op= rhs` yields a fact that is true afterwards -/
theorem rewriteFact_core {Γ : Ctx} {env env' : Env} {fs : List Expr} {op : BOp}
    {lhs rhs f g : Expr} {Unaff : Expr → Prop}
    (T : StoreStep Γ env env' fs lhs rhs (evalI env (.binary op lhs rhs)) Unaff)
    (hnum : (typeOf lhs).base ≠ .bool)
    (hwl : wt Γ lhs) (hwr : wt Γ rhs) (hmem : f ∈ fs) (hwf : wt Γ f) (hcf : GoodFact f)
    (hf : evalI env f ≠ 0) (h : rewriteFact op lhs rhs f = some g) :
    evalI env' g ≠ 0 ∧ wt Γ g ∧ GoodFact g := by
  unfold rewriteFact at h
  split at h
  · rename_i xop xl xr
    split at h
    · rename_i hxl
      have e := eq_of_beq hxl
      subst e
      have hxc : xop.isCmp = true := by
        rcases hcf xop xl xr rfl with h | h
        · exact h
        · exact absurd h hnum
      split at h
      · cases h
      · rename_i hm
        simp only [Bool.or_eq_true, not_or, Bool.not_eq_true] at hm
        have hw := hwf
        simp only [wt] at hw
        have key : ∀ op', (op' = BOp.plus ∨ op' = BOp.minus) → op = op' →
            evalI env' (.binary xop xl (simplifyBin op xr rhs)) ≠ 0 := by
          intro op' hop' hop
          apply (evalI_cmp hxc _ _).2
          rw [evalI_simplifyBin (hop ▸ hop'), T.stable xr hw.2 (T.xrU xop xr hmem hm.1.1),
            T.stable rhs hwr (T.rhsU hm.1.2), T.lhsVal hm.2]
          have h0 := (evalI_cmp hxc _ _).1 hf
          simp only [evalI]
          subst hop
          rcases hop' with rfl | rfl
          · simp only [binSem, opBase]; exact (cmpRel_shift hxc _ _ _).1.2 h0
          · simp only [binSem, opBase]; exact (cmpRel_shift hxc _ _ _).2.2 h0
        cases op
        case plus =>
          simp only [] at h; cases h
          exact ⟨key .plus (Or.inl rfl) rfl, ⟨hw.1, wt_simplifyBin hw.2 hwr⟩,
            goodFact_of_cmp ⟨_, _, _, rfl, hxc⟩⟩
        case minus =>
          simp only [] at h; cases h
          exact ⟨key .minus (Or.inr rfl) rfl, ⟨hw.1, wt_simplifyBin hw.2 hwr⟩,
            goodFact_of_cmp ⟨_, _, _, rfl, hxc⟩⟩
        all_goals (first | (simp only [] at h; cases h) | cases h)
    · split at h
      · cases h
      · rename_i hm
        simp only [Bool.not_eq_true] at hm
        cases h
        rw [T.stable _ hwf (T.keptU _ hmem hm)]
        exact ⟨hf, hwf, hcf⟩
  · split at h
    · cases h
    · rename_i hm
      simp only [Bool.not_eq_true] at hm
      cases h
      rw [T.stable _ hwf (T.keptU _ hmem hm)]
      exact ⟨hf, hwf, hcf⟩

theorem opassign_core {Γ : Ctx} {env env' : Env} {fs fs' : List Expr} {op : BOp}
    {lhs rhs : Expr} {Unaff : Expr → Prop}
    (S : Situation Γ env fs) (hwl : wt Γ lhs) (hwr : wt Γ rhs)
    (hnum : (typeOf lhs).base ≠ .bool)
    (hnat : (typeOf lhs).base ≠ .ideal → inNatural (typeOf lhs).base (evalI env lhs))
    (h : checkStmt fs (.opAssign op lhs rhs) = some fs')
    (st : inType (typeOf lhs) (evalI env (.binary op lhs rhs)) →
      StoreStep Γ env env' fs lhs rhs (evalI env (.binary op lhs rhs)) Unaff) :
    stmtSafe env (.opAssign op lhs rhs) ∧ Situation Γ env' fs' := by
  simp only [checkStmt] at h
  split at h
  · cases h
  · split at h
    · rename_i lb rb hlb hrb
      split at h
      · cases h
      · rename_i nb hnb
        split at h
        · cases h
        · rename_i hfit
          simp only [Bool.not_eq_true, Bool.not_eq_false'] at hfit
          obtain ⟨hsl, hml⟩ := bounds_contain' S.holds (varsOk_of_wt S.envOk _ hwl) hlb
          obtain ⟨hsafe, hmr⟩ := bounds_contain' S.holds (varsOk_of_wt S.envOk rhs hwr) hrb
          obtain ⟨hmon, hmn⟩ := binBounds_sound S.holds hml hmr (fun _ hne => hnat hne) hnb
          have hmn' : nb.mem (evalI env (.binary op lhs rhs)) := by
            simpa [evalI] using hmn
          have hty : inType (typeOf lhs) (evalI env (.binary op lhs rhs)) :=
            fitsType_spec hfit hmn'
          have T := st hty
          refine ⟨⟨hsl, hsafe, hmon, hty⟩, ?_⟩
          have s1 : FactsHold env' (fs.filterMap (rewriteFact op lhs rhs)) ∧
              (∀ f ∈ fs.filterMap (rewriteFact op lhs rhs), wt Γ f) ∧
              (∀ f ∈ fs.filterMap (rewriteFact op lhs rhs), GoodFact f) := by
            refine ⟨?_, ?_, ?_⟩ <;> intro g hg <;> simp only [List.mem_filterMap] at hg <;>
              obtain ⟨f, hf, hfg⟩ := hg <;>
              have := rewriteFact_core T hnum hwl hwr hf (S.wtF f hf) (S.cmpF f hf) (S.holds f hf) hfg
            · exact this.1
            · exact this.2.1
            · exact this.2.2
          obtain ⟨s1a, s1b, s1c⟩ := s1
          split at h
          · cases h; exact ⟨T.envOk', s1a, s1b, s1c⟩
          · split at h
            · cases h; exact ⟨T.envOk', s1a, s1b, s1c⟩
            · rename_i hir
              simp only [Bool.not_eq_true] at hir
              have hmem' : nb.mem (evalI env' lhs) := by rw [T.lhsVal hir]; exact hmn'
              obtain ⟨r1, r2, r3⟩ := boundFacts_sound hwl h hmem' s1a s1b s1c
              exact ⟨T.envOk', r1, r2, r3⟩
    · cases h

/-! ### variable targets -/

theorem storeStep_var {Γ : Ctx} {env : Env} {fs : List Expr} {n : String} {rhs : Expr} {v : Int}
    (he : EnvOk Γ env) (hv : inType (Γ n) v) :
    StoreStep Γ env (upd env n v) fs (.var n (Γ n)) rhs v
      (fun e => mentions e (.var n (Γ n)) = false) where
  envOk' := envOk_upd he hv
  lhsVal := fun _ => by simp [evalI, upd]
  stable := fun e hw hu => evalI_upd v e hw hu
  keptU := fun _ _ h => by simpa [mentionsLHS] using h
  rhsU := fun h => by simpa [mentionsLHS] using h
  anyU := fun _ h => by simpa [mentionsLHS] using h
  xrU := fun _ _ _ h => by simpa [mentionsLHS] using h

theorem assign_sound {Γ : Ctx} {env : Env} {fs fs' : List Expr} {n : String} {rhs : Expr}
    (S : Situation Γ env fs) (hwr : wt Γ rhs)
    (h : checkStmt fs (.assign (.var n (Γ n)) rhs) = some fs') :
    stmtSafe env (.assign (.var n (Γ n)) rhs) ∧
      Situation Γ (execStmt env (.assign (.var n (Γ n)) rhs)) fs' := by
  have hexec : execStmt env (.assign (.var n (Γ n)) rhs) = upd env n (evalI env rhs) := rfl
  rw [hexec]
  exact assign_core S rfl hwr h (fun hty => storeStep_var S.envOk (by simpa [typeOf] using hty))

theorem opassign_sound {Γ : Ctx} {env : Env} {fs fs' : List Expr} {n : String} {op : BOp}
    {rhs : Expr} (S : Situation Γ env fs) (hwr : wt Γ rhs) (hnum : (Γ n).base ≠ .bool)
    (h : checkStmt fs (.opAssign op (.var n (Γ n)) rhs) = some fs') :
    stmtSafe env (.opAssign op (.var n (Γ n)) rhs) ∧
      Situation Γ (execStmt env (.opAssign op (.var n (Γ n)) rhs)) fs' := by
  have hexec : execStmt env (.opAssign op (.var n (Γ n)) rhs) =
      upd env n (evalI env (.binary op (.var n (Γ n)) rhs)) := rfl
  rw [hexec]
  exact opassign_core S rfl hwr (by simpa [typeOf] using hnum)
    (fun _ => by simpa [typeOf, evalI, Key.name] using (S.envOk (.sc n)).1) h
    (fun hty => storeStep_var S.envOk (by simpa [typeOf] using hty))

/-- a statement of this layer with a VARIABLE target: the destination is a declared
variable (numeric for an op-assignment), the right-hand side is well-typed -/
def wtStmt (Γ : Ctx) : Stmt → Prop
  | .assign lhs rhs => (∃ n, lhs = .var n (Γ n)) ∧ wt Γ rhs
  | .opAssign _ lhs rhs => (∃ n, lhs = .var n (Γ n) ∧ (Γ n).base ≠ .bool) ∧ wt Γ rhs

theorem stmt_sound {Γ : Ctx} {env : Env} {fs fs' : List Expr} {s : Stmt}
    (S : Situation Γ env fs) (hw : wtStmt Γ s) (h : checkStmt fs s = some fs') :
    stmtSafe env s ∧ Situation Γ (execStmt env s) fs' := by
  cases s with
  | assign lhs rhs =>
    obtain ⟨⟨n, rfl⟩, hwr⟩ := hw
    exact assign_sound S hwr h
  | opAssign op lhs rhs =>
    obtain ⟨⟨n, rfl, hnum⟩, hwr⟩ := hw
    exact opassign_sound S hwr hnum h

/-! ### array-element targets `a[i] = rhs`, `a[i] op= rhs`

The (repaired) checker drops every fact that reads an element of `a` and records new
facts about `a[i]` only when neither `i` nor the right-hand side read `a`
(`mentionsLHS`, `idxReads`).  The unrepaired rule dropped only the facts that `Mention`
the very expression `a[i]`: unsound (`Props.C01.index_alias_witness`). -/

theorem mentionsLHS_index_false {a : String} {len : Nat} {ety : Ty} {i x : Expr}
    (h : mentionsLHS (.index a len ety i) x = false) : readsArr x a = false := by
  simp only [mentionsLHS, Bool.or_eq_false_iff] at h
  exact h.2

theorem storeStep_index {Γ : Ctx} {env : Env} {fs : List Expr} {a : String} {len : Nat}
    {i rhs : Expr} {v : Int}
    (he : EnvOk Γ env) (hv : inType (Γ a) v) :
    StoreStep Γ env (updKey env (.cell a (evalI env i)) v) fs (.index a len (Γ a) i) rhs v
      (fun e => readsArr e a = false) where
  envOk' := envOk_updKey (key := .cell a (evalI env i)) he hv
  lhsVal := by
    intro hir
    simp only [idxReads] at hir
    simp only [evalI, evalI_updCell _ _ i hir]
    simp [updKey]
  stable := fun e _ hu => evalI_updCell _ _ e hu
  keptU := fun _ _ h => mentionsLHS_index_false h
  rhsU := fun h => mentionsLHS_index_false h
  anyU := fun _ h => mentionsLHS_index_false h
  xrU := fun _ _ _ h => mentionsLHS_index_false h

/-- a statement with an ARRAY-ELEMENT target: the element type is the declared one, the
index and the right-hand side are well-typed (numeric elements for an op-assignment) -/
def wtStore (Γ : Ctx) : Stmt → Prop
  | .assign lhs rhs => (∃ a len i, lhs = .index a len (Γ a) i ∧ wt Γ i) ∧ wt Γ rhs
  | .opAssign _ lhs rhs =>
    (∃ a len i, lhs = .index a len (Γ a) i ∧ wt Γ i ∧ (Γ a).base ≠ .bool) ∧ wt Γ rhs

/-- **store_sound**: an accepted store to an array element trips no monitor — in
particular the index is within `[0, len)` — and the situation the checker continues
with holds afterwards, whatever other elements of the array the store aliases. -/
theorem store_sound {Γ : Ctx} {env : Env} {fs fs' : List Expr} {s : Stmt}
    (S : Situation Γ env fs) (hw : wtStore Γ s) (h : checkStmt fs s = some fs') :
    stmtSafe env s ∧ Situation Γ (execStmt env s) fs' := by
  cases s with
  | assign lhs rhs =>
    obtain ⟨⟨a, len, i, rfl, hwi⟩, hwr⟩ := hw
    have hexec : execStmt env (.assign (.index a len (Γ a) i) rhs) =
        updKey env (.cell a (evalI env i)) (evalI env rhs) := rfl
    rw [hexec]
    exact assign_core S ⟨rfl, hwi⟩ hwr h
      (fun hty => storeStep_index S.envOk (by simpa [typeOf] using hty))
  | opAssign op lhs rhs =>
    obtain ⟨⟨a, len, i, rfl, hwi, hnum⟩, hwr⟩ := hw
    have hexec : execStmt env (.opAssign op (.index a len (Γ a) i) rhs) =
        updKey env (.cell a (evalI env i))
          (evalI env (.binary op (.index a len (Γ a) i) rhs)) := rfl
    rw [hexec]
    exact opassign_core S ⟨rfl, hwi⟩ hwr (by simpa [typeOf] using hnum)
      (fun _ => by simpa [typeOf, evalI, Key.name] using (S.envOk (.cell a (evalI env i))).1) h
      (fun hty => storeStep_index S.envOk (by simpa [typeOf] using hty))

/-- the stores of an accepted statement never leave the array: the index monitor,
with no aliasing hypothesis at all (only the situation BEFORE the statement) -/
theorem store_index_in_range {Γ : Ctx} {env : Env} {fs fs' : List Expr} {s : Stmt}
    {a : String} {len : Nat} {ety : Ty} {i : Expr}
    (S : Situation Γ env fs) (hs : stmtTarget s = .index a len ety i)
    (hwl : wt Γ (.index a len ety i)) (h : checkStmt fs s = some fs') :
    0 ≤ evalI env i ∧ evalI env i < len := by
  have key : ∀ lb, bcheck fs false (.index a len ety i) = some lb →
      0 ≤ evalI env i ∧ evalI env i < len := by
    intro lb hlb
    have := (bounds_contain' S.holds (varsOk_of_wt S.envOk _ hwl) hlb).1
    exact this.2
  cases s with
  | assign lhs rhs =>
    simp only [stmtTarget] at hs; subst hs
    simp only [checkStmt] at h
    split at h
    · cases h
    · split at h
      · rename_i lb rb hlb hrb; exact key lb hlb
      · cases h
  | opAssign op lhs rhs =>
    simp only [stmtTarget] at hs; subst hs
    simp only [checkStmt] at h
    split at h
    · cases h
    · split at h
      · rename_i lb rb hlb hrb; exact key lb hlb
      · cases h

/-- along the execution of an accepted block: before every statement all facts of the
checker's situation are true, the statement trips no monitor; at the end the final
situation holds -/
def HoldsAlong (Γ : Ctx) : List Expr → Env → List Stmt → Prop
  | fs, env, [] => Situation Γ env fs
  | fs, env, s :: ss =>
    Situation Γ env fs ∧ stmtSafe env s ∧
      ∃ fs1, checkStmt fs s = some fs1 ∧ HoldsAlong Γ fs1 (execStmt env s) ss

/-- a well-formed statement with either kind of target -/
def wtStmtA (Γ : Ctx) (s : Stmt) : Prop := wtStmt Γ s ∨ wtStore Γ s

theorem stmtA_sound {Γ : Ctx} {env : Env} {fs fs' : List Expr} {s : Stmt}
    (S : Situation Γ env fs) (hw : wtStmtA Γ s) (h : checkStmt fs s = some fs') :
    stmtSafe env s ∧ Situation Γ (execStmt env s) fs' := by
  rcases hw with hv | hst
  · exact stmt_sound S hv h
  · exact store_sound S hst h

theorem block_sound {Γ : Ctx} :
    ∀ (ss : List Stmt) (fs fs' : List Expr) (env : Env), Situation Γ env fs →
      (∀ s ∈ ss, wtStmt Γ s) → checkBlock fs ss = some fs' → HoldsAlong Γ fs env ss := by
  intro ss
  induction ss with
  | nil => intro fs fs' env S _ _; exact S
  | cons s ss ih =>
    intro fs fs' env S hw h
    simp only [checkBlock] at h
    split at h
    · cases h
    · rename_i fs1 h1
      obtain ⟨hs, S1⟩ := stmt_sound S (hw s List.mem_cons_self) h1
      exact ⟨S, hs, fs1, h1, ih fs1 fs' _ S1 (fun t ht => hw t (List.mem_cons_of_mem _ ht)) h⟩

/-- blocks with variable and array-element targets -/
theorem block_sound_arr {Γ : Ctx} :
    ∀ (ss : List Stmt) (fs fs' : List Expr) (env : Env), Situation Γ env fs →
      (∀ s ∈ ss, wtStmtA Γ s) → checkBlock fs ss = some fs' → HoldsAlong Γ fs env ss := by
  intro ss
  induction ss with
  | nil => intro fs fs' env S _ _; exact S
  | cons s ss ih =>
    intro fs fs' env S hw h
    simp only [checkBlock] at h
    split at h
    · cases h
    · rename_i fs1 h1
      obtain ⟨hs, S1⟩ := stmtA_sound S (hw s List.mem_cons_self) h1
      exact ⟨S, hs, fs1, h1, ih fs1 fs' _ S1 (fun t ht => hw t (List.mem_cons_of_mem _ ht)) h⟩

end WuffsVerif.Proof.WCoreStmt
