/-
C18 helper lemmas for the entropy round trip, part 3: MCUs, AddN calls, the whole scan.
-/
import WuffsVerif.Proof.JpegHuff
open WuffsVerif.Gen.C18 WuffsVerif.Jpeg WuffsVerif.Jpeg.Buf WuffsVerif.Jpeg.Bits WuffsVerif.Jpeg.Tab WuffsVerif.Jpeg.Huff

namespace WuffsVerif.Jpeg.Scan

/-- `whichHuffmanBase` of a component -/
def baseOf (c : Nat) : Nat := if c > 0 then 2 else 0

/-- the Spec's MCU plan for a component list: component index, its DC and AC code tables -/
def planOf (cs : List Nat) : List Spec.PlanEntry :=
  cs.map (fun c => ⟨c, canonTable (baseOf c), canonTable (baseOf c + 1)⟩)

/-- what the file must hold for block `b` of component `c`: the quantised coefficients,
    natural order -/
def expectBlock (e : Encoder) (c : Nat) (b : Block) : List Int :=
  Spec.dezigzag 0 (quantisedZZ (e.quants (baseOf c / 2)) b)

/-- the Spec's predictor list agrees with the Encoder's `prevDC` -/
def PredsRel (e : Encoder) (preds : List Int) : Prop :=
  preds.length ≤ 3 ∧ ∀ c, c < preds.length → preds.getD c 0 = e.prevDC c

theorem expectBlock_congr {e e' : Encoder} (h : SameCfg e e') (c : Nat) (b : Block) :
    expectBlock e' c b = expectBlock e c b := by
  unfold expectBlock Encoder.quants
  rw [h.1, h.2.1]

theorem acc_setPrev {e : Encoder} {p : Nat} (c : Nat) (v : Int) (h : Acc e p) : Acc (e.setPrevDC c v) p := by
  obtain ⟨h1, h2, h3⟩ := h
  unfold Encoder.setPrevDC
  split
  · exact ⟨h1, h2, h3⟩
  · split <;> exact ⟨h1, h2, h3⟩

theorem prevDC_setPrev (e : Encoder) (c c' : Nat) (v : Int) (hc : c < 3) (hc' : c' < 3) :
    (e.setPrevDC c v).prevDC c' = if c' = c then v else e.prevDC c' := by
  unfold Encoder.setPrevDC Encoder.prevDC
  have : c = 0 ∨ c = 1 ∨ c = 2 := by omega
  have : c' = 0 ∨ c' = 1 ∨ c' = 2 := by omega
  rcases ‹c = 0 ∨ c = 1 ∨ c = 2› with rfl | rfl | rfl <;> rcases ‹c' = 0 ∨ c' = 1 ∨ c' = 2› with rfl | rfl | rfl <;> simp

theorem prevDC_same {e e' : Encoder} (h : SamePrev e e') (c : Nat) : e'.prevDC c = e.prevDC c := by
  unfold Encoder.prevDC; rw [h.1, h.2.1, h.2.2]

theorem setPrevDC_bitsN (e : Encoder) (c : Nat) (v : Int) : (e.setPrevDC c v).bitsN = e.bitsN := by
  unfold Encoder.setPrevDC
  split
  · rfl
  · split <;> rfl

theorem dc_range {e : Encoder} (hi : Inv e) (i : Nat) (b : Block) (hv : blockIsValid b = true) :
    -1024 ≤ div (b.getD 0 0) (((e.quants i).getD 0 0 : Nat) : Int) ∧
    div (b.getD 0 0) (((e.quants i).getD 0 0 : Nat) : Int) ≤ 1023 := by
  have hq := hi.quants i 0 (by omega)
  have hb0 := (blockIsValid_spec b hv).1
  have := div_range (b.getD 0 0) (((e.quants i).getD 0 0 : Nat) : Int) (by omega) (by omega) (by omega) (by omega)
  omega

theorem getD_set (l : List Int) (c c' : Nat) (v : Int) (hc : c < l.length) :
    (l.set c v).getD c' 0 = if c' = c then v else l.getD c' 0 := by
  rw [List.getD_eq_getElem?_getD, List.getD_eq_getElem?_getD, List.getElem?_set]
  by_cases h : c = c'
  · subst h; simp [hc]
  · have h' : ¬ c' = c := fun x => h x.symm
    simp [h, h']

/-- one MCU / AddN unit: `encodeBlocks` against the Spec's `decodeMCU` -/
theorem encodeBlocks_roundtrip (cs : List Nat) : ∀ (bs : List Block) (e : Encoder) (out : Array Nat)
    (preds : List Int) (p : Nat), cs.length = bs.length → Inv e → Acc e p →
    (∀ b ∈ bs, blockIsValid b = true) → (∀ c ∈ cs, c < preds.length) → PredsRel e preds →
    ∃ (bytes : List Nat) (p' : Nat) (X : List Bool) (preds' : List Int),
      (encodeBlocks cs bs e out).2 = out ++ (stuff bytes).toArray ∧
      Acc (encodeBlocks cs bs e out).1 p' ∧ Inv (encodeBlocks cs bs e out).1 ∧
      SameCfg e (encodeBlocks cs bs e out).1 ∧
      bitsOf p e.bitsN ++ X = Spec.bytesBits bytes ++ bitsOf p' (encodeBlocks cs bs e out).1.bitsN ∧
      PredsRel (encodeBlocks cs bs e out).1 preds' ∧ preds'.length = preds.length ∧
      ∀ tail, Spec.decodeMCU (planOf cs) preds (X ++ tail) =
        some ((List.zip cs bs).map (fun cb => expectBlock e cb.1 cb.2), preds', tail) := by
  induction cs with
  | nil =>
    intro bs e out preds p _ hi ha _ _ hpr
    refine ⟨[], p, [], preds, by simp [encodeBlocks, stuff], ?_, ?_, ?_, ?_, ?_, rfl, ?_⟩
    · simpa [encodeBlocks] using ha
    · simpa [encodeBlocks] using hi
    · simp [encodeBlocks, SameCfg.refl]
    · simp [encodeBlocks, Spec.bytesBits]
    · simpa [encodeBlocks] using hpr
    · intro tail; simp [planOf, Spec.decodeMCU]
  | cons c cs ih =>
    intro bs e out preds p hlen hi ha hv hc hpr
    cases bs with
    | nil => simp at hlen
    | cons b bs =>
      have hcl := hc c List.mem_cons_self
      have hc3 : c < 3 := by have := hpr.1; omega
      have hvb := hv b List.mem_cons_self
      have hsp := encodeBlock_spec e out c b hi hvb
      have hem := encodeBlock_emits e out c b
      have hbase : baseOf c = 0 ∨ baseOf c = 2 := by unfold baseOf; split <;> simp
      have hdec := decodeBlock_blockBits (baseOf c) hbase
        (e.quants (baseOf c / 2)) (hi.quants _) b hvb (e.prevDC c) (hi.prev c)
      have hdcr := dc_range hi (baseOf c / 2) b hvb
      obtain ⟨bytes1, p1, h1a, h1b, h1c⟩ := hem.2.2 p (acc_setPrev c _ ha)
      simp only [setPrevDC_bitsN] at h1c
      change _ ++ blockBits (e.quants (baseOf c / 2)) (e.prevDC c) (baseOf c) b = _ at h1c
      -- predictors after the first block
      have hpr1 : PredsRel (encodeBlock e out c b).1
          (preds.set c (div (b.getD 0 0) (((e.quants (baseOf c / 2)).getD 0 0 : Nat) : Int))) := by
        refine ⟨by simpa using hpr.1, fun c' hc' => ?_⟩
        have hc'l : c' < preds.length := by simpa using hc'
        rw [getD_set preds c c' _ hcl, prevDC_same hem.2.1 c']
        change _ = (e.setPrevDC c (div (b.getD 0 0) (((e.quants (baseOf c / 2)).getD 0 0 : Nat) : Int))).prevDC c'
        rw [prevDC_setPrev e c c' _ hc3 (by have := hpr.1; omega)]
        split
        · rfl
        · exact hpr.2 c' hc'l
      obtain ⟨bytes2, p2, X2, preds2, h2a, h2b, h2c, h2d, h2e, h2f, h2g, h2h⟩ :=
        ih bs (encodeBlock e out c b).1 (encodeBlock e out c b).2
          (preds.set c (div (b.getD 0 0) (((e.quants (baseOf c / 2)).getD 0 0 : Nat) : Int))) p1
          (by simpa using hlen) hsp.2.1 h1b (fun b' hb' => hv b' (List.mem_cons_of_mem _ hb'))
          (fun c' hc' => by simpa using hc c' (List.mem_cons_of_mem _ hc')) hpr1
      have hstep : encodeBlocks (c :: cs) (b :: bs) e out =
          encodeBlocks cs bs (encodeBlock e out c b).1 (encodeBlock e out c b).2 := by
        simp only [encodeBlocks]
      rw [hstep]
      refine ⟨bytes1 ++ bytes2, p2, blockBits (e.quants (baseOf c / 2)) (e.prevDC c) (baseOf c) b ++ X2, preds2,
        ?_, h2b, h2c, hsp.2.2.trans h2d, ?_, h2f, by simpa using h2g, ?_⟩
      · rw [h2a, h1a, stuff_append]
        apply Array.ext'
        simp
      · rw [← List.append_assoc, h1c, List.append_assoc, h2e, bytesBits_append, List.append_assoc]
      · intro tail
        simp only [planOf, List.map_cons, Spec.decodeMCU]
        rw [List.append_assoc, hpr.2 c hcl, hdec]
        simp only
        have hh : (quantisedZZ (e.quants (baseOf c / 2)) b).headD 0 =
            div (b.getD 0 0) (((e.quants (baseOf c / 2)).getD 0 0 : Nat) : Int) := rfl
        rw [hh]
        have := h2h tail
        simp only [planOf] at this
        rw [this]
        simp only [List.zip_cons_cons, List.map_cons, Option.some.injEq, Prod.mk.injEq, and_true, List.cons.injEq]
        refine ⟨rfl, ?_⟩
        apply List.map_congr_left
        intro cb _
        exact expectBlock_congr hsp.2.2 cb.1 cb.2

/-- number of components of a colour type -/
def ncomp (ct : Nat) : Nat := if ct = 1 then 1 else 3

theorem whichComponents_lt (ct : Nat) (hct : ct = 1 ∨ ct = 3 ∨ ct = 6) :
    (whichComponents ct).length = ct ∧ ∀ c ∈ whichComponents ct, c < ncomp ct := by
  rcases hct with rfl | rfl | rfl <;> simp [whichComponents, ncomp]

/-- the blocks of one unit, as the file must hold them -/
def expectUnit (e : Encoder) (ct : Nat) (u : List Block) : List (List Int) :=
  (List.zip (whichComponents ct) u).map (fun cb => expectBlock e cb.1 cb.2)

/-- one successful `AddN` call with a valid unit -/
theorem add_unit (e : Encoder) (ct k : Nat) (u : List Block) (preds : List Int) (p : Nat)
    (hi : Inv e) (ha : Acc e p) (herr : e.hasReturnedError = false) (hct : e.colorType = ct)
    (hct3 : ct = 1 ∨ ct = 3 ∨ ct = 6) (hul : u.length = ct) (hv : ∀ b ∈ u, blockIsValid b = true)
    (hk : e.numAddsRemaining = k + 1) (hpr : PredsRel e preds) (hpl : preds.length = ncomp ct) :
    ∃ (w : Array Nat) (bytes : List Nat) (p' : Nat) (X : List Bool) (preds' : List Int),
      (add e ct false (some u)).2 = .ok w ∧
      (add e ct false (some u)).1.numAddsRemaining = k ∧
      (add e ct false (some u)).1.hasReturnedError = false ∧
      (add e ct false (some u)).1.colorType = ct ∧
      (add e ct false (some u)).1.quants0 = e.quants0 ∧ (add e ct false (some u)).1.quants1 = e.quants1 ∧
      Inv (add e ct false (some u)).1 ∧ Acc (add e ct false (some u)).1 p' ∧
      PredsRel (add e ct false (some u)).1 preds' ∧ preds'.length = preds.length ∧
      w.toList = stuff bytes ++ (if k = 0 then [255, 217] else []) ∧
      bitsOf p e.bitsN ++ X ++ (if k = 0 then bitsOf 0x7F 7 else []) =
        Spec.bytesBits bytes ++ bitsOf p' (add e ct false (some u)).1.bitsN ∧
      ∀ tail, Spec.decodeMCU (planOf (whichComponents ct)) preds (X ++ tail) =
        some (expectUnit e ct u, preds', tail) := by
  have hadd : add e ct false (some u) = addN e false u := by simp [add, herr, hct]
  have hall : u.all blockIsValid = true := List.all_eq_true.mpr hv
  have hn0 : ¬ e.numAddsRemaining = 0 := by omega
  have hnp := (addN_spec e false u hi (by rcases hct3 with h | h | h <;> omega)).1
  rw [hadd] at *
  rw [addN_main e false u hall hn0] at hnp ⊢
  -- the blocks
  have hi0 : Inv { e with numAddsRemaining := e.numAddsRemaining - 1 } :=
    ⟨hi.bitsN, hi.q0, hi.q1, hi.p0, hi.p1, hi.p2⟩
  have hwc := whichComponents_lt ct hct3
  obtain ⟨bytes1, p1, X, preds1, h1a, h1b, h1c, h1d, h1e, h1f, h1g, h1h⟩ :=
    encodeBlocks_roundtrip (whichComponents u.length) u { e with numAddsRemaining := e.numAddsRemaining - 1 } #[]
      preds p (by rw [hul]; exact hwc.1) hi0 ha hv (by rw [hul, hpl]; exact hwc.2) hpr
  generalize encodeBlocks (whichComponents u.length) u { e with numAddsRemaining := e.numAddsRemaining - 1 } #[] = r1 at *
  obtain ⟨e1, out1⟩ := r1
  simp only at h1a h1b h1c h1d h1e h1f h1h hnp ⊢
  have hk1 : e1.numAddsRemaining = k := by rw [h1d.2.2.2.1]; simp; omega
  rw [hul] at h1h
  -- EOI
  unfold emitEOI at hnp ⊢
  by_cases hk0 : k = 0
  · have hz : e1.numAddsRemaining = 0 := by omega
    simp only [hz, ↓reduceIte] at hnp ⊢
    have hem := emitBits_emits e1 out1 0x7F 7 (by decide)
    obtain ⟨bytes2, p2, h2a, h2b, h2c⟩ := hem.2.2 p1 h1b
    have hi2 : Inv (emitBits e1 out1 0x7F 7).1 := h1c.of_same hem.1 hem.2.1 h2b.1
    generalize emitBits e1 out1 0x7F 7 = r2 at *
    obtain ⟨e2, out2⟩ := r2
    simp only at h2a h2b h2c hnp hi2 ⊢
    rcases finishWrite_cases e2 ((out2.push 255).push 217) false with ⟨_, hf⟩ | ⟨_, hf, _⟩ | ⟨_, _, hf⟩
    · rw [hf] at hnp; exact absurd rfl hnp
    · cases hf
    · rw [hf]
      have hc2 := h1d.trans hem.1
      refine ⟨_, bytes1 ++ bytes2, p2, X, preds1, rfl, ?_, ?_, ?_, ?_, ?_, hi2, h2b, ?_, h1g, ?_, ?_, h1h⟩
      · rw [hem.1.2.2.2.1]; exact hk1
      · rw [hc2.2.2.2.2]; exact herr
      · rw [hc2.2.2.1]; exact hct
      · rw [hc2.1]
      · rw [hc2.2.1]
      · refine ⟨h1f.1, fun c hc => ?_⟩
        rw [h1f.2 c hc, prevDC_same hem.2.1 c]
      · simp only [hk0, ↓reduceIte, h2a, h1a, stuff_append]
        simp
      · simp only [hk0, ↓reduceIte]
        rw [h1e, List.append_assoc, h2c, bytesBits_append, List.append_assoc]
  · have hz : ¬ e1.numAddsRemaining = 0 := by omega
    simp only [hz, ↓reduceIte] at hnp ⊢
    rcases finishWrite_cases e1 out1 false with ⟨_, hf⟩ | ⟨_, hf, _⟩ | ⟨_, _, hf⟩
    · rw [hf] at hnp; exact absurd rfl hnp
    · cases hf
    · rw [hf]
      refine ⟨_, bytes1, p1, X, preds1, rfl, hk1, ?_, ?_, ?_, ?_, h1c, h1b, h1f, h1g, ?_, ?_, h1h⟩
      · rw [h1d.2.2.2.2]; exact herr
      · rw [h1d.2.2.1]; exact hct
      · rw [h1d.1]
      · rw [h1d.2.1]
      · simp only [hk0, ↓reduceIte, h1a]
        simp
      · simp only [hk0, ↓reduceIte, List.append_nil]
        exact h1e


/-- a session: successive `AddN` calls (N = colour type) with a working writer -/
def runAdds (ct : Nat) : Encoder → List (List Block) → Encoder × List Res
  | e, [] => (e, [])
  | e, u :: us =>
    ((runAdds ct (add e ct false (some u)).1 us).1, (add e ct false (some u)).2 :: (runAdds ct (add e ct false (some u)).1 us).2)

/-- all blocks of all units, as the file must hold them -/
def expectAll (e : Encoder) (ct : Nat) (us : List (List Block)) : List (List Int) :=
  us.flatMap (expectUnit e ct)

theorem expectUnit_congr (e e' : Encoder) (h0 : e'.quants0 = e.quants0) (h1 : e'.quants1 = e.quants1) (ct : Nat)
    (u : List Block) : expectUnit e' ct u = expectUnit e ct u := by
  unfold expectUnit expectBlock Encoder.quants
  rw [h0, h1]

theorem flatMap_congr' {α β : Type} (l : List α) (f g : α → List β) (h : ∀ a ∈ l, f a = g a) :
    l.flatMap f = l.flatMap g := by
  induction l with
  | nil => rfl
  | cons a l ih =>
    simp only [List.flatMap_cons]
    rw [h a List.mem_cons_self, ih (fun b hb => h b (List.mem_cons_of_mem _ hb))]

/-- the whole scan, generalised over the starting state -/
theorem scan_gen (ct : Nat) (hct3 : ct = 1 ∨ ct = 3 ∨ ct = 6) (us : List (List Block)) :
    ∀ (e : Encoder) (preds : List Int) (p : Nat), Inv e → Acc e p → e.hasReturnedError = false →
      e.colorType = ct → e.numAddsRemaining = us.length → PredsRel e preds → preds.length = ncomp ct →
      (∀ u ∈ us, u.length = ct ∧ ∀ b ∈ u, blockIsValid b = true) →
      ∃ (ws : List (Array Nat)) (bytes : List Nat) (p' n' : Nat) (X : List Bool),
        (runAdds ct e us).2 = ws.map Res.ok ∧
        ws.flatMap Array.toList = stuff bytes ++ (if us = [] then [] else [255, 217]) ∧
        bitsOf p e.bitsN ++ X ++ (if us = [] then [] else bitsOf 0x7F 7) = Spec.bytesBits bytes ++ bitsOf p' n' ∧
        n' < 8 ∧
        ∀ tail, Spec.decodeMCUs (planOf (whichComponents ct)) us.length preds (X ++ tail) =
          some (expectAll e ct us, tail) := by
  induction us with
  | nil =>
    intro e preds p hi ha _ _ _ _ _ _
    exact ⟨[], [], p, e.bitsN, [], rfl, by simp [stuff], by simp [Spec.bytesBits], ha.1,
      fun tail => by simp [Spec.decodeMCUs, expectAll]⟩
  | cons u us ih =>
    intro e preds p hi ha herr hct hk hpr hpl hus
    have hu := hus u List.mem_cons_self
    obtain ⟨w, bytes1, p1, X1, preds1, a1, a2, a3, a4, a5, a6, a7, a8, a9, a10, a11, a12, a13⟩ :=
      add_unit e ct us.length u preds p hi ha herr hct hct3 hu.1 hu.2 (by simpa using hk) hpr hpl
    cases us with
    | nil =>
      simp only [List.length_nil, ↓reduceIte] at a11 a12 a2
      refine ⟨[w], bytes1, p1, (add e ct false (some u)).1.bitsN, X1, ?_, ?_, ?_, a8.1, ?_⟩
      · simp only [runAdds, List.map_cons, List.map_nil, a1]
      · simp [a11]
      · simpa using a12
      · intro tail
        simp only [List.length_cons, List.length_nil, Nat.zero_add, Spec.decodeMCUs]
        rw [a13]
        simp [expectAll]
    | cons u2 us2 =>
      obtain ⟨ws, bytes2, p2, n2, X2, b1, b2, b3, b4, b5⟩ :=
        ih (add e ct false (some u)).1 preds1 p1 a7 a8 a3 a4 a2 a9 (by rw [a10, hpl])
          (fun u' hu' => hus u' (List.mem_cons_of_mem _ hu'))
      have hl : ¬ (u2 :: us2).length = 0 := by simp
      simp only [hl, ↓reduceIte, List.append_nil] at a11 a12
      simp only [List.cons_ne_nil, ↓reduceIte] at b2 b3
      refine ⟨w :: ws, bytes1 ++ bytes2, p2, n2, X1 ++ X2, ?_, ?_, ?_, b4, ?_⟩
      · show (add e ct false (some u)).2 :: (runAdds ct (add e ct false (some u)).1 (u2 :: us2)).2 = _
        rw [a1, b1]; rfl
      · simp only [List.flatMap_cons, a11, b2, stuff_append, List.cons_ne_nil, ↓reduceIte, List.append_assoc]
      · simp only [List.cons_ne_nil, ↓reduceIte, bytesBits_append, List.append_assoc] at b3 ⊢
        rw [← List.append_assoc, a12, List.append_assoc, b3]
      · intro tail
        have hlen : (u :: u2 :: us2).length = (u2 :: us2).length + 1 := rfl
        rw [hlen, Spec.decodeMCUs, List.append_assoc, a13]
        simp only
        rw [b5 tail]
        simp only [expectAll, List.flatMap_cons, Option.some.injEq, Prod.mk.injEq, and_true]
        congr 1
        rw [expectUnit_congr e _ a5 a6 ct u2]
        congr 1
        exact flatMap_congr' _ _ _ (fun u' _ => expectUnit_congr e _ a5 a6 ct u')


end WuffsVerif.Jpeg.Scan
