/-
`encode` of Model/Png/Uncomp.lean, end to end: status, final encoder state, and the reference
decoder's verdict on the concatenated writes.
-/
import WuffsVerif.Proof.PngSpec

namespace WuffsVerif.Png.Uncomp
open WuffsVerif.Hash WuffsVerif.Gen.C19

theorem rendered_payloads (hdr : List UInt8) (bs : List (List UInt8)) (pend : List UInt8) (A : Adler) :
    (if bs = [] then hdr ++ idatChunk (zhdr ++ storedBlock true pend ++ adlerBytes A)
      else rendered hdr bs ++ idatChunk (storedBlock true pend ++ adlerBytes A))
      = hdr ++ (Spec.payloads bs pend A).flatMap idatChunk := by
  cases bs with
  | nil => simp [Spec.payloads, List.append_assoc]
  | cons b bs =>
    simp [Spec.payloads, rendered, List.append_assoc, List.flatMap_def, List.map_map, Function.comp_def]

/-- (n, k) of the six accepted (depth, colour type) pairs, and the PNG channel count -/
theorem loopParams_cases (depth colorType : UInt8) (hd : depth = 8 ∨ depth = 16)
    (hc : colorType = 1 ∨ colorType = 2 ∨ colorType = 3) :
    ∃ ch, Spec.channels (pngFileFormatEncoding colorType).toNat = some ch ∧
      (loopParams depth colorType).1 = ch * (depth.toNat / 8) ∧
      (loopParams depth colorType).1 ≤ (loopParams depth colorType).2 ∧
      (loopParams depth colorType).1 ≤ 64 := by
  rcases hd with rfl | rfl <;> rcases hc with rfl | rfl | rfl <;> decide

/-- What `Encode` does on valid arguments with a writer that never fails, from ANY prior encoder
state of the right size: it succeeds, leaves a usable encoder, and the bytes written decode (by the
reference decoder) to the input's dimensions, depth, colour type and pixel bytes. -/
theorem encode_decodes (e : Enc) (pix : Array UInt8) (plen width height stride : Nat) (depth colorType : UInt8)
    (hsz : e.buf.size = 65536) (hoob : e.oob = false) (hlen : pix.size < 9223372036854775808)
    (hple : plen ≤ pix.size) (hw : 0 < width) (hw2 : width ≤ 0xFFFFFF) (hh : 0 < height) (hh2 : height ≤ 0xFFFFFF)
    (hd : depth = 8 ∨ depth = 16) (hc : colorType = 1 ∨ colorType = 2 ∨ colorType = 3)
    (hpix : (height - 1) * stride + (loopParams depth colorType).2 * width ≤ plen) :
    (encode e (Writer.new none) pix plen width height stride depth colorType).status = .ok ∧
    (encode e (Writer.new none) pix plen width height stride depth colorType).e.buf.size = 65536 ∧
    (encode e (Writer.new none) pix plen width height stride depth colorType).e.oob = false ∧
    Spec.decode (out (encode e (Writer.new none) pix plen width height stride depth colorType).w)
      = some ⟨width, height, depth.toNat, (pngFileFormatEncoding colorType).toNat,
          imageBytes pix (loopParams depth colorType).1 (loopParams depth colorType).2 width stride height 0⟩ := by
  obtain ⟨ch, hch, hn, hnk, hn64⟩ := loopParams_cases depth colorType hd hc
  generalize hnn : (loopParams depth colorType).1 = n at *
  generalize hkk : (loopParams depth colorType).2 = k at *
  have hvalid : ¬ ((width : Int) < 0 ∨ (height : Int) < 0 ∨ (depth ≠ 8 ∧ depth ≠ 16) ∨
      pngFileFormatEncoding colorType = 0xFF) := by
    rcases hd with rfl | rfl <;> rcases hc with rfl | rfl | rfl <;> simp [pngFileFormatEncoding] <;> omega
  have hsize : ¬ ((width : Int) > 0xFFFFFF ∨ (height : Int) > 0xFFFFFF) := by omega
  unfold encode
  simp only [hvalid, hsize, ↓reduceIte, Int.toNat_natCast, hnn, hkk]
  obtain ⟨i1, i2, i3, i4, i5, i6⟩ := init_spec e width height depth colorType hsz
  generalize init e width height depth colorType = e0 at *
  have hinv0 : Inv (header width height depth colorType) e0 (Writer.new none) eiFirst [] := by
    refine ⟨i1, by rw [i2, hoob], rfl, by decide, [], by simp, rfl, by simpa [Adler.update] using i6, ?_, by simp⟩
    intro _
    exact ⟨i3, i4, i5, by decide, by rw [slice_of_le _ _ _ (by decide)]⟩
  have hrows : ∀ y', 0 ≤ y' → y' < 0 + height → y' * stride + k * width ≤ plen := by
    intro y' _ h2
    have : y' * stride ≤ (height - 1) * stride := Nat.mul_le_mul_right _ (by omega)
    omega
  obtain ⟨l1, l2⟩ := rowLoop_inv (header width height depth colorType) pix plen n k width stride hn64 hnk height 0
    e0 (Writer.new none) eiFirst [] hinv0 hlen hple hrows
  generalize rowLoop pix plen width (stride : Int) n k height 0 ⟨e0, Writer.new none, eiFirst, true⟩ = s at *
  simp only [l1, ↓reduceIte, List.nil_append] at l2 ⊢
  obtain ⟨hsz', hoob', hw', hej', bs, hlen, hout, hA, hnil, hcons⟩ := l2
  obtain ⟨sa, sb⟩ := Adler.update_lt Adler.init bs.flatten (by decide) (by decide)
  -- the final flush
  have hfin : ∃ pend : List UInt8, pend.length < 65536 ∧
      bs.flatten ++ pend = scanlines pix n k width stride height 0 ∧
      (flush s.e s.w s.ej true).ok = true ∧ (flush s.e s.w s.ej true).e.buf.size = 65536 ∧
      (flush s.e s.w s.ej true).e.oob = false ∧
      out (flush s.e s.w s.ej true).w = header width height depth colorType
        ++ (Spec.payloads bs pend (Adler.init.update (bs.flatten ++ pend))).flatMap idatChunk ++ iendChunk := by
    by_cases hb : bs = []
    · obtain ⟨g1, g2, g3, g4, g5⟩ := hnil hb
      obtain ⟨k1, k2, k3, k4, k5, k6, _, k8⟩ := flush_first s.e s.w s.ej true _ _ hsz' hoob' hw' g1 g2 g3 g4 hej' hA sa sb
      refine ⟨slice s.e.buf 0x30 s.ej, by rw [length_slice _ _ _ (by omega)]; omega, by rw [hb, ← g5]; rfl, k1, k3, k4, ?_⟩
      rw [k8 rfl, hout, ← rendered_payloads]
      subst hb
      simp [rendered, Adler.update]
    · obtain ⟨g1, g2, g3⟩ := hcons hb
      obtain ⟨k1, k2, k3, k4, k5, k6, _, k8⟩ := flush_later s.e s.w s.ej true _ hsz' hoob' hw' g1 g2 hej' hA sa sb
      refine ⟨slice s.e.buf 0xD s.ej, by rw [length_slice _ _ _ (by omega)]; omega, g3.symm, k1, k3, k4, ?_⟩
      rw [k8 rfl, hout, ← rendered_payloads]
      simp [hb, Adler.update_append, List.append_assoc]
  obtain ⟨pend, hp, hD, f1, f2, f3, f4⟩ := hfin
  refine ⟨by simp [f1, f3], f2, f3, ?_⟩
  rw [f4]
  have hunf := Spec.unfilter_scanlines pix n k width stride hnk height 0 #[] (fun y' h1 h2 => Nat.le_trans (hrows y' h1 h2) hple)
  rw [← hD] at hunf
  cases hux : Spec.unfilter (width * n) height (bs.flatten ++ pend) #[] with
  | none => rw [hux] at hunf; simp at hunf
  | some px =>
    rw [hux] at hunf
    simp only [Option.map_some, Option.some.injEq, List.nil_append, Array.toList_empty] at hunf
    have hrb : width * n = width * ch * (depth.toNat / 8) := by rw [hn, Nat.mul_assoc]
    rw [hrb] at hux
    rw [Spec.decode_stream width height depth colorType ch bs pend px hw (by omega) hh (by omega) hd hch hlen hp hux, hunf]

end WuffsVerif.Png.Uncomp
