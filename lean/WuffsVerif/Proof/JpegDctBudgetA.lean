/-
C18: kernel evaluation of the IDCT∘FDCT error budget (`Proof/JpegDctBudget.lean`) for the pixels
0..15.  Depends on the regenerated tables `cosines`, `fixedPointHalf`, `fixedPointInv2Sqrt2`: any
change of them in /repo that pushes the budget over 4.25·10^24 makes this file fail to build.
-/
import WuffsVerif.Proof.JpegDctBudget

namespace WuffsVerif.Jpeg.DctB

set_option maxRecDepth 1000000 in
theorem budget_ok_A : (List.range' 0 16).all budgetOK = true := by decide +kernel

end WuffsVerif.Jpeg.DctB
