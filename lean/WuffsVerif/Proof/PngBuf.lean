/-
Buffer-level facts for `Model/Png/Uncomp.lean`: `Enc.set`, `Enc.blit`, `copyN`, `be32`.
-/
import WuffsVerif.Model.Png.Uncomp
import WuffsVerif.Proof.HashBuf

namespace WuffsVerif.Png.Uncomp
open WuffsVerif.Hash

/-- a non-negative value below 2^63 is what a Go `int` holds: no wrap-around -/
theorem wrapInt64_natCast (n : Nat) (h : n < 9223372036854775808) : wrapInt64 (n : Int) = (n : Int) := by
  unfold wrapInt64; omega

theorem Enc.set_size (e : Enc) (i : Nat) (v : UInt8) : (e.set i v).buf.size = e.buf.size := by
  unfold Enc.set; split <;> simp

theorem Enc.set_oob (e : Enc) (i : Nat) (v : UInt8) (h : i < e.buf.size) : (e.set i v).oob = e.oob := by
  unfold Enc.set; simp [h]

theorem Enc.rd_set (e : Enc) (i j : Nat) (v : UInt8) (h : i < e.buf.size) :
    rd (e.set i v).buf j = if j = i then v else rd e.buf j := by
  unfold Enc.set
  simp only [h, ↓reduceIte, rd, Array.getD_eq_getD_getElem?, Array.set!_eq_setIfInBounds,
    Array.getElem?_setIfInBounds]
  by_cases hj : j = i
  · subst hj; simp
  · have : ¬ i = j := fun h => hj h.symm
    simp [hj, this]

theorem Enc.blit_size (e : Enc) (i : Nat) (l : List UInt8) : (e.blit i l).buf.size = e.buf.size := by
  induction l generalizing e i with
  | nil => rfl
  | cons v l ih => rw [Enc.blit, ih, Enc.set_size]

theorem Enc.blit_oob (e : Enc) (i : Nat) (l : List UInt8) (h : i + l.length ≤ e.buf.size) :
    (e.blit i l).oob = e.oob := by
  induction l generalizing e i with
  | nil => rfl
  | cons v l ih =>
    simp only [List.length_cons] at h
    rw [Enc.blit, ih _ _ (by rw [Enc.set_size]; omega), Enc.set_oob _ _ _ (by omega)]

theorem Enc.rd_blit (e : Enc) (i j : Nat) (l : List UInt8) (h : i + l.length ≤ e.buf.size) :
    rd (e.blit i l).buf j = if i ≤ j ∧ j < i + l.length then l.getD (j - i) 0 else rd e.buf j := by
  induction l generalizing e i with
  | nil =>
    have : ¬ (i ≤ j ∧ j < i + ([] : List UInt8).length) := by simp
    simp only [Enc.blit, this, ↓reduceIte]
  | cons v l ih =>
    simp only [List.length_cons] at h
    rw [Enc.blit, ih _ _ (by rw [Enc.set_size]; omega), Enc.rd_set _ _ _ _ (by omega)]
    by_cases h1 : j = i
    · subst h1
      have : ¬ (j + 1 ≤ j ∧ j < j + 1 + l.length) := by omega
      simp [this]
    · by_cases h2 : i + 1 ≤ j ∧ j < i + 1 + l.length
      · have h3 : i ≤ j ∧ j < i + (l.length + 1) := by omega
        have h4 : j - i = (j - (i + 1)) + 1 := by omega
        simp only [h2, h3, and_self, ↓reduceIte, List.length_cons]
        rw [h4, List.getD_cons_succ]
      · have h3 : ¬ (i ≤ j ∧ j < i + (l.length + 1)) := by omega
        simp [h1, h2, h3]

/-- a blit leaves slices that do not meet it alone -/
theorem slice_blit_disj (e : Enc) (i : Nat) (l : List UInt8) (a b : Nat) (h : i + l.length ≤ e.buf.size)
    (hb : b ≤ e.buf.size) (hd : b ≤ i ∨ i + l.length ≤ a) :
    slice (e.blit i l).buf a b = slice e.buf a b := by
  apply slice_congr _ _ _ _ (by rw [Enc.blit_size]; exact hb) hb
  intro j h1 h2
  rw [Enc.rd_blit _ _ _ _ h]
  have : ¬ (i ≤ j ∧ j < i + l.length) := by omega
  simp [this]

/-- the slice a blit has just written -/
theorem slice_blit_same (e : Enc) (i : Nat) (l : List UInt8) (h : i + l.length ≤ e.buf.size) :
    slice (e.blit i l).buf i (i + l.length) = l := by
  apply List.ext_getElem
  · rw [length_slice _ _ _ (by rw [Enc.blit_size]; exact h)]; omega
  · intro k h1 h2
    rw [getElem_slice _ _ _ _ (by rw [Enc.blit_size]; exact h), Enc.rd_blit _ _ _ _ h]
    have : i ≤ i + k ∧ i + k < i + l.length := by omega
    simp only [this, and_self, ↓reduceIte]
    have e1 : i + k - i = k := by omega
    rw [e1]
    simp [List.getD, h2]

theorem slice_blit_sub (e : Enc) (i : Nat) (l : List UInt8) (a b : Nat) (h : i + l.length ≤ e.buf.size)
    (hia : i ≤ a) (hab : a ≤ b) (hb : b ≤ i + l.length) :
    slice (e.blit i l).buf a b = (l.drop (a - i)).take (b - a) := by
  apply List.ext_getElem
  · rw [length_slice _ _ _ (by rw [Enc.blit_size]; omega)]
    simp only [List.length_take, List.length_drop]
    omega
  · intro k h1 h2
    rw [getElem_slice _ _ _ _ (by rw [Enc.blit_size]; omega), Enc.rd_blit _ _ _ _ h]
    rw [length_slice _ _ _ (by rw [Enc.blit_size]; omega)] at h1
    have : i ≤ a + k ∧ a + k < i + l.length := by omega
    simp only [this, and_self, ↓reduceIte, List.getElem_take, List.getElem_drop]
    have hk : a + k - i < l.length := by omega
    simp only [List.getD, List.getElem?_eq_getElem hk, Option.getD_some]
    congr 1
    omega

theorem Enc.blit_append (e : Enc) (i : Nat) (l1 l2 : List UInt8) :
    e.blit i (l1 ++ l2) = (e.blit i l1).blit (i + l1.length) l2 := by
  induction l1 generalizing e i with
  | nil => rfl
  | cons v l ih =>
    simp only [List.cons_append, Enc.blit, ih, List.length_cons]
    congr 1
    omega

/-- `copyN` is a blit of the source bytes -/
theorem copyN_eq_blit (pix : Array UInt8) (n off ej : Nat) (e : Enc) :
    copyN pix n off ej e = e.blit ej ((List.range' off n).map (rd pix)) := by
  induction n generalizing off ej e with
  | zero => rfl
  | succ n ih =>
    rw [copyN, ih]
    simp [List.range'_succ, Enc.blit]

theorem slice_eq_map_range' (buf : Array UInt8) (s n : Nat) (h : s + n ≤ buf.size) :
    slice buf s (s + n) = (List.range' s n).map (rd buf) := by
  apply List.ext_getElem
  · rw [length_slice _ _ _ h]; simp
  · intro k h1 h2
    rw [getElem_slice _ _ _ _ h]
    simp

theorem copyN_eq_blit_slice (pix : Array UInt8) (n off ej : Nat) (e : Enc) (h : off + n ≤ pix.size) :
    copyN pix n off ej e = e.blit ej (slice pix off (off + n)) := by
  rw [copyN_eq_blit, slice_eq_map_range' _ _ _ h]

end WuffsVerif.Png.Uncomp
