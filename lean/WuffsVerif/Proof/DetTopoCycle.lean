/-
C20 helper: the model of lang/ast/sort.go never runs out of fuel, and reports
"cycle" (`none`) only when the resolved dependency graph has one.
Core Lean only.
-/
import WuffsVerif.Proof.DetTopo

namespace WuffsVerif.Det
open List

/-- struct `i` has a field whose type resolves to struct `d` -/
def Edge (ns : Array StructDecl) (b : Key → Option Nat) (i d : Nat) : Prop := d ∈ depsOf ns b i

inductive Reach (ns : Array StructDecl) (b : Key → Option Nat) : Nat → Nat → Prop
  | refl (i : Nat) : Reach ns b i i
  | step {i d t : Nat} : Edge ns b i d → Reach ns b d t → Reach ns b i t

/-- `t` lies on a cycle of the dependency graph -/
def OnCycle (ns : Array StructDecl) (b : Key → Option Nat) (t : Nat) : Prop := ∃ d, Edge ns b t d ∧ Reach ns b d t

/-- number of nodes currently marked temporary (= depth of the search) -/
def tempCount (n : Nat) (marks : Array Mark) : Nat :=
  (List.range n).countP (fun i => markOf marks i == .temporary)

theorem countP_update {α : Type} [DecidableEq α] (p p' : α → Bool) (k : α) :
    ∀ (l : List α), l.Nodup → k ∈ l → p k = false → p' k = true → (∀ a, a ≠ k → p' a = p a) →
      l.countP p' = l.countP p + 1
  | [], _, hk, _, _, _ => by simp at hk
  | x :: xs, hn, hk, h1, h2, h3 => by
    have hn' := nodup_cons.mp hn
    by_cases hx : x = k
    · subst hx
      have : xs.countP p' = xs.countP p := by
        apply countP_congr
        intro a ha
        have : a ≠ x := fun e => hn'.1 (e ▸ ha)
        rw [h3 a this]
      simp [countP_cons, h1, h2, this]
    · have hk' : k ∈ xs := by
        rcases mem_cons.mp hk with e | e
        · exact absurd e.symm hx
        · exact e
      have ih := countP_update p p' k xs hn'.2 hk' h1 h2 h3
      simp only [countP_cons, h3 x hx, ih]
      omega

theorem countP_lt_of_exists {α : Type} (p : α → Bool) : ∀ (l : List α) (a : α), a ∈ l → p a = false → l.countP p < l.length
  | [], _, h, _ => by simp at h
  | x :: xs, a, h, hp => by
    rcases mem_cons.mp h with rfl | h'
    · have := countP_le_length (p := p) (l := xs)
      simp only [countP_cons, hp, length_cons]
      simp
      omega
    · have := countP_lt_of_exists p xs a h' hp
      simp only [countP_cons, length_cons]
      split <;> omega

theorem tempCount_set (n : Nat) (marks : Array Mark) (k : Nat) (hk : k < n) (hsz : k < marks.size)
    (hm : markOf marks k ≠ .temporary) :
    tempCount n (marks.setIfInBounds k .temporary) = tempCount n marks + 1 := by
  unfold tempCount
  apply countP_update _ _ k _ (nodup_range) (mem_range.mpr hk)
  · simpa using hm
  · simp [markOf_set_self marks k _ hsz]
  · intro a ha
    rw [markOf_set_ne marks k a _ (Ne.symm ha)]

theorem tempCount_congr (n : Nat) (m1 m2 : Array Mark) (h : ∀ i, markOf m1 i = .temporary ↔ markOf m2 i = .temporary) :
    tempCount n m1 = tempCount n m2 := by
  unfold tempCount
  apply countP_congr
  intro a _
  have := h a
  simp only [beq_iff_eq]
  exact this

theorem tempCount_lt (n : Nat) (marks : Array Mark) (k : Nat) (hk : k < n) (hm : markOf marks k ≠ .temporary) :
    tempCount n marks < n := by
  have := countP_lt_of_exists (fun i => markOf marks i == .temporary) (List.range n) k (mem_range.mpr hk) (by simpa using hm)
  simpa [tempCount] using this

/-- why a search from `k` in state `st` fails: it can reach a node that is on the
current path (temporary) or on a cycle -/
def Blocked (ns : Array StructDecl) (b : Key → Option Nat) (st : TSt) (k : Nat) : Prop :=
  ∃ t, Reach ns b k t ∧ (markOf st.2 t = .temporary ∨ OnCycle ns b t)

/-- a failing loop over fields: some field's target fails, in a state that has the same
temporaries and still satisfies the invariant -/
theorem visitFields_none (ns : Array StructDecl) (b : Key → Option Nat) (hb : ∀ q d, b q = some d → d < ns.size) (fuel : Nat) :
    ∀ (fields : List Key) (st : TSt), TInv ns b st → visitFields ns b fuel fields st = none →
      ∃ x o stj, x ∈ fields ∧ b x = some o ∧ TInv ns b stj ∧
        (∀ i, markOf stj.2 i = .temporary ↔ markOf st.2 i = .temporary) ∧ tssVisit ns b fuel stj o = none
  | [], st, _, h => by simp [visitFields] at h
  | x :: xs, st, hi, h => by
    rw [visitFields_cons] at h
    cases hbx : b x with
    | none =>
      rw [hbx] at h
      obtain ⟨y, o, stj, hy, r⟩ := visitFields_none ns b hb fuel xs st hi h
      exact ⟨y, o, stj, mem_cons_of_mem _ hy, r⟩
    | some o =>
      rw [hbx] at h
      simp only [] at h
      cases ht : tssVisit ns b fuel st o with
      | none => exact ⟨x, o, st, by simp, hbx, hi, fun _ => Iff.rfl, ht⟩
      | some st1 =>
        rw [ht] at h
        simp only [] at h
        have p1 := tssVisit_spec ns b hb fuel st o st1 hi (hb x o hbx) ht
        obtain ⟨y, o', stj, hy, hby, hij, htj, hnone⟩ := visitFields_none ns b hb fuel xs st1 p1.inv h
        exact ⟨y, o', stj, mem_cons_of_mem _ hy, hby, hij, fun i => (htj i).trans (p1.temp i), hnone⟩

/-- **Fuel adequacy and the cause of failure.**  With fuel above the number of nodes
that are not on the current path, a failing visit is blocked by a temporary node
or a cycle — it never fails for lack of fuel. -/
theorem tssVisit_none (ns : Array StructDecl) (b : Key → Option Nat) (hb : ∀ q d, b q = some d → d < ns.size) :
    ∀ (fuel : Nat) (st : TSt) (k : Nat), TInv ns b st → k < ns.size →
      ns.size - tempCount ns.size st.2 + 1 ≤ fuel → tssVisit ns b fuel st k = none → Blocked ns b st k
  | 0, _, _, _, _, hf, _ => by omega
  | fuel + 1, (dst, marks), k, hi, hk, hf, h => by
    rw [tssVisit_succ] at h
    have hksz : k < marks.size := by have := hi.size; simp only at this; omega
    cases hm : markOf marks k with
    | temporary => exact ⟨k, Reach.refl k, Or.inl hm⟩
    | permanent => rw [hm] at h; cases h
    | unmarked =>
      rw [hm] at h
      simp only [] at h
      have hknot : k ∉ dst := fun hmem => by
        have := (hi.perm k).mpr hmem
        simp only at this
        rw [hm] at this
        cases this
      have hi1 : TInv ns b (dst, marks.setIfInBounds k .temporary) := by
        refine ⟨by simpa [Array.size_setIfInBounds] using hi.size, ?_, hi.nodup, hi.bound, hi.closed⟩
        intro i
        simp only
        by_cases hik : k = i
        · subst hik
          rw [markOf_set_self marks k _ hksz]
          constructor
          · intro h'; cases h'
          · intro h'; exact absurd h' hknot
        · rw [markOf_set_ne marks k i _ hik]
          exact hi.perm i
      cases hv : visitFields ns b fuel ((ns[k]?.map (·.fieldTypes)).getD []) (dst, marks.setIfInBounds k .temporary) with
      | some st2 => obtain ⟨d2, m2⟩ := st2; rw [hv] at h; cases h
      | none =>
        obtain ⟨x, o, stj, hx, hbx, hij, htj, hnone⟩ := visitFields_none ns b hb fuel _ _ hi1 hv
        have hnt : markOf marks k ≠ .temporary := by rw [hm]; intro h'; cases h'
        have hedge : Edge ns b k o := by
          unfold Edge depsOf
          exact mem_filterMap.mpr ⟨x, hx, hbx⟩
        -- fuel for the inner call: one more temporary than before
        have hcount : tempCount ns.size stj.2 = tempCount ns.size marks + 1 := by
          rw [tempCount_congr ns.size stj.2 (marks.setIfInBounds k .temporary) (fun i => by simpa using htj i)]
          exact tempCount_set ns.size marks k hk hksz hnt
        have hlt := tempCount_lt ns.size marks k hk hnt
        simp only at hf
        have hf' : ns.size - tempCount ns.size stj.2 + 1 ≤ fuel := by omega
        obtain ⟨t, hrt, hcase⟩ := tssVisit_none ns b hb fuel stj o hij (hb x o hbx) hf' hnone
        rcases hcase with htemp | hcyc
        · have h1 := (htj t).mp htemp
          simp only at h1
          by_cases hkt : k = t
          · subst hkt
            exact ⟨k, Reach.refl k, Or.inr ⟨o, hedge, hrt⟩⟩
          · rw [markOf_set_ne marks k t _ hkt] at h1
            exact ⟨t, Reach.step hedge hrt, Or.inl h1⟩
        · exact ⟨t, Reach.step hedge hrt, Or.inr hcyc⟩

theorem topLoop_none (ns : Array StructDecl) (b : Key → Option Nat) (hb : ∀ q d, b q = some d → d < ns.size) (fuel : Nat)
    (hfuel : ns.size + 1 ≤ fuel) :
    ∀ (l : List Nat) (st : TSt), (∀ i ∈ l, i < ns.size) → TInv ns b st → (∀ i, markOf st.2 i ≠ .temporary) →
      topLoop ns b fuel l st = none → ∃ t, OnCycle ns b t
  | [], st, _, _, _, h => by simp [topLoop] at h
  | x :: xs, st, hl, hi, hnt, h => by
    rw [topLoop_cons] at h
    have hx : x < ns.size := hl x (by simp)
    have hl' : ∀ i ∈ xs, i < ns.size := fun i hi' => hl i (by simp [hi'])
    by_cases hm : markOf st.2 x = .unmarked
    · simp only [hm, if_true] at h
      cases ht : tssVisit ns b fuel st x with
      | none =>
        have hf : ns.size - tempCount ns.size st.2 + 1 ≤ fuel := by omega
        obtain ⟨t, _, hcase⟩ := tssVisit_none ns b hb fuel st x hi hx hf ht
        rcases hcase with htemp | hcyc
        · exact absurd htemp (hnt t)
        · exact ⟨t, hcyc⟩
      | some st1 =>
        rw [ht] at h
        simp only [] at h
        have p := tssVisit_spec ns b hb fuel st x st1 hi hx ht
        have hnt1 : ∀ i, markOf st1.2 i ≠ .temporary := fun i h' => hnt i ((p.temp i).mp h')
        exact topLoop_none ns b hb fuel hfuel xs st1 hl' p.inv hnt1 h
    · simp only [hm, if_false] at h
      exact topLoop_none ns b hb fuel hfuel xs st hl' hi hnt h

end WuffsVerif.Det
