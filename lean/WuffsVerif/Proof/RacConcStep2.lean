/-
C14 helper: every transition of Model/Rac/Conc.lean preserves `CInv`.
Part 2: Worker-local steps and the steps of `main` inside Read.
-/
import WuffsVerif.Proof.RacConcStep

set_option linter.unusedVariables false
set_option linter.unusedSimpArgs false

namespace WuffsVerif.Rac.Conc

theorem countP_set_same_pc {ws : List W} {i : Nat} {w w' : W} (hi : ws[i]? = some w) (hpc : w'.pc = w.pc) :
    (ws.set i w').countP (fun w => w.pc.isStopped) = ws.countP (fun w => w.pc.isStopped) := by
  have := countP_set' (w' := w') (fun w => w.pc.isStopped) hi
  simp only [hpc] at this
  omega

/-- in which phases can a running Worker be busy, or find something in `reqc` -/
theorem w_busy_phase {s : St} (ph : PhaseInv s) (fr : s.seenRead = false → allQuiet s)
    {i : Nat} {w : W} (hi : s.ws[i]? = some w) (hrun : w.pc = .run) (hbusy : ¬ w.quiet ∨ s.reqc ≠ []) :
    s.seenRead = true ∧ (s.main = .idle ∨ s.main = .reading ∨ ∃ k keep, s.main = .stopping k keep) := by
  have hseen : s.seenRead = true := by
    cases hsr : s.seenRead with
    | true => rfl
    | false =>
      have := fr hsr
      rcases hbusy with hb | hb
      · exact absurd (this.2.1 i w hi) hb
      · exact absurd this.2.2.1 hb
  refine ⟨hseen, ?_⟩
  unfold PhaseInv at ph
  split at ph
  · left; assumption
  · right; left; assumption
  · have := ph.2.2.1
    rcases hbusy with hb | hb
    · exact absurd (this.2.1 i w hi) hb
    · exact absurd this.2.2.1 hb
  · right; right; exact ⟨_, _, by assumption⟩
  · next k keep hm =>
    obtain ⟨_, _, _, p4⟩ := ph
    cases keep with
    | true =>
      simp only [↓reduceIte] at p4
      rcases hbusy with hb | hb
      · rcases p4.2.1 i w hi with h | h
        · rw [hrun] at h; cases h
        · exact absurd h.2 hb
      · exact absurd p4.2.2.1 hb
    | false =>
      simp only [Bool.false_eq_true, ↓reduceIte] at p4
      rcases p4.2 i w hi with h | h <;> (rw [hrun] at h; cases h)
  · have := ph.2 i w hi
    rw [hrun] at this; cases this

/-- a step that changes only Worker-local variables (not its pc) and the channels, in a
    phase where Workers may be busy, keeps the phase invariant -/
theorem phase_w_local {s : St} (ph : PhaseInv s) {i : Nat} {w : W} (w' : W) (rq rs : List Item)
    (hi : s.ws[i]? = some w) (hpc : w'.pc = w.pc)
    (hphase : s.main = .idle ∨ s.main = .reading ∨ ∃ k keep, s.main = .stopping k keep) :
    PhaseInv { s with ws := s.ws.set i w', reqc := rq, resc := rs } := by
  rcases hphase with hm | hm | ⟨k, keep, hm⟩
  · simp only [PhaseInv, hm] at ph ⊢
    exact ⟨ph.1, forall_set ph.2 (by rw [hpc]; exact ph.2 i w hi)⟩
  · simp only [PhaseInv, hm] at ph ⊢
    exact ⟨ph.1, forall_set ph.2 (by rw [hpc]; exact ph.2 i w hi)⟩
  · simp only [PhaseInv, hm, stoppedCount, List.length_set] at ph ⊢
    rw [countP_set_same_pc hi hpc]
    exact ⟨ph.1, ph.2.1, ph.2.2.1, ph.2.2.2.1, forall_set ph.2.2.2.2 (by rw [hpc]; exact ph.2.2.2.2 i w hi)⟩

theorem inv_wRecv {s s' : St} (i : Nat) (h : CInv s) (hs : step s (.wRecv i) = some s') : CInv s' := by
  obtain ⟨rep, e1, e2, e3, e4, e5, e6, e7, buf, fr, ph⟩ := h
  simp only [step] at hs
  split at hs
  · next w it rest hi hq =>
    split at hs
    · next hg =>
      obtain ⟨hrun, hout, hdr⟩ := hg
      obtain ⟨hseen, hphase⟩ := w_busy_phase ph fr hi hrun (Or.inr (by rw [hq]; simp))
      cases hs
      constructor <;> first | assumption | skip
      · intro x hx; exact e1 x (by rw [hq]; exact List.mem_cons_of_mem _ hx)
      · refine forall_set e7 ⟨?_, ?_⟩
        · intro x hx; exact (e7 i w hi).1 x hx
        · intro e he; simp only [Option.some.injEq] at he; subst he; exact e1 it (by rw [hq]; simp)
      · exact forall_set buf (buf i w hi)
      · intro h; rw [hseen] at h; cases h
      · exact phase_w_local ph _ _ s.resc hi rfl hphase
    · cases hs
  · cases hs

theorem inv_wMake {s s' : St} (i : Nat) (b : Bool) (h : CInv s) (hs : step s (.wMake i b) = some s') : CInv s' := by
  obtain ⟨rep, e1, e2, e3, e4, e5, e6, e7, buf, fr, ph⟩ := h
  simp only [step] at hs
  split at hs
  · next w hi =>
    split at hs
    · next e hdr =>
      split at hs
      · next hg =>
        obtain ⟨hrun, hout⟩ := hg
        have hnq : ¬ w.quiet := by intro hq; rw [hq.2] at hdr; cases hdr
        obtain ⟨hseen, hphase⟩ := w_busy_phase ph fr hi hrun (Or.inl hnq)
        have hb := buf i w hi
        have he := (e7 i w hi).2 e hdr
        simp only [hout, outIs] at hb
        split at hs
        · next hheld =>
          cases hs
          constructor <;> first | assumption | skip
          · refine forall_set e7 ⟨?_, ?_⟩
            · intro x hx; simp only [Option.some.injEq] at hx; subst hx; exact ⟨he, rfl⟩
            · intro e' he'; cases b <;> simp at he' <;> (subst he'; exact he)
          · refine forall_set buf ?_
            simp only [outIs]; omega
          · intro h; rw [hseen] at h; cases h
          · exact phase_w_local ph _ s.reqc s.resc hi rfl hphase
        · split at hs
          · next hca =>
            cases hs
            constructor <;> first | assumption | skip
            · refine forall_set e7 ⟨?_, ?_⟩
              · intro x hx; simp only [Option.some.injEq] at hx; subst hx; exact ⟨he, rfl⟩
              · intro e' he'; cases b <;> simp at he' <;> (subst he'; exact he)
            · refine forall_set buf ?_
              simp only [outIs]; omega
            · intro h; rw [hseen] at h; cases h
            · exact phase_w_local ph _ s.reqc s.resc hi rfl hphase
          · cases hs
      · cases hs
    · cases hs
  · cases hs

theorem ownerIs_some (i : Nat) (it : Item) : ownerIs i (some it) = if it.owner = some i then 1 else 0 := by
  simp [ownerIs]

theorem ownerIs_none (i : Nat) : ownerIs i none = 0 := rfl

theorem buf_other {s : St} {j : Nat} {w : W} {it : Item} {i : Nat} (hne : it.owner = some i) (hji : i ≠ j) :
    (if it.owner = some j then 1 else 0) = 0 := by
  rw [hne]; simp [hji]

theorem inv_wSend {s s' : St} (i : Nat) (h : CInv s) (hs : step s (.wSend i) = some s') : CInv s' := by
  obtain ⟨rep, e1, e2, e3, e4, e5, e6, e7, buf, fr, ph⟩ := h
  simp only [step] at hs
  split at hs
  · next w hi =>
    split at hs
    · next it hout =>
      split at hs
      · next hg =>
        obtain ⟨hrun, hlen⟩ := hg
        have hnq : ¬ w.quiet := by intro hq; rw [hq.1] at hout; cases hout
        obtain ⟨hseen, hphase⟩ := w_busy_phase ph fr hi hrun (Or.inl hnq)
        obtain ⟨hep, hown⟩ := (e7 i w hi).1 it hout
        cases hs
        constructor <;> first | assumption | skip
        · intro x hx
          rw [List.mem_append] at hx
          rcases hx with hx | hx
          · exact e2 x hx
          · simp only [List.mem_singleton] at hx; subst hx; exact hep
        · refine forall_set e7 ⟨?_, ?_⟩
          · intro x hx; cases hx
          · exact (e7 i w hi).2
        · intro j wj hj
          rw [List.getElem?_set] at hj
          simp only [countOwner_append]
          split at hj
          · next hij =>
            split at hj
            · cases hj
              subst hij
              have := buf i w hi
              simp only [hout, outIs, hown] at this ⊢
              simp only [↓reduceIte]
              omega
            · cases hj
          · next hij =>
            have := buf j wj hj
            rw [hown]
            simp only [Option.some.injEq, hij, ↓reduceIte]
            omega
        · intro h; rw [hseen] at h; cases h
        · exact phase_w_local ph _ s.reqc _ hi rfl hphase
      · cases hs
    · cases hs
  · cases hs

/-- changing only `held`/`recyc`/`canAlloc` of a Worker keeps the phase invariant in every phase -/
theorem phase_w_buffers {s : St} (ph : PhaseInv s) {i : Nat} {w : W} (w' : W) (c : Option Item)
    (hi : s.ws[i]? = some w) (hpc : w'.pc = w.pc) (hout : w'.out = w.out) (hdr : w'.dr = w.dr)
    (hc : s.curr = none → c = none) :
    PhaseInv { s with ws := s.ws.set i w', curr := c } := by
  have hq : w.quiet → w'.quiet := by intro h; exact ⟨by rw [hout]; exact h.1, by rw [hdr]; exact h.2⟩
  unfold PhaseInv at ph ⊢
  split at ph
  · next hm =>
    simp only [hm]
    exact ⟨ph.1, forall_set ph.2 (by rw [hpc]; exact ph.2 i w hi)⟩
  · next hm =>
    simp only [hm]
    exact ⟨ph.1, forall_set ph.2 (by rw [hpc]; exact ph.2 i w hi)⟩
  · next hm =>
    simp only [hm]
    obtain ⟨p1, p2, p3, p4⟩ := ph
    refine ⟨p1, forall_set p2 (by rw [hpc]; exact p2 i w hi), ?_, p4⟩
    obtain ⟨q1, q2, q3, q4, q5, q6⟩ := p3
    exact ⟨q1, forall_set q2 (hq (q2 i w hi)), q3, q4, q5, hc q6⟩
  · next k keep hm =>
    simp only [hm]
    simp only [stoppedCount, List.length_set] at ph ⊢
    rw [countP_set_same_pc hi hpc]
    exact ⟨ph.1, ph.2.1, ph.2.2.1, ph.2.2.2.1, forall_set ph.2.2.2.2 (by rw [hpc]; exact ph.2.2.2.2 i w hi)⟩
  · next k keep hm =>
    simp only [hm]
    simp only [stoppedCount, List.length_set] at ph ⊢
    rw [countP_set_same_pc hi hpc]
    refine ⟨ph.1, ph.2.1, ph.2.2.1, ?_⟩
    have p4 := ph.2.2.2
    cases keep with
    | true =>
      simp only [↓reduceIte] at p4 ⊢
      refine ⟨p4.1, forall_set p4.2.1 ?_, p4.2.2.1, p4.2.2.2.1, p4.2.2.2.2.1, hc p4.2.2.2.2.2⟩
      rw [hpc]
      rcases p4.2.1 i w hi with h | h
      · exact Or.inl h
      · exact Or.inr ⟨h.1, hq h.2⟩
    | false =>
      simp only [Bool.false_eq_true, ↓reduceIte] at p4 ⊢
      exact ⟨p4.1, forall_set p4.2 (by rw [hpc]; exact p4.2 i w hi)⟩
  · next hm =>
    simp only [hm]
    exact ⟨ph.1, forall_set ph.2 (by rw [hpc]; exact ph.2 i w hi)⟩

theorem fresh_w_buffers {s : St} (fr : s.seenRead = false → allQuiet s) {i : Nat} {w : W} (w' : W) (c : Option Item)
    (hi : s.ws[i]? = some w) (hout : w'.out = w.out) (hdr : w'.dr = w.dr) (hc : s.curr = none → c = none) :
    s.seenRead = false → allQuiet { s with ws := s.ws.set i w', curr := c } := by
  intro h
  obtain ⟨q1, q2, q3, q4, q5, q6⟩ := fr h
  exact ⟨q1, forall_set q2 ⟨by rw [hout]; exact (q2 i w hi).1, by rw [hdr]; exact (q2 i w hi).2⟩, q3, q4, q5, hc q6⟩

theorem inv_wRecycle {s s' : St} (i : Nat) (h : CInv s) (hs : step s (.wRecycle i) = some s') : CInv s' := by
  obtain ⟨rep, e1, e2, e3, e4, e5, e6, e7, buf, fr, ph⟩ := h
  simp only [step] at hs
  split at hs
  · next w hi =>
    split at hs
    · next hg =>
      obtain ⟨hrun, hrec⟩ := hg
      cases hs
      constructor <;> first | assumption | skip
      · exact forall_set e7 (e7 i w hi)
      · refine forall_set buf ?_
        have := buf i w hi
        simp only; omega
      · exact fresh_w_buffers fr _ s.curr hi rfl rfl (fun h => h)
      · exact phase_w_buffers ph _ s.curr hi rfl rfl rfl (fun h => h)
    · cases hs
  · cases hs

theorem inv_recvRes {s s' : St} (h : CInv s) (hs : step s .recvRes = some s') : CInv s' := by
  obtain ⟨rep, e1, e2, e3, e4, e5, e6, e7, buf, fr, ph⟩ := h
  simp only [step] at hs
  split at hs
  · next it rest hq =>
    split at hs
    · next hm =>
      cases hs
      have hseen : s.seenRead = true := by
        cases hsr : s.seenRead with
        | true => rfl
        | false => have := (fr hsr).2.2.2.1; rw [hq] at this; cases this
      constructor <;> first | assumption | skip
      · intro x hx; exact e2 x (by rw [hq]; exact List.mem_cons_of_mem _ hx)
      · intro x hx
        rw [List.mem_cons] at hx
        rcases hx with hx | hx
        · subst hx; exact e2 _ (by rw [hq]; simp)
        · exact e3 x hx
      · intro j wj hj
        have := buf j wj hj
        rw [hq, countOwner_cons] at this
        dsimp only
        rw [countOwner_cons]
        omega
      · intro h; rw [hseen] at h; cases h
      · simp only [PhaseInv, hm] at ph ⊢; exact ph
    · cases hs
  · cases hs

theorem inv_take {s s' : St} (j : Nat) (h : CInv s) (hs : step s (.take j) = some s') : CInv s' := by
  obtain ⟨rep, e1, e2, e3, e4, e5, e6, e7, buf, fr, ph⟩ := h
  simp only [step] at hs
  split at hs
  · next it hj =>
    split at hs
    · next hg =>
      obtain ⟨hm, hcurr⟩ := hg
      cases hs
      have hmem : it ∈ s.completed := List.mem_of_getElem? hj
      have hseen : s.seenRead = true := by
        cases hsr : s.seenRead with
        | true => rfl
        | false => have := (fr hsr).2.2.2.2.1; rw [this] at hmem; cases hmem
      constructor <;> first | assumption | skip
      · intro x hx; exact e3 x (List.mem_of_mem_eraseIdx hx)
      · intro x hx; simp only [Option.some.injEq] at hx; subst hx; exact e3 _ hmem
      · intro k wk hk
        have := buf k wk hk
        have he := countOwner_eraseIdx k s.completed j it hj
        rw [hcurr, ownerIs_none] at this
        dsimp only
        rw [ownerIs_some]
        omega
      · intro h; rw [hseen] at h; cases h
      · simp only [PhaseInv, hm] at ph ⊢; exact ph
    · cases hs
  · cases hs

theorem inv_recycleCurr {s s' : St} (h : CInv s) (hs : step s .recycleCurr = some s') : CInv s' := by
  obtain ⟨rep, e1, e2, e3, e4, e5, e6, e7, buf, fr, ph⟩ := h
  simp only [step] at hs
  split at hs
  · next it hcurr =>
    split at hs
    · next i hown =>
      split at hs
      · next w hi =>
        split at hs
        · next hg =>
          obtain ⟨hm, hroom⟩ := hg
          cases hs
          constructor <;> first | assumption | skip
          · intro x hx; cases hx
          · exact forall_set e7 (e7 i w hi)
          · intro k wk hk
            rw [List.getElem?_set] at hk
            split at hk
            · next hik =>
              split at hk
              · cases hk
                subst hik
                have := buf i w hi
                simp only [hcurr, ownerIs, hown, beq_self_eq_true, ↓reduceIte] at this
                simp only [ownerIs]
                omega
              · cases hk
            · next hik =>
              have := buf k wk hk
              simp only [hcurr, ownerIs, hown, beq_iff_eq, Option.some.injEq, hik, ↓reduceIte] at this
              simp only [ownerIs]
              omega
          · exact fresh_w_buffers fr _ none hi rfl rfl (fun _ => rfl)
          · exact phase_w_buffers ph _ none hi rfl rfl rfl (fun _ => rfl)
        · cases hs
      · cases hs
    · cases hs
  · cases hs

end WuffsVerif.Rac.Conc
