/-
Facts about the reference decoder `Model/Png/Spec.lean` on byte strings of the shape the encoder
produces: chunk framing, stored DEFLATE blocks, the zlib wrapper, scanline unfiltering.
-/
import WuffsVerif.Model.Png.Spec
import WuffsVerif.Proof.PngLoops

namespace WuffsVerif.Png.Spec
open WuffsVerif.Hash WuffsVerif.Png.Uncomp

theorem readBE32_be32 (n : Nat) (h : n < 2 ^ 32) : readBE32 (be32 n) = n := by
  simp only [be32, readBE32, UInt8.toNat_ofNat', Nat.shiftRight_eq_div_pow]
  omega

theorem xorFF (x : UInt8) : ((0xFF : UInt8) ^^^ x).toNat = 255 - x.toNat := by
  have h : ∀ a : Fin 256, 255 ^^^ a.val = 255 - a.val := by decide +kernel
  have := h ⟨x.toNat, x.toNat_lt⟩
  simpa using this

/-- one chunk: length, type, data, bit-serial CRC over type and data -/
def chunkBytes (typ data : List UInt8) : List UInt8 :=
  be32 data.length ++ (typ ++ (data ++ be32 (crc32Spec (typ ++ data)).toNat))

theorem hasLen_of_le (l : List UInt8) (n : Nat) (h : n ≤ l.length) : hasLen l n = true :=
  (hasLen_iff l n).mpr h

theorem parseChunks_nil : parseChunks [] = some [] := by
  rw [parseChunks]; rfl

theorem parseChunks_chunk (typ data rest : List UInt8) (ht : typ.length = 4) (hd : data.length < 2 ^ 31) :
    parseChunks (chunkBytes typ data ++ rest) = (parseChunks rest).map (⟨typ, data⟩ :: ·) := by
  rw [parseChunks]
  have hlen : (chunkBytes typ data ++ rest).length = 12 + data.length + rest.length := by
    simp [chunkBytes, length_be32, ht]; omega
  have hne : (chunkBytes typ data ++ rest).isEmpty = false := by
    simp [chunkBytes, be32]
  have h12 : hasLen (chunkBytes typ data ++ rest) 12 = true := hasLen_of_le _ _ (by omega)
  have e1 : (chunkBytes typ data ++ rest).take 4 = be32 data.length := by
    simp only [chunkBytes, List.append_assoc]
    exact List.take_left' (length_be32 _)
  have e2 : (chunkBytes typ data ++ rest).drop 4 = typ ++ (data ++ (be32 (crc32Spec (typ ++ data)).toNat ++ rest)) := by
    simp only [chunkBytes, List.append_assoc]
    exact List.drop_left' (length_be32 _)
  have e3 : (chunkBytes typ data ++ rest).drop 8 = data ++ (be32 (crc32Spec (typ ++ data)).toNat ++ rest) := by
    have : (8 : Nat) = 4 + 4 := rfl
    rw [this, ← List.drop_drop, e2]
    exact List.drop_left' ht
  have e4 : (chunkBytes typ data ++ rest).drop (8 + data.length) = be32 (crc32Spec (typ ++ data)).toNat ++ rest := by
    rw [← List.drop_drop, e3]
    exact List.drop_left' rfl
  have e5 : (chunkBytes typ data ++ rest).drop (12 + data.length) = rest := by
    have : 12 + data.length = 8 + data.length + 4 := by omega
    rw [this, ← List.drop_drop, e4]
    exact List.drop_left' (length_be32 _)
  simp only [hne, Bool.false_eq_true, ↓reduceIte, h12, Bool.not_true, e1,
    readBE32_be32 _ (by omega : data.length < 2 ^ 32)]
  have hl2 : hasLen (chunkBytes typ data ++ rest) (12 + data.length) = true := hasLen_of_le _ _ (by omega)
  have hcond : ¬ (data.length ≥ 2 ^ 31 ∨ (!hasLen (chunkBytes typ data ++ rest) (12 + data.length)) = true) := by
    rw [hl2]; simp; omega
  simp only [hcond, ↓reduceIte, e2, e3, e4, e5]
  have t1 : (typ ++ (data ++ (be32 (crc32Spec (typ ++ data)).toNat ++ rest))).take 4 = typ := List.take_left' ht
  have t2 : (data ++ (be32 (crc32Spec (typ ++ data)).toNat ++ rest)).take data.length = data := List.take_left' rfl
  have t3 : (be32 (crc32Spec (typ ++ data)).toNat ++ rest).take 4 = be32 (crc32Spec (typ ++ data)).toNat :=
    List.take_left' (length_be32 _)
  simp only [t1, t2, t3, readBE32_be32 _ (crc32Spec (typ ++ data)).toNat_lt, ne_eq, not_true_eq_false, ↓reduceIte, ↓reduceDIte]
  cases parseChunks rest <;> rfl

theorem inflateStored_block (f : Bool) (B rest : List UInt8) (h : B.length < 65536) :
    inflateStored (storedBlock f B ++ rest) =
      if f then some (B, rest) else (inflateStored rest).map (fun p => (B ++ p.1, p.2)) := by
  have hshape : storedBlock f B ++ rest = btou8 f :: UInt8.ofNat B.length :: UInt8.ofNat (B.length >>> 8) ::
      ((0xFF : UInt8) ^^^ UInt8.ofNat B.length) :: ((0xFF : UInt8) ^^^ UInt8.ofNat (B.length >>> 8)) :: (B ++ rest) := by
    simp [storedBlock, storedHdr]
  rw [hshape, inflateStored]
  have h6 : btou8 f &&& 6 = 0 := by cases f <;> decide
  have hlen : (UInt8.ofNat B.length).toNat + 256 * (UInt8.ofNat (B.length >>> 8)).toNat = B.length := by
    simp only [UInt8.toNat_ofNat', Nat.shiftRight_eq_div_pow]; omega
  have hnlen : ((0xFF : UInt8) ^^^ UInt8.ofNat B.length).toNat + 256 * ((0xFF : UInt8) ^^^ UInt8.ofNat (B.length >>> 8)).toNat
      = 65535 - B.length := by
    simp only [xorFF, UInt8.toNat_ofNat', Nat.shiftRight_eq_div_pow]; omega
  have hhas : hasLen (B ++ rest) B.length = true := hasLen_of_le _ _ (by simp)
  have hsum : ¬ (B.length + (65535 - B.length) ≠ 65535) := by omega
  have ht : (B ++ rest).take B.length = B := List.take_left' rfl
  have hd : (B ++ rest).drop B.length = rest := List.drop_left' rfl
  simp only [h6, ne_eq, not_true_eq_false, ↓reduceIte, hlen, hnlen, hsum, hhas, Bool.not_true,
    Bool.false_eq_true, ht, hd]
  cases f
  · have : ¬ (btou8 false &&& 1 = 1) := by decide
    simp only [this, ↓reduceIte, Bool.false_eq_true]
    cases inflateStored rest <;> rfl
  · have : btou8 true &&& 1 = 1 := by decide
    simp only [this, ↓reduceIte]

theorem inflateStored_blocks (bs : List (List UInt8)) (pend tail : List UInt8)
    (hbs : ∀ b ∈ bs, b.length < 65536) (hp : pend.length < 65536) :
    inflateStored ((bs.map (storedBlock false)).flatten ++ (storedBlock true pend ++ tail))
      = some (bs.flatten ++ pend, tail) := by
  induction bs with
  | nil =>
    simp only [List.map_nil, List.flatten_nil, List.nil_append]
    rw [inflateStored_block true pend tail hp]
    rfl
  | cons b bs ih =>
    simp only [List.map_cons, List.flatten_cons, List.append_assoc]
    rw [inflateStored_block false b _ (hbs b (by simp))]
    simp only [Bool.false_eq_true, ↓reduceIte]
    rw [ih (fun x hx => hbs x (by simp [hx]))]
    simp

theorem readBE32_adlerBytes (s : Adler) (ha : s.a < 65536) (hb : s.b < 65536) :
    readBE32 (adlerBytes s) = s.value := by
  simp only [adlerBytes, readBE32, UInt8.toNat_ofNat', Nat.shiftRight_eq_div_pow, Adler.value]
  omega

/-- the zlib stream the encoder builds decodes to the concatenation of its blocks -/
theorem zlibDecode_stored (bs : List (List UInt8)) (pend : List UInt8)
    (hbs : ∀ b ∈ bs, b.length < 65536) (hp : pend.length < 65536) :
    zlibDecode (zhdr ++ ((bs.map (storedBlock false)).flatten ++
        (storedBlock true pend ++ adlerBytes (Adler.init.update (bs.flatten ++ pend)))))
      = some (bs.flatten ++ pend) := by
  simp only [zhdr, List.cons_append, List.nil_append, zlibDecode]
  have hz : ¬ ((0x78 : UInt8) &&& 0x0F ≠ 8 ∨ (0x78 : UInt8) >>> 4 > 7 ∨
      ((0x78 : UInt8).toNat * 256 + (0x01 : UInt8).toNat) % 31 ≠ 0 ∨ (0x01 : UInt8) &&& 0x20 ≠ 0) := by decide
  simp only [hz, ↓reduceIte]
  rw [inflateStored_blocks bs pend _ hbs hp]
  simp only
  obtain ⟨sa, sb⟩ := Adler.update_lt Adler.init (bs.flatten ++ pend) (by decide) (by decide)
  have h4 : hasLen (adlerBytes (Adler.init.update (bs.flatten ++ pend))) 4 = true := rfl
  have h5 : hasLen (adlerBytes (Adler.init.update (bs.flatten ++ pend))) 5 = false := rfl
  rw [readBE32_adlerBytes _ (by omega) (by omega)]
  simp [h4, h5, adler32]

theorem unfilter_scanlines (pix : Array UInt8) (n k width stride : Nat) (hnk : n ≤ k) (rows y : Nat)
    (acc : Array UInt8)
    (hpix : ∀ y', y ≤ y' → y' < y + rows → y' * stride + k * width ≤ pix.size) :
    (unfilter (width * n) rows (scanlines pix n k width stride rows y) acc).map Array.toList
      = some (acc.toList ++ imageBytes pix n k width stride rows y) := by
  induction rows generalizing y acc with
  | zero => simp [unfilter, scanlines, imageBytes]
  | succ rows ih =>
    have hl := length_pixBytes pix n k width (y * stride) hnk (hpix y (by omega) (by omega))
    rw [scanlines]
    simp only [unfilter]
    have hhas : hasLen (pixBytes pix n k width (y * stride) ++ scanlines pix n k width stride rows (y + 1)) (width * n) = true :=
      hasLen_of_le _ _ (by rw [List.length_append, hl]; omega)
    have ht : (pixBytes pix n k width (y * stride) ++ scanlines pix n k width stride rows (y + 1)).take (width * n)
        = pixBytes pix n k width (y * stride) := List.take_left' hl
    have hd : (pixBytes pix n k width (y * stride) ++ scanlines pix n k width stride rows (y + 1)).drop (width * n)
        = scanlines pix n k width stride rows (y + 1) := List.drop_left' hl
    simp only [List.cons_append, hhas, and_self, ↓reduceIte, ht, hd]
    rw [ih (y + 1) _ (fun y' h1 h2 => hpix y' (by omega) (by omega))]
    simp [imageBytes, List.append_assoc]

/-- the IDAT payloads for the non-final blocks `bs` and the final block `pend` -/
def payloads (bs : List (List UInt8)) (pend : List UInt8) (A : Adler) : List (List UInt8) :=
  match bs with
  | [] => [zhdr ++ (storedBlock true pend ++ adlerBytes A)]
  | b :: bs => (zhdr ++ storedBlock false b) ::
      (bs.map (storedBlock false) ++ [storedBlock true pend ++ adlerBytes A])

theorem payloads_flatten (bs : List (List UInt8)) (pend : List UInt8) (A : Adler) :
    (payloads bs pend A).flatten
      = zhdr ++ ((bs.map (storedBlock false)).flatten ++ (storedBlock true pend ++ adlerBytes A)) := by
  cases bs <;> simp [payloads, List.append_assoc]

theorem payloads_ne_nil (bs : List (List UInt8)) (pend : List UInt8) (A : Adler) :
    payloads bs pend A ≠ [] := by
  cases bs <;> simp [payloads]

theorem payloads_length (bs : List (List UInt8)) (pend : List UInt8) (A : Adler)
    (hbs : ∀ b ∈ bs, b.length < 65536) (hp : pend.length < 65536) :
    ∀ p ∈ payloads bs pend A, p.length < 2 ^ 31 := by
  intro p hpm
  cases bs with
  | nil =>
    simp only [payloads, List.mem_singleton] at hpm
    subst hpm
    simp [zhdr, length_storedBlock, length_adlerBytes]; omega
  | cons b bs =>
    simp only [payloads, List.mem_cons, List.mem_append, List.mem_map, List.not_mem_nil, or_false] at hpm
    rcases hpm with h | ⟨x, hx, h⟩ | h
    · subst h
      have := hbs b (by simp)
      simp [zhdr, length_storedBlock]; omega
    · subst h
      have := hbs x (by simp [hx])
      simp [length_storedBlock]; omega
    · subst h
      simp [length_storedBlock, length_adlerBytes]; omega

theorem parseChunks_idats (ps : List (List UInt8)) (rest : List UInt8) (h : ∀ p ∈ ps, p.length < 2 ^ 31) :
    parseChunks (ps.flatMap (chunkBytes tIDAT) ++ rest)
      = (parseChunks rest).map (ps.map (fun p => (⟨tIDAT, p⟩ : Chunk)) ++ ·) := by
  induction ps with
  | nil => simp
  | cons p ps ih =>
    simp only [List.flatMap_cons, List.append_assoc, List.map_cons, List.cons_append]
    rw [parseChunks_chunk _ _ _ rfl (h p (by simp)), ih (fun q hq => h q (by simp [hq]))]
    cases parseChunks rest <;> rfl

theorem idatChunk_eq (p : List UInt8) : idatChunk p = chunkBytes tIDAT p := by
  simp [idatChunk, chunkBytes, List.append_assoc, tagIDAT, tIDAT]

theorem iendChunk_eq : iendChunk = chunkBytes tIEND [] := by decide +kernel

theorem header_eq (w h : Nat) (d c : UInt8) :
    header w h d c = pngSignature ++ chunkBytes tIHDR (ihdrData w h d c) := by
  have : be32 (ihdrData w h d c).length = [0, 0, 0, 0x0D] := by rw [length_ihdrData]; decide
  simp only [header, chunkBytes, this, List.append_assoc]
  rfl

theorem takeWhile_idats (ps : List (List UInt8)) :
    (ps.map (fun p => (⟨tIDAT, p⟩ : Chunk)) ++ [(⟨tIEND, []⟩ : Chunk)]).takeWhile (fun c => c.typ = tIDAT)
      = ps.map (fun p => (⟨tIDAT, p⟩ : Chunk)) ∧
    (ps.map (fun p => (⟨tIDAT, p⟩ : Chunk)) ++ [(⟨tIEND, []⟩ : Chunk)]).dropWhile (fun c => c.typ = tIDAT)
      = [(⟨tIEND, []⟩ : Chunk)] := by
  induction ps with
  | nil => constructor <;> decide
  | cons p ps ih => simp [ih.1, ih.2]

/-- The reference decoder on a stream of the encoder's shape: signature, IHDR, one IDAT per stored
block (`bs` non-final, `pend` final, Adler-32 trailer), IEND. -/
theorem decode_stream (w h : Nat) (d c : UInt8) (ch : Nat) (bs : List (List UInt8)) (pend : List UInt8)
    (px : Array UInt8)
    (hw : 0 < w) (hw2 : w < 2 ^ 31) (hh : 0 < h) (hh2 : h < 2 ^ 31) (hd : d = 8 ∨ d = 16)
    (hch : channels (pngFileFormatEncoding c).toNat = some ch)
    (hbs : ∀ b ∈ bs, b.length < 65536) (hp : pend.length < 65536)
    (hpx : unfilter (w * ch * (d.toNat / 8)) h (bs.flatten ++ pend) #[] = some px) :
    decode (header w h d c
        ++ (payloads bs pend (Adler.init.update (bs.flatten ++ pend))).flatMap idatChunk ++ iendChunk)
      = some ⟨w, h, d.toNat, (pngFileFormatEncoding c).toNat, px.toList⟩ := by
  have hfm : (payloads bs pend (Adler.init.update (bs.flatten ++ pend))).flatMap idatChunk
      = (payloads bs pend (Adler.init.update (bs.flatten ++ pend))).flatMap (chunkBytes tIDAT) := by
    have : idatChunk = chunkBytes tIDAT := funext idatChunk_eq
    rw [this]
  rw [header_eq, hfm, iendChunk_eq]
  simp only [List.append_assoc]
  unfold decode
  have hsig : (pngSignature ++ (chunkBytes tIHDR (ihdrData w h d c) ++
      ((payloads bs pend (Adler.init.update (bs.flatten ++ pend))).flatMap (chunkBytes tIDAT) ++ chunkBytes tIEND []))).take 8
      = pngSignature := List.take_left' rfl
  have hdrop : (pngSignature ++ (chunkBytes tIHDR (ihdrData w h d c) ++
      ((payloads bs pend (Adler.init.update (bs.flatten ++ pend))).flatMap (chunkBytes tIDAT) ++ chunkBytes tIEND []))).drop 8
      = chunkBytes tIHDR (ihdrData w h d c) ++
      ((payloads bs pend (Adler.init.update (bs.flatten ++ pend))).flatMap (chunkBytes tIDAT) ++ chunkBytes tIEND []) :=
    List.drop_left' rfl
  rw [hsig, hdrop]
  simp only [ne_eq, not_true_eq_false, ↓reduceIte]
  rw [parseChunks_chunk _ _ _ rfl (by rw [length_ihdrData]; omega)]
  rw [parseChunks_idats _ _ (payloads_length _ _ _ hbs hp)]
  have hiend : parseChunks (chunkBytes tIEND []) = some [⟨tIEND, []⟩] := by
    have := parseChunks_chunk tIEND [] [] rfl (by decide)
    rw [List.append_nil, parseChunks_nil] at this
    exact this
  rw [hiend]
  simp only [Option.map_some]
  have e1 : (ihdrData w h d c).take 4 = be32 w := rfl
  have e2 : ((ihdrData w h d c).drop 4).take 4 = be32 h := rfl
  have e3 : (ihdrData w h d c).drop 8 = [d, pngFileFormatEncoding c, 0, 0, 0] := rfl
  simp only [e1, e2, e3, readBE32_be32 w (by omega), readBE32_be32 h (by omega)]
  have c2 : ¬ (w = 0 ∨ h = 0 ∨ w ≥ 2 ^ 31 ∨ h ≥ 2 ^ 31) := by omega
  have c4 : ¬ (d ≠ 8 ∧ d ≠ 16) := by rcases hd with h | h <;> simp [h]
  simp only [c2, c4, ↓reduceIte, hch]
  obtain ⟨t1, t2⟩ := takeWhile_idats (payloads bs pend (Adler.init.update (bs.flatten ++ pend)))
  rw [t1, t2]
  have hdata : (List.map (fun p => ({ typ := tIDAT, data := p } : Chunk))
      (payloads bs pend (Adler.init.update (bs.flatten ++ pend)))).flatMap (·.data)
      = (payloads bs pend (Adler.init.update (bs.flatten ++ pend))).flatten := by
    simp [List.flatMap_def, List.map_map, Function.comp_def]
  rw [hdata, payloads_flatten, zlibDecode_stored bs pend hbs hp]
  have hne := payloads_ne_nil bs pend (Adler.init.update (bs.flatten ++ pend))
  simp [hpx, length_ihdrData, hne]

end WuffsVerif.Png.Spec
