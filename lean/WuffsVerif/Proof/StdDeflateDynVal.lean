/-
C07 helper, part 7, MODULE V: every symbol of each of the three calls of `init_huff` has a well-formed table value
(`ValSpec`).  Finite checks over the magic-number tables.
Core Lean only.
-/
import WuffsVerif.Proof.StdDeflateDynDefs

namespace WuffsVerif.StdDeflate
open WuffsVerif.Gen.C07

namespace V

/-- Boolean form of `ValOK` with an explicit witness -/
def valOKb (which base : Nat) (val : Nat → Nat) (v : Nat) : Bool :=
  match fillVal which base v with
  | some e => e &&& 15 == 0 && e >>> 28 != 1 && e >>> 4 == val v >>> 4
  | none => false

theorem valOK_of_b (which base : Nat) (val : Nat → Nat) (v : Nat) (h : valOKb which base val v = true) :
    ValOK which base val v := by
  unfold valOKb at h
  split at h
  · rename_i e he
    simp only [Bool.and_eq_true, beq_iff_eq, bne_iff_ne, ne_eq] at h
    exact ⟨e, he, h.1.1, h.1.2, h.2⟩
  · cases h

theorem clen_all : ∀ v, v < 19 → valOKb 0 0xFFF valCL v = true := by decide +kernel

theorem lit_all : ∀ v, v < 286 → valOKb 0 257 valL v = true := by decide +kernel

theorem dist_all : ∀ v, v < 30 → valOKb 1 0 valD v = true := by decide +kernel

end V

/-- MODULE V -/
theorem valSpec_holds : ValSpec := by
  intro which n0 n1 base val hk v hv
  cases hk with
  | clen => exact V.valOK_of_b _ _ _ _ (V.clen_all v (by omega))
  | lit nLit h1 h2 => exact V.valOK_of_b _ _ _ _ (V.lit_all v (by omega))
  | dist nLit nDist h1 h2 h3 => exact V.valOK_of_b _ _ _ _ (V.dist_all v (by omega))

end WuffsVerif.StdDeflate
