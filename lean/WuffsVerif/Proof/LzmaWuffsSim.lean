/-
C17: the literal path of the Wuffs std/lzma decoder (`Model/LzmaWuffs.lean`) decodes what
`lib/litonlylzma` encodes (`Model/Lzma.lean`): bit, byte, chunk.
-/
import WuffsVerif.Model.LzmaWuffs
import WuffsVerif.Proof.LzmaXz

namespace WuffsVerif.WLzma
open WuffsVerif.Lzma

theorem land16 (x : Nat) : x &&& 0xFFFF = x % 65536 := Nat.and_two_pow_sub_one_eq_mod x 16

/-- the Wuffs text of "decodeTheNextBym()" (wrapping u32 arithmetic, `prob & 0xFFFF`) computes what
    `prob.decodeBit` of the Go package computes, as long as the decoder state holds 32-bit values with
    `bits < range` and the probability is a valid one -/
theorem bym_eq (p : Nat) (d : RangeDecoder) (hp : p ≤ 2048) (hb : d.bits < d.width) (hw : d.width < 4294967296) :
    bym p d = decodeBit p d := by
  unfold bym decodeBit u32 probUp probDown maxProb minProb probBits adaptShift
  simp only [land32, land16, Nat.shiftRight_eq_div_pow, Nat.reducePow, Nat.sub_zero, Nat.reduceShiftLeft]
  have hthr : d.width / 2048 * p ≤ d.width := by
    calc d.width / 2048 * p ≤ d.width / 2048 * 2048 := Nat.mul_le_mul_left _ hp
      _ ≤ d.width := Nat.div_mul_le_self _ _
  have hthr2 : d.width / 2048 * p % 4294967296 = d.width / 2048 * p := Nat.mod_eq_of_lt (by omega)
  rw [hthr2]
  by_cases hlt : d.bits < d.width / 2048 * p
  · simp only [hlt, if_true]
    have e1 : (p + (2048 + 4294967296 - p) % 4294967296 / 32) % 4294967296 % 65536 = p + (2048 - p) / 32 := by
      omega
    rw [e1]
    have e2 : (d.width / 2048 * p / 16777216 = 0) ↔ (d.width / 2048 * p < 16777216) := by omega
    simp only [e2]
    rfl
  · simp only [hlt, if_false]
    have e1 : (p + 4294967296 - p / 32) % 4294967296 % 65536 = p - p / 32 := by omega
    have e3 : (d.bits + 4294967296 - d.width / 2048 * p) % 4294967296 = d.bits - d.width / 2048 * p := by omega
    have e4 : (d.width + 4294967296 - d.width / 2048 * p) % 4294967296 = d.width - d.width / 2048 * p := by omega
    rw [e1, e3, e4]
    have e2 : ((d.width - d.width / 2048 * p) / 16777216 = 0) ↔ (d.width - d.width / 2048 * p < 16777216) := by
      omega
    simp only [e2]
    rfl

/-! ## the probability tables: same entries, different strides -/

/-- the Go package's `litProbs[i][n]` (flattened with stride 256) against Wuffs's `probs_lit[i][n]`
    (stride 0x300), for the 8 literal contexts and 256 tree nodes a literal-only stream with lc = 3 uses -/
def RelLit (lp wl : Array Nat) : Prop :=
  lp.size = 2048 ∧ wl.size = 12288 ∧
  ∀ i n, i < 8 → n < 256 → wl.getD (i * 768 + n) 1024 = lp.getD (i * 256 + n) probHalf

/-- `posProbs[k]` against `probs_ao00[(0 << 4) | k]` -/
def RelPos (pp wa : Array Nat) : Prop :=
  pp.size = 4 ∧ wa.size = 192 ∧ ∀ k, k < 4 → wa.getD k 1024 = pp.getD k probHalf

theorem idx768 (i n : Nat) (hi : i < 8) (hn : n < 256) : i * 768 + n < 12288 := by omega
theorem idx256 (i n : Nat) (hi : i < 8) (hn : n < 256) : i * 256 + n < 2048 := by omega

theorem relLit_set {lp wl : Array Nat} (h : RelLit lp wl) (i n v : Nat) (hi : i < 8) (hn : n < 256) :
    RelLit (lp.setIfInBounds (i * 256 + n) v) (wl.setIfInBounds (i * 768 + n) v) := by
  have a := idx768 i n hi hn
  have b := idx256 i n hi hn
  obtain ⟨h1, h2, h3⟩ := h
  refine ⟨by simp [h1], by simp [h2], ?_⟩
  intro i' n' hi' hn'
  have := h3 i' n' hi' hn'
  simp only [Array.getD_eq_getD_getElem?, Array.getElem?_setIfInBounds] at this ⊢
  by_cases heq : i = i' ∧ n = n'
  · obtain ⟨rfl, rfl⟩ := heq
    simp only [h1, h2, a, b, if_true]
    rfl
  · have a' : ¬ (i * 768 + n = i' * 768 + n') := by
      intro hc; apply heq; clear a b this h3; constructor <;> omega
    have b' : ¬ (i * 256 + n = i' * 256 + n') := by
      intro hc; apply heq; clear a a' b this h3; constructor <;> omega
    simp only [a', b', if_false]
    exact this

theorem relPos_set {pp wa : Array Nat} (h : RelPos pp wa) (k v : Nat) (hk : k < 4) :
    RelPos (pp.setIfInBounds k v) (wa.setIfInBounds k v) := by
  obtain ⟨h1, h2, h3⟩ := h
  refine ⟨by simp [h1], by simp [h2], ?_⟩
  intro k' hk'
  have := h3 k' hk'
  simp only [Array.getD_eq_getD_getElem?, Array.getElem?_setIfInBounds] at this ⊢
  by_cases heq : k = k'
  · subst heq
    have a : k < 192 := by omega
    simp [h1, h2, hk, a]
  · simp only [heq, if_false]
    exact this

theorem relLit_init : RelLit initLitProbs initLit := by
  refine ⟨by simp [initLitProbs, lc, lp], by simp [initLit], ?_⟩
  intro i n hi hn
  simp only [initLitProbs, initLit, Array.getD_eq_getD_getElem?, Array.getElem?_replicate]
  have : probHalf = 1024 := rfl
  split <;> split <;> simp_all

theorem relPos_init : RelPos initPosProbs initAo00 := by
  refine ⟨by simp [initPosProbs, pb], by simp [initAo00], ?_⟩
  intro k hk
  simp only [initPosProbs, initAo00, Array.getD_eq_getD_getElem?, Array.getElem?_replicate]
  have : probHalf = 1024 := rfl
  split <;> split <;> simp_all

/-! ## one literal: `while.low_state` against `byteProbs.encodeByte` -/

theorem sync_bits_lt {e : RangeEncoder} {d : RangeDecoder} {out tail : List UInt8}
    (hs : Sync e d out tail) (hin : Inside e out) : d.bits < d.width := by
  obtain ⟨s1, _, _, s4⟩ := hs
  obtain ⟨_, _, i3⟩ := hin
  omega

theorem pow_bound {index n : Nat} (h : (index + 1) * 2 ^ (n + 1) ≤ 512) : index < 256 := by
  have h2 : 2 ≤ 2 ^ (n + 1) := by
    rw [Nat.pow_succ]
    have : 1 ≤ 2 ^ n := Nat.one_le_two_pow
    omega
  have : (index + 1) * 2 ≤ (index + 1) * 2 ^ (n + 1) := Nat.mul_le_mul_left _ h2
  omega

theorem pow_step {index n b : Nat} (h : (index + 1) * 2 ^ (n + 1) ≤ 512) (hb : b ≤ 1) :
    (index * 2 + b + 1) * 2 ^ n ≤ 512 := by
  have : (index * 2 + b + 1) * 2 ^ n ≤ (index * 2 + 2) * 2 ^ n := Nat.mul_le_mul_right _ (by omega)
  have e : (index * 2 + 2) * 2 ^ n = (index + 1) * 2 ^ (n + 1) := by
    rw [Nat.pow_succ, show index * 2 + 2 = (index + 1) * 2 by omega, Nat.mul_assoc, Nat.mul_comm 2 (2 ^ n)]
  omega

theorem lowState_ok (i b : Nat) (hi : i < 8) : ∀ (n index : Nat) (lp wl : Array Nat) (e : RangeEncoder),
    Valid e → ProbsOK lp → RelLit lp wl → (index + 1) * 2 ^ n ≤ 512 →
    ∀ out, Inside (encodeByteLoop (i * 256) b n index lp e).2 out →
      ∀ d tail, Sync e d out tail →
        ∃ wl' d', lowState (i * 768) n index wl d = some (index * 2 ^ n + b % 2 ^ n, wl', d') ∧
          RelLit (encodeByteLoop (i * 256) b n index lp e).1 wl' ∧
          Sync (encodeByteLoop (i * 256) b n index lp e).2 d' out tail := by
  intro n
  induction n with
  | zero =>
    intro index lp wl e hv hp hr hidx out hin d tail hs
    refine ⟨wl, d, ?_, hr, hs⟩
    simp [lowState, Nat.mod_one]
  | succ n ih =>
    intro index lp wl e hv hp hr hidx out hin d tail hs
    have hidx256 := pow_bound hidx
    have hpi : ProbOK (lp.getD (i * 256 + index) probHalf) := hp _
    have hbit : (b >>> n) &&& 1 = (b / 2 ^ n) % 2 := shr_and_one b n
    have hb01 : (b / 2 ^ n) % 2 = 0 ∨ (b / 2 ^ n) % 2 = 1 := by omega
    have hp'ok : ProbOK (encodeBit (lp.getD (i * 256 + index) probHalf) e ((b / 2 ^ n) % 2)).1 := by
      rw [encodeBit_eq]
      split
      · exact probUp_ok hpi
      · exact probDown_ok hpi
    have hv' : Valid (encodeBit (lp.getD (i * 256 + index) probHalf) e ((b / 2 ^ n) % 2)).2 := by
      rw [encodeBit_eq]; exact encodeBit_valid _ hv hpi
    have hps := probsOK_set hp (i * 256 + index) _ hp'ok
    have hine : Inside e out := ((byteLoop_ok (i * 256) b (n + 1) index lp e hv hp).2.2 out hin).1
    have hunf : encodeByteLoop (i * 256) b (n + 1) index lp e =
        encodeByteLoop (i * 256) b n ((index * 2) ||| ((b / 2 ^ n) % 2))
          (lp.setIfInBounds (i * 256 + index)
            (encodeBit (lp.getD (i * 256 + index) probHalf) e ((b / 2 ^ n) % 2)).1)
          (encodeBit (lp.getD (i * 256 + index) probHalf) e ((b / 2 ^ n) % 2)).2 := by
      simp only [encodeByteLoop, hbit]
    rw [hunf] at hin ⊢
    have hor : (index * 2) ||| ((b / 2 ^ n) % 2) = index * 2 + (b / 2 ^ n) % 2 := mul2_or _ _ (by omega)
    have hr' := relLit_set hr i index
      (encodeBit (lp.getD (i * 256 + index) probHalf) e ((b / 2 ^ n) % 2)).1 hi hidx256
    have hidx' : ((index * 2) ||| ((b / 2 ^ n) % 2)) + 1 ≤ 512 / 1 ∧
        (((index * 2) ||| ((b / 2 ^ n) % 2)) + 1) * 2 ^ n ≤ 512 := by
      rw [hor]
      have := pow_step (b := (b / 2 ^ n) % 2) hidx (by omega)
      constructor
      · have : 1 ≤ 2 ^ n := Nat.one_le_two_pow
        have h3 : (index * 2 + b / 2 ^ n % 2 + 1) * 1 ≤ (index * 2 + b / 2 ^ n % 2 + 1) * 2 ^ n :=
          Nat.mul_le_mul_left _ this
        omega
      · exact this
    -- the final code is inside the interval after this bit
    have j1 : Inside (encodeBit (lp.getD (i * 256 + index) probHalf) e ((b / 2 ^ n) % 2)).2 out :=
      ((byteLoop_ok (i * 256) b n _ _ _ hv' hps).2.2 out hin).1
    have j1' := j1
    rw [encodeBit_eq] at j1'
    obtain ⟨d1, hd1, hs1⟩ := decodeBit_sync _ hv hpi hb01 hs j1'
    obtain ⟨wl', d', hl, hrl, hsl⟩ := ih _ _ _ _ hv' hps hr' hidx'.2 out hin d1 tail hs1
    refine ⟨wl', d', ?_, hrl, hsl⟩
    have hget : wl.getD (i * 768 + index) 1024 = lp.getD (i * 256 + index) probHalf := hr.2.2 i index hi hidx256
    have hbym : bym (lp.getD (i * 256 + index) probHalf) d = decodeBit (lp.getD (i * 256 + index) probHalf) d :=
      bym_eq _ d (by have := hpi.2; omega) (sync_bits_lt hs hine) (by rw [hs.1]; exact hv.whi)
    simp only [lowState, hget, hbym, hd1]
    have hsh : (index <<< 1) ||| ((b / 2 ^ n) % 2) = (index * 2) ||| ((b / 2 ^ n) % 2) := by
      rw [Nat.shiftLeft_eq]
    rw [hsh, hl, hor, index_step]

/-! ## `while.outer` against the loop of `encodeRaw` -/

theorem and15 (x : Nat) (h : x < 16) : 15 &&& x = x := by
  rw [Nat.and_comm]
  have := Nat.and_two_pow_sub_one_eq_mod x 4
  simp only [Nat.reducePow, Nat.reduceSub] at this
  rw [this]; omega

theorem indexLit_eq (wp : Nat) (prev : UInt8) :
    15 &&& (((wp &&& 0) <<< 3) ||| (prev.toNat >>> (8 - 3))) = prev.toNat / 32 := by
  have hp := prev.toNat_lt
  rw [Nat.and_zero, Nat.zero_shiftLeft, Nat.zero_or, Nat.shiftRight_eq_div_pow]
  exact and15 _ (by simp only [Nat.reduceSub, Nat.reducePow]; omega)

theorem litBase_eq (gp : Nat) (prev : UInt8) : litBase gp prev = prev.toNat / 32 * 256 := by
  unfold litBase lpMask lp lc
  simp only [Nat.shiftLeft_zero, Nat.sub_self, Nat.and_zero, Nat.zero_shiftLeft, Nat.zero_or,
    Nat.shiftRight_eq_div_pow, Nat.reduceSub, Nat.reducePow]

theorem outer_ok : ∀ (src : List UInt8) (gp wp : Nat) (prev : UInt8) (pp lp wa wl : Array Nat)
    (e : RangeEncoder) (o : Array UInt8),
    Valid e → ProbsOK pp → ProbsOK lp → RelPos pp wa → RelLit lp wl → gp % 4 = wp % 4 →
    ∀ out, Inside (encodeRawLoop src gp prev pp lp e) out →
      ∀ d tail, Sync e d out tail →
        ∃ s', outer 3 0 3 src.length
              { d := d, state := 0, pos := wp, prevByte := prev, probsAo00 := wa, probsLit := wl, out := o }
            = LoopRes.endOfChunk s' ∧ s'.out = pushList o src ∧
          Sync (encodeRawLoop src gp prev pp lp e) s'.d out tail := by
  intro src
  induction src with
  | nil =>
    intro gp wp prev pp lp wa wl e o _ _ _ _ _ _ out _ d tail hs
    exact ⟨_, rfl, rfl, hs⟩
  | cons curr rest ih =>
    intro gp wp prev pp lp wa wl e o hv hpp hlp hrp hrl hmod out hin d tail hs
    have hpi : ProbOK (pp.getD (gp &&& pbMask) probHalf) := hpp _
    have hv1 : Valid (encodeBit (pp.getD (gp &&& pbMask) probHalf) e 0).2 := by
      rw [encodeBit_eq]; exact encodeBit_valid _ hv hpi
    have hp1 : ProbOK (encodeBit (pp.getD (gp &&& pbMask) probHalf) e 0).1 := by
      rw [encodeBit_eq]; exact probUp_ok hpi
    have hpp' := probsOK_set hpp (gp &&& pbMask) _ hp1
    obtain ⟨b1, b2, b3⟩ := byte_ok (litBase gp prev) curr lp _ hv1 hlp
    have hunf : encodeRawLoop (curr :: rest) gp prev pp lp e =
        encodeRawLoop rest ((gp + 1) &&& 0xFFFFFFFF) curr
          (pp.setIfInBounds (gp &&& pbMask) (encodeBit (pp.getD (gp &&& pbMask) probHalf) e 0).1)
          (encodeByte lp (litBase gp prev) (encodeBit (pp.getD (gp &&& pbMask) probHalf) e 0).2 curr).1
          (encodeByte lp (litBase gp prev) (encodeBit (pp.getD (gp &&& pbMask) probHalf) e 0).2 curr).2 := by
      simp only [encodeRawLoop]
    rw [hunf] at hin ⊢
    -- the final code is inside every intermediate interval
    have j1 : Inside (encodeByte lp (litBase gp prev) (encodeBit (pp.getD (gp &&& pbMask) probHalf) e 0).2 curr).2 out :=
      ((rawLoop_ok rest _ curr _ _ _ b1 hpp' b2).2 out hin).1
    have k1 : Inside (encodeBit (pp.getD (gp &&& pbMask) probHalf) e 0).2 out := (b3 out j1).1
    have k1' := k1
    rw [encodeBit_eq] at k1'
    have hine : Inside e out := encodeBit_inside 0 hv hpi k1'
    obtain ⟨d1, hd1, hs1⟩ := decodeBit_sync 0 hv hpi (Or.inl rfl) hs k1'
    -- the position bit
    have hk : gp &&& pbMask = gp % 4 := and3 gp
    have hkw : (0 <<< 4) ||| (wp &&& 3) = gp % 4 := by
      rw [Nat.zero_shiftLeft, Nat.zero_or, and3]; omega
    have hk4 : gp % 4 < 4 := Nat.mod_lt _ (by omega)
    have hget : wa.getD (gp % 4) 1024 = pp.getD (gp % 4) probHalf := hrp.2.2 _ hk4
    have hbym : bym (pp.getD (gp % 4) probHalf) d = decodeBit (pp.getD (gp % 4) probHalf) d := by
      rw [hk] at hpi
      exact bym_eq _ d (by have := hpi.2; omega) (sync_bits_lt hs hine) (by rw [hs.1]; exact hv.whi)
    rw [hk] at hd1 j1 k1 hs1 b1 b2
    -- the literal
    have hi8 : prev.toNat / 32 < 8 := by have := prev.toNat_lt; omega
    have hlb := litBase_eq gp prev
    rw [hlb] at j1 b1 b2
    unfold encodeByte at j1
    have hs1' := hs1
    rw [hk] at hv1
    obtain ⟨wl', d2, hl, hrl', hs2⟩ := lowState_ok (prev.toNat / 32) curr.toNat hi8 8 1 lp wl _ hv1 hlp hrl
      (by decide) out j1 d1 tail hs1'
    have htn : (1 * 2 ^ 8 + curr.toNat % 2 ^ 8) &&& 0xFF = curr.toNat := by
      have hc := curr.toNat_lt
      have := Nat.and_two_pow_sub_one_eq_mod (1 * 2 ^ 8 + curr.toNat % 2 ^ 8) 8
      simp only [Nat.reducePow, Nat.reduceSub] at this ⊢
      rw [this]; omega
    have hrp' := relPos_set hrp (gp % 4) (encodeBit (pp.getD (gp % 4) probHalf) e 0).1 hk4
    have hmod' : ((gp + 1) &&& 0xFFFFFFFF) % 4 = ((wp + 1) % 18446744073709551616) % 4 := by
      rw [land32]; omega
    rw [hk, hlb] at hin ⊢
    unfold encodeByte at hin b1 b2 ⊢
    obtain ⟨s', hs', hout', hsync'⟩ := ih ((gp + 1) &&& 0xFFFFFFFF) ((wp + 1) % 18446744073709551616) curr _ _ _ wl' _
      (o.push curr) b1 (by rw [hk] at hpp'; exact hpp') b2 hrp' hrl' hmod' out hin d2 tail hs2
    refine ⟨s', ?_, ?_, hsync'⟩
    · simp only [List.length_cons, outer, hkw, hget, hbym, hd1, indexLit_eq, hl, htn]
      simp only [ne_eq, not_true_eq_false, if_false, ge_iff_le]
      have hcu : curr.toNat.toUInt8 = curr := by
        apply UInt8.toNat_inj.mp; rw [toUInt8_toNat]; have := curr.toNat_lt; omega
      have hst : stateTransitionLiteral.getD 0 0 = 0 := rfl
      rw [hcu, hst]
      exact hs'
    · rw [hout']; rfl

/-! ## one chunk: range-decoder start-up, bitstream, end-of-chunk checks -/

/-- on the raw range-coded payload `encodeRaw` produces for `c` (followed by anything), the Wuffs decoder's
    chunk body — first code byte `0x00`, `bits <> 0xFFFF_FFFF`, the literal loop, then `stashed_bits == 0`
    at the end — writes exactly `c`, consumes exactly the payload and reports `len(rawLZMA)` encoded bytes -/
theorem codeAndBitstream_ok (c rest : List UInt8) (o : Array UInt8) (hlen : c.length < 2 ^ 63) :
    codeAndBitstream 3 0 2 c.length 0 0 initAo00 initLit ((encodeRaw #[] c).toList ++ rest) o
      = .ok (pushList o c, rest, (encodeRaw #[] c).size) := by
  rw [encodeRaw_nil_eq]
  obtain ⟨hvf, hall⟩ := rawLoop_ok c 0 0 initPosProbs initLitProbs encInit encInit_valid
    initPosProbs_ok initLitProbs_ok
  have hW := outer_ok c 0 0 0 initPosProbs initLitProbs initAo00 initLit encInit o encInit_valid
    initPosProbs_ok initLitProbs_ok relPos_init relLit_init rfl
  generalize hef : encodeRawLoop c 0 0 initPosProbs initLitProbs encInit = ef at *
  obtain ⟨flen, fval⟩ := flush_spec ef hvf
  rw [← Array.length_toList]
  generalize hout : ef.flush.dst.toList = out at *
  have hwf := hvf.wlo
  have hinf : Inside ef out := by
    refine ⟨by omega, ?_, ?_⟩
    · rw [← flen, List.take_length, fval]; omega
    · rw [← flen, List.take_length, fval]; omega
  obtain ⟨hin0, _⟩ := hall out hinf
  obtain ⟨n0, v0, v1⟩ := hin0
  have hnd : nDig encInit = 5 := rfl
  have hL0 : Lval encInit = 0 := rfl
  have hw0 : encInit.width = 4294967295 := rfl
  rw [hnd] at n0 v0 v1
  rw [hL0, hw0] at v1
  rcases out with _ | ⟨s0, _ | ⟨s1, _ | ⟨s2, _ | ⟨s3, _ | ⟨s4, rest'⟩⟩⟩⟩⟩
  · exact absurd n0 (by decide)
  · exact absurd n0 (by simp)
  · exact absurd n0 (by simp)
  · exact absurd n0 (by simp)
  · exact absurd n0 (by simp)
  · have hv5 : val (List.take 5 (s0 :: s1 :: s2 :: s3 :: s4 :: rest')) = val [s0, s1, s2, s3, s4] := rfl
    rw [hv5] at v1
    have hval5 : val [s0, s1, s2, s3, s4] = s0.toNat * 4294967296 + val [s1, s2, s3, s4] := by
      have := val_cons s0 [s1, s2, s3, s4]
      simpa using this
    have h40 : val [s1, s2, s3, s4] < 4294967296 := by
      have := val_lt [s1, s2, s3, s4]; simpa using this
    have hs0 : s0 = 0 := by
      apply UInt8.toNat_inj.mp
      show s0.toNat = 0
      omega
    subst hs0
    have hz : (0 : UInt8).toNat = 0 := rfl
    have hsync0 : Sync encInit
        { src := rest' ++ rest,
          bits := (s1.toNat <<< 24) ||| (s2.toNat <<< 16) ||| (s3.toNat <<< 8) ||| s4.toNat,
          width := 0xFFFFFFFF } (0 :: s1 :: s2 :: s3 :: s4 :: rest') rest := by
      refine ⟨rfl, by rw [hnd]; simp, by rw [hnd]; rfl, ?_⟩
      rw [hnd, hL0, hv5, hval5, bytes4]
      simp
    obtain ⟨s', hs', hout', hsy⟩ := hW _ hinf _ rest hsync0
    -- the end-of-chunk state: everything read, `bits = 0`
    obtain ⟨_, _, hsrc, hbits⟩ := hsy
    have hbits0 : s'.d.bits = 0 := by
      rw [← flen, List.take_length, fval] at hbits; omega
    have hsrc' : s'.d.src = rest := by
      rw [hsrc, ← flen]; simp
    have hne : ¬ ((s1.toNat <<< 24) ||| (s2.toNat <<< 16) ||| (s3.toNat <<< 8) ||| s4.toNat = 0xFFFFFFFF) := by
      rw [bytes4]; rw [hval5, hz] at v1; omega
    have hpe : min (0 + c.length) 0xFFFFFFFFFFFFFFFF = c.length := by omega
    simp only [List.cons_append, codeAndBitstream, ne_eq, not_true_eq_false, if_false, hne, hpe, Nat.sub_zero]
    have h2 : ¬ (c.length = 0xFFFFFFFFFFFFFFFF) := by omega
    have hm1 : (1 <<< 0) - 1 = 0 := rfl
    have hm2 : (1 <<< 2) - 1 = 3 := rfl
    simp only [h2, if_false, hm1, hm2, hs', hbits0, hsrc', hout']
    have hl : 5 + ((rest' ++ rest).length - rest.length) = (0 :: s1 :: s2 :: s3 :: s4 :: rest').length := by
      simp only [List.length_append, List.length_cons]; omega
    rw [hl]
    simp

/-! ## LZMA1 -/

/-- **the Wuffs std/lzma decoder accepts every LZMA file of `lib/litonlylzma`** (model of the literal path):
    it returns the payload, leaves exactly the trailing bytes unread, and never leaves the modelled fragment -/
theorem lzma1_accepts (src tail : List UInt8) (hlen : src.length < 2 ^ 63) :
    decodeLzma1 ((encodeLZMA #[] src).toList ++ tail) = Res.ok (pushList #[] src) tail := by
  rw [encodeLZMA_toList]
  have hcb := codeAndBitstream_ok src tail #[] hlen
  have hl8 : ¬ ((le64 src.length ++ (encodeRaw #[] src).toList ++ tail).length < 8) := by
    simp [le64_length]
  have hrd : readLe64 (le64 src.length ++ (encodeRaw #[] src).toList ++ tail) = src.length := by
    rw [List.append_assoc]
    exact readLe64_le64 _ (by omega) _
  have hdrop : (le64 src.length ++ (encodeRaw #[] src).toList ++ tail).drop 8
      = (encodeRaw #[] src).toList ++ tail := by
    rw [List.append_assoc]; exact List.drop_left' (le64_length _)
  have h93 : (0x5D : UInt8).toNat = 93 := rfl
  simp only [List.cons_append, decodeLzma1, h93]
  simp only [show ¬ (93 ≥ 225) by omega, if_false, show 93 % 9 = 3 by rfl, show 93 / 9 % 5 = 0 by rfl,
    show 93 / 9 / 5 = 2 by rfl, show ¬ (3 + 0 > 4) by omega, hl8, hrd, hdrop, show min 3 4 = 3 by rfl]
  rw [if_neg (by omega), hcb]

/-! ## LZMA2 -/

theorem size16or (n : Nat) (h1 : 0 < n) (h2 : n ≤ 65536) :
    1 + ((((n - 1) >>> 8).toUInt8.toNat <<< 8) ||| (n - 1).toUInt8.toNat) = n := by
  have hb : (n - 1).toUInt8.toNat < 2 ^ 8 := (n - 1).toUInt8.toNat_lt
  rw [← Nat.shiftLeft_add_eq_or_of_lt hb]
  have := size16 n h1 h2
  omega

/-- one round of the LZMA2 chunk loop undoes one round of `encodeXz`'s chunk loop, in either form -/
theorem lzma2_chunk (c : List UInt8) (hc1 : 0 < c.length) (hc2 : c.length ≤ 65536) (fuel : Nat) (ndr : Bool)
    (o : Array UInt8) (rest : List UInt8) :
    lzma2Chunks (fuel + 1) ndr o (chunkBytes c ++ rest) = lzma2Chunks fuel false (pushList o c) rest := by
  have e10 : ¬ ((0x01 : UInt8) = 0x00) := by decide
  have e224_0 : ¬ ((0xE0 : UInt8) = 0x00) := by decide
  have t1 : (0x01 : UInt8).toNat = 1 := rfl
  have t224 : (0xE0 : UInt8).toNat = 224 := rfl
  have t93 : (0x5D : UInt8).toNat = 93 := rfl
  unfold chunkBytes encodeXzChunk
  dsimp only
  split
  · -- uncompressed chunk
    have hsz := size16or c.length hc1 hc2
    have hl : ¬ ((c ++ rest).length < c.length) := by rw [List.length_append]; omega
    simp only [pushList_toList, Array.toList_push, List.nil_append, List.cons_append]
    simp only [lzma2Chunks, e10, t1, hsz, hl, if_true, if_false, List.take_left, List.drop_left,
      show (1 : Nat) < 0x80 by omega, show ¬ ((1 : Nat) ≥ 0x02 ∧ ((1 : Nat) > 0x02 ∨ ndr = true)) by omega]
  · -- LZMA chunk
    rename_i hch
    have h5 := encodeRaw_length c
    have hm1 : 0 < (encodeRaw #[] c).size := by omega
    have hm2 : (encodeRaw #[] c).size ≤ 65536 := by omega
    have hsz := size16or c.length hc1 hc2
    have hcz := size16or (encodeRaw #[] c).size hm1 hm2
    have hcb := codeAndBitstream_ok c rest o (by omega)
    simp only [Array.toList_append, Array.toList_push, List.nil_append, List.cons_append]
    simp only [lzma2Chunks, e224_0, t224, t93, hsz, hcz, if_false,
      show ¬ ((224 : Nat) < 0x80) by omega, show ¬ ((224 : Nat) < 0xE0) by omega,
      show ¬ (93 ≥ 225) by omega, show 93 % 9 = 3 by rfl, show 93 / 9 % 5 = 0 by rfl,
      show 93 / 9 / 5 = 2 by rfl, show ¬ (3 + 0 > 4) by omega, show min 3 4 = 3 by rfl,
      show (224 &&& 0x1F) <<< 16 = 0 by rfl, Nat.zero_add, hcb, ne_eq, not_true_eq_false]

/-- **the Wuffs std/lzma decoder in LZMA2 mode accepts the chunk sequence of every XZ file of
    `lib/litonlylzma`**: any number of chunks, both forms, end marker; what follows is left unread -/
theorem lzma2_chunks : ∀ (n : Nat) (rem : List UInt8) (fuel : Nat) (ndr : Bool) (o : Array UInt8)
    (rest : List UInt8), rem.length = n → (chunksBytes rem).length + 1 ≤ fuel →
    lzma2Chunks fuel ndr o (chunksBytes rem ++ 0x00 :: rest) = Res.ok (pushList o rem) rest := by
  intro n
  induction n using Nat.strongRecOn with
  | _ n ih =>
    intro rem fuel ndr o rest hn hfuel
    obtain ⟨f, rfl⟩ : ∃ f, fuel = f + 1 := ⟨fuel - 1, by omega⟩
    by_cases h0 : rem.length = 0
    · have : rem = [] := List.eq_nil_of_length_eq_zero h0
      subst this
      rw [chunksBytes_nil]
      simp [lzma2Chunks, pushList]
    · by_cases hbig : rem.length > 0x10000
      · have hpos := chunkBytes_length_pos (rem.take 0x10000)
        rw [chunksBytes_big rem hbig, List.length_append] at hfuel
        rw [chunksBytes_big rem hbig, List.append_assoc,
          lzma2_chunk _ (by simp; omega) (by simp; omega)]
        have hd : (rem.drop 0x10000).length < n := by simp only [List.length_drop]; omega
        rw [ih _ hd _ _ _ _ _ rfl (by omega), pushList_append, List.take_append_drop]
      · have hpos := chunkBytes_length_pos rem
        rw [chunksBytes_small rem h0 hbig] at hfuel
        rw [chunksBytes_small rem h0 hbig, lzma2_chunk _ (by omega) (by omega)]
        obtain ⟨f', rfl⟩ : ∃ f', f = f' + 1 := ⟨f - 1, by omega⟩
        simp [lzma2Chunks]

theorem lzma2_accepts (src rest : List UInt8) :
    decodeLzma2 (chunksBytes src ++ 0x00 :: rest) = Res.ok (pushList #[] src) rest := by
  unfold decodeLzma2
  exact lzma2_chunks _ src _ _ _ _ rfl (by simp)

end WuffsVerif.WLzma
