/-
C07 helper lemmas, part 1: the LSB-first bit accumulator of std/deflate (`bits`, `n_bits`, one source byte at a
time: `bits |= b << n_bits; n_bits += 8` / `bits >>= n; n_bits -= n`) against the bit addressing of the
RFC 1951 specification (`Flate.Spec.bitAt`, `bitsLE`).  Core Lean only.
-/
import WuffsVerif.Model.StdDeflate
import WuffsVerif.Model.Flate.Spec

namespace WuffsVerif.StdDeflate
open WuffsVerif.Flate.Spec (bitAt bitsLE avail)

/-! ### `bitAt`, `bitsLE` -/

theorem bitAt_lt (s : Bytes) (p : Nat) : bitAt s p < 2 := by
  unfold bitAt; omega

theorem bitAt_past_end (s : Bytes) (p : Nat) (h : 8 * s.size ≤ p) : bitAt s p = 0 := by
  unfold bitAt
  have : s.size ≤ p / 8 := by omega
  simp [Array.getD_eq_getD_getElem?, Array.getElem?_eq_none this]

theorem bitsLE_lt (s : Bytes) : ∀ (n p : Nat), bitsLE s p n < 2 ^ n := by
  intro n
  induction n with
  | zero => intro p; simp [bitsLE]
  | succ n ih =>
    intro p
    have := ih (p + 1)
    have := bitAt_lt s p
    simp only [bitsLE, Nat.pow_succ]
    omega

theorem bitsLE_add (s : Bytes) : ∀ (a b p : Nat), bitsLE s p (a + b) = bitsLE s p a + 2 ^ a * bitsLE s (p + a) b := by
  intro a
  induction a with
  | zero => intro b p; simp [bitsLE]
  | succ a ih =>
    intro b p
    rw [show a + 1 + b = (a + b) + 1 by omega]
    simp only [bitsLE]
    rw [ih b (p + 1), show p + 1 + a = p + (a + 1) by omega, Nat.pow_succ]
    rw [Nat.mul_add, Nat.add_assoc, ← Nat.mul_assoc, Nat.mul_comm 2 (2 ^ a)]

theorem bitsLE_past_end (s : Bytes) : ∀ (n p : Nat), 8 * s.size ≤ p → bitsLE s p n = 0 := by
  intro n
  induction n with
  | zero => intro p _; rfl
  | succ n ih =>
    intro p h
    simp only [bitsLE, bitAt_past_end s p h, ih (p + 1) (by omega)]

/-- the low `k` of `n` bits, and the rest -/
theorem bitsLE_mod (s : Bytes) (p k n : Nat) (h : k ≤ n) : bitsLE s p n % 2 ^ k = bitsLE s p k := by
  obtain ⟨d, rfl⟩ : ∃ d, n = k + d := ⟨n - k, by omega⟩
  rw [bitsLE_add, Nat.add_mul_mod_self_left, Nat.mod_eq_of_lt (bitsLE_lt s k p)]

theorem bitsLE_div (s : Bytes) (p k n : Nat) (h : k ≤ n) : bitsLE s p n / 2 ^ k = bitsLE s (p + k) (n - k) := by
  obtain ⟨d, rfl⟩ : ∃ d, n = k + d := ⟨n - k, by omega⟩
  rw [bitsLE_add, show k + d - k = d by omega]
  rw [Nat.add_mul_div_left _ _ (Nat.two_pow_pos k), Nat.div_eq_of_lt (bitsLE_lt s k p), Nat.zero_add]

theorem byte_bits : ∀ b, b < 256 →
    b % 2 + 2 * (b / 2 % 2 + 2 * (b / 4 % 2 + 2 * (b / 8 % 2 + 2 * (b / 16 % 2 + 2 * (b / 32 % 2 +
      2 * (b / 64 % 2 + 2 * (b / 128 % 2))))))) = b := by
  intro b hb; omega

/-- eight bits at a byte boundary are that byte -/
theorem bitsLE_byte (s : Bytes) (i : Nat) : bitsLE s (8 * i) 8 = (s.getD i 0).toNat := by
  have hb : (s.getD i 0).toNat < 256 := (s.getD i 0).toNat_lt
  have hk : ∀ k, k < 8 → bitAt s (8 * i + k) = (s.getD i 0).toNat / 2 ^ k % 2 := by
    intro k hk
    unfold bitAt
    rw [show (8 * i + k) / 8 = i by omega, show (8 * i + k) % 8 = k by omega, Nat.shiftRight_eq_div_pow]
  simp only [bitsLE, Nat.add_assoc]
  have h0 := hk 0 (by omega); have h1 := hk 1 (by omega); have h2 := hk 2 (by omega); have h3 := hk 3 (by omega)
  have h4 := hk 4 (by omega); have h5 := hk 5 (by omega); have h6 := hk 6 (by omega); have h7 := hk 7 (by omega)
  simp only [Nat.add_zero, Nat.pow_zero, Nat.div_one] at h0
  simp only [Nat.reduceAdd, Nat.reducePow] at h1 h2 h3 h4 h5 h6 h7 ⊢
  rw [h0, h1, h2, h3, h4, h5, h6, h7]
  exact byte_bits _ hb

/-! ### the accumulator invariant -/

/-- `b` holds exactly the stream bits `[p, p + b.nBits)`, and its byte cursor is just past them -/
structure BRInv (s : Bytes) (b : BR) (p : Nat) : Prop where
  bits : b.bits = bitsLE s p b.nBits
  pos : 8 * b.ri = p + b.nBits
  ri : b.ri ≤ s.size

theorem BRInv.bits_lt {s : Bytes} {b : BR} {p : Nat} (h : BRInv s b p) : b.bits < 2 ^ b.nBits := by
  rw [h.bits]; exact bitsLE_lt s _ _

/-- the accumulator is the low `nBits` bits of any longer window -/
theorem BRInv.bits_window {s : Bytes} {b : BR} {p : Nat} (h : BRInv s b p) (K : Nat) (hK : b.nBits ≤ K) :
    b.bits = bitsLE s p K % 2 ^ b.nBits := by
  rw [h.bits, bitsLE_mod s p _ K hK]

/-- `bits |= b0 << n_bits; n_bits += 8` -/
theorem BRInv.load {s : Bytes} {b : BR} {p : Nat} (h : BRInv s b p) (hr : b.ri < s.size) :
    BRInv s { bits := b.bits ||| ((s[b.ri]).toNat <<< b.nBits), nBits := b.nBits + 8, ri := b.ri + 1 } p := by
  refine ⟨?_, by simp only; have := h.pos; omega, by simp only; omega⟩
  simp only
  rw [bitsLE_add, show p + b.nBits = 8 * b.ri by have := h.pos; omega, bitsLE_byte, ← h.bits]
  have hlt := h.bits_lt
  rw [Nat.or_comm, ← Nat.shiftLeft_add_eq_or_of_lt hlt, Nat.shiftLeft_eq, Nat.add_comm, Nat.mul_comm]
  simp [Array.getD_eq_getD_getElem?, hr]

/-- `bits >>= n; n_bits -= n` -/
theorem BRInv.drop {s : Bytes} {b : BR} {p : Nat} (h : BRInv s b p) (n : Nat) (hn : n ≤ b.nBits) :
    BRInv s (b.drop n) (p + n) := by
  refine ⟨?_, by simp only [BR.drop]; have := h.pos; omega, by simp only [BR.drop]; exact h.ri⟩
  simp only [BR.drop]
  rw [Nat.shiftRight_eq_div_pow, h.bits, bitsLE_div s p n _ hn]

/-- the `n` bits that `drop n` removes -/
theorem BRInv.low {s : Bytes} {b : BR} {p : Nat} (h : BRInv s b p) (n : Nat) (hn : n ≤ b.nBits) :
    b.bits % 2 ^ n = bitsLE s p n := by
  rw [h.bits, bitsLE_mod s p n _ hn]

theorem and_mask (x n : Nat) : x &&& ((1 <<< n) - 1) = x % 2 ^ n := by
  rw [Nat.shiftLeft_eq, Nat.one_mul, Nat.and_two_pow_sub_one_eq_mod]

/-- when the source is exhausted the accumulator holds every remaining bit -/
theorem BRInv.at_end {s : Bytes} {b : BR} {p : Nat} (h : BRInv s b p) (he : ¬ b.ri < s.size) (K : Nat)
    (hK : b.nBits ≤ K) : bitsLE s p K = b.bits := by
  obtain ⟨d, rfl⟩ : ∃ d, K = b.nBits + d := ⟨K - b.nBits, by omega⟩
  have hri := h.ri
  have hpos := h.pos
  rw [bitsLE_add, bitsLE_past_end s d (p + b.nBits) (by omega), h.bits]
  simp

/-- `BR.fill`: with `need` more real bits in the stream the loop succeeds, keeps the invariant, and ends with
    `need ≤ n_bits`; it reads nothing when there are enough bits already, and fewer than 8 spare bits otherwise -/
theorem BRInv.fill {s : Bytes} {p : Nat} (need : Nat) : ∀ (fuel : Nat) (b : BR), BRInv s b p →
    p + need ≤ 8 * s.size → need ≤ b.nBits + 8 * (fuel - 1) → 1 ≤ fuel →
    ∃ b', BR.fill s need fuel b = .ok b' ∧ BRInv s b' p ∧ need ≤ b'.nBits ∧
      (need ≤ b.nBits → b' = b) ∧ (b.nBits < need → b'.nBits < need + 8) := by
  intro fuel
  induction fuel with
  | zero => intro b _ _ _ h; omega
  | succ f ih =>
    intro b hb hav hfuel _
    unfold BR.fill
    by_cases hn : b.nBits < need
    · rw [if_pos hn]
      have hr : b.ri < s.size := by
        have := hb.pos
        omega
      rw [dif_pos hr]
      have hb' := hb.load hr
      obtain ⟨b', e1, e2, e3, e4, e5⟩ := ih _ hb' hav (by simp only; omega) (by omega)
      refine ⟨b', e1, e2, e3, by omega, ?_⟩
      intro _
      by_cases h8 : need ≤ b.nBits + 8
      · have := e4 (by simp only; omega)
        rw [this]; simp only; omega
      · have := e5 (by simp only; omega)
        omega
    · rw [if_neg hn]
      exact ⟨b, rfl, hb, by omega, fun _ => rfl, by omega⟩

end WuffsVerif.StdDeflate
