/-
C07 helper lemmas: reflected CRCs.  The bit-serial LFSR step is GF(2)-linear, so a byte
can be absorbed with one lookup in the 256-entry table of `iter bitStep 8`.
Generic in the register width `w`.  Core Lean only.
-/
import WuffsVerif.Model.StdHash

namespace WuffsVerif.StdHash

variable {w : Nat}

theorem iter_succ' {α : Type} (f : α → α) (n : Nat) (a : α) : iter f (n + 1) a = f (iter f n a) := by
  induction n generalizing a with
  | zero => rfl
  | succ n ih => simp only [iter] at ih ⊢; rw [ih]

theorem iter_add {α : Type} (f : α → α) (m n : Nat) (a : α) : iter f (m + n) a = iter f n (iter f m a) := by
  induction m generalizing a with
  | zero => simp [iter]
  | succ m ih => rw [Nat.add_right_comm]; simp only [iter]; exact ih _

/-- `bitStep` written without the branch -/
theorem bitStep_eq (P x : BitVec w) :
    bitStep P x = (x >>> 1) ^^^ (if x.getLsbD 0 then P else 0) := by
  unfold bitStep; split <;> simp

/-- the LFSR step is additive over xor -/
theorem bitStep_xor (P x y : BitVec w) : bitStep P (x ^^^ y) = bitStep P x ^^^ bitStep P y := by
  simp only [bitStep_eq, BitVec.ushiftRight_xor_distrib, BitVec.getLsbD_xor]
  apply BitVec.eq_of_getLsbD_eq
  intro i _
  cases x.getLsbD 0 <;> cases y.getLsbD 0 <;>
    simp only [Bool.xor_false, Bool.xor_true, Bool.not_false, Bool.not_true, Bool.false_eq_true,
      ↓reduceIte, BitVec.getLsbD_xor] <;>
    cases (x >>> 1).getLsbD i <;> cases (y >>> 1).getLsbD i <;> cases P.getLsbD i <;> simp

theorem bitStep_zero (P : BitVec w) : bitStep P 0 = 0 := by
  simp [bitStep]

theorem iter_bitStep_xor (P : BitVec w) (n : Nat) (x y : BitVec w) :
    iter (bitStep P) n (x ^^^ y) = iter (bitStep P) n x ^^^ iter (bitStep P) n y := by
  induction n generalizing x y with
  | zero => rfl
  | succ n ih => simp only [iter, bitStep_xor, ih]

theorem iter_bitStep_zero (P : BitVec w) (n : Nat) : iter (bitStep P) n 0 = 0 := by
  induction n with
  | zero => rfl
  | succ n ih => simp only [iter, bitStep_zero, ih]

/-- while only zero bits fall out, the register just shifts -/
theorem iter_bitStep_lowzero (P : BitVec w) (n : Nat) (x : BitVec w)
    (h : ∀ i, i < n → x.getLsbD i = false) : iter (bitStep P) n x = x >>> n := by
  induction n generalizing x with
  | zero => simp [iter]
  | succ n ih =>
    have h0 : x.getLsbD 0 = false := h 0 (by omega)
    have hs : bitStep P x = x >>> 1 := by simp [bitStep, h0]
    simp only [iter, hs]
    rw [ih (x >>> 1) (by
      intro i hi
      rw [BitVec.getLsbD_ushiftRight]
      have := h (1 + i) (by omega)
      simpa using this)]
    rw [← BitVec.shiftRight_add, Nat.add_comm]

/-- the low byte, as a register value -/
def lowByte (x : BitVec w) : BitVec w := BitVec.ofNat w (x.toNat % 256)

theorem getLsbD_lowByte (x : BitVec w) (i : Nat) :
    (lowByte x).getLsbD i = (decide (i < 8) && x.getLsbD i) := by
  unfold lowByte
  rw [BitVec.getLsbD_ofNat, show (256 : Nat) = 2 ^ 8 from rfl, Nat.testBit_mod_two_pow]
  rw [BitVec.getLsbD, ]
  by_cases hi : i < w
  · simp [hi]
  · have : x.toNat.testBit i = false := by
      apply Nat.testBit_lt_two_pow
      exact Nat.lt_of_lt_of_le x.isLt (Nat.pow_le_pow_right (by omega) (by omega))
    simp [hi, this]

/-- split a register into its low byte and the rest -/
theorem split_lowByte (x : BitVec w) : x = lowByte x ^^^ ((x >>> 8) <<< 8) := by
  apply BitVec.eq_of_getLsbD_eq
  intro i hi
  rw [BitVec.getLsbD_xor, getLsbD_lowByte, BitVec.getLsbD_shiftLeft, BitVec.getLsbD_ushiftRight]
  by_cases h8 : i < 8
  · simp [h8]
  · have : 8 + (i - 8) = i := by omega
    simp [h8, hi, this]

theorem shl8_lowzero (y : BitVec w) : ∀ i, i < 8 → (y <<< 8).getLsbD i = false := by
  intro i hi
  rw [BitVec.getLsbD_shiftLeft]
  simp [hi]

theorem shr_shl_shr (x : BitVec w) : ((x >>> 8) <<< 8) >>> 8 = x >>> 8 := by
  apply BitVec.eq_of_getLsbD_eq
  intro i hi
  rw [BitVec.getLsbD_ushiftRight, BitVec.getLsbD_shiftLeft, BitVec.getLsbD_ushiftRight,
    BitVec.getLsbD_ushiftRight]
  by_cases h : 8 + i < w
  · simp [h]
  · have : x.getLsbD (8 + i) = false := BitVec.getLsbD_of_ge _ _ (by omega)
    simp [this]

/-- **One table lookup absorbs 8 bit steps** (for any register value):
    `L(x) = L(lowByte x) ^ (x >> 8)` where `L = iter bitStep 8`. -/
theorem iter8_split (P x : BitVec w) :
    iter (bitStep P) 8 x = iter (bitStep P) 8 (lowByte x) ^^^ (x >>> 8) := by
  conv => lhs; rw [split_lowByte x]
  rw [iter_bitStep_xor, iter_bitStep_lowzero P 8 _ (shl8_lowzero _), shr_shl_shr]

/-- table `k` of `t` holds `L^(k+1)` of every byte value -/
def TableOK (t : Array (Array Nat)) (P : BitVec w) (k : Nat) : Prop :=
  ∀ i, i < 256 → (tbl t k i : BitVec w) = iter (bitStep P) (8 * (k + 1)) (BitVec.ofNat w i)

/-- decidable version, for `decide +kernel` -/
def tableOKb (w : Nat) (t : Array (Array Nat)) (P : BitVec w) (k : Nat) : Bool :=
  (List.range 256).all (fun i => (tbl t k i : BitVec w) == iter (bitStep P) (8 * (k + 1)) (BitVec.ofNat w i))

theorem tableOK_of_b (t : Array (Array Nat)) (P : BitVec w) (k : Nat) (h : tableOKb w t P k = true) :
    TableOK t P k := by
  intro i hi
  unfold tableOKb at h
  rw [List.all_eq_true] at h
  have := h i (List.mem_range.mpr hi)
  exact eq_of_beq this

theorem toNat_xor_byte_mod (hw : 8 ≤ w) (s : BitVec w) (b : UInt8) :
    (s ^^^ BitVec.ofNat w b.toNat).toNat % 256 = (s.toNat % 256) ^^^ b.toNat := by
  have hb : b.toNat < 256 := b.toNat_lt
  have h2 : (256 : Nat) ≤ 2 ^ w := by
    calc (256 : Nat) = 2 ^ 8 := rfl
      _ ≤ 2 ^ w := Nat.pow_le_pow_right (by omega) hw
  rw [BitVec.toNat_xor, BitVec.toNat_ofNat, Nat.mod_eq_of_lt (by omega : b.toNat < 2 ^ w)]
  rw [show (256 : Nat) = 2 ^ 8 from rfl, Nat.xor_mod_two_pow, Nat.mod_eq_of_lt (a := b.toNat) (by simpa using hb)]

theorem ofNat_byte_shr8 (b : UInt8) : (BitVec.ofNat w b.toNat) >>> 8 = 0 := by
  apply BitVec.eq_of_toNat_eq
  have hb : b.toNat < 256 := b.toNat_lt
  rw [BitVec.toNat_ushiftRight, BitVec.toNat_ofNat, Nat.shiftRight_eq_div_pow]
  have : b.toNat % 2 ^ w ≤ b.toNat := Nat.mod_le _ _
  show _ = 0
  apply Nat.div_eq_of_lt
  omega

/-- **The byte-table step is the bit-serial specification of one byte.** -/
theorem crcByteStep_eq_spec (hw : 8 ≤ w) (t : Array (Array Nat)) (P : BitVec w)
    (ht : TableOK t P 0) (s : BitVec w) (b : UInt8) :
    crcByteStep t s b = crcSpecByte P s b := by
  unfold crcByteStep crcSpecByte
  rw [iter8_split P (s ^^^ BitVec.ofNat w b.toNat)]
  have hidx : (s.toNat % 256) ^^^ b.toNat < 256 := by
    rw [← toNat_xor_byte_mod hw]; exact Nat.mod_lt _ (by omega)
  rw [ht _ hidx]
  unfold lowByte
  rw [toNat_xor_byte_mod hw, BitVec.ushiftRight_xor_distrib, ofNat_byte_shr8]
  simp

theorem crcBytewise_eq_spec (hw : 8 ≤ w) (t : Array (Array Nat)) (P : BitVec w)
    (ht : TableOK t P 0) (s : BitVec w) (x : List UInt8) :
    crcBytewise t s x = crcSpecFold P s x := by
  unfold crcBytewise crcSpecFold
  induction x generalizing s with
  | nil => rfl
  | cons b bs ih => simp only [List.foldl_cons, crcByteStep_eq_spec hw t P ht, ih]

theorem crcSpecUp_append (P : BitVec w) (st : BitVec w) (a b : List UInt8) :
    crcSpecUp P (crcSpecUp P st a) b = crcSpecUp P st (a ++ b) := by
  simp only [crcSpecUp, crcSpecFold, BitVec.not_not, List.foldl_append]

end WuffsVerif.StdHash

namespace WuffsVerif.StdHash

/-! ### Checking the regenerated tables cheaply (Nat arithmetic, kernel-accelerated) -/

/-- `bitStep` on naturals -/
def natBitStep (P x : Nat) : Nat := if x % 2 = 1 then (x / 2) ^^^ P else x / 2

/-- raw entry of a regenerated table -/
@[inline] def tblNat (t : Array (Array Nat)) (k i : Nat) : Nat := (t.getD k #[]).getD i 0

/-- rows `r, L r, L (L r), …` (`n` of them), `L` = 8 bit steps applied entry-wise -/
def rowsFrom (P : Nat) (r : List Nat) : Nat → List (List Nat)
  | 0 => []
  | n + 1 => r :: rowsFrom P (r.map (iter (natBitStep P) 8)) n

/-- the `n` slicing tables recomputed from the polynomial alone -/
def specTables (P : Nat) (n : Nat) : List (List Nat) :=
  rowsFrom P ((List.range 256).map (iter (natBitStep P) 8)) n

/-- the regenerated tables equal the recomputed ones (sequential comparison: cheap in the kernel) -/
def tablesCheck (t : Array (Array Nat)) (P : Nat) (n : Nat) : Bool :=
  t.toList.map Array.toList == specTables P n

variable {w : Nat}

theorem toNat_bitStep (P x : BitVec w) : (bitStep P x).toNat = natBitStep P.toNat x.toNat := by
  unfold bitStep natBitStep
  have h0 : x.getLsbD 0 = decide (x.toNat % 2 = 1) := by
    rw [BitVec.getLsbD, Nat.testBit_zero]
  rw [h0]
  by_cases h : x.toNat % 2 = 1
  · simp [h, BitVec.toNat_xor, BitVec.toNat_ushiftRight, Nat.shiftRight_eq_div_pow]
  · simp [h, BitVec.toNat_ushiftRight, Nat.shiftRight_eq_div_pow]

theorem toNat_iter_bitStep (P : BitVec w) (n : Nat) (x : BitVec w) :
    (iter (bitStep P) n x).toNat = iter (natBitStep P.toNat) n x.toNat := by
  induction n generalizing x with
  | zero => rfl
  | succ n ih => simp only [iter, ih, toNat_bitStep]

theorem iter_iter8 {α : Type} (f : α → α) (k : Nat) (a : α) : iter (iter f 8) k a = iter f (8 * k) a := by
  induction k generalizing a with
  | zero => rfl
  | succ k ih =>
    rw [show 8 * (k + 1) = 8 + 8 * k by omega, iter_add f 8 (8 * k)]
    show iter (iter f 8) k (iter f 8 a) = _
    exact ih _

theorem rowsFrom_getD (P : Nat) (n : Nat) : ∀ (r : List Nat) (k : Nat), k < n →
    (rowsFrom P r n).getD k [] = r.map (iter (iter (natBitStep P) 8) k) := by
  induction n with
  | zero => intro r k hk; omega
  | succ n ih =>
    intro r k hk
    cases k with
    | zero => simp [rowsFrom, iter]
    | succ k =>
      simp only [rowsFrom, List.getD_cons_succ]
      rw [ih _ k (by omega), List.map_map]
      rfl

theorem specTables_entry (P n k i : Nat) (hk : k < n) (hi : i < 256) :
    ((specTables P n).getD k []).getD i 0 = iter (natBitStep P) (8 * (k + 1)) i := by
  unfold specTables
  rw [rowsFrom_getD P n _ k hk, List.map_map]
  rw [List.getD_eq_getElem?_getD, List.getElem?_map, List.getElem?_range hi]
  simp only [Option.map_some, Option.getD_some, Function.comp]
  rw [iter_iter8, show 8 * (k + 1) = 8 + 8 * k by omega, iter_add]

theorem tblNat_of_check (t : Array (Array Nat)) (P n : Nat) (h : tablesCheck t P n = true)
    (k i : Nat) (hk : k < n) (hi : i < 256) :
    tblNat t k i = iter (natBitStep P) (8 * (k + 1)) i := by
  unfold tablesCheck at h
  have h' := eq_of_beq h
  rw [← specTables_entry P n k i hk hi, ← h']
  unfold tblNat
  have e : (List.map Array.toList t.toList).getD k [] = (t.getD k #[]).toList := by
    rw [List.getD_eq_getElem?_getD, List.getElem?_map, Array.getElem?_toList, Array.getD_eq_getD_getElem?]
    cases t[k]? <;> simp
  rw [e, List.getD_eq_getElem?_getD, Array.getElem?_toList, Array.getD_eq_getD_getElem?]

/-- From the cheap check to `TableOK` for every table. -/
theorem tableOK_of_check (hw : 8 ≤ w) (t : Array (Array Nat)) (P : BitVec w) (n : Nat)
    (h : tablesCheck t P.toNat n = true) : ∀ k, k < n → TableOK t P k := by
  have h256 : (256 : Nat) ≤ 2 ^ w := by
    calc (256 : Nat) = 2 ^ 8 := rfl
      _ ≤ 2 ^ w := Nat.pow_le_pow_right (by omega) hw
  intro k hk i hi
  unfold tbl
  have := tblNat_of_check t P.toNat n h k i hk hi
  unfold tblNat at this
  rw [this]
  apply BitVec.eq_of_toNat_eq
  rw [toNat_iter_bitStep, BitVec.toNat_ofNat, BitVec.toNat_ofNat, Nat.mod_eq_of_lt (a := i) (by omega),
    Nat.mod_eq_of_lt]
  rw [← Nat.mod_eq_of_lt (a := i) (b := 2 ^ w) (by omega), ← BitVec.toNat_ofNat, ← toNat_iter_bitStep]
  exact BitVec.isLt _

end WuffsVerif.StdHash
