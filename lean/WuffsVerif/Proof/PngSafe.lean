/-
Safety of `Encode` (Model/Png/Uncomp.lean) for EVERY writer (failing or not) and every prior buffer
content: no store or slice bound leaves the 65536-byte buffer (`oob` stays false), `ej ≤ ejMax` at
every loop boundary, and a writer error stops `Encode` at exactly the failing call.
-/
import WuffsVerif.Proof.PngBuf

namespace WuffsVerif.Png.Uncomp
open WuffsVerif.Hash WuffsVerif.Gen.C19

/-- an encoder that Go could hold: 65536 bytes, not panicked -/
def Usable (e : Enc) : Prop := e.buf.size = 65536 ∧ e.oob = false

theorem Usable.blit {e : Enc} (h : Usable e) (i : Nat) (l : List UInt8) (hi : i + l.length ≤ 65536) :
    Usable (e.blit i l) :=
  ⟨by rw [Enc.blit_size, h.1], by rw [Enc.blit_oob _ _ _ (by rw [h.1]; exact hi), h.2]⟩

theorem Usable.set {e : Enc} (h : Usable e) (i : Nat) (v : UInt8) (hi : i < 65536) : Usable (e.set i v) :=
  ⟨by rw [Enc.set_size, h.1], by rw [Enc.set_oob _ _ _ (by rw [h.1]; exact hi), h.2]⟩

/-- bookkeeping of the failing writer: while `ok`, the failing call has not been made; once not
`ok`, the failing call was the last one. -/
def WOk (f : Option Nat) (w : Writer) (ok : Bool) : Prop :=
  w.failAt = f ∧
  match f with
  | none => ok = true
  | some k => (ok = true → w.writes.size ≤ k) ∧ (ok = false → w.writes.size = k + 1)

variable {f : Option Nat}

theorem WOk.write {w : Writer} (h : WOk f w true) (x : Array UInt8) : WOk f (w.write x).1 (w.write x).2 := by
  obtain ⟨hf, h⟩ := h
  unfold WOk
  unfold Writer.write
  refine ⟨hf, ?_⟩
  cases f with
  | none => simp [hf]
  | some k =>
    have h1 : w.writes.size ≤ k := h.1 rfl
    simp only [Array.size_push, hf]
    by_cases hk : w.writes.size = k
    · simp [hk]
    · have : (some k != some w.writes.size) = true := by
        simp; omega
      simp only [this]
      constructor
      · intro _; omega
      · intro h; cases h

theorem updateAdler32_usable {e : Enc} (h : Usable e) (ei ej : Nat) : Usable (updateAdler32 e ei ej) := by
  unfold updateAdler32
  exact h.blit _ _ (by simp)

theorem blockHeader_usable {e : Enc} (h : Usable e) (ei ej : Nat) (final : Bool) (hei : ei ≤ 100) :
    Usable (blockHeader e ei ej final) := by
  unfold blockHeader
  exact h.blit _ _ (by simp; omega)

theorem appendAdler_usable {e : Enc} (h : Usable e) (ej : Nat) (final : Bool) (hej : ej ≤ 65528) :
    Usable (appendAdler e ej final).1 ∧ (appendAdler e ej final).2 ≤ 65532 := by
  unfold appendAdler
  cases final
  · exact ⟨h, by simp; omega⟩
  · simp only [↓reduceIte]
    exact ⟨(((h.set _ _ (by omega)).set _ _ (by omega)).set _ _ (by omega)).set _ _ (by omega), by omega⟩

theorem appendCRC_usable {e : Enc} (h : Usable e) (c ej : Nat) (hej : ej ≤ 65532) :
    Usable (appendCRC e c ej).1 ∧ (appendCRC e c ej).2 ≤ 65536 := by
  unfold appendCRC
  have : ¬ ej > e.buf.size := by rw [h.1]; omega
  simp only [this, ↓reduceIte]
  exact ⟨h.blit _ _ (by rw [be32]; simp; omega), by omega⟩

theorem emit_usable {e : Enc} {w : Writer} (h : Usable e) (hw : WOk f w true) (ej : Nat) (final : Bool)
    (hej : ej ≤ 65536) : Usable (emit e w ej final).e ∧ WOk f (emit e w ej final).w (emit e w ej final).ok := by
  unfold emit
  cases final
  · have : ¬ ej > e.buf.size := by rw [h.1]; omega
    simp only [Bool.not_false, ↓reduceIte, this]
    have hw1 := hw.write (e.buf.extract 0 ej)
    cases hok : (w.write (e.buf.extract 0 ej)).2
    · rw [hok] at hw1
      simp only [Bool.not_false, ↓reduceIte]
      exact ⟨h, hw1⟩
    · rw [hok] at hw1
      simp only [Bool.not_true, Bool.false_eq_true, ↓reduceIte]
      exact ⟨h.blit _ _ (by decide), hw1⟩
  · simp only [Bool.not_true, Bool.false_eq_true, ↓reduceIte]
    by_cases hsep : ej + 12 > 65536
    · simp only [hsep, decide_true, Bool.not_true, Bool.false_eq_true, ↓reduceIte]
      have : ¬ ej > e.buf.size := by rw [h.1]; omega
      simp only [this, ↓reduceIte]
      have hw1 := hw.write (e.buf.extract 0 ej)
      cases hok : (w.write (e.buf.extract 0 ej)).2
      · rw [hok] at hw1
        simp only [Bool.not_false, ↓reduceIte]
        exact ⟨h, hw1⟩
      · rw [hok] at hw1
        simp only [Bool.not_true, Bool.false_eq_true, ↓reduceIte]
        exact ⟨h.blit _ _ (by decide), hw1.write _⟩
    · simp only [hsep, decide_false, Bool.not_false, ↓reduceIte]
      have hl : iendChunk.length = 12 := rfl
      have h2 : Usable (e.blit ej iendChunk) := h.blit _ _ (by rw [hl]; omega)
      have : ¬ ej + 12 > (e.blit ej iendChunk).buf.size := by rw [h2.1]; omega
      simp only [this, ↓reduceIte]
      have hw1 := hw.write ((e.blit ej iendChunk).buf.extract 0 (ej + 12))
      cases hok : (w.write ((e.blit ej iendChunk).buf.extract 0 (ej + 12))).2
      · rw [hok] at hw1
        simp only [Bool.not_false, ↓reduceIte]
        exact ⟨h2, hw1⟩
      · rw [hok] at hw1
        simp only [Bool.not_true, Bool.false_eq_true, ↓reduceIte]
        exact ⟨h2, hw1⟩

theorem flushTail_usable {e : Enc} {w : Writer} (h : Usable e) (hw : WOk f w true) (ej : Nat) (final : Bool)
    (c ei : Nat) (hei : ei ≤ 100) (hej : ej ≤ 65528) :
    Usable (flushTail e w ej final c ei).e ∧ WOk f (flushTail e w ej final c ei).w (flushTail e w ej final c ei).ok := by
  unfold flushTail
  have h1 := blockHeader_usable h ei ej final hei
  have h2 := updateAdler32_usable h1 ei ej
  obtain ⟨h3, h3'⟩ := appendAdler_usable h2 ej final hej
  obtain ⟨h4, h4'⟩ := appendCRC_usable h3 c _ h3'
  exact emit_usable h4 hw _ final h4'

/-- `flush` keeps the encoder usable and the writer bookkeeping, whatever the buffer holds. -/
theorem flush_usable {e : Enc} {w : Writer} (h : Usable e) (hw : WOk f w true) (ej : Nat) (final : Bool)
    (hej : ej ≤ 65528) :
    Usable (flush e w ej final).e ∧ WOk f (flush e w ej final).w (flush e w ej final).ok := by
  unfold flush
  split
  · exact flushTail_usable (h.blit _ _ (by rw [be32]; simp)) hw ej final _ _ (by decide) hej
  · exact flushTail_usable (h.blit _ _ (by rw [be32]; simp)) hw ej final _ _ (by decide) hej

/-- safety invariant of the loops -/
structure Safe (f : Option Nat) (s : LoopSt) : Prop where
  usable : Usable s.e
  ej : s.ej ≤ 65528
  wok : WOk f s.w s.ok

theorem Safe.reserve {s : LoopSt} (h : Safe f s) (hok : s.ok = true) (n : Nat) (hn : n ≤ 64) :
    Safe f (Uncomp.reserve s n) ∧ ((Uncomp.reserve s n).ok = true → (Uncomp.reserve s n).ej + n ≤ 65528) := by
  unfold Uncomp.reserve
  by_cases hfit : s.ej + n > ejMax
  · simp only [hfit, ↓reduceIte]
    have hw : WOk f s.w true := by rw [← hok]; exact h.wok
    obtain ⟨f1, f2⟩ := flush_usable h.usable hw s.ej false h.ej
    exact ⟨⟨f1, by simp only [eiLater]; omega, f2⟩, fun _ => by simp only [eiLater]; omega⟩
  · simp only [hfit, ↓reduceIte]
    exact ⟨h, fun _ => by simp only [ejMax] at hfit; omega⟩

theorem pixLoop_safe (pix : Array UInt8) (n k : Nat) (hn : n ≤ 64) (cnt off : Nat) (s : LoopSt)
    (h : Safe f s) (hok : s.ok = true) : Safe f (pixLoop pix n k cnt off s) := by
  induction cnt generalizing off s with
  | zero => simpa [pixLoop] using h
  | succ cnt ih =>
    rw [pixLoop]
    obtain ⟨r1, r2⟩ := h.reserve hok n hn
    cases hrok : (Uncomp.reserve s n).ok
    · simpa [hrok] using r1
    · simp only [↓reduceIte]
      have room := r2 hrok
      apply ih
      · refine ⟨?_, by simp only; omega, ?_⟩
        · simp only
          rw [copyN_eq_blit]
          exact r1.usable.blit _ _ (by simp; omega)
        · have := r1.wok
          rw [hrok] at this
          exact this
      · rfl

theorem rowLoop_safe (pix : Array UInt8) (plen width stride n k : Nat) (hn : n ≤ 64)
    (rows y : Nat) (s : LoopSt) (h : Safe f s) (hok : s.ok = true) (hlen : pix.size < 9223372036854775808)
    (hple : plen ≤ pix.size)
    (hpix : ∀ y', y ≤ y' → y' < y + rows → y' * stride + k * width ≤ plen) :
    Safe f (rowLoop pix plen width (stride : Int) n k rows y s) := by
  induction rows generalizing y s with
  | zero => simpa [rowLoop] using h
  | succ rows ih =>
    rw [rowLoop]
    obtain ⟨r1, r2⟩ := h.reserve hok 1 (by omega)
    cases hrok : (Uncomp.reserve s 1).ok
    · simpa [hrok] using r1
    · simp only [↓reduceIte]
      have room := r2 hrok
      have hrow := hpix y (by omega) (by omega)
      have hcast : wrapInt64 ((y : Int) * (stride : Int)) = ((y * stride : Nat) : Int) := by
        rw [← Int.natCast_mul]; exact wrapInt64_natCast _ (by omega)
      have hno : ¬ (wrapInt64 ((y : Int) * (stride : Int)) < 0 ∨
          wrapInt64 ((y : Int) * (stride : Int)) > (plen : Int) ∨
          wrapInt64 ((y : Int) * (stride : Int)) + ((k * width : Nat) : Int) > (pix.size : Int)) := by
        rw [hcast]; omega
      simp only [hno, ↓reduceIte]
      have hs1 : Safe f ⟨(Uncomp.reserve s 1).e.set (Uncomp.reserve s 1).ej 0, (Uncomp.reserve s 1).w,
          (Uncomp.reserve s 1).ej + 1, true⟩ := by
        refine ⟨r1.usable.set _ _ (by omega), by simp only; omega, ?_⟩
        have := r1.wok
        rw [hrok] at this
        exact this
      have hp := pixLoop_safe pix n k hn width (wrapInt64 ((y : Int) * (stride : Int))).toNat _ hs1 rfl
      cases hpok : (pixLoop pix n k width (wrapInt64 ((y : Int) * (stride : Int))).toNat
          ⟨(Uncomp.reserve s 1).e.set (Uncomp.reserve s 1).ej 0, (Uncomp.reserve s 1).w,
            (Uncomp.reserve s 1).ej + 1, true⟩).ok
      · simpa [hpok] using hp
      · simp only [↓reduceIte]
        exact ih (y + 1) _ hp hpok (fun y' h1 h2 => hpix y' (by omega) (by omega))

theorem init_usable {e : Enc} (h : Usable e) (w h' : Nat) (d c : UInt8) : Usable (init e w h' d c) := by
  unfold init
  have hb : ∀ n, (be32 n).length = 4 := fun _ => rfl
  have h1 := h.blit 0x0000 pngSignature (by decide)
  have h2 := h1.blit 0x0008 [0, 0, 0, 0x0D] (by decide)
  have h3 := h2.blit 0x000C tagIHDR (by decide)
  have h4 := h3.blit 0x0010 (be32 w) (by rw [hb]; omega)
  have h5 := h4.blit 0x0014 (be32 h') (by rw [hb]; omega)
  have h6 := h5.blit 0x0018 [d, pngFileFormatEncoding c, 0, 0, 0] (by simp)
  have h7 := h6.blit 0x001D (be32 (crc32IEEE
    ((((((e.blit 0x0000 pngSignature).blit 0x0008 [0, 0, 0, 0x0D]).blit 0x000C tagIHDR).blit 0x0010 (be32 w)).blit
      0x0014 (be32 h')).blit 0x0018 [d, pngFileFormatEncoding c, 0, 0, 0]).buf 0x000C 0x001D).toNat) (by rw [hb]; omega)
  have h8 := h7.blit 0x0021 [0, 0, 0, 0] (by decide)
  have h9 := h8.blit 0x0025 tagIDAT (by decide)
  have h10 := h9.blit 0x0029 [0x78, 0x01] (by decide)
  have h11 := h10.blit 0x002B [0, 0, 0, 0, 0] (by decide)
  exact h11.blit 0xFFFC [0, 0, 0, 1] (by decide)

/-- the end of `Encode` after the row loop: the final flush and the returned error -/
def finish (s : LoopSt) : Result :=
  if s.ok then
    let r := flush s.e s.w s.ej true
    ⟨r.e, r.w, if r.e.oob then .panic else if r.ok then .ok else .writeError⟩
  else
    ⟨s.e, s.w, if s.e.oob then .panic else .writeError⟩

theorem encode_valid_eq (e : Enc) (w : Writer) (pix : Array UInt8) (plen width height stride : Nat) (depth colorType : UInt8)
    (hw2 : width ≤ 0xFFFFFF) (hh2 : height ≤ 0xFFFFFF)
    (hd : depth = 8 ∨ depth = 16) (hc : colorType = 1 ∨ colorType = 2 ∨ colorType = 3) :
    encode e w pix plen width height stride depth colorType =
      finish (rowLoop pix plen width (stride : Int) (loopParams depth colorType).1 (loopParams depth colorType).2 height 0
        ⟨init e width height depth colorType, w, eiFirst, true⟩) := by
  have hvalid : ¬ ((width : Int) < 0 ∨ (height : Int) < 0 ∨ (depth ≠ 8 ∧ depth ≠ 16) ∨
      pngFileFormatEncoding colorType = 0xFF) := by
    rcases hd with rfl | rfl <;> rcases hc with rfl | rfl | rfl <;> simp [pngFileFormatEncoding] <;> omega
  have hsize : ¬ ((width : Int) > 0xFFFFFF ∨ (height : Int) > 0xFFFFFF) := by omega
  unfold encode finish
  simp only [hvalid, hsize, ↓reduceIte, Int.toNat_natCast]

theorem finish_safe (s : LoopSt) (hs : Safe f s) :
    Usable (finish s).e ∧
    (((finish s).status = .ok ∧ WOk f (finish s).w true) ∨
     ((finish s).status = .writeError ∧ WOk f (finish s).w false)) := by
  unfold finish
  cases hok : s.ok
  · simp only [Bool.false_eq_true, ↓reduceIte, hs.usable.2]
    refine ⟨hs.usable, Or.inr ⟨trivial, ?_⟩⟩
    have := hs.wok
    rw [hok] at this
    exact this
  · simp only [↓reduceIte]
    have hwok : WOk f s.w true := by rw [← hok]; exact hs.wok
    obtain ⟨f1, f2⟩ := flush_usable hs.usable hwok s.ej true hs.ej
    refine ⟨f1, ?_⟩
    simp only [f1.2, Bool.false_eq_true, ↓reduceIte]
    cases hfok : (flush s.e s.w s.ej true).ok
    · rw [hfok] at f2
      exact Or.inr ⟨by simp, f2⟩
    · rw [hfok] at f2
      exact Or.inl ⟨by simp, f2⟩

/-- `Encode` on valid arguments, ANY writer, ANY prior buffer content: the encoder stays usable
(all stores in range), the status is `ok` or `writeError`, and it is `writeError` exactly when the
failing `Write` call was made — which is then the last call. -/
theorem encode_safe (e : Enc) (w : Writer) (pix : Array UInt8) (plen width height stride : Nat) (depth colorType : UInt8)
    (he : Usable e) (hw : WOk f w true) (hlen : pix.size < 9223372036854775808)
    (hple : plen ≤ pix.size)
    (hw2 : width ≤ 0xFFFFFF) (hh2 : height ≤ 0xFFFFFF)
    (hd : depth = 8 ∨ depth = 16) (hc : colorType = 1 ∨ colorType = 2 ∨ colorType = 3)
    (hpix : ∀ y', y' < height → y' * stride + (loopParams depth colorType).2 * width ≤ plen) :
    Usable (encode e w pix plen width height stride depth colorType).e ∧
    (((encode e w pix plen width height stride depth colorType).status = .ok ∧
        WOk f (encode e w pix plen width height stride depth colorType).w true) ∨
     ((encode e w pix plen width height stride depth colorType).status = .writeError ∧
        WOk f (encode e w pix plen width height stride depth colorType).w false)) := by
  have hn64 : (loopParams depth colorType).1 ≤ 64 := by
    rcases hd with rfl | rfl <;> rcases hc with rfl | rfl | rfl <;> decide
  rw [encode_valid_eq e w pix plen width height stride depth colorType hw2 hh2 hd hc]
  apply finish_safe
  have hi := init_usable he width height depth colorType
  have h0 : ∀ e0 : Enc, Usable e0 → Safe f ⟨e0, w, eiFirst, true⟩ := by
    intro e0 h
    refine ⟨h, ?_, hw⟩
    show eiFirst ≤ 65528
    decide
  exact rowLoop_safe pix plen width stride _ _ hn64 height 0 _ (h0 _ hi) rfl hlen hple (fun y' _ h2 => hpix y' (by omega))

/-- Rejected arguments: an error status, the encoder and the writer untouched (nothing written). -/
theorem encode_rejects (e : Enc) (w : Writer) (pix : Array UInt8) (plen : Nat) (width height stride : Int) (depth colorType : UInt8)
    (hbad : width < 0 ∨ height < 0 ∨ (depth ≠ 8 ∧ depth ≠ 16) ∨ ¬ (colorType = 1 ∨ colorType = 2 ∨ colorType = 3)
      ∨ width > 0xFFFFFF ∨ height > 0xFFFFFF) :
    ((encode e w pix plen width height stride depth colorType).status = .invalidArgument ∨
     (encode e w pix plen width height stride depth colorType).status = .unsupportedSize) ∧
    (encode e w pix plen width height stride depth colorType).e = e ∧
    (encode e w pix plen width height stride depth colorType).w = w := by
  unfold encode
  by_cases h1 : width < 0 ∨ height < 0 ∨ (depth ≠ 8 ∧ depth ≠ 16) ∨ pngFileFormatEncoding colorType = 0xFF
  · simp [h1]
  · simp only [h1, ↓reduceIte]
    have h2 : width > 0xFFFFFF ∨ height > 0xFFFFFF := by
      rcases hbad with h | h | h | h | h | h
      · exact absurd (Or.inl h) h1
      · exact absurd (Or.inr (Or.inl h)) h1
      · exact absurd (Or.inr (Or.inr (Or.inl h))) h1
      · exfalso
        apply h1
        right; right; right
        unfold pngFileFormatEncoding
        by_cases c1 : colorType = 1
        · exact absurd (Or.inl c1) h
        · by_cases c2 : colorType = 2
          · exact absurd (Or.inr (Or.inl c2)) h
          · by_cases c3 : colorType = 3
            · exact absurd (Or.inr (Or.inr c3)) h
            · simp [c1, c2, c3]
      · exact Or.inl h
      · exact Or.inr h
    simp [h2]

end WuffsVerif.Png.Uncomp
