/-
C12, the Wuffs formatter, idempotence, part 2: one iteration of `Render`'s line loop as an
equation (`renderLoop_step`): flush the comments of the lines before, then `lineStep` — the
layout of the line (`lineLayout`: indentation, how many names stand before an aligned ":", the
padding, the new `inStruct` / `varNameLength`) as a function of the line-number-free part of the
state, the line's tokens and the measured name length; and the layout of a line read back from
the output is the layout of the source line (`lineLayout_out`).  Core Lean only.
-/
import WuffsVerif.Proof.RenderIdemBase

namespace WuffsVerif.Render
open WuffsVerif.FmtToken WuffsVerif.Gen.C12

/-- how `Render` lays out one line of tokens -/
structure Layout where
  /-- indentation, in tabs -/
  z : Int
  /-- number of tokens written as names before an aligned ":" (0: no alignment) -/
  c : Nat
  /-- number of spaces after the names -/
  pad : Nat
  inStruct : Bool
  vnl : Nat
deriving DecidableEq, Repr

/-- "Collapse one level of indentation for a closing token / hanging indent" -/
def lineAdj (hanging : Bool) (lt0 : Tok) : Int :=
  if lt0.id == idCloseDoubleCurly then 0
  else if lt0.isClose then -1
  else if hanging && lt0.id != idOpenCurly && lt0.id != idOpenDoubleCurly then 2
  else 0

/-- the layout of the line `lt` (trailing semicolons stripped); `mv` is what
`measureVarNameLength` returns for this line and the following ones -/
def lineLayout (indent : Nat) (hanging inStruct : Bool) (vnl : Nat) (lt : List Tok) (mv : Nat) : Layout :=
  match lt with
  | [] => ⟨indent, 0, 0, inStruct, 0⟩
  | lt0 :: ltRest =>
    let z : Int := (indent : Int) + lineAdj hanging lt0
    if (lt0 :: ltRest).length < 4 then ⟨z, 0, 0, inStruct, 0⟩
    else
      let id0 := lt0.id
      let id1 := (ltRest.head?.map (·.id)).getD 0
      let priPub := id0 == idPri || id0 == idPub
      let inStruct' := if priPub then id1 == idStruct else inStruct
      let vnl1 := if priPub && id1 != idConst then 0 else vnl
      if id1 == idConst || id0 == idVar || inStruct' then
        let vnl2 := if vnl1 == 0 then mv else vnl1
        match findColon (lt0 :: ltRest) with
        | some colon =>
          ⟨z, colon, vnl2 - (((lt0 :: ltRest).take colon).getLast?.map (·.text.length)).getD 0, inStruct', vnl2⟩
        | none => ⟨z, 0, 0, inStruct', vnl2⟩
      else ⟨z, 0, 0, inStruct', 0⟩

/-- the end of the loop body: render the tokens, append the line's comment, next state -/
def lineTail (comments : Array Bytes) (f : Nat) (src : List Tok) (line : Nat) (stripped : Bool)
    (out buf1 : Bytes) (lts : List Tok) (inStruct : Bool) (vnl indent : Nat) : Option RSt :=
  match renderToks ⟨buf1, indent, none, false⟩ lts with
  | none => none
  | some a =>
    let buf := a.buf ++ commentText comments line 0 false ++ [10]
    let lastID := (lts.getLast?.map (·.id)).getD 0
    renderLoop comments f
      { out := out ++ buf, indent := a.indent, commentLine := line + 1, inStruct := inStruct,
        varNameLength := vnl, prevLine := line,
        prevLineHanging := !stripped && lastID != idOpenCurly && lastID != idOpenDoubleCurly } src

/-- `renderToks` as `lineIndent` and `lineBody` -/
theorem lineTail_eq (comments : Array Bytes) (f : Nat) (src : List Tok) (line : Nat) (stripped : Bool)
    (out buf1 : Bytes) (lts : List Tok) (inStruct : Bool) (vnl indent : Nat) :
    lineTail comments f src line stripped out buf1 lts inStruct vnl indent =
      match lineIndent indent lts with
      | none => none
      | some i' =>
        renderLoop comments f
          { out := out ++ (buf1 ++ lineBody none false lts ++ commentText comments line 0 false ++ [10]),
            indent := i', commentLine := line + 1, inStruct := inStruct, varNameLength := vnl, prevLine := line,
            prevLineHanging := !stripped && (lts.getLast?.map (·.id)).getD 0 != idOpenCurly &&
              (lts.getLast?.map (·.id)).getD 0 != idOpenDoubleCurly } src := by
  unfold lineTail
  have h1 := renderToks_indent lts ⟨buf1, indent, none, false⟩
  cases hr : renderToks ⟨buf1, indent, none, false⟩ lts with
  | none =>
    rw [hr] at h1
    simp only [Option.map_none] at h1
    rw [← h1]
  | some a =>
    rw [hr] at h1
    simp only [Option.map_some] at h1
    have h2 := renderToks_buf lts _ _ hr
    simp only at h2
    rw [← h1]
    simp only [h2]

/-- the body of `Render`'s line loop after the comments of the lines before have been flushed
(state `s`): `lt` are the tokens of the line without its trailing semicolons -/
def lineStep (comments : Array Bytes) (f : Nat) (s : RSt) (line : Nat) (lt : List Tok) (stripped : Bool)
    (src : List Tok) : Option RSt :=
  match lt with
  | [] => renderLoop comments f { s with prevLineHanging := !stripped } src
  | _ :: _ =>
    let blank : Bool := decide (s.prevLine < line - 1)
    let L := lineLayout s.indent s.prevLineHanging s.inStruct (if blank then 0 else s.varNameLength) lt
      (measureVarNameLength lt src)
    lineTail comments f src line stripped (if blank then s.out ++ [10] else s.out)
      (tabs L.z ++ namesBytes (lt.take L.c) ++ List.replicate L.pad 32) (lt.drop L.c) L.inStruct L.vnl s.indent

/-- the body of the loop, verbatim -/
def lineStepRaw (comments : Array Bytes) (f : Nat) (s : RSt) (line : Nat) (lineTokens : List Tok)
    (stripped : Bool) (src : List Tok) : Option RSt :=
  let hanging := s.prevLineHanging
  match lineTokens with
  | [] => renderLoop comments f { s with prevLineHanging := !stripped } src
  | lt0 :: ltRest =>
    let (out, vnl) := if s.prevLine < line - 1 then (s.out ++ [10], 0) else (s.out, s.varNameLength)
    let adj : Int :=
      if lt0.id == idCloseDoubleCurly then 0
      else if lt0.isClose then -1
      else if hanging && lt0.id != idOpenCurly && lt0.id != idOpenDoubleCurly then 2
      else 0
    let buf0 := tabs ((s.indent : Int) + adj)
    let (buf1, lineTokens', inStruct, vnl) :=
      if lineTokens.length < 4 then (buf0, lineTokens, s.inStruct, 0)
      else
        let id0 := lt0.id
        let id1 := (ltRest.head?.map (·.id)).getD 0
        let priPub := id0 == idPri || id0 == idPub
        let inStruct := if priPub then id1 == idStruct else s.inStruct
        let vnl := if priPub && id1 != idConst then 0 else vnl
        if id1 == idConst || id0 == idVar || inStruct then
          let vnl := if vnl == 0 then measureVarNameLength lineTokens src else vnl
          match findColon lineTokens with
          | some colon =>
            let names := lineTokens.take colon
            let nameBytes := names.foldl (fun b t => b ++ t.text ++ [32]) []
            let lastLen := (names.getLast?.map (·.text.length)).getD 0
            (buf0 ++ nameBytes ++ List.replicate (vnl - lastLen) 32, lineTokens.drop colon, inStruct, vnl)
          | none => (buf0, lineTokens, inStruct, vnl)
        else (buf0, lineTokens, inStruct, 0)
    lineTail comments f src line stripped out buf1 lineTokens' inStruct vnl s.indent

theorem renderLoop_raw (comments : Array Bytes) (f : Nat) (s : RSt) (t0 : Tok) (rest : List Tok) :
    renderLoop comments (f + 1) s (t0 :: rest) =
      lineStepRaw comments f
        (flushComments comments ((s.indent : Int) + (if s.prevLineHanging then 2 else 0)) t0.line
          (t0.line - s.commentLine + 1) s)
        t0.line (stripSemicolons (t0 :: rest.takeWhile (·.line == t0.line))).1
        (stripSemicolons (t0 :: rest.takeWhile (·.line == t0.line))).2
        (rest.dropWhile (·.line == t0.line)) := by
  rw [renderLoop]
  rfl

/-- the alignment block of the loop body, as a function of the layout -/
theorem layout_tuple (buf0 : Bytes) (indent : Nat) (hanging inStruct0 : Bool) (vnl0 mv : Nat) (lt0 : Tok)
    (ltRest : List Tok) :
    (if (lt0 :: ltRest).length < 4 then (buf0, lt0 :: ltRest, inStruct0, 0)
      else
        let id0 := lt0.id
        let id1 := (ltRest.head?.map (·.id)).getD 0
        let priPub := id0 == idPri || id0 == idPub
        let inStruct := if priPub then id1 == idStruct else inStruct0
        let vnl := if priPub && id1 != idConst then 0 else vnl0
        if id1 == idConst || id0 == idVar || inStruct then
          let vnl := if vnl == 0 then mv else vnl
          match findColon (lt0 :: ltRest) with
          | some colon =>
            let names := (lt0 :: ltRest).take colon
            let nameBytes := names.foldl (fun b t => b ++ t.text ++ [32]) []
            let lastLen := (names.getLast?.map (·.text.length)).getD 0
            (buf0 ++ nameBytes ++ List.replicate (vnl - lastLen) 32, (lt0 :: ltRest).drop colon, inStruct, vnl)
          | none => (buf0, lt0 :: ltRest, inStruct, vnl)
        else (buf0, lt0 :: ltRest, inStruct, 0) : Bytes × List Tok × Bool × Nat) =
    (let L := lineLayout indent hanging inStruct0 vnl0 (lt0 :: ltRest) mv
     (buf0 ++ namesBytes ((lt0 :: ltRest).take L.c) ++ List.replicate L.pad 32, (lt0 :: ltRest).drop L.c,
       L.inStruct, L.vnl)) := by
  have hnil : ∀ b : Bytes, b ++ namesBytes ([] : List Tok) ++ List.replicate 0 32 = b := by
    intro b; simp [namesBytes]
  unfold lineLayout
  simp only []
  by_cases h4 : (lt0 :: ltRest).length < 4
  · simp only [h4, ↓reduceIte, List.take_zero, List.drop_zero, hnil]
  · simp only [h4, ↓reduceIte]
    generalize (lt0.id == idPri || lt0.id == idPub) = pp
    generalize (ltRest.head?.map (·.id)).getD 0 = id1
    generalize hB : (id1 == idConst || lt0.id == idVar || if pp = true then id1 == idStruct else inStruct0) = B
    cases B with
    | false => simp only [Bool.false_eq_true, ↓reduceIte, List.take_zero, List.drop_zero, hnil]
    | true =>
      simp only [↓reduceIte]
      cases hc : findColon (lt0 :: ltRest) with
      | none => simp only [List.take_zero, List.drop_zero, hnil]
      | some colon => simp only [namesBytes_foldl, List.nil_append]

theorem lineLayout_z (indent : Nat) (hanging inStruct0 : Bool) (vnl0 mv : Nat) (lt0 : Tok) (ltRest : List Tok) :
    (lineLayout indent hanging inStruct0 vnl0 (lt0 :: ltRest) mv).z = (indent : Int) + lineAdj hanging lt0 := by
  unfold lineLayout
  simp only []
  by_cases h4 : (lt0 :: ltRest).length < 4
  · simp only [h4, ↓reduceIte]
  · simp only [h4, ↓reduceIte]
    generalize (lt0.id == idPri || lt0.id == idPub) = pp
    generalize (ltRest.head?.map (·.id)).getD 0 = id1
    generalize hB : (id1 == idConst || lt0.id == idVar || if pp = true then id1 == idStruct else inStruct0) = B
    cases B with
    | false => simp only [Bool.false_eq_true, ↓reduceIte]
    | true =>
      simp only [↓reduceIte]
      cases hc : findColon (lt0 :: ltRest) <;> rfl

theorem lineStepRaw_eq (comments : Array Bytes) (f : Nat) (s : RSt) (line : Nat) (lt : List Tok)
    (stripped : Bool) (src : List Tok) :
    lineStepRaw comments f s line lt stripped src = lineStep comments f s line lt stripped src := by
  cases lt with
  | nil => rfl
  | cons lt0 ltRest =>
    unfold lineStepRaw lineStep
    simp only []
    rw [layout_tuple _ s.indent s.prevLineHanging]
    by_cases hb : s.prevLine < line - 1
    · simp only [hb, ↓reduceIte, decide_true, lineLayout_z]
      rfl
    · simp only [hb, ↓reduceIte, decide_false, Bool.false_eq_true, lineLayout_z]
      rfl

/-- One iteration of `Render`'s line loop. -/
theorem renderLoop_step (comments : Array Bytes) (f : Nat) (s : RSt) (t0 : Tok) (rest : List Tok) :
    renderLoop comments (f + 1) s (t0 :: rest) =
      lineStep comments f
        (flushComments comments ((s.indent : Int) + (if s.prevLineHanging then 2 else 0)) t0.line
          (t0.line - s.commentLine + 1) s)
        t0.line (stripSemicolons (t0 :: rest.takeWhile (·.line == t0.line))).1
        (stripSemicolons (t0 :: rest.takeWhile (·.line == t0.line))).2
        (rest.dropWhile (·.line == t0.line)) := by
  rw [renderLoop_raw, lineStepRaw_eq]

/-! ### the layout of a line read back -/

/-- the text starts with a digit -/
def numHead (t : Tok) : Bool :=
  match t.text with
  | c :: _ => numeric c
  | [] => false

/-- source token and the token read back: same class; the same text unless it is a number -/
def OutRel (a a' : Tok) : Prop := SameClass a a' ∧ (numHead a = false → a'.text = a.text)

theorem outRel_raw (t : Tok) (l : Nat) : OutRel t (rawtok l t) := ⟨rawtok_sameClass t l, fun _ => rfl⟩

theorem outRel_retok {t : Tok} (h : wfTok t = true) (l : Nat) : OutRel t (retok l t) := by
  refine ⟨retok_sameClass h l, ?_⟩
  intro hn
  obtain ⟨c, σ, _, hh⟩ := tokText_ne_nil h
  cases htxt : t.text with
  | nil => rw [htxt] at hh; simp at hh
  | cons d δ =>
    unfold numHead at hn
    rw [htxt] at hn
    show tokText t = _
    rw [tokText_not_numeric t d δ htxt hn, htxt]

theorem Forall2.getElem? {α β : Type} {R : α → β → Prop} {l1 : List α} {l2 : List β} (h : Forall2 R l1 l2) :
    ∀ (i : Nat) (a : α), l1[i]? = some a → ∃ b, l2[i]? = some b ∧ R a b := by
  induction h with
  | nil => intro i a h; simp at h
  | cons hr _ ih =>
    intro i a h
    cases i with
    | zero => simp only [List.getElem?_cons_zero, Option.some.injEq] at h; subst h; exact ⟨_, rfl, hr⟩
    | succ i => simp only [List.getElem?_cons_succ] at h ⊢; exact ih i a h

theorem Forall2.getElem?_none {α β : Type} {R : α → β → Prop} {l1 : List α} {l2 : List β} (h : Forall2 R l1 l2)
    (i : Nat) (hn : l1[i]? = none) : l2[i]? = none := by
  have hl := h.length_eq
  rw [List.getElem?_eq_none_iff] at hn ⊢
  omega

theorem Forall2.map_eq {α β γ : Type} {R : α → β → Prop} (f : α → γ) (g : β → γ) {l1 : List α} {l2 : List β}
    (h : Forall2 R l1 l2) (hfg : ∀ a b, R a b → g b = f a) : l2.map g = l1.map f := by
  induction h with
  | nil => rfl
  | cons hr _ ih => simp only [List.map_cons, hfg _ _ hr, ih]

theorem outRel_ids {A A' : List Tok} (h : Forall2 OutRel A A') : A'.map (·.id) = A.map (·.id) :=
  h.map_eq _ _ (fun _ _ hr => hr.1.1)

theorem findColon_congr : ∀ (A A' : List Tok), A'.map (·.id) = A.map (·.id) → findColon A' = findColon A := by
  intro A
  induction A with
  | nil =>
    intro A' h
    cases A' with
    | nil => rfl
    | cons a as => simp at h
  | cons t ts ih =>
    intro A' h
    cases A' with
    | nil => simp at h
    | cons a as =>
      simp only [List.map_cons, List.cons.injEq] at h
      unfold findColon at ih ⊢
      rw [List.findIdx?_cons, List.findIdx?_cons, h.1, ih as h.2]

theorem getLast?_take_succ {α : Type} : ∀ (l : List α) (n : Nat), n < l.length → (l.take (n + 1)).getLast? = l[n]? := by
  intro l
  induction l with
  | nil => intro n h; simp at h
  | cons a as ih =>
    intro n h
    cases n with
    | zero => simp
    | succ n =>
      simp only [List.length_cons] at h
      rw [List.take_succ_cons, List.getElem?_cons_succ, ← ih n (by omega)]
      cases hq : as.take (n + 1) with
      | nil =>
        have := congrArg List.length hq
        simp only [List.length_take, List.length_nil] at this
        omega
      | cons b bs => simp

/-- The layout of a line depends on the tokens only through their classes and the length of the
name before the first ":" — so the line read back (related by `OutRel`) has the layout of the
source line, provided no number stands directly before the first ":". -/
theorem lineLayout_rel (indent : Nat) (hanging inStruct0 : Bool) (vnl0 mv : Nat) (A A' : List Tok)
    (h : Forall2 OutRel A A')
    (hnum : ∀ colon a, findColon A = some (colon + 1) → A[colon]? = some a → numHead a = false) :
    lineLayout indent hanging inStruct0 vnl0 A' mv = lineLayout indent hanging inStruct0 vnl0 A mv := by
  have hids := outRel_ids h
  have hcol := findColon_congr A A' hids
  cases h with
  | nil => rfl
  | @cons lt0 lt0' ltRest ltRest' hr0 hrest =>
    have hlen : (lt0' :: ltRest').length = (lt0 :: ltRest).length := by
      have := congrArg List.length hids
      simpa using this
    have hid0 : lt0'.id = lt0.id := hr0.1.1
    have hid1 : (ltRest'.head?.map (·.id)).getD 0 = (ltRest.head?.map (·.id)).getD 0 := by
      have h2 : ltRest'.map (·.id) = ltRest.map (·.id) := outRel_ids hrest
      have := congrArg List.head? h2
      rw [List.head?_map, List.head?_map] at this
      rw [this]
    have hadj : lineAdj hanging lt0' = lineAdj hanging lt0 := by
      unfold lineAdj; rw [hid0, hr0.1.isClose]
    have hpad : ∀ colon, findColon (lt0 :: ltRest) = some colon →
        (((lt0' :: ltRest').take colon).getLast?.map (·.text.length)) =
          (((lt0 :: ltRest).take colon).getLast?.map (·.text.length)) := by
      intro colon hc
      cases colon with
      | zero => rfl
      | succ n =>
        have hlt := findIdx?_lt _ _ _ hc
        rw [getLast?_take_succ _ n (by omega), getLast?_take_succ _ n (by omega)]
        cases hg : (lt0 :: ltRest)[n]? with
        | none => rw [(Forall2.cons hr0 hrest).getElem?_none n hg]
        | some a =>
          obtain ⟨b, hb, hab⟩ := (Forall2.cons hr0 hrest).getElem? n a hg
          rw [hb]
          simp only [Option.map_some, Option.some.injEq]
          rw [hab.2 (hnum n a hc hg)]
    unfold lineLayout
    simp only []
    rw [hlen, hid0, hid1, hadj, hcol]
    by_cases h4 : (lt0 :: ltRest).length < 4
    · simp only [h4, ↓reduceIte]
    · simp only [h4, ↓reduceIte]
      generalize (lt0.id == idPri || lt0.id == idPub) = pp
      generalize (ltRest.head?.map (·.id)).getD 0 = id1
      generalize hB : (id1 == idConst || lt0.id == idVar || if pp = true then id1 == idStruct else inStruct0) = B
      cases B with
      | false => rfl
      | true =>
        simp only [↓reduceIte]
        cases hc : findColon (lt0 :: ltRest) with
        | none => rfl
        | some colon => simp only [hpad colon hc]

end WuffsVerif.Render
