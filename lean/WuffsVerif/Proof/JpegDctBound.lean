/-
C18 helper lemmas for the DCT clause: an upper bound K = 4 for |IDCT(FDCT b) − b| by error
analysis of the two fixed-point matrix products (`ForwardDCTFrom`, `InverseDCTFrom` are direct
64×64 products, not butterflies).
-/
import WuffsVerif.Proof.JpegDct

open WuffsVerif.Gen.C18 WuffsVerif.Jpeg WuffsVerif.Jpeg.Dct WuffsVerif.Jpeg.DctP

namespace WuffsVerif.Jpeg.DctB

/-- `alphas16` for the coefficient index `k = 8v + u` -/
def aK (k : Nat) : Int := alphas16 (k % 8) (k / 8)

/-- `c16` of `InverseDCTFrom` for coefficient `k`, pixel `i` (list version) -/
def c16L (k i : Nat) : Int := (c32L (k % 8) (k / 8) i + 32768) / 65536

/-- weight of coefficient `k` in the IDCT sum of pixel `i` -/
def wL (k i : Nat) : Int := aK k * c16L k i

def absI (z : Int) : Int := if 0 ≤ z then z else -z

/-- Σ over two lists -/
def dotL : List Int → List Int → Int
  | a :: as, b :: bs => a * b + dotL as bs
  | _, _ => 0

def sumL : List Int → Int
  | [] => 0
  | a :: as => a + sumL as

/-- the cosine row `[cosAtL x 0, …, cosAtL x 7]` -/
def cosRow (x : Nat) : List Int := (List.range 8).map (fun u => cosAtL x u)

/-- g i k = w k i * a k, as 8 rows (v) of 8 (u) -/
def gRows (i : Nat) : List (List Int) :=
  (List.range 8).map (fun v => (List.range 8).map (fun u => wL (8 * v + u) i * aK (8 * v + u)))

/-- h i x = [Σ_u g(8v+u) cx(x,u)]_v -/
def hRow (g : List (List Int)) (x : Nat) : List Int := g.map (fun r => dotL r (cosRow x))

def colSum (i x : Nat) (h : List Int) : Int :=
  sumL ((List.range 8).map (fun y => absI (dotL h (cosRow y) - (if 8 * y + x = i then 1208925819614629174706176 else 0))))

def e1Sum (i : Nat) : Int :=
  let g := gRows i
  sumL ((List.range 8).map (fun x => colSum i x (hRow g x)))

def e3Sum (i : Nat) : Int :=
  sumL ((List.range 64).map (fun k => absI (wL k i) * (aK k * 32768 + 140737488355328)))

def budget (i : Nat) : Int := 128 * e1Sum i + e3Sum i

def budgetOK (i : Nat) : Bool := decide (budget i ≤ 4250000000000000000000000)

set_option maxRecDepth 1000000 in
theorem budget_ok0 : (List.range 8).all budgetOK = true := by decide +kernel

end WuffsVerif.Jpeg.DctB
