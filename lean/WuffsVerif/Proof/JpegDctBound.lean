/-
C18 helper lemmas for the DCT clause: the error analysis behind `idct_fdct_within_four`
(|IDCT(FDCT b) − b| ≤ 4 for EVERY 8×8 byte block), for the two fixed-point matrix products of
/repo/lib/lowleveljpeg/block.go (`ForwardDCTFrom`, `InverseDCTFrom` are direct 64×64 products
with three rounding shifts, not butterflies).

Notation (all integers; s j = src j − 128 ∈ [−128, 127]; k = 8v + u a coefficient, i, j pixels):
  a k      = alphas16 u v                         (`aK`)
  c k j    = c32 u v j = cos[..] · cos[..]        (`cK`)
  S k      = Σ_j s j · c k j                      (sum32)
  F k      = ((a k · ((S k + 2^15) >> 16)) + 2^31) >> 32          (fdctCoef)
  w k i    = a k · ((c k i + 2^15) >> 16)         (`wL`)
  T i      = Σ_k F k · w k i                      (isum32)
  R i      = (T i + 2^31) >> 32                   (idctRaw)
Then, exactly,
  2^48 · T i − 2^80 · s i = Σ_j s j · E i j  +  Σ_k w k i · (2^48 · F k − a k · S k)
with E i j = Σ_k w k i · a k · c k j − 2^80·[i = j]  (how far the two integer tables are from being
inverse to each other) and |2^48 · F k − a k · S k| ≤ a k · 2^15 + 2^47 (the two rounding shifts of
the FDCT).  So |2^48 T i − 2^80 s i| ≤ 128 · Σ_j |E i j| + Σ_k |w k i| · (a k · 2^15 + 2^47) =: budget i,
a constant of the tables; `budget i ≤ 4.25·10^24 ≈ 3.5155 · 2^80` is checked by kernel evaluation
for the 64 pixels (`Proof/JpegDctBudget*.lean`); with the final rounding (½) that gives
|R i − s i| < 4.02, i.e. ≤ 4.
-/
import WuffsVerif.Proof.JpegDct
import Mathlib.Tactic.Ring
import Mathlib.Tactic.Linarith

open WuffsVerif.Gen.C18 WuffsVerif.Jpeg WuffsVerif.Jpeg.Dct WuffsVerif.Jpeg.DctP

namespace WuffsVerif.Jpeg.DctB

/-- `alphas16` for the coefficient index `k = 8v + u` -/
def aK (k : Nat) : Int := alphas16 (k % 8) (k / 8)

/-- `c32` for coefficient `k`, pixel `j` -/
def cK (k j : Nat) : Int := c32L (k % 8) (k / 8) j

/-- `c16` of `InverseDCTFrom` for coefficient `k`, pixel `i` -/
def c16L (k i : Nat) : Int := (cK k i + 32768) / 65536

/-- weight of coefficient `k` in the IDCT sum of pixel `i`: `alphas16 * c16` -/
def wL (k i : Nat) : Int := aK k * c16L k i

/-- weight of `sum32 k` in `2^48 · T i` -/
def gL (i k : Nat) : Int := wL k i * aK k

def absI (z : Int) : Int := if 0 ≤ z then z else -z

theorem absI_nonneg (z : Int) : 0 ≤ absI z := by unfold absI; split <;> omega

/-- Σ_k a k * b k over a list of indices -/
def dot (a b : Nat → Int) : List Nat → Int
  | [] => 0
  | k :: ks => a k * b k + dot a b ks

/-- Σ_k |a k| * b k -/
def adot (a b : Nat → Int) : List Nat → Int
  | [] => 0
  | k :: ks => absI (a k) * b k + adot a b ks

/-- Σ_k |a k| -/
def asum (a : Nat → Int) : List Nat → Int
  | [] => 0
  | k :: ks => absI (a k) + asum a ks

/-! ### generic facts about `dot` -/

theorem dot_congr (a b c d : Nat → Int) (l : List Nat) (h : ∀ k ∈ l, a k * b k = c k * d k) :
    dot a b l = dot c d l := by
  induction l with
  | nil => rfl
  | cons k ks ih =>
    simp only [dot]
    rw [h k List.mem_cons_self, ih (fun k' hk' => h k' (List.mem_cons_of_mem _ hk'))]

theorem dot_zero_right (a : Nat → Int) (l : List Nat) : dot a (fun _ => 0) l = 0 := by
  induction l with
  | nil => rfl
  | cons k ks ih => simp only [dot, ih]; simp

theorem dot_add_right (a b c : Nat → Int) (l : List Nat) :
    dot a (fun j => b j + c j) l = dot a b l + dot a c l := by
  induction l with
  | nil => rfl
  | cons k ks ih => simp only [dot, ih]; ring

theorem dot_sub_right (a b c : Nat → Int) (l : List Nat) :
    dot a (fun j => b j - c j) l = dot a b l - dot a c l := by
  induction l with
  | nil => rfl
  | cons k ks ih => simp only [dot, ih]; ring

theorem dot_smul_right (a b : Nat → Int) (t : Int) (l : List Nat) :
    dot a (fun j => t * b j) l = t * dot a b l := by
  induction l with
  | nil => simp [dot]
  | cons k ks ih => simp only [dot, ih]; ring

/-- exchange of the two summations -/
theorem dot_swap (a s : Nat → Int) (c : Nat → Nat → Int) (l m : List Nat) :
    dot a (fun k => dot s (c k) m) l = dot s (fun j => dot a (fun k => c k j) l) m := by
  induction l with
  | nil => simp only [dot]; rw [dot_zero_right]
  | cons k ks ih =>
    simp only [dot]
    rw [ih, dot_add_right, dot_smul_right]

/-- Σ_j s j · (c·[j = i]) = (number of occurrences of i) · s i · c -/
theorem dot_ind (s : Nat → Int) (i : Nat) (c : Int) (l : List Nat) :
    dot s (fun j => if j = i then c else 0) l = (l.count i : Int) * (s i * c) := by
  induction l with
  | nil => simp [dot]
  | cons j js ih =>
    simp only [dot, ih]
    by_cases h : j = i
    · subst h
      rw [List.count_cons_self, if_pos rfl]
      push_cast
      ring
    · rw [List.count_cons_of_ne h, if_neg h]
      ring

theorem count_range64 : ∀ i, i < 64 → (List.range 64).count i = 1 := by decide

/-- a linear form on the box [−128, 127]^n is at most 128 · (sum of |coefficients|) -/
theorem dot_box (s E : Nat → Int) (hs : ∀ j, -128 ≤ s j ∧ s j ≤ 127) (l : List Nat) :
    -(128 * asum E l) ≤ dot s E l ∧ dot s E l ≤ 128 * asum E l := by
  induction l with
  | nil => simp [dot, asum]
  | cons j js ih =>
    simp only [dot, asum]
    have h1 := (hs j).1
    have h2 := (hs j).2
    have key : -(128 * absI (E j)) ≤ s j * E j ∧ s j * E j ≤ 128 * absI (E j) := by
      unfold absI
      split
      · constructor <;> nlinarith
      · constructor <;> nlinarith
    omega

/-- perturbation of a weighted sum: if every `D · x k` is within `e k` of `y k` then
    `D · Σ x k · w k` is within `Σ |w k| · e k` of `Σ y k · w k` -/
theorem dot_perturb (x y w e : Nat → Int) (D : Int) (l : List Nat)
    (h : ∀ k ∈ l, -(e k) ≤ D * x k - y k ∧ D * x k - y k ≤ e k) :
    -(adot w e l) ≤ D * dot x w l - dot y w l ∧ D * dot x w l - dot y w l ≤ adot w e l := by
  induction l with
  | nil => simp [dot, adot]
  | cons k ks ih =>
    have ih' := ih (fun k' hk' => h k' (List.mem_cons_of_mem _ hk'))
    have hk := h k List.mem_cons_self
    simp only [dot, adot]
    have key : -(absI (w k) * e k) ≤ (D * x k - y k) * w k ∧ (D * x k - y k) * w k ≤ absI (w k) * e k := by
      unfold absI
      split
      · constructor <;> nlinarith
      · constructor <;> nlinarith
    have e1 : D * (x k * w k + dot x w ks) - (y k * w k + dot y w ks) =
        (D * x k - y k) * w k + (D * dot x w ks - dot y w ks) := by ring
    rw [e1]
    omega

/-! ### the model's sums are `dot`s -/

theorem sum32_eq_dot (s : Nat → Int) (k : Nat) (l : List Nat) :
    sum32 s (k % 8) (k / 8) l = dot s (cK k) l := by
  induction l with
  | nil => rfl
  | cons j js ih => simp only [sum32, dot, ih, c32_eq, cK]

theorem isum32L_eq_dot (f : Nat → Int) (i : Nat) (l : List Nat) :
    isum32L f i l = dot f (fun k => wL k i) l := by
  induction l with
  | nil => rfl
  | cons k ks ih => simp only [isum32L, dot, ih, wL, aK, c16L, cK]

/-! ### the two rounding shifts of `ForwardDCTFrom` -/

theorem aK_nonneg (k : Nat) : 0 ≤ aK k := by
  unfold aK alphas16 halfAlpha16
  split <;> split <;> decide

/-- `2^48 · result0` is within `a·2^15 + 2^47` of `a · sum32` -/
theorem fdctPost_err (a S : Int) (ha : 0 ≤ a) :
    -(a * 32768 + 140737488355328) ≤ 281474976710656 * fdctPost a S - a * S ∧
    281474976710656 * fdctPost a S - a * S ≤ a * 32768 + 140737488355328 := by
  unfold fdctPost
  simp only
  generalize hm : (S + 32768) / 65536 = m
  have m1 : 65536 * m ≤ S + 32768 := by rw [← hm]; omega
  have m2 : S + 32768 < 65536 * m + 65536 := by rw [← hm]; omega
  generalize hp : a * m = p
  generalize hF : (p + 2147483648) / 4294967296 = F
  have f1 : 4294967296 * F ≤ p + 2147483648 := by rw [← hF]; omega
  have f2 : p + 2147483648 < 4294967296 * F + 4294967296 := by rw [← hF]; omega
  have d1 : a * (65536 * m - S) ≤ a * 32768 := Int.mul_le_mul_of_nonneg_left (by omega) ha
  have d2 : a * (-32768) ≤ a * (65536 * m - S) := Int.mul_le_mul_of_nonneg_left (by omega) ha
  have e1 : a * (65536 * m - S) = 65536 * p - a * S := by rw [← hp]; ring
  have e2 : a * (-32768) = -(a * 32768) := by ring
  rw [e1] at d1 d2
  rw [e2] at d2
  constructor <;> omega

/-! ### the tables are nearly inverse to each other -/

/-- `M i j = Σ_k w k i · a k · c k j`: the composition IDCT∘FDCT with the roundings left out, scaled by 2^80 -/
def mL (i j : Nat) : Int := dot (gL i) (fun k => cK k j) (List.range 64)

/-- `E i j = M i j − 2^80 · [j = i]` -/
def eL (i j : Nat) : Int := mL i j - (if j = i then 1208925819614629174706176 else 0)

/-- the rounding allowance of coefficient `k` in `2^48 · F k` -/
def rnd (k : Nat) : Int := aK k * 32768 + 140737488355328

/-- the error budget of pixel `i` for `2^48 · T i − 2^80 · s i` -/
def budget (i : Nat) : Int :=
  128 * asum (eL i) (List.range 64) + adot (fun k => wL k i) rnd (List.range 64)

/-- **The error identity, bounded**: for every block of bytes and every pixel `i < 64`,
    `|2^48 · T i − 2^80 · s i| ≤ budget i`, where `T i` is the IDCT accumulator run on the exact
    (unconverted) FDCT outputs. -/
theorem acc_error (src : Array Nat) (hsrc : ∀ j, src.getD j 0 ≤ 255) (i : Nat) (hi : i < 64) :
    let s := fun j => ((src.getD j 0 : Nat) : Int) - 128
    let T := dot (fdctCoef src) (fun k => wL k i) (List.range 64);
    (-(budget i) ≤ 281474976710656 * T - 1208925819614629174706176 * s i) ∧
    281474976710656 * T - 1208925819614629174706176 * s i ≤ budget i := by
  intro s T
  have hs : ∀ j, -128 ≤ s j ∧ s j ≤ 127 := by
    intro j
    have := hsrc j
    show -128 ≤ ((src.getD j 0 : Nat) : Int) - 128 ∧ ((src.getD j 0 : Nat) : Int) - 128 ≤ 127
    omega
  -- step 1: each coefficient against a k · S k
  let S := fun k => dot s (cK k) (List.range 64)
  have hF : ∀ k ∈ List.range 64, -(rnd k) ≤ 281474976710656 * fdctCoef src k - aK k * S k ∧
      281474976710656 * fdctCoef src k - aK k * S k ≤ rnd k := by
    intro k _
    have := fdctPost_err (aK k) (S k) (aK_nonneg k)
    have e : fdctCoef src k = fdctPost (aK k) (S k) := by
      show fdctPost (alphas16 (k % 8) (k / 8)) (sum32 s (k % 8) (k / 8) (List.range 64)) = _
      rw [sum32_eq_dot]; rfl
    rw [e]
    exact this
  have p := dot_perturb (fdctCoef src) (fun k => aK k * S k) (fun k => wL k i) rnd 281474976710656
    (List.range 64) hF
  -- step 2: Σ_k (a k · S k) · w k i = Σ_j s j · M i j
  have sw : dot (fun k => aK k * S k) (fun k => wL k i) (List.range 64) = dot s (mL i) (List.range 64) := by
    rw [dot_congr (fun k => aK k * S k) (fun k => wL k i) (gL i) S (List.range 64)
      (fun k _ => by show aK k * S k * wL k i = wL k i * aK k * S k; ring)]
    exact dot_swap (gL i) s cK (List.range 64) (List.range 64)
  -- step 3: subtract the diagonal
  have dg : dot s (eL i) (List.range 64) = dot s (mL i) (List.range 64) - 1208925819614629174706176 * s i := by
    show dot s (fun j => mL i j - (if j = i then 1208925819614629174706176 else 0)) (List.range 64) = _
    rw [dot_sub_right, dot_ind, count_range64 i hi]
    push_cast
    ring
  have bx := dot_box s (eL i) hs (List.range 64)
  rw [sw] at p
  unfold budget
  show -(128 * asum (eL i) (List.range 64) + adot (fun k => wL k i) rnd (List.range 64)) ≤
      281474976710656 * T - 1208925819614629174706176 * s i ∧
    281474976710656 * T - 1208925819614629174706176 * s i ≤
      128 * asum (eL i) (List.range 64) + adot (fun k => wL k i) rnd (List.range 64)
  have pT : dot (fdctCoef src) (fun k => wL k i) (List.range 64) = T := rfl
  rw [pT] at p
  omega

/-- from the accumulator to `result0` of `InverseDCTFrom`: with `budget i ≤ 4.25·10^24 < 3.52·2^80`
    the final rounding shift lands within 4 of `s i` -/
theorem raw_within_four (T si B : Int)
    (h1 : -B ≤ 281474976710656 * T - 1208925819614629174706176 * si)
    (h2 : 281474976710656 * T - 1208925819614629174706176 * si ≤ B)
    (hB : B ≤ 4250000000000000000000000) :
    -4 ≤ (T + 2147483648) / 4294967296 - si ∧ (T + 2147483648) / 4294967296 - si ≤ 4 := by
  generalize hR : (T + 2147483648) / 4294967296 = R
  have r1 : 4294967296 * R ≤ T + 2147483648 := by rw [← hR]; omega
  have r2 : T + 2147483648 < 4294967296 * R + 4294967296 := by rw [← hR]; omega
  constructor <;> omega

end WuffsVerif.Jpeg.DctB
