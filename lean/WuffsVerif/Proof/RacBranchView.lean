import WuffsVerif.Proof.RacNodeParse
namespace WuffsVerif.Rac
open Spec

theorem getD_map_range_d (f : Nat → Nat) (n i d : Nat) (h : i < n) :
    ((List.range n).map f).toArray.getD i d = f i := by
  rw [Array.getD_eq_getD_getElem?]
  simp [h]

section pb
variable (nw : NodeWriter) (cs : List WNode) (rs : List Nat) (c : Nat) (ok : NodeOK nw cs rs c)
  (off cb db : Nat)
include ok

omit ok in
theorem pb_arity : (parsedBranch nw cs rs c off cb db).arity = cs.length + rs.length + (codecIsLong c).toNat := rfl

theorem pb_dOff (a : Nat) (ha : a ≤ cs.length + rs.length + (codecIsLong c).toNat) :
    (parsedBranch nw cs rs c off cb db).dOff a = db + vD cs rs c a := by
  unfold Branch.dOff parsedBranch
  simp only
  rw [arr_dptr nw cs rs c ok a ha]

theorem pb_ttag (a : Nat) (ha : a < cs.length + rs.length + (codecIsLong c).toNat) :
    (parsedBranch nw cs rs c off cb db).ttag.getD a 0 = vT cs rs c a := arr_ttag nw cs rs c ok a ha

theorem pb_stag (a : Nat) (ha : a < cs.length + rs.length + (codecIsLong c).toNat) :
    (parsedBranch nw cs rs c off cb db).stag.getD a 0xFF = vS cs rs c a := by
  unfold parsedBranch
  simp only
  rw [pStag, getD_map_range_d _ _ _ _ ha, (win_c nw cs rs c ok a (by omega)).2.2.1, if_pos ha]

theorem pb_cOff (a : Nat) (ha : a ≤ cs.length + rs.length + (codecIsLong c).toNat) :
    (parsedBranch nw cs rs c off cb db).cOff a = cb + (vCO nw cs rs c a).1 := by
  unfold Branch.cOff parsedBranch
  simp only
  rw [arr_cptr nw cs rs c ok a ha]

theorem pb_cOffMax : (parsedBranch nw cs rs c off cb db).cOffMax = cb + nw.cFileSize := by
  unfold Branch.cOffMax
  have := pb_cOff nw cs rs c ok off cb db _ (Nat.le_refl _)
  unfold Branch.cOff at this
  rw [pb_arity nw cs rs c off cb db, this, vCO_max]

theorem pb_clen (a : Nat) (ha : a < cs.length + rs.length + (codecIsLong c).toNat) :
    (parsedBranch nw cs rs c off cb db).clen.getD a 0 = (vCO nw cs rs c a).2 := arr_clen nw cs rs c ok a ha

theorem pb_dPtrMax : (parsedBranch nw cs rs c off cb db).dPtrMax = (cs.map WNode.dRangeSize).sum := by
  unfold Branch.dPtrMax
  rw [pb_arity nw cs rs c off cb db]
  unfold parsedBranch; simp only
  rw [arr_dptr nw cs rs c ok _ (Nat.le_refl _)]
  unfold vD
  rw [show cs.length + rs.length + (codecIsLong c).toNat - ((codecIsLong c).toNat + rs.length) = cs.length by omega,
    prefixSize_length]

theorem pb_version : (parsedBranch nw cs rs c off cb db).version = 1 := by
  unfold parsedBranch; simp only
  rw [(win_c nw cs rs c ok _ (Nat.le_refl _)).2.1, vCO_max]

theorem pb_mixBit : (parsedBranch nw cs rs c off cb db).mixBit = false := by
  unfold Branch.mixBit parsedBranch; simp only
  have hb := (win_d nw cs rs c ok (cs.length + rs.length + (codecIsLong c).toNat) (Nat.le_refl _)).2.1
  rw [if_neg (Nat.lt_irrefl _)] at hb
  rw [hb]
  have hv := codecValid_cases c ok.valid
  cases hl : codecIsLong c with
  | false =>
    obtain ⟨h1, h2⟩ := hv.1 hl
    have hlt : c / 2 ^ 56 < 64 := by omega
    have hm : c / 2 ^ 56 % 256 = c / 2 ^ 56 := by omega
    obtain ⟨_, _, a3⟩ := byte_and_facts ⟨c / 2 ^ 56, hlt⟩
    simp only at a3
    rw [hm, a3]; rfl
  | true =>
    rw [hv.2 hl]; decide

/-- `MakeCRange(i)` succeeds for every element other than the Codec Element (and for `i ≥ arity`) -/
theorem pb_makeCRange (i : Nat) (h : ¬ i < (codecIsLong c).toNat) :
    ∃ r, makeCRange (parsedBranch nw cs rs c off cb db) i = .ok r ∧
      (i < cs.length + rs.length + (codecIsLong c).toNat →
        r.lo = cb + (vCO nw cs rs c i).1 ∧
        r.hi = (if (vCO nw cs rs c i).2 = 0 then cb + nw.cFileSize
                else min (cb + nw.cFileSize) (cb + (vCO nw cs rs c i).1 + (vCO nw cs rs c i).2 * 1024))) := by
  unfold makeCRange
  rw [pb_arity nw cs rs c off cb db]
  by_cases hi : i ≥ cs.length + rs.length + (codecIsLong c).toNat
  · rw [if_pos hi]; exact ⟨_, rfl, fun h => by omega⟩
  · rw [if_neg hi]
    have hi' : i < cs.length + rs.length + (codecIsLong c).toNat := by omega
    have hle := vCO_le nw cs rs c ok i hi' h
    simp only [pb_cOff nw cs rs c ok off cb db i (by omega), pb_cOffMax nw cs rs c ok off cb db,
      pb_clen nw cs rs c ok off cb db i hi']
    by_cases hz : (vCO nw cs rs c i).2 = 0
    · simp only [hz, beq_self_eq_true, ↓reduceIte]
      rw [if_neg (by omega)]
      exact ⟨_, rfl, fun _ => ⟨rfl, rfl⟩⟩
    · have hz' : ((vCO nw cs rs c i).2 == 0) = false := by simpa using hz
      simp only [hz', Bool.false_eq_true, ↓reduceIte, hz]
      rw [if_neg (by omega)]
      exact ⟨_, rfl, fun _ => ⟨rfl, rfl⟩⟩
end pb
end WuffsVerif.Rac
