/-
C07 helper lemmas, part 6: the block loop — `decode_blocks` (mirror: `decodeBlock`, `decodeBlocks`) against
`Flate.Spec.blocks`, block by block: header bits, stored blocks (`decode_uncompressed` = `Spec.storedBlock`),
fixed-Huffman blocks (tables by evaluation, loop by `slowLoop_spec`), dynamic blocks under the hypothesis
`DynRefines` (the header parser + `init_huff` refine `Spec.dynamicHeader` at the block boundaries the
specification reaches).  Core Lean only.
-/
import WuffsVerif.Proof.StdDeflateFixed

namespace WuffsVerif.StdDeflate
open WuffsVerif.Flate.Spec (bitAt bitsLE avail Huff huffBlock BlockResult storedBlock dynamicHeader HeaderResult
  fixedLit fixedDist blocks Status Result capReached)

/-! ### the specification's block loop, one block at a time -/

/-- the block at bit `p` (the `r` of `Spec.blocks`, for `cap = none`, `lo = 0`) -/
def specBlock (s : Bytes) (p : Nat) (out : Bytes) : BlockResult :=
  if bitsLE s (p + 1) 2 = 0 then storedBlock s (p + 3) out
  else if bitsLE s (p + 1) 2 = 1 then huffBlock fixedLit fixedDist 7 5 s none 0 (8 * s.size + 1) (p + 3) out
  else if bitsLE s (p + 1) 2 = 2 then
    match dynamicHeader s (p + 3) with
    | .truncated => .stop .truncated p out
    | .corrupt => .stop .corrupt p out
    | .ok hl hd minL p1 => huffBlock hl hd minL hd.minLen s none 0 (8 * s.size + 1) p1 out
  else .stop .corrupt p out

theorem blocks_succ (s : Bytes) (fuel p : Nat) (out : Bytes) :
    blocks s none 0 (fuel + 1) p out =
      if avail s p < 3 then ⟨.truncated, p, out⟩
      else
        match specBlock s p out with
        | .stop st p out => ⟨st, p, out⟩
        | .next p1 out => if bitAt s p = 1 then ⟨.done, p1, out⟩ else blocks s none 0 fuel p1 out := by
  simp only [blocks, specBlock, capReached]
  rfl

theorem storedBlock_stop (s : Bytes) (p : Nat) (out : Bytes) (st : Status) (q : Nat) (o : Bytes)
    (h : storedBlock s p out = .stop st q o) : st ≠ .done := by
  unfold storedBlock at h
  simp only at h
  by_cases c1 : (p + 7) / 8 + 4 > s.size
  · rw [if_pos c1] at h
    simp only [BlockResult.stop.injEq] at h
    obtain ⟨rfl, _, _⟩ := h
    exact fun hc => by cases hc
  · rw [if_neg c1] at h
    split at h
    · simp only [BlockResult.stop.injEq] at h
      obtain ⟨rfl, _, _⟩ := h
      exact fun hc => by cases hc
    · split at h
      · simp only [BlockResult.stop.injEq] at h
        obtain ⟨rfl, _, _⟩ := h
        exact fun hc => by cases hc
      · simp at h

theorem huffBlock_stop (hl hd : Huff) (minL minD : Nat) (s : Bytes) (lo : Nat) :
    ∀ (fuel p : Nat) (out : Bytes) (st : Status) (q : Nat) (o : Bytes),
    huffBlock hl hd minL minD s none lo fuel p out = .stop st q o → st ≠ .done := by
  intro fuel
  induction fuel with
  | zero =>
    intro p out st q o h
    simp only [huffBlock, BlockResult.stop.injEq] at h
    obtain ⟨rfl, _, _⟩ := h
    exact fun hc => by cases hc
  | succ fuel ih =>
    intro p out st q o h
    simp only [huffBlock, capReached] at h
    repeat' split at h
    all_goals first
      | exact ih _ _ _ _ _ h
      | (simp only [BlockResult.stop.injEq] at h; obtain ⟨rfl, _, _⟩ := h; exact fun hc => by cases hc)
      | simp at h

theorem specBlock_stop (s : Bytes) (p : Nat) (out : Bytes) (st : Status) (q : Nat) (o : Bytes)
    (h : specBlock s p out = .stop st q o) : st ≠ .done := by
  unfold specBlock at h
  repeat' split at h
  all_goals first
    | exact storedBlock_stop _ _ _ _ _ _ h
    | exact huffBlock_stop _ _ _ _ _ _ _ _ _ _ _ _ h
    | (simp only [BlockResult.stop.injEq] at h; obtain ⟨rfl, _, _⟩ := h; exact fun hc => by cases hc)
    | simp at h

/-- the specification decoder, started at bit 0 with no output, is at a block boundary at bit `p` with output `out` -/
inductive Reach (s : Bytes) : Nat → Bytes → Prop
  | start : Reach s 0 #[]
  | next {p : Nat} {out : Bytes} {p1 : Nat} {out1 : Bytes} : Reach s p out → ¬ avail s p < 3 → bitAt s p ≠ 1 →
      specBlock s p out = .next p1 out1 → Reach s p1 out1

/-! ### the decoder state at a block boundary -/

structure StInv (s : Bytes) (st : St) (p : Nat) : Prop where
  br : BRInv s { bits := st.bits, nBits := st.nBits, ri := st.ri } p
  n8 : st.nBits < 8
  s0 : st.huffs0.size = 1024
  s1 : st.huffs1.size = 1024
  /-- `this.code_lengths` is an `array[320] base.u8` -/
  cl : st.codeLengths.size = 320

/-- `init_huff` does not touch `this.code_lengths` -/
theorem St.initHuff_codeLengths (st st' : St) (w a b c : Nat) (h : st.initHuff w a b c = .ok st') :
    st'.codeLengths = st.codeLengths := by
  unfold St.initHuff at h
  split at h
  · cases hh : StdDeflate.initHuff st.codeLengths st.huffs0 0 a b c with
    | error e => rw [hh] at h; simp [bind, Except.bind] at h
    | ok r =>
      rw [hh] at h
      simp only [bind, Except.bind, Except.ok.injEq] at h
      rw [← h]
  · cases hh : StdDeflate.initHuff st.codeLengths st.huffs1 1 a b c with
    | error e => rw [hh] at h; simp [bind, Except.bind] at h
    | ok r =>
      rw [hh] at h
      simp only [bind, Except.bind, Except.ok.injEq] at h
      rw [← h]

theorem initFixedHuffman_codeLengths (st st' : St) (h : initFixedHuffman st = .ok st') :
    st'.codeLengths.size = 320 := by
  unfold initFixedHuffman at h
  dsimp only at h
  cases h1 : ({ st with codeLengths := fixedCodeLengths } : St).initHuff 0 0 288 257 with
  | error e => rw [h1] at h; simp [bind, Except.bind] at h
  | ok st1 =>
    rw [h1] at h
    simp only [bind, Except.bind] at h
    rw [St.initHuff_codeLengths _ _ _ _ _ _ h, St.initHuff_codeLengths _ _ _ _ _ _ h1]
    simp [fixedCodeLengths]

/-- **The open obligation, stated.**  At every dynamic block the specification reaches, the mirror of
    `init_dynamic_huffman` (code-length code, run-length decoding, two calls of `init_huff`) accepts the header the
    specification accepts, stops at the same bit, and builds tables that are prefix-replicated and agree with the
    specification's two canonical codes. -/
def DynRefines (s : Bytes) : Prop :=
  ∀ (p : Nat) (out : Bytes) (st : St) (hl hd : Huff) (minL p1 : Nat), Reach s p out → ¬ avail s p < 3 →
    bitsLE s (p + 1) 2 = 2 → StInv s st (p + 3) → dynamicHeader s (p + 3) = .ok hl hd minL p1 →
    ∃ st', initDynamicHuffman s st = .ok st' ∧ StInv s st' p1 ∧ st'.out = st.out ∧ TablesFor st' hl hd

/-- no block of the stream (as the specification parses it) is a dynamic-Huffman block -/
def NoDynamic (s : Bytes) : Prop :=
  ∀ (p : Nat) (out : Bytes), Reach s p out → ¬ avail s p < 3 → bitsLE s (p + 1) 2 ≠ 2

theorem NoDynamic.dynRefines {s : Bytes} (h : NoDynamic s) : DynRefines s := by
  intro p out st hl hd minL p1 hr ha ht
  exact absurd ht (h p out hr ha)

/-! ### stored blocks -/

theorem and_ffff (x : Nat) : x &&& 0xFFFF = x % 65536 := by
  rw [show (0xFFFF : Nat) = 2 ^ 16 - 1 from rfl, Nat.and_two_pow_sub_one_eq_mod]

theorem decodeUncompressed_spec {s : Bytes} (st : St) (p : Nat) (out : Bytes) (hi : StInv s st p) (ho : st.out = out)
    (p1 : Nat) (out1 : Bytes) (h : storedBlock s p out = .next p1 out1) :
    ∃ st', decodeUncompressed s st = .ok st' ∧ StInv s st' p1 ∧ st'.out = out1 := by
  have hpos := hi.br.pos
  have hlt := hi.br.bits_lt
  have hn8 := hi.n8
  simp only at hpos hlt
  have hq : st.ri = (p + 7) / 8 := by omega
  unfold storedBlock at h
  simp only [← hq] at h
  unfold decodeUncompressed
  have hshift : st.bits >>> (st.nBits &&& 7) = 0 := by
    rw [show (7 : Nat) = 2 ^ 3 - 1 from rfl, Nat.and_two_pow_sub_one_eq_mod, Nat.mod_eq_of_lt (by omega),
      Nat.shiftRight_eq_div_pow]
    exact Nat.div_eq_of_lt hlt
  have hc1 : ¬ (st.nBits ≥ 8 ∨ st.bits >>> (st.nBits &&& 7) ≠ 0) := by
    intro hc; rcases hc with hc | hc
    · omega
    · exact hc hshift
  rw [if_neg hc1]
  simp only
  by_cases h4 : st.ri + 4 > s.size
  · rw [if_pos h4] at h; simp at h
  · rw [if_neg h4] at h ⊢
    generalize hb0 : (s.getD st.ri 0).toNat = b0 at *
    generalize hb1 : (s.getD (st.ri + 1) 0).toNat = b1 at *
    generalize hb2 : (s.getD (st.ri + 2) 0).toNat = b2 at *
    generalize hb3 : (s.getD (st.ri + 3) 0).toNat = b3 at *
    have l0 : b0 < 256 := by rw [← hb0]; exact (s.getD st.ri 0).toNat_lt
    have l1 : b1 < 256 := by rw [← hb1]; exact (s.getD (st.ri + 1) 0).toNat_lt
    have l2 : b2 < 256 := by rw [← hb2]; exact (s.getD (st.ri + 2) 0).toNat_lt
    have l3 : b3 < 256 := by rw [← hb3]; exact (s.getD (st.ri + 3) 0).toNat_lt
    have elow : (b0 + 256 * b1 + 65536 * b2 + 16777216 * b3) &&& 0xFFFF = b0 + 256 * b1 := by
      rw [and_ffff]; omega
    have ehigh : (b0 + 256 * b1 + 65536 * b2 + 16777216 * b3) >>> 16 = b2 + 256 * b3 := by
      rw [Nat.shiftRight_eq_div_pow]; omega
    simp only [elow, ehigh]
    by_cases hne : b0 + 256 * b1 + (b2 + 256 * b3) ≠ 0xFFFF
    · rw [if_pos hne] at h; simp at h
    · rw [if_neg hne] at h ⊢
      by_cases hlen : st.ri + 4 + (b0 + 256 * b1) > s.size
      · rw [if_pos hlen] at h; simp at h
      · rw [if_neg hlen] at h
        simp only [BlockResult.next.injEq] at h
        obtain ⟨rfl, rfl⟩ := h
        have hmin : min (b0 + 256 * b1) (s.size - (st.ri + 4)) = b0 + 256 * b1 := by omega
        simp only [hmin, Nat.le_refl, if_true]
        refine ⟨_, rfl, ⟨⟨by simp [bitsLE], by simp only; omega, by simp only; omega⟩, by simp, hi.s0, hi.s1, hi.cl⟩, ?_⟩
        simp only [ho]

/-! ### one block -/

theorem and_three (n : Nat) (h : n < 3) : n &&& 3 = n := by
  rw [show (3 : Nat) = 2 ^ 2 - 1 from rfl, Nat.and_two_pow_sub_one_eq_mod]; omega

theorem nbits_check (bits n : Nat) (hn : n < 8) (hb : bits < 2 ^ n) : ¬ (n ≥ 8 ∨ bits >>> (n &&& 7) ≠ 0) := by
  intro hc
  rcases hc with hc | hc
  · omega
  · apply hc
    rw [show (7 : Nat) = 2 ^ 3 - 1 from rfl, Nat.and_two_pow_sub_one_eq_mod, Nat.mod_eq_of_lt (by omega),
      Nat.shiftRight_eq_div_pow]
    exact Nat.div_eq_of_lt hb

/-- `decode_huffman_slow` on a state whose tables implement the codes `hl`, `hd`: the two `inconsistent n_bits`
    guards pass and the loop follows the specification to the end of the block -/
theorem decodeHuffmanSlow_spec {s : Bytes} (st2 : St) (hl hd : Huff) (ht : TablesFor st2 hl hd) (minL minD q : Nat)
    (hinv : StInv s st2 q) (p1 : Nat) (out1 : Bytes)
    (h : huffBlock hl hd minL minD s none 0 (8 * s.size + 1) q st2.out = .next p1 out1) :
    ∃ st', decodeHuffmanSlow s (8 * s.size + 1) { st2 with endOfBlock := false } = .ok st' ∧ StInv s st' p1 ∧
      st'.out = out1 := by
  obtain ⟨b', k1, k2, k3, _⟩ := slowLoop_spec (s := s) { st2 with endOfBlock := false } hl hd
    ⟨ht.ok0, ht.ok1, ht.ag0, ht.ag1, ht.nb0, ht.nb1, ht.ml, ht.md⟩ minL minD 0 (8 * s.size + 1) q st2.out
    { bits := st2.bits, nBits := st2.nBits, ri := st2.ri } p1 out1 hinv.br hinv.n8 h
  have hlt := hinv.br.bits_lt
  simp only at hlt
  unfold decodeHuffmanSlow
  dsimp only
  rw [if_neg (nbits_check _ _ hinv.n8 hlt), k1]
  dsimp only
  rw [if_neg (nbits_check _ _ k3 k2.bits_lt)]
  exact ⟨_, rfl, ⟨k2, k3, hinv.s0, hinv.s1, hinv.cl⟩, rfl⟩

/-- **One block of any of the three kinds.** -/
theorem decodeBlock_spec {s : Bytes} (hdyn : DynRefines s) (st : St) (p : Nat) (out : Bytes) (hr : Reach s p out)
    (hi : StInv s st p) (ho : st.out = out) (ha : ¬ avail s p < 3) (p1 : Nat) (out1 : Bytes)
    (h : specBlock s p out = .next p1 out1) :
    ∃ st', decodeBlock s st = .ok (bitAt s p, st') ∧ StInv s st' p1 ∧ st'.out = out1 := by
  -- the three header bits
  have hfill : ∃ st1, fillHeader s st = .ok st1 ∧
      BRInv s { bits := st1.bits, nBits := st1.nBits, ri := st1.ri } p ∧ 3 ≤ st1.nBits ∧ st1.nBits < 11 ∧
      st1.out = st.out ∧ st1.huffs0 = st.huffs0 ∧ st1.huffs1 = st.huffs1 ∧ st1.codeLengths = st.codeLengths := by
    unfold fillHeader
    by_cases h3 : st.nBits < 3
    · rw [if_pos h3]
      have hpos := hi.br.pos
      simp only at hpos
      have hri : st.ri < s.size := by unfold avail at ha; omega
      have hl := hi.br.load hri
      simp only [readU8, dif_pos hri, bind, Except.bind, and_three _ h3]
      exact ⟨_, rfl, hl, by simp only; omega, by simp only; omega, rfl, rfl, rfl, rfl⟩
    · rw [if_neg h3]
      exact ⟨st, rfl, hi.br, by omega, by have := hi.n8; omega, rfl, rfl, rfl, rfl⟩
  obtain ⟨st1, f1, f2, f3, f4, f5, f6, f7, f8⟩ := hfill
  have hfinal : st1.bits &&& 1 = bitAt s p := by
    have := f2.low 1 (by simp only; omega)
    simp only [bitsLE, Nat.mul_zero, Nat.add_zero, Nat.pow_one] at this
    rw [show (1 : Nat) = 2 ^ 1 - 1 from rfl, Nat.and_two_pow_sub_one_eq_mod]
    exact this
  have htype : (st1.bits >>> 1) &&& 3 = bitsLE s (p + 1) 2 := by
    have hd := f2.drop 1 (by simp only; omega)
    have := hd.low 2 (by simp only [BR.drop]; omega)
    simp only [BR.drop] at this
    rw [show (3 : Nat) = 2 ^ 2 - 1 from rfl, Nat.and_two_pow_sub_one_eq_mod]
    exact this
  have hd3 := f2.drop 3 (by simp only; omega)
  simp only [BR.drop] at hd3
  -- the state after the header
  have hi3 : StInv s { st1 with bits := st1.bits >>> 3, nBits := st1.nBits - 3 } (p + 3) :=
    ⟨hd3, by simp only; omega, by simp only; rw [f6]; exact hi.s0, by simp only; rw [f7]; exact hi.s1,
      by simp only; rw [f8]; exact hi.cl⟩
  unfold decodeBlock
  simp only [f1, bind, Except.bind, hfinal, htype]
  unfold specBlock at h
  by_cases t0 : bitsLE s (p + 1) 2 = 0
  · rw [if_pos t0] at h ⊢
    obtain ⟨st', e1, e2, e3⟩ := decodeUncompressed_spec _ (p + 3) out hi3 (by simp only; rw [f5, ho]) p1 out1 h
    simp only [e1]
    exact ⟨st', rfl, e2, e3⟩
  · rw [if_neg t0] at h ⊢
    by_cases t1 : bitsLE s (p + 1) 2 = 1
    · rw [if_pos t1] at h ⊢
      obtain ⟨st2, g1, g2, g3, g4, g5, g6, g7, g8⟩ := initFixedHuffman_spec
        { st1 with bits := st1.bits >>> 3, nBits := st1.nBits - 3 } hi3.s0 hi3.s1
      simp only [g1]
      have hinv2 : StInv s st2 (p + 3) := by
        refine ⟨?_, ?_, g7, g8, initFixedHuffman_codeLengths _ _ g1⟩
        · rw [g3, g4, g5]; exact hd3
        · rw [g4]; show st1.nBits - 3 < 8; omega
      have ho2 : st2.out = out := by rw [g6]; show st1.out = out; rw [f5, ho]
      rw [← ho2] at h
      obtain ⟨st', e1, e2, e3⟩ := decodeHuffmanSlow_spec st2 fixedLit fixedDist g2 7 5 (p + 3) hinv2 p1 out1 h
      simp only [e1]
      exact ⟨st', rfl, e2, e3⟩
    · rw [if_neg t1] at h ⊢
      by_cases t2 : bitsLE s (p + 1) 2 = 2
      · rw [if_pos t2] at h ⊢
        cases hh : dynamicHeader s (p + 3) with
        | truncated => rw [hh] at h; simp at h
        | corrupt => rw [hh] at h; simp at h
        | ok hl hd minL q =>
          rw [hh] at h
          simp only at h
          obtain ⟨st2, g1, g2, g3, g4⟩ := hdyn p out _ hl hd minL q hr ha t2 hi3 hh
          simp only [g1]
          have ho2 : st2.out = out := by rw [g3]; show st1.out = out; rw [f5, ho]
          rw [← ho2] at h
          obtain ⟨st', e1, e2, e3⟩ := decodeHuffmanSlow_spec st2 hl hd g4 minL hd.minLen q g2 p1 out1 h
          simp only [e1]
          exact ⟨st', rfl, e2, e3⟩
      · rw [if_neg t2] at h; simp at h

/-! ### the block loop -/

theorem decodeBlocks_spec {s : Bytes} (hdyn : DynRefines s) : ∀ (fuel : Nat) (st : St) (p : Nat) (out : Bytes),
    Reach s p out → StInv s st p → st.out = out → ∀ (pE : Nat) (outE : Bytes),
    blocks s none 0 fuel p out = ⟨.done, pE, outE⟩ →
    ∃ st', decodeBlocks s fuel st = .ok st' ∧ StInv s st' pE ∧ st'.out = outE := by
  intro fuel
  induction fuel with
  | zero => intro st p out _ _ _ pE outE h; simp [blocks] at h
  | succ fuel ih =>
    intro st p out hr hi ho pE outE h
    rw [blocks_succ] at h
    by_cases ha : avail s p < 3
    · rw [if_pos ha] at h; simp at h
    · rw [if_neg ha] at h
      cases hb : specBlock s p out with
      | stop stt q o =>
        rw [hb] at h
        simp only [Result.mk.injEq] at h
        obtain ⟨h1, h2, h3⟩ := h
        -- a block that stops never stops with `done`
        exact absurd h1 (specBlock_stop s p out stt q o hb)
      | next p1 out1 =>
        rw [hb] at h
        simp only at h
        obtain ⟨st', e1, e2, e3⟩ := decodeBlock_spec hdyn st p out hr hi ho ha p1 out1 hb
        unfold decodeBlocks
        simp only [e1, bind, Except.bind]
        by_cases hf : bitAt s p = 1
        · rw [if_pos hf] at h
          simp only [Result.mk.injEq, true_and] at h
          obtain ⟨rfl, rfl⟩ := h
          simp only [hf, ne_eq, Nat.succ_ne_zero, not_false_eq_true, if_true]
          exact ⟨st', rfl, e2, e3⟩
        · rw [if_neg hf] at h
          have hf0 : bitAt s p = 0 := by have := bitAt_lt s p; omega
          simp only [hf0, ne_eq, not_true_eq_false, if_false]
          exact ih st' p1 out1 (Reach.next hr ha hf hb) e2 e3 pE outE h

end WuffsVerif.StdDeflate
