/-
C14 helper: every step of the data-level model (Model/Rac/ConcData.lean) preserves `DInv`.
Part 2: the Workers and the copy loop of `concReader.Read`.
-/
import WuffsVerif.Proof.RacConcDataStep

set_option linter.unusedVariables false
set_option linter.unusedSimpArgs false

namespace WuffsVerif.Rac.ConcD
open WuffsVerif.Rac WuffsVerif.Rac.Conc

theorem dinv_wRecv {F : File} (hok : F.ok) {s s' : DSt} (i : Nat) (hI : DInv F s)
    (h : stepD F s (.wRecv i) = some s') : DInv F s' := by
  simp only [stepD, hI.nofault, Bool.false_eq_true, ↓reduceIte] at h
  split at h
  · next w it rest hi hq =>
    split at h
    · next hg =>
      have hr := hI.reqc it (by rw [hq]; simp)
      have hw := hI.wk i w hi
      rw [if_neg (by have := hr.ne; omega)] at h
      obtain ⟨k1, k2, k3, k4, k5⟩ := worker_seekRange hok.1 w.rd hw.err hw.inv it.lo it.hi hr.ne
        (Nat.le_trans hr.le hI.rhi)
      split at h
      · next rd' heq =>
        cases h
        rw [heq] at k2 k3 k4 k5
        simp only at k2 k3 k4 k5
        exact { hI with
          nofault := rfl
          reqc := fun x hx => hI.reqc x (by rw [hq]; exact List.mem_cons_of_mem _ hx)
          wk := forall_setD hI.wk ⟨k2, k3, fun _ => ⟨hr.ne, hr.le, k4, k5⟩, fun h => absurd hg.2.1 h⟩ }
      · next e heq =>
        rw [heq] at k1
        cases k1
    · cases h
  · cases h

theorem dinv_wMake {F : File} (hok : F.ok) {s s' : DSt} (i : Nat) (hI : DInv F s)
    (h : stepD F s (.wMake i) = some s') : DInv F s' := by
  simp only [stepD, hI.nofault, Bool.false_eq_true, ↓reduceIte] at h
  split at h
  · next w hi =>
    split at h
    · next e hdr =>
      split at h
      · next hg =>
        have hw := hI.wk i w hi
        obtain ⟨d1, d2, d3, d4⟩ := hw.dr (by rw [hdr]; simp)
        obtain ⟨k1, k2, k3, k4, k5, k6, k7⟩ := worker_read hok.1 w.rd hw.err hw.inv bufSize (by omega)
        rw [d3, d4] at k1 k2 k6
        rw [d4] at k7
        have hb : bufSize = 65536 := rfl
        generalize hrr : R.read F w.rd bufSize = rr at h k1 k2 k3 k4 k5 k6 k7
        obtain ⟨rd', bs, er⟩ := rr
        simp only at h k1 k2 k3 k4 k5 k6 k7
        rw [if_pos k3] at h
        cases h
        refine { hI with
          nofault := rfl
          wk := forall_setD hI.wk ⟨k4, k5, ?_, ?_⟩ }
        · intro hne
          have hlt : ¬ (w.dlo + bs.length ≥ w.dhi) := by
            intro hge
            apply hne
            split <;> simp [hge]
          exact ⟨by simp only; omega, d2, by simp only; rw [k6, k2], by simp only; exact k7⟩
        · intro _
          refine ⟨by simp only; omega, by simp only; omega, ?_⟩
          simp only [slice]
          rw [k2, k1]
          congr 1
          omega
      · cases h
    · cases h
  · cases h

theorem dinv_wSend {F : File} {s s' : DSt} (i : Nat) (hI : DInv F s)
    (h : stepD F s (.wSend i) = some s') : DInv F s' := by
  simp only [stepD, hI.nofault, Bool.false_eq_true, ↓reduceIte] at h
  split at h
  · next w hi =>
    split at h
    · next it hout =>
      split at h
      · cases h
        have hw := hI.wk i w hi
        obtain ⟨o1, o2, o3⟩ := hw.out (by rw [hout]; simp)
        exact { hI with
          nofault := rfl
          resc := fun x hx => by
            rcases List.mem_append.mp hx with hx | hx
            · exact hI.resc x hx
            · simp only [List.mem_singleton] at hx
              subst hx
              exact ⟨o1, o2, o3⟩
          wk := forall_setD hI.wk ⟨hw.err, hw.inv, hw.dr, fun h => by simp at h⟩ }
      · cases h
    · cases h
  · cases h

theorem dinv_wRecycle {F : File} {s s' : DSt} (i : Nat) (hI : DInv F s)
    (h : stepD F s (.wRecycle i) = some s') : DInv F s' := by
  simp only [stepD, hI.nofault, Bool.false_eq_true, ↓reduceIte] at h
  split at h
  · next w hi =>
    split at h
    · cases h
      have hw := hI.wk i w hi
      exact { hI with
        nofault := rfl
        wk := forall_setD hI.wk ⟨hw.err, hw.inv, hw.dr, hw.out⟩ }
    · cases h
  · cases h

/-- `recvRes` needs to know that the result it receives does not collide with an entry of
    `completedWorks` (supplied by the tiling invariant, Proof/RacConcDataTile*.lean) -/
theorem dinv_recvRes {F : File} {s s' : DSt} (hI : DInv F s)
    (hnd : ∀ it rest, s.resc = it :: rest → s.main = .reading → s.seekResolved = true →
      s.completed.all (fun c => c.lo != it.lo) = true)
    (h : stepD F s .recvRes = some s') : DInv F s' := by
  simp only [stepD, hI.nofault, Bool.false_eq_true, ↓reduceIte] at h
  split at h
  · next it rest hq =>
    split at h
    · next hg =>
      have hp := hI.pend
      simp only [PendInv, hg.1] at hp
      rw [if_pos (hnd it rest hq hg.1 hp.2.2.1)] at h
      cases h
      exact { hI with
        nofault := rfl
        resc := fun x hx => hI.resc x (by rw [hq]; exact List.mem_cons_of_mem _ hx)
        comp := fun x hx => by
          rcases List.mem_cons.mp hx with hx | hx
          · subst hx; exact hI.resc _ (by rw [hq]; simp)
          · exact hI.comp x hx
        live := fun h1 h2 => by
          obtain ⟨a, b⟩ := hI.live h1 h2
          exact ⟨a, fun it h => by rw [hg.2.2.1] at h; cases h⟩ }
    · cases h
  · cases h

theorem dinv_take {F : File} {s s' : DSt} (j : Nat) (hI : DInv F s)
    (h : stepD F s (.take j) = some s') : DInv F s' := by
  simp only [stepD, hI.nofault, Bool.false_eq_true, ↓reduceIte] at h
  split at h
  · next it hj =>
    split at h
    · next hg =>
      cases h
      have hmem : it ∈ s.completed := List.mem_of_getElem? hj
      exact { hI with
        nofault := rfl
        comp := fun x hx => hI.comp x (List.mem_of_mem_eraseIdx hx)
        curr := fun x hx => by simp only [Option.some.injEq] at hx; subst hx; exact hI.comp _ hmem
        live := fun h1 h2 => by
          obtain ⟨a, b⟩ := hI.live h1 h2
          refine ⟨a, fun x hx => ?_⟩
          simp only [Option.some.injEq] at hx
          subst hx
          exact ⟨by simp only; omega, Nat.zero_le _⟩ }
    · cases h
  · cases h

theorem dinv_recycleCurr {F : File} {s s' : DSt} (hI : DInv F s)
    (h : stepD F s .recycleCurr = some s') : DInv F s' := by
  simp only [stepD, hI.nofault, Bool.false_eq_true, ↓reduceIte] at h
  split at h
  · next it hc =>
    split at h
    · next i ho =>
      split at h
      · next w hi =>
        split at h
        · next hg =>
          cases h
          have hw := hI.wk i w hi
          exact { hI with
            nofault := rfl
            curr := fun x hx => by cases hx
            wk := forall_setD hI.wk ⟨hw.err, hw.inv, hw.dr, hw.out⟩
            live := fun h1 h2 => by
              obtain ⟨a, b⟩ := hI.live h1 h2
              exact ⟨a, fun x hx => by cases hx⟩ }
        · cases h
      · cases h
    · cases h
  · cases h

theorem take_append_drop_take (l : List UInt8) (a n m : Nat) :
    (l.drop a).take n ++ (l.drop (a + n)).take m = (l.drop a).take (n + m) := by
  rw [List.take_add, List.drop_drop]

theorem dinv_copy {F : File} (hok : F.ok) {s s' : DSt} (hI : DInv F s)
    (h : stepD F s .copy = some s') : DInv F s' := by
  simp only [stepD, hI.nofault, Bool.false_eq_true, ↓reduceIte] at h
  split at h
  · next it hc =>
    split at h
    · next hg =>
      cases h
      have hp := hI.pend
      simp only [PendInv, hg.1] at hp
      obtain ⟨⟨n, hpn⟩, herr, hsr, hcl⟩ := hp
      obtain ⟨hrl, hcur⟩ := hI.live hsr (Or.inr hg.1)
      obtain ⟨hpos, hci⟩ := hcur it hc
      have hgi := hI.curr it hc
      have hlen : it.data.length = it.hi - it.lo := by
        rw [hgi.data]; exact slice_length hok.1 (Nat.le_trans hgi.le hI.rhi)
      obtain ⟨r1, r2, r3⟩ := hI.rd n hpn
      obtain ⟨p1, p2, p3⟩ := hI.sp herr
      have hle : s.pos + min s.want (it.data.length - s.ci) ≤ s.lim := by
        have := hgi.le; rw [hrl] at this; omega
      -- the bytes copied are the file's bytes at `pos`
      have hbytes : ∀ m, m ≤ it.data.length - s.ci → (it.data.drop s.ci).take m = (F.bytes.drop s.pos).take m := by
        intro m hm
        rw [hlen] at hm
        rw [hgi.data]
        simp only [slice]
        rw [List.drop_take, List.drop_drop, List.take_take, hpos]
        congr 1
        omega
      have hB := hbytes (min s.want (it.data.length - s.ci)) (Nat.min_le_right _ _)
      have hblen : ((it.data.drop s.ci).take (min s.want (it.data.length - s.ci))).length
          = min s.want (it.data.length - s.ci) := by
        simp only [List.length_take, List.length_drop]
        omega
      have hwant : min s.want (it.data.length - s.ci) ≤ s.want := Nat.min_le_left _ _
      exact { hI with
        nofault := rfl
        live := fun h1 h2 => ⟨hrl, fun x hx => by
          rw [hc] at hx; simp only [Option.some.injEq] at hx; subst hx
          exact ⟨by simp only; omega, by simp only; omega⟩⟩
        rd := fun m hm => by
          rw [hpn] at hm; simp only [Option.some.injEq, Op.read.injEq] at hm; subst hm
          refine ⟨?_, hle, r3⟩
          show (s.got ++ _).length + (s.want - _) = _
          rw [List.length_append, hblen]
          omega
        nord := fun hno => absurd hpn (hno n)
        sp := fun _ => by
          show (specOf F s).lim = s.lim ∧
            (specOf F s).pos + (s.got ++ (it.data.drop s.ci).take (min s.want (it.data.length - s.ci))).length
              = s.pos + min s.want (it.data.length - s.ci) ∧
            s.got ++ (it.data.drop s.ci).take (min s.want (it.data.length - s.ci))
              = (F.bytes.drop (specOf F s).pos).take
                  (s.got ++ (it.data.drop s.ci).take (min s.want (it.data.length - s.ci))).length
          rw [List.length_append, hblen]
          refine ⟨p1, by omega, ?_⟩
          rw [hB]
          have e1 : s.pos = (specOf F s).pos + s.got.length := p2.symm
          conv => lhs; rw [p3, e1]
          exact take_append_drop_take _ _ _ _ }
    · cases h
  · cases h

end WuffsVerif.Rac.ConcD
