/-
C12, the C indenter: the ghost flag `lexClosed` of `indent_idempotent` (every search of the RUN for
the end of a raw string or a slash-star comment finds it) discharged from a predicate on the
input TEXT alone, independent of the options and of the indenter's state:
`delimitersTerminated s` — reading `s` line by line with the lexical classes dumbindent documents
(a line whose first non-blank byte is '#' is a preprocessor directive, opaque, continued by a
trailing backslash; `//` runs to the end of the line; "…" and '…' with backslash escapes end on
their line; `…` and slash-star comments end anywhere later), every string, character constant,
raw string and comment that is opened is terminated.  `rawTerminated` is the weaker predicate
without the "…" / '…' part, which idempotence does not need.  Core Lean only.
-/
import WuffsVerif.Proof.IndentIdem3

namespace WuffsVerif.Indent

/-- does the "…" / '…' constant whose text after the opening quote is `s` end on this line
(the search of `skipCooked`, which returns Go's nil otherwise) -/
def cookedFound (quote : UInt8) : Bytes → Bool
  | [] => false
  | [x] => x == quote
  | x :: y :: ys =>
    if x == quote then true
    else if x != BSLASH then cookedFound quote (y :: ys)
    else cookedFound quote ys

/-- result of lexing one code line (and the lines a raw string / comment that starts on it spans) -/
structure LexOut where
  raw : Bool       -- every raw string / slash-star comment found its end
  cooked : Bool    -- every "…" / '…' found its closing quote on its line
  tail : Bytes     -- what follows: '\n' :: remaining, or []
deriving DecidableEq, Repr

/-- the lexer of a code line: the inner `loop:` of `FormatBytes` without brace / parenthesis
counting and without output -/
def lexScan : Nat → Bytes → Bytes → Option LexOut
  | 0, _, _ => none
  | _ + 1, [], tail => some ⟨true, true, tail⟩
  | f + 1, c :: cs, tail =>
    if c == DQUOTE || c == SQUOTE then
      (lexScan f (skipCooked c cs) tail).map (fun x => { x with cooked := cookedFound c cs && x.cooked })
    else if c == BTICK then
      (lexScan f (splitLine (splitRaw backTick (cs ++ tail)).2).1 (splitLine (splitRaw backTick (cs ++ tail)).2).2).map
        (fun x => { x with raw := rawFound backTick (cs ++ tail) && x.raw })
    else if c == SLASH then
      match cs with
      | [] => lexScan f cs tail
      | d :: ds =>
        if d == SLASH then some ⟨true, true, tail⟩
        else if d == STAR then
          (lexScan f (splitLine (splitRaw starSlash (ds ++ tail)).2).1
            (splitLine (splitRaw starSlash (ds ++ tail)).2).2).map
            (fun x => { x with raw := rawFound starSlash (ds ++ tail) && x.raw })
        else lexScan f cs tail
    else lexScan f cs tail

/-- the lexer of the whole text: `pre` = inside a continued preprocessor directive -/
def lexLoop : Nat → Bool → Bytes → Bool × Bool
  | 0, _, _ => (true, true)
  | f + 1, pre, src0 =>
    if src0.isEmpty then (true, true) else
    match (splitLine (trimLeadingWs src0)).1 with
    | [] => lexLoop f pre ((splitLine (trimLeadingWs src0)).2.drop 1)
    | c0 :: l =>
      if pre || c0 == HASH then
        lexLoop f (lastNonWs (trimTrailingWs (c0 :: l)) == BSLASH) ((splitLine (trimLeadingWs src0)).2.drop 1)
      else
        match lexScan ((c0 :: l).length + (splitLine (trimLeadingWs src0)).2.length + 1) (c0 :: l)
            (splitLine (trimLeadingWs src0)).2 with
        | none => (true, true)
        | some x =>
          let r := lexLoop f false (x.tail.drop 1)
          (x.raw && r.1, x.cooked && r.2)

/-- every raw string and slash-star comment of the text is terminated -/
def rawTerminated (s : Bytes) : Bool := (lexLoop (s.length + 1) false (trimLeadingWsNl s)).1

/-- every string, character constant, raw string and comment of the text is terminated -/
def delimitersTerminated (s : Bytes) : Bool :=
  let r := lexLoop (s.length + 1) false (trimLeadingWsNl s)
  r.1 && r.2

/-! ### `lexScan` is `scan` without the counters -/

theorem lexScan_simple (f : Nat) (c : UInt8) (cs tail : Bytes) (h : isSimple c cs = true) :
    lexScan (f + 1) (c :: cs) tail = lexScan f cs tail := by
  unfold isSimple special2 at h
  simp only [Bool.and_eq_true, Bool.not_eq_true', Bool.or_eq_false_iff, Bool.and_eq_false_iff] at h
  obtain ⟨⟨h1, h2, h3⟩, h4⟩ := h
  conv => lhs; unfold lexScan
  simp only [h2, h3, h4, Bool.or_self, Bool.false_eq_true, ↓reduceIte]
  by_cases e5 : c == SLASH
  · simp only [e5, ↓reduceIte]
    cases cs with
    | nil => rfl
    | cons d ds =>
      simp only
      rcases h1 with h1 | h1
      · simp [e5] at h1
      · simp only [List.head?_cons, beq_eq_false_iff_ne, ne_eq, Option.some.injEq] at h1
        have hd1 : (d == SLASH) = false := by simpa using h1.1
        have hd2 : (d == STAR) = false := by simpa using h1.2
        simp only [hd1, hd2, Bool.false_eq_true, ↓reduceIte]
  · simp only [e5, Bool.false_eq_true, ↓reduceIte]

theorem lexScan_cooked (f : Nat) (c : UInt8) (cs tail : Bytes) (h : (c == DQUOTE || c == SQUOTE) = true) :
    lexScan (f + 1) (c :: cs) tail =
      (lexScan f (skipCooked c cs) tail).map (fun x => { x with cooked := cookedFound c cs && x.cooked }) := by
  conv => lhs; unfold lexScan
  simp only [h, ↓reduceIte]

theorem lexScan_btick (f : Nat) (cs tail : Bytes) :
    lexScan (f + 1) (BTICK :: cs) tail =
      (lexScan f (splitLine (splitRaw backTick (cs ++ tail)).2).1 (splitLine (splitRaw backTick (cs ++ tail)).2).2).map
        (fun x => { x with raw := rawFound backTick (cs ++ tail) && x.raw }) := by
  conv => lhs; unfold lexScan
  have : (BTICK == DQUOTE || BTICK == SQUOTE) = false := by decide
  simp only [this, Bool.false_eq_true, ↓reduceIte, beq_self_eq_true]

theorem lexScan_slashslash (f : Nat) (ds tail : Bytes) :
    lexScan (f + 1) (SLASH :: SLASH :: ds) tail = some ⟨true, true, tail⟩ := by
  conv => lhs; unfold lexScan
  have : (SLASH == DQUOTE || SLASH == SQUOTE) = false ∧ (SLASH == BTICK) = false := by decide
  simp only [this.1, this.2, Bool.false_eq_true, ↓reduceIte, beq_self_eq_true]

theorem lexScan_slashstar (f : Nat) (ds tail : Bytes) :
    lexScan (f + 1) (SLASH :: STAR :: ds) tail =
      (lexScan f (splitLine (splitRaw starSlash (ds ++ tail)).2).1
        (splitLine (splitRaw starSlash (ds ++ tail)).2).2).map
        (fun x => { x with raw := rawFound starSlash (ds ++ tail) && x.raw }) := by
  conv => lhs; unfold lexScan
  have : (SLASH == DQUOTE || SLASH == SQUOTE) = false ∧ (SLASH == BTICK) = false ∧ (STAR == SLASH) = false := by
    decide
  simp only [this.1, this.2.1, this.2.2, Bool.false_eq_true, ↓reduceIte, beq_self_eq_true]

/-- `scan`'s ghost flag and final `tail` are those of the lexer -/
theorem scan_lex : ∀ (f : Nat) (nB nP : Int) (last : UInt8) (clo : Bool) (out pend rest tail : Bytes) (r : ScanOut),
    scan f nB nP last clo out pend rest tail = some r →
    ∃ x, lexScan f rest tail = some x ∧ x.tail = r.tail ∧ r.closed = (clo && x.raw) := by
  intro f
  induction f with
  | zero => intro nB nP last clo out pend rest tail r h; simp [scan] at h
  | succ f ih =>
    intro nB nP last clo out pend rest tail r h
    cases rest with
    | nil =>
      simp only [scan, Option.some.injEq] at h
      subst h
      exact ⟨⟨true, true, tail⟩, by simp [lexScan], rfl, by simp⟩
    | cons c cs =>
      by_cases hs : isSimple c cs = true
      · rw [scan_simple _ _ _ _ _ _ _ _ _ _ hs] at h
        rw [lexScan_simple _ _ _ _ hs]
        exact ih _ _ _ _ _ _ _ _ _ h
      · have hs' : isSimple c cs = false := by simpa using hs
        rcases not_simple_cases c cs hs' with hq | rfl | ⟨rfl, ds, rfl⟩ | ⟨rfl, ds, rfl⟩
        · rw [scan_cooked _ _ _ _ _ _ _ _ _ _ hq] at h
          rw [lexScan_cooked _ _ _ _ hq]
          obtain ⟨x, hx, ht, hc⟩ := ih _ _ _ _ _ _ _ _ _ h
          exact ⟨{ x with cooked := cookedFound c cs && x.cooked }, by rw [hx]; rfl, ht, hc⟩
        · rw [scan_btick] at h
          rw [lexScan_btick]
          obtain ⟨x, hx, ht, hc⟩ := ih _ _ _ _ _ _ _ _ _ h
          exact ⟨{ x with raw := rawFound backTick (cs ++ tail) && x.raw }, by rw [hx]; rfl, ht,
            by rw [hc, Bool.and_assoc]⟩
        · rw [scan_slashslash] at h
          rw [lexScan_slashslash]
          simp only [Option.some.injEq] at h
          subst h
          exact ⟨_, rfl, rfl, by simp⟩
        · rw [scan_slashstar] at h
          rw [lexScan_slashstar]
          obtain ⟨x, hx, ht, hc⟩ := ih _ _ _ _ _ _ _ _ _ h
          exact ⟨{ x with raw := rawFound starSlash (ds ++ tail) && x.raw }, by rw [hx]; rfl, ht,
            by rw [hc, Bool.and_assoc]⟩

/-- leading '}' bytes (which `FormatBytes` writes before it scans the line) do not matter -/
theorem lexScan_braces : ∀ (n f : Nat) (cs tail : Bytes),
    lexScan (f + n) (List.replicate n RBRACE ++ cs) tail = lexScan f cs tail := by
  intro n
  induction n with
  | zero => intro f cs tail; rfl
  | succ n ih =>
    intro f cs tail
    have hs : isSimple RBRACE (List.replicate n RBRACE ++ cs) = true := by
      unfold isSimple special2
      have : (RBRACE == SLASH) = false ∧ (RBRACE == DQUOTE || RBRACE == SQUOTE) = false ∧ (RBRACE == BTICK) = false := by
        decide
      simp [this.1, this.2.1, this.2.2]
    rw [List.replicate_succ, List.cons_append, ← Nat.add_assoc, lexScan_simple _ _ _ _ hs, ih]

theorem countInitial_split (x : UInt8) : ∀ (l : Bytes),
    l = List.replicate (countInitial x l) x ++ l.drop (countInitial x l) := by
  intro l
  induction l with
  | nil => rfl
  | cons c cs ih =>
    unfold countInitial
    by_cases hc : (c == x) = true
    · have : c = x := by simpa using hc
      subst this
      simp only [beq_self_eq_true, ↓reduceIte, List.replicate_succ, List.cons_append, List.drop_succ_cons]
      rw [← ih]
    · simp [hc]

theorem closeBraces_split (line : Bytes) :
    line = List.replicate (closeBracesOf line) RBRACE ++ line.drop (closeBracesOf line) := by
  unfold closeBracesOf
  split
  · simp
  · exact countInitial_split RBRACE line

/-! ### the run's ghost flag from the text's predicate -/

theorem loopClosed_of_lex (o : Opts) (ii : Nat) : ∀ (f : Nat) (st : St) (src : Bytes),
    (lexLoop f st.preproc src).1 = true → loopClosed o ii f st src = true := by
  intro f
  induction f with
  | zero => intro st src _; rfl
  | succ f ih =>
    intro st src h
    unfold loopClosed
    unfold lexLoop at h
    by_cases he : src.isEmpty = true
    · simp only [he, ↓reduceIte]
    · simp only [he, Bool.false_eq_true, ↓reduceIte] at h ⊢
      cases hl : (splitLine (trimLeadingWs src)).1 with
      | nil =>
        rw [hl] at h
        simp only at h ⊢
        exact ih _ _ h
      | cons c0 l =>
        rw [hl] at h
        simp only at h ⊢
        by_cases hp : (st.preproc || c0 == HASH) = true
        · simp only [hp, ↓reduceIte] at h ⊢
          exact ih _ _ h
        · simp only [hp, Bool.false_eq_true, ↓reduceIte] at h ⊢
          cases hc : codeLine o ii st (c0 :: l) (splitLine (trimLeadingWs src)).2 with
          | none => rfl
          | some x =>
            simp only
            -- the scan of this line
            unfold codeLine at hc
            simp only at hc
            cases hsc : scan (((c0 :: l).drop (closeBracesOf (c0 :: l))).length +
                (splitLine (trimLeadingWs src)).2.length + 1) (nBracesAtLineStart st (c0 :: l)) st.nParens
                (lastNonWs ((c0 :: l).drop (closeBracesOf (c0 :: l)))) true [] []
                ((c0 :: l).drop (closeBracesOf (c0 :: l))) (splitLine (trimLeadingWs src)).2 with
            | none => rw [hsc] at hc; simp at hc
            | some r =>
              rw [hsc] at hc
              simp only [Option.some.injEq] at hc
              obtain ⟨y, hy, hyt, hyc⟩ := scan_lex _ _ _ _ _ _ _ _ _ _ hsc
              have hsplit := closeBraces_split (c0 :: l)
              have hlen : (c0 :: l).length = ((c0 :: l).drop (closeBracesOf (c0 :: l))).length + closeBracesOf (c0 :: l) := by
                have := congrArg List.length hsplit
                simp only [List.length_append, List.length_replicate] at this
                omega
              have hlex : lexScan ((c0 :: l).length + (splitLine (trimLeadingWs src)).2.length + 1) (c0 :: l)
                  (splitLine (trimLeadingWs src)).2 = some y := by
                rw [← hy]
                conv => lhs; rw [hsplit]
                have e : (List.replicate (closeBracesOf (c0 :: l)) RBRACE ++
                      (c0 :: l).drop (closeBracesOf (c0 :: l))).length +
                    (splitLine (trimLeadingWs src)).2.length + 1 =
                    (((c0 :: l).drop (closeBracesOf (c0 :: l))).length +
                      (splitLine (trimLeadingWs src)).2.length + 1) + closeBracesOf (c0 :: l) := by
                  simp only [List.length_append, List.length_replicate]; omega
                rw [e, lexScan_braces]
              rw [hlex] at h
              simp only [Bool.and_eq_true] at h
              rw [Bool.and_eq_true]
              refine ⟨?_, ?_⟩
              · unfold codeLineClosed
                simp only
                rw [hsc]
                simp only
                rw [hyc, h.1]
                rfl
              · rw [← hc]
                simp only
                rw [← hyt]
                exact ih _ _ h.2

/-- The ghost flag of the run follows from the predicate on the text, for every option. -/
theorem lexClosed_of_rawTerminated (o : Opts) (s : Bytes) (h : rawTerminated s = true) : lexClosed o s = true := by
  unfold lexClosed
  exact loopClosed_of_lex o _ _ st0 _ h

theorem lexClosed_of_delimitersTerminated (o : Opts) (s : Bytes) (h : delimitersTerminated s = true) :
    lexClosed o s = true := by
  unfold delimitersTerminated at h
  rw [Bool.and_eq_true] at h
  exact lexClosed_of_rawTerminated o s h.1

end WuffsVerif.Indent
