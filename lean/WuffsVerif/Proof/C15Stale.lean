/-
C15 helper lemmas: nothing the reader computes from a node depends on the stale bytes of
`currNode` beyond the node's size, provided byte 3 is the arity that was loaded (which
`loadAndValidate` and the repaired `tryRootNode` guarantee).  Core Lean only.
-/
import WuffsVerif.Proof.C15Node

namespace WuffsVerif.Rac.ChunkReader

/-- the same loaded bytes, other stale bytes behind them -/
def Node.withStale (n : Node) (s : Nat → Nat) : Node := { n with stale := s }

theorem Node.rd_ws (n : Node) (s : Nat → Nat) (i : Nat) (h : i < n.size) :
    (n.withStale s).rd i = n.rd i := by
  unfold Node.rd Node.withStale
  simp only [h, ↓reduceIte]

/-- `Consistent n`: byte 3 is the arity that was loaded -/
def Node.Consistent (n : Node) : Prop := n.size = nodeSize n.arity

theorem Node.arity_ws (n : Node) (s : Nat → Nat) (hc : n.Consistent) :
    (n.withStale s).arity = n.arity := by
  unfold Node.arity
  exact n.rd_ws s 3 (by rw [hc]; unfold nodeSize; omega)

theorem Node.rd_ws' (n : Node) (s : Nat → Nat) (hc : n.Consistent) (i : Nat)
    (h : i < nodeSize n.arity) : (n.withStale s).rd i = n.rd i :=
  n.rd_ws s i (by rw [hc]; exact h)

theorem Node.u48_ws (n : Node) (s : Nat → Nat) (hc : n.Consistent) (i : Nat)
    (h : i + 5 < nodeSize n.arity) : (n.withStale s).u48 i = n.u48 i := by
  unfold Node.u48
  rw [n.rd_ws' s hc i (by omega), n.rd_ws' s hc (i + 1) (by omega), n.rd_ws' s hc (i + 2) (by omega),
    n.rd_ws' s hc (i + 3) (by omega), n.rd_ws' s hc (i + 4) (by omega), n.rd_ws' s hc (i + 5) h]

theorem Node.dPtr_ws (n : Node) (s : Nat → Nat) (hc : n.Consistent) (i : Nat) (hi : i ≤ n.arity) :
    (n.withStale s).dPtr i = n.dPtr i := by
  unfold Node.dPtr
  split
  · rfl
  · exact n.u48_ws s hc (8 * i) (by unfold nodeSize; omega)

theorem Node.dPtrMax_ws (n : Node) (s : Nat → Nat) (hc : n.Consistent) :
    (n.withStale s).dPtrMax = n.dPtrMax := by
  unfold Node.dPtrMax
  rw [n.arity_ws s hc]
  exact n.u48_ws s hc _ (by unfold nodeSize; omega)

theorem Node.cPtrMax_ws (n : Node) (s : Nat → Nat) (hc : n.Consistent) :
    (n.withStale s).cPtrMax = n.cPtrMax := by
  unfold Node.cPtrMax
  rw [n.arity_ws s hc]
  exact n.u48_ws s hc _ (by unfold nodeSize; omega)

theorem Node.version_ws (n : Node) (s : Nat → Nat) (hc : n.Consistent) :
    (n.withStale s).version = n.version := by
  unfold Node.version
  rw [n.arity_ws s hc]
  exact n.rd_ws' s hc _ (by unfold nodeSize; omega)

theorem Node.codecByte_ws (n : Node) (s : Nat → Nat) (hc : n.Consistent) :
    (n.withStale s).codecByte = n.codecByte := by
  unfold Node.codecByte
  rw [n.arity_ws s hc]
  exact n.rd_ws' s hc _ (by unfold nodeSize; omega)

theorem Node.tTag_ws (n : Node) (s : Nat → Nat) (hc : n.Consistent) (i : Nat) (hi : i < n.arity) :
    (n.withStale s).tTag i = n.tTag i := by
  unfold Node.tTag
  exact n.rd_ws' s hc _ (by unfold nodeSize; omega)

theorem Node.sTag_ws (n : Node) (s : Nat → Nat) (hc : n.Consistent) (i : Nat) (hi : i < n.arity) :
    (n.withStale s).sTag i = n.sTag i := by
  unfold Node.sTag
  rw [n.arity_ws s hc]
  exact n.rd_ws' s hc _ (by unfold nodeSize; omega)

theorem Node.cLen_ws (n : Node) (s : Nat → Nat) (hc : n.Consistent) (i : Nat) (hi : i < n.arity) :
    (n.withStale s).cLen i = n.cLen i := by
  unfold Node.cLen
  rw [n.arity_ws s hc]
  exact n.rd_ws' s hc _ (by unfold nodeSize; omega)

theorem Node.cPtr_ws (n : Node) (s : Nat → Nat) (hc : n.Consistent) (i : Nat) (hi : i < n.arity) :
    (n.withStale s).cPtr i = n.cPtr i := by
  unfold Node.cPtr
  rw [n.arity_ws s hc]
  exact n.u48_ws s hc _ (by unfold nodeSize; omega)

theorem Node.isLeaf_ws (n : Node) (s : Nat → Nat) (hc : n.Consistent) (i : Nat) (hi : i < n.arity) :
    (n.withStale s).isLeaf i = n.isLeaf i := by
  unfold Node.isLeaf
  rw [n.tTag_ws s hc i hi]

theorem Node.dSize_ws (n : Node) (s : Nat → Nat) (hc : n.Consistent) (i : Nat) (hi : i < n.arity) :
    (n.withStale s).dSize i = n.dSize i := by
  rw [Node.dSize_eq, Node.dSize_eq, n.dPtr_ws s hc (i + 1) (by omega), n.dPtr_ws s hc i (by omega)]

theorem Node.cOffRange_ws (n : Node) (s : Nat → Nat) (hc : n.Consistent) (i cBias : Nat) :
    (n.withStale s).cOffRange i cBias = n.cOffRange i cBias := by
  unfold Node.cOffRange
  rw [n.arity_ws s hc, n.cPtrMax_ws s hc]
  by_cases h : i ≥ n.arity
  · simp only [h, ↓reduceIte]
  · simp only [h, ↓reduceIte]
    rw [n.cPtr_ws s hc i (by omega), n.cLen_ws s hc i (by omega)]

/-! ## codec -/

theorem Node.u56_ws (n : Node) (s : Nat → Nat) (hc : n.Consistent) (i : Nat)
    (h : i + 6 < nodeSize n.arity) : (n.withStale s).u56 i = n.u56 i := by
  unfold Node.u56
  rw [n.u48_ws s hc i (by omega), n.rd_ws' s hc (i + 6) h]

theorem Node.longCodecFrom_ws (n : Node) (s : Nat → Nat) (hc : n.Consistent) (c64 : Nat) :
    ∀ fuel j, (n.withStale s).longCodecFrom c64 fuel j = n.longCodecFrom c64 fuel j := by
  intro fuel
  induction fuel with
  | zero => intro j; rfl
  | succ k ih =>
    intro j
    unfold Node.longCodecFrom
    simp only
    rw [n.arity_ws s hc]
    by_cases hi : (c64 ||| j <<< 6) < n.arity
    · rw [n.tTag_ws s hc _ hi, n.u56_ws s hc _ (by unfold nodeSize; omega), ih]
    · simp only [hi, decide_false, Bool.false_and, Bool.false_eq_true, ↓reduceIte]
      exact ih (j + 1)

theorem Node.codec_ws (n : Node) (s : Nat → Nat) (hc : n.Consistent) :
    (n.withStale s).codec = n.codec := by
  unfold Node.codec
  simp only
  rw [n.codecByte_ws s hc, n.longCodecFrom_ws s hc]

theorem Node.chunk_ws (n : Node) (s : Nat → Nat) (hc : n.Consistent) (i cBias dBias : Nat)
    (hi : i < n.arity) : (n.withStale s).chunk i cBias dBias = n.chunk i cBias dBias := by
  unfold Node.chunk
  simp only
  rw [n.sTag_ws s hc i hi, n.tTag_ws s hc i hi, n.cOffRange_ws s hc, n.cOffRange_ws s hc,
    n.cOffRange_ws s hc, n.dPtr_ws s hc i (by omega), n.dPtr_ws s hc (i + 1) (by omega),
    n.codec_ws s hc]

/-! ## `findChunkContaining` -/

theorem Node.bsearch_ws (n : Node) (s : Nat → Nat) (hc : n.Consistent) (d dBias : Nat) :
    ∀ fuel lo hi, hi ≤ n.arity →
      (n.withStale s).bsearch d dBias fuel lo hi = n.bsearch d dBias fuel lo hi := by
  intro fuel
  induction fuel with
  | zero => intro lo hi _; rfl
  | succ k ih =>
    intro lo hi hhi
    unfold Node.bsearch
    by_cases hlt : lo < hi
    · simp only [hlt, ↓reduceIte]
      rw [n.dPtr_ws s hc ((lo + hi) / 2) (by omega)]
      rw [ih ((lo + hi) / 2 + 1) hi hhi, ih lo ((lo + hi) / 2) (by omega)]
    · simp only [hlt, ↓reduceIte]

theorem Node.find_ws (n : Node) (s : Nat → Nat) (hc : n.Consistent) (d dBias : Nat) :
    (n.withStale s).findChunkContaining d dBias = n.findChunkContaining d dBias := by
  unfold Node.findChunkContaining
  simp only
  rw [n.arity_ws s hc, n.bsearch_ws s hc d dBias _ _ _ (Nat.le_refl _)]

/-! ## `valid` -/

theorem all_range_congr (a : Nat) (p q : Nat → Bool) (h : ∀ i, i < a → p i = q i) :
    (List.range a).all p = (List.range a).all q := by
  induction a with
  | zero => rfl
  | succ k ih =>
    rw [List.range_succ, List.all_append, List.all_append, ih (fun i hi => h i (by omega))]
    simp only [List.all_cons, List.all_nil, Bool.and_true]
    rw [h k (by omega)]

theorem any_range_congr (a : Nat) (p q : Nat → Bool) (h : ∀ i, i < a → p i = q i) :
    (List.range a).any p = (List.range a).any q := by
  induction a with
  | zero => rfl
  | succ k ih =>
    rw [List.range_succ, List.any_append, List.any_append, ih (fun i hi => h i (by omega))]
    simp only [List.any_cons, List.any_nil, Bool.or_false]
    rw [h k (by omega)]

theorem crcRange_congr (rd1 rd2 : Nat → Nat) : ∀ len lo c,
    (∀ i, lo ≤ i → i < lo + len → rd1 i = rd2 i) → crcRange rd1 len lo c = crcRange rd2 len lo c := by
  intro len
  induction len with
  | zero => intro lo c _; rfl
  | succ k ih =>
    intro lo c h
    unfold crcRange
    rw [h lo (Nat.le_refl _) (by omega)]
    exact ih (lo + 1) _ (by intro i h1 h2; exact h i (by omega) (by omega))

theorem Node.valid_ws (n : Node) (s : Nat → Nat) (hc : n.Consistent) :
    (n.withStale s).valid = n.valid := by
  have ha := n.arity_ws s hc
  unfold Node.valid
  simp only
  rw [ha]
  have hlt : n.arity < 256 := n.arity_lt
  by_cases h0 : n.arity = 0
  · simp only [h0, bne_self_eq_false, Bool.and_false, Bool.false_and]
  have e0 := n.rd_ws' s hc 0 (by unfold nodeSize; omega)
  have e1 := n.rd_ws' s hc 1 (by unfold nodeSize; omega)
  have e2 := n.rd_ws' s hc 2 (by unfold nodeSize; omega)
  have e3 := n.rd_ws' s hc 3 (by unfold nodeSize; omega)
  have e4 := n.rd_ws' s hc 4 (by unfold nodeSize; omega)
  have e5 := n.rd_ws' s hc 5 (by unfold nodeSize; omega)
  have eend := n.rd_ws' s hc (nodeSize n.arity - 1) (by unfold nodeSize; omega)
  have eres := n.rd_ws' s hc (8 * n.arity + 6) (by unfold nodeSize; omega)
  have hres : (List.range n.arity).all (n.withStale s).reservedOk = (List.range n.arity).all n.reservedOk := by
    apply all_range_congr
    intro i hi
    unfold Node.reservedOk
    rw [n.rd_ws' s hc _ (by unfold nodeSize; omega), n.tTag_ws s hc i hi]
  have hany : (List.range n.arity).any (fun i => (n.withStale s).tTag i != 0xFD) =
      (List.range n.arity).any (fun i => n.tTag i != 0xFD) := by
    apply any_range_congr
    intro i hi
    simp only [n.tTag_ws s hc i hi]
  have hd : (List.range n.arity).all (n.withStale s).dPtrOk = (List.range n.arity).all n.dPtrOk := by
    apply all_range_congr
    intro i hi
    unfold Node.dPtrOk
    rw [n.dPtr_ws s hc i (by omega), n.dPtr_ws s hc (i + 1) (by omega), n.tTag_ws s hc i hi]
  have hcp : (List.range n.arity).all (n.withStale s).cPtrOk = (List.range n.arity).all n.cPtrOk := by
    apply all_range_congr
    intro i hi
    unfold Node.cPtrOk
    rw [n.cPtr_ws s hc i hi, n.cPtrMax_ws s hc, n.tTag_ws s hc i hi]
  have hsum : (n.withStale s).checksumOk = n.checksumOk := by
    unfold Node.checksumOk Node.crc32
    simp only
    rw [ha, e4, e5]
    rw [crcRange_congr (n.withStale s).rd n.rd (nodeSize n.arity - 6) 6 0xFFFFFFFF
      (by intro i h1 h2; exact n.rd_ws' s hc i (by unfold nodeSize at h2 ⊢; omega))]
  rw [e0, e1, e2, e3, eend, eres, hres, hany, hd, hcp, n.version_ws s hc, hsum, n.codec_ws s hc]

/-! ## every index is inside the 4096-byte buffer -/

/-- Every byte index the accessors compute for an element `i < arity ≤ 255` — including the
8-byte windows Go's `u48LE`/`u64LE` slice — ends inside the node, and the node inside the
4096-byte `rNode` buffer: no index-out-of-range panic, no read beyond the loaded bytes. -/
theorem index_bounds (a i : Nat) (ha : a ≤ 255) (hi : i < a) :
    nodeSize a ≤ 4096 ∧
    8 * i + 7 < nodeSize a ∧                 -- DPtr[i] window, Reserved, TTag[i]
    8 * (i + 1) + 7 < nodeSize a ∧           -- DPtr[i+1] window (DPtrMax when i+1 = arity), CodecByte
    8 * a + 8 + 8 * i + 7 < nodeSize a ∧     -- CPtr[i] window, CLen[i], STag[i], long codec bytes
    16 * a + 8 + 7 < nodeSize a ∧            -- CPtrMax window, Version, Arity
    nodeSize a - 1 = 16 * a + 15 := by
  unfold nodeSize
  omega

end WuffsVerif.Rac.ChunkReader
