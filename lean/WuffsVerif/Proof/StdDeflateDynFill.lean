/-
C07 helper, part 7, MODULE F: the table-filling loop of `init_huff` (`huffFill`, including second-level tables)
on a sorted complete code satisfies `FillOK` (`fillSpec_holds : FillSpec`).

  StdDeflateDynFillA   `codeOf` (low bits, injectivity, split), the bit reversal `reverse9 key >>> (9 - n)`,
                       `huffReplicate` and what it does to the table (`replicate_table`)
  StdDeflateDynFillB   `codeAt` / `kraftSum`: `codeAt t * 2^(15 - ln t) = kraftSum t`, bounds, prefix-freeness,
                       the 9-bit prefix `kraftSum t / 64`, the first code under a new prefix has low part 0
  StdDeflateDynFillC   running histogram `cnt`, `huffSecondBits` on a sorted complete code (`secondBits_spec`)
  this file            the loop body cut into pieces (`huffFill_eq`, `redirStep`, `valueOf`), the loop invariant
                       (`Inv`: `Done` for the symbols placed so far, `PhaseA` / `PhaseB` for the table state, incl. the
                       potential argument that bounds `nextTop`), one iteration (`redir_ok`, `new_table`, `finish`),
                       the loop (`fill_loop`) and `fillSpec_holds`.
Core Lean only.
-/
import WuffsVerif.Proof.StdDeflateDynFillA
import WuffsVerif.Proof.StdDeflateDynFillB
import WuffsVerif.Proof.StdDeflateDynFillC

namespace WuffsVerif.StdDeflate.F
open WuffsVerif.Gen.C07

/-! ### the loop body, cut into pieces -/

/-- the 2nd-level bookkeeping of one iteration of the filling loop -/
def redirStep (s : Fill) (cl0 code : Nat) : M (Nat × Nat × Fill) :=
  if cl0 > 9 then
    let cl1 := cl0 - 9
    let redirectKey := (code >>> cl1) &&& 511
    let key := code &&& ((1 <<< cl1) - 1)
    if s.prevRedirectKey ≠ redirectKey then do
      let j ← huffSecondBits s.counts 16 (1 <<< cl1) cl0
      if j ≤ 9 ∨ 15 < j then .error errInternal
      else
        let j := j - 9
        let top := s.nextTop
        if top + (1 <<< j) > deflateHuffsTableSize then .error errInternal
        else
          let rk := reverse9 redirectKey
          .ok (cl1, key, { s with prevRedirectKey := redirectKey, initialHighBits := 1 <<< j, top := top,
                                  nextTop := top + (1 <<< j),
                                  writes := (rk, 0x10000009 ||| (top <<< 8) ||| (j <<< 4)) :: s.writes })
    else .ok (cl1, key, s)
  else .ok (cl0, code, s)

def valueOf (which baseSymbol symbol cl1 : Nat) : M Nat :=
  if symbol = 256 then .ok (0x20000000 ||| cl1)
  else if symbol < 256 ∧ which = 0 then .ok (0x80000000 ||| (symbol <<< 8) ||| cl1)
  else if symbol ≥ baseSymbol then
    let symbol := symbol - baseSymbol
    if which = 0 then .ok (deflateLcodeMagic.getD (symbol &&& 31) 0 ||| cl1)
    else .ok (deflateDcodeMagic.getD (symbol &&& 31) 0 ||| cl1)
  else .error errInternal

theorem huffFill_eq (which n0 base N : Nat) (cl symbols : Array Nat) (f : Nat) (s0 : Fill) :
    huffFill which n0 base N cl symbols (f + 1) s0 =
    if n0 + symbols.getD s0.i 0 ≥ 320 then .error errInternal
    else
      let cl0 := cl.getD (n0 + symbols.getD s0.i 0) 0 &&& 15
      let code := if cl0 > s0.prevCl then s0.code <<< (cl0 - s0.prevCl) else s0.code
      if cl0 > s0.prevCl ∧ code ≥ 1 <<< 15 then .error errInternal
      else
        match redirStep s0 cl0 code with
        | .error e => .error e
        | .ok (cl1, key, s) =>
          if key ≥ 1 <<< 9 ∨ s.counts.getD cl0 0 ≤ 0 then .error errInternal
          else
            match valueOf which base (symbols.getD s.i 0) cl1 with
            | .error e => .error e
            | .ok value =>
              match huffReplicate s.top (reverse9 key >>> (9 - cl1)) value (1 <<< cl1) 512 s.initialHighBits s.writes with
              | .error e => .error e
              | .ok writes =>
                if s.i + 1 ≥ N then .ok writes
                else
                  if code + 1 ≥ 1 <<< 15 then .error errInternal
                  else huffFill which n0 base N cl symbols f
                    { s with i := s.i + 1, code := code + 1, prevCl := cl0,
                             counts := s.counts.setIfInBounds cl0 (s.counts.getD cl0 0 - 1), writes := writes } := by
  rw [huffFill]
  rfl

theorem valueOf_eq (which base v n : Nat) (h : (fillVal which base v).isSome = true) :
    valueOf which base v n = .ok (entryOf which base v n) := by
  unfold valueOf entryOf
  unfold fillVal at h ⊢
  by_cases h1 : v = 256
  · simp [h1]
  · by_cases h4 : which = 0 <;> by_cases h2 : v < 256 <;> by_cases h3 : v ≥ base <;>
      simp [h1, h2, h3, h4] at h ⊢

/-! ### arithmetic -/

theorem divmod_unique (m a b a' b' : Nat) (hb : b < m) (hb' : b' < m) :
    a * m + b = a' * m + b' ↔ a = a' ∧ b = b' := by
  constructor
  · intro h
    have hm : 0 < m := by omega
    have h1 : (a * m + b) / m = a := by
      rw [Nat.mul_comm, Nat.mul_add_div hm, Nat.div_eq_of_lt hb]; rfl
    have h2 : (a' * m + b') / m = a' := by
      rw [Nat.mul_comm, Nat.mul_add_div hm, Nat.div_eq_of_lt hb']; rfl
    have ha : a = a' := by rw [← h1, ← h2, h]
    subst ha
    exact ⟨rfl, by omega⟩
  · rintro ⟨rfl, rfl⟩; rfl

theorem getD_set (T : Array Nat) (i v k : Nat) :
    (T.setIfInBounds i v).getD k 0 = if i = k ∧ k < T.size then v else T.getD k 0 := by
  simp only [Array.getD_eq_getD_getElem?, Array.getElem?_setIfInBounds]
  by_cases h : i = k
  · subst h
    by_cases h2 : i < T.size
    · simp [h2]
    · simp [h2]
  · simp [h]

theorem applyWrites_cons_rev (old : Array Nat) (iv : Nat × Nat) (w : List (Nat × Nat)) :
    applyWrites old (iv :: w).reverse = (applyWrites old w.reverse).setIfInBounds iv.1 iv.2 := by
  simp [applyWrites, List.foldl_append]

theorem pow_le_64 {a : Nat} (h : a ≤ 6) : 2 ^ a ≤ 64 := by
  have := Nat.pow_le_pow_right (show 0 < 2 by omega) h
  omega

theorem pow_le_512 {a : Nat} (h : a ≤ 9) : 2 ^ a ≤ 512 := by
  have := Nat.pow_le_pow_right (show 0 < 2 by omega) h
  omega

theorem two_le_pow {a : Nat} (h : 1 ≤ a) : 2 ≤ 2 ^ a := by
  have := Nat.pow_le_pow_right (show 0 < 2 by omega) h
  omega

section code
variable {N : Nat} {ln : Nat → Nat}

theorem match_disjoint (hs : Sorted N ln) {t t' : Nat} (htt : t < t') (ht' : t' < N) (x : Nat)
    (h : codeOf x (ln t) = codeAt ln t) : codeOf x (ln t') ≠ codeAt ln t' := by
  intro h'
  have hl : ln t ≤ ln t' := ln_mono hs (Nat.le_of_lt htt) ht'
  have hsp := codeOf_split x (ln t) (ln t' - ln t)
  rw [show ln t + (ln t' - ln t) = ln t' by omega, h, h'] at hsp
  have hlt := codeOf_lt (x / 2 ^ ln t) (ln t' - ln t)
  have hp := codeAt_prefix hs htt ht'
  rw [Nat.add_mul] at hp
  omega

theorem match_hi (hs : Sorted N ln) {t : Nat} (ht : t < N) (h9 : 9 < ln t) (x : Nat) :
    codeOf x (ln t) = codeAt ln t ↔
      (codeOf x 9 = kraftSum ln t / 64 ∧ codeOf (x / 2 ^ 9) (ln t - 9) = codeAt ln t % 2 ^ (ln t - 9)) := by
  have hsp := codeOf_split x 9 (ln t - 9)
  rw [show 9 + (ln t - 9) = ln t by omega] at hsp
  have h2 := codeAt_split9 hs ht h9
  have hp : 0 < 2 ^ (ln t - 9) := Nat.two_pow_pos _
  rw [hsp]
  conv => lhs; rhs; rw [h2]
  exact divmod_unique _ _ _ _ _ (codeOf_lt _ _) (Nat.mod_lt _ hp)

theorem pfx_mono (ln : Nat → Nat) {a b : Nat} (h : a ≤ b) : kraftSum ln a / 64 ≤ kraftSum ln b / 64 :=
  Nat.div_le_div_right (kraftSum_mono ln h)

theorem rev9 (p : Nat) (hp : p < 512) : reverse9 p < 512 ∧ codeOf (reverse9 p) 9 = p := by
  have := rev_spec 9 p (Nat.le_refl _) (by omega)
  simpa using this

theorem slot9 (p x : Nat) (hp : p < 512) (h : codeOf x 9 = p) : x % 2 ^ 9 = reverse9 p := by
  have hr := rev9 p hp
  have := codeOf_mod_inj 9 x (reverse9 p) (h.trans hr.2.symm)
  rw [this]
  exact Nat.mod_eq_of_lt hr.1

end code

end WuffsVerif.StdDeflate.F


namespace WuffsVerif.StdDeflate.F
open WuffsVerif.Gen.C07

/-! ### the loop invariant -/

/-- what the table built so far holds for the symbols `< t` -/
structure Done (which base N : Nat) (sy ln : Nat → Nat) (T : Array Nat) (t : Nat) (s : Fill) : Prop where
  size : T.size = 1024
  direct : ∀ t', t' < t → ln t' ≤ 9 → ∀ x, codeOf x (ln t') = codeAt ln t' →
    T.getD (x % 2 ^ nbOf (ln (N - 1))) 0 = entryOf which base (sy t') (ln t')
  redirect : ∀ t', t' < t → 9 < ln t' → ∀ x, codeOf x (ln t') = codeAt ln t' →
    ∃ top j, T.getD (x % 2 ^ 9) 0 = redirEntry top j ∧ 1 ≤ j ∧ ln t' ≤ 9 + j ∧ 9 + j ≤ 15 ∧ 512 ≤ top ∧
      top + 2 ^ j ≤ 1024 ∧ T.getD (top + x / 2 ^ 9 % 2 ^ j) 0 = entryOf which base (sy t') (ln t' - 9) ∧
      top + 2 ^ j ≤ s.nextTop ∧
      (kraftSum ln t' / 64 = s.prevRedirectKey → top = s.top ∧ 2 ^ j = s.initialHighBits) ∧
      (kraftSum ln t' / 64 ≠ s.prevRedirectKey → top + 2 ^ j ≤ s.top)

/-- no second-level table yet -/
structure PhaseA (N : Nat) (ln : Nat → Nat) (t : Nat) (s : Fill) : Prop where
  short : ∀ t', t' < t → ln t' ≤ 9
  top : s.top = 0
  ihb : s.initialHighBits = 2 ^ nbOf (ln (N - 1))
  nt : s.nextTop = 512
  prk : s.prevRedirectKey = 0xFFFFFFFF

/-- the current second-level table: created at symbol `t0`, `2^J` slots -/
structure TblB (N : Nat) (ln : Nat → Nat) (T : Array Nat) (tm : Nat) (s : Fill) (t0 J : Nat) : Prop where
  t0le : t0 ≤ tm
  l0 : 9 < ln t0
  k0 : kraftSum ln t0 = s.prevRedirectKey * 64
  ihb : s.initialHighBits = 2 ^ J
  j1 : 1 ≤ J
  j15 : 9 + J ≤ 15
  top512 : 512 ≤ s.top
  nt : s.nextTop = s.top + 2 ^ J
  bound : s.top + 2 ≤ 512 + t0 + 2 ^ (ln t0 - 9)
  lens : ∀ t', t' < N → kraftSum ln t' / 64 = s.prevRedirectKey → ln t' ≤ 9 + J
  last : ∃ tl, tl < N ∧ ln tl = 9 + J ∧ kraftSum ln tl / 64 = s.prevRedirectKey
  entry : T.getD (reverse9 s.prevRedirectKey) 0 = redirEntry s.top J

/-- the previous symbol was longer than 9 bits -/
def PhaseB (N : Nat) (ln : Nat → Nat) (T : Array Nat) (t : Nat) (s : Fill) : Prop :=
  ∃ tp t0 J, tp + 1 = t ∧ 9 < ln tp ∧ s.prevRedirectKey = kraftSum ln tp / 64 ∧ TblB N ln T tp s t0 J

/-- the state after `redirStep` of iteration `t` -/
structure Mid (which base N : Nat) (sy ln : Nat → Nat) (old : Array Nat) (t : Nat) (s : Fill) (cl1 key : Nat) : Prop where
  done : Done which base N sy ln (applyWrites old s.writes.reverse) t s
  lvl : (ln t ≤ 9 ∧ cl1 = ln t ∧ key = codeAt ln t ∧ PhaseA N ln t s) ∨
        (9 < ln t ∧ cl1 = ln t - 9 ∧ key = codeAt ln t % 2 ^ (ln t - 9) ∧ s.prevRedirectKey = kraftSum ln t / 64 ∧
          ∃ t0 J, TblB N ln (applyWrites old s.writes.reverse) t s t0 J)

section finish
variable {which base N : Nat} {sy ln : Nat → Nat} {old : Array Nat}

theorem nb_le9 (M : Nat) : nbOf M ≤ 9 := by unfold nbOf; split <;> omega

theorem le_nb {a M : Nat} (h1 : a ≤ M) (h2 : a ≤ 9) : a ≤ nbOf M := by unfold nbOf; split <;> omega

theorem tbl_top_le (hs : Sorted N ln) (hN : N ≤ 288) {T : Array Nat} {tm : Nat} {s : Fill} {t0 J : Nat}
    (htm : tm < N) (h : TblB N ln T tm s t0 J) : s.top + 2 ^ J ≤ 1024 := by
  have h1 := h.bound
  have h2 : ln t0 ≤ 15 := hs.hi t0 (by have := h.t0le; omega)
  have h3 : 2 ^ (ln t0 - 9) ≤ 64 := pow_le_64 (by omega)
  have h4 : 2 ^ J ≤ 64 := pow_le_64 (by have := h.j15; omega)
  have := h.t0le
  omega

/-- the `huffReplicate` of iteration `t` and what it does to the table -/
theorem finish (hs : Sorted N ln) (hN : N ≤ 288) (hold : old.size = 1024) {t : Nat} (ht : t < N) {s : Fill} {cl1 key : Nat}
    (hm : Mid which base N sy ln old t s cl1 key) :
    key < 2 ^ 9 ∧
    ∃ w', huffReplicate s.top (reverse9 key >>> (9 - cl1)) (entryOf which base (sy t) cl1) (1 <<< cl1) 512
        s.initialHighBits s.writes = .ok w' ∧
      Done which base N sy ln (applyWrites old w'.reverse) (t + 1) s ∧
      (PhaseA N ln (t + 1) s ∨ PhaseB N ln (applyWrites old w'.reverse) (t + 1) s) := by
  have hd := hm.done
  have hMt : ln t ≤ ln (N - 1) := ln_mono hs (by omega) (by omega)
  rcases hm.lvl with ⟨h9, hc, hk, hA⟩ | ⟨h9, hc, hk, hprk, t0, J, hB⟩
  · -- first level
    subst hc hk
    have hkey : codeAt ln t < 2 ^ ln t := by have := codeAt_succ_le hs ht; omega
    have hle : ln t ≤ nbOf (ln (N - 1)) := le_nb hMt h9
    have hnb := nb_le9 (ln (N - 1))
    refine ⟨Nat.lt_of_lt_of_le hkey (by have := pow_le_512 h9; omega), ?_⟩
    obtain ⟨w', hrep, hhit, hmiss⟩ := replicate_table old hold 0 (codeAt ln t) (entryOf which base (sy t) (ln t))
      (ln t) (nbOf (ln (N - 1))) 512 s.writes hkey hle hnb (by have := pow_le_512 hnb; omega)
      (pow_le_512 (by omega))
    rw [hA.top, hA.ihb]
    refine ⟨w', hrep, ⟨?_, ?_, ?_⟩, Or.inl ⟨?_, hA.top, hA.ihb, hA.nt, hA.prk⟩⟩
    · rw [applyWrites_size, hold]
    · intro t' ht' hl' x hx
      rcases Nat.lt_or_ge t' t with hlt | hge
      · rw [hmiss]
        · exact hd.direct t' hlt hl' x hx
        · intro i hi hci heq
          have : codeOf x (ln t) = codeAt ln t := by
            rw [← codeOf_mod x (ln t) _ hle, heq, Nat.zero_add, hci]
          exact match_disjoint hs hlt ht x hx this
      · have : t' = t := by omega
        subst this
        have := hhit (x % 2 ^ nbOf (ln (N - 1))) (Nat.mod_lt _ (Nat.two_pow_pos _))
          (by rw [codeOf_mod x _ _ hle]; exact hx)
        rw [Nat.zero_add] at this
        exact this
    · intro t' ht' hl'
      have := ln_mono hs (show t' ≤ t by omega) ht
      omega
    · intro t' ht'
      have := ln_mono hs (show t' ≤ t by omega) ht
      omega
  · -- second level
    subst hc hk
    have hp0 : 0 < 2 ^ (ln t - 9) := Nat.two_pow_pos _
    have hkey : codeAt ln t % 2 ^ (ln t - 9) < 2 ^ (ln t - 9) := Nat.mod_lt _ hp0
    have hl15 := hs.hi t ht
    have hcJ : ln t - 9 ≤ J := by have := hB.lens t ht hprk.symm; omega
    have hJ9 : J ≤ 9 := by have := hB.j15; omega
    have htop := tbl_top_le hs hN ht hB
    have hpk := (codeAt_hi hs ht h9).2
    rw [← hprk] at hpk
    have hr9 := rev9 _ hpk
    refine ⟨Nat.lt_of_lt_of_le hkey (pow_le_512 (by omega)), ?_⟩
    obtain ⟨w', hrep, hhit, hmiss⟩ := replicate_table old hold s.top (codeAt ln t % 2 ^ (ln t - 9))
      (entryOf which base (sy t) (ln t - 9)) (ln t - 9) J 512 s.writes hkey hcJ hJ9 htop (pow_le_512 (by omega))
    rw [hB.ihb]
    have h512 := hB.top512
    have hlow : ∀ k, k < 512 → (applyWrites old w'.reverse).getD k 0 = (applyWrites old s.writes.reverse).getD k 0 := by
      intro k hk
      apply hmiss
      intro i _ _
      omega
    refine ⟨w', hrep, ⟨?_, ?_, ?_⟩, Or.inr ⟨t, t0, J, rfl, h9, hprk, ?_⟩⟩
    · rw [applyWrites_size, hold]
    · intro t' ht' hl' x hx
      have hlt : t' < t := by
        rcases Nat.lt_or_ge t' t with h | h
        · exact h
        · have : t' = t := by omega
          subst this; omega
      rw [hlow]
      · exact hd.direct t' hlt hl' x hx
      · have := Nat.mod_lt x (Nat.two_pow_pos (nbOf (ln (N - 1))))
        have := pow_le_512 (nb_le9 (ln (N - 1)))
        omega
    · intro t' ht' hl' x hx
      have hx9lt : x % 2 ^ 9 < 512 := Nat.mod_lt _ (by omega)
      rcases Nat.lt_or_ge t' t with hlt | hge
      · obtain ⟨top', j', e1, e2, e3, e4, e5, e6, e7, e8, e9, e10⟩ := hd.redirect t' hlt hl' x hx
        refine ⟨top', j', ?_, e2, e3, e4, e5, e6, ?_, e8, e9, e10⟩
        · rw [hlow _ hx9lt]; exact e1
        · rw [hmiss]
          · exact e7
          · intro i hi hci heq
            by_cases hp : kraftSum ln t' / 64 = s.prevRedirectKey
            · obtain ⟨ht1, ht2⟩ := e9 hp
              rw [hB.ihb] at ht2
              rw [ht1, ht2] at heq
              have hi' : i = x / 2 ^ 9 % 2 ^ J := by omega
              have hlo : codeOf (x / 2 ^ 9) (ln t - 9) = codeAt ln t % 2 ^ (ln t - 9) := by
                rw [← codeOf_mod _ _ _ hcJ, ← hi', hci]
              have h9' : codeOf x 9 = kraftSum ln t / 64 := by
                rw [((match_hi hs (by omega) hl' x).1 hx).1, hp, hprk]
              exact match_disjoint hs hlt ht x hx ((match_hi hs ht h9 x).2 ⟨h9', hlo⟩)
            · have := e10 hp
              have := Nat.mod_lt (x / 2 ^ 9) (Nat.two_pow_pos j')
              omega
      · have : t' = t := by omega
        subst this
        obtain ⟨hx9, hxlo⟩ := (match_hi hs ht h9 x).1 hx
        rw [← hprk] at hx9
        have hslot := slot9 _ x hpk hx9
        refine ⟨s.top, J, ?_, hB.j1, by omega, hB.j15, h512, htop, ?_, by rw [hB.nt]; exact Nat.le_refl _,
          fun _ => ⟨rfl, hB.ihb.symm⟩, fun hne => absurd hprk.symm hne⟩
        · rw [hlow _ hx9lt, hslot]; exact hB.entry
        · exact hhit _ (Nat.mod_lt _ (Nat.two_pow_pos _)) (by rw [codeOf_mod _ _ _ hcJ]; exact hxlo)
    · exact { hB with t0le := hB.t0le, entry := by rw [hlow _ hr9.1]; exact hB.entry }

end finish

end WuffsVerif.StdDeflate.F


namespace WuffsVerif.StdDeflate.F
open WuffsVerif.Gen.C07

/-- the four fields of the state the table predicates look at -/
def Same4 (s s' : Fill) : Prop :=
  s'.nextTop = s.nextTop ∧ s'.prevRedirectKey = s.prevRedirectKey ∧ s'.top = s.top ∧
    s'.initialHighBits = s.initialHighBits

section congr
variable {which base N : Nat} {sy ln : Nat → Nat} {old : Array Nat}

theorem Done.congr {T : Array Nat} {t : Nat} {s s' : Fill} (h : Done which base N sy ln T t s) (e : Same4 s s') :
    Done which base N sy ln T t s' := by
  obtain ⟨e1, e2, e3, e4⟩ := e
  refine ⟨h.size, h.direct, ?_⟩
  rw [e1, e2, e3, e4]
  exact h.redirect

theorem PhaseA.congr {t : Nat} {s s' : Fill} (h : PhaseA N ln t s) (e : Same4 s s') : PhaseA N ln t s' := by
  obtain ⟨e1, e2, e3, e4⟩ := e
  exact ⟨h.short, e3.trans h.top, e4.trans h.ihb, e1.trans h.nt, e2.trans h.prk⟩

theorem TblB.congr {T : Array Nat} {tm : Nat} {s s' : Fill} {t0 J : Nat} (h : TblB N ln T tm s t0 J) (e : Same4 s s') :
    TblB N ln T tm s' t0 J := by
  obtain ⟨e1, e2, e3, e4⟩ := e
  refine ⟨h.t0le, h.l0, ?_, ?_, h.j1, h.j15, ?_, ?_, ?_, ?_, ?_, ?_⟩
  · rw [e2]; exact h.k0
  · rw [e4]; exact h.ihb
  · rw [e3]; exact h.top512
  · rw [e1, e3]; exact h.nt
  · rw [e3]; exact h.bound
  · rw [e2]; exact h.lens
  · rw [e2]; exact h.last
  · rw [e2, e3]; exact h.entry

theorem PhaseB.congr {T : Array Nat} {t : Nat} {s s' : Fill} (h : PhaseB N ln T t s) (e : Same4 s s') :
    PhaseB N ln T t s' := by
  obtain ⟨tp, t0, J, h1, h2, h3, h4⟩ := h
  exact ⟨tp, t0, J, h1, h2, e.2.1.trans h3, h4.congr e⟩

end congr

/-- the loop invariant at the head of iteration `t` -/
structure Inv (which base N : Nat) (sy ln : Nat → Nat) (old : Array Nat) (t : Nat) (s : Fill) : Prop where
  i : s.i = t
  lt : t < N
  prevCl : s.prevCl ≤ ln t
  code : (if ln t > s.prevCl then s.code <<< (ln t - s.prevCl) else s.code) = codeAt ln t
  counts : ∀ k, 1 ≤ k → k ≤ 15 → s.counts.getD k 0 + cnt t ln k = cnt N ln k
  csize : s.counts.size = 16
  done : Done which base N sy ln (applyWrites old s.writes.reverse) t s
  phase : PhaseA N ln t s ∨ PhaseB N ln (applyWrites old s.writes.reverse) t s

section redir
variable {which base N : Nat} {sy ln : Nat → Nat} {old : Array Nat}

theorem new_prefix_facts (hs : Sorted N ln) {t : Nat} {s : Fill} (hi : Inv which base N sy ln old t s)
    (h9 : 9 < ln t) (hne : s.prevRedirectKey ≠ kraftSum ln t / 64) :
    512 ≤ s.nextTop ∧ s.nextTop + 2 ≤ 512 + t + 2 ^ (ln t - 9) ∧ kraftSum ln t % 64 = 0 ∧
      (∀ t', t' < t → 9 < ln t' → kraftSum ln t' / 64 ≠ kraftSum ln t / 64) := by
  have ht := hi.lt
  rcases hi.phase with hA | ⟨tp, t0, J, h1, h2, h3, hB⟩
  · refine ⟨by rw [hA.nt]; omega, ?_, ?_, ?_⟩
    · rw [hA.nt]
      have := two_le_pow (show 1 ≤ ln t - 9 by omega)
      omega
    · cases t with
      | zero => simp [kraftSum]
      | succ tp => exact kraft_new_prefix hs ht (Or.inl (hA.short tp (by omega)))
    · intro t' ht' hl'
      have := hA.short t' ht'
      omega
  · subst h1
    rw [h3] at hne
    have hle := pfx_mono ln (show tp ≤ tp + 1 by omega)
    have hlt : kraftSum ln tp / 64 < kraftSum ln (tp + 1) / 64 := by omega
    have h0 : kraftSum ln (tp + 1) % 64 = 0 := kraft_new_prefix hs ht (Or.inr hne)
    have hl0 : ln t0 ≤ 15 := hs.hi t0 (by have := hB.t0le; omega)
    have ht0 := hB.t0le
    -- the table created at `t0` holds at least `2^(ln t0 - 9)` symbols
    have hcount : 2 ^ (ln t0 - 9) ≤ tp + 1 - t0 := by
      have hk := kraftSum_add_le hs t0 (tp + 1 - t0) (by omega)
      rw [show t0 + (tp + 1 - t0) = tp + 1 by omega, hB.k0, h3] at hk
      have h64 : 2 ^ (ln t0 - 9) * 2 ^ (15 - ln t0) = 64 := by
        have := hB.l0
        rw [← Nat.pow_add, show ln t0 - 9 + (15 - ln t0) = 6 by omega]
      have : 2 ^ (ln t0 - 9) * 2 ^ (15 - ln t0) ≤ (tp + 1 - t0) * 2 ^ (15 - ln t0) := by omega
      exact Nat.le_of_mul_le_mul_right this (Nat.two_pow_pos _)
    -- the next table starts with a code at least as long as the deepest code of this one
    have hdeep : 2 ^ J ≤ 2 ^ (ln (tp + 1) - 9) := by
      obtain ⟨tl, htl, hltl, hptl⟩ := hB.last
      have : tl < tp + 1 := by
        apply Classical.byContradiction
        intro hc
        have := pfx_mono ln (show tp + 1 ≤ tl by omega)
        omega
      have := ln_mono hs (Nat.le_of_lt this) ht
      exact Nat.pow_le_pow_right (by omega) (by omega)
    have := hB.bound
    have := hB.top512
    have hp := Nat.two_pow_pos J
    refine ⟨by rw [hB.nt]; omega, by rw [hB.nt]; omega, h0, ?_⟩
    intro t' ht' _
    have := pfx_mono ln (show t' ≤ tp by omega)
    omega

/-- the new second-level table -/
theorem new_table (hs : Sorted N ln) (_hold : old.size = 1024) {t : Nat} {s : Fill}
    (hi : Inv which base N sy ln old t s) (h9 : 9 < ln t) (J0 : Nat) (hJ1 : ln t ≤ J0) (hJ15 : J0 ≤ 15)
    (hnt : 512 ≤ s.nextTop) (hbound : s.nextTop + 2 ≤ 512 + t + 2 ^ (ln t - 9))
    (hk0 : kraftSum ln t % 64 = 0)
    (hnew : ∀ t', t' < t → 9 < ln t' → kraftSum ln t' / 64 ≠ kraftSum ln t / 64)
    (hlens : ∀ t', t' < N → kraftSum ln t' / 64 = kraftSum ln t / 64 → ln t' ≤ J0)
    (hlast : ∃ tl, tl < N ∧ ln tl = J0 ∧ kraftSum ln tl / 64 = kraftSum ln t / 64)
    (s2 : Fill) (e1 : s2.prevRedirectKey = kraftSum ln t / 64) (e2 : s2.initialHighBits = 2 ^ (J0 - 9))
    (e3 : s2.top = s.nextTop) (e4 : s2.nextTop = s.nextTop + 2 ^ (J0 - 9))
    (e5 : s2.writes = (reverse9 (kraftSum ln t / 64), redirEntry s.nextTop (J0 - 9)) :: s.writes) :
    Mid which base N sy ln old t s2 (ln t - 9) (codeAt ln t % 2 ^ (ln t - 9)) := by
  have ht := hi.lt
  have hd := hi.done
  have hpk := (codeAt_hi hs ht h9).2
  have hr9 := rev9 _ hpk
  have hT2 : applyWrites old s2.writes.reverse =
      (applyWrites old s.writes.reverse).setIfInBounds (reverse9 (kraftSum ln t / 64))
        (redirEntry s.nextTop (J0 - 9)) := by
    rw [e5]; exact applyWrites_cons_rev old _ _
  have hsz : (applyWrites old s.writes.reverse).size = 1024 := hd.size
  have hMt : ln t ≤ ln (N - 1) := ln_mono hs (by omega) (by omega)
  have hnb : nbOf (ln (N - 1)) = 9 := by unfold nbOf; rw [if_neg (by omega)]
  have hlo0 : codeAt ln t % 2 ^ (ln t - 9) = 0 := codeAt_lo hs ht h9 hk0
  refine ⟨⟨?_, ?_, ?_⟩, Or.inr ⟨h9, rfl, rfl, e1, t, J0 - 9, ?_⟩⟩
  · rw [hT2, Array.size_setIfInBounds]; exact hsz
  · intro t' ht' hl' x hx
    rw [hT2, getD_set, if_neg]
    · exact hd.direct t' ht' hl' x hx
    · rintro ⟨heq, _⟩
      rw [hnb] at heq
      -- the slot `x % 2^9` would match both `t'` and `t`
      have h1 : codeOf (x % 2 ^ 9) (ln t') = codeAt ln t' := by rw [codeOf_mod x _ _ hl']; exact hx
      have h2 : codeOf (x % 2 ^ 9) (ln t) = codeAt ln t := by
        rw [match_hi hs ht h9]
        constructor
        · rw [← heq]; exact hr9.2
        · rw [Nat.div_eq_of_lt (Nat.mod_lt x (show 2 ^ 9 > 0 by omega)), codeOf_zero, hlo0]
      exact match_disjoint hs ht' ht _ h1 h2
  · intro t' ht' hl' x hx
    obtain ⟨top', j', c1, c2, c3, c4, c5, c6, c7, c8, c9, c10⟩ := hd.redirect t' ht' hl' x hx
    have hpne := hnew t' ht' hl'
    have hx9 := ((match_hi hs (by omega) hl' x).1 hx).1
    refine ⟨top', j', ?_, c2, c3, c4, c5, c6, ?_, ?_, ?_, ?_⟩
    · rw [hT2, getD_set, if_neg]
      · exact c1
      · rintro ⟨heq, _⟩
        apply hpne
        rw [← hx9, ← codeOf_mod x 9 9 (Nat.le_refl _), ← heq, hr9.2]
    · rw [hT2, getD_set, if_neg]
      · exact c7
      · rintro ⟨heq, _⟩
        omega
    · rw [e4]; omega
    · intro h; rw [e1] at h; exact absurd h hpne
    · intro _; rw [e3]; exact c8
  · have hJ : 2 ^ (J0 - 9) ≤ 64 := pow_le_64 (by omega)
    refine ⟨Nat.le_refl _, h9, ?_, e2, by omega, by omega, by rw [e3]; exact hnt, by rw [e4, e3], by rw [e3]; exact hbound,
      ?_, ?_, ?_⟩
    · rw [e1]; omega
    · intro t' ht' hp'
      rw [e1] at hp'
      have := hlens t' ht' hp'
      omega
    · obtain ⟨tl, h1, h2, h3⟩ := hlast
      exact ⟨tl, h1, by omega, by rw [e1]; exact h3⟩
    · rw [e1, e3, hT2, getD_set, if_pos ⟨rfl, by omega⟩]

theorem redir_ok (hs : Sorted N ln) (hN : N ≤ 288) (hold : old.size = 1024) {t : Nat} {s : Fill}
    (hi : Inv which base N sy ln old t s) :
    ∃ cl1 key s2, redirStep s (ln t) (codeAt ln t) = .ok (cl1, key, s2) ∧
      Mid which base N sy ln old t s2 cl1 key ∧ s2.i = s.i ∧ s2.counts = s.counts := by
  have ht := hi.lt
  by_cases h9 : 9 < ln t
  · have hhi := codeAt_hi hs ht h9
    have hrk : (codeAt ln t >>> (ln t - 9)) &&& 511 = kraftSum ln t / 64 := by
      rw [Nat.shiftRight_eq_div_pow, hhi.1]
      exact (Nat.and_two_pow_sub_one_eq_mod _ 9).trans (Nat.mod_eq_of_lt hhi.2)
    have hkey : codeAt ln t &&& ((1 <<< (ln t - 9)) - 1) = codeAt ln t % 2 ^ (ln t - 9) := by
      rw [Nat.one_shiftLeft]; exact Nat.and_two_pow_sub_one_eq_mod _ _
    by_cases hsame : s.prevRedirectKey = kraftSum ln t / 64
    · refine ⟨ln t - 9, codeAt ln t % 2 ^ (ln t - 9), s, ?_, ⟨hi.done, Or.inr ⟨h9, rfl, rfl, hsame, ?_⟩⟩, rfl, rfl⟩
      · simp only [redirStep, gt_iff_lt, h9, if_true, hrk, hkey, hsame, ne_eq, not_true_eq_false, if_false]
      · rcases hi.phase with hA | ⟨tp, t0, J, h1, h2, h3, hB⟩
        · have := hA.prk; omega
        · exact ⟨t0, J, { hB with t0le := by have := hB.t0le; omega }⟩
    · obtain ⟨hf1, hf2, hf3, hf4⟩ := new_prefix_facts hs hi h9 hsame
      obtain ⟨J0, hsb, hJ1, hJ15, hlens, hlast⟩ := secondBits_spec hs s.counts t (kraftSum ln t / 64) ht h9 hi.counts
        (by omega)
      have hJ : 2 ^ (J0 - 9) ≤ 64 := pow_le_64 (by omega)
      have hl : 2 ^ (ln t - 9) ≤ 64 := pow_le_64 (by have := hs.hi t ht; omega)
      have hg1 : ¬ (J0 ≤ 9 ∨ 15 < J0) := by omega
      have hg2 : ¬ (s.nextTop + 2 ^ (J0 - 9) > 1024) := by omega
      refine ⟨ln t - 9, codeAt ln t % 2 ^ (ln t - 9), _, ?_,
        new_table hs hold hi h9 J0 hJ1 hJ15 hf1 hf2 hf3 hf4 hlens hlast
          { s with prevRedirectKey := kraftSum ln t / 64, initialHighBits := 1 <<< (J0 - 9), top := s.nextTop,
                   nextTop := s.nextTop + (1 <<< (J0 - 9)),
                   writes := (reverse9 (kraftSum ln t / 64),
                     0x10000009 ||| (s.nextTop <<< 8) ||| ((J0 - 9) <<< 4)) :: s.writes }
          rfl (Nat.one_shiftLeft _) rfl (by rw [Nat.one_shiftLeft]) rfl, rfl, rfl⟩
      have hsb' : huffSecondBits s.counts 16 (2 ^ (ln t - 9)) (ln t) = .ok J0 := by
        rw [← Nat.one_shiftLeft]; exact hsb
      have hkey' : codeAt ln t &&& (2 ^ (ln t - 9) - 1) = codeAt ln t % 2 ^ (ln t - 9) :=
        Nat.and_two_pow_sub_one_eq_mod _ _
      have hg2' : ¬ (1024 < s.nextTop + 2 ^ (J0 - 9)) := by omega
      simp only [redirStep, gt_iff_lt, h9, if_true, hrk, hkey', ne_eq, hsame, not_false_eq_true, hsb', bind, Except.bind,
        hg1, if_false, Nat.one_shiftLeft, deflateHuffsTableSize, hg2']
  · refine ⟨ln t, codeAt ln t, s, ?_, ⟨hi.done, Or.inl ⟨by omega, rfl, rfl, ?_⟩⟩, rfl, rfl⟩
    · simp only [redirStep, gt_iff_lt, h9, if_false]
    · rcases hi.phase with hA | ⟨tp, t0, J, h1, h2, h3, hB⟩
      · exact hA
      · have := ln_mono hs (show tp ≤ t by omega) ht
        omega

end redir

end WuffsVerif.StdDeflate.F


namespace WuffsVerif.StdDeflate.F
open WuffsVerif.Gen.C07

section loop
variable {which n0 base : Nat} {cl symbols counts old : Array Nat} {N : Nat} {sy ln : Nat → Nat}

theorem tget_lt (T : Array Nat) {i : Nat} (h : i < 1024) : tget T i = T.getD i 0 := by
  rw [tget_eq, Nat.mod_eq_of_lt h]

theorem fillOK_of_done {T : Array Nat} {s : Fill} (h : Done which base N sy ln T N s) :
    FillOK T which base N sy ln := by
  refine ⟨?_, ?_⟩
  · intro t ht hl x hx
    rw [tget_lt]
    · exact h.direct t ht hl x hx
    · have := Nat.mod_lt x (Nat.two_pow_pos (nbOf (ln (N - 1))))
      have := pow_le_512 (nb_le9 (ln (N - 1)))
      omega
  · intro t ht hl x hx
    obtain ⟨top, j, c1, c2, c3, c4, c5, c6, c7, _⟩ := h.redirect t ht hl x hx
    refine ⟨top, j, ?_, c2, c3, c4, c5, c6, ?_⟩
    · rw [tget_lt]
      · exact c1
      · have := Nat.mod_lt x (show 2 ^ 9 > 0 by omega)
        omega
    · rw [tget_lt]
      · exact c7
      · have := Nat.mod_lt (x / 2 ^ 9) (Nat.two_pow_pos j)
        omega

theorem pow_le_32768 {a : Nat} (h : a ≤ 15) : 2 ^ a ≤ 32768 := by
  have := Nat.pow_le_pow_right (show 0 < 2 by omega) h
  omega

theorem fill_loop (ha : FillArgs which n0 base cl symbols counts N sy ln) (hold : old.size = 1024) :
    ∀ f t s, Inv which base N sy ln old t s → N + 1 ≤ f + t →
      ∃ w, huffFill which n0 base N cl symbols f s = .ok w ∧
        FillOK (applyWrites old w.reverse) which base N sy ln := by
  have hs := ha.sorted
  intro f
  induction f with
  | zero => intro t s hi hf; have := hi.lt; omega
  | succ f ih =>
    intro t s hi hf
    have ht := hi.lt
    obtain ⟨hsy, h320, hcl⟩ := ha.syms t ht
    have hl15 := hs.hi t ht
    have hp15 := pow_le_32768 hl15
    have hc1 := codeAt_succ_le hs ht
    obtain ⟨cl1, key, s2, hstep, hmid, hs2i, hs2c⟩ := redir_ok hs ha.n288 hold hi
    obtain ⟨hkey9, w', hrep, hdone, hphase⟩ := finish hs ha.n288 hold ht hmid
    have hcnt1 : 1 ≤ s.counts.getD (ln t) 0 := by
      have h1 := hi.counts (ln t) (hs.lo t ht) hl15
      have h2 := cnt_succ ln t (ln t)
      have h3 := cnt_mono ln (ln t) (show t + 1 ≤ N by omega)
      rw [if_pos rfl] at h2
      omega
    have hg1 : ¬ (n0 + sy t ≥ 320) := by omega
    have hg2 : ¬ (ln t > s.prevCl ∧ codeAt ln t ≥ 1 <<< 15) := by
      rw [Nat.one_shiftLeft]; omega
    have hg3 : ¬ (key ≥ 1 <<< 9 ∨ s2.counts.getD (ln t) 0 ≤ 0) := by
      rw [Nat.one_shiftLeft, hs2c]; omega
    have hval := valueOf_eq which base (sy t) cl1 (ha.vals t ht)
    have hi2 : s2.i = t := hs2i.trans hi.i
    rw [huffFill_eq]
    simp only [hi.i, hsy, hcl, hi.code]
    rw [if_neg hg1, if_neg hg2]
    simp only [hstep]
    rw [if_neg hg3]
    simp only [hi2, hsy, hval, hrep]
    by_cases hlast : t + 1 ≥ N
    · rw [if_pos hlast]
      refine ⟨w', rfl, ?_⟩
      have : t + 1 = N := by omega
      rw [this] at hdone
      exact fillOK_of_done hdone
    · rw [if_neg hlast]
      have ht1 : t + 1 < N := by omega
      have hc2 := codeAt_succ_lt hs ht1
      have hg4 : ¬ (codeAt ln t + 1 ≥ 1 <<< 15) := by rw [Nat.one_shiftLeft]; omega
      rw [if_neg hg4]
      apply ih (t + 1)
      · have hmono := hs.mono t ht1
        refine ⟨rfl, ht1, hmono, ?_, ?_, ?_, hdone.congr ⟨rfl, rfl, rfl, rfl⟩, ?_⟩
        · show (if ln (t + 1) > ln t then (codeAt ln t + 1) <<< (ln (t + 1) - ln t) else codeAt ln t + 1) =
            codeAt ln (t + 1)
          split
          · rfl
          · rw [show codeAt ln (t + 1) = (codeAt ln t + 1) <<< (ln (t + 1) - ln t) from rfl,
              show ln (t + 1) - ln t = 0 by omega, Nat.shiftLeft_zero]
        · intro k hk1 hk15
          show (s2.counts.setIfInBounds (ln t) (s2.counts.getD (ln t) 0 - 1)).getD k 0 + cnt (t + 1) ln k = cnt N ln k
          have h1 := hi.counts k hk1 hk15
          rw [getD_set, cnt_succ, hs2c, hi.csize]
          by_cases hk : ln t = k
          · subst hk
            rw [if_pos ⟨rfl, by omega⟩, if_pos rfl]; omega
          · rw [if_neg (fun h => hk h.1), if_neg hk]; omega
        · show (s2.counts.setIfInBounds (ln t) (s2.counts.getD (ln t) 0 - 1)).size = 16
          rw [Array.size_setIfInBounds, hs2c]; exact hi.csize
        · rcases hphase with hA | hB
          · exact Or.inl (hA.congr ⟨rfl, rfl, rfl, rfl⟩)
          · exact Or.inr (hB.congr ⟨rfl, rfl, rfl, rfl⟩)
      · omega

end loop
end WuffsVerif.StdDeflate.F

namespace WuffsVerif.StdDeflate
open WuffsVerif.Gen.C07

theorem fillSpec_holds : FillSpec := by
  intro which n0 base cl symbols counts old N sy ln ha hold
  have hs := ha.sorted
  apply F.fill_loop ha hold (N + 1) 0 (fill0 ln N counts)
  · refine ⟨rfl, hs.pos, Nat.le_refl _, ?_, ?_, ha.csize, ⟨hold, ?_, ?_⟩, Or.inl ⟨?_, rfl, ?_, rfl, rfl⟩⟩
    · show (if ln 0 > ln 0 then 0 <<< (ln 0 - ln 0) else 0) = codeAt ln 0
      rw [if_neg (by omega)]; rfl
    · intro k hk1 hk15
      show counts.getD k 0 + cnt 0 ln k = cnt N ln k
      rw [ha.counts k hk1 hk15]; simp [cnt]
    · intro t' ht'; omega
    · intro t' ht'; omega
    · intro t' ht'; omega
    · show (if ln (N - 1) < 9 then 1 <<< ln (N - 1) else 1 <<< 9) = 2 ^ nbOf (ln (N - 1))
      unfold nbOf
      by_cases h : ln (N - 1) < 9
      · rw [if_pos h, if_pos (by omega), Nat.one_shiftLeft]
      · by_cases h' : ln (N - 1) = 9
        · rw [if_neg h, if_pos (by omega), Nat.one_shiftLeft, h']
        · rw [if_neg h, if_neg (by omega), Nat.one_shiftLeft]
  · omega

end WuffsVerif.StdDeflate

