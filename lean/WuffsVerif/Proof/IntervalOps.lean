/-
C06 helper lemmas: the operators `mulLsh`, `TryQuo`, `TryRsh` written over the
`twoBlocks` combinator (definitional restatement of the model), and the generic
covering / attainment lemmas for the block cascades.
-/
import WuffsVerif.Proof.IntervalArith

namespace WuffsVerif.Interval

/-- initial value of `ret` in `mulLsh` -/
def mulInit (x : IR) (shift hzx hzy : Bool) : BIP :=
  if hzy && shift then BIP.fromIR x
  else if (hzy && !shift) || hzx then ⟨.fin 0, .fin 0⟩
  else BIP.new

/-- the cascade of the four sign blocks -/
@[reducible] def mulCascade (f : Int → Int → Int) (negX posX negY posY : IR)
    (hnx hpx hny hpy : Bool) (init : BIP) : BIP :=
  twoBlocks hpx hny hpy (mulPN f posX negY) (mulPP f posX posY)
    (twoBlocks hnx hny hpy (mulNN f negX negY) (mulNP f negX posY) init)

theorem mulLsh_eq (x y : IR) (shift : Bool) : mulLsh x y shift =
    if x.empty || y.empty then mkEmpty
    else if x.justZero || (!shift && y.justZero) then ⟨some 0, some 0⟩
    else
      let f : Int → Int → Int := if shift then bigLsh else (· * ·)
      let sx := x.split3
      let sy := y.split3
      (mulCascade f sx.1 sx.2.1 sy.1 sy.2.1 sx.2.2.1 sx.2.2.2.2 sy.2.2.1 sy.2.2.2.2
        (mulInit x shift sx.2.2.2.1 sy.2.2.2.1)).toIR := by
  unfold mulLsh; rfl

@[reducible] def quoCascade (negX posX negY posY : IR)
    (hnx hpx hny hpy : Bool) (init : BIP) : BIP :=
  twoBlocks hpx hny hpy (quoPN posX negY) (quoPP posX posY)
    (twoBlocks hnx hny hpy (quoNN negX negY) (quoNP negX posY) init)

theorem tryQuo_eq (x y : IR) : tryQuo x y =
    if x.empty || y.empty then some mkEmpty
    else if y.containsZero then none
    else if x.justZero then some ⟨some 0, some 0⟩
    else
      let sx := x.split3
      let sy := y.split3
      some (quoCascade sx.1 sx.2.1 sy.1 sy.2.1 sx.2.2.1 sx.2.2.2.2 sy.2.2.1 sy.2.2.2.2
        (if sx.2.2.2.1 then ⟨.fin 0, .fin 0⟩ else BIP.new)).toIR := by
  unfold tryQuo; rfl

theorem tryRsh_eq (x y : IR) : tryRsh x y =
    if x.empty || y.empty then some mkEmpty
    else if y.containsNegative then none
    else if x.justZero then some ⟨some 0, some 0⟩
    else
      let sx := x.split3
      let r0 : BIP := if sx.2.2.2.1 then ⟨.fin 0, .fin 0⟩ else BIP.new
      let r1 := if sx.2.2.1 then rshN sx.1 y r0 else r0
      let r2 := if sx.2.2.2.2 then rshP sx.2.1 y r1 else r1
      some r2.toIR := by
  unfold tryRsh; rfl

section cascade
variable {X Y negX posX negY posY : IR} {hnx hzx hpx hny hzy hpy : Bool}

/-- soundness of the `mulLsh` cascade for any `f` with the monotonicity of `*` on the sign
regions that can occur -/
theorem mulCascade_covers {f : Int → Int → Int}
    (SX : Split3Spec X negX posX hnx hzx hpx) (SY : Split3Spec Y negY posY hny hzy hpy)
    {x y : Int} (hx : X.mem x) (hy : Y.mem y) (init : BIP)
    (h0 : x = 0 ∨ y = 0 → init.covers (f x y))
    (hNN : x < 0 → y < 0 → MonoNN f) (hNP : x < 0 → 0 < y → MonoNP f)
    (hPN : 0 < x → y < 0 → MonoPN f) (hPP : 0 < x → 0 < y → MonoPP f) :
    (mulCascade f negX posX negY posY hnx hpx hny hpy init).covers (f x y) := by
  rcases Int.lt_trichotomy x 0 with hx0 | hx0 | hx0
  · obtain ⟨e1, m1⟩ := SX.neg_of_mem x hx hx0
    obtain ⟨_, h, hh, hneg, _⟩ := SX.neg_shape e1
    rcases Int.lt_trichotomy y 0 with hy0 | hy0 | hy0
    · obtain ⟨e2, m2⟩ := SY.neg_of_mem y hy hy0
      obtain ⟨_, k, hk, kneg, _⟩ := SY.neg_shape e2
      exact twoBlocks_mono (mulPN_mono _ _) (mulPP_mono _ _)
        (twoBlocks_hit1 e1 e2 (mulNN_hit (hNN hx0 hy0) hh hk hneg kneg m1 m2) (mulNP_mono _ _))
    · exact twoBlocks_mono (mulPN_mono _ _) (mulPP_mono _ _)
        (twoBlocks_mono (mulNN_mono _ _) (mulNP_mono _ _) (h0 (Or.inr hy0)))
    · obtain ⟨e2, m2⟩ := SY.pos_of_mem y hy hy0
      obtain ⟨_, l, hl, lpos, _⟩ := SY.pos_shape e2
      exact twoBlocks_mono (mulPN_mono _ _) (mulPP_mono _ _)
        (twoBlocks_hit2 e1 e2 (mulNP_hit (hNP hx0 hy0) hh hl hneg lpos m1 m2))
  · exact twoBlocks_mono (mulPN_mono _ _) (mulPP_mono _ _)
      (twoBlocks_mono (mulNN_mono _ _) (mulNP_mono _ _) (h0 (Or.inl hx0)))
  · obtain ⟨e1, m1⟩ := SX.pos_of_mem x hx hx0
    obtain ⟨_, l, hl, lpos, _⟩ := SX.pos_shape e1
    rcases Int.lt_trichotomy y 0 with hy0 | hy0 | hy0
    · obtain ⟨e2, m2⟩ := SY.neg_of_mem y hy hy0
      obtain ⟨_, k, hk, kneg, _⟩ := SY.neg_shape e2
      exact twoBlocks_hit1 e1 e2 (mulPN_hit (hPN hx0 hy0) hl hk lpos kneg m1 m2) (mulPP_mono _ _)
    · exact twoBlocks_mono (mulPN_mono _ _) (mulPP_mono _ _)
        (twoBlocks_mono (mulNN_mono _ _) (mulNP_mono _ _) (h0 (Or.inr hy0)))
    · obtain ⟨e2, m2⟩ := SY.pos_of_mem y hy hy0
      obtain ⟨_, m, hm, mpos, _⟩ := SY.pos_shape e2
      exact twoBlocks_hit2 e1 e2 (mulPP_hit (hPP hx0 hy0) hl hm lpos mpos m1 m2)

/-- with four finite bounds every bound the cascade can produce is a value `f a b` of members -/
theorem mulCascade_att {f : Int → Int → Int} {S : Int → Prop}
    (SX : Split3Spec X negX posX hnx hzx hpx) (SY : Split3Spec Y negY posY hny hzy hpy)
    (ex : X.empty = false) (ey : Y.empty = false)
    {xl xh yl yh : Int} (hxl : X.lo = some xl) (hxh : X.hi = some xh)
    (hyl : Y.lo = some yl) (hyh : Y.hi = some yh)
    (hS : ∀ a b, X.mem a → Y.mem b → S (f a b)) (init : BIP) (hi : init.att S) :
    (mulCascade f negX posX negY posY hnx hpx hny hpy init).att S := by
  have mxl := lo_mem ex hxl
  have mxh := hi_mem ex hxh
  have myl := lo_mem ey hyl
  have myh := hi_mem ey hyh
  apply twoBlocks_att _ _ (twoBlocks_att _ _ hi)
  · intro e1 e2
    obtain ⟨p1, l, hl, _, ml⟩ := SX.pos_shape e1
    obtain ⟨p2, k, hk, _, mk⟩ := SY.neg_shape e2
    exact mulPN_att hl (p1.trans hxh) (p2.trans hyl) hk (hS _ _ mxh myl) (hS _ _ ml mk)
  · intro e1 e2
    obtain ⟨p1, l, hl, _, ml⟩ := SX.pos_shape e1
    obtain ⟨p2, m, hm, _, mm⟩ := SY.pos_shape e2
    exact mulPP_att hl (p1.trans hxh) hm (p2.trans hyh) (hS _ _ ml mm) (hS _ _ mxh myh)
  · intro e1 e2
    obtain ⟨p1, h, hh, _, mh⟩ := SX.neg_shape e1
    obtain ⟨p2, k, hk, _, mk⟩ := SY.neg_shape e2
    exact mulNN_att (p1.trans hxl) hh (p2.trans hyl) hk (hS _ _ mh mk) (hS _ _ mxl myl)
  · intro e1 e2
    obtain ⟨p1, h, hh, _, mh⟩ := SX.neg_shape e1
    obtain ⟨p2, l, hl, _, ml⟩ := SY.pos_shape e2
    exact mulNP_att (p1.trans hxl) hh hl (p2.trans hyh) (hS _ _ mxl myh) (hS _ _ mh ml)

theorem quoCascade_covers
    (SX : Split3Spec X negX posX hnx hzx hpx) (SY : Split3Spec Y negY posY hny hzy hpy)
    {x y : Int} (hx : X.mem x) (hy : Y.mem y) (hy0 : y ≠ 0) (init : BIP)
    (h0 : x = 0 → init.covers 0) :
    (quoCascade negX posX negY posY hnx hpx hny hpy init).covers (Int.tdiv x y) := by
  rcases Int.lt_trichotomy x 0 with hx0 | hx0 | hx0
  · obtain ⟨e1, m1⟩ := SX.neg_of_mem x hx hx0
    obtain ⟨_, h, hh, hneg, _⟩ := SX.neg_shape e1
    rcases Int.lt_trichotomy y 0 with hy0' | hy0' | hy0'
    · obtain ⟨e2, m2⟩ := SY.neg_of_mem y hy hy0'
      obtain ⟨_, k, hk, kneg, _⟩ := SY.neg_shape e2
      exact twoBlocks_mono (quoPN_mono _ _) (quoPP_mono _ _)
        (twoBlocks_hit1 e1 e2 (quoNN_hit hh hk hneg kneg m1 m2) (quoNP_mono _ _))
    · exact absurd hy0' hy0
    · obtain ⟨e2, m2⟩ := SY.pos_of_mem y hy hy0'
      obtain ⟨_, l, hl, lpos, _⟩ := SY.pos_shape e2
      exact twoBlocks_mono (quoPN_mono _ _) (quoPP_mono _ _)
        (twoBlocks_hit2 e1 e2 (quoNP_hit hh hl hneg lpos m1 m2))
  · subst hx0
    rw [Int.zero_tdiv]
    exact twoBlocks_mono (quoPN_mono _ _) (quoPP_mono _ _)
      (twoBlocks_mono (quoNN_mono _ _) (quoNP_mono _ _) (h0 rfl))
  · obtain ⟨e1, m1⟩ := SX.pos_of_mem x hx hx0
    obtain ⟨_, l, hl, lpos, _⟩ := SX.pos_shape e1
    rcases Int.lt_trichotomy y 0 with hy0' | hy0' | hy0'
    · obtain ⟨e2, m2⟩ := SY.neg_of_mem y hy hy0'
      obtain ⟨_, k, hk, kneg, _⟩ := SY.neg_shape e2
      exact twoBlocks_hit1 e1 e2 (quoPN_hit hl hk lpos kneg m1 m2) (quoPP_mono _ _)
    · exact absurd hy0' hy0
    · obtain ⟨e2, m2⟩ := SY.pos_of_mem y hy hy0'
      obtain ⟨_, m, hm, mpos, _⟩ := SY.pos_shape e2
      exact twoBlocks_hit2 e1 e2 (quoPP_hit hl hm lpos mpos m1 m2)

theorem quoCascade_att {S : Int → Prop}
    (SX : Split3Spec X negX posX hnx hzx hpx) (SY : Split3Spec Y negY posY hny hzy hpy)
    (ex : X.empty = false) (ey : Y.empty = false)
    {xl xh yl yh : Int} (hxl : X.lo = some xl) (hxh : X.hi = some xh)
    (hyl : Y.lo = some yl) (hyh : Y.hi = some yh)
    (hS : ∀ a b, X.mem a → Y.mem b → S (Int.tdiv a b)) (init : BIP) (hi : init.att S) :
    (quoCascade negX posX negY posY hnx hpx hny hpy init).att S := by
  have mxl := lo_mem ex hxl
  have mxh := hi_mem ex hxh
  have myl := lo_mem ey hyl
  have myh := hi_mem ey hyh
  apply twoBlocks_att _ _ (twoBlocks_att _ _ hi)
  · intro e1 e2
    obtain ⟨p1, l, hl, _, ml⟩ := SX.pos_shape e1
    obtain ⟨p2, k, hk, _, mk⟩ := SY.neg_shape e2
    exact quoPN_att hl (p1.trans hxh) (p2.trans hyl) hk (hS _ _ mxh mk) (hS _ _ ml myl)
  · intro e1 e2
    obtain ⟨p1, l, hl, _, ml⟩ := SX.pos_shape e1
    obtain ⟨p2, m, hm, _, mm⟩ := SY.pos_shape e2
    exact quoPP_att hl (p1.trans hxh) hm (p2.trans hyh) (hS _ _ mxh mm) (hS _ _ ml myh)
  · intro e1 e2
    obtain ⟨p1, h, hh, _, mh⟩ := SX.neg_shape e1
    obtain ⟨p2, k, hk, _, mk⟩ := SY.neg_shape e2
    exact quoNN_att (p1.trans hxl) hh (p2.trans hyl) hk (hS _ _ mxl mk) (hS _ _ mh myl)
  · intro e1 e2
    obtain ⟨p1, h, hh, _, mh⟩ := SX.neg_shape e1
    obtain ⟨p2, l, hl, _, ml⟩ := SY.pos_shape e2
    exact quoNP_att (p1.trans hxl) hh hl (p2.trans hyh) (hS _ _ mxl ml) (hS _ _ mh myh)

end cascade

end WuffsVerif.Interval
