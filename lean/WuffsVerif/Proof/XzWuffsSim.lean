/-
C17: the Wuffs std/xz decoder (`Model/XzWuffs.lean`) accepts what `encodeXz` writes.
-/
import WuffsVerif.Model.XzWuffs
import WuffsVerif.Proof.LzmaWuffsSim
import WuffsVerif.Proof.LzmaHeaders

namespace WuffsVerif.WXz
open WuffsVerif.Lzma WuffsVerif.WLzma

/-! ## uvarint -/

theorem byte_bits2 : ∀ n, n < 256 →
    (128 ≤ (n ||| 128) ∧ (n ||| 128) &&& 127 = n % 128 ∧ (n < 128 → n &&& 127 = n)) := by
  decide +kernel

theorem uvLoop_uvList : ∀ (x fuel shift acc : Nat) (rest : List UInt8),
    shift % 7 = 0 → shift < 63 → x < 2 ^ (63 - shift) → (0 < shift → 0 < x) → acc < 2 ^ shift →
    70 ≤ fuel * 7 + shift →
    uvLoop fuel shift acc (uvList x ++ rest) = Uv.ok (acc + x * 2 ^ shift) rest := by
  intro x
  induction x using Nat.strongRecOn with
  | _ x ih =>
    intro fuel shift acc rest h7 hi hx hpos hacc hfuel
    obtain ⟨f, rfl⟩ : ∃ f, fuel = f + 1 := ⟨fuel - 1, by omega⟩
    have hs56 : shift ≤ 56 := by omega
    rw [uvList]
    split
    · rename_i hge
      have hpow : (2 : Nat) ^ (63 - shift) = 2 ^ (63 - shift - 7) * 128 := by
        have h77 : 63 - shift = (63 - shift - 7) + 7 := by
          have : 7 < 63 - shift := by
            apply Classical.byContradiction; intro hn
            have : (2 : Nat) ^ (63 - shift) ≤ 2 ^ 7 := Nat.pow_le_pow_right (by omega) (by omega)
            omega
          omega
        rw [h77, Nat.pow_add]; rfl
      have hb := byte_bits2 (x % 256) (by omega)
      have hbyte : (x.toUInt8 ||| 0x80).toNat = (x % 256) ||| 128 := by
        rw [UInt8.toNat_or, toUInt8_toNat']; rfl
      simp only [List.cons_append, uvLoop, hs56, if_true, hbyte, hb.1, hb.2.1]
      have hmod : x % 256 % 128 = x % 128 := by omega
      rw [hmod]
      have hacc' : acc ||| ((x % 128) <<< shift) = acc + (x % 128) * 2 ^ shift := or_shift _ _ _ hacc
      rw [hacc']
      have hx7 : x >>> 7 = x / 128 := by rw [Nat.shiftRight_eq_div_pow]
      have hi7 : shift + 7 < 63 := by
        apply Classical.byContradiction; intro hn
        have : (2 : Nat) ^ (63 - shift) ≤ 2 ^ 7 := Nat.pow_le_pow_right (by omega) (by omega)
        omega
      have hp7 : (2 : Nat) ^ (shift + 7) = 2 ^ shift * 128 := by rw [Nat.pow_add]
      have hlt : (x % 128) * 2 ^ shift ≤ 127 * 2 ^ shift := Nat.mul_le_mul_right _ (by omega)
      rw [ih (x >>> 7) (by rw [hx7]; omega) f (shift + 7) _ rest (by omega) hi7
        (by rw [hx7]; have : 63 - (shift + 7) = 63 - shift - 7 := by omega
            rw [this]; omega)
        (by intro _; rw [hx7]; omega)
        (by rw [hp7]; omega) (by omega)]
      congr 1
      rw [hx7, hp7]
      have : x / 128 * (2 ^ shift * 128) = (128 * (x / 128)) * 2 ^ shift := by
        rw [Nat.mul_comm (2 ^ shift) 128, ← Nat.mul_assoc, Nat.mul_comm (x / 128) 128]
      rw [this, Nat.add_assoc, ← Nat.add_mul]
      congr 2
      omega
    · rename_i hlt
      have hb := byte_bits2 (x % 256) (by omega)
      have hx256 : x % 256 = x := by omega
      have hbyte : x.toUInt8.toNat = x := by rw [toUInt8_toNat']; omega
      have hnz : ¬ (x.toUInt8 = 0x00 ∧ shift > 0) := by
        intro ⟨h0, hs⟩
        have := congrArg UInt8.toNat h0
        rw [hbyte] at this
        have := hpos hs
        simp at *
        omega
      have hand : x &&& 127 = x := by
        have := hb.2.2 (by omega); rw [hx256] at this; exact this
      simp only [List.cons_append, List.nil_append, uvLoop, hs56, if_true, hbyte, hand, hnz, if_false,
        show ¬ (x ≥ 128) by omega]
      rw [or_shift _ _ _ hacc]

theorem uvarint_uvList (x : Nat) (hx : x < 2 ^ 63) (rest : List UInt8) :
    uvarint (uvList x ++ rest) = Uv.ok x rest := by
  unfold uvarint
  rw [uvLoop_uvList x 11 0 0 rest (by omega) (by omega) (by simpa using hx) (by omega) (by omega) (by omega)]
  simp

/-! ## pieces of the container -/

theorem zeros_ok (k : Nat) (rest : List UInt8) (msg : String) (out : Array UInt8) :
    zeros k (List.replicate k 0 ++ rest) msg out = .ok rest := by
  induction k with
  | zero => simp [zeros]
  | succ k ih => simp [zeros, List.replicate_succ, ih]

theorem checkU32_ok (c : UInt32) (rest : List UInt8) (out : Array UInt8) :
    checkU32 (le32 c ++ rest) c out = .ok rest := by
  simp [checkU32, le32]

theorem blockHdr_crc : ([0x37, 0x27, 0x97, 0xD6] : List UInt8)
    = le32 (crc32 [0x02, 0x00, 0x21, 0x01, 0x00, 0x00, 0x00, 0x00]) := by
  have := xzHeader_block_crc.2.2
  simpa [xzHeader24] using this

/-- the one block `encodeXz` writes: 12-byte header, LZMA2 chunks, end marker, padding, CRC-32 of the data -/
theorem block_ok (src R : List UInt8) (v : Verif) :
    block (0x02 :: 0x00 :: 0x21 :: 0x01 :: 0x00 :: 0x00 :: 0x00 :: 0x00 :: 0x37 :: 0x27 :: 0x97 :: 0xD6 ::
      (chunksBytes src ++ 0x00 :: (padList ((chunksBytes src).length + 13) ++ (le32 (crc32 src) ++ R)))) #[] v
    = .ok (#[] ++ pushList #[] src, R, v.add ((chunksBytes src).length + 17) src.length) := by
  have hl2 := lzma2_accepts src (padList ((chunksBytes src).length + 13) ++ (le32 (crc32 src) ++ R))
  have z : (0 : UInt8).toNat = 0 := rfl
  have two : (2 : UInt8).toNat = 2 := rfl
  have hsp : ∀ T : List UInt8, blockHeaderSansPadding (0x00 :: 0x21 :: 0x01 :: 0x00 :: T) #[] = .ok (none, none, T) := by
    intro T
    simp [blockHeaderSansPadding, z]
  have hz3 : ∀ T : List UInt8, zeros 3 (0 :: 0 :: 0 :: T) "#bad block header" #[] = .ok T := by
    intro T
    exact zeros_ok 3 T _ _
  have hcrc : ∀ T : List UInt8, checkU32 (0x37 :: 0x27 :: 0x97 :: 0xD6 :: T)
      (crc32 [0x02, 0x00, 0x21, 0x01, 0x00, 0x00, 0x00, 0x00]) #[] = .ok T := by
    intro T
    have := checkU32_ok (crc32 [0x02, 0x00, 0x21, 0x01, 0x00, 0x00, 0x00, 0x00]) T #[]
    rw [← blockHdr_crc] at this
    exact this
  have hpad : (4 - ((chunksBytes src).length + 1) % 4) % 4 = (4 - ((chunksBytes src).length + 13) % 4) % 4 := by omega
  unfold block
  simp only [hsp, two, List.length_cons, Nat.reduceMul, Nat.reduceSub, Nat.reduceAdd]
  have h4 : (chunksBytes src ++ 0 :: (padList ((chunksBytes src).length + 13) ++ (le32 (crc32 src) ++ R))).length + 1 + 1 + 1 + 1 + 1 + 1 + 1 + 1 + 1 + 1 + 1 -
      ((chunksBytes src ++ 0 :: (padList ((chunksBytes src).length + 13) ++ (le32 (crc32 src) ++ R))).length + 1 + 1 + 1 + 1 + 1 + 1 + 1) = 4 := by omega
  simp only [h4, show ¬ (4 > 7) by omega, if_false, show 7 - 4 = 3 by rfl, hz3, List.take, hcrc, hl2]
  have hcs : (chunksBytes src ++ 0 :: (padList ((chunksBytes src).length + 13) ++ (le32 (crc32 src) ++ R))).length -
      (padList ((chunksBytes src).length + 13) ++ (le32 (crc32 src) ++ R)).length = (chunksBytes src).length + 1 := by
    simp only [List.length_append, List.length_cons]; omega
  have hsz : (pushList #[] src).size = src.length := by rw [pushList_size]; simp
  have htl : (pushList #[] src).toList = src := by rw [pushList_toList]; simp
  have hzp := zeros_ok ((4 - ((chunksBytes src).length + 13) % 4) % 4) (le32 (crc32 src) ++ R) "#bad padding"
    (#[] ++ pushList #[] src)
  simp only [hcs, hsz, htl, hpad, Option.isSome_none, Bool.false_eq_true, false_and, or_self, if_false]
  unfold padList
  rw [hzp]
  simp only [checkU32_ok]
  have : 12 + ((chunksBytes src).length + 1) + 4 = (chunksBytes src).length + 17 := by omega
  rw [this]

/-- the block loop: one block, then the index indicator -/
theorem blocks_ok (src R' : List UInt8) (fuel : Nat) (hf : 2 ≤ fuel) :
    blocks fuel (0x02 :: 0x00 :: 0x21 :: 0x01 :: 0x00 :: 0x00 :: 0x00 :: 0x00 :: 0x37 :: 0x27 :: 0x97 :: 0xD6 ::
      (chunksBytes src ++ 0x00 :: (padList ((chunksBytes src).length + 13) ++ (le32 (crc32 src) ++ 0x00 :: R')))) #[] {} 0
    = .ok (#[] ++ pushList #[] src, 0x00 :: R', ({} : Verif).add ((chunksBytes src).length + 17) src.length, 1) := by
  obtain ⟨f, rfl⟩ : ∃ f, fuel = f + 2 := ⟨fuel - 2, by omega⟩
  have e20 : ¬ ((0x02 : UInt8) = 0x00) := by decide
  simp only [blocks, e20, if_false, block_ok, if_true]

theorem uvList_length_le : ∀ (k x : Nat), 1 ≤ k → x < 2 ^ (7 * k) → (uvList x).length ≤ k := by
  intro k
  induction k with
  | zero => intro x h; omega
  | succ k ih =>
    intro x _ hx
    rw [uvList]
    split
    · rename_i hge
      have hk : 1 ≤ k := by
        apply Classical.byContradiction; intro hn
        have : k = 0 := by omega
        subst this
        simp at hx; omega
      have hx7 : x >>> 7 < 2 ^ (7 * k) := by
        rw [Nat.shiftRight_eq_div_pow]
        have : (2 : Nat) ^ (7 * (k + 1)) = 2 ^ (7 * k) * 2 ^ 7 := by rw [← Nat.pow_add]; congr 1
        rw [this] at hx
        exact Nat.div_lt_of_lt_mul (by rw [Nat.mul_comm]; exact hx)
      have := ih (x >>> 7) hk hx7
      simp only [List.length_cons]; omega
    · simp

theorem uvList_length_pos (x : Nat) : 1 ≤ (uvList x).length := by
  rw [uvList]; split <;> simp

theorem u32le_bytes (n : Nat) (h : n < 4294967296) :
    u32le n.toUInt8 (n >>> 8).toUInt8 (n >>> 16).toUInt8 (n >>> 24).toUInt8 = n := by
  unfold u32le
  simp only [toUInt8_toNat', Nat.shiftRight_eq_div_pow, Nat.shiftLeft_eq]
  omega

/-! ## the whole file -/

/-- **the Wuffs std/xz decoder (model) accepts every XZ file of `lib/litonlylzma`**, returns the payload and
    leaves what follows the file unread: stream header, block header and its CRC-32, LZMA2 payload, block
    padding, CRC-32 of the data, index (record count, unpadded and uncompressed size matching what the
    decoder measured, minimal uvarints, padding, CRC-32), footer (CRC-32, backward size, flags, magic). -/
theorem xz_accepts (src tail : List UInt8) (h : src.length < 2 ^ 60) :
    WXz.decodeXz ((encodeXz #[] src).toList ++ tail) = Res.ok (pushList #[] src) tail := by
  have hU : xzUnpadded src < 2 ^ 63 := xzUnpadded_lt src h
  rw [encodeXz_toList]
  -- name the pieces, from the back
  generalize hF : le32 (crc32 (xzTail6 src)) ++ (xzTail6 src ++ [0x59, 0x5A]) ++ tail = F
  have hFa : (le32 (crc32 (xzTail6 src)) ++ (xzTail6 src ++ [0x59, 0x5A])) ++ tail = F := by
    exact hF
  have hsplit : (xzHeader24 ++ (chunksBytes src ++ (0x00 :: (padList ((chunksBytes src).length + 13) ++
        (le32 (crc32 src) ++ (xzIdxP src ++ (le32 (crc32 (xzIdxP src)) ++
          (le32 (crc32 (xzTail6 src)) ++ (xzTail6 src ++ [0x59, 0x5A]))))))))) ++ tail
      = xzHeader24 ++ (chunksBytes src ++ (0x00 :: (padList ((chunksBytes src).length + 13) ++
        (le32 (crc32 src) ++ (xzIdxP src ++ (le32 (crc32 (xzIdxP src)) ++ F)))))) := by
    rw [← hFa]; simp only [List.append_assoc, List.cons_append]
  rw [hsplit]
  -- the index, spelled out
  have hI : xzIdxP src = 0x00 :: 0x01 :: (uvList (xzUnpadded src) ++ (uvList src.length ++
      padList (xzIdx src).length)) := by
    unfold xzIdxP xzIdx
    simp only [List.append_assoc, List.cons_append]
  have hIlen : (xzIdx src).length = 2 + (uvList (xzUnpadded src)).length + (uvList src.length).length := by
    unfold xzIdx; simp only [List.length_cons, List.length_append]; omega
  have l1 := uvList_length_pos (xzUnpadded src)
  have l2 := uvList_length_pos src.length
  have l3 := uvList_length_le 9 (xzUnpadded src) (by omega) (by simpa using hU)
  have l4 := uvList_length_le 9 src.length (by omega) (by simp; omega)
  generalize hR5 : le32 (crc32 (xzIdxP src)) ++ F = R5
  have hblocks := blocks_ok src (0x01 :: (uvList (xzUnpadded src) ++ (uvList src.length ++
      (padList (xzIdx src).length ++ R5))))
  rw [hI]
  simp only [List.cons_append, List.append_assoc]
  unfold xzHeader24
  simp only [List.cons_append, List.nil_append, WXz.decodeXz]
  have hm : ¬ (([0xFD, 0x37, 0x7A, 0x58, 0x5A, 0x00] : List UInt8) ≠ [0xFD, 0x37, 0x7A, 0x58, 0x5A, 0x00]) := by decide
  have hf1 : ¬ (([0x00, 0x01, 0x69, 0x22, 0xDE, 0x36] : List UInt8) = [0x00, 0x00, 0xFF, 0x12, 0xD9, 0x41]) := by decide
  have hf2 : ¬ (([0x00, 0x01, 0x69, 0x22, 0xDE, 0x36] : List UInt8) = [0x00, 0x04, 0xE6, 0xD6, 0xB4, 0x46]) := by decide
  have hf3 : ¬ (([0x00, 0x01, 0x69, 0x22, 0xDE, 0x36] : List UInt8) = [0x00, 0x0A, 0xE1, 0xFB, 0x0C, 0xA1]) := by decide
  have hf4 : ¬ (([0x00, 0x01, 0x69, 0x22, 0xDE, 0x36] : List UInt8) ≠ [0x00, 0x01, 0x69, 0x22, 0xDE, 0x36]) := by decide
  simp only [hm, hf1, hf2, hf3, hf4, if_false]
  rw [hblocks _ (by simp only [List.length_cons]; omega)]
  -- the index
  have huv1 : ∀ T : List UInt8, uvarint (0x01 :: T) = Uv.ok 1 T := by
    intro T
    have one : (1 : UInt8).toNat = 1 := rfl
    simp [uvarint, uvLoop, one]
  have hrec : indexRecords 1 (uvList (xzUnpadded src) ++ (uvList src.length ++ (padList (xzIdx src).length ++ R5)))
      {} (#[] ++ pushList #[] src)
      = .ok (padList (xzIdx src).length ++ R5, ({} : Verif).add (xzUnpadded src) src.length) := by
    simp only [indexRecords, uvarint_uvList _ hU, uvarint_uvList _ (show src.length < 2 ^ 63 by omega)]
  have hv : ({} : Verif).add ((chunksBytes src).length + 17) src.length = ({} : Verif).add (xzUnpadded src) src.length := rfl
  simp only [ne_eq, not_true_eq_false, if_false, huv1, hrec, hv]
  -- sizes
  have hbw : (0x00 :: 0x01 :: (uvList (xzUnpadded src) ++ (uvList src.length ++ (padList (xzIdx src).length ++ R5)))).length
      - (padList (xzIdx src).length ++ R5).length = (xzIdx src).length := by
    simp only [List.length_cons, List.length_append]; omega
  rw [hbw]
  have hpadl : (padList (xzIdx src).length).length = (4 - (xzIdx src).length % 4) % 4 := padList_length _
  have hzp := zeros_ok ((4 - (xzIdx src).length % 4) % 4) R5 "#bad index" (#[] ++ pushList #[] src)
  have hpl : padList (xzIdx src).length = List.replicate ((4 - (xzIdx src).length % 4) % 4) 0 := rfl
  rw [hpl, hzp]
  have hbs1 : ¬ (((xzIdx src).length + (4 - (xzIdx src).length % 4) % 4) >>> 2 = 0 ∨
      ((xzIdx src).length + (4 - (xzIdx src).length % 4) % 4) >>> 2 > 0xFFFFFFFF) := by
    rw [Nat.shiftRight_eq_div_pow]; omega
  simp only [hbs1, if_false]
  have htake : List.take (xzIdx src).length (0x00 :: 0x01 :: (uvList (xzUnpadded src) ++ (uvList src.length ++
      (List.replicate ((4 - (xzIdx src).length % 4) % 4) 0 ++ R5)))) ++ List.replicate ((4 - (xzIdx src).length % 4) % 4) 0
      = xzIdxP src := by
    have : (0x00 :: 0x01 :: (uvList (xzUnpadded src) ++ (uvList src.length ++
        (List.replicate ((4 - (xzIdx src).length % 4) % 4) 0 ++ R5))))
        = xzIdx src ++ (List.replicate ((4 - (xzIdx src).length % 4) % 4) 0 ++ R5) := by
      unfold xzIdx; simp only [List.cons_append, List.append_assoc]
    rw [this, List.take_left]
    rfl
  rw [htake, ← hR5, checkU32_ok]
  -- the footer
  have hlenP : (xzIdxP src).length = (xzIdx src).length + (4 - (xzIdx src).length % 4) % 4 := by
    unfold xzIdxP; rw [List.length_append, padList_length]
  have hbsl : (xzIdxP src).length >>> 2 < 4294967296 := by
    rw [hlenP, Nat.shiftRight_eq_div_pow]; omega
  have hu := u32le_bytes ((xzIdxP src).length >>> 2) hbsl
  rw [← hF]
  simp only [xzTail6, le32, List.cons_append, List.nil_append, ← hlenP, hu]
  simp

end WuffsVerif.WXz
