/-
C07 helper, part 7, MODULE C: `init_huff` up to the filling loop ("Calculate counts", the over/under-subscription
check, offsets, min/max code length, the consistency checks) on a complete code.

  countsSpec_holds : CountsSpec
  countSpec_holds  : CountSpec
Core Lean only.
-/
import WuffsVerif.Proof.StdDeflateDynDefs

namespace WuffsVerif.StdDeflate
open WuffsVerif.Flate.Spec (Huff mkHuff kraft symsOfLen countLen)
open WuffsVerif.Gen.C07

/-! ### `countLen` is `List.count` -/

theorem cnt_foldl_count (L : Nat) (l : List Nat) (acc : Nat) :
    l.foldl (fun acc x => if x = L then acc + 1 else acc) acc = acc + l.count L := by
  induction l generalizing acc with
  | nil => simp
  | cons x l ih =>
    simp only [List.foldl_cons, List.count_cons, ih]
    by_cases h : x = L <;> simp [h] <;> omega

theorem cnt_countLen_count (lens : Array Nat) (L : Nat) : countLen lens L = lens.toList.count L := by
  unfold countLen; rw [cnt_foldl_count]; simp

theorem cnt_getD_set (c : Array Nat) (i j v : Nat) (hi : i < c.size) :
    (c.setIfInBounds i v).getD j 0 = if j = i then v else c.getD j 0 := by
  simp only [Array.getD_eq_getD_getElem?, Array.getElem?_setIfInBounds]
  by_cases h : i = j
  · subst h; simp [hi]
  · have h' : ¬ j = i := fun e => h e.symm
    simp [h, h']

theorem cnt_and15 (x : Nat) (h : x ≤ 15) : x &&& 15 = x := by
  have : (15 : Nat) = 2 ^ 4 - 1 := by decide
  rw [this, Nat.and_two_pow_sub_one_eq_mod]; exact Nat.mod_eq_of_lt (by omega)

/-! ### "Calculate counts" -/

/-- one step of `huffCounts` -/
def cntStep (cl : Array Nat) (c : Array Nat) (i : Nat) : M (Array Nat) :=
  let k := cl.getD i 0 &&& 15
  if c.getD k 0 ≥ 320 then .error errInternal else .ok (c.setIfInBounds k (c.getD k 0 + 1))

theorem cnt_huffCounts_eq (cl : Array Nat) (n0 n1 : Nat) :
    huffCounts cl n0 n1 = (List.range' n0 (n1 - n0)).foldlM (cntStep cl) (Array.replicate 16 0) := rfl

theorem cnt_replicate_getD (n k : Nat) : (Array.replicate n 0).getD k 0 = 0 := by
  simp only [Array.getD_eq_getD_getElem?, Array.getElem?_replicate]; split <;> rfl

theorem cnt_counts_loop (cl lens : Array Nat) (n0 n1 : Nat) (hl : LensOf cl lens n0 n1)
    (h15 : ∀ j, lens.getD j 0 ≤ 15) :
    ∀ (r m : Nat) (c : Array Nat), m + r = n1 - n0 → c.size = 16 →
      (∀ k, k ≤ 15 → c.getD k 0 = (lens.toList.take m).count k) →
      ∃ c', (List.range' (n0 + m) r).foldlM (cntStep cl) c = .ok c' ∧
        c'.size = 16 ∧ ∀ k, k ≤ 15 → c'.getD k 0 = (lens.toList.take (m + r)).count k := by
  intro r
  induction r with
  | zero => intro m c _ hs hc; exact ⟨c, by simp [pure, Except.pure], hs, by simpa using hc⟩
  | succ r ih =>
    intro m c hm hs hc
    have hmlt : m < n1 - n0 := by omega
    have hn288 := hl.n288
    obtain ⟨x, hxdef⟩ : ∃ x, x = lens.getD m 0 := ⟨_, rfl⟩
    have hx : cl.getD (n0 + m) 0 = x := by rw [hxdef]; exact hl.eq m hmlt
    have hx15 : x ≤ 15 := by rw [hxdef]; exact h15 m
    have hle : c.getD x 0 ≤ m := by
      rw [hc _ hx15]
      exact Nat.le_trans List.count_le_length (by simp; omega)
    have hget : lens.toList[m]? = some x := by
      have : m < lens.size := by rw [hl.size]; exact hmlt
      rw [hxdef]; simp [Array.getD_eq_getD_getElem?, this]
    obtain ⟨c', hc', hs', hk'⟩ := ih (m + 1) (c.setIfInBounds x (c.getD x 0 + 1))
      (by omega) (by simpa using hs) (by
        intro k hk
        rw [cnt_getD_set _ _ _ _ (by omega), List.take_add_one, hget, List.count_append, hc k hk]
        by_cases e : k = x
        · subst e; simp [hc k hk]
        · have e' : ¬ x = k := fun h => e h.symm
          simp [e, e'])
    refine ⟨c', ?_, hs', ?_⟩
    · rw [List.range'_succ, List.foldlM_cons]
      have hstep : cntStep cl c (n0 + m) = .ok (c.setIfInBounds x (c.getD x 0 + 1)) := by
        unfold cntStep
        simp only [hx, cnt_and15 _ hx15]
        have : ¬ c.getD x 0 ≥ 320 := by omega
        simp only [this, if_false]
      rw [hstep]
      simp only [bind, Except.bind]
      rw [Nat.add_assoc]; exact hc'
    · intro k hk; rw [hk' k hk]; congr 2; omega

theorem countsSpec_holds : CountsSpec := by
  intro cl lens n0 n1 hl h15
  obtain ⟨c', hc', hs', hk'⟩ := cnt_counts_loop cl lens n0 n1 hl h15 (n1 - n0) 0 (Array.replicate 16 0)
    (by omega) (by simp) (by intro k hk; rw [cnt_replicate_getD]; simp)
  refine ⟨c', ?_, hs', ?_⟩
  · rw [cnt_huffCounts_eq]; simpa using hc'
  · intro k hk
    rw [hk' k hk, cnt_countLen_count]
    congr 1
    rw [List.take_of_length_le]; simp [hl.size]

/-! ### `symsOfLen`, `sortedSyms` -/

theorem cnt_zipIdx_filter_length (L : Nat) (l : List Nat) (i : Nat) :
    ((l.zipIdx i).filter (fun p => p.1 = L)).length = l.count L := by
  induction l generalizing i with
  | nil => simp
  | cons x l ih =>
    simp only [List.zipIdx_cons, List.filter_cons, List.count_cons]
    by_cases h : x = L <;> simp [h, ih]

theorem cnt_symsOfLen_length (lens : Array Nat) (L : Nat) : (symsOfLen lens L).length = countLen lens L := by
  unfold symsOfLen; rw [List.length_map, cnt_zipIdx_filter_length, cnt_countLen_count]

theorem cnt_symsOfLen_mem (lens : Array Nat) (L j : Nat) (h : j ∈ symsOfLen lens L) : lens.getD j 0 = L := by
  unfold symsOfLen at h
  simp only [List.mem_map, List.mem_filter] at h
  obtain ⟨⟨x, i⟩, ⟨hm, hx⟩, rfl⟩ := h
  rw [List.mem_zipIdx_iff_getElem?] at hm
  simp only [decide_eq_true_eq] at hx
  simp only [Array.getElem?_toList] at hm
  simp [Array.getD_eq_getD_getElem?, hm, hx]

theorem cnt_symsOfLen_map (lens : Array Nat) (L : Nat) :
    (symsOfLen lens L).map (fun j => lens.getD j 0) = List.replicate (countLen lens L) L := by
  rw [List.eq_replicate_iff]
  refine ⟨by simp [cnt_symsOfLen_length], ?_⟩
  intro b hb
  simp only [List.mem_map] at hb
  obtain ⟨j, hj, rfl⟩ := hb
  exact cnt_symsOfLen_mem lens L j hj

theorem cnt_count_flatMap (lens : Array Nat) (k : Nat) (Ls : List Nat) :
    ((Ls.flatMap (symsOfLen lens)).map (fun j => lens.getD j 0)).count k =
      (Ls.map (fun L => if L = k then countLen lens L else 0)).sum := by
  induction Ls with
  | nil => simp
  | cons L Ls ih =>
    rw [List.flatMap_cons, List.map_append, List.count_append, ih, cnt_symsOfLen_map, List.count_replicate]
    simp

theorem cnt_sum_ite (f : Nat → Nat) (k : Nat) : ∀ n s,
    ((List.range' s n).map (fun L => if L = k then f L else 0)).sum = if s ≤ k ∧ k < s + n then f k else 0 := by
  intro n
  induction n with
  | zero => intro s; simp; omega
  | succ n ih =>
    intro s
    rw [List.range'_succ, List.map_cons, List.sum_cons, ih]
    by_cases h : s = k
    · subst h
      have h1 : ¬ (s + 1 ≤ s ∧ s < s + 1 + n) := by omega
      have h2 : (s ≤ s ∧ s < s + (n + 1)) := by omega
      simp [h1, h2]
    · by_cases h' : s + 1 ≤ k ∧ k < s + 1 + n
      · have h2 : (s ≤ k ∧ k < s + (n + 1)) := by omega
        simp [h, h', h2]
      · have h2 : ¬ (s ≤ k ∧ k < s + (n + 1)) := by omega
        simp [h, h', h2]

theorem cnt_sorted_lens_count (lens : Array Nat) (k : Nat) (h1 : 1 ≤ k) (h15 : k ≤ 15) :
    ((sortedSyms lens).map (fun j => lens.getD j 0)).count k = countLen lens k := by
  unfold sortedSyms
  rw [cnt_count_flatMap, cnt_sum_ite]
  have : (1 ≤ k ∧ k < 1 + Flate.Spec.maxBits) := by simp [Flate.Spec.maxBits]; omega
  simp [this]

theorem cnt_map_lnOf (lens : Array Nat) :
    (sortedSyms lens).map (fun j => lens.getD j 0) = (List.range (nOf lens)).map (lnOf lens) := by
  apply List.ext_getElem
  · simp [nOf]
  · intro i h1 h2
    simp [lnOf, syOf, List.getD_eq_getElem?_getD]
    have : i < (sortedSyms lens).length := by simpa using h1
    simp [this]

/-- the histogram of the sorted lengths is the histogram of `lens` -/
theorem cnt_cnt_eq (lens : Array Nat) (k : Nat) (h1 : 1 ≤ k) (h15 : k ≤ 15) :
    cnt (nOf lens) (lnOf lens) k = countLen lens k := by
  rw [← cnt_sorted_lens_count lens k h1 h15, cnt_map_lnOf]
  unfold cnt
  rw [← List.countP_eq_length_filter, List.count, List.countP_map]
  apply List.countP_congr
  intro t _
  simp

/-! ### `idxOf` -/

theorem cnt_idxOf_one (lens : Array Nat) : idxOf lens 1 = 0 := by simp [idxOf]

theorem cnt_idxOf_succ (lens : Array Nat) (L : Nat) (h : 1 ≤ L) :
    idxOf lens (L + 1) = idxOf lens L + countLen lens L := by
  unfold idxOf
  obtain ⟨m, rfl⟩ : ∃ m, L = m + 1 := ⟨L - 1, by omega⟩
  simp only [Nat.add_sub_cancel]
  rw [List.range'_concat, List.map_append, List.sum_append]
  simp [Nat.add_comm]

theorem cnt_idxOf_mono (lens : Array Nat) (a d : Nat) (h : 1 ≤ a) : idxOf lens a ≤ idxOf lens (a + d) := by
  induction d with
  | zero => exact Nat.le_refl _
  | succ d ih => rw [← Nat.add_assoc, cnt_idxOf_succ _ _ (by omega)]; omega

theorem cnt_idxOf_le (lens : Array Nat) (a b : Nat) (h : 1 ≤ a) (hab : a ≤ b) : idxOf lens a ≤ idxOf lens b := by
  have := cnt_idxOf_mono lens a (b - a) h
  rwa [show a + (b - a) = b by omega] at this

theorem cnt_nOf_idx (lens : Array Nat) : nOf lens = idxOf lens 16 := by
  unfold nOf sortedSyms idxOf
  rw [List.length_flatMap]
  simp only [cnt_symsOfLen_length, Flate.Spec.maxBits]

/-- classes above `M` empty: the start indices above `M` coincide -/
theorem cnt_idxOf_const (lens : Array Nat) (M : Nat) (hM : 1 ≤ M)
    (h0 : ∀ L, M < L → L ≤ 15 → countLen lens L = 0) :
    ∀ d, M + 1 + d ≤ 16 → idxOf lens (M + 1 + d) = idxOf lens (M + 1) := by
  intro d
  induction d with
  | zero => intro _; rfl
  | succ d ih =>
    intro h
    rw [← Nat.add_assoc, cnt_idxOf_succ _ _ (by omega), h0 _ (by omega) (by omega), ih (by omega)]
    rfl

/-! ### `cnt` and the Kraft sum -/

theorem cnt_cnt_succ (N : Nat) (ln : Nat → Nat) (k : Nat) :
    cnt (N + 1) ln k = cnt N ln k + if ln N = k then 1 else 0 := by
  unfold cnt
  rw [List.range_succ, List.filter_append, List.length_append]
  by_cases h : ln N = k <;> simp [h]

theorem cnt_cnt_zero (N : Nat) (ln : Nat → Nat) (k : Nat) (h : ∀ t, t < N → ln t ≠ k) : cnt N ln k = 0 := by
  unfold cnt
  rw [List.length_eq_zero_iff, List.filter_eq_nil_iff]
  intro t ht
  simp only [List.mem_range] at ht
  simpa using h t ht

theorem cnt_cnt_pos (N : Nat) (ln : Nat → Nat) (k t : Nat) (ht : t < N) (hk : ln t = k) : 0 < cnt N ln k := by
  unfold cnt
  apply List.length_pos_of_mem (a := t)
  simp [List.mem_filter, ht, hk]

/-- `Σ_{k=1..m} c k · 2^(m-k)` -/
def cntPsum (c : Nat → Nat) : Nat → Nat
  | 0 => 0
  | m + 1 => 2 * cntPsum c m + c (m + 1)

theorem cntPsum_add (c d : Nat → Nat) (m : Nat) :
    cntPsum (fun k => c k + d k) m = cntPsum c m + cntPsum d m := by
  induction m with
  | zero => rfl
  | succ m ih => simp only [cntPsum, ih]; omega

theorem cntPsum_congr (c d : Nat → Nat) (m : Nat) (h : ∀ k, 1 ≤ k → k ≤ m → c k = d k) :
    cntPsum c m = cntPsum d m := by
  induction m with
  | zero => rfl
  | succ m ih =>
    simp only [cntPsum]
    rw [ih (fun k h1 h2 => h k h1 (by omega)), h (m + 1) (by omega) (by omega)]

theorem cntPsum_ind (L : Nat) (m : Nat) :
    cntPsum (fun k => if L = k then 1 else 0) m = if 1 ≤ L ∧ L ≤ m then 2 ^ (m - L) else 0 := by
  induction m with
  | zero => simp [cntPsum]; omega
  | succ m ih =>
    simp only [cntPsum, ih]
    by_cases h1 : 1 ≤ L ∧ L ≤ m
    · have h2 : 1 ≤ L ∧ L ≤ m + 1 := by omega
      have h3 : ¬ L = m + 1 := by omega
      have h4 : m + 1 - L = (m - L) + 1 := by omega
      rw [if_pos h1, if_neg h3, if_pos h2, h4, Nat.pow_succ]; omega
    · by_cases h3 : L = m + 1
      · have h2 : 1 ≤ L ∧ L ≤ m + 1 := by omega
        rw [if_neg h1, if_pos h3, if_pos h2, h3]; simp
      · have h2 : ¬ (1 ≤ L ∧ L ≤ m + 1) := by omega
        rw [if_neg h1, if_neg h3, if_neg h2]

theorem cntPsum_mono (c : Nat → Nat) (m j : Nat) : cntPsum c m * 2 ^ j ≤ cntPsum c (m + j) := by
  induction j with
  | zero => simp
  | succ j ih =>
    rw [← Nat.add_assoc]; simp only [cntPsum, Nat.pow_succ]
    rw [← Nat.mul_assoc]; omega

theorem cnt_kraftSum (ln : Nat → Nat) : ∀ N, (∀ t, t < N → 1 ≤ ln t ∧ ln t ≤ 15) →
    kraftSum ln N = cntPsum (cnt N ln) 15 := by
  intro N
  induction N with
  | zero =>
    intro _
    have : cnt 0 ln = fun _ => 0 := by funext k; simp [cnt]
    rw [this]; rfl
  | succ N ih =>
    intro h
    have : cnt (N + 1) ln = fun k => cnt N ln k + (if ln N = k then 1 else 0) := by
      funext k; exact cnt_cnt_succ N ln k
    rw [this, cntPsum_add, cntPsum_ind, kraftSum, ih (fun t ht => h t (by omega))]
    have := h N (by omega)
    simp [this]

/-- in a sorted code the last length is the largest -/
theorem cnt_sorted_le (N : Nat) (ln : Nat → Nat) (mono : ∀ t, t + 1 < N → ln t ≤ ln (t + 1)) :
    ∀ d t, t + d + 1 = N → ln t ≤ ln (N - 1) := by
  intro d
  induction d with
  | zero => intro t h; rw [show N - 1 = t by omega]; exact Nat.le_refl _
  | succ d ih =>
    intro t h
    exact Nat.le_trans (mono t (by omega)) (ih (t + 1) (by omega))

/-! ### the `remaining` loop -/

/-- one step of `huffRemaining` -/
def cntRemStep (counts : Array Nat) (remaining i : Nat) : M Nat :=
  if remaining > 1 <<< 30 then .error errInternal
  else
    let remaining := remaining <<< 1
    if remaining < counts.getD i 0 then .error "#bad Huffman code (over-subscribed)"
    else .ok (remaining - counts.getD i 0)

theorem cnt_huffRemaining_eq (counts : Array Nat) :
    huffRemaining counts = (List.range' 1 15).foldlM (cntRemStep counts) 1 := rfl

theorem cnt_remaining_loop (counts : Array Nat)
    (hK : cntPsum (fun k => counts.getD k 0) 15 = 2 ^ 15) :
    ∀ (r m rem : Nat), m + r = 15 → rem + cntPsum (fun k => counts.getD k 0) m = 2 ^ m →
      (List.range' (m + 1) r).foldlM (cntRemStep counts) rem = .ok 0 := by
  intro r
  induction r with
  | zero =>
    intro m rem hm hinv
    have : m = 15 := by omega
    subst this
    have : rem = 0 := by omega
    subst this
    rfl
  | succ r ih =>
    intro m rem hm hinv
    have hmono := cntPsum_mono (fun k => counts.getD k 0) (m + 1) (15 - (m + 1))
    rw [show m + 1 + (15 - (m + 1)) = 15 by omega, hK] at hmono
    have hpow : (2 : Nat) ^ 15 = 2 ^ (m + 1) * 2 ^ (15 - (m + 1)) := by
      rw [← Nat.pow_add]; congr 1; omega
    rw [hpow] at hmono
    have hle : cntPsum (fun k => counts.getD k 0) (m + 1) ≤ 2 ^ (m + 1) :=
      Nat.le_of_mul_le_mul_right hmono (Nat.pow_pos (by decide))
    have hle2 : (2 : Nat) ^ m ≤ 2 ^ 15 := Nat.pow_le_pow_right (by decide) (by omega)
    simp only [cntPsum] at hle
    rw [Nat.pow_succ] at hle
    have h30 : (1 : Nat) <<< 30 = 1073741824 := by decide
    have h15 : (2 : Nat) ^ 15 = 32768 := by decide
    have hstep : cntRemStep counts rem (m + 1) = .ok (2 * rem - counts.getD (m + 1) 0) := by
      unfold cntRemStep
      have g1 : ¬ rem > 1 <<< 30 := by rw [h30]; omega
      have g2 : ¬ rem <<< 1 < counts.getD (m + 1) 0 := by rw [Nat.shiftLeft_eq]; omega
      simp only [g1, g2, if_false]
      rw [Nat.shiftLeft_eq]; congr 2; omega
    rw [List.range'_succ, List.foldlM_cons, hstep]
    simp only [bind, Except.bind]
    apply ih (m + 1) _ (by omega)
    simp only [cntPsum]
    rw [Nat.pow_succ]; omega

theorem cnt_huffRemaining (counts : Array Nat) (hK : cntPsum (fun k => counts.getD k 0) 15 = 2 ^ 15) :
    huffRemaining counts = .ok 0 := by
  rw [cnt_huffRemaining_eq]
  exact cnt_remaining_loop counts hK 15 0 1 (by omega) (by simp [cntPsum])

/-! ### the `offsets` loop -/

/-- one step of `huffOffsets` -/
def cntOffStep (counts : Array Nat) (on : Array Nat × Nat) (i : Nat) : M (Array Nat × Nat) :=
  let count := counts.getD i 0
  if on.2 > 320 - count then .error errInternal
  else .ok (on.1.setIfInBounds i on.2, on.2 + count)

theorem cnt_huffOffsets_eq (counts : Array Nat) :
    huffOffsets counts = (List.range' 1 15).foldlM (cntOffStep counts) (Array.replicate 16 0, 0) := rfl

theorem cnt_offsets_loop (counts lens : Array Nat)
    (hc : ∀ k, 1 ≤ k → k ≤ 15 → counts.getD k 0 = countLen lens k) (h288 : idxOf lens 16 ≤ 288) :
    ∀ (r m : Nat) (off : Array Nat), m + r = 15 → off.size = 16 →
      (∀ L, 1 ≤ L → L ≤ m → off.getD L 0 = idxOf lens L) →
      ∃ off', (List.range' (m + 1) r).foldlM (cntOffStep counts) (off, idxOf lens (m + 1)) =
          .ok (off', idxOf lens 16) ∧ off'.size = 16 ∧
        ∀ L, 1 ≤ L → L ≤ 15 → off'.getD L 0 = idxOf lens L := by
  intro r
  induction r with
  | zero =>
    intro m off hm hs ho
    have : m = 15 := by omega
    subst this
    exact ⟨off, rfl, hs, ho⟩
  | succ r ih =>
    intro m off hm hs ho
    have hsucc := cnt_idxOf_succ lens (m + 1) (by omega)
    have hle := cnt_idxOf_le lens (m + 1 + 1) 16 (by omega) (by omega)
    have hcm := hc (m + 1) (by omega) (by omega)
    have hstep : cntOffStep counts (off, idxOf lens (m + 1)) (m + 1) =
        .ok (off.setIfInBounds (m + 1) (idxOf lens (m + 1)), idxOf lens (m + 1 + 1)) := by
      unfold cntOffStep
      have g1 : ¬ idxOf lens (m + 1) > 320 - counts.getD (m + 1) 0 := by omega
      simp only [g1, if_false]
      rw [hsucc, hcm]
    obtain ⟨off', h1, h2, h3⟩ := ih (m + 1) (off.setIfInBounds (m + 1) (idxOf lens (m + 1))) (by omega)
      (by simpa using hs) (by
        intro L hL1 hL2
        rw [cnt_getD_set _ _ _ _ (by omega)]
        by_cases e : L = m + 1
        · simp [e]
        · simp only [e, if_false]; exact ho L hL1 (by omega))
    refine ⟨off', ?_, h2, h3⟩
    rw [List.range'_succ, List.foldlM_cons, hstep]
    simp only [bind, Except.bind]
    exact h1

theorem cnt_huffOffsets (counts lens : Array Nat)
    (hc : ∀ k, 1 ≤ k → k ≤ 15 → counts.getD k 0 = countLen lens k) (h288 : idxOf lens 16 ≤ 288) :
    ∃ off, huffOffsets counts = .ok (off, idxOf lens 16) ∧ off.size = 16 ∧
      ∀ L, 1 ≤ L → L ≤ 15 → off.getD L 0 = idxOf lens L := by
  rw [cnt_huffOffsets_eq]
  have := cnt_offsets_loop counts lens hc h288 15 0 (Array.replicate 16 0) (by omega) (by simp)
    (by intro L h1 h2; omega)
  rwa [cnt_idxOf_one] at this

/-! ### `min_cl`, `max_cl` -/

theorem cnt_minCl (counts : Array Nat) : ∀ f m, (∃ k, m ≤ k ∧ k ≤ 9 ∧ counts.getD k 0 ≠ 0) → 9 - m < f →
    ∃ r, huffMinCl counts f m = .ok r := by
  intro f
  induction f with
  | zero => intro m _ h; omega
  | succ f ih =>
    intro m ⟨k, hk1, hk2, hk3⟩ hf
    unfold huffMinCl
    by_cases h0 : counts.getD m 0 ≠ 0
    · exact ⟨m, by rw [if_pos h0]⟩
    · have hne : k ≠ m := by intro e; subst e; exact h0 hk3
      have h9 : ¬ m ≥ 9 := by omega
      rw [if_neg h0, if_neg h9]
      exact ih (m + 1) ⟨k, by omega, hk2, hk3⟩ (by omega)

theorem cnt_maxCl (counts : Array Nat) (M : Nat) (hM1 : 1 ≤ M) (hMne : counts.getD M 0 ≠ 0) :
    ∀ f m, M ≤ m → m - M < f → (∀ L, M < L → L ≤ m → counts.getD L 0 = 0) →
      huffMaxCl counts f m = .ok M := by
  intro f
  induction f with
  | zero => intro m _ h; omega
  | succ f ih =>
    intro m hm hf h0
    unfold huffMaxCl
    by_cases e : m = M
    · subst e; rw [if_pos hMne]
    · have hz : ¬ counts.getD m 0 ≠ 0 := by simp [h0 m (by omega) (Nat.le_refl _)]
      have h1 : ¬ m ≤ 1 := by omega
      rw [if_neg hz, if_neg h1]
      exact ih (m - 1) (by omega) (by omega) (fun L hL1 hL2 => h0 L hL1 (by omega))

/-! ### assembling -/

theorem cntPsum_15 (c : Nat → Nat) : cntPsum c 15 = 16384 * c 1 + 8192 * c 2 + 4096 * c 3 + 2048 * c 4 +
    1024 * c 5 + 512 * c 6 + 256 * c 7 + 128 * c 8 + 64 * c 9 + 32 * c 10 + 16 * c 11 + 8 * c 12 + 4 * c 13 +
    2 * c 14 + c 15 := by
  simp only [cntPsum, Nat.reduceAdd]; omega

theorem cnt_idxOf_16 (lens : Array Nat) : idxOf lens 16 = countLen lens 1 + countLen lens 2 + countLen lens 3 +
    countLen lens 4 + countLen lens 5 + countLen lens 6 + countLen lens 7 + countLen lens 8 + countLen lens 9 +
    countLen lens 10 + countLen lens 11 + countLen lens 12 + countLen lens 13 + countLen lens 14 +
    countLen lens 15 := by
  simp [idxOf, List.range']; omega

/-- a complete code of at most 288 symbols has a code of at most 9 bits -/
theorem cnt_short_code (counts lens : Array Nat)
    (hc : ∀ k, 1 ≤ k → k ≤ 15 → counts.getD k 0 = countLen lens k) (h288 : idxOf lens 16 ≤ 288)
    (hK : cntPsum (fun k => counts.getD k 0) 15 = 2 ^ 15) :
    ∃ k, 1 ≤ k ∧ k ≤ 9 ∧ counts.getD k 0 ≠ 0 := by
  apply Classical.byContradiction
  intro hno
  have hz : ∀ k, 1 ≤ k → k ≤ 9 → counts.getD k 0 = 0 := by
    intro k h1 h9
    apply Classical.byContradiction
    intro hne
    exact hno ⟨k, h1, h9, hne⟩
  rw [cntPsum_15] at hK
  rw [cnt_idxOf_16] at h288
  have h215 : (2 : Nat) ^ 15 = 32768 := by decide
  have e1 := hz 1 (by omega) (by omega)
  have e2 := hz 2 (by omega) (by omega)
  have e3 := hz 3 (by omega) (by omega)
  have e4 := hz 4 (by omega) (by omega)
  have e5 := hz 5 (by omega) (by omega)
  have e6 := hz 6 (by omega) (by omega)
  have e7 := hz 7 (by omega) (by omega)
  have e8 := hz 8 (by omega) (by omega)
  have e9 := hz 9 (by omega) (by omega)
  have e10 := hc 10 (by omega) (by omega)
  have e11 := hc 11 (by omega) (by omega)
  have e12 := hc 12 (by omega) (by omega)
  have e13 := hc 13 (by omega) (by omega)
  have e14 := hc 14 (by omega) (by omega)
  have e15 := hc 15 (by omega) (by omega)
  omega

theorem cnt_count_lt (l : List Nat) (a x : Nat) (hx : x ∈ l) (hne : x ≠ a) : l.count a < l.length := by
  have h1 : l.count a ≤ l.length := List.count_le_length
  have h2 : l.count a ≠ l.length := by
    intro e
    rw [List.count_eq_length] at e
    exact hne (e x hx).symm
  omega

theorem countSpec_holds : CountSpec := by
  intro hS hY cl lens which n0 n1 base h hl hmk hpos hkraft hvals
  obtain ⟨hCF, hsy, h15, hN⟩ := hS lens h hmk hpos hkraft
  obtain ⟨counts, hcounts, hcs, hck⟩ := countsSpec_holds cl lens n0 n1 hl h15
  have hsorted := hCF.sorted
  have hNpos := hsorted.pos
  have hsize := hl.size
  have hn288 := hl.n288
  have hn320 := hl.n320
  have hn01 := hl.le
  have hcnt : ∀ k, 1 ≤ k → k ≤ 15 → counts.getD k 0 = cnt (nOf lens) (lnOf lens) k := fun k h1 h2 => by
    rw [hck k h2, cnt_cnt_eq lens k h1 h2]
  have hN288 : nOf lens ≤ 288 := by omega
  have hidx288 : idxOf lens 16 ≤ 288 := by rw [← cnt_nOf_idx]; exact hN288
  have hK : cntPsum (fun k => counts.getD k 0) 15 = 2 ^ 15 := by
    rw [cntPsum_congr _ (cnt (nOf lens) (lnOf lens)) 15 (fun k h1 h2 => hcnt k h1 h2),
      ← cnt_kraftSum _ _ (fun t ht => ⟨hsorted.lo t ht, hsorted.hi t ht⟩)]
    exact hsorted.complete
  have hrem := cnt_huffRemaining counts hK
  obtain ⟨off, hoff, hoffs, hoffv⟩ := cnt_huffOffsets counts lens (fun k h1 h2 => hck k h2) hidx288
  rw [← cnt_nOf_idx] at hoff
  obtain ⟨symbols, off', hsym, hsymv, hoffv'⟩ := hY cl lens off n0 n1 hl h15 hoffs hoffv
  -- the sorted code in `symbols` / `cl`
  have hsyms : ∀ t, t < nOf lens → symbols.getD t 0 = syOf lens t ∧ n0 + syOf lens t < 320 ∧
      cl.getD (n0 + syOf lens t) 0 &&& 15 = lnOf lens t := by
    intro t ht
    have := hsy t ht
    refine ⟨hsymv t ht, by omega, ?_⟩
    rw [hl.eq _ (by omega), cnt_and15 _ (h15 _)]; rfl
  -- the maximum code length
  obtain ⟨M, hM⟩ : ∃ M, M = lnOf lens (nOf lens - 1) := ⟨_, rfl⟩
  have hM1 : 1 ≤ M := by rw [hM]; exact hsorted.lo _ (by omega)
  have hM15 : M ≤ 15 := by rw [hM]; exact hsorted.hi _ (by omega)
  have hMne : counts.getD M 0 ≠ 0 := by
    rw [hcnt M hM1 hM15]
    exact Nat.pos_iff_ne_zero.mp (cnt_cnt_pos _ _ _ (nOf lens - 1) (by omega) hM.symm)
  have hMz : ∀ L, M < L → L ≤ 15 → counts.getD L 0 = 0 := by
    intro L h1 h2
    rw [hcnt L (by omega) h2]
    apply cnt_cnt_zero
    intro t ht
    have := cnt_sorted_le (nOf lens) (lnOf lens) hsorted.mono (nOf lens - 1 - t) t (by omega)
    omega
  have hmax := cnt_maxCl counts M hM1 hMne 16 15 hM15 (by omega) hMz
  obtain ⟨mn, hmin⟩ := cnt_minCl counts 16 1
    (cnt_short_code counts lens (fun k h1 h2 => hck k h2) hidx288 hK) (by omega)
  -- the consistency checks
  have hMz' : ∀ L, M < L → L ≤ 15 → countLen lens L = 0 := fun L h1 h2 => by rw [← hck L h2]; exact hMz L h1 h2
  have hoM : off'.getD M 0 = nOf lens := by
    rw [hoffv' M hM1 hM15, ← cnt_idxOf_succ _ _ hM1, cnt_nOf_idx]
    have := cnt_idxOf_const lens M hM1 hMz' (15 - M) (by omega)
    rw [← this]; congr 1; omega
  have ho15 : off'.getD 15 0 = nOf lens := by
    rw [hoffv' 15 (by omega) (by omega), ← cnt_idxOf_succ _ _ (by omega), cnt_nOf_idx]
  -- the coverage check
  have hne : ¬ counts.getD 0 0 + n0 = n1 := by
    have h0 := hsy 0 hNpos
    have hlo := hsorted.lo 0 hNpos
    have hmem : lens.getD (syOf lens 0) 0 ∈ lens.toList := by
      simp only [Array.getD_eq_getD_getElem?, Array.mem_toList_iff]
      rw [Array.getElem?_eq_getElem h0]; simp
    have := cnt_count_lt lens.toList 0 _ hmem (by show lnOf lens 0 ≠ 0; omega)
    rw [hck 0 (by omega), cnt_countLen_count]
    simp only [Array.length_toList] at this
    omega
  have h0 := hsyms 0 hNpos
  have hsym0 : ¬ n0 + symbols.getD 0 0 ≥ 320 := by rw [h0.1]; omega
  refine ⟨counts, symbols, ⟨hsorted, hN288, hsyms, hcs, hcnt, hvals⟩, ?_⟩
  intro w hw
  have hchk : ¬ (nOf lens ≠ off'.getD M 0 ∨ nOf lens ≠ off'.getD 15 0) := by rw [hoM, ho15]; simp
  have h288 : ¬ nOf lens > 288 := by omega
  unfold fill0 at hw
  rw [← hM] at hw ⊢
  unfold initHuffWrites
  simp only [bind, Except.bind, hcounts]
  unfold initHuffCounted
  rw [if_neg hne]
  simp only [bind, Except.bind, hrem, hoff, h288, if_false, hsym]
  unfold initHuffFill
  simp only [bind, Except.bind, hmin, hmax, hchk, if_false, h0.1, h0.2.2, hw]
  have g0 : ¬ (0 : Nat) ≠ 0 := by simp
  have g1 : ¬ n0 + syOf lens 0 ≥ 320 := by omega
  rw [if_neg g0, if_neg g1]
  rfl

end WuffsVerif.StdDeflate
