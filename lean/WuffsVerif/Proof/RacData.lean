/-
C13: the data part of a ChunkWriter session: what `write`/`padToPageSize`/`writePadding` append to the
underlying files, and the invariant `DataInv` (every accepted chunk sits in the data stream at its recorded offset).
-/
import WuffsVerif.Proof.RacPlaced
namespace WuffsVerif.Rac
open Spec

/-! ### the underlying writer / temp file -/

theorem IOSt.tick_bytes (io : IOSt) : io.tick.1.wBytes = io.wBytes ∧ io.tick.1.tBytes = io.tBytes := by
  unfold IOSt.tick; simp only; split <;> simp [IOSt.wBytes, IOSt.tBytes]

theorem IOSt.write_bytes (io : IOSt) (toTemp : Bool) (data : Bytes) (h : (io.write toTemp data).2 = true) :
    (io.write toTemp data).1.wBytes = (if toTemp then io.wBytes else io.wBytes ++ data) ∧
    (io.write toTemp data).1.tBytes = (if toTemp then io.tBytes ++ data else io.tBytes) := by
  unfold IOSt.write IOSt.tick at h ⊢
  simp only at h ⊢
  split at h
  · simp at h
  · rename_i hne
    cases toTemp <;>
      simp [hne, IOSt.wBytes, IOSt.tBytes, List.reverse_cons, List.flatten_append]

/-- the data stream of a ChunkWriter: the TempFile if there is one, else the Writer -/
def CW.stream (w : CW) : Bytes := if w.tempKind != 0 then w.io.tBytes else w.io.wBytes
/-- the other one -/
def CW.side (w : CW) : Bytes := if w.tempKind != 0 then w.io.wBytes else w.io.tBytes

/-- `w'` differs from `w` at most in `io`, `dataSize`, `err` -/
def CW.SameBut (w w' : CW) : Prop := w' = { w with io := w'.io, dataSize := w'.dataSize, err := w'.err }

theorem CW.SameBut.refl (w : CW) : w.SameBut w := rfl
theorem CW.SameBut.trans {a b c : CW} (h1 : a.SameBut b) (h2 : b.SameBut c) : a.SameBut c := by
  unfold CW.SameBut at *
  rw [h2, h1]

/-- `padLoop`: on success exactly `remaining` zero bytes were appended to the chosen file -/
theorem CW.padLoop_spec (toTemp : Bool) (padLen : Nat) (hp : padLen ≥ 1) (fuel : Nat) :
    ∀ (remaining : Nat) (w : CW), remaining ≤ fuel → (CW.padLoop toTemp padLen fuel remaining w).2 = none →
      w.SameBut (CW.padLoop toTemp padLen fuel remaining w).1 ∧
      (CW.padLoop toTemp padLen fuel remaining w).1.err = w.err ∧
      (CW.padLoop toTemp padLen fuel remaining w).1.dataSize = w.dataSize + remaining ∧
      (CW.padLoop toTemp padLen fuel remaining w).1.io.wBytes =
        (if toTemp then w.io.wBytes else w.io.wBytes ++ List.replicate remaining 0) ∧
      (CW.padLoop toTemp padLen fuel remaining w).1.io.tBytes =
        (if toTemp then w.io.tBytes ++ List.replicate remaining 0 else w.io.tBytes) := by
  induction fuel with
  | zero =>
    intro remaining w hr _
    have : remaining = 0 := by omega
    subst this
    cases toTemp <;> simp [CW.padLoop, CW.SameBut]
  | succ f ih =>
    intro remaining w hr h
    unfold CW.padLoop at h ⊢
    by_cases h0 : remaining = 0
    · subst h0; cases toTemp <;> simp [CW.SameBut]
    · have h0' : (remaining == 0) = false := by simpa using h0
      simp only [h0', Bool.false_eq_true, ↓reduceIte] at h ⊢
      have hn1 : (if remaining < padLen then remaining else padLen) ≥ 1 := by split <;> omega
      have hn2 : (if remaining < padLen then remaining else padLen) ≤ remaining := by split <;> omega
      generalize (if remaining < padLen then remaining else padLen) = n at h hn1 hn2 ⊢
      have hwb := IOSt.write_bytes w.io toTemp (List.replicate n 0)
      cases hw : w.io.write toTemp (List.replicate n 0) with
      | mk io1 b =>
        rw [hw] at h hwb
        cases b with
        | false => simp at h
        | true =>
          simp only [Bool.not_true, Bool.false_eq_true, ↓reduceIte] at h hwb ⊢
          obtain ⟨hb1, hb2⟩ := hwb trivial
          by_cases hms : w.dataSize + n > maxSize
          · rw [if_pos hms] at h; simp [CW.fail] at h
          · rw [if_neg hms] at h ⊢
            obtain ⟨i1, i2, i3, i4, i5⟩ := ih (remaining - n) _ (by omega) h
            refine ⟨?_, i2, ?_, ?_, ?_⟩
            · exact CW.SameBut.trans (by simp [CW.SameBut]) i1
            · rw [i3]; simp only; omega
            · rw [i4]; simp only; rw [hb1]
              cases toTemp
              · simp only [Bool.false_eq_true, ↓reduceIte, List.append_assoc, List.replicate_append_replicate]
                congr 2; omega
              · simp
            · rw [i5]; simp only; rw [hb2]
              cases toTemp
              · simp
              · simp only [↓reduceIte, List.append_assoc, List.replicate_append_replicate]
                congr 2; omega

/-- number of zero bytes `padToPageSize(_, offset)` writes -/
def padAmount (cps offset : Nat) : Nat :=
  if cps == 0 then 0 else if offset &&& (cps - 1) == 0 then 0 else cps - (offset &&& (cps - 1))

theorem and_le_right' (a b : Nat) : a &&& b ≤ b := Nat.and_le_right

theorem CW.padToPageSize_spec (w : CW) (toTemp : Bool) (offset : Nat)
    (h : (w.padToPageSize toTemp offset).2 = none) :
    w.SameBut (w.padToPageSize toTemp offset).1 ∧
    (w.padToPageSize toTemp offset).1.err = w.err ∧
    (w.padToPageSize toTemp offset).1.dataSize = w.dataSize + padAmount w.cPageSize offset ∧
    (w.padToPageSize toTemp offset).1.io.wBytes =
      (if toTemp then w.io.wBytes else w.io.wBytes ++ List.replicate (padAmount w.cPageSize offset) 0) ∧
    (w.padToPageSize toTemp offset).1.io.tBytes =
      (if toTemp then w.io.tBytes ++ List.replicate (padAmount w.cPageSize offset) 0 else w.io.tBytes) := by
  unfold CW.padToPageSize padAmount at *
  by_cases h0 : w.cPageSize = 0
  · have : (w.cPageSize == 0) = true := by simpa using h0
    simp only [this, ↓reduceIte]
    cases toTemp <;> simp [CW.SameBut]
  · have h0' : (w.cPageSize == 0) = false := by simpa using h0
    simp only [h0', Bool.false_eq_true, ↓reduceIte] at h ⊢
    by_cases h1 : (offset &&& (w.cPageSize - 1)) = 0
    · have : (offset &&& (w.cPageSize - 1) == 0) = true := by simpa using h1
      simp only [this, ↓reduceIte]
      cases toTemp <;> simp [CW.SameBut]
    · have h1' : (offset &&& (w.cPageSize - 1) == 0) = false := by simpa using h1
      simp only [h1', Bool.false_eq_true, ↓reduceIte] at h ⊢
      have hle := and_le_right' offset (w.cPageSize - 1)
      exact CW.padLoop_spec toTemp _ (by split <;> omega) _ _ w (Nat.le_refl _) h

theorem CW.writePadding_spec (w : CW) (toTemp : Bool) (lenData : Nat)
    (h : (w.writePadding toTemp lenData).2 = none) :
    ∃ k, (k = 0 ∨ k = padAmount w.cPageSize w.dataSize) ∧ w.SameBut (w.writePadding toTemp lenData).1 ∧
    (w.writePadding toTemp lenData).1.err = w.err ∧
    (w.writePadding toTemp lenData).1.dataSize = w.dataSize + k ∧
    (w.writePadding toTemp lenData).1.io.wBytes =
      (if toTemp then w.io.wBytes else w.io.wBytes ++ List.replicate k 0) ∧
    (w.writePadding toTemp lenData).1.io.tBytes =
      (if toTemp then w.io.tBytes ++ List.replicate k 0 else w.io.tBytes) := by
  unfold CW.writePadding at *
  by_cases hl : (lenData == 0) = true
  · simp only [hl, ↓reduceIte]
    exact ⟨0, Or.inl rfl, by cases toTemp <;> simp [CW.SameBut]⟩
  · simp only [hl, Bool.false_eq_true, ↓reduceIte] at h ⊢
    by_cases hp : ((w.dataSize &&& w.cPageSize - 1) + lenData + (w.cPageSize - 1)) >>> w.log2CPageSize =
        (lenData + (w.cPageSize - 1)) >>> w.log2CPageSize
    · simp only [hp, beq_self_eq_true, ↓reduceIte]
      exact ⟨0, Or.inl rfl, by cases toTemp <;> simp [CW.SameBut]⟩
    · have hp' : (((w.dataSize &&& w.cPageSize - 1) + lenData + (w.cPageSize - 1)) >>> w.log2CPageSize ==
          (lenData + (w.cPageSize - 1)) >>> w.log2CPageSize) = false := by simpa using hp
      simp only [hp', Bool.false_eq_true, ↓reduceIte] at h ⊢
      exact ⟨_, Or.inr rfl, CW.padToPageSize_spec w toTemp w.dataSize h⟩

/-- `ChunkWriter.write(data)`: on success some zero padding and then `data` were appended to the data stream -/
theorem CW.write_spec (w : CW) (data : Bytes) (h : (w.write data).2 = none) :
    ∃ k, (k = 0 ∨ k = padAmount w.cPageSize w.dataSize) ∧ w.SameBut (w.write data).1 ∧ (w.write data).1.err = w.err ∧
    (w.write data).1.dataSize = w.dataSize + k + data.length ∧
    (w.write data).1.dataSize ≤ maxSize ∧
    (w.write data).1.stream = w.stream ++ List.replicate k 0 ++ data ∧
    (w.write data).1.side = w.side := by
  unfold CW.write at *
  simp only at h ⊢
  by_cases hd : data.length > maxSize
  · simp [hd, CW.fail] at h
  · simp only [hd, ↓reduceIte] at h ⊢
    have hwp := CW.writePadding_spec w (w.tempKind != 0) data.length
    generalize hpad : (if w.cPageSize > 0 then w.writePadding (w.tempKind != 0) data.length else (w, none)) = pr at h ⊢
    have hpr : pr.2 = none → ∃ k, (k = 0 ∨ k = padAmount w.cPageSize w.dataSize) ∧ w.SameBut pr.1 ∧ pr.1.err = w.err ∧ pr.1.dataSize = w.dataSize + k ∧
        pr.1.io.wBytes = (if (w.tempKind != 0) then w.io.wBytes else w.io.wBytes ++ List.replicate k 0) ∧
        pr.1.io.tBytes = (if (w.tempKind != 0) then w.io.tBytes ++ List.replicate k 0 else w.io.tBytes) := by
      intro hn
      rw [← hpad] at hn ⊢
      split at hn
      · rename_i hc; rw [if_pos hc]; exact hwp hn
      · rename_i hc; rw [if_neg hc]
        exact ⟨0, Or.inl rfl, by cases (w.tempKind != 0) <;> simp [CW.SameBut]⟩
    obtain ⟨w1, e1⟩ := pr
    cases e1 with
    | some e => simp at h
    | none =>
      simp only [Option.isSome_none, Bool.false_eq_true, ↓reduceIte] at h ⊢
      obtain ⟨k, p0, p1, p2, p3, p4, p5⟩ := hpr rfl
      simp only at p1 p2 p3 p4 p5
      have htk : w1.tempKind = w.tempKind := by rw [p1]
      have hwb := IOSt.write_bytes w1.io (w.tempKind != 0) data
      cases hw : w1.io.write (w.tempKind != 0) data with
      | mk io2 b =>
        rw [hw] at h hwb
        cases b with
        | false => simp at h
        | true =>
          simp only [Bool.not_true, Bool.false_eq_true, ↓reduceIte] at h hwb ⊢
          obtain ⟨hb1, hb2⟩ := hwb trivial
          by_cases hms : w1.dataSize + data.length > maxSize
          · rw [if_pos hms] at h; simp [CW.fail] at h
          · rw [if_neg hms]
            refine ⟨k, p0, ?_, ?_, ?_, ?_, ?_, ?_⟩
            · exact CW.SameBut.trans p1 (by simp [CW.SameBut])
            · simpa using p2
            · simp only; omega
            · simp only; omega
            · simp only [CW.stream, htk, hb1, hb2, p4, p5]
              cases (w.tempKind != 0) <;> simp
            · simp only [CW.side, htk, hb1, hb2, p4, p5]
              cases (w.tempKind != 0) <;> simp
end WuffsVerif.Rac
