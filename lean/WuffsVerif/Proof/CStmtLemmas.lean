/-
C04 — lemmas about Model/CStmt.lean for Props/C04Stmt.lean: unfolding
equations, fuel monotonicity of the C semantics, the fuel-free `RunsS` /
`RunsL` view with its composition rules, facts about `findLabel` on lowered
lists, and three facts about the Wuffs side (a jump that leaves a list occurs
in it; it targets an enclosing loop; executing `b ++ [break]`).  Core Lean only.
-/
import WuffsVerif.Model.CStmt

namespace WuffsVerif.CStmt
variable {σ V : Type} (I : Interp σ V)

/-! ## Unfolding equations -/

@[simp] theorem execCL_nil (f : Nat) (whole : List CStmt) (st : σ) :
    execCL I f whole [] st = some (.normal st) := by
  cases f <;> simp [execCL]

@[simp] theorem execCS_zero (s : CStmt) (st : σ) : execCS I 0 s st = none := by
  simp [execCS]

@[simp] theorem execCL_zero_cons (whole : List CStmt) (s : CStmt) (r : List CStmt) (st : σ) :
    execCL I 0 whole (s :: r) st = none := by
  simp [execCL]

theorem execCL_cons (f : Nat) (whole : List CStmt) (s : CStmt) (r : List CStmt) (st : σ) :
    execCL I (f + 1) whole (s :: r) st =
      (execCS I f s st).bind
        (seqAfterC whole (fun st' => execCL I f whole r st') (fun r' st' => execCL I f whole r' st')) := by
  simp only [execCL]

theorem execCS_act (f a : Nat) (st : σ) : execCS I (f + 1) (.act a) st = (I.act a st).map .normal := by
  simp only [execCS]
theorem execCS_ite (f c : Nat) (el : Bool) (t e : List CStmt) (st : σ) :
    execCS I (f + 1) (.ite c el t e) st =
      match I.cond c st with
      | none => none
      | some true => execCL I f t t st
      | some false => execCL I f e e st := by
  simp only [execCS]; rfl
theorem execCS_block (f : Nat) (b : List CStmt) (st : σ) :
    execCS I (f + 1) (.block b) st = execCL I f b b st := by
  simp only [execCS]
theorem execCS_brk (f : Nat) (st : σ) : execCS I (f + 1) .brk st = some (.brk st) := by
  simp only [execCS]
theorem execCS_cont (f : Nat) (st : σ) : execCS I (f + 1) .cont st = some (.cont st) := by
  simp only [execCS]
theorem execCS_goto (f : Nat) (l : Label) (st : σ) : execCS I (f + 1) (.goto l) st = some (.goto l st) := by
  simp only [execCS]
theorem execCS_label (f : Nat) (l : Label) (st : σ) : execCS I (f + 1) (.label l) st = some (.normal st) := by
  simp only [execCS]
theorem execCS_ret (f e : Nat) (st : σ) :
    execCS I (f + 1) (.ret e) st = (I.retv e st).map (fun v => .ret v st) := by
  simp only [execCS]
theorem execCS_doWhile0 (f : Nat) (body : List CStmt) (st : σ) :
    execCS I (f + 1) (.doWhile0 body) st = (execCL I f body body st).map doWhileAfterC := by
  simp only [execCS]
theorem execCS_while (f : Nat) (c : Option Nat) (body : List CStmt) (st : σ) :
    execCS I (f + 1) (.while c body) st =
      match I.condO c st with
      | none => none
      | some false => some (.normal st)
      | some true =>
        (execCL I f body body st).bind (whileAfterC (fun st' => execCS I f (.while c body) st')) := by
  simp only [execCS]; rfl

@[simp] theorem execWL_nil (f : Nat) (st : σ) : execWL I f [] st = some (.next st) := by
  cases f <;> simp [execWL]
@[simp] theorem execWS_zero (s : WStmt) (st : σ) : execWS I 0 s st = none := by
  simp [execWS]
@[simp] theorem execWL_zero_cons (s : WStmt) (r : List WStmt) (st : σ) :
    execWL I 0 (s :: r) st = none := by
  simp [execWL]
theorem execWL_cons (f : Nat) (s : WStmt) (r : List WStmt) (st : σ) :
    execWL I (f + 1) (s :: r) st =
      (execWS I f s st).bind (seqAfterW (fun st' => execWL I f r st')) := by
  simp only [execWL]
theorem execWS_act (f a : Nat) (st : σ) : execWS I (f + 1) (.act a) st = (I.act a st).map .next := by
  simp only [execWS]
theorem execWS_ite (f c : Nat) (el : Bool) (t e : List WStmt) (st : σ) :
    execWS I (f + 1) (.ite c el t e) st =
      match I.cond c st with
      | none => none
      | some true => execWL I f t st
      | some false => execWL I f e st := by
  simp only [execWS]; rfl
theorem execWS_ifTrue (f : Nat) (t : List WStmt) (st : σ) :
    execWS I (f + 1) (.ifTrue t) st = execWL I f t st := by
  simp only [execWS]
theorem execWS_jump (f : Nat) (b : Bool) (j : Nat) (st : σ) :
    execWS I (f + 1) (.jump b j) st = some (.jmp b j st) := by
  simp only [execWS]
theorem execWS_ret (f e : Nat) (st : σ) :
    execWS I (f + 1) (.ret e) st = (I.retv e st).map (fun v => .ret v st) := by
  simp only [execWS]
theorem execWS_while (f id : Nat) (c : Option Nat) (body : List WStmt) (st : σ) :
    execWS I (f + 1) (.while id c body) st =
      match I.condO c st with
      | none => none
      | some false => some (.next st)
      | some true =>
        (execWL I f body st).bind (whileAfterW id (fun st' => execWS I f (.while id c body) st')) := by
  simp only [execWS]; rfl

/-! ## Fuel monotonicity of the C semantics -/

theorem execC_mono_succ : ∀ f : Nat,
    (∀ (s : CStmt) (st : σ) (o : COut σ V), execCS I f s st = some o → execCS I (f + 1) s st = some o) ∧
    (∀ (whole rest : List CStmt) (st : σ) (o : COut σ V),
      execCL I f whole rest st = some o → execCL I (f + 1) whole rest st = some o) := by
  intro f
  induction f with
  | zero =>
    constructor
    · intro s st o h; simp at h
    · intro whole rest st o h
      cases rest with
      | nil => simpa using h
      | cons s r => simp at h
  | succ f ih =>
    obtain ⟨ihS, ihL⟩ := ih
    constructor
    · intro s st o h
      cases s with
      | act a => rw [execCS_act] at h ⊢; exact h
      | ite c el t e =>
        rw [execCS_ite] at h ⊢
        cases hc : I.cond c st with
        | none => simp [hc] at h
        | some b => cases b <;> simp only [hc] at h ⊢ <;> exact ihL _ _ _ _ h
      | block b => rw [execCS_block] at h ⊢; exact ihL _ _ _ _ h
      | brk => rw [execCS_brk] at h ⊢; exact h
      | cont => rw [execCS_cont] at h ⊢; exact h
      | goto l => rw [execCS_goto] at h ⊢; exact h
      | label l => rw [execCS_label] at h ⊢; exact h
      | ret e => rw [execCS_ret] at h ⊢; exact h
      | doWhile0 body =>
        rw [execCS_doWhile0] at h ⊢
        cases hb : execCL I f body body st with
        | none => simp [hb] at h
        | some x => rw [ihL _ _ _ _ hb]; simpa [hb] using h
      | «while» c body =>
        rw [execCS_while] at h ⊢
        cases hc : I.condO c st with
        | none => simp [hc] at h
        | some b =>
          cases b with
          | false => simpa [hc] using h
          | true =>
            simp only [hc] at h ⊢
            cases hb : execCL I f body body st with
            | none => simp [hb] at h
            | some x =>
              rw [ihL _ _ _ _ hb]
              simp only [hb, Option.bind_some] at h ⊢
              cases x <;> simp only [whileAfterC] at h ⊢ <;> first | exact ihS _ _ _ h | exact h
    · intro whole rest st o h
      cases rest with
      | nil => simpa using h
      | cons s r =>
        rw [execCL_cons] at h ⊢
        cases hs : execCS I f s st with
        | none => simp [hs] at h
        | some x =>
          rw [ihS _ _ _ hs]
          simp only [hs, Option.bind_some] at h ⊢
          cases x with
          | normal st' => simp only [seqAfterC] at h ⊢; exact ihL _ _ _ _ h
          | goto l st' =>
            simp only [seqAfterC] at h ⊢
            cases hl : findLabel l whole with
            | none => simpa [hl] using h
            | some r' => simp only [hl] at h ⊢; exact ihL _ _ _ _ h
          | brk st' => simpa [seqAfterC] using h
          | cont st' => simpa [seqAfterC] using h
          | ret v st' => simpa [seqAfterC] using h

theorem execCS_mono {f g : Nat} (hfg : f ≤ g) {s : CStmt} {st : σ} {o : COut σ V}
    (h : execCS I f s st = some o) : execCS I g s st = some o := by
  induction hfg with
  | refl => exact h
  | step _ ih => exact (execC_mono_succ I _).1 _ _ _ ih

theorem execCL_mono {f g : Nat} (hfg : f ≤ g) {whole rest : List CStmt} {st : σ} {o : COut σ V}
    (h : execCL I f whole rest st = some o) : execCL I g whole rest st = some o := by
  induction hfg with
  | refl => exact h
  | step _ ih => exact (execC_mono_succ I _).2 _ _ _ _ ih

/-! ## Fuel-free view -/

def RunsS (s : CStmt) (st : σ) (o : COut σ V) : Prop := ∃ f, execCS I f s st = some o
def RunsL (whole rest : List CStmt) (st : σ) (o : COut σ V) : Prop := ∃ f, execCL I f whole rest st = some o

theorem RunsL.nil (whole : List CStmt) (st : σ) : RunsL I whole [] st (.normal st) := ⟨0, by simp⟩

theorem RunsL.cons_normal {whole R : List CStmt} {s : CStmt} {st st' : σ} {r : COut σ V}
    (h1 : RunsS I s st (.normal st')) (h2 : RunsL I whole R st' r) : RunsL I whole (s :: R) st r := by
  obtain ⟨f, hf⟩ := h1
  obtain ⟨g, hg⟩ := h2
  refine ⟨max f g + 1, ?_⟩
  rw [execCL_cons, execCS_mono I (Nat.le_max_left f g) hf]
  simp only [Option.bind_some, seqAfterC]
  exact execCL_mono I (Nat.le_max_right f g) hg

theorem RunsL.cons_goto {whole R R' : List CStmt} {s : CStmt} {st st' : σ} {l : Label} {r : COut σ V}
    (h1 : RunsS I s st (.goto l st')) (hl : findLabel l whole = some R') (h2 : RunsL I whole R' st' r) :
    RunsL I whole (s :: R) st r := by
  obtain ⟨f, hf⟩ := h1
  obtain ⟨g, hg⟩ := h2
  refine ⟨max f g + 1, ?_⟩
  rw [execCL_cons, execCS_mono I (Nat.le_max_left f g) hf]
  simp only [Option.bind_some, seqAfterC, hl]
  exact execCL_mono I (Nat.le_max_right f g) hg

/-- an outcome that ends the list `whole` -/
def Stops (whole : List CStmt) : COut σ V → Prop
  | .normal _ => False
  | .goto l _ => findLabel l whole = none
  | _ => True

theorem RunsL.cons_stop {whole R : List CStmt} {s : CStmt} {st : σ} {o : COut σ V}
    (h1 : RunsS I s st o) (hs : Stops whole o) : RunsL I whole (s :: R) st o := by
  obtain ⟨f, hf⟩ := h1
  refine ⟨f + 1, ?_⟩
  rw [execCL_cons, hf]
  cases o with
  | normal st' => exact absurd hs (by simp [Stops])
  | goto l st' => simp only [Stops] at hs; simp [seqAfterC, hs]
  | brk st' => simp [seqAfterC]
  | cont st' => simp [seqAfterC]
  | ret v st' => simp [seqAfterC]

/-- the first statement of a running list may be replaced by anything that
has (at least) the same outcomes -/
theorem RunsL.head_replace {whole R : List CStmt} {s : CStmt} {st1 st : σ} {r : COut σ V}
    (h : RunsL I whole (s :: R) st1 r) (hx : ∀ x, RunsS I s st1 x → RunsS I s st x) :
    RunsL I whole (s :: R) st r := by
  obtain ⟨m, hm⟩ := h
  cases m with
  | zero => simp at hm
  | succ m =>
    rw [execCL_cons] at hm
    cases hs : execCS I m s st1 with
    | none => simp [hs] at hm
    | some x =>
      obtain ⟨g, hg⟩ := hx x ⟨m, hs⟩
      refine ⟨max m g + 1, ?_⟩
      rw [execCL_cons, execCS_mono I (Nat.le_max_right m g) hg]
      simp only [hs, Option.bind_some] at hm ⊢
      cases x with
      | normal st' => simp only [seqAfterC] at hm ⊢; exact execCL_mono I (Nat.le_max_left m g) hm
      | goto l st' =>
        simp only [seqAfterC] at hm ⊢
        cases hl : findLabel l whole with
        | none => simpa [hl] using hm
        | some r' => simp only [hl] at hm ⊢; exact execCL_mono I (Nat.le_max_left m g) hm
      | brk st' => simpa [seqAfterC] using hm
      | cont st' => simpa [seqAfterC] using hm
      | ret v st' => simpa [seqAfterC] using hm

theorem RunsS.act {a : Nat} {st st' : σ} (h : I.act a st = some st') : RunsS I (.act a) st (.normal st') :=
  ⟨1, by rw [execCS_act, h]; rfl⟩
theorem RunsS.ret {e : Nat} {st : σ} {v : V} (h : I.retv e st = some v) : RunsS I (.ret e) st (.ret v st) :=
  ⟨1, by rw [execCS_ret, h]; rfl⟩
theorem RunsS.brk (st : σ) : RunsS I .brk st (.brk st) := ⟨1, execCS_brk I 0 st⟩
theorem RunsS.cont (st : σ) : RunsS I .cont st (.cont st) := ⟨1, execCS_cont I 0 st⟩
theorem RunsS.goto (l : Label) (st : σ) : RunsS I (.goto l) st (.goto l st) := ⟨1, execCS_goto I 0 l st⟩
theorem RunsS.label (l : Label) (st : σ) : RunsS I (.label l) st (.normal st) := ⟨1, execCS_label I 0 l st⟩

theorem RunsS.ite_true {c : Nat} {el : Bool} {t e : List CStmt} {st : σ} {o : COut σ V}
    (hc : I.cond c st = some true) (h : RunsL I t t st o) : RunsS I (.ite c el t e) st o := by
  obtain ⟨f, hf⟩ := h
  exact ⟨f + 1, by rw [execCS_ite, hc]; exact hf⟩
theorem RunsS.ite_false {c : Nat} {el : Bool} {t e : List CStmt} {st : σ} {o : COut σ V}
    (hc : I.cond c st = some false) (h : RunsL I e e st o) : RunsS I (.ite c el t e) st o := by
  obtain ⟨f, hf⟩ := h
  exact ⟨f + 1, by rw [execCS_ite, hc]; exact hf⟩
theorem RunsS.block {b : List CStmt} {st : σ} {o : COut σ V} (h : RunsL I b b st o) :
    RunsS I (.block b) st o := by
  obtain ⟨f, hf⟩ := h
  exact ⟨f + 1, by rw [execCS_block]; exact hf⟩
theorem RunsS.doWhile0 {body : List CStmt} {st : σ} {o : COut σ V} (h : RunsL I body body st o) :
    RunsS I (.doWhile0 body) st (doWhileAfterC o) := by
  obtain ⟨f, hf⟩ := h
  exact ⟨f + 1, by rw [execCS_doWhile0, hf]; rfl⟩
theorem RunsS.while_false {c : Option Nat} {body : List CStmt} {st : σ}
    (hc : I.condO c st = some false) : RunsS I (.while c body) st (.normal st) :=
  ⟨1, by rw [execCS_while, hc]⟩
/-- one more iteration: the body completes (or `continue`s), then the loop runs on -/
theorem RunsS.while_again {c : Option Nat} {body : List CStmt} {st st1 : σ} {o x : COut σ V}
    (hc : I.condO c st = some true) (hb : RunsL I body body st o)
    (ho : o = .normal st1 ∨ o = .cont st1) (h : RunsS I (.while c body) st1 x) :
    RunsS I (.while c body) st x := by
  obtain ⟨f, hf⟩ := hb
  obtain ⟨g, hg⟩ := h
  refine ⟨max f g + 1, ?_⟩
  rw [execCS_while, hc]
  simp only [execCL_mono I (Nat.le_max_left f g) hf, Option.bind_some]
  rcases ho with ho | ho <;> subst ho <;> simp only [whileAfterC] <;>
    exact execCS_mono I (Nat.le_max_right f g) hg
/-- the body ends the loop: `break`, or an outcome that passes through it -/
theorem RunsS.while_exit {c : Option Nat} {body : List CStmt} {st : σ} {o : COut σ V}
    (hc : I.condO c st = some true) (hb : RunsL I body body st o)
    (ho : ∀ s, o ≠ .normal s ∧ o ≠ .cont s) :
    RunsS I (.while c body) st (match o with | .brk s => .normal s | o => o) := by
  obtain ⟨f, hf⟩ := hb
  refine ⟨f + 1, ?_⟩
  rw [execCS_while, hc]
  simp only [hf, Option.bind_some]
  cases o with
  | normal s => exact absurd rfl (ho s).1
  | cont s => exact absurd rfl (ho s).2
  | brk s => rfl
  | goto l s => rfl
  | ret v s => rfl

/-! ## Labels of lowered lists -/

/-- identities of the labels that are top-level statements of a C list -/
def labelIds : List CStmt → List Nat
  | [] => []
  | .label l :: r => l.id :: labelIds r
  | _ :: r => labelIds r

theorem labelIds_append (a b : List CStmt) : labelIds (a ++ b) = labelIds a ++ labelIds b := by
  induction a with
  | nil => rfl
  | cons s r ih => cases s <;> simp [labelIds, ih]

theorem findLabel_none_of_not_mem {l : Label} {cs : List CStmt} (h : l.id ∉ labelIds cs) :
    findLabel l cs = none := by
  induction cs with
  | nil => rfl
  | cons s r ih =>
    cases s with
    | label l' =>
      simp only [labelIds, List.mem_cons, not_or] at h
      have hne : l' ≠ l := fun e => h.1 (by rw [e])
      simp [findLabel, hne, ih h.2]
    | _ => simp only [labelIds] at h; simp [findLabel, ih h]

theorem findLabel_append_of_none {l : Label} {a b : List CStmt} (h : findLabel l a = none) :
    findLabel l (a ++ b) = findLabel l b := by
  induction a with
  | nil => rfl
  | cons s r ih =>
    cases s with
    | label l' =>
      simp only [findLabel, List.cons_append] at h ⊢
      by_cases e : l' = l
      · simp [e] at h
      · simp only [e, if_false] at h ⊢; exact ih h
    | _ => simp only [findLabel, List.cons_append] at h ⊢; exact ih h

def preOf (id : Nat) (body : List WStmt) : List CStmt :=
  if deepJumpsToL false id body then [.label ⟨id, false⟩] else []
def postOf (id : Nat) (body : List WStmt) : List CStmt :=
  if deepJumpsToL true id body then [.label ⟨id, true⟩] else []
def loopOf (id : Nat) (c : Option Nat) (body : List WStmt) : CStmt :=
  if isTrivialLoop id c body then .doWhile0 (lowerL (some id) body).dropLast
  else .while c (lowerL (some id) body)

theorem lowerS_while (top : Option Nat) (id : Nat) (c : Option Nat) (body : List WStmt) :
    lowerS top (.while id c body) = preOf id body ++ loopOf id c body :: postOf id body := by
  simp only [lowerS, preOf, postOf, loopOf]

theorem lowerL_cons (top : Option Nat) (s : WStmt) (r : List WStmt) :
    lowerL top (s :: r) = lowerS top s ++ lowerL top r := by
  simp only [lowerL]

theorem lowerL_append (top : Option Nat) (a b : List WStmt) :
    lowerL top (a ++ b) = lowerL top a ++ lowerL top b := by
  induction a with
  | nil => simp [lowerL]
  | cons s r ih => simp [lowerL, ih]

theorem labelIds_preOf (id : Nat) (body : List WStmt) : ∀ i ∈ labelIds (preOf id body), i = id := by
  intro i hi; unfold preOf at hi; split at hi <;> simp [labelIds] at hi; exact hi
theorem labelIds_postOf (id : Nat) (body : List WStmt) : ∀ i ∈ labelIds (postOf id body), i = id := by
  intro i hi; unfold postOf at hi; split at hi <;> simp [labelIds] at hi; exact hi
theorem labelIds_loopOf (id : Nat) (c : Option Nat) (body : List WStmt) (r : List CStmt) :
    labelIds (loopOf id c body :: r) = labelIds r := by
  unfold loopOf; split <;> rfl

theorem labelIds_lowerS (top : Option Nat) (s : WStmt) : ∀ i ∈ labelIds (lowerS top s), i ∈ topLoopsS s := by
  intro i hi
  cases s with
  | «while» id c body =>
    rw [lowerS_while, labelIds_append, labelIds_loopOf] at hi
    simp only [List.mem_append] at hi
    simp only [topLoopsS, List.mem_singleton]
    rcases hi with hi | hi
    · exact labelIds_preOf id body i hi
    · exact labelIds_postOf id body i hi
  | jump b j =>
    simp only [lowerS] at hi
    split at hi
    · cases b <;> simp [labelIds] at hi
    · simp [labelIds] at hi
  | act a => simp [lowerS, labelIds] at hi
  | ite c el t e => simp [lowerS, labelIds] at hi
  | ifTrue t => simp [lowerS, labelIds] at hi
  | ret e => simp [lowerS, labelIds] at hi

theorem labelIds_lowerL (top : Option Nat) (ss : List WStmt) :
    ∀ i ∈ labelIds (lowerL top ss), i ∈ topLoopsL ss := by
  induction ss with
  | nil => intro i hi; simp [lowerL, labelIds] at hi
  | cons s r ih =>
    intro i hi
    rw [lowerL_cons, labelIds_append, List.mem_append] at hi
    simp only [topLoopsL, List.mem_append]
    rcases hi with hi | hi
    · exact Or.inl (labelIds_lowerS top s i hi)
    · exact Or.inr (ih i hi)

/-! ## Syntactic facts -/

theorem jumpsToL_append (b : Bool) (j : Nat) (x y : List WStmt) :
    jumpsToL b j (x ++ y) = (jumpsToL b j x || jumpsToL b j y) := by
  induction x with
  | nil => simp [jumpsToL]
  | cons s r ih => simp [jumpsToL, ih, Bool.or_assoc]

theorem deepJumpsToL_append (b : Bool) (j : Nat) (x y : List WStmt) :
    deepJumpsToL b j (x ++ y) = (deepJumpsToL b j x || deepJumpsToL b j y) := by
  induction x with
  | nil => simp [deepJumpsToL]
  | cons s r ih => simp [deepJumpsToL, ih, Bool.or_assoc]

theorem lastIsBreakTo_split {id : Nat} {body : List WStmt} (h : lastIsBreakTo id body = true) :
    ∃ b', body = b' ++ [.jump true id] := by
  induction body with
  | nil => simp [lastIsBreakTo] at h
  | cons s r ih =>
    cases r with
    | nil =>
      cases s with
      | jump b j =>
        cases b with
        | true => simp only [lastIsBreakTo, beq_iff_eq] at h; exact ⟨[], by simp [h]⟩
        | false => simp [lastIsBreakTo] at h
      | _ => simp [lastIsBreakTo] at h
    | cons s2 r2 =>
      simp only [lastIsBreakTo] at h
      obtain ⟨b', hb'⟩ := ih h
      exact ⟨s :: b', by simp [hb']⟩

theorem lowerL_break_last (id : Nat) (b' : List WStmt) :
    lowerL (some id) (b' ++ [.jump true id]) = lowerL (some id) b' ++ [.brk] := by
  rw [lowerL_append]; simp [lowerL, lowerS]

/-- the trivial-loop body of the model (`(lowerL … body).dropLast`) is the
body that writeStatementWhile writes (`body[:len(body)-1]`, lowered) -/
theorem lowerL_dropLast (id : Nat) (b' : List WStmt) :
    (lowerL (some id) (b' ++ [.jump true id])).dropLast = lowerL (some id) b' := by
  rw [lowerL_break_last]; simp

/-! ## Wuffs side -/

/-- a jump that leaves a statement (list) occurs in it -/
theorem jmp_occurs : ∀ n : Nat,
    (∀ (s : WStmt) (st : σ) (b : Bool) (j : Nat) (st' : σ),
      execWS I n s st = some (.jmp b j st') → jumpsToS b j s = true) ∧
    (∀ (ss : List WStmt) (st : σ) (b : Bool) (j : Nat) (st' : σ),
      execWL I n ss st = some (.jmp b j st') → jumpsToL b j ss = true) := by
  intro n
  induction n with
  | zero =>
    constructor
    · intro s st b j st' h; simp at h
    · intro ss st b j st' h
      cases ss with
      | nil => simp at h
      | cons s r => simp at h
  | succ n ih =>
    obtain ⟨ihS, ihL⟩ := ih
    constructor
    · intro s st b j st' h
      cases s with
      | act a => rw [execWS_act] at h; cases hx : I.act a st <;> simp [hx] at h
      | ret e => rw [execWS_ret] at h; cases hx : I.retv e st <;> simp [hx] at h
      | jump b2 j2 =>
        rw [execWS_jump] at h
        simp only [Option.some.injEq, WOut.jmp.injEq] at h
        obtain ⟨rfl, rfl, rfl⟩ := h
        simp [jumpsToS]
      | ite c el t e =>
        rw [execWS_ite] at h
        cases hc : I.cond c st with
        | none => simp [hc] at h
        | some bv =>
          cases bv <;> simp only [hc] at h <;> have := ihL _ _ _ _ _ h <;> simp [jumpsToS, this]
      | ifTrue t =>
        rw [execWS_ifTrue] at h
        have := ihL _ _ _ _ _ h
        simp [jumpsToS, this]
      | «while» id c body =>
        rw [execWS_while] at h
        cases hc : I.condO c st with
        | none => simp [hc] at h
        | some bv =>
          cases bv with
          | false => simp [hc] at h
          | true =>
            simp only [hc] at h
            cases hb : execWL I n body st with
            | none => simp [hb] at h
            | some x =>
              simp only [hb, Option.bind_some] at h
              cases x with
              | next st1 => simp only [whileAfterW] at h; exact ihS _ _ _ _ _ h
              | ret v st1 => simp [whileAfterW] at h
              | jmp b2 j2 st1 =>
                simp only [whileAfterW] at h
                by_cases e : j2 = id
                · simp only [e, if_true] at h
                  cases b2 with
                  | true => simp at h
                  | false => simp only [Bool.false_eq_true, if_false] at h; exact ihS _ _ _ _ _ h
                · simp only [e, if_false, Option.some.injEq, WOut.jmp.injEq] at h
                  obtain ⟨rfl, rfl, rfl⟩ := h
                  have := ihL _ _ _ _ _ hb
                  simpa [jumpsToS] using this
    · intro ss st b j st' h
      cases ss with
      | nil => simp at h
      | cons s r =>
        rw [execWL_cons] at h
        cases hs : execWS I n s st with
        | none => simp [hs] at h
        | some x =>
          simp only [hs, Option.bind_some] at h
          cases x with
          | next st1 =>
            simp only [seqAfterW] at h
            have := ihL _ _ _ _ _ h
            simp [jumpsToL, this]
          | ret v st1 => simp [seqAfterW] at h
          | jmp b2 j2 st1 =>
            simp only [seqAfterW, Option.some.injEq, WOut.jmp.injEq] at h
            obtain ⟨rfl, rfl, rfl⟩ := h
            have := ihS _ _ _ _ _ hs
            simp [jumpsToL, this]

/-- a jump that leaves a well-formed statement (list) targets an enclosing loop -/
theorem jmp_scoped : ∀ n : Nat,
    (∀ (encl : List Nat) (s : WStmt) (st : σ) (b : Bool) (j : Nat) (st' : σ), wfS encl s = true →
      execWS I n s st = some (.jmp b j st') → j ∈ encl) ∧
    (∀ (encl : List Nat) (ss : List WStmt) (st : σ) (b : Bool) (j : Nat) (st' : σ), wfL encl ss = true →
      execWL I n ss st = some (.jmp b j st') → j ∈ encl) := by
  intro n
  induction n with
  | zero =>
    constructor
    · intro encl s st b j st' _ h; simp at h
    · intro encl ss st b j st' _ h
      cases ss with
      | nil => simp at h
      | cons s r => simp at h
  | succ n ih =>
    obtain ⟨ihS, ihL⟩ := ih
    constructor
    · intro encl s st b j st' hwf h
      cases s with
      | act a => rw [execWS_act] at h; cases hx : I.act a st <;> simp [hx] at h
      | ret e => rw [execWS_ret] at h; cases hx : I.retv e st <;> simp [hx] at h
      | jump b2 j2 =>
        rw [execWS_jump] at h
        simp only [Option.some.injEq, WOut.jmp.injEq] at h
        obtain ⟨rfl, rfl, rfl⟩ := h
        simpa [wfS] using hwf
      | ite c el t e =>
        simp only [wfS, Bool.and_eq_true] at hwf
        rw [execWS_ite] at h
        cases hc : I.cond c st with
        | none => simp [hc] at h
        | some bv =>
          cases bv <;> simp only [hc] at h
          · exact ihL _ _ _ _ _ _ hwf.2 h
          · exact ihL _ _ _ _ _ _ hwf.1 h
      | ifTrue t =>
        simp only [wfS] at hwf
        rw [execWS_ifTrue] at h
        exact ihL _ _ _ _ _ _ hwf h
      | «while» id c body =>
        have hwf' := hwf
        simp only [wfS, Bool.and_eq_true] at hwf'
        rw [execWS_while] at h
        cases hc : I.condO c st with
        | none => simp [hc] at h
        | some bv =>
          cases bv with
          | false => simp [hc] at h
          | true =>
            simp only [hc] at h
            cases hb : execWL I n body st with
            | none => simp [hb] at h
            | some x =>
              simp only [hb, Option.bind_some] at h
              cases x with
              | next st1 => simp only [whileAfterW] at h; exact ihS _ _ _ _ _ _ hwf h
              | ret v st1 => simp [whileAfterW] at h
              | jmp b2 j2 st1 =>
                simp only [whileAfterW] at h
                by_cases e : j2 = id
                · simp only [e, if_true] at h
                  cases b2 with
                  | true => simp at h
                  | false => simp only [Bool.false_eq_true, if_false] at h; exact ihS _ _ _ _ _ _ hwf h
                · simp only [e, if_false, Option.some.injEq, WOut.jmp.injEq] at h
                  obtain ⟨rfl, rfl, rfl⟩ := h
                  have := ihL _ _ _ _ _ _ hwf'.2 hb
                  simp only [List.mem_cons] at this
                  rcases this with this | this
                  · exact absurd this e
                  · exact this
    · intro encl ss st b j st' hwf h
      cases ss with
      | nil => simp at h
      | cons s r =>
        simp only [wfL, Bool.and_eq_true] at hwf
        rw [execWL_cons] at h
        cases hs : execWS I n s st with
        | none => simp [hs] at h
        | some x =>
          simp only [hs, Option.bind_some] at h
          cases x with
          | next st1 => simp only [seqAfterW] at h; exact ihL _ _ _ _ _ _ hwf.1.2 h
          | ret v st1 => simp [seqAfterW] at h
          | jmp b2 j2 st1 =>
            simp only [seqAfterW, Option.some.injEq, WOut.jmp.injEq] at h
            obtain ⟨rfl, rfl, rfl⟩ := h
            exact ihS _ _ _ _ _ _ hwf.1.1 hs

/-- running `b' ++ [break]`: run `b'`; if it completes, the `break` happens -/
theorem execWL_append_break (id : Nat) : ∀ (b' : List WStmt) (n : Nat) (st : σ) (out : WOut σ V),
    execWL I n (b' ++ [.jump true id]) st = some out →
    ∃ out', execWL I n b' st = some out' ∧
      out = (match out' with | .next st' => .jmp true id st' | o => o) := by
  intro b'
  induction b' with
  | nil =>
    intro n st out h
    cases n with
    | zero => simp at h
    | succ n =>
      simp only [List.nil_append] at h
      rw [execWL_cons] at h
      cases n with
      | zero => simp at h
      | succ n =>
        rw [execWS_jump] at h
        simp only [Option.bind_some, seqAfterW, Option.some.injEq] at h
        exact ⟨.next st, by simp, h.symm⟩
  | cons s r ih =>
    intro n st out h
    cases n with
    | zero => simp at h
    | succ n =>
      simp only [List.cons_append] at h
      rw [execWL_cons] at h ⊢
      cases hs : execWS I n s st with
      | none => simp [hs] at h
      | some x =>
        simp only [hs, Option.bind_some] at h ⊢
        cases x with
        | next st1 => simp only [seqAfterW] at h ⊢; exact ih n st1 out h
        | ret v st1 => simp only [seqAfterW, Option.some.injEq] at h ⊢; exact ⟨_, rfl, h.symm⟩
        | jmp b2 j2 st1 => simp only [seqAfterW, Option.some.injEq] at h ⊢; exact ⟨_, rfl, h.symm⟩

/-- the loops of a well-formed list are not among the enclosing ones -/
theorem wfL_topLoops {encl : List Nat} {ss : List WStmt} (h : wfL encl ss = true) :
    ∀ i ∈ topLoopsL ss, i ∉ encl := by
  induction ss with
  | nil => intro i hi; simp [topLoopsL] at hi
  | cons s r ih =>
    simp only [wfL, Bool.and_eq_true] at h
    intro i hi
    simp only [topLoopsL, List.mem_append] at hi
    rcases hi with hi | hi
    · cases s with
      | «while» id c body =>
        simp only [topLoopsS, List.mem_singleton] at hi
        subst hi
        have := h.1.1
        simp only [wfS, Bool.and_eq_true, Bool.not_eq_true', List.contains_eq_mem, decide_eq_false_iff_not] at this
        exact this.1
      | _ => simp [topLoopsS] at hi
    · exact ih h.1.2 i hi

end WuffsVerif.CStmt
