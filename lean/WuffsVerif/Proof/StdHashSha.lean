/-
C07 helper lemmas: the block-buffering state machine of std/sha256 (`hasher.update`,
`hasher.up`) refines "absorb the pending bytes followed by the new bytes, 64 at a time".
The compression function is opaque here.  Core Lean only.
-/
import WuffsVerif.Model.StdHash

namespace WuffsVerif.StdHash

/-! ### `shaUpBlocks`: whole blocks are compressed, fewer than 64 bytes remain -/

theorem shaUpBlocks_lt (hh : Sha256H) (x : List UInt8) (h : x.length < 64) :
    shaUpBlocks hh x = (hh, x) := by
  rw [shaUpBlocks]; simp only [show ¬ x.length ≥ 64 by omega, ↓reduceDIte]

theorem shaUpBlocks_ge (hh : Sha256H) (x : List UInt8) (h : x.length ≥ 64) :
    shaUpBlocks hh x = shaUpBlocks (shaCompress hh (x.take 64)) (x.drop 64) := by
  rw [shaUpBlocks]; simp only [h, ↓reduceDIte]

theorem shaUpBlocks_rem (n : Nat) : ∀ (hh : Sha256H) (x : List UInt8), x.length ≤ n →
    (shaUpBlocks hh x).2.length = x.length % 64 := by
  induction n using Nat.strongRecOn with
  | _ n ih =>
    intro hh x hx
    by_cases h : x.length ≥ 64
    · rw [shaUpBlocks_ge hh x h]
      rw [ih (x.length - 64) (by omega) _ (x.drop 64) (by simp only [List.length_drop]; omega)]
      simp only [List.length_drop]; omega
    · rw [shaUpBlocks_lt hh x (by omega)]; simp only; omega

theorem shaUpBlocks_rem' (hh : Sha256H) (x : List UInt8) :
    (shaUpBlocks hh x).2.length = x.length % 64 := shaUpBlocks_rem x.length hh x (Nat.le_refl _)

/-- absorbing `l ++ m` = absorbing `l`, then the leftover of `l` followed by `m` -/
theorem shaUpBlocks_append (n : Nat) : ∀ (hh : Sha256H) (l m : List UInt8), l.length ≤ n →
    shaUpBlocks hh (l ++ m) = shaUpBlocks (shaUpBlocks hh l).1 ((shaUpBlocks hh l).2 ++ m) := by
  induction n using Nat.strongRecOn with
  | _ n ih =>
    intro hh l m hl
    by_cases h : l.length ≥ 64
    · rw [shaUpBlocks_ge hh l h, shaUpBlocks_ge hh (l ++ m) (by simp only [List.length_append]; omega)]
      rw [List.take_append_of_le_length (by omega), List.drop_append_of_le_length (by omega)]
      exact ih (l.length - 64) (by omega) _ (l.drop 64) m (by simp only [List.length_drop]; omega)
    · rw [shaUpBlocks_lt hh l (by omega)]

theorem shaUpBlocks_append' (hh : Sha256H) (l m : List UInt8) :
    shaUpBlocks hh (l ++ m) = shaUpBlocks (shaUpBlocks hh l).1 ((shaUpBlocks hh l).2 ++ m) :=
  shaUpBlocks_append l.length hh l m (Nat.le_refl _)

/-! ### `writeAt` -/

theorem writeAt_length (l : List UInt8) (i : Nat) (v : List UInt8) : (writeAt l i v).length = l.length := by
  unfold writeAt
  simp only [List.length_take, List.length_append, List.length_drop]
  omega

theorem writeAt_take (l : List UInt8) (i : Nat) (v : List UInt8) (h : i + v.length ≤ l.length) :
    (writeAt l i v).take (i + v.length) = l.take i ++ v := by
  unfold writeAt
  rw [List.take_take, Nat.min_eq_left h]
  rw [← List.append_assoc, List.take_append_of_le_length (by simp only [List.length_append, List.length_take]; omega)]
  rw [List.take_of_length_le (by simp only [List.length_append, List.length_take]; omega)]

theorem writeAt_zero_nil (l : List UInt8) : writeAt l 0 [] = l := by
  unfold writeAt; simp

/-! ### The abstract state and the abstract update -/

/-- what the digest depends on: length counter, overflow flag, chaining value, pending bytes -/
structure ShaAbs where
  len : Nat
  ovf : Bool
  h : Sha256H
  pending : List UInt8
deriving DecidableEq

def ShaHasher.abs (s : ShaHasher) : ShaAbs :=
  { len := s.lengthModuloU64, ovf := s.lengthOverflowsU64, h := s.h, pending := s.bufData.take s.bufLen }

/-- reachable states: the buffer has 64 bytes, `buf_len = length mod 64 < 64`, the counter is a u64 -/
structure ShaHasher.Inv (s : ShaHasher) : Prop where
  buf64 : s.bufData.length = 64
  lenlt : s.lengthModuloU64 < 18446744073709551616
  buflen : s.bufLen = s.lengthModuloU64 % 64

/-- `update` re-loads the initial hash value as long as nothing was absorbed -/
def shaH0 (len : Nat) (ovf : Bool) (h : Sha256H) : Sha256H :=
  if len == 0 && !ovf then shaInit else h

def ShaAbs.update (a : ShaAbs) (x : List UInt8) : ShaAbs :=
  let h0 := shaH0 a.len a.ovf a.h
  let newLmu := (a.len + x.length) % 18446744073709551616
  let r := shaUpBlocks h0 (a.pending ++ x)
  { len := newLmu, ovf := decide (newLmu < a.len) || a.ovf, h := r.1, pending := r.2 }

theorem ShaHasher.Inv.buflt {s : ShaHasher} (hi : s.Inv) : s.bufLen < 64 := by
  rw [hi.buflen]; omega

theorem ShaHasher.Inv.pending_length {s : ShaHasher} (hi : s.Inv) : s.abs.pending.length = s.bufLen := by
  simp only [ShaHasher.abs, List.length_take, hi.buf64]
  have := hi.buflt; omega

/-- `up` on a state whose buffer is logically empty -/
theorem sha_up_abs (s : ShaHasher) (x : List UInt8) (hb : s.bufData.length = 64) :
    (s.up x).h = (shaUpBlocks s.h x).1 ∧
    (s.up x).bufData.take (s.up x).bufLen = (shaUpBlocks s.h x).2 ∧
    (s.up x).bufData.length = 64 ∧ (s.up x).bufLen = x.length % 64 ∧
    (s.up x).lengthModuloU64 = s.lengthModuloU64 ∧ (s.up x).lengthOverflowsU64 = s.lengthOverflowsU64 := by
  have hr := shaUpBlocks_rem' s.h x
  refine ⟨rfl, ?_, ?_, rfl, rfl, rfl⟩
  · show (writeAt s.bufData 0 (shaUpBlocks s.h x).2).take (x.length % 64) = _
    have := writeAt_take s.bufData 0 (shaUpBlocks s.h x).2 (by rw [hr, hb]; omega)
    rw [Nat.zero_add, hr] at this
    rw [this]; simp
  · show (writeAt s.bufData 0 (shaUpBlocks s.h x).2).length = 64
    rw [writeAt_length, hb]


/-- the state after the first statements of `update` (re-initialisation of `h`, length accounting) -/
def ShaHasher.pre (s : ShaHasher) (x : List UInt8) : ShaHasher :=
  let s := if s.lengthModuloU64 == 0 && !s.lengthOverflowsU64 then { s with h := shaInit } else s
  let newLmu := (s.lengthModuloU64 + x.length) % 18446744073709551616
  { s with lengthOverflowsU64 := decide (newLmu < s.lengthModuloU64) || s.lengthOverflowsU64,
           lengthModuloU64 := newLmu }

theorem sha_update_eq (s : ShaHasher) (x : List UInt8) :
    s.update x =
      if (s.pre x).bufLen != 0 then
        if x.length < 64 - (s.pre x).bufLen then
          { s.pre x with bufData := writeAt (s.pre x).bufData (s.pre x).bufLen x, bufLen := (s.pre x).bufLen + x.length }
        else
          (({ s.pre x with bufData := writeAt (s.pre x).bufData (s.pre x).bufLen (x.take (64 - (s.pre x).bufLen)), bufLen := 0 } : ShaHasher).up
            (writeAt (s.pre x).bufData (s.pre x).bufLen (x.take (64 - (s.pre x).bufLen)))).up (x.drop (64 - (s.pre x).bufLen))
      else (s.pre x).up x := rfl

theorem sha_pre_fields (s : ShaHasher) (x : List UInt8) :
    (s.pre x).bufLen = s.bufLen ∧ (s.pre x).bufData = s.bufData ∧
    (s.pre x).h = shaH0 s.lengthModuloU64 s.lengthOverflowsU64 s.h ∧
    (s.pre x).lengthModuloU64 = (s.lengthModuloU64 + x.length) % 18446744073709551616 ∧
    (s.pre x).lengthOverflowsU64 =
      (decide ((s.lengthModuloU64 + x.length) % 18446744073709551616 < s.lengthModuloU64) || s.lengthOverflowsU64) := by
  unfold ShaHasher.pre shaH0
  split <;> simp_all

/-- **Refinement**: on reachable states `update` is the abstract "absorb pending ++ x" step, and
    reachability is preserved. -/
theorem sha_update_abs (s : ShaHasher) (x : List UInt8) (hi : s.Inv) :
    (s.update x).abs = s.abs.update x ∧ (s.update x).Inv := by
  obtain ⟨pb, pd, ph, pl, po⟩ := sha_pre_fields s x
  have hb64 := hi.buf64
  have hblt := hi.buflt
  have hbl := hi.buflen
  have hlen := hi.lenlt
  rw [sha_update_eq]
  by_cases hz : s.bufLen = 0
  · -- nothing pending
    have : ((s.pre x).bufLen != 0) = false := by rw [pb, hz]; rfl
    rw [this]; simp only [Bool.false_eq_true, ↓reduceIte]
    obtain ⟨u1, u2, u3, u4, u5, u6⟩ := sha_up_abs (s.pre x) x (by rw [pd]; exact hb64)
    constructor
    · simp only [ShaHasher.abs, ShaAbs.update, u1, u2, u5, u6, ph, pl, po, hz, List.take_zero, List.nil_append]
    · exact ⟨u3, by rw [u5, pl]; exact Nat.mod_lt _ (by omega), by rw [u4, u5, pl]; omega⟩
  · have : ((s.pre x).bufLen != 0) = true := by rw [pb]; simpa using hz
    rw [this]; simp only [↓reduceIte]
    by_cases hshort : x.length < 64 - (s.pre x).bufLen
    · -- the new bytes do not fill the buffer
      simp only [hshort, ↓reduceIte]
      rw [pb] at hshort
      constructor
      · simp only [ShaHasher.abs, ShaAbs.update, pb, pd, ph, pl, po]
        rw [writeAt_take s.bufData s.bufLen x (by omega)]
        rw [shaUpBlocks_lt _ (s.bufData.take s.bufLen ++ x)
          (by simp only [List.length_append, List.length_take]; omega)]
        rfl
      · refine ⟨?_, ?_, ?_⟩
        · show (writeAt (s.pre x).bufData (s.pre x).bufLen x).length = 64
          rw [writeAt_length, pd]; exact hb64
        · show (s.pre x).lengthModuloU64 < _
          rw [pl]; exact Nat.mod_lt _ (by omega)
        · show (s.pre x).bufLen + x.length = (s.pre x).lengthModuloU64 % 64
          rw [pb, pl]; omega
    · -- the buffer fills: one block from the buffer, then the rest
      simp only [hshort, ↓reduceIte]
      rw [pb] at hshort
      rw [pb, pd]
      -- the filled buffer
      have hneed : (x.take (64 - s.bufLen)).length = 64 - s.bufLen := by
        rw [List.length_take]; omega
      have hB : writeAt s.bufData s.bufLen (x.take (64 - s.bufLen)) = s.bufData.take s.bufLen ++ x.take (64 - s.bufLen) := by
        have e64 : s.bufLen + (x.take (64 - s.bufLen)).length = 64 := by omega
        have h1 := writeAt_take s.bufData s.bufLen (x.take (64 - s.bufLen)) (by omega)
        have h2 : (writeAt s.bufData s.bufLen (x.take (64 - s.bufLen))).length = 64 := by rw [writeAt_length]; exact hb64
        rw [e64, List.take_of_length_le (by omega)] at h1
        exact h1
      have hBlen : (s.bufData.take s.bufLen ++ x.take (64 - s.bufLen)).length = 64 := by
        rw [← hB, writeAt_length]; exact hb64
      rw [hB]
      generalize hBdef : s.bufData.take s.bufLen ++ x.take (64 - s.bufLen) = B at *
      -- first `up`: exactly one block
      have hblk : shaUpBlocks (s.pre x).h B = (shaCompress (s.pre x).h B, []) := by
        rw [shaUpBlocks_ge _ B (by omega), List.take_of_length_le (by omega),
          List.drop_of_length_le (by omega), shaUpBlocks_lt _ [] (by simp)]
      obtain ⟨v1, v2, v3, v4, v5, v6⟩ :=
        sha_up_abs ({ s.pre x with bufData := B, bufLen := 0 } : ShaHasher) B hBlen
      obtain ⟨w1, w2, w3, w4, w5, w6⟩ :=
        sha_up_abs ((({ s.pre x with bufData := B, bufLen := 0 } : ShaHasher)).up B) (x.drop (64 - s.bufLen)) v3
      have habs : shaUpBlocks (s.pre x).h (s.bufData.take s.bufLen ++ x) =
          shaUpBlocks (shaCompress (s.pre x).h B) (x.drop (64 - s.bufLen)) := by
        have : s.bufData.take s.bufLen ++ x = B ++ x.drop (64 - s.bufLen) := by
          rw [← hBdef, List.append_assoc, List.take_append_drop]
        rw [this, shaUpBlocks_append', hblk]; rfl
      constructor
      · simp only [ShaHasher.abs, ShaAbs.update]
        rw [w1, w2, w5, w6, v1, v5, v6]
        simp only [hblk]
        rw [ph] at habs
        rw [pl, po, habs, ph]
        rfl
      · refine ⟨w3, ?_, ?_⟩
        · rw [w5, v5]; show (s.pre x).lengthModuloU64 < _; rw [pl]; exact Nat.mod_lt _ (by omega)
        · rw [w4, w5, v5]; show _ = (s.pre x).lengthModuloU64 % 64
          rw [pl, List.length_drop]; omega

end WuffsVerif.StdHash
