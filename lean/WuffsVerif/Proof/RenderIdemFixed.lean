/-
C12, the Wuffs formatter, idempotence, part 6: the second run over a group (comment lines, an
optional blank line, a token line) and the induction over `Gen`: every output of that shape is a
fixed point of Tokenize + Render (`gen_fixed`, `gen_render`).  Core Lean only.
-/
import WuffsVerif.Proof.RenderIdemFix

namespace WuffsVerif.Render
open WuffsVerif.FmtToken WuffsVerif.Gen.C12

theorem optBlank_length (b : Bool) : (optBlank b).length = if b then 1 else 0 := by cases b <;> rfl

theorem optBlank_outComment (b : Bool) (i : Nat) : (((optBlank b)[i]?).map Piece.outComment).getD [] = [] := by
  cases b with
  | false => simp [optBlank]
  | true =>
    cases i with
    | zero => simp [optBlank, Piece.outComment]
    | succ i => simp [optBlank]

/-- the second run over comment lines, an optional blank line and a token line -/
theorem run2_group (C : Array Bytes) (first b : Bool) (cs rest : List Piece) (lt semis : List Tok) (com : Bytes)
    (L : Layout) (i' l f : Nat) (s : RSt)
    (hrun : CRun (4 * ((s.indent : Int) + if s.prevLineHanging then 2 else 0)).toNat first cs)
    (hb : first = true → cs = [] → b = false)
    (hlt : lt ≠ [])
    (hL : L = lineLayout s.indent s.prevLineHanging s.inStruct
      (if (b || !cs.isEmpty) then 0 else s.varNameLength) lt (measureVP lt rest))
    (hind : lineIndent s.indent (lt.drop L.c) = some i')
    (hok : ∀ p ∈ cs ++ optBlank b ++ layoutPiece L lt com semis :: rest, p.ok ∧ p.ok2 ∧ p.ok3 ∧ p.numOK)
    (hcl : s.commentLine ≤ l) (hempty : ∀ i, s.commentLine ≤ i → i < l → getC C i = [])
    (hfirst : first = true → l ≤ s.prevLine + 1) (hnfirst : first = false → s.prevLine + 1 = l)
    (hC : ∀ i, l ≤ i → getC C i =
      (((cs ++ optBlank b ++ layoutPiece L lt com semis :: rest)[i - l]?).map Piece.outComment).getD []) :
    renderLoop C (f + 1) s (piecesOut l (cs ++ optBlank b ++ layoutPiece L lt com semis :: rest)) =
      renderLoop C f
        ⟨s.out ++ piecesBytes (cs ++ optBlank b ++ [layoutPiece L lt com semis]), i',
          l + (cs ++ optBlank b).length + 1, L.inStruct, L.vnl, l + (cs ++ optBlank b).length,
          nextHanging (endsStatement (lt.drop L.c)) (lt.drop L.c)⟩
        (piecesOut (l + (cs ++ optBlank b).length + 1) rest) := by
  have hXN : NoToks (cs ++ optBlank b) := by
    intro p hp
    rcases List.mem_append.mp hp with hp | hp
    · exact crun_noToks hrun p hp
    · exact optBlank_noToks b p hp
  have hn : (cs ++ optBlank b).length = cs.length + (if b then 1 else 0) := by
    rw [List.length_append, optBlank_length]
  generalize hlP : l + (cs ++ optBlank b).length = lP
  have hPall := hok (layoutPiece L lt com semis) (by simp)
  obtain ⟨hPok, hPok2, hPok3, hPnum⟩ := hPall
  have hpo : piecesOut l (cs ++ optBlank b ++ layoutPiece L lt com semis :: rest) =
      (layoutPiece L lt com semis).out lP ++ piecesOut (lP + 1) rest := by
    rw [piecesOut_append, piecesOut_noToks _ _ hXN, List.nil_append, piecesOut, hlP]
  have hstrip : stripSemicolons ((layoutPiece L lt com semis).out lP) =
      (outLine lP (lt.take L.c) (lt.drop L.c), endsStatement (lt.drop L.c)) :=
    strip_out lP _ _ _ _ com semis hPok hPok2
  have hne := out_ne_nil hPok rfl lP
  cases hq : (layoutPiece L lt com semis).out lP with
  | nil => exact absurd hq hne
  | cons t0 tl =>
    have hlines : ∀ t ∈ t0 :: tl, t.line = lP := by rw [← hq]; exact out_lines _ lP
    have ht0 : t0.line = lP := hlines t0 (by simp)
    have htd := takeWhile_dropWhile_append_stop (fun x : Tok => x.line == t0.line) tl (piecesOut (lP + 1) rest)
      (fun x hx => by simp [hlines x (by simp [hx]), ht0])
      (fun x hx => by
        have hm : x ∈ piecesOut (lP + 1) rest := by
          cases hr : piecesOut (lP + 1) rest with
          | nil => rw [hr] at hx; simp at hx
          | cons a as => rw [hr] at hx; simp at hx; subst hx; simp
        have := piecesOut_lines rest (lP + 1) x hm
        simp only [beq_eq_false_iff_ne, ne_eq]
        omega)
    rw [hpo, hq, List.cons_append, renderLoop_step, htd.1, htd.2, ← hq, hstrip, ht0]
    simp only []
    -- the comment lines before
    have hCcs : ∀ i, l ≤ i → i < lP → getC C i = ((cs[i - l]?).map Piece.outComment).getD [] := by
      intro i h1 h2
      rw [hC i h1, List.append_assoc]
      by_cases hi : i - l < cs.length
      · rw [List.getElem?_append_left hi]
      · rw [List.getElem?_append_right (by omega)]
        have hnone : cs[i - l]? = none := by rw [List.getElem?_eq_none_iff]; omega
        rw [hnone]
        have hb1 : i - l - cs.length < (optBlank b).length := by rw [optBlank_length]; omega
        rw [List.getElem?_append_left hb1]
        exact optBlank_outComment b _
    rw [flush_crun C _ _ rfl lP first cs hrun (fun p hp => (hok p (by simp [hp])).1) l _ s hcl hempty hfirst hnfirst
      hCcs (by omega) (by omega)]
    -- the blank-line decision of the second run
    have hdec : decide ((if cs.isEmpty then s.prevLine else l + cs.length - 1) < lP - 1) = b := by
      cases hce : cs.isEmpty with
      | true =>
        have hcs : cs = [] := by simpa using hce
        subst hcs
        simp only [↓reduceIte, List.length_nil, Nat.zero_add] at hn ⊢
        cases hfb : first with
        | true =>
          have hbf := hb hfb rfl
          have := hfirst hfb
          subst hbf
          simp only [Bool.false_eq_true, ↓reduceIte] at hn
          simp only [decide_eq_false_iff_not, Nat.not_lt]
          omega
        | false =>
          have := hnfirst hfb
          cases b with
          | true => simp only [↓reduceIte] at hn; simp only [decide_eq_true_eq]; omega
          | false =>
            simp only [Bool.false_eq_true, ↓reduceIte] at hn
            simp only [decide_eq_false_iff_not, Nat.not_lt]
            omega
      | false =>
        have hcl1 : 1 ≤ cs.length := by
          cases cs with
          | nil => simp at hce
          | cons a as => simp
        simp only [Bool.false_eq_true, ↓reduceIte]
        cases b with
        | true => simp only [↓reduceIte] at hn; simp only [decide_eq_true_eq]; omega
        | false =>
          simp only [Bool.false_eq_true, ↓reduceIte] at hn
          simp only [decide_eq_false_iff_not, Nat.not_lt]
          omega
    have hvnl : (if decide ((if cs.isEmpty then s.prevLine else l + cs.length - 1) < lP - 1) = true then 0
        else (if cs.isEmpty then s.varNameLength else 0)) =
        (if (b || !cs.isEmpty) = true then 0 else s.varNameLength) := by
      rw [hdec]
      cases b <;> cases cs.isEmpty <;> rfl
    have hCP : getC C lP = (layoutPiece L lt com semis).outComment := by
      rw [hC lP (by omega)]
      have : lP - l = (cs ++ optBlank b).length := by omega
      rw [this, List.getElem?_append_right (Nat.le_refl _)]
      simp
    have key := run2_line C f lP
      ⟨s.out ++ piecesBytes cs, s.indent, lP, s.inStruct, if cs.isEmpty then s.varNameLength else 0,
        if cs.isEmpty then s.prevLine else l + cs.length - 1, s.prevLineHanging⟩
      lt semis com L rest i' ⟨hPok, hPok2, hPok3, hPnum⟩
      (fun p hp => by
        have := hok p (by simp [hp])
        exact ⟨this.1, this.2.2.1, this.2.2.2⟩)
      hlt (by simp only; rw [hvnl]; exact hL) hind hCP
    rw [key]
    simp only [hdec]
    congr 1
    rw [piecesBytes_append, piecesBytes_append]
    cases b <;> simp [optBlank, piecesBytes, Piece.bytes, List.append_assoc]

/-- Every output of the shape `Gen` is a fixed point: the second run's line loop and trailing
comments, on what `Tokenize` reads from the pieces (tokens `piecesOut l ps`, comments `C`),
write the pieces again. -/
theorem gen_fixed (C : Array Bytes) : ∀ (σ : ASt) (first : Bool) (ps : List Piece), Gen σ first ps →
    (∀ p ∈ ps, p.ok ∧ p.ok2 ∧ p.ok3 ∧ p.numOK) →
    ∀ (l f : Nat) (s : RSt), absOf s = σ → s.commentLine ≤ l →
      (∀ i, s.commentLine ≤ i → i < l → getC C i = []) →
      (first = true → l ≤ s.prevLine + 1) → (first = false → s.prevLine + 1 = l) →
      (∀ i, l ≤ i → getC C i = ((ps[i - l]?).map Piece.outComment).getD []) →
      (piecesOut l ps).length < f →
      ∃ s', renderLoop C f s (piecesOut l ps) = some s' ∧
        (trailingComments C (C.size + 1) s').out = s.out ++ piecesBytes ps := by
  intro σ first ps hgen
  induction hgen with
  | trailing σ first cs hrun =>
    intro hok l f s hσ hcl hempty hfirst hnfirst hC hf
    rw [piecesOut_noToks cs l (crun_noToks hrun)] at hf ⊢
    obtain ⟨f', rfl⟩ : ∃ f', f = f' + 1 := ⟨f - 1, by simp at hf; omega⟩
    refine ⟨s, by rw [renderLoop], ?_⟩
    have hk : (4 * (σ.indent : Int)).toNat = (4 * (s.indent : Int)).toNat := by rw [← hσ]; rfl
    exact trailing_crun C _ first cs hrun (fun p hp => (hok p hp).1) l _ s hk hcl hempty hfirst hnfirst hC (by omega)
  | line σ first b cs rest lt semis com L i' hrun hb hlt hL hind _ ih =>
    intro hok l f s hσ hcl hempty hfirst hnfirst hC hf
    subst hσ
    have hPok := (hok (layoutPiece L lt com semis) (by simp)).1
    have hXN : NoToks (cs ++ optBlank b) := by
      intro p hp
      rcases List.mem_append.mp hp with hp | hp
      · exact crun_noToks hrun p hp
      · exact optBlank_noToks b p hp
    have hpo : piecesOut l (cs ++ optBlank b ++ layoutPiece L lt com semis :: rest) =
        (layoutPiece L lt com semis).out (l + (cs ++ optBlank b).length) ++
          piecesOut (l + (cs ++ optBlank b).length + 1) rest := by
      rw [piecesOut_append, piecesOut_noToks _ _ hXN, List.nil_append, piecesOut]
    have hne := out_ne_nil hPok rfl (l + (cs ++ optBlank b).length)
    have hlen1 : 1 ≤ ((layoutPiece L lt com semis).out (l + (cs ++ optBlank b).length)).length := by
      cases hq : (layoutPiece L lt com semis).out (l + (cs ++ optBlank b).length) with
      | nil => exact absurd hq hne
      | cons a as => simp
    obtain ⟨f', rfl⟩ : ∃ f', f = f' + 1 := ⟨f - 1, by omega⟩
    rw [run2_group C first b cs rest lt semis com L i' l f' s hrun hb hlt hL hind hok hcl hempty hfirst hnfirst hC]
    obtain ⟨s', h1, h2⟩ := ih (fun p hp => hok p (by simp [hp])) (l + (cs ++ optBlank b).length + 1) f'
      ⟨s.out ++ piecesBytes (cs ++ optBlank b ++ [layoutPiece L lt com semis]), i',
          l + (cs ++ optBlank b).length + 1, L.inStruct, L.vnl, l + (cs ++ optBlank b).length,
          nextHanging (endsStatement (lt.drop L.c)) (lt.drop L.c)⟩ rfl
      (by simp only; omega) (fun i h1 h2 => by simp only at h1; omega) (fun h => absurd h (by simp))
      (fun _ => rfl)
      (fun i hi => by
        rw [hC i (by omega)]
        have hidx : i - l = (cs ++ optBlank b).length + ((i - (l + (cs ++ optBlank b).length + 1)) + 1) := by omega
        rw [hidx, List.getElem?_append_right (by omega)]
        simp)
      (by
        rw [hpo, List.length_append] at hf
        omega)
    refine ⟨s', h1, ?_⟩
    rw [h2]
    simp only
    rw [List.append_assoc s.out, ← piecesBytes_append]
    simp [List.append_assoc]

/-- Tokenize + Render on an output of the shape `Gen` (from the initial state): the same bytes. -/
theorem gen_render (ps : List Piece) (hgen : Gen ⟨0, false, 0, false⟩ true ps)
    (hok : ∀ p ∈ ps, p.ok ∧ p.ok2 ∧ p.ok3 ∧ p.numOK) :
    render (piecesOut 1 ps) (piecesC #[] 1 ps) = some (piecesBytes ps) := by
  have hget := getC_piecesC ps #[] 1 (by simp)
  have hC : ∀ i, 1 ≤ i → getC (piecesC #[] 1 ps) i = ((ps[i - 1]?).map Piece.outComment).getD [] := by
    intro i hi
    rw [hget i]
    have : ¬ i < 1 := by omega
    simp only [this, ↓reduceIte]
  have h0 : ∀ i, 0 ≤ i → i < 1 → getC (piecesC #[] 1 ps) i = [] := by
    intro i _ hi
    rw [hget i]
    simp [hi, getC]
  have hfix : ∀ pl : Nat, ∃ s', renderLoop (piecesC #[] 1 ps) ((piecesOut 1 ps).length + 1)
        ⟨[], 0, 0, false, 0, pl, false⟩ (piecesOut 1 ps) = some s' ∧
      (trailingComments (piecesC #[] 1 ps) ((piecesC #[] 1 ps).size + 1) s').out = piecesBytes ps := by
    intro pl
    obtain ⟨s', h1, h2⟩ := gen_fixed (piecesC #[] 1 ps) _ true ps hgen hok 1 ((piecesOut 1 ps).length + 1)
      ⟨[], 0, 0, false, 0, pl, false⟩
      rfl (Nat.zero_le _) h0 (fun _ => by simp only; omega) (fun h => absurd h (by simp)) hC (Nat.lt_succ_self _)
    exact ⟨s', h1, by simpa using h2⟩
  unfold render
  split
  · rename_i he
    simp only [Bool.and_eq_true, List.isEmpty_iff, Array.isEmpty_iff] at he
    obtain ⟨s', h1, h2⟩ := hfix 0
    rw [he.1] at h1
    rw [renderLoop] at h1
    have h1' := Option.some.inj h1
    rw [← h1', he.2] at h2
    rw [← h2]
    rfl
  · simp only
    cases hps : piecesOut 1 ps with
    | nil =>
      simp only
      obtain ⟨s', h1, h2⟩ := hfix (piecesC #[] 1 ps).size
      rw [hps] at h1
      simp only [List.length_nil] at h1 ⊢
      rw [h1]
      simp only [h2]
    | cons t r =>
      simp only
      obtain ⟨s', h1, h2⟩ := hfix (t.line - 1)
      rw [hps] at h1
      rw [h1]
      simp only [h2]

end WuffsVerif.Render
