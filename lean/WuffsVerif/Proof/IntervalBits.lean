/-
C06: correctness of the maximal-element bit-fill algorithms `orMax` / `andMax`
(lib/interval/interval.go) on sign-uniform boxes (all four bounds non-negative, or all
negative — the two ways the code calls them): the result is an upper bound of
`x | y` (resp. `x & y`) over the box, and it is attained.
-/
import WuffsVerif.Proof.IntBits

namespace WuffsVerif.Interval

/-- bit `n` of `a` is set -/
abbrev B (a : Int) (n : Nat) : Prop := a.testBit n = true

theorem B_iand {a b : Int} {n : Nat} : B (iand a b) n ↔ B a n ∧ B b n := by simp [B]
theorem B_ior {a b : Int} {n : Nat} : B (ior a b) n ↔ B a n ∨ B b n := by simp [B]
theorem B_iandNot {a b : Int} {n : Nat} : B (iandNot a b) n ↔ B a n ∧ ¬ B b n := by simp [B]
theorem B_inot {a : Int} {n : Nat} : B (inot a) n ↔ ¬ B a n := by simp [B]
theorem B_shr1 {a : Int} {n : Nat} : B (a >>> (1 : Nat)) n ↔ B a (n + 1) := by simp [B]
theorem B_bfr {a : Int} (h : 0 ≤ a) {n : Nat} : B (bitFillRight a) n ↔ ∃ m, n ≤ m ∧ B a m :=
  tb_bitFillRight h n

theorem notB {a : Int} {n : Nat} : ¬ B a n ↔ a.testBit n = false := by simp [B]

/-- `a` and `b` agree on all bits above `q`, where `a` has 0 and `b` has 1 -/
def Drop (a b : Int) (q : Nat) : Prop :=
  ¬ B a q ∧ B b q ∧ ∀ j, q < j → (B a j ↔ B b j)

/-- there is a bit at or above `q` that is set in `hi` and clear in `lo` -/
def Room (lo hi : Int) (q : Nat) : Prop := ∃ k, q ≤ k ∧ B hi k ∧ ¬ B lo k

theorem agree_iff {a b : Int} {j : Nat} : (B a j ↔ B b j) ↔ a.testBit j = b.testBit j := by
  simp only [B]
  cases a.testBit j <;> cases b.testBit j <;> simp

theorem drop_lt {a b : Int} {q : Nat} (h : Drop a b q) : a < b :=
  int_lt_of_testBit q (notB.1 h.1) h.2.1 (fun j hj => agree_iff.1 (h.2.2 j hj))

theorem drop_sameSign {a b : Int} {q : Nat} (h : Drop a b q) : (a < 0 ↔ b < 0) :=
  sameSign_of_agree (i := q) (fun j hj => agree_iff.1 (h.2.2 j hj))

theorem eq_or_drop {a b : Int} (hle : a ≤ b) (hs : a < 0 ↔ b < 0) : a = b ∨ ∃ q, Drop a b q := by
  by_cases h : a = b
  · exact Or.inl h
  · obtain ⟨q, h1, h2, h3⟩ := drop_of_lt (by omega : a < b) hs
    exact Or.inr ⟨q, notB.2 h1, h2, fun j hj => agree_iff.2 (h3 j hj)⟩

theorem drop_above' {a b : Int} (hle : a ≤ b) (hs : a < 0 ↔ b < 0) {p : Nat}
    (ha : B a p) (hb : ¬ B b p) : ∃ q, p < q ∧ Drop a b q := by
  obtain ⟨q, hpq, h1, h2, h3⟩ := drop_above hle hs ha (notB.1 hb)
  exact ⟨q, hpq, notB.2 h1, h2, fun j hj => agree_iff.2 (h3 j hj)⟩

/-- if `x ∈ [lo, hi]` drops from `hi` at `q`, then `hi` has room at or above `q` -/
theorem room_of_drop {lo hi x : Int} {q : Nat} (hlo : lo ≤ x) (hs : lo < 0 ↔ x < 0)
    (hd : Drop x hi q) : Room lo hi q := by
  by_contra hno
  have hall : ∀ k, q ≤ k → B hi k → B lo k := by
    intro k hk hb
    by_contra hl
    exact hno ⟨k, hk, hb, hl⟩
  have : x < lo := by
    apply lt_of_tb_subset_above q
    · intro n hn hxn
      rcases Nat.lt_or_eq_of_le hn with h | h
      · exact hall n hn ((hd.2.2 n h).1 hxn)
      · subst h; exact absurd hxn hd.1
    · exact notB.1 hd.1
    · exact hall q (Nat.le_refl q) hd.2.1
    · omega
  omega

/-! ### low masks and maximal elements -/

theorem exists_lowmask (q : Nat) : ∃ F : Int, 0 ≤ F ∧ ∀ n, B F n ↔ n ≤ q := by
  refine ⟨Int.ofNat (2 ^ (q + 1) - 1), by simp only [Int.ofNat_eq_natCast]; omega, fun n => ?_⟩
  simp only [B, Int.testBit, Nat.testBit_two_pow_sub_one, decide_eq_true_eq]
  omega

/-- bits of `(F >> 1) | (hi &^ F)` for a low mask `F` = bits `≤ q`: the maximal element of
`[lo, hi]` obtained by clearing bit `q` of `hi` and setting everything below -/
theorem maxElem_bits {hi F : Int} {q : Nat} (hF : ∀ n, B F n ↔ n ≤ q) (n : Nat) :
    B (ior (F >>> (1 : Nat)) (iandNot hi F)) n ↔ (n < q ∨ (q < n ∧ B hi n)) := by
  rw [B_ior, B_shr1, B_iandNot, hF, hF]
  constructor
  · rintro (h | ⟨h1, h2⟩)
    · exact Or.inl (by omega)
    · exact Or.inr ⟨by omega, h1⟩
  · rintro (h | ⟨h1, h2⟩)
    · exact Or.inl (by omega)
    · exact Or.inr ⟨h2, by omega⟩

/-- an element with those bits lies in `[lo, hi]` when `hi` has bit `q` and room at or above -/
theorem maxElem_mem {lo hi x' : Int} {q : Nat} (hle : lo ≤ hi) (hs : lo < 0 ↔ hi < 0)
    (hq : B hi q) (room : Room lo hi q)
    (hx' : ∀ n, B x' n ↔ (n < q ∨ (q < n ∧ B hi n))) : lo ≤ x' ∧ x' ≤ hi := by
  have hd : Drop x' hi q := by
    refine ⟨?_, hq, fun j hj => ?_⟩
    · rw [hx']; omega
    · rw [hx']; constructor
      · rintro (h | ⟨_, h⟩); omega; exact h
      · intro h; exact Or.inr ⟨hj, h⟩
  have hlt := drop_lt hd
  have hsx := drop_sameSign hd
  refine ⟨?_, by omega⟩
  obtain ⟨k, hk, hkh, hkl⟩ := room
  have hne : lo ≠ hi := by intro h; rw [h] at hkl; exact hkl hkh
  obtain ⟨r, hr1, hr2, hr3⟩ := drop_of_lt (by omega : lo < hi) hs
  have hkr : k ≤ r := by
    by_contra hlt'
    have := hr3 k (by omega)
    exact hkl (by rw [B, this]; exact hkh)
  rcases Nat.lt_or_eq_of_le (Nat.le_trans hk hkr) with hqr | hqr
  · -- r above q: lo < x' at bit r
    have : lo < x' := by
      apply int_lt_of_testBit r hr1
      · exact (hx' r).2 (Or.inr ⟨hqr, hr2⟩)
      · intro j hj
        rw [hr3 j hj]
        exact (agree_iff.1 (hd.2.2 j (by omega))).symm
    omega
  · -- r = q: lo ⊆ x' bitwise
    subst hqr
    apply le_of_tb_subset
    · intro n hn
      rw [← B, hx']
      rcases Nat.lt_trichotomy n q with h | h | h
      · exact Or.inl h
      · subst h; rw [hr1] at hn; cases hn
      · refine Or.inr ⟨h, ?_⟩
        rw [B, ← hr3 n h]; exact hn
    · omega

theorem exists_maxElem {lo hi : Int} {q : Nat} (hle : lo ≤ hi) (hs : lo < 0 ↔ hi < 0)
    (hq : B hi q) (room : Room lo hi q) :
    ∃ x', lo ≤ x' ∧ x' ≤ hi ∧ ∀ n, B x' n ↔ (n < q ∨ (q < n ∧ B hi n)) := by
  obtain ⟨F, _, hF⟩ := exists_lowmask q
  refine ⟨ior (F >>> (1 : Nat)) (iandNot hi F), ?_, ?_, maxElem_bits hF⟩
  · exact (maxElem_mem hle hs hq room (maxElem_bits hF)).1
  · exact (maxElem_mem hle hs hq room (maxElem_bits hF)).2

/-- a non-negative integer is 0 or has a most significant set bit -/
theorem zero_or_msb {a : Int} (h : 0 ≤ a) :
    (∀ n, ¬ B a n) ∨ ∃ t, B a t ∧ ∀ j, t < j → ¬ B a j := by
  cases a with
  | negSucc m => omega
  | ofNat m =>
    by_cases hm : m = 0
    · left; intro n; subst hm; simp [B, Int.testBit]
    · right
      obtain ⟨i, hi, hj⟩ := Nat.exists_most_significant_bit hm
      exact ⟨i, hi, fun j hij => by simp [B, Int.testBit, hj j hij]⟩

theorem iand_comm' (a b : Int) : iand a b = iand b a := by
  apply int_eq_of_testBit_eq; intro n; simp [Bool.and_comm]

theorem ior_comm' (a b : Int) : ior a b = ior b a := by
  apply int_eq_of_testBit_eq; intro n; simp [Bool.or_comm]

theorem eq_of_B {a b : Int} (h : ∀ n, B a n ↔ B b n) : a = b :=
  int_eq_of_testBit_eq (fun n => agree_iff.1 (h n))

/-! ### `orMax` -/

/-- the part of the `orMax` upper-bound argument for one operand: if `x` has a bit at `p` that
`xh` lacks, and `x | y` covers `xh | yh` above `p`, then above `p` there is a bit common to
`xh` and `yh` with room in one of the two ranges. -/
theorem or_side {xl xh x yl yh y : Int} {p : Nat}
    (hx1 : xl ≤ x) (hx2 : x ≤ xh) (hy1 : yl ≤ y) (hy2 : y ≤ yh)
    (sx : xl < 0 ↔ xh < 0) (sy : yl < 0 ↔ yh < 0)
    (hxp : B x p) (hxhp : ¬ B xh p)
    (agree : ∀ j, p < j → (B xh j ∨ B yh j) → (B x j ∨ B y j)) :
    ∃ m, p < m ∧ B xh m ∧ B yh m ∧ (Room xl xh m ∨ Room yl yh m) := by
  obtain ⟨q, hpq, hd⟩ := drop_above' hx2 (by omega) hxp hxhp
  have rq := room_of_drop hx1 (by omega) hd
  have hyq : B y q := by
    rcases agree q hpq (Or.inl hd.2.1) with h | h
    · exact absurd h hd.1
    · exact h
  by_cases hyhq : B yh q
  · exact ⟨q, hpq, hd.2.1, hyhq, Or.inl rq⟩
  · obtain ⟨q', hqq', hd'⟩ := drop_above' hy2 (by omega) hyq hyhq
    have rq' := room_of_drop hy1 (by omega) hd'
    have hxq' : B x q' := by
      rcases agree q' (by omega) (Or.inr hd'.2.1) with h | h
      · exact h
      · exact absurd h hd'.1
    exact ⟨q', by omega, (hd.2.2 q' hqq').1 hxq', hd'.2.1, Or.inr rq'⟩

/-- core of `orMax`'s upper bound, for any `J ≥ 0` whose bit `n` is set as soon as some
"available" bit above `n` exists -/
theorem or_core_ub {xl xh x yl yh y J : Int}
    (hx1 : xl ≤ x) (hx2 : x ≤ xh) (hy1 : yl ≤ y) (hy2 : y ≤ yh)
    (sx : xl < 0 ↔ xh < 0) (sxy : xh < 0 ↔ yh < 0) (sy : yl < 0 ↔ yh < 0) (hJ0 : 0 ≤ J)
    (hJ : ∀ n m, n < m → B xh m → B yh m → (Room xl xh m ∨ Room yl yh m) → B J n) :
    ior x y ≤ ior (ior J xh) yh := by
  by_contra hcon
  have hlt : ior (ior J xh) yh < ior x y := by omega
  have hs : ior (ior J xh) yh < 0 ↔ ior x y < 0 := by
    rw [ior_neg_iff, ior_neg_iff, ior_neg_iff]; omega
  obtain ⟨p, hRp, hvp, hag⟩ := drop_of_lt hlt hs
  have hRp' : ¬ B (ior (ior J xh) yh) p := notB.2 hRp
  rw [B_ior, B_ior] at hRp'
  have hJp : ¬ B J p := fun h => hRp' (Or.inl (Or.inl h))
  have hxhp : ¬ B xh p := fun h => hRp' (Or.inl (Or.inr h))
  have hyhp : ¬ B yh p := fun h => hRp' (Or.inr h)
  have agree : ∀ j, p < j → (B xh j ∨ B yh j) → (B x j ∨ B y j) := by
    intro j hj h
    have := agree_iff.2 (hag j hj)
    rw [B_ior, B_ior, B_ior] at this
    exact this.1 (by rcases h with h | h; exact Or.inl (Or.inr h); exact Or.inr h)
  have hv : B x p ∨ B y p := by
    have : B (ior x y) p := hvp
    rwa [B_ior] at this
  rcases hv with hxp | hyp
  · obtain ⟨m, hpm, h1, h2, h3⟩ := or_side hx1 hx2 hy1 hy2 sx sy hxp hxhp agree
    exact hJp (hJ p m hpm h1 h2 h3)
  · obtain ⟨m, hpm, h1, h2, h3⟩ := or_side hy1 hy2 hx1 hx2 sy sx hyp hyhp
      (fun j hj h => (agree j hj h.symm).symm)
    exact hJp (hJ p m hpm h2 h1 h3.symm)

/-- core of `orMax`'s attainment: `J` = the bits strictly below the top "available" bit -/
theorem or_core_att {xl xh yl yh J : Int} (hxle : xl ≤ xh) (hyle : yl ≤ yh)
    (sx : xl < 0 ↔ xh < 0) (sy : yl < 0 ↔ yh < 0)
    (A : Nat → Prop)
    (hA : ∀ m, A m → B xh m ∧ B yh m ∧ (Room xl xh m ∨ Room yl yh m))
    (htop : (∀ m, ¬ A m) ∨ ∃ t, A t ∧ ∀ j, t < j → ¬ A j)
    (hJ : ∀ n, B J n ↔ ∃ m, n < m ∧ A m) :
    ∃ x y, xl ≤ x ∧ x ≤ xh ∧ yl ≤ y ∧ y ≤ yh ∧ ior x y = ior (ior J xh) yh := by
  rcases htop with hnone | ⟨t, hAt, htop⟩
  · refine ⟨xh, yh, hxle, Int.le_refl _, hyle, Int.le_refl _, ?_⟩
    apply eq_of_B; intro n
    rw [B_ior, B_ior, B_ior, hJ]
    constructor
    · rintro (h | h); exact Or.inl (Or.inr h); exact Or.inr h
    · rintro ((⟨m, _, hm⟩ | h) | h)
      · exact absurd hm (hnone m)
      · exact Or.inl h
      · exact Or.inr h
  · have hJt : ∀ n, B J n ↔ n < t := by
      intro n; rw [hJ]
      constructor
      · rintro ⟨m, hnm, hm⟩
        by_contra hlt
        exact htop m (by omega) hm
      · intro h; exact ⟨t, h, hAt⟩
    obtain ⟨hxt, hyt, hroom⟩ := hA t hAt
    rcases hroom with hroom | hroom
    · obtain ⟨x', h1, h2, hb⟩ := exists_maxElem hxle sx hxt hroom
      refine ⟨x', yh, h1, h2, hyle, Int.le_refl _, ?_⟩
      apply eq_of_B; intro n
      rw [B_ior, B_ior, B_ior, hJt, hb]
      constructor
      · rintro ((h | ⟨_, h⟩) | h)
        · exact Or.inl (Or.inl h)
        · exact Or.inl (Or.inr h)
        · exact Or.inr h
      · rintro ((h | h) | h)
        · exact Or.inl (Or.inl h)
        · rcases Nat.lt_trichotomy n t with h' | h' | h'
          · exact Or.inl (Or.inl h')
          · subst h'; exact Or.inr hyt
          · exact Or.inl (Or.inr ⟨h', h⟩)
        · exact Or.inr h
    · obtain ⟨y', h1, h2, hb⟩ := exists_maxElem hyle sy hyt hroom
      refine ⟨xh, y', hxle, Int.le_refl _, h1, h2, ?_⟩
      apply eq_of_B; intro n
      rw [B_ior, B_ior, B_ior, hJt, hb]
      constructor
      · rintro (h | (h | ⟨_, h⟩))
        · exact Or.inl (Or.inr h)
        · exact Or.inl (Or.inl h)
        · exact Or.inr h
      · rintro ((h | h) | h)
        · exact Or.inr (Or.inl h)
        · exact Or.inl h
        · rcases Nat.lt_trichotomy n t with h' | h' | h'
          · exact Or.inr (Or.inl h')
          · subst h'; exact Or.inl hxt
          · exact Or.inr (Or.inr ⟨h', h⟩)

section orMaxSec
variable {xl xh yl yh : Int}

/-- "droppable" of `orMax` is non-negative on sign-uniform boxes, with these bits -/
theorem orDrop_nonneg (sx : xl < 0 ↔ xh < 0) (sy : yl < 0 ↔ yh < 0) :
    0 ≤ ior (iandNot yh yl) (iandNot xh xl) := by
  have := ior_neg_iff (iandNot yh yl) (iandNot xh xl)
  rw [iandNot_neg_iff, iandNot_neg_iff] at this
  omega

theorem orAvail_bits (sx : xl < 0 ↔ xh < 0) (sy : yl < 0 ↔ yh < 0) (m : Nat) :
    B (iand (iand (bitFillRight (ior (iandNot yh yl) (iandNot xh xl))) xh) yh) m ↔
      B xh m ∧ B yh m ∧ (Room xl xh m ∨ Room yl yh m) := by
  rw [B_iand, B_iand, B_bfr (orDrop_nonneg sx sy)]
  constructor
  · rintro ⟨⟨⟨k, hk, hb⟩, h1⟩, h2⟩
    refine ⟨h1, h2, ?_⟩
    rw [B_ior, B_iandNot, B_iandNot] at hb
    rcases hb with ⟨a, b⟩ | ⟨a, b⟩
    · exact Or.inr ⟨k, hk, a, b⟩
    · exact Or.inl ⟨k, hk, a, b⟩
  · rintro ⟨h1, h2, h3⟩
    refine ⟨⟨?_, h1⟩, h2⟩
    rcases h3 with ⟨k, hk, a, b⟩ | ⟨k, hk, a, b⟩
    · exact ⟨k, hk, by rw [B_ior, B_iandNot, B_iandNot]; exact Or.inr ⟨a, b⟩⟩
    · exact ⟨k, hk, by rw [B_ior, B_iandNot, B_iandNot]; exact Or.inl ⟨a, b⟩⟩

theorem orAvail_nonneg (sx : xl < 0 ↔ xh < 0) (sy : yl < 0 ↔ yh < 0) :
    0 ≤ iand (iand (bitFillRight (ior (iandNot yh yl) (iandNot xh xl))) xh) yh := by
  have h0 := bitFillRight_nonneg (orDrop_nonneg (xl := xl) (xh := xh) (yl := yl) (yh := yh) sx sy)
  have h1 := iand_neg_iff (bitFillRight (ior (iandNot yh yl) (iandNot xh xl))) xh
  have h2 := iand_neg_iff (iand (bitFillRight (ior (iandNot yh yl) (iandNot xh xl))) xh) yh
  omega

theorem room_zero {hi : Int} {m : Nat} (h : B hi m) : Room 0 hi m :=
  ⟨m, Nat.le_refl m, h, by simp [B, Int.testBit]⟩

/-- `orMax` is an upper bound of `x | y` on a sign-uniform box. -/
theorem orMax_ub {x y : Int} (hx1 : xl ≤ x) (hx2 : x ≤ xh) (hy1 : yl ≤ y) (hy2 : y ≤ yh)
    (sx : xl < 0 ↔ xh < 0) (sxy : xh < 0 ↔ yh < 0) (sy : yl < 0 ↔ yh < 0) :
    ior x y ≤ orMax xl xh yl yh := by
  unfold orMax
  split
  · rename_i h0
    simp only [Bool.and_eq_true, decide_eq_true_eq] at h0
    obtain ⟨rfl, rfl⟩ := h0
    have hnn : 0 ≤ iand xh yh := by have := iand_neg_iff xh yh; omega
    apply or_core_ub hx1 hx2 hy1 hy2 sx sxy sy
    · have := shr1_neg_iff (bitFillRight (iand xh yh))
      have := bitFillRight_nonneg hnn
      omega
    · intro n m hnm h1 h2 _
      rw [B_shr1, B_bfr hnn]
      exact ⟨m, by omega, B_iand.2 ⟨h1, h2⟩⟩
  · simp only []
    apply or_core_ub hx1 hx2 hy1 hy2 sx sxy sy
    · have := shr1_neg_iff (bitFillRight
        (iand (iand (bitFillRight (ior (iandNot yh yl) (iandNot xh xl))) xh) yh))
      have := bitFillRight_nonneg (orAvail_nonneg (xl := xl) (xh := xh) (yl := yl) (yh := yh) sx sy)
      omega
    · intro n m hnm h1 h2 h3
      rw [B_shr1, B_bfr (orAvail_nonneg sx sy)]
      exact ⟨m, by omega, (orAvail_bits sx sy m).2 ⟨h1, h2, h3⟩⟩

/-- `orMax` is attained on a non-empty sign-uniform box. -/
theorem orMax_att (hxle : xl ≤ xh) (hyle : yl ≤ yh)
    (sx : xl < 0 ↔ xh < 0) (sy : yl < 0 ↔ yh < 0) :
    ∃ x y, xl ≤ x ∧ x ≤ xh ∧ yl ≤ y ∧ y ≤ yh ∧ ior x y = orMax xl xh yl yh := by
  unfold orMax
  split
  · rename_i h0
    simp only [Bool.and_eq_true, decide_eq_true_eq] at h0
    obtain ⟨rfl, rfl⟩ := h0
    have hnn : 0 ≤ iand xh yh := by have := iand_neg_iff xh yh; omega
    apply or_core_att hxle hyle sx sy (fun m => B (iand xh yh) m)
    · intro m hm
      rw [B_iand] at hm
      exact ⟨hm.1, hm.2, Or.inl (room_zero hm.1)⟩
    · exact zero_or_msb hnn
    · intro n
      rw [B_shr1, B_bfr hnn]
      constructor
      · rintro ⟨m, h1, h2⟩; exact ⟨m, by omega, h2⟩
      · rintro ⟨m, h1, h2⟩; exact ⟨m, by omega, h2⟩
  · simp only []
    apply or_core_att hxle hyle sx sy
      (fun m => B (iand (iand (bitFillRight (ior (iandNot yh yl) (iandNot xh xl))) xh) yh) m)
    · intro m hm
      exact (orAvail_bits sx sy m).1 hm
    · exact zero_or_msb (orAvail_nonneg sx sy)
    · intro n
      rw [B_shr1, B_bfr (orAvail_nonneg sx sy)]
      constructor
      · rintro ⟨m, h1, h2⟩; exact ⟨m, by omega, h2⟩
      · rintro ⟨m, h1, h2⟩; exact ⟨m, by omega, h2⟩

/-- no `bitFillRight` panic in `orMax` on sign-uniform boxes -/
theorem orMaxP_eq (sx : xl < 0 ↔ xh < 0) (sy : yl < 0 ↔ yh < 0) :
    orMaxP xl xh yl yh = some (orMax xl xh yl yh) := by
  unfold orMaxP orMax bitFillRightP
  split
  · rename_i h0
    simp only [Bool.and_eq_true, decide_eq_true_eq] at h0
    obtain ⟨rfl, rfl⟩ := h0
    have hnn : ¬ iand xh yh < 0 := by have := iand_neg_iff xh yh; omega
    simp [hnn]
  · have h1 : ¬ ior (iandNot yh yl) (iandNot xh xl) < 0 := by
      have := orDrop_nonneg (xl := xl) (xh := xh) (yl := yl) (yh := yh) sx sy; omega
    have h2 : ¬ iand (iand (bitFillRight (ior (iandNot yh yl) (iandNot xh xl))) xh) yh < 0 := by
      have := orAvail_nonneg (xl := xl) (xh := xh) (yl := yl) (yh := yh) sx sy; omega
    simp [h1, h2]

end orMaxSec

/-! ### `andMax` -/

/-- one of the two candidates of `andMax`: `yMax & maximal element of x` -/
def andSide (xl xh yh : Int) : Int :=
  let F := bitFillRight (iandNot (iand (bitFillRight (iandNot xh xl)) xh) yh)
  iand (ior (F >>> (1 : Nat)) (iandNot xh F)) yh

theorem andMax_eq (xl xh yl yh : Int) : andMax xl xh yl yh =
    if yh ≥ xl && xh ≥ yl then (if xh > yh then yh else xh)
    else if andSide xl xh yh < andSide yl yh xh then andSide yl yh xh else andSide xl xh yh := by
  unfold andMax andSide; rfl

section andSideSec
variable {xl xh yh : Int}

theorem andG_nonneg (sx : xl < 0 ↔ xh < 0) :
    0 ≤ iandNot (iand (bitFillRight (iandNot xh xl)) xh) yh := by
  have h0 : 0 ≤ iandNot xh xl := by have := iandNot_neg_iff xh xl; omega
  have h1 := bitFillRight_nonneg h0
  have h2 := iand_neg_iff (bitFillRight (iandNot xh xl)) xh
  have h3 := iandNot_neg_iff (iand (bitFillRight (iandNot xh xl)) xh) yh
  omega

theorem andG_bits (sx : xl < 0 ↔ xh < 0) (m : Nat) :
    B (iandNot (iand (bitFillRight (iandNot xh xl)) xh) yh) m ↔
      Room xl xh m ∧ B xh m ∧ ¬ B yh m := by
  have h0 : 0 ≤ iandNot xh xl := by have := iandNot_neg_iff xh xl; omega
  rw [B_iandNot, B_iand, B_bfr h0]
  constructor
  · rintro ⟨⟨⟨k, hk, hb⟩, h1⟩, h2⟩
    rw [B_iandNot] at hb
    exact ⟨⟨k, hk, hb.1, hb.2⟩, h1, h2⟩
  · rintro ⟨⟨k, hk, a, b⟩, h1, h2⟩
    exact ⟨⟨⟨k, hk, B_iandNot.2 ⟨a, b⟩⟩, h1⟩, h2⟩

/-- the "good" bits of the x side: set in `xh`, clear in `yh`, with room -/
abbrev G (xl xh yh : Int) (m : Nat) : Prop := Room xl xh m ∧ B xh m ∧ ¬ B yh m

theorem andSide_bits (sx : xl < 0 ↔ xh < 0) (n : Nat) :
    B (andSide xl xh yh) n ↔
      B yh n ∧ ((∃ m, n < m ∧ G xl xh yh m) ∨ (B xh n ∧ ¬ ∃ m, n ≤ m ∧ G xl xh yh m)) := by
  unfold andSide
  simp only []
  rw [B_iand, B_ior, B_shr1, B_iandNot, B_bfr (andG_nonneg sx), B_bfr (andG_nonneg sx)]
  simp only [andG_bits sx]
  constructor
  · rintro ⟨h | h, h'⟩
    · obtain ⟨m, hm, hg⟩ := h; exact ⟨h', Or.inl ⟨m, by omega, hg⟩⟩
    · exact ⟨h', Or.inr h⟩
  · rintro ⟨h', h | h⟩
    · obtain ⟨m, hm, hg⟩ := h; exact ⟨Or.inl ⟨m, by omega, hg⟩, h'⟩
    · exact ⟨Or.inr h, h'⟩

theorem andSide_neg_iff (sx : xl < 0 ↔ xh < 0) : andSide xl xh yh < 0 ↔ xh < 0 ∧ yh < 0 := by
  unfold andSide
  simp only []
  have h0 := bitFillRight_nonneg (andG_nonneg (xl := xl) (xh := xh) (yh := yh) sx)
  rw [iand_neg_iff, ior_neg_iff, shr1_neg_iff, iandNot_neg_iff]
  omega

/-- `xh & yh ⊆ andSide` bitwise -/
theorem andSide_sup_bits (sx : xl < 0 ↔ xh < 0) {n : Nat} (h1 : B xh n) (h2 : B yh n) :
    B (andSide xl xh yh) n := by
  rw [andSide_bits sx]
  refine ⟨h2, ?_⟩
  by_cases h : ∃ m, n ≤ m ∧ G xl xh yh m
  · obtain ⟨m, hm, hg⟩ := h
    rcases Nat.lt_or_eq_of_le hm with h' | h'
    · exact Or.inl ⟨m, h', hg⟩
    · subst h'; exact absurd h2 hg.2.2
  · exact Or.inr ⟨h1, h⟩

theorem iand_le_andSide (sx : xl < 0 ↔ xh < 0) : iand xh yh ≤ andSide xl xh yh := by
  apply le_of_tb_subset
  · intro n hn
    have : B (iand xh yh) n := hn
    rw [B_iand] at this
    exact andSide_sup_bits sx this.1 this.2
  · rw [iand_neg_iff, andSide_neg_iff sx]

/-- upper bound by the x side when `x` drops from `xh` at `q` and `y` agrees with `yh` above -/
theorem andSide_ub {x y : Int} {q : Nat} (hx1 : xl ≤ x) (hy2 : y ≤ yh)
    (sx : xl < 0 ↔ xh < 0) (sy : y < 0 ↔ yh < 0) (hd : Drop x xh q)
    (hy : ∀ j, q < j → (B y j ↔ B yh j)) : iand x y ≤ andSide xl xh yh := by
  have sxx := drop_sameSign hd
  by_cases hyhq : B yh q
  · -- x & y < xh & yh at bit q
    have : iand x y < iand xh yh := by
      apply int_lt_of_testBit q
      · apply notB.1; rw [B_iand]; exact fun h => hd.1 h.1
      · exact B_iand.2 ⟨hd.2.1, hyhq⟩
      · intro j hj
        apply agree_iff.1
        rw [B_iand, B_iand, hd.2.2 j hj, hy j hj]
    have := iand_le_andSide (xl := xl) (xh := xh) (yh := yh) sx
    omega
  · have hg : G xl xh yh q := ⟨room_of_drop hx1 (by omega) hd, hd.2.1, hyhq⟩
    have hyq : ¬ B y q := by
      intro h
      have : yh < y := int_lt_of_testBit q (notB.1 hyhq) h
        (fun j hj => (agree_iff.1 (hy j hj)).symm)
      omega
    have hs : iand x y < 0 ↔ andSide xl xh yh < 0 := by
      rw [iand_neg_iff, andSide_neg_iff sx]; omega
    -- bits of x & y at or above q are in andSide
    have hhigh : ∀ n, q ≤ n → B (iand x y) n → B (andSide xl xh yh) n := by
      intro n hn hv
      rw [B_iand] at hv
      rcases Nat.lt_or_eq_of_le hn with h | h
      · exact andSide_sup_bits sx ((hd.2.2 n h).1 hv.1) ((hy n h).1 hv.2)
      · subst h; exact absurd hv.1 hd.1
    rcases eq_or_drop hy2 sy with rfl | ⟨p, hdp⟩
    · apply le_of_tb_subset _ hs
      intro n hv
      rcases Nat.lt_or_ge n q with h | h
      · have hv' : B (iand x y) n := hv
        rw [B_iand] at hv'
        exact (andSide_bits sx n).2 ⟨hv'.2, Or.inl ⟨q, h, hg⟩⟩
      · exact hhigh n h hv
    · have hpq : p < q := by
        by_contra hge
        rcases Nat.lt_or_eq_of_le (Nat.le_of_not_lt hge) with h | h
        · exact hdp.1 ((hy p h).2 hdp.2.1)
        · subst h; exact hyhq hdp.2.1
      have : iand x y < andSide xl xh yh := by
        apply lt_of_tb_subset_above p _ _ _ hs
        · intro n hn hv
          rcases Nat.lt_or_ge n q with h | h
          · have hv' : B (iand x y) n := hv
            rw [B_iand] at hv'
            rcases Nat.lt_or_eq_of_le hn with h' | h'
            · exact (andSide_bits sx n).2 ⟨(hdp.2.2 n h').1 hv'.2, Or.inl ⟨q, h, hg⟩⟩
            · subst h'; exact absurd hv'.2 hdp.1
          · exact hhigh n h hv
        · apply notB.1; rw [B_iand]; exact fun h => hdp.1 h.2
        · exact (andSide_bits sx p).2 ⟨hdp.2.1, Or.inl ⟨q, hpq, hg⟩⟩
      omega

/-- the x-side candidate is attained: it is `x* & yh` for a member `x*` of `[xl, xh]` -/
theorem andSide_att (hxle : xl ≤ xh) (sx : xl < 0 ↔ xh < 0) :
    ∃ x, xl ≤ x ∧ x ≤ xh ∧ iand x yh = andSide xl xh yh := by
  rcases zero_or_msb (andG_nonneg (xl := xl) (xh := xh) (yh := yh) sx) with hnone | ⟨t, ht, htop⟩
  · refine ⟨xh, hxle, Int.le_refl _, ?_⟩
    apply eq_of_B; intro n
    rw [B_iand, andSide_bits sx]
    have hno : ∀ m, ¬ G xl xh yh m := fun m hm => hnone m ((andG_bits sx m).2 hm)
    constructor
    · rintro ⟨h1, h2⟩
      exact ⟨h2, Or.inr ⟨h1, fun ⟨m, _, hm⟩ => hno m hm⟩⟩
    · rintro ⟨h2, ⟨m, _, hm⟩ | ⟨h1, _⟩⟩
      · exact absurd hm (hno m)
      · exact ⟨h1, h2⟩
  · have hgt : G xl xh yh t := (andG_bits sx t).1 ht
    have htop' : ∀ j, t < j → ¬ G xl xh yh j := fun j hj hg => htop j hj ((andG_bits sx j).2 hg)
    obtain ⟨x', h1, h2, hb⟩ := exists_maxElem hxle sx hgt.2.1 hgt.1
    refine ⟨x', h1, h2, ?_⟩
    apply eq_of_B; intro n
    rw [B_iand, andSide_bits sx, hb]
    constructor
    · rintro ⟨h | ⟨h, hx⟩, hy⟩
      · exact ⟨hy, Or.inl ⟨t, h, hgt⟩⟩
      · exact ⟨hy, Or.inr ⟨hx, fun ⟨m, hm, hg⟩ => htop' m (by omega) hg⟩⟩
    · rintro ⟨hy, ⟨m, hm, hg⟩ | ⟨hx, hno⟩⟩
      · refine ⟨Or.inl ?_, hy⟩
        by_contra hge
        exact htop' m (by omega) hg
      · refine ⟨Or.inr ⟨?_, hx⟩, hy⟩
        by_contra hge
        exact hno ⟨t, by omega, hgt⟩

/-- no `bitFillRight` panic on the x side -/
theorem andSide_args_nonneg (sx : xl < 0 ↔ xh < 0) :
    ¬ iandNot xh xl < 0 ∧ ¬ iandNot (iand (bitFillRight (iandNot xh xl)) xh) yh < 0 := by
  have := iandNot_neg_iff xh xl
  have := andG_nonneg (xl := xl) (xh := xh) (yh := yh) sx
  omega

end andSideSec

section andMaxSec
variable {xl xh yl yh : Int}

theorem iand_le_left {a b : Int} (hs : a < 0 ↔ b < 0) : iand a b ≤ a := by
  apply le_of_tb_subset
  · intro n hn
    have : B (iand a b) n := hn
    rw [B_iand] at this; exact this.1
  · rw [iand_neg_iff]; omega

/-- `andMax` is an upper bound of `x & y` on a sign-uniform box. -/
theorem andMax_ub {x y : Int} (hx1 : xl ≤ x) (hx2 : x ≤ xh) (hy1 : yl ≤ y) (hy2 : y ≤ yh)
    (sx : xl < 0 ↔ xh < 0) (sxy : xh < 0 ↔ yh < 0) (sy : yl < 0 ↔ yh < 0) :
    iand x y ≤ andMax xl xh yl yh := by
  rw [andMax_eq]
  split
  · have h1 : iand x y ≤ x := iand_le_left (by omega)
    have h2 : iand x y ≤ y := by rw [iand_comm']; exact iand_le_left (by omega)
    split <;> omega
  · have key : iand x y ≤ andSide xl xh yh ∨ iand x y ≤ andSide yl yh xh := by
      rcases eq_or_drop hx2 (by omega) with rfl | ⟨q, hdq⟩
      · rcases eq_or_drop hy2 (by omega) with rfl | ⟨p, hdp⟩
        · exact Or.inl (iand_le_andSide sx)
        · right
          rw [iand_comm']
          exact andSide_ub hy1 (Int.le_refl _) sy Iff.rfl hdp (fun _ _ => Iff.rfl)
      · rcases eq_or_drop hy2 (by omega) with rfl | ⟨p, hdp⟩
        · left
          exact andSide_ub hx1 (Int.le_refl _) sx Iff.rfl hdq (fun _ _ => Iff.rfl)
        · rcases Nat.lt_or_ge q p with h | h
          · right
            rw [iand_comm']
            exact andSide_ub hy1 hx2 sy (by omega) hdp (fun j hj => hdq.2.2 j (by omega))
          · left
            exact andSide_ub hx1 hy2 sx (by omega) hdq (fun j hj => hdp.2.2 j (by omega))
    split <;> omega

/-- `andMax` is attained on a non-empty sign-uniform box. -/
theorem andMax_att (hxle : xl ≤ xh) (hyle : yl ≤ yh)
    (sx : xl < 0 ↔ xh < 0) (sy : yl < 0 ↔ yh < 0) :
    ∃ x y, xl ≤ x ∧ x ≤ xh ∧ yl ≤ y ∧ y ≤ yh ∧ iand x y = andMax xl xh yl yh := by
  have self : ∀ c : Int, iand c c = c := fun c => by
    apply eq_of_B; intro n; rw [B_iand]; exact ⟨fun h => h.1, fun h => ⟨h, h⟩⟩
  rw [andMax_eq]
  split
  · rename_i hov
    simp only [Bool.and_eq_true, decide_eq_true_eq, ge_iff_le] at hov
    split
    · exact ⟨yh, yh, by omega, by omega, hyle, Int.le_refl _, self yh⟩
    · exact ⟨xh, xh, hxle, Int.le_refl _, by omega, by omega, self xh⟩
  · split
    · obtain ⟨y', h1, h2, h3⟩ := andSide_att (xl := yl) (xh := yh) (yh := xh) hyle sy
      exact ⟨xh, y', hxle, Int.le_refl _, h1, h2, by rw [iand_comm']; exact h3⟩
    · obtain ⟨x', h1, h2, h3⟩ := andSide_att (xl := xl) (xh := xh) (yh := yh) hxle sx
      exact ⟨x', yh, h1, h2, hyle, Int.le_refl _, h3⟩

/-- no `bitFillRight` panic in `andMax` on sign-uniform boxes -/
theorem andMaxP_eq (sx : xl < 0 ↔ xh < 0) (sy : yl < 0 ↔ yh < 0) :
    andMaxP xl xh yl yh = some (andMax xl xh yl yh) := by
  unfold andMaxP andMax bitFillRightP
  split
  · rfl
  · obtain ⟨a1, a2⟩ := andSide_args_nonneg (xl := xl) (xh := xh) (yh := yh) sx
    obtain ⟨b1, b2⟩ := andSide_args_nonneg (xl := yl) (xh := yh) (yh := xh) sy
    simp [a1, a2, b1, b2]

end andMaxSec

end WuffsVerif.Interval
