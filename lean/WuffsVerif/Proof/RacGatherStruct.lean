/-
C13: the structure of one level of `gather` (`Grouped`): consecutive non-empty groups wrapped by `makeBranch`.
Consequences: `gather` keeps the leaves in order (`gather_leaves`) and every node property that `makeBranch`
establishes from its children holds for the whole tree (`gather_preserves`).
-/
import WuffsVerif.Proof.RacGather
namespace WuffsVerif.Rac

/-- `next` is `nodes` cut into consecutive non-empty groups, each wrapped by `makeBranch` (any resource
set), except that single nodes may be kept as they are -/
inductive Grouped : List WNode → List WNode → Prop where
  | nil : Grouped [] []
  | group (grp : List WNode) (res : List Nat) {rest nodes : List WNode} : grp ≠ [] → Grouped rest nodes →
      Grouped (makeBranch grp res :: rest) (grp ++ nodes)
  | keep (x : WNode) {rest nodes : List WNode} : Grouped rest nodes → Grouped (x :: rest) (x :: nodes)

theorem Grouped.append {a x b y : List WNode} (h1 : Grouped a x) (h2 : Grouped b y) : Grouped (a ++ b) (x ++ y) := by
  induction h1 with
  | nil => simpa using h2
  | group grp res hne _ ih => simpa [List.append_assoc] using Grouped.group grp res hne ih
  | keep x _ ih => simpa using Grouped.keep x ih

/-- fold invariant: the closed groups cover the nodes before the current group -/
theorem gather_fold_grouped (budget : Nat) (hb : 254 ≤ budget) (nodes : List WNode) :
    ∀ (st : GState) (k : Nat) (pre : List WNode), GInv budget st k → (∀ o ∈ nodes, LevelNode budget o) →
      Grouped st.newNodes.reverse pre →
      ∃ pre', Grouped (nodes.foldl (gatherStep budget) st).newNodes.reverse pre' ∧
        pre' ++ (nodes.foldl (gatherStep budget) st).cur.reverse = pre ++ st.cur.reverse ++ nodes := by
  induction nodes with
  | nil => intro st k pre _ _ hg; exact ⟨pre, hg, by simp⟩
  | cons o os ih =>
    intro st k pre hinv hl hg
    simp only [List.foldl_cons]
    have hinv' := gatherStep_inv budget hb st k o hinv (hl o (by simp))
    have hstep : ∃ pre1, Grouped (gatherStep budget st o).newNodes.reverse pre1 ∧
        pre1 ++ (gatherStep budget st o).cur.reverse = pre ++ st.cur.reverse ++ [o] := by
      unfold gatherStep
      simp only
      split
      · exact ⟨pre, hg, by simp⟩
      · rename_i hgt
        have hcur : st.cur ≠ [] := by
          intro h
          have h3 := hinv.i3
          rw [h] at h3
          simp only [List.length_nil, Nat.mul_zero, Nat.le_zero_eq] at h3
          rw [h3] at hgt
          have : (o.secondary != 0 && !st.resources.contains o.secondary).toNat ≤ 1 := by
            cases (o.secondary != 0 && !st.resources.contains o.secondary) <;> simp
          have : (o.tertiary != 0 && !st.resources.contains o.tertiary).toNat ≤ 1 := by
            cases (o.tertiary != 0 && !st.resources.contains o.tertiary) <;> simp
          omega
        refine ⟨pre ++ st.cur.reverse, ?_, by simp⟩
        simp only [List.reverse_cons]
        have : Grouped [makeBranch st.cur.reverse st.resources] (st.cur.reverse ++ []) :=
          Grouped.group _ _ (by simpa using hcur) Grouped.nil
        have := Grouped.append hg this
        simpa using this
    obtain ⟨pre1, hg1, he1⟩ := hstep
    obtain ⟨pre', hg', he'⟩ := ih _ (k + 1) pre1 hinv' (fun x hx => hl x (by simp [hx])) hg1
    exact ⟨pre', hg', by rw [he', he1]; simp⟩

/-- one level of `gather`: either the root over all nodes, or a grouping of the nodes -/
theorem gatherLevel_grouped (budget : Nat) (hb : 254 ≤ budget) (nodes : List WNode) (hne : nodes ≠ [])
    (hl : ∀ o ∈ nodes, LevelNode budget o) :
    match gatherLevel budget nodes with
    | .inl root => ∃ res, root = makeBranch nodes res
    | .inr next => Grouped next nodes := by
  have hinv := gather_fold_inv budget hb nodes {} 0 (ginv_init budget) hl
  obtain ⟨pre', hg', he'⟩ := gather_fold_grouped budget hb nodes {} 0 [] (ginv_init budget) hl Grouped.nil
  simp only [Nat.zero_add] at hinv
  unfold gatherLevel
  simp only
  generalize hst : nodes.foldl (gatherStep budget) {} = st at *
  simp at he'
  have hpos : nodes.length > 0 := by
    cases nodes with
    | nil => exact absurd rfl hne
    | cons a as => simp
  have hcne := hinv.i11 hpos
  by_cases hf : st.first = true
  · rw [if_pos hf]; exact ⟨_, rfl⟩
  · rw [if_neg hf]
    simp only
    have hlast : ∀ last, Grouped [last] st.cur.reverse → Grouped (last :: st.newNodes).reverse nodes := by
      intro last hlast
      have := Grouped.append hg' hlast
      rw [he'] at this
      simpa using this
    split
    · rename_i x hx
      split
      · apply hlast; rw [hx]; exact Grouped.keep x Grouped.nil
      · apply hlast
        have := Grouped.group st.cur.reverse st.resources (rest := []) (nodes := []) (by simpa using hcne) Grouped.nil
        simpa using this
    · apply hlast
      have := Grouped.group st.cur.reverse st.resources (rest := []) (nodes := []) (by simpa using hcne) Grouped.nil
      simpa using this

/-! ### what `gather` preserves -/

theorem Grouped.forall {Q : WNode → Prop}
    (hQ : ∀ grp res, grp ≠ [] → (∀ o ∈ grp, Q o) → Q (makeBranch grp res))
    {next nodes : List WNode} (h : Grouped next nodes) (hq : ∀ o ∈ nodes, Q o) : ∀ m ∈ next, Q m := by
  induction h with
  | nil => intro m hm; simp at hm
  | group grp res hne _ ih =>
    intro m hm
    rcases List.mem_cons.mp hm with rfl | hm
    · exact hQ grp res hne (fun o ho => hq o (by simp [ho]))
    · exact ih (fun o ho => hq o (by simp [ho])) m hm
  | keep x _ ih =>
    intro m hm
    rcases List.mem_cons.mp hm with rfl | hm
    · exact hq _ (by simp)
    · exact ih (fun o ho => hq o (by simp [ho])) m hm

/-- a node property that `makeBranch` establishes from its (non-empty list of) children holds for the
tree `gather` builds -/
theorem gatherFuel_preserves {Q : WNode → Prop}
    (hQ : ∀ grp res, grp ≠ [] → (∀ o ∈ grp, Q o) → Q (makeBranch grp res))
    (budget : Nat) (hb : 254 ≤ budget) (fuel : Nat) :
    ∀ nodes : List WNode, nodes ≠ [] → nodes.length ≤ fuel → (∀ o ∈ nodes, LevelNode budget o) →
      (nodes.length ≥ 2 ∨ ∀ o ∈ nodes, o.isBranch = false) → (∀ o ∈ nodes, Q o) →
      Q (gatherFuel budget fuel nodes) := by
  induction fuel with
  | zero =>
    intro nodes hne hlen
    cases nodes with
    | nil => exact absurd rfl hne
    | cons a as => simp at hlen
  | succ f ih =>
    intro nodes hne hlen hl h2 hq
    unfold gatherFuel
    have hg := gatherLevel_good budget hb nodes hne hl h2
    have hs := gatherLevel_grouped budget hb nodes hne hl
    split
    · rename_i root hr
      rw [hr] at hs
      obtain ⟨res, rfl⟩ := hs
      exact hQ nodes res hne hq
    · rename_i next hr
      rw [hr] at hg hs
      obtain ⟨g1, g2, g3⟩ := hg
      refine ih next ?_ (by omega) g1 (Or.inl g2) (hs.forall hQ hq)
      intro h; rw [h] at g2; simp at g2

theorem gather_preserves {Q : WNode → Prop}
    (hQ : ∀ grp res, grp ≠ [] → (∀ o ∈ grp, Q o) → Q (makeBranch grp res))
    (nodes : List WNode) (long : Bool) (hne : nodes ≠ [])
    (hleaf : ∀ o ∈ nodes, o.children = []) (hq : ∀ o ∈ nodes, Q o) : Q (gather nodes long) := by
  unfold gather
  refine gatherFuel_preserves hQ _ (by split <;> omega) _ nodes hne (by omega) ?_ (Or.inr ?_) hq
  · intro o ho
    exact ⟨good_of_leaf _ o (hleaf o ho), by intro h; simp [WNode.isBranch, hleaf o ho] at h⟩
  · intro o ho; simp [WNode.isBranch, hleaf o ho]

mutual
/-- the leaves below a node, in order -/
def leavesOf : WNode → List WNode
  | .mk d cs rs col s t c => if cs.isEmpty then [.mk d cs rs col s t c] else leavesOfList cs
def leavesOfList : List WNode → List WNode
  | [] => []
  | o :: os => leavesOf o ++ leavesOfList os
end

theorem leavesOfList_append (a b : List WNode) : leavesOfList (a ++ b) = leavesOfList a ++ leavesOfList b := by
  induction a with
  | nil => simp [leavesOfList]
  | cons x xs ih => simp [leavesOfList, ih]

theorem leavesOf_makeBranch (grp : List WNode) (res : List Nat) (h : grp ≠ []) :
    leavesOf (makeBranch grp res) = leavesOfList grp := by
  cases grp with
  | nil => exact absurd rfl h
  | cons a as => simp [makeBranch, leavesOf]

theorem Grouped.leaves {next nodes : List WNode} (h : Grouped next nodes) :
    leavesOfList next = leavesOfList nodes := by
  induction h with
  | nil => rfl
  | group grp res hne _ ih => simp [leavesOfList, leavesOfList_append, leavesOf_makeBranch grp res hne, ih]
  | keep x _ ih => simp [leavesOfList, ih]

theorem leavesOfList_leaves (nodes : List WNode) (hleaf : ∀ o ∈ nodes, o.children = []) :
    leavesOfList nodes = nodes := by
  induction nodes with
  | nil => rfl
  | cons o os ih =>
    have ho := hleaf o (by simp)
    cases o with
    | mk d cs rs col s t c =>
      simp only [WNode.children] at ho
      subst ho
      simp [leavesOfList, leavesOf, ih (fun x hx => hleaf x (by simp [hx]))]

/-- `gather` keeps the leaves, in order: the property `Q n := leavesOf n = L` is not of the
`makeBranch`-closed form, so this has its own induction -/
theorem gatherFuel_leaves (budget : Nat) (hb : 254 ≤ budget) (fuel : Nat) :
    ∀ nodes : List WNode, nodes ≠ [] → nodes.length ≤ fuel → (∀ o ∈ nodes, LevelNode budget o) →
      (nodes.length ≥ 2 ∨ ∀ o ∈ nodes, o.isBranch = false) →
      leavesOf (gatherFuel budget fuel nodes) = leavesOfList nodes := by
  induction fuel with
  | zero =>
    intro nodes hne hlen
    cases nodes with
    | nil => exact absurd rfl hne
    | cons a as => simp at hlen
  | succ f ih =>
    intro nodes hne hlen hl h2
    unfold gatherFuel
    have hg := gatherLevel_good budget hb nodes hne hl h2
    have hs := gatherLevel_grouped budget hb nodes hne hl
    split
    · rename_i root hr
      rw [hr] at hs
      obtain ⟨res, rfl⟩ := hs
      exact leavesOf_makeBranch nodes res hne
    · rename_i next hr
      rw [hr] at hg hs
      obtain ⟨g1, g2, g3⟩ := hg
      rw [ih next (by intro h; rw [h] at g2; simp at g2) (by omega) g1 (Or.inl g2), hs.leaves]

theorem gather_leaves (nodes : List WNode) (long : Bool) (hne : nodes ≠ [])
    (hleaf : ∀ o ∈ nodes, o.children = []) : leavesOf (gather nodes long) = nodes := by
  unfold gather
  rw [gatherFuel_leaves _ (by split <;> omega) _ nodes hne (by omega) ?_ (Or.inr ?_), leavesOfList_leaves nodes hleaf]
  · intro o ho
    exact ⟨good_of_leaf _ o (hleaf o ho), by intro h; simp [WNode.isBranch, hleaf o ho] at h⟩
  · intro o ho; simp [WNode.isBranch, hleaf o ho]
end WuffsVerif.Rac
