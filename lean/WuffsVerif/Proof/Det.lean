/-
Helper lemmas for C20 (Model/Det.lean): order lemmas for `ble`, "sorting forgets
the enumeration order", closed forms of the collecting loops, lookup in a Go map
does not depend on the representation.  Core Lean only.
-/
import WuffsVerif.Model.Det

namespace WuffsVerif.Det
open List

/-! ### `ble` is a total order on byte strings -/

theorem ble_refl : ∀ a : Name, ble a a = true
  | [] => rfl
  | x :: xs => by simp [ble, ble_refl xs]

theorem ble_total : ∀ a b : Name, (ble a b || ble b a) = true
  | [], _ => by simp [ble]
  | _ :: _, [] => by simp [ble]
  | x :: xs, y :: ys => by
    have ih := ble_total xs ys
    simp only [ble]
    by_cases h1 : x < y
    · simp [h1]
    · by_cases h2 : y < x
      · simp [h2]
      · simp [h1, h2]; simpa using ih

theorem ble_antisymm : ∀ a b : Name, ble a b = true → ble b a = true → a = b
  | [], [], _, _ => rfl
  | [], _ :: _, _, h => by simp [ble] at h
  | _ :: _, [], h, _ => by simp [ble] at h
  | x :: xs, y :: ys, h1, h2 => by
    simp only [ble] at h1 h2
    by_cases a : x < y
    · have : ¬ y < x := by omega
      simp [a, this] at h2
    · by_cases b : y < x
      · simp [a, b] at h1
      · simp [a, b] at h1 h2
        have : x = y := by omega
        rw [this, ble_antisymm xs ys h1 h2]

theorem ble_trans : ∀ a b c : Name, ble a b = true → ble b c = true → ble a c = true
  | [], _, _, _, _ => by simp [ble]
  | _ :: _, [], _, h, _ => by simp [ble] at h
  | _ :: _, _ :: _, [], _, h => by simp [ble] at h
  | x :: xs, y :: ys, z :: zs, h1, h2 => by
    simp only [ble] at h1 h2 ⊢
    by_cases a : x < y
    · by_cases b : y < z
      · have : x < z := by omega
        simp [this]
      · by_cases b' : z < y
        · simp [b, b'] at h2
        · have : x < z := by omega
          simp [this]
    · by_cases a' : y < x
      · simp [a, a'] at h1
      · simp [a, a'] at h1
        have hxy : x = y := by omega
        subst hxy
        by_cases b : x < z
        · simp [b]
        · by_cases b' : z < x
          · simp [b, b'] at h2
          · simp [b, b'] at h2 ⊢
            exact ble_trans xs ys zs h1 h2

theorem nle_trans (a b c : Nat) : nle a b = true → nle b c = true → nle a c = true := by
  simp [nle]; omega
theorem nle_total (a b : Nat) : (nle a b || nle b a) = true := by
  simp [nle]; omega
theorem nle_antisymm (a b : Nat) : nle a b = true → nle b a = true → a = b := by
  simp [nle]; omega

/-! ### sorting forgets the enumeration order -/

theorem insertBy_perm {α : Type} (le : α → α → Bool) (a : α) : ∀ l : List α, insertBy le a l ~ a :: l
  | [] => Perm.refl _
  | b :: bs => by
    unfold insertBy
    split
    · exact Perm.refl _
    · exact ((insertBy_perm le a bs).cons b).trans (Perm.swap a b bs)

theorem sortBy_perm {α : Type} (le : α → α → Bool) : ∀ l : List α, sortBy le l ~ l
  | [] => Perm.refl _
  | a :: as => by
    show insertBy le a (sortBy le as) ~ a :: as
    exact (insertBy_perm le a _).trans ((sortBy_perm le as).cons a)

theorem insertBy_pairwise {α : Type} (le : α → α → Bool)
    (trans : ∀ a b c, le a b = true → le b c = true → le a c = true)
    (total : ∀ a b, (le a b || le b a) = true) (a : α) :
    ∀ l : List α, l.Pairwise (fun x y => le x y = true) → (insertBy le a l).Pairwise (fun x y => le x y = true)
  | [], _ => by simp [insertBy]
  | b :: bs, h => by
    unfold insertBy
    have hb := pairwise_cons.mp h
    split
    · rename_i hab
      refine pairwise_cons.mpr ⟨?_, h⟩
      intro c hc
      rcases mem_cons.mp hc with rfl | hc
      · exact hab
      · exact trans a b c hab (hb.1 c hc)
    · rename_i hab
      have hba : le b a = true := by
        have := total a b
        simp only [Bool.or_eq_true] at this
        rcases this with h1 | h1
        · exact absurd h1 hab
        · exact h1
      refine pairwise_cons.mpr ⟨?_, insertBy_pairwise le trans total a bs hb.2⟩
      intro c hc
      have := (insertBy_perm le a bs).mem_iff.mp hc
      rcases mem_cons.mp this with rfl | hc'
      · exact hba
      · exact hb.1 c hc'

theorem sortBy_pairwise {α : Type} (le : α → α → Bool)
    (trans : ∀ a b c, le a b = true → le b c = true → le a c = true)
    (total : ∀ a b, (le a b || le b a) = true) :
    ∀ l : List α, (sortBy le l).Pairwise (fun x y => le x y = true)
  | [] => by simp [sortBy]
  | a :: as => by
    show (insertBy le a (sortBy le as)).Pairwise _
    exact insertBy_pairwise le trans total a _ (sortBy_pairwise le trans total as)

/-- For a transitive, total, antisymmetric comparison, the sorted list is a function
of the multiset of elements: any two enumerations sort to the same list. -/
theorem sortBy_perm_invariant {α : Type} (le : α → α → Bool)
    (trans : ∀ a b c, le a b = true → le b c = true → le a c = true)
    (total : ∀ a b, (le a b || le b a) = true)
    (antisymm : ∀ a b, le a b = true → le b a = true → a = b)
    {l₁ l₂ : List α} (h : l₁ ~ l₂) : sortBy le l₁ = sortBy le l₂ := by
  apply Perm.eq_of_pairwise (le := fun a b => le a b = true)
  · intro a b _ _ hab hba; exact antisymm a b hab hba
  · exact sortBy_pairwise le trans total l₁
  · exact sortBy_pairwise le trans total l₂
  · exact (sortBy_perm le l₁).trans (h.trans (sortBy_perm le l₂).symm)

theorem sortNames_perm_invariant {l₁ l₂ : List Name} (h : l₁ ~ l₂) : sortNames l₁ = sortNames l₂ :=
  sortBy_perm_invariant ble ble_trans ble_total ble_antisymm h

theorem sortNames_sorted (l : List Name) : (sortNames l).Pairwise (fun a b => ble a b = true) :=
  sortBy_pairwise ble ble_trans ble_total l

theorem mem_sortNames {a : Name} {l : List Name} : a ∈ sortNames l ↔ a ∈ l :=
  (sortBy_perm ble l).mem_iff

/-! ### closed forms of the collecting loops -/

theorem foldl_collect {α : Type} (l : List α) (init : List α) :
    l.foldl (fun acc k => acc ++ [k]) init = init ++ l := by
  induction l generalizing init with
  | nil => simp
  | cons x xs ih => simp [ih]

theorem foldl_collect_if {α : Type} (p : α → Bool) (l : List α) (init : List α) :
    l.foldl (fun acc k => if p k then acc ++ [k] else acc) init = init ++ l.filter p := by
  induction l generalizing init with
  | nil => simp
  | cons x xs ih =>
    by_cases h : p x <;> simp [ih, h]

/-- what `appendDir` computes, without the loop -/
theorem appendDir_eq (dst : List Name) (dir suffix : Name) (rs : Bool) (infos : List DirEntry) :
    appendDir dst dir suffix rs infos =
      (dst ++ (infos.filter (fun o => !o.isDir && hasSuffix o.name suffix)).map (fun o => joinPath dir o.name),
       (infos.filter (fun o => o.isDir && rs)).map (·.name)) := by
  unfold appendDir
  suffices h : ∀ (acc : List Name × List Name),
      infos.foldl (fun (acc : List Name × List Name) o =>
        if o.isDir then (if rs then (acc.1, acc.2 ++ [o.name]) else acc)
        else if hasSuffix o.name suffix then (acc.1 ++ [joinPath dir o.name], acc.2) else acc) acc
      = (acc.1 ++ (infos.filter (fun o => !o.isDir && hasSuffix o.name suffix)).map (fun o => joinPath dir o.name),
         acc.2 ++ (infos.filter (fun o => o.isDir && rs)).map (·.name)) by
    simpa using h (dst, [])
  induction infos with
  | nil => intro acc; simp
  | cons o os ih =>
    intro acc
    rw [foldl_cons, ih]
    cases hd : o.isDir <;> cases hr : rs <;> cases hs : hasSuffix o.name suffix <;> simp [hd, hr, hs]

/-! ### Boolean folds -/

theorem firstError_isSome {α ε : Type} (f : α → Option ε) (l : List α) :
    (firstError f l).isSome = l.any (fun v => (f v).isSome) := by
  induction l with
  | nil => rfl
  | cons v vs ih =>
    simp only [firstError, any_cons]
    cases h : f v <;> simp [ih]

theorem any_perm {α : Type} (p : α → Bool) {l₁ l₂ : List α} (h : l₁ ~ l₂) : l₁.any p = l₂.any p := by
  rw [Bool.eq_iff_iff]
  simp only [any_eq_true]
  constructor
  · rintro ⟨x, hx, px⟩; exact ⟨x, h.mem_iff.mp hx, px⟩
  · rintro ⟨x, hx, px⟩; exact ⟨x, h.mem_iff.mpr hx, px⟩

theorem existsStruct_eq (qid : Key) (order : List Key) :
    existsStruct qid order = order.any (· == qid) := by
  unfold existsStruct
  suffices h : ∀ b, order.foldl (fun found s => found || s == qid) b = (b || order.any (· == qid)) by
    simpa using h false
  induction order with
  | nil => intro b; simp
  | cons x xs ih => intro b; simp [ih, Bool.or_assoc]

/-! ### a Go map read only through lookups -/

def keysNodup {ν : Type} (m : GoMap Key ν) : Prop := (m.map (·.1)).Nodup

theorem lookup_of_mem {ν : Type} : ∀ (m : GoMap Key ν), keysNodup m → ∀ k v, (k, v) ∈ m → List.lookup k m = some v
  | [], _, _, _, h => by simp at h
  | (k', v') :: rest, hn, k, v, h => by
    simp only [keysNodup, map_cons, nodup_cons] at hn
    by_cases hk : k = k'
    · subst hk
      simp only [mem_cons, Prod.mk.injEq, true_and] at h
      rcases h with rfl | h
      · simp [List.lookup]
      · exact absurd (mem_map_of_mem (f := (·.1)) h) hn.1
    · have : (k, v) ∈ rest := by
        simp only [mem_cons, Prod.mk.injEq] at h
        rcases h with ⟨h1, _⟩ | h
        · exact absurd h1 hk
        · exact h
      have hb : (k == k') = false := by simpa using hk
      simp only [List.lookup, hb]
      exact lookup_of_mem rest hn.2 k v this

theorem lookup_none_of_not_mem {ν : Type} : ∀ (m : GoMap Key ν) k, k ∉ m.map (·.1) → List.lookup k m = none
  | [], _, _ => rfl
  | (k', v') :: rest, k, h => by
    simp only [map_cons, mem_cons, not_or] at h
    have hb : (k == k') = false := by simpa using h.1
    simp only [List.lookup, hb]
    exact lookup_none_of_not_mem rest k h.2

/-- The value found for a key does not depend on how the entries are laid out. -/
theorem get_perm_invariant {ν : Type} {m₁ m₂ : GoMap Key ν} (hn : keysNodup m₁) (h : m₁ ~ m₂) (k : Key) :
    m₁.get k = m₂.get k := by
  unfold GoMap.get
  have hn2 : keysNodup m₂ := by
    unfold keysNodup at hn ⊢
    exact (Perm.nodup_iff (h.map _)).mp hn
  by_cases hk : k ∈ m₁.map (·.1)
  · obtain ⟨⟨k', v⟩, hmem, rfl⟩ := mem_map.mp hk
    rw [lookup_of_mem m₁ hn k' v hmem, lookup_of_mem m₂ hn2 k' v (h.mem_iff.mp hmem)]
  · have hk2 : k ∉ m₂.map (·.1) := fun h' => hk ((h.map (·.1)).mem_iff.mpr h')
    rw [lookup_none_of_not_mem m₁ k hk, lookup_none_of_not_mem m₂ k hk2]

theorem set_keysNodup {ν : Type} (m : GoMap Key ν) (hn : keysNodup m) (k : Key) (v : ν) : keysNodup (m.set k v) := by
  unfold GoMap.set keysNodup
  simp only [map_cons, nodup_cons]
  constructor
  · intro h
    obtain ⟨⟨k', v'⟩, hmem, hk⟩ := mem_map.mp h
    simp only [mem_filter] at hmem
    simp at hk
    simp [hk] at hmem
  · unfold keysNodup at hn
    exact (hn.sublist ((filter_sublist (l := m)).map (·.1)))

theorem buildByQID_keysNodup (ns : List StructDecl) : keysNodup (buildByQID ns) := by
  unfold buildByQID
  suffices h : ∀ (l : List (StructDecl × Nat)) (m : GoMap Key Nat), keysNodup m →
      keysNodup (l.foldl (fun m (n, i) => m.set n.qid i) m) by
    exact h _ [] (by simp [keysNodup])
  intro l
  induction l with
  | nil => intro m hm; simpa using hm
  | cons x xs ih => intro m hm; simp only [foldl_cons]; exact ih _ (set_keysNodup m hm _ _)

end WuffsVerif.Det
