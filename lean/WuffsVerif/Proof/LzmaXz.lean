/-
C17: the XZ container: layout of `encodeXz`'s output and the walk of `decodeXz` over it.
-/
import WuffsVerif.Proof.LzmaXzChunks
import WuffsVerif.Proof.LzmaUvarint

namespace WuffsVerif.Lzma

/-- the zero bytes that pad a count `n` to a multiple of four -/
def padList (n : Nat) : List UInt8 := List.replicate ((4 - n % 4) % 4) 0

theorem padTo4_toList (dst : Array UInt8) (n : Nat) : (padTo4 dst n).toList = dst.toList ++ padList n := by
  unfold padTo4 padList; rw [pushN_toList]

theorem padList_length (n : Nat) : (padList n).length = (4 - n % 4) % 4 := by simp [padList]

theorem and3 (i : Nat) : i &&& 3 = i % 4 := Nat.and_two_pow_sub_one_eq_mod i 2

theorem skipPad_ok : ∀ (fuel i : Nat) (rest : List UInt8), (4 - i % 4) % 4 ≤ fuel →
    skipPad fuel i (List.replicate ((4 - i % 4) % 4) 0 ++ rest) = (true, rest) := by
  intro fuel
  induction fuel with
  | zero =>
    intro i rest h
    have : (4 - i % 4) % 4 = 0 := by omega
    rw [this]; simp [skipPad]
  | succ f ih =>
    intro i rest h
    by_cases h0 : i % 4 = 0
    · have : (4 - i % 4) % 4 = 0 := by omega
      rw [this]
      simp [skipPad, and3, h0]
    · have hk : (4 - i % 4) % 4 = (4 - (i + 1) % 4) % 4 + 1 := by omega
      rw [hk, List.replicate_succ]
      simp only [List.cons_append, skipPad, and3]
      rw [if_pos h0]
      simp only [ne_eq, not_true_eq_false, if_false]
      exact ih (i + 1) rest (by omega)

theorem skipPad_padList (i n : Nat) (rest : List UInt8) (h : i % 4 = n % 4) :
    skipPad 3 (i &&& 3) (padList n ++ rest) = (true, rest) := by
  unfold padList
  have : (4 - n % 4) % 4 = (4 - (i &&& 3) % 4) % 4 := by rw [and3]; omega
  rw [this]
  exact skipPad_ok 3 _ rest (by omega)

/-! ## layout of the encoding -/

def xzUnpadded (src : List UInt8) : Nat := (chunksBytes src).length + 17

def xzIdx (src : List UInt8) : List UInt8 :=
  0x00 :: 0x01 :: (uvList (xzUnpadded src) ++ uvList src.length)

def xzIdxP (src : List UInt8) : List UInt8 := xzIdx src ++ padList (xzIdx src).length

def xzTail6 (src : List UInt8) : List UInt8 :=
  [((xzIdxP src).length >>> 2).toUInt8, (((xzIdxP src).length >>> 2) >>> 8).toUInt8,
   (((xzIdxP src).length >>> 2) >>> 16).toUInt8, (((xzIdxP src).length >>> 2) >>> 24).toUInt8, 0x00, 0x01]

theorem le32_length (c : UInt32) : (le32 c).length = 4 := rfl

theorem encodeXz_toList (src : List UInt8) :
    (encodeXz #[] src).toList =
      xzHeader24 ++ (chunksBytes src ++ (0x00 :: (padList ((chunksBytes src).length + 13) ++
        (le32 (crc32 src) ++ (xzIdxP src ++ (le32 (crc32 (xzIdxP src)) ++
          (le32 (crc32 (xzTail6 src)) ++ (xzTail6 src ++ [0x59, 0x5A])))))))) := by
  have hx : xzHeader24.length = 24 := rfl
  have e1 : ∀ c : Nat, 24 + c + (0 + 1) - (0 + 12) = c + 13 := by intro c; omega
  have e2 : ∀ c : Nat, c + 13 + 4 = c + 17 := by intro c; omega
  have e3 : ∀ a u1 u2 : Nat, a + (0 + 1) + (0 + 1) + u1 + u2 - a = (u1 + u2 + 1) + 1 := by
    intro a u1 u2; omega
  have e4 : ∀ a u1 u2 p : Nat, a + (0 + 1) + (0 + 1) + u1 + u2 + p - a = (u1 + u2 + 1) + 1 + p := by
    intro a u1 u2 p; omega
  unfold encodeXz crc32Arr
  simp only [pushList_toList, Array.toList_push, padTo4_toList, encodeUvarint_toList,
    encodeXzChunks_toList _ _ _ rfl, Array.size_eq_length_toList, List.length_append,
    Array.toList_empty, List.nil_append, List.length_cons, List.length_nil, le32_length, hx, e1, e2, e3, e4]
  have hdrop : List.drop
      (24 + (chunksBytes src).length + (0 + 1) + (padList ((chunksBytes src).length + 13)).length + 4)
      (xzHeader24 ++ chunksBytes src ++ [0] ++ padList ((chunksBytes src).length + 13) ++
                  le32 (crc32 src) ++ [0] ++ [1] ++ uvList ((chunksBytes src).length + 17) ++
          uvList src.length ++
        padList ((uvList ((chunksBytes src).length + 17)).length + (uvList src.length).length + 1 + 1))
      = xzIdxP src := by
    have hsplit : (xzHeader24 ++ chunksBytes src ++ [0] ++ padList ((chunksBytes src).length + 13) ++
                  le32 (crc32 src) ++ [0] ++ [1] ++ uvList ((chunksBytes src).length + 17) ++
          uvList src.length ++
        padList ((uvList ((chunksBytes src).length + 17)).length + (uvList src.length).length + 1 + 1))
        = (xzHeader24 ++ chunksBytes src ++ [0] ++ padList ((chunksBytes src).length + 13) ++
                  le32 (crc32 src)) ++ xzIdxP src := by
      unfold xzIdxP xzIdx xzUnpadded
      simp only [List.append_assoc, List.cons_append, List.nil_append, List.length_cons, List.length_append]
    rw [hsplit]
    apply List.drop_left'
    simp only [List.length_append, hx, le32_length, List.length_cons, List.length_nil]
  rw [hdrop]
  unfold xzTail6
  have hlen : (xzIdxP src).length = (uvList ((chunksBytes src).length + 17)).length + (uvList src.length).length
      + 1 + 1 + (padList ((uvList ((chunksBytes src).length + 17)).length + (uvList src.length).length + 1 + 1)).length := by
    unfold xzIdxP xzIdx xzUnpadded
    simp only [List.length_append, List.length_cons]
  rw [hlen]
  have hI : xzIdxP src = 0 :: 1 :: (uvList ((chunksBytes src).length + 17) ++ (uvList src.length ++
      padList ((uvList ((chunksBytes src).length + 17)).length + (uvList src.length).length + 1 + 1))) := by
    unfold xzIdxP xzIdx xzUnpadded
    simp only [List.append_assoc, List.cons_append, List.nil_append, List.length_cons, List.length_append]
  rw [hI]
  simp only [List.append_assoc, List.cons_append, List.nil_append]

/-! ## the walk of `decodeXz` -/

theorem hasLe32_ok (c : UInt32) (rest : List UInt8) : hasLe32 (le32 c ++ rest) c = true := by
  unfold hasLe32
  simp [le32]

theorem crc32Arr_pushList (src : List UInt8) : crc32Arr (pushList #[] src) 0 = crc32 src := by
  unfold crc32Arr; rw [pushList_toList]; simp

theorem xz_roundtrip_tail (src tail : List UInt8) (h1 : src.length < 2 ^ 63) (h2 : xzUnpadded src < 2 ^ 63) :
    decodeXz #[] ((encodeXz #[] src).toList ++ tail) = (pushList #[] src, tail, Err.ok) := by
  rw [encodeXz_toList]
  simp only [List.append_assoc, List.cons_append, List.nil_append]
  have hx : xzHeader24.length = 24 := rfl
  -- name the pieces, from the back
  generalize hF : le32 (crc32 (xzTail6 src)) ++ (xzTail6 src ++ 89 :: 90 :: tail) = F
  generalize hR5 : le32 (crc32 (xzIdxP src)) ++ F = R5
  generalize hR4 : xzIdxP src ++ R5 = R4
  generalize hR3 : le32 (crc32 src) ++ R4 = R3
  generalize hR2 : padList ((chunksBytes src).length + 13) ++ R3 = R2
  generalize hR1 : chunksBytes src ++ 0 :: R2 = R1
  have hR1len : R1.length = (chunksBytes src).length + 1 + R2.length := by
    rw [← hR1]; simp; omega
  have s1 : ¬ ((xzHeader24 ++ R1).length < 24 ∨ (xzHeader24 ++ R1).take 6 ≠ xzHeader24.take 6) := by
    intro h
    rcases h with h | h
    · rw [List.length_append, hx] at h; omega
    · exact h (List.take_append_of_le_length (by rw [hx]; omega))
  have s2 : ¬ (((xzHeader24 ++ R1).take 24).drop 6 ≠ xzHeader24.drop 6) := by
    rw [List.take_left' hx]; simp
  have s3 : (xzHeader24 ++ R1).drop 24 = R1 := List.drop_left' hx
  have s4 : decodeXzChunks ((xzHeader24 ++ R1).length + 1) #[] R1 = ChunkResult.brk (pushList #[] src) R2 := by
    rw [← hR1]
    exact decode_chunks _ src _ _ _ rfl (by simp; omega)
  have s5 : (xzHeader24 ++ R1).length - 12 - R2.length + 4 = xzUnpadded src := by
    rw [List.length_append, hx, hR1len]; unfold xzUnpadded; omega
  have s6 : skipPad 3 (xzUnpadded src &&& 3) R2 = (true, R3) := by
    rw [← hR2]
    exact skipPad_padList _ _ _ (by unfold xzUnpadded; omega)
  have s7 : hasLe32 R3 (crc32Arr (pushList #[] src) 0) = true := by
    rw [← hR3, crc32Arr_pushList]; exact hasLe32_ok _ _
  have s8 : R3.drop 4 = R4 := by
    rw [← hR3]; exact List.drop_left' (le32_length _)
  have s9 : R4 = 0 :: 1 :: (uvList (xzUnpadded src) ++ (uvList src.length ++
      (padList (xzIdx src).length ++ R5))) := by
    rw [← hR4]; unfold xzIdxP xzIdx
    simp only [List.append_assoc, List.cons_append]
  have s10 := uvarint_roundtrip_list (xzUnpadded src) h2 (uvList src.length ++ (padList (xzIdx src).length ++ R5))
  have s11 := uvarint_roundtrip_list src.length h1 (padList (xzIdx src).length ++ R5)
  have s12 : (pushList #[] src).size = src.length := by rw [pushList_size]; simp
  have hR4len : R4.length = (xzIdx src).length + (padList (xzIdx src).length).length + R5.length := by
    rw [← hR4]; unfold xzIdxP; simp only [List.length_append]
  have s13 : skipPad 3 ((R4.length - (padList (xzIdx src).length ++ R5).length) &&& 3)
      (padList (xzIdx src).length ++ R5) = (true, R5) := by
    apply skipPad_padList
    rw [hR4len, List.length_append]; omega
  have s14 : R4.length - R5.length = (xzIdxP src).length := by
    rw [← hR4, List.length_append]; omega
  have s15 : R4.take (xzIdxP src).length = xzIdxP src := by
    rw [← hR4]; exact List.take_left
  have s16 : hasLe32 R5 (crc32 (xzIdxP src)) = true := by
    rw [← hR5]; exact hasLe32_ok _ _
  have s17 : R5.drop 4 = F := by
    rw [← hR5]; exact List.drop_left' (le32_length _)
  have s18 : ¬ (F.length < 12) := by rw [← hF]; simp [xzTail6, le32]
  have s19 : (F.drop 4).take 6 = xzTail6 src := by
    rw [← hF, List.drop_left' (le32_length _)]
    exact List.take_left' (by simp [xzTail6])
  have s20 : F.take 12 = le32 (crc32 (xzTail6 src)) ++ (xzTail6 src ++ [89, 90]) := by
    rw [← hF]
    simp [xzTail6, le32]
  have s21 : F.drop 12 = tail := by
    rw [← hF]
    simp [xzTail6, le32]
  have hz : (#[] : Array UInt8).size = 0 := rfl
  have hb01 : ¬ ((0 : UInt8) ≠ 0 ∨ (1 : UInt8) ≠ 1) := by decide
  have s22 : ¬ (le32 (crc32 (xzTail6 src)) ++ (xzTail6 src ++ ([89, 90] : List UInt8)) ≠
      le32 (crc32 (xzTail6 src)) ++
        ([((xzIdxP src).length >>> 2).toUInt8, ((xzIdxP src).length >>> 2 >>> 8).toUInt8,
          ((xzIdxP src).length >>> 2 >>> 16).toUInt8, ((xzIdxP src).length >>> 2 >>> 24).toUInt8, 0, 1, 89, 90] : List UInt8)) := by
    simp [xzTail6]
  subst s9
  unfold decodeXz
  simp only [s1, s2, s3, s4, s5, s6, s7, s8, hz, hb01, s10, s11, s12, s13, s14, s15, s16, s17, s18, s19, s20,
    s21, s22, if_false, Nat.sub_zero, ne_eq, not_true_eq_false, not_false_eq_true, or_self, if_true]

/-! ## size of the chunk sequence (so that one hypothesis on `src.length` suffices) -/

theorem chunkBytes_length_le (c : List UInt8) : (chunkBytes c).length ≤ c.length + 3 := by
  unfold chunkBytes encodeXzChunk
  dsimp only
  split
  · simp [pushList_toList]
  · rename_i h
    simp only [Array.toList_append, Array.toList_push, List.length_append, Array.length_toList,
      Array.toList_empty, List.length_nil, List.length_cons]
    omega

theorem chunksBytes_length_le : ∀ (n : Nat) (rem : List UInt8), rem.length = n →
    (chunksBytes rem).length ≤ 4 * rem.length := by
  intro n
  induction n using Nat.strongRecOn with
  | _ n ih =>
    intro rem hn
    by_cases h0 : rem.length = 0
    · have : rem = [] := List.eq_nil_of_length_eq_zero h0
      subst this
      rw [chunksBytes_nil]; simp
    · by_cases hbig : rem.length > 0x10000
      · rw [chunksBytes_big rem hbig, List.length_append]
        have h1 := chunkBytes_length_le (rem.take 0x10000)
        have hd : (rem.drop 0x10000).length < n := by simp only [List.length_drop]; omega
        have h2 := ih _ hd _ rfl
        simp only [List.length_take, List.length_drop] at h1 h2 ⊢
        omega
      · rw [chunksBytes_small rem h0 hbig]
        have h1 := chunkBytes_length_le rem
        omega

theorem xzUnpadded_lt (src : List UInt8) (h : src.length < 2 ^ 60) : xzUnpadded src < 2 ^ 63 := by
  unfold xzUnpadded
  have := chunksBytes_length_le _ src rfl
  omega

end WuffsVerif.Lzma
