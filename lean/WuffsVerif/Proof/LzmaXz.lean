/-
C17: the XZ container: layout of `encodeXz`'s output and the walk of `decodeXz` over it.
-/
import WuffsVerif.Proof.LzmaXzChunks
import WuffsVerif.Proof.LzmaUvarint

namespace WuffsVerif.Lzma

/-- the zero bytes that pad a count `n` to a multiple of four -/
def padList (n : Nat) : List UInt8 := List.replicate ((4 - n % 4) % 4) 0

theorem padTo4_toList (dst : Array UInt8) (n : Nat) : (padTo4 dst n).toList = dst.toList ++ padList n := by
  unfold padTo4 padList; rw [pushN_toList]

theorem padList_length (n : Nat) : (padList n).length = (4 - n % 4) % 4 := by simp [padList]

theorem and3 (i : Nat) : i &&& 3 = i % 4 := Nat.and_two_pow_sub_one_eq_mod i 2

theorem skipPad_ok : ∀ (fuel i : Nat) (rest : List UInt8), (4 - i % 4) % 4 ≤ fuel →
    skipPad fuel i (List.replicate ((4 - i % 4) % 4) 0 ++ rest) = (true, rest) := by
  intro fuel
  induction fuel with
  | zero =>
    intro i rest h
    have : (4 - i % 4) % 4 = 0 := by omega
    rw [this]; simp [skipPad]
  | succ f ih =>
    intro i rest h
    by_cases h0 : i % 4 = 0
    · have : (4 - i % 4) % 4 = 0 := by omega
      rw [this]
      simp [skipPad, and3, h0]
    · have hk : (4 - i % 4) % 4 = (4 - (i + 1) % 4) % 4 + 1 := by omega
      rw [hk, List.replicate_succ]
      simp only [List.cons_append, skipPad, and3]
      rw [if_pos h0]
      simp only [ne_eq, not_true_eq_false, if_false]
      exact ih (i + 1) rest (by omega)

theorem skipPad_padList (i n : Nat) (rest : List UInt8) (h : i % 4 = n % 4) :
    skipPad 3 (i &&& 3) (padList n ++ rest) = (true, rest) := by
  unfold padList
  have : (4 - n % 4) % 4 = (4 - (i &&& 3) % 4) % 4 := by rw [and3]; omega
  rw [this]
  exact skipPad_ok 3 _ rest (by omega)

/-! ## layout of the encoding -/

def xzUnpadded (src : List UInt8) : Nat := (chunksBytes src).length + 17

def xzIdx (src : List UInt8) : List UInt8 :=
  0x00 :: 0x01 :: (uvList (xzUnpadded src) ++ uvList src.length)

def xzIdxP (src : List UInt8) : List UInt8 := xzIdx src ++ padList (xzIdx src).length

def xzTail6 (src : List UInt8) : List UInt8 :=
  [((xzIdxP src).length >>> 2).toUInt8, (((xzIdxP src).length >>> 2) >>> 8).toUInt8,
   (((xzIdxP src).length >>> 2) >>> 16).toUInt8, (((xzIdxP src).length >>> 2) >>> 24).toUInt8, 0x00, 0x01]

theorem le32_length (c : UInt32) : (le32 c).length = 4 := rfl

theorem encodeXz_toList (src : List UInt8) :
    (encodeXz #[] src).toList =
      xzHeader24 ++ (chunksBytes src ++ (0x00 :: (padList ((chunksBytes src).length + 13) ++
        (le32 (crc32 src) ++ (xzIdxP src ++ (le32 (crc32 (xzIdxP src)) ++
          (le32 (crc32 (xzTail6 src)) ++ (xzTail6 src ++ [0x59, 0x5A])))))))) := by
  have hx : xzHeader24.length = 24 := rfl
  have e1 : ∀ c : Nat, 24 + c + (0 + 1) - (0 + 12) = c + 13 := by intro c; omega
  have e2 : ∀ c : Nat, c + 13 + 4 = c + 17 := by intro c; omega
  have e3 : ∀ a u1 u2 : Nat, a + (0 + 1) + (0 + 1) + u1 + u2 - a = (u1 + u2 + 1) + 1 := by
    intro a u1 u2; omega
  have e4 : ∀ a u1 u2 p : Nat, a + (0 + 1) + (0 + 1) + u1 + u2 + p - a = (u1 + u2 + 1) + 1 + p := by
    intro a u1 u2 p; omega
  unfold encodeXz crc32Arr
  simp only [pushList_toList, Array.toList_push, padTo4_toList, encodeUvarint_toList,
    encodeXzChunks_toList _ _ _ rfl, Array.size_eq_length_toList, List.length_append,
    Array.toList_empty, List.nil_append, List.length_cons, List.length_nil, le32_length, hx, e1, e2, e3, e4]
  have hdrop : List.drop
      (24 + (chunksBytes src).length + (0 + 1) + (padList ((chunksBytes src).length + 13)).length + 4)
      (xzHeader24 ++ chunksBytes src ++ [0] ++ padList ((chunksBytes src).length + 13) ++
                  le32 (crc32 src) ++ [0] ++ [1] ++ uvList ((chunksBytes src).length + 17) ++
          uvList src.length ++
        padList ((uvList ((chunksBytes src).length + 17)).length + (uvList src.length).length + 1 + 1))
      = xzIdxP src := by
    have hsplit : (xzHeader24 ++ chunksBytes src ++ [0] ++ padList ((chunksBytes src).length + 13) ++
                  le32 (crc32 src) ++ [0] ++ [1] ++ uvList ((chunksBytes src).length + 17) ++
          uvList src.length ++
        padList ((uvList ((chunksBytes src).length + 17)).length + (uvList src.length).length + 1 + 1))
        = (xzHeader24 ++ chunksBytes src ++ [0] ++ padList ((chunksBytes src).length + 13) ++
                  le32 (crc32 src)) ++ xzIdxP src := by
      unfold xzIdxP xzIdx xzUnpadded
      simp only [List.append_assoc, List.cons_append, List.nil_append, List.length_cons, List.length_append]
    rw [hsplit]
    apply List.drop_left'
    simp only [List.length_append, hx, le32_length, List.length_cons, List.length_nil]
  rw [hdrop]
  unfold xzTail6
  have hlen : (xzIdxP src).length = (uvList ((chunksBytes src).length + 17)).length + (uvList src.length).length
      + 1 + 1 + (padList ((uvList ((chunksBytes src).length + 17)).length + (uvList src.length).length + 1 + 1)).length := by
    unfold xzIdxP xzIdx xzUnpadded
    simp only [List.length_append, List.length_cons]
  rw [hlen]
  have hI : xzIdxP src = 0 :: 1 :: (uvList ((chunksBytes src).length + 17) ++ (uvList src.length ++
      padList ((uvList ((chunksBytes src).length + 17)).length + (uvList src.length).length + 1 + 1))) := by
    unfold xzIdxP xzIdx xzUnpadded
    simp only [List.append_assoc, List.cons_append, List.nil_append, List.length_cons, List.length_append]
  rw [hI]
  simp only [List.append_assoc, List.cons_append, List.nil_append]

/-! ## the walk of `decodeXz` -/

theorem hasLe32_ok (c : UInt32) (rest : List UInt8) : hasLe32 (le32 c ++ rest) c = true := by
  unfold hasLe32
  simp [le32]

theorem crc32Arr_pushList (src : List UInt8) : crc32Arr (pushList #[] src) 0 = crc32 src := by
  unfold crc32Arr; rw [pushList_toList]; simp

theorem xz_roundtrip_tail (src tail : List UInt8) (h1 : src.length < 2 ^ 63) (h2 : xzUnpadded src < 2 ^ 63) :
    decodeXz #[] ((encodeXz #[] src).toList ++ tail) = (pushList #[] src, tail, Err.ok) := by
  rw [encodeXz_toList]
  simp only [List.append_assoc, List.cons_append, List.nil_append]
  trace_state
  sorry

end WuffsVerif.Lzma
