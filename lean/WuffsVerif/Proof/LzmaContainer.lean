/-
C17: round trip of the LZMA container (`encodeLZMA` / `decodeLZMA`).
-/
import WuffsVerif.Proof.LzmaFrame

namespace WuffsVerif.Lzma

theorem encodeLZMA_toList (src : List UInt8) :
    (encodeLZMA #[] src).toList =
      0x5D :: 0x00 :: 0x10 :: 0x00 :: 0x00 :: (le64 src.length ++ (encodeRaw #[] src).toList) := by
  unfold encodeLZMA
  rw [encodeRaw_toList, pushList_toList, pushList_toList]
  simp [lzmaHeader5]

theorem lzma_roundtrip_tail (dst : Array UInt8) (src tail : List UInt8)
    (hlen : src.length < 9223372036854775808) :
    decodeLZMA dst ((encodeLZMA #[] src).toList ++ tail) = (pushList dst src, tail, Err.ok) := by
  have h5 := encodeRaw_length src
  rw [← Array.length_toList] at h5
  rw [encodeLZMA_toList]
  generalize hraw : (encodeRaw #[] src).toList = raw at *
  have hrt := raw_roundtrip_tail dst src tail Err.unsupportedLZMA
  rw [hraw] at hrt
  unfold decodeLZMA
  have hlen18 : ¬ ((0x5D :: 0x00 :: 0x10 :: 0x00 :: 0x00 :: (le64 src.length ++ raw) ++ tail).length < 18) := by
    simp [le64_length]; omega
  have hhd : ¬ (((0x5D :: 0x00 :: 0x10 :: 0x00 :: 0x00 :: (le64 src.length ++ raw) ++ tail).headD 0).toNat ≥ 9 * 5 * 5) := by
    simp
  have htake : (0x5D :: 0x00 :: 0x10 :: 0x00 :: 0x00 :: (le64 src.length ++ raw) ++ tail).take 5 = lzmaHeader5 := by
    simp [lzmaHeader5]
  have hdrop5 : (0x5D :: 0x00 :: 0x10 :: 0x00 :: 0x00 :: (le64 src.length ++ raw) ++ tail).drop 5
      = le64 src.length ++ (raw ++ tail) := by
    simp
  have hdrop13 : (0x5D :: 0x00 :: 0x10 :: 0x00 :: 0x00 :: (le64 src.length ++ raw) ++ tail).drop 13
      = raw ++ tail := by
    have h813 : List.drop 13 (0x5D :: 0x00 :: 0x10 :: 0x00 :: 0x00 :: (le64 src.length ++ raw) ++ tail)
        = List.drop 8 (List.drop 5 (0x5D :: 0x00 :: 0x10 :: 0x00 :: 0x00 :: (le64 src.length ++ raw) ++ tail)) := by
      rw [List.drop_drop]
    rw [h813, hdrop5]
    exact List.drop_left' (le64_length _)
  rw [if_neg (by intro h; cases h with | inl h => exact hlen18 h | inr h => exact hhd h)]
  rw [htake, if_neg (by simp)]
  simp only [hdrop5, hdrop13, readLe64_le64 _ (show src.length < 18446744073709551616 by omega)]
  rw [if_neg (by omega), if_neg (by omega)]
  exact hrt

end WuffsVerif.Lzma
