/-
C17: output bound of the container decoders, for arbitrary input: `|out| ≤ |dst| + 42·|src|`.
-/
import WuffsVerif.Proof.LzmaBound

namespace WuffsVerif.Lzma

theorem decodeLZMA_bound (dst : Array UInt8) (src : List UInt8) :
    (decodeLZMA dst src).1.size ≤ dst.size + 42 * src.length := by
  unfold decodeLZMA
  split
  · dsimp only; omega
  · split
    · dsimp only; omega
    · dsimp only
      split
      · dsimp only; omega
      · split
        · dsimp only; omega
        · have := decodeRaw_bound dst (src.drop 13) (readLe64 (src.drop 5)) Err.unsupportedLZMA
          simp only [List.length_drop] at this
          omega

def ChunkResult.dst : ChunkResult → Array UInt8
  | .ret d _ _ => d
  | .brk d _ => d

def ChunkResult.src : ChunkResult → List UInt8
  | .ret _ s _ => s
  | .brk _ s => s

theorem decodeXzChunks_bound : ∀ (fuel : Nat) (dst : Array UInt8) (src : List UInt8),
    9 * (decodeXzChunks fuel dst src).dst.size + 378 * (decodeXzChunks fuel dst src).src.length
      ≤ 9 * dst.size + 378 * src.length := by
  intro fuel
  induction fuel with
  | zero => intro dst src; simp [decodeXzChunks, ChunkResult.dst, ChunkResult.src]
  | succ fuel ih =>
    intro dst src
    unfold decodeXzChunks
    split
    · simp [ChunkResult.dst, ChunkResult.src]
    · rename_i c src1
      split
      · simp only [ChunkResult.dst, ChunkResult.src, List.length_cons]; omega
      · split
        · split
          · rename_i u1 u0 src3
            dsimp only
            split
            · simp only [ChunkResult.dst, ChunkResult.src, List.length_cons]; omega
            · rename_i hle
              have := ih (pushList dst (src3.take ((u1.toNat <<< 8) + u0.toNat + 1)))
                (src3.drop ((u1.toNat <<< 8) + u0.toNat + 1))
              rw [pushList_size] at this
              simp only [List.length_take, List.length_drop, List.length_cons] at this ⊢
              omega
          · simp only [ChunkResult.dst, ChunkResult.src]; omega
        · split
          · split
            · rename_i u1 u0 c1 c0 prop src6
              split
              · simp only [ChunkResult.dst, ChunkResult.src]; omega
              · dsimp only
                split
                · simp only [ChunkResult.dst, ChunkResult.src, List.length_cons]; omega
                · have hr := decodeRaw_bound dst src6 ((u1.toNat <<< 8) + u0.toNat + 1) Err.unsupportedXz
                  generalize decodeRaw dst src6 ((u1.toNat <<< 8) + u0.toNat + 1) Err.unsupportedXz = res at *
                  obtain ⟨dst', src', err⟩ := res
                  dsimp only at hr ⊢
                  split
                  · simp only [ChunkResult.dst, ChunkResult.src, List.length_cons]; omega
                  · split
                    · simp only [ChunkResult.dst, ChunkResult.src, List.length_cons]; omega
                    · have := ih dst' src'
                      simp only [List.length_cons]
                      omega
            · simp only [ChunkResult.dst, ChunkResult.src]; omega
          · simp only [ChunkResult.dst, ChunkResult.src]; omega

/-- whatever `decodeXz` returns, its first component is `dst0` or the `dst` the chunk loop ended with -/
theorem decodeXz_fst (dst0 : Array UInt8) (src0 : List UInt8) :
    (decodeXz dst0 src0).1 = dst0 ∨
    (decodeXz dst0 src0).1 = (decodeXzChunks (src0.length + 1) dst0 (src0.drop 24)).dst := by
  unfold decodeXz
  dsimp only
  split
  · exact Or.inl rfl
  · split
    · exact Or.inl rfl
    · right
      generalize decodeXzChunks (src0.length + 1) dst0 (src0.drop 24) = cr
      cases cr with
      | ret d s e => rfl
      | brk d s =>
        dsimp only [ChunkResult.dst]
        repeat' split
        all_goals rfl

theorem decodeXz_bound (dst0 : Array UInt8) (src0 : List UInt8) :
    (decodeXz dst0 src0).1.size ≤ dst0.size + 42 * src0.length := by
  rcases decodeXz_fst dst0 src0 with h | h
  · rw [h]; omega
  · rw [h]
    have := decodeXzChunks_bound (src0.length + 1) dst0 (src0.drop 24)
    simp only [List.length_drop] at this
    omega

end WuffsVerif.Lzma
